#!/bin/bash
# Offline build of the Coq development: full .vo build, never -vos.
set -e
cd "$(dirname "$0")/coq"
{ echo "-Q . SP"; find . -name '*.v' ! -name 'cases_*' ! -path './scratch/*' | sed 's|^\./||' | LC_ALL=C sort; } > _CoqProject
coq_makefile -f _CoqProject -o Makefile >/dev/null
if [ "$1" = "--makefile-only" ]; then exit 0; fi
timeout 7200 make -j"$(nproc)" 2>&1 | tail -40
test "${PIPESTATUS[0]}" = 0
echo "setup: coq build ok"
