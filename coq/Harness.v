(* Glue for the correspondence check: decidable equality on result types and
   the function that compares, inside the kernel, the model's result with the
   result the implementation produced on the same input.  No proofs here. *)
From Coq Require Import ZArith NArith List Bool String Ascii.
Import ListNotations.

Class EqbC (A : Type) := eqbc : A -> A -> bool.

#[export] Instance EqbC_Z : EqbC Z := Z.eqb.
#[export] Instance EqbC_N : EqbC N := N.eqb.
#[export] Instance EqbC_nat : EqbC nat := Nat.eqb.
#[export] Instance EqbC_bool : EqbC bool := Bool.eqb.
#[export] Instance EqbC_unit : EqbC unit := fun _ _ => true.
#[export] Instance EqbC_string : EqbC string := String.eqb.

#[export] Instance EqbC_option {A} `{EqbC A} : EqbC (option A) :=
  fun a b => match a, b with
             | Some x, Some y => eqbc x y
             | None, None => true
             | _, _ => false
             end.

#[export] Instance EqbC_prod {A B} `{EqbC A} `{EqbC B} : EqbC (A * B) :=
  fun a b => eqbc (fst a) (fst b) && eqbc (snd a) (snd b).

#[export] Instance EqbC_sum {A B} `{EqbC A} `{EqbC B} : EqbC (A + B) :=
  fun a b => match a, b with
             | inl x, inl y => eqbc x y
             | inr x, inr y => eqbc x y
             | _, _ => false
             end.

Fixpoint list_eqb {A} (e : A -> A -> bool) (l1 l2 : list A) : bool :=
  match l1, l2 with
  | [], [] => true
  | x :: t1, y :: t2 => e x y && list_eqb e t1 t2
  | _, _ => false
  end.

#[export] Instance EqbC_list {A} `{EqbC A} : EqbC (list A) := list_eqb eqbc.

(* [mism f cases]: positions (0-based, as Z) of the cases on which the model
   [f] and the implementation's recorded result disagree. *)
Fixpoint mism_from {A B} `{EqbC B} (f : A -> B) (cases : list (A * B)) (i : Z) : list Z :=
  match cases with
  | [] => []
  | (a, b) :: t =>
      if eqbc (f a) b then mism_from f t (i + 1)%Z
      else i :: mism_from f t (i + 1)%Z
  end.

Definition mism {A B} `{EqbC B} (f : A -> B) (cases : list (A * B)) : list Z :=
  mism_from f cases 0%Z.
