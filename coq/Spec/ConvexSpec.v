(* Triangles and convex rings in the real plane, stated declaratively (no
   winding number, no ray): orientation of three points, "strictly inside" =
   strictly on the inner side of every edge line, "strictly outside" =
   strictly on the outer side of some edge line, or (more generally, for any
   ring) separated from all vertices by a line.

   A ring is given by its list of distinct vertices vs = [v0; ...; vk]
   (k >= 2); the closed ring handed to the code is [close_ring vs] =
   v0 ... vk v0.

   Convexity.  "Every consecutive triple turns the same way" is NOT enough:
   the pentagram v0 v2 v4 v1 v3 of a regular pentagon turns left at every
   vertex, its centre is strictly left of all five edge lines, and its winding
   number there is 2 (ConvexPolygon.pentagram_wn2).  [convex_ring] therefore
   asks that EVERY three vertices taken in ring order turn the same way
   (strictly): this is "the vertices are in strictly convex position and the
   ring visits them in their cyclic order, once"; it implies that every
   vertex other than the edge's ends lies strictly on the inner side of every
   edge line (ConvexPolygon.convex_vertex_inner_side). *)
From Coq Require Import Reals ZArith List.
From SP Require Import Spec.PointShapeSpec Spec.Winding.
Import ListNotations.
Open Scope R_scope.

(* twice the signed area of the triangle A B C: > 0 iff C lies strictly to the
   left of the directed line A -> B (counter-clockwise turn) *)
Definition orient (A B C : rpt) : R :=
  (fst B - fst A) * (snd C - snd A) - (snd B - snd A) * (fst C - fst A).

(* [turn true] = strict left turn, [turn false] = strict right turn *)
Definition turn (ccw : bool) (A B C : rpt) : Prop :=
  if ccw then 0 < orient A B C else orient A B C < 0.

(* ---- triangles (either orientation) ---- *)

(* strictly on the same side of the three edge lines A->B, B->C, C->A
   (this forces the triangle to be non-degenerate, with that orientation) *)
Definition strictly_inside_triangle (A B C P : rpt) : Prop :=
  (turn true A B P /\ turn true B C P /\ turn true C A P) \/
  (turn false A B P /\ turn false B C P /\ turn false C A P).

(* strictly on the outer side of at least one edge line = not in the closed
   triangle; "outer" is read off the orientation of A B C *)
Definition strictly_outside_triangle (A B C P : rpt) : Prop :=
  orient A B C * orient A B P < 0 \/
  orient A B C * orient B C P < 0 \/
  orient A B C * orient C A P < 0.

(* ---- convex rings ---- *)

Fixpoint ordered_pairs (Q : rpt -> rpt -> Prop) (l : list rpt) : Prop :=
  match l with
  | [] => True
  | b :: t => Forall (Q b) t /\ ordered_pairs Q t
  end.

(* T holds of every three elements taken in list order *)
Fixpoint ordered_triples (T : rpt -> rpt -> rpt -> Prop) (l : list rpt) : Prop :=
  match l with
  | [] => True
  | a :: t => ordered_pairs (T a) t /\ ordered_triples T t
  end.

Definition convex_ring (ccw : bool) (vs : list rpt) : Prop :=
  (3 <= length vs)%nat /\ ordered_triples (turn ccw) vs.

Definition close_ring (vs : list rpt) : list rpt :=
  match vs with
  | [] => []
  | a :: _ => vs ++ [a]
  end.

(* strictly on the inner side of every edge line *)
Definition strictly_inside_convex (ccw : bool) (vs : list rpt) (P : rpt) : Prop :=
  Forall (fun e => turn ccw (fst e) (snd e) P) (consec (close_ring vs)).

(* strictly on the outer side of some edge line *)
Definition strictly_outside_convex (ccw : bool) (vs : list rpt) (P : rpt) : Prop :=
  Exists (fun e => turn (negb ccw) (fst e) (snd e) P) (consec (close_ring vs)).

(* strictly outside every hole (holes wound [ccw_holes]) *)
Definition outside_holes (ccw_holes : bool) (holes : list (list rpt)) (P : rpt) : Prop :=
  Forall (fun h => strictly_outside_convex ccw_holes h P) holes.

(* ---- any ring: some closed half-plane holds every vertex and not P
   (P is outside the convex hull of the ring) ---- *)
Definition separated (ring : list rpt) (P : rpt) : Prop :=
  exists p q r : R,
    Forall (fun V => 0 <= p * fst V + q * snd V + r) ring /\
    p * fst P + q * snd P + r < 0.

(* every vertex of [inner] is on the inner side of (or on) every edge line of
   the convex ring [vs]: [inner] lies in the closed polygon *)
Definition ring_inside_convex (ccw : bool) (vs inner : list rpt) : Prop :=
  Forall (fun e =>
            Forall (fun V => if ccw then 0 <= orient (fst e) (snd e) V
                             else orient (fst e) (snd e) V <= 0) inner)
         (consec (close_ring vs)).

(* ---- a convex shell with convex holes wound the other way ---- *)
Definition convex_polygon (shell : list rpt) (holes : list (list rpt)) : list (list rpt) :=
  close_ring shell :: map close_ring holes.

(* ---- extra vertices on edges (weakly convex rings) ----
   [refines r' r]: the ring r' is r with further vertices inserted on its
   edges (closed segments, end points allowed: repeated vertices), any number
   of times.  The region is the same. *)
Inductive refines : list rpt -> list rpt -> Prop :=
| refines_refl : forall r, refines r r
| refines_insert : forall l1 A M B l2 r,
    on_seg A B M -> refines (l1 ++ A :: B :: l2) r -> refines (l1 ++ A :: M :: B :: l2) r.

(* ---- rings cut into convex pieces along diagonals ----
   [decomposes R pieces]: the closed ring R is cut into the closed rings
   [pieces] by diagonals: a v.. b w.. a  splits along the diagonal a-b into
   a v.. b a  and  b w.. a b  (each traversed in the direction of R), and so on
   recursively.  Every triangulation of a simple polygon is of this form. *)
Inductive decomposes : list rpt -> list (list rpt) -> Prop :=
| dec_one : forall R, decomposes R [R]
| dec_split : forall a l1 b l2 ps1 ps2,
    decomposes (a :: l1 ++ [b; a]) ps1 -> decomposes (b :: l2 ++ [a; b]) ps2 ->
    decomposes (a :: l1 ++ b :: l2 ++ [a]) (ps1 ++ ps2).

(* P on the segment A B, end points excluded *)
Definition on_open_seg (A B P : rpt) : Prop :=
  exists t, 0 < t < 1 /\
    fst P = fst A + t * (fst B - fst A) /\
    snd P = snd A + t * (snd B - snd A).

(* P lies on the open edge A -> B of the counter-clockwise convex ring vs and
   strictly on the inner side of every other edge line *)
Definition on_edge_of_convex (vs : list rpt) (A B P : rpt) : Prop :=
  exists e1 e2, consec (close_ring vs) = e1 ++ (A, B) :: e2 /\
                on_open_seg A B P /\
                Forall (fun e => turn true (fst e) (snd e) P) (e1 ++ e2).

(* every piece is separated from P by a line (P is outside each piece) *)
Definition away (P : rpt) (qs : list (list rpt)) : Prop :=
  Forall (fun q => separated (close_ring q) P) qs.
