(* Point sets of the plane R x R that C01 speaks about.  Shapes with integer
   coordinates are injected with IZR. *)
From Coq Require Import Reals ZArith List.
From SP Require Import Model.Num Model.PointKernels.
Import ListNotations.
Open Scope R_scope.

Definition P2 := (R * R)%type.

Definition zp (p : pt) : P2 := (IZR (fst p), IZR (snd p)).

(* P lies on the closed segment AB *)
Definition on_seg (A B P : P2) : Prop :=
  exists t, 0 <= t <= 1 /\
            fst P = fst A + t * (fst B - fst A) /\
            snd P = snd A + t * (snd B - snd A).

(* the closed box [x0,x1] x [y0,y1] *)
Definition in_box (x0 y0 x1 y1 : R) (P : P2) : Prop :=
  x0 <= fst P <= x1 /\ y0 <= snd P <= y1.

(* two closed segments share a point *)
Definition segs_meet (A0 A1 B0 B1 : P2) : Prop :=
  exists P, on_seg A0 A1 P /\ on_seg B0 B1 P.

(* the point set of a polyline with vertex list vs: its vertices and the closed
   segments between consecutive vertices (a one-vertex line is that point, an
   empty line is the empty set) *)
Definition line_set (vs : list pt) (P : P2) : Prop :=
  (exists v, In v vs /\ P = zp v) \/
  (exists e, In e (edges vs) /\ on_seg (zp (fst e)) (zp (snd e)) P).

(* several polylines *)
Definition lines_set (ls : list (list pt)) (P : P2) : Prop :=
  exists vs, In vs ls /\ line_set vs P.

(* box given by integer corners *)
Definition in_zbox (x0 y0 x1 y1 : Z) (P : P2) : Prop :=
  in_box (IZR x0) (IZR y0) (IZR x1) (IZR y1) P.

(* ---- polygons: winding number by the half-open crossing rule ----
   An edge AB is crossed by the horizontal ray from P to the right when one
   endpoint is strictly below P, the other at or above P, and the point of the
   edge at P's height is at or right of P; it counts +1 going up, -1 going down. *)
Definition edge_x_at (A B : P2) (y : R) : R :=
  fst A + (y - snd A) * (fst B - fst A) / (snd B - snd A).

Definition above (P V : P2) : Z := if Rle_dec (snd P) (snd V) then 1%Z else 0%Z.

Definition wn_edge (P A B : P2) : Z :=
  if Req_EM_T (snd A) (snd B) then 0%Z
  else if Rle_dec (fst P) (edge_x_at A B (snd P)) then (above P B - above P A)%Z
  else 0%Z.

Definition zsum (l : list Z) : Z := fold_right Z.add 0%Z l.

Definition wn_ring (P : P2) (vs : list pt) : Z :=
  zsum (map (fun e => wn_edge P (zp (fst e)) (zp (snd e))) (edges vs)).

Definition wn (rings : list (list pt)) (P : P2) : Z := zsum (map (wn_ring P) rings).

(* the closed region of a polygon given by its rings (shell first, then holes):
   all ring boundaries, and the points of non-zero winding number *)
Definition poly_region (rings : list (list pt)) (P : P2) : Prop :=
  (exists r, In r rings /\ line_set r P) \/ wn rings P <> 0%Z.

Definition multipoly_region (polys : list (list (list pt))) (P : P2) : Prop :=
  exists rings, In rings polys /\ poly_region rings P.
