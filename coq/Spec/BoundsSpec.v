(* What C13 says, independently of how the code computes it. *)
From Coq Require Import ZArith List Bool Arith.
From SP Require Import Model.Num Model.Arrow Model.Bounds.
Import ListNotations.
Open Scope Z_scope.

Definition is_min (m : Z) (l : list Z) : Prop := In m l /\ forall x, In x l -> m <= x.
Definition is_max (m : Z) (l : list Z) : Prop := In m l /\ forall x, In x l -> x <= m.

(* the finite x (resp. y) coordinates of an interleaved coordinate list *)
Definition finite_of (l : list num) : list Z :=
  flat_map (fun o => match o with Some v => [v] | None => [] end) l.
Definition xs_of (vs : list num) : list Z := finite_of (map fst (pairs vs)).
Definition ys_of (vs : list num) : list Z := finite_of (map snd (pairs vs)).

(* (lo, hi) is the tight extent of l: NaN when l is empty, else its min and max *)
Definition extent (l : list Z) (lo hi : num) : Prop :=
  match l with
  | [] => lo = None /\ hi = None
  | _ => exists a b, lo = Some a /\ hi = Some b /\ is_min a l /\ is_max b l
  end.

Definition tight_box (vs : list num) (b : bbox) : Prop :=
  let '(x0, y0, x1, y1) := b in
  extent (xs_of vs) x0 x1 /\ extent (ys_of vs) y0 y1.

(* the coordinates of the non-missing elements of an array, in order *)
Definition la_valid_coords (a : listarr) : list num :=
  concat (map (fun o => match o with Some vs => vs | None => [] end) (decode_flat a)).

Definition point_coords (p : option (num * num)) : list num :=
  match p with Some (x, y) => [x; y] | None => [] end.
Definition fa_valid_coords (a : fixarr) : list num :=
  concat (map point_coords (fa_decode a)).

(* a missing slot of a list array spans an empty range of the values buffer
   (what pyarrow's builders, slice, take and concat_arrays produce) *)
Definition nulls_empty (a : listarr) : bool :=
  forallb (fun i => negb (isna_at (la_valid a) (la_off a) i)
                    || Nat.eqb (getn (buffer_outer_offsets a) i)
                               (getn (buffer_outer_offsets a) (S i)))
          (seq 0 (la_len a)).

(* every outer offset is even: each element spans whole (x, y) pairs of the
   interleaved values buffer *)
Definition even_outer (a : listarr) : bool :=
  forallb Nat.even (buffer_outer_offsets a).
