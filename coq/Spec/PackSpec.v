(* What C10 / C19 say, independently of how the procedure goes about it. *)
From Coq Require Import ZArith List Bool Arith Permutation.
From SP Require Import Model.FS Model.PackFS Model.Retry.
Import ListNotations.

(* two trees are the same tree when every path holds the same node (the order of the
   entries of the representation is immaterial) *)
Definition same_tree (a b : fs) : Prop := forall q, node_at a q = node_at b q.

(* the output partitions that receive at least one row, ascending *)
Definition has_output (asg : assignment) (N : nat) : bool :=
  existsb (fun outs => existsb (Nat.eqb N) outs) asg.
Definition nonempty_outputs (k : nat) (asg : assignment) : list nat :=
  filter (has_output asg) (seq 0 k).

(* the cells (i, N) of output N, i ascending *)
Fixpoint cells_from (asg : assignment) (i N : nat) : list cell :=
  match asg with
  | [] => []
  | outs :: t => (if existsb (Nat.eqb N) outs then [(i, N)] else []) ++ cells_from t (S i) N
  end.
Definition cells_of (asg : assignment) (N : nat) : list cell := cells_from asg 0 N.

(* every output number mentioned by the assignment is a requested partition *)
Definition wf_asg (k : nat) (asg : assignment) : Prop :=
  forall outs N, In outs asg -> In N outs -> N < k.

(* the task orders are orders of all the tasks *)
Definition wf_orders (cfg : config) (asg : assignment) : Prop :=
  Permutation (c_iorder cfg) (seq 0 (length asg)) /\
  Permutation (c_corder cfg) (seq 0 (c_k cfg)).

(* what must be found below the dataset path: exactly part.0 .. part.(m-1) as files with
   the given contents, _metadata, _common_metadata, and nothing else *)
Definition dataset_node (parts : list (list cell)) (rel : path) : option node :=
  match rel with
  | [] => Some Dir
  | [NPart j] => match nth_error parts j with
                 | Some cells => Some (File (CRows cells))
                 | None => None
                 end
  | [NMeta] => Some (File (CMeta parts))
  | [NCommon] => Some (File (CCommon parts))
  | _ => None
  end.

(* q is a non-root ancestor-or-self of t *)
Definition on_the_way (q t : path) : bool :=
  match q with [] => false | _ => is_prefix q t end.

(* the whole tree after the call, given the tree before it:
   - below the dataset path: the dataset and nothing else;
   - elsewhere: untouched, except that with an external temp directory format the parent
     directory of the per-partition temp directories (and its ancestors) now exist -- they
     are created by makedirs and never removed *)
Definition expected_node (f0 : fs) (cfg : config) (parts : list (list cell)) (q : path) : option node :=
  match strip_prefix (c_path cfg) q with
  | Some rel => dataset_node parts rel
  | None =>
      match c_tmp cfg with
      | TInside => if on_the_way q (c_path cfg) then Some Dir else node_at f0 q
      | TExternal t =>
          if on_the_way q (c_path cfg) || on_the_way q t then Some Dir else node_at f0 q
      end
  end.

(* the temp directories are not in the way of the dataset and vice versa *)
Definition tmp_separate (cfg : config) : Prop :=
  match c_tmp cfg with
  | TInside => True
  | TExternal t =>
      is_prefix (c_path cfg) t = false /\
      forall N, is_prefix (t ++ [NTmp N]) (c_path cfg) = false
  end.

(* the preconditions on the tree the call starts from *)
Definition prior_ok (f0 : fs) (cfg : config) : Prop :=
  nodup_keys f0 = true /\
  c_path cfg <> [] /\
  (* no file where a directory is needed on the way to the dataset / the temp parent *)
  (forall q, on_the_way q (parent (c_path cfg)) = true -> isfile_b f0 q = false) /\
  (* the tree is a tree at the dataset path: nothing below a path that does not exist *)
  (node_at f0 (c_path cfg) = None ->
   forall q, is_prefix (c_path cfg) q = true -> node_at f0 q = None) /\
  match c_tmp cfg with
  | TInside => True
  | TExternal t =>
      (forall q, on_the_way q t = true -> isfile_b f0 q = false) /\
      (* the per-partition temp directories do not exist yet *)
      (forall N q, is_prefix (t ++ [NTmp N]) q = true -> node_at f0 q = None)
  end /\
  (* without overwrite nothing may be at the dataset path yet *)
  (c_overwrite cfg = false -> forall q, is_prefix (c_path cfg) q = true -> node_at f0 q = None).

(* ------------------------------------------------------------------ C19 *)
Definition fault_free_tree (f0 : fs) (cfg : config) (asg : assignment) : option fs :=
  match pack f0 cfg asg with OK _ f1 => Some f1 | Err _ => None end.

(* a schedule without lying existence checks *)
Definition no_lie (sched : list (option fault)) : Prop := ~ In (Some FLie) sched.
