(* What C15's "each ring keeps exactly its vertices in the same cyclic order or its reverse"
   says about a values buffer of ANY element type (float32 / float64 values, int16 / int32 /
   int64 values: whatever the array holds, not only the integers of Model/Orient.v). *)
From Coq Require Import PrimFloat ZArith List Bool Arith.
From SP Require Import Model.Num Model.Arrow Model.Measures Model.Orient Model.FloatMeasures
  Model.FloatOrient.
Import ListNotations.
Local Open Scope nat_scope.

(* ring j of a values buffer under ring offsets ro  (Spec.OrientSpec.ring_at at any type) *)
Definition ring_at_g {A} (vals : list A) (ro : list nat) (j : nat) : list A :=
  slice (getn ro j) (getn ro (j + 1)) vals.

(* reversal of the vertex order of an interleaved coordinate list (OrientSpec.rev_ring) *)
Definition rev_ring_g {A} (r : list A) : list A :=
  interleave (rev (evens r)) (rev (odds r)).

(* the vertices of an interleaved coordinate list *)
Fixpoint pairs_g {A} (vs : list A) : list (A * A) :=
  match vs with
  | x :: y :: t => (x, y) :: pairs_g t
  | _ => []
  end.

(* the decision the code takes for ring j: on the binary64 area of the ORIGINAL values *)
Definition f_flips {A} (to_f : A -> float) (vals : list A) (po ro : list nat) (j : nat) : bool :=
  f_flip_test (nth j (f_ring_areas (map to_f vals) ro) nan) (nth j (expected_ccw po ro) false).
