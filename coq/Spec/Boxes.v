(* What C03 says, independently of how the index computes it: closed boxes,
   overlap and coverage of a box by a query box, the union of boxes.
   A row is [min_0 .. min_{d-1}, max_0 .. max_{d-1}] over [num = option Z]
   ([None] = NaN); a row with any NaN coordinate has no box: it overlaps nothing
   and is covered by nothing. *)
From Coq Require Import ZArith List Bool Arith.
From SP Require Import Model.Num Model.Rtree.
Import ListNotations.

(* no coordinate is NaN *)
Definition row_finite (r : row) : bool := forallb (fun x => negb (isnan x)) r.

(* the closed box of [r] meets the closed query box [q]:
   min_k(r) <= qmax_k and qmin_k <= max_k(r) on every axis *)
Definition overlapsb (d : nat) (r : row) (q : list Z) : bool :=
  row_finite r &&
  forallb (fun k => nle (col k r) (qv q (d + k)) && nle (qv q k) (col (d + k) r)) (seq 0 d).

(* the closed box of [r] lies inside the closed query box [q] *)
Definition coveredb (d : nat) (r : row) (q : list Z) : bool :=
  row_finite r &&
  forallb (fun k => nle (qv q k) (col k r) && nle (col (d + k) r) (qv q (d + k))) (seq 0 d).

(* the same as propositions over the integers *)
Definition overlaps (d : nat) (r : row) (q : list Z) : Prop :=
  row_finite r = true /\
  forall k, k < d -> exists a b, col k r = Some a /\ col (d + k) r = Some b /\
                                 (a <= nth (d + k) q 0)%Z /\ (nth k q 0 <= b)%Z.
Definition covered (d : nat) (r : row) (q : list Z) : Prop :=
  row_finite r = true /\
  forall k, k < d -> exists a b, col k r = Some a /\ col (d + k) r = Some b /\
                                 (nth k q 0 <= a)%Z /\ (b <= nth (d + k) q 0)%Z.

(* a row is a box of dimension d: 2d coordinates and, unless it has a NaN,
   min <= max on every axis *)
Definition wf_box (d : nat) (r : row) : Prop :=
  length r = 2 * d /\
  (row_finite r = true -> forall k, k < d -> nle (col k r) (col (d + k) r) = true).

(* union of the boxes of the finite rows *)
Definition is_min (m : Z) (l : list Z) : Prop := In m l /\ forall x, In x l -> (m <= x)%Z.
Definition is_max (m : Z) (l : list Z) : Prop := In m l /\ forall x, In x l -> (x <= m)%Z.

(* column c of the rows that have a box *)
Definition col_values (c : nat) (rs : list row) : list Z :=
  flat_map (fun r => match col c r with Some v => [v] | None => [] end) (filter row_finite rs).

Definition lower_of (l : list Z) (m : num) : Prop :=
  match l with [] => m = None | _ => exists a, m = Some a /\ is_min a l end.
Definition upper_of (l : list Z) (m : num) : Prop :=
  match l with [] => m = None | _ => exists a, m = Some a /\ is_max a l end.

(* [b] is the union (per-axis min of the mins, max of the maxes) of the boxes of
   [rs]; all NaN when no row has a box *)
Definition union_box (d : nat) (rs : list row) (b : row) : Prop :=
  length b = 2 * d /\
  forall k, k < d -> lower_of (col_values k rs) (col k b) /\
                     upper_of (col_values (d + k) rs) (col (d + k) b).

(* row numbers 0..n-1 *)
Definition row_indices (rows : list row) : list nat := seq 0 (length rows).
