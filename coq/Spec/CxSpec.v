(* What C04 says, independently of how .cx computes it.

   "Intersects" is the C01 notion: entry i of the array's own
   intersects_bounds(box) (Model/Intersect.v, whose geometric meaning is the
   subject of Properties/C01.v). *)
From Coq Require Import ZArith List Bool Arith.
From SP Require Import Model.Num Model.Arrow Model.Bounds Model.PointKernels
     Model.Intersect Model.Rtree Model.Cx.
Import ListNotations.

(* does row i of the array intersect the box *)
Definition row_hits (g : garr) (b : box) (i : nat) : bool :=
  match g_intersects_bounds g b None with
  | Some r => nth i r false
  | None => false
  end.

(* the rows .cx must select: the positions of the intersecting rows, increasing *)
Definition cx_spec (g : garr) (b : box) : list nat :=
  filter (row_hits g b) (seq 0 (g_len g)).

(* the rows of a container (label, payload, geometry), aligned with the array,
   that .cx must return: the intersecting ones, in their original order *)
Definition rows_spec {A} (g : garr) (b : box) (rows : list A) : list A :=
  map snd (filter (fun ir => row_hits g b (fst ir)) (combine (seq 0 (length rows)) rows)).

(* the two ends a key component names, and whether it carries a step *)
Definition key_ends (k : axis_key) : option Z * option Z :=
  match k with
  | KScalar v => (Some v, Some v)
  | KSlice start stop _ => (start, stop)
  end.
Definition key_has_step (k : axis_key) : bool :=
  match k with
  | KSlice _ _ (Some _) => true
  | _ => false
  end.

(* the interval a key component denotes on an axis whose data extent is
   [lo, hi]: an omitted end is the extent on that side, reversed ends are
   swapped *)
Definition spec_axis (k : axis_key) (lo hi : Z) : Z * Z :=
  let '(a, b) := key_ends k in
  let a' := match a with Some v => v | None => lo end in
  let b' := match b with Some v => v | None => hi end in
  (Z.min a' b', Z.max a' b').

(* the box (x0, y0, x1, y1) a key denotes on data of extent [ext] *)
Definition spec_box (xs ys : axis_key) (ext : box) : box :=
  let '(ex0, ey0, ex1, ey1) := ext in
  let '(x0, x1) := spec_axis xs ex0 ex1 in
  let '(y0, y1) := spec_axis ys ey0 ey1 in
  (x0, y0, x1, y1).

(* a box of positive width and height *)
Definition positive_box (b : box) : Prop :=
  let '(x0, y0, x1, y1) := b in (x0 < x1)%Z /\ (y0 < y1)%Z.

(* the geometry array is inside the domain of the models it is built on:
   well-formed buffers of the right nesting depth, finite coordinates, and (for
   the kinds whose elements are made of parts) every part starting on an (x, y)
   pair boundary of the values buffer.  All of it is asserted by the harness on
   every real array it exports. *)
Definition la_ok (a : listarr) : Prop :=
  wf_listarr a = true /\ exists vals, finite_vals (buffer_values a) = Some vals.

Definition g_modelled (g : garr) : Prop :=
  match g with
  | GPoint a =>
      wf_fixarr a = true /\
      exists slots, all_some (map (point_slot a) (seq 0 (fa_len a))) = Some slots
  | GMultiPoint a | GLine a => la_ok a
  | GPolygon a => la_ok a /\ exists o0 o1, buffer_offsets a = [o0; o1]
  | GMultiLine a =>
      la_ok a /\ exists o0 o1, buffer_offsets a = [o0; o1] /\ forallb Nat.even o1 = true
  | GMultiPolygon a =>
      la_ok a /\ exists o0 o1 o2, buffer_offsets a = [o0; o1; o2] /\ forallb Nat.even o2 = true
  end.
