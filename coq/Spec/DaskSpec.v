(* What C06 / C09 assume about the things the repo calls but does not implement,
   and the declarative notions the theorems are stated with.  No proofs. *)
From Coq Require Import ZArith List Bool Arith Permutation Sorted.
From SP Require Import Model.Num Model.Bounds Model.Rtree Model.DaskModel.
Import ListNotations.

(* a bounds row is either NaN throughout (missing / empty geometry, empty or
   all-missing partition) or four numbers with min <= max.  (Coordinates are finite
   in the scope of C06; the check feeds finite coordinates only.) *)
Definition wf_bbox (b : bbox) : Prop :=
  b = nanbox \/
  exists x0 y0 x1 y1, b = (Some x0, Some y0, Some x1, Some y1) /\ (x0 <= x1)%Z /\ (y0 <= y1)%Z.

(* a row of a bounds array as the index takes it (C03's premise) *)
Definition wf_row4 (r : row) : Prop :=
  length r = 4 /\
  (existsb isnan r = false ->
   nle (col 0 r) (col 2 r) = true /\ nle (col 1 r) (col 3 r) = true).

(* ---- contract on the partition-level / right-frame spatial index (property C03).
   To be discharged by C03_covers_In, C03_overlaps_In, C03_intersects_In with the
   bridge overlapsb_row_outside, and C03_total_bounds_box (Proofs/RtreeProofs.v). *)
Definition rtree_select_contract : Prop :=
  forall rows keys ps q i,
    Forall wf_row4 rows -> Permutation keys (seq 0 (length rows)) -> length q = 4 ->
    ((In i (fst (covers_overlaps (build 2 rows keys ps) q)) \/
      In i (snd (covers_overlaps (build 2 rows keys ps) q)))
     <-> (i < length rows /\ row_outside 2 q (norm_row (nth i rows [])) = false)).

Definition rtree_total_contract : Prop :=
  forall rows keys ps,
    Forall wf_row4 rows -> Permutation keys (seq 0 (length rows)) ->
    total_bounds (build 2 rows keys ps) = page_box 2 (map norm_row rows).

(* ---- contract on the per-row geometry answers (properties C01 / C02 with C13):
   a geometry that intersects the box has a bounds row that is not outside it *)
Definition hits_contract {R} (rbox : R -> bbox) (hits : R -> list Z -> bool) : Prop :=
  forall r q, length q = 4 -> hits r q = true ->
              row_outside 2 q (box_row (rbox r)) = false.

(* two geometries that intersect have intersecting (finite) bounds rows *)
Definition geo_int_contract {L Rr} (lbox : L -> bbox) (rrbox : Rr -> bbox)
           (geo_int : L -> Rr -> bool) : Prop :=
  forall l r, geo_int l r = true ->
              box_hit (rrbox r) (lbox l) = true /\ box_hit (lbox l) (rrbox r) = true.

(* right_df.iloc[right_sindex.intersects(bounds)]: the rows the index reports, in
   some order (C03_intersects; for a NaN box see Model/DaskModel.v box_hit) *)
Definition rsel_contract {Rr} (rrbox : Rr -> bbox) (rsel : bbox -> list Rr -> list Rr) : Prop :=
  forall q rs, Permutation (rsel q rs) (filter (fun r => box_hit q (rrbox r)) rs).

(* ---- C09: Dask's set_index and repartition as oracles (the repo calls them, the
   check exercises them on the real Dask; nothing is proved about the shuffle) *)
Section PackContracts.
  Variable A : Type.
  (* ddf.set_index(key column, npartitions=n) *)
  Variable set_index : (A -> N) -> N -> list (list A) -> list (list A).
  (* ddf.repartition(npartitions=n) *)
  Variable repartition : N -> list (list A) -> list (list A).

  (* keys non-decreasing within every partition and from each partition to the next *)
  Definition keys_sorted (key : A -> N) (l : list A) : Prop :=
    Sorted (fun a b => (key a <= key b)%N) l.

  (* no row lost, duplicated or altered *)
  Definition set_index_perm : Prop :=
    forall key n parts, Permutation (concat (set_index key n parts)) (concat parts).
  Definition set_index_sorted : Prop :=
    forall key n parts, keys_sorted key (concat (set_index key n parts)).
  (* repartition keeps the rows in their order *)
  Definition repartition_keeps : Prop :=
    forall n parts, concat (repartition n parts) = concat parts.
  (* ... and delivers the requested number of partitions *)
  Definition repartition_count : Prop :=
    forall n parts, N.of_nat (length (repartition n parts)) = n.
End PackContracts.
