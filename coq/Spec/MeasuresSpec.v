(* What C14 says, independently of how the code computes it. *)
From Coq Require Import ZArith List Bool Arith Reals.
From SP Require Import Model.Num Model.Arrow Model.Measures Proofs.BoundsProofs.
Import ListNotations.
Local Open Scope nat_scope.

(* ---- rings as vertex lists with exact integer coordinates ---- *)
Notation pt := (Z * Z)%type (only parsing).

(* interleaved finite coordinates of a vertex list *)
Definition flatz (ps : list pt) : list num :=
  flat_map (fun p => [Some (fst p); Some (snd p)]) ps.

(* twice the signed area by the shoelace formula: sum over consecutive
   vertices of x_i*y_{i+1} - x_{i+1}*y_i *)
Fixpoint shoelace2 (ps : list pt) : Z :=
  match ps with
  | p :: ((q :: _) as t) => (fst p * snd q - fst q * snd p + shoelace2 t)%Z
  | _ => 0%Z
  end.

(* first vertex = last vertex *)
Definition closed (ps : list pt) : Prop :=
  match ps with [] => True | p :: _ => last ps p = p end.

Definition translate (dx dy : Z) (ps : list pt) : list pt :=
  map (fun p => (fst p + dx, snd p + dy)%Z) ps.

Definition zsum (l : list Z) : Z := fold_right Z.add 0%Z l.

(* ---- lengths ---- *)

(* squared lengths of the segments between consecutive vertices whose both ends
   are finite ("segments touching a non-finite vertex count as absent") *)
Fixpoint seg_terms (ps : list (num * num)) : list Z :=
  match ps with
  | p :: ((q :: _) as t) =>
      match fst p, snd p, fst q, snd q with
      | Some a, Some b, Some c, Some d => sqdist a b c d :: seg_terms t
      | _, _, _, _ => seg_terms t
      end
  | _ => []
  end.

(* the length a list of squared segment lengths stands for *)
Definition length_R (ts : list Z) : R :=
  fold_right Rplus 0%R (map (fun t => sqrt (IZR t)) ts).

(* Euclidean distance between two integer points *)
Definition dist_R (a b c d : Z) : R :=
  sqrt ((IZR c - IZR a) * (IZR c - IZR a) + (IZR d - IZR b) * (IZR d - IZR b))%R.

(* ---- elements as lists of rings (the abstraction function at ring level):
        depth 1 (line, ring): the element is one coordinate list;
        depth 2 (multiline, polygon): its lines / rings;
        depth 3 (multipolygon): the rings of all its polygons, in order ---- *)
Definition elem_rings (a : listarr) (i : nat) : list (list num) :=
  let vals := buffer_values a in
  match buffer_offsets a with
  | [o0] => [slice (getn o0 i) (getn o0 (i + 1)) vals]
  | [o0; o1] => slice (getn o0 i) (getn o0 (i + 1)) (segs vals o1)
  | [o0; o1; o2] =>
      slice (getn o1 (getn o0 i)) (getn o1 (getn o0 (i + 1))) (segs vals o2)
  | _ => []
  end.

(* the parts (polygons) of element i of a multipolygon array, each a list of rings *)
Definition elem_parts (a : listarr) (i : nat) : list (list (list num)) :=
  let vals := buffer_values a in
  match buffer_offsets a with
  | [o0; o1; o2] =>
      map (fun p => slice (getn o1 p) (getn o1 (p + 1)) (segs vals o2))
          (seq (getn o0 i) (getn o0 (i + 1) - getn o0 i))
  | _ => []
  end.

(* the rings a scalar holds *)
Definition sc_rings (s : listarr) : list (list num) :=
  segs (buffer_values s) (sc_inner_offsets s).

(* ---- measures of a list of rings, independent of any buffer layout ---- *)
Definition ring_area (r : list num) (acc : num) : num := area_ring r 0 (length r) acc.
Definition rings_area (rs : list (list num)) : num :=
  fold_left (fun acc r => ring_area r acc) rs (Some 0%Z).
Definition ring_terms (r : list num) : list Z := seg_terms (pairs r).
Definition rings_length (rs : list (list num)) : lenres :=
  let ts := concat (map ring_terms rs) in (ts, exact_sum ts).

(* ---- guards asserted by the correspondence check on every real array ---- *)

(* every ring spans whole (x, y) pairs: the constructor rejects odd inner offsets *)
Definition even_inner (a : listarr) : bool :=
  forallb Nat.even (last (la_offs a) []).

(* ---- what the correspondence check compares: decoded elements, not buffer layouts ---- *)

(* every element as its parts, each a list of rings (one part for the kinds below
   multipolygon); None = missing *)
Definition decode_elems (k : kind) (a : listarr) : list (option (list (list (list num)))) :=
  map (fun i => if isna_at (la_valid a) (la_off a) i then None
                else Some (match k with
                           | KMultiPolygon => elem_parts a i
                           | _ => [elem_rings a i]
                           end))
      (seq 0 (la_len a)).

(* rows outside the property's scope for areas (unclosed rings, rings with non-finite
   vertices) are compared as "anything": both sides are set to None there *)
Definition mask_num (mask : list bool) (vs : list num) : list num :=
  map (fun mv => if fst mv : bool then snd mv else None) (combine mask vs).
