(* What C07 / C08 say, independently of how the code computes it. *)
From Coq Require Import NArith ZArith List Bool Arith.
Import ListNotations.
Local Open Scope N_scope.

(* ---- the grid --------------------------------------------------------- *)
(* a cell of the n-dimensional grid with 2^p cells per side *)
Definition cell (p n : nat) (c : list N) : Prop :=
  length c = n /\ Forall (fun x => x < 2 ^ N.of_nat p) c.

(* a distance along the curve of order p in n dimensions *)
Definition distance (p n : nat) (h : N) : Prop := h < 2 ^ N.of_nat (n * p).

(* grid neighbours: equal length, equal everywhere except at one index, where
   they differ by exactly one *)
Definition neighbours (a b : list N) : Prop :=
  length a = length b /\
  exists i, (i < length a)%nat /\
            (nth i a 0 + 1 = nth i b 0 \/ nth i b 0 + 1 = nth i a 0) /\
            forall j, j <> i -> nth j a 0 = nth j b 0.

(* ---- the classical Hilbert curve in the plane --------------------------
   Order 0 is the single cell.  The curve of order k+1 visits the four
   quadrants (side s = 2^k) in the order lower-left, upper-left, upper-right,
   lower-right; inside them it runs a copy of the order-k curve: transposed in
   the first quadrant, translated in the second and third, anti-transposed in
   the fourth.  It starts at (0,0) and ends at (2^p - 1, 0). *)
Fixpoint hilbert_ref (p : nat) (d : N) : N * N :=
  match p with
  | O => (0, 0)
  | S k =>
      let s := 2 ^ N.of_nat k in
      let q := d / 4 ^ N.of_nat k in
      let r := d mod 4 ^ N.of_nat k in
      let '(x, y) := hilbert_ref k r in
      if q =? 0 then (y, x)
      else if q =? 1 then (x, y + s)
      else if q =? 2 then (x + s, y + s)
      else (2 * s - 1 - y, s - 1 - x)
  end.

(* ---- the scopes of the kernel-evaluated (`_upto`) statements: (p, n) --- *)
Definition scope_of (n pmax : nat) : list (nat * nat) := map (fun p => (p, n)) (seq 1 pmax).

(* quick build: all distances / cells for n = 1, p <= 12; n = 2, p <= 7;
   n = 3, p <= 4; n = 4, p <= 3 *)
Definition C07_scope : list (nat * nat) :=
  scope_of 1 12 ++ scope_of 2 7 ++ scope_of 3 4 ++ scope_of 4 3.

(* ---- C08: the grid cell containing a point ------------------------------
   One axis: the extent [lo, lo + w) (w > 0) is divided into 2^p cells of
   width w / 2^p; a centre with doubled coordinate m2 (= lower + upper bound of
   the bbox, so that no halving is needed) lies in cell k iff
        lo + k * w / 2^p  <=  m2 / 2  <  lo + (k+1) * w / 2^p .
   Everything multiplied by 2 * 2^p: *)
Local Open Scope Z_scope.
Definition in_cell (lo w : Z) (p : nat) (m2 : Z) (k : Z) : Prop :=
  2 * lo * 2 ^ Z.of_nat p + 2 * k * w <= m2 * 2 ^ Z.of_nat p
  < 2 * lo * 2 ^ Z.of_nat p + 2 * (k + 1) * w.

(* the cell index the property asks for: the containing cell, the last cell for
   a centre on the upper edge or beyond, the first for a centre below *)
Definition cell_index_spec (lo w : Z) (p : nat) (m2 : Z) (k : Z) : Prop :=
  0 <= k < 2 ^ Z.of_nat p /\
  ( in_cell lo w p m2 k
    \/ (k = 2 ^ Z.of_nat p - 1 /\ 2 * (lo + w) <= m2)      (* upper edge and beyond *)
    \/ (k = 0 /\ m2 < 2 * lo) ).                            (* below *)
