(* What C01 says about points, multipoints and about the three calling forms,
   independently of how the code computes it (integer part; the plane
   geometry over R is in Spec/Plane.v). *)
From Coq Require Import ZArith List Bool Arith.
From SP Require Import Model.Num Model.Arrow Model.PointKernels Model.Intersect.
Import ListNotations.
Open Scope Z_scope.

(* the closed box spanned by two opposite corners, given in any order *)
Definition zbox_has (b : box) (p : pt) : Prop :=
  let '(x0, y0, x1, y1) := b in
  Z.min x0 x1 <= fst p <= Z.max x0 x1 /\ Z.min y0 y1 <= snd p <= Z.max y0 y1.

(* the three other ways of naming the same box by two opposite corners *)
Definition swap_x (b : box) : box := let '(x0, y0, x1, y1) := b in (x1, y0, x0, y1).
Definition swap_y (b : box) : box := let '(x0, y0, x1, y1) := b in (x0, y1, x1, y0).

(* the at-[inds] form is the whole-array form read at those positions
   (IndexError = None when a position is out of range) *)
Definition forms_agree {A} (f : A -> box -> option (list nat) -> option (list bool)) : Prop :=
  forall a b inds,
    f a b (Some inds) =
    match f a b None with
    | Some r =>
        if forallb (fun j => Nat.ltb j (length r)) inds
        then Some (map (fun j => nth j r false) inds)
        else None
    | None => None
    end.

Definition corner_order_irrelevant {A}
           (f : A -> box -> option (list nat) -> option (list bool)) : Prop :=
  forall a b inds, f a (swap_x b) inds = f a b inds /\ f a (swap_y b) inds = f a b inds.

(* the finite coordinates of element i of a one-level array *)
Definition elem_coords (a : listarr) (vals : list Z) (i : nat) : list Z :=
  slice (getn (buffer_outer_offsets a) i) (getn (buffer_outer_offsets a) (S i)) vals.
