(* C20 — what "the active geometry column is honoured and survives" means,
   independently of how the code gets there. *)
From Coq Require Import List Bool String Arith.
From SP Require Import Model.GeoFrame.
Import ListNotations.
Local Open Scope string_scope.
Local Open Scope list_scope.

(* f is a geo frame whose active geometry is the geometry column g *)
Definition valid_active (f : frame) (g : string) : Prop :=
  f_cls f = CGeo /\ f_act f = Some g /\ is_geom_col (f_cols f) g = true.

(* the frame has no geometry column at all *)
Definition no_geometry (f : frame) : Prop := any_geom (f_cols f) = false.

(* another operand of a concatenation agrees on g *)
Definition agrees (g : string) (f : frame) : bool :=
  is_geo f && opt_eqb (f_act f) (Some g) && is_geom_col (f_cols f) g.

(* "the operation keeps the column g": the listed operations of the property
   (row selection, sorting, copying, column subsets containing g, cx, pickling,
   concatenation with frames that agree on g) and a few more that pandas routes
   through the same code path; [cs] are the columns of the frame operated on.
   merge is NOT among them (see C20_merge_adopts_only_literal_geometry). *)
Definition keeps (g : string) (cs : list col) (o : pop) : bool :=
  match o with
  | OIlocSlice | OIlocList | OLocMask | OLocLabels | OBoolMask | OHead | OTail
  | OSortValues | OSortIndex | OCopyDeep | OCopyShallow | OPickle | OCx => true
  | OSubset ns => mem g ns && all_in cs ns
  | ODrop ns => negb (mem g ns) && all_in cs ns
  | OAssign n => negb (has_col cs n)
  | ORename old new => negb (String.eqb old g) && negb (has_col cs new)
  | OResetIndex n => negb (has_col cs n)
  | OConcat before after => forallb (agrees g) (before ++ after)
  | OSetGeometry g' _ => String.eqb g' g
  | OGeoInit | OConstructor => true
  | OMerge _ _ => false
  end.

(* every operation of the sequence keeps g, judged on the frame it is applied to *)
Fixpoint ops_keep (g : string) (f : frame) (ops : list pop) : bool :=
  match ops with
  | [] => true
  | o :: t =>
      keeps g (f_cols f) o &&
      match apply_pop o f with
      | Some f' => ops_keep g f' t
      | None => true      (* cannot happen: see C20_step *)
      end
  end.

(* Dask: the meta and every partition are geo frames with active geometry g *)
Definition part_valid (g : string) (p : option frame) : Prop :=
  exists f, p = Some f /\ valid_active f g.

Definition dvalid (d : dframe) (g : string) : Prop :=
  valid_active (d_meta d) g /\ Forall (part_valid g) (d_parts d).

Definition part_keeps (g : string) (o : pop) (p : option frame) : bool :=
  match p with Some f => keeps g (f_cols f) o | None => false end.

Fixpoint all_lt (n : nat) (sel : list nat) : bool :=
  match sel with [] => true | i :: t => Nat.ltb i n && all_lt n t end.

(* the listed Dask operations that keep g *)
Definition dkeeps (g : string) (d : dframe) (o : dop) : bool :=
  match o with
  | DSubset _ | DMask | DLocAll | DAssign _ | DDrop _ | DRename _ _ | DResetIndex _
  | DCopy | DPersist | DPickle =>
      keeps g (f_cols (d_meta d)) (dop_pop o) && forallb (part_keeps g (dop_pop o)) (d_parts d)
  | DSortValues _ | DSetIndex _ _ | DRepartition _ =>
      keeps g (f_cols (d_meta d)) (dop_pop o) && forallb (part_keeps g (dop_pop o)) (d_parts d)
      && negb (Nat.eqb (List.length (d_parts d)) 0)
  | DPackPartitions _ => negb (Nat.eqb (List.length (d_parts d)) 0)
  | DPartitions sel | DCx sel | DCxPartitions sel => all_lt (List.length (d_parts d)) sel
  | DMapIdentity | DConcatSelf | DBuildSindex => true
  | DSetGeometry g' => String.eqb g' g
  end.

Fixpoint dops_keep (g : string) (d : dframe) (ops : list dop) : bool :=
  match ops with
  | [] => true
  | o :: t =>
      dkeeps g d o &&
      match apply_dop o d with
      | Some d' => dops_keep g d' t
      | None => true
      end
  end.

(* a partition that is a geo frame holding g as a geometry column (whatever is active) *)
Definition part_has (g : string) (p : option frame) : Prop :=
  exists f, p = Some f /\ f_cls f = CGeo /\ is_geom_col (f_cols f) g = true.

(* the operation does not create duplicate labels *)
Definition wf_keeps (o : pop) : bool :=
  match o with OSubset ns => nodup_names ns | _ => true end.

(* the invariant of a Dask frame: unique labels in the meta, everything agrees on g *)
Definition dvalid_wf (d : dframe) (g : string) : Prop :=
  wf_frame (d_meta d) = true /\ dvalid d g.

Definition dkeeps_wf (g : string) (d : dframe) (o : dop) : bool :=
  dkeeps g d o && wf_keeps (dop_pop o).

Fixpoint dops_keep_wf (g : string) (d : dframe) (ops : list dop) : bool :=
  match ops with
  | [] => true
  | o :: t =>
      dkeeps_wf g d o &&
      match apply_dop o d with
      | Some d' => dops_keep_wf g d' t
      | None => true
      end
  end.
