(* The declarative winding number of a point with respect to closed rings: the
   half-open ray-crossing rule, stated over the real plane, independently of
   the code's shortcuts (skip horizontal edges, swap to ascending, three-way
   reject, fully-right shortcut, cross-product sign).

   For the rightward horizontal ray from P:
     u V        := [V.y >= P.y]                     which side of the ray's line V is on
     X_AB(y)    := abscissa of the line AB at height y
     wn_edge P A B := (u B - u A) * [X_AB(P.y) >= P.x]
   An edge contributes +1 when it crosses the ray's line upwards (A below,
   B on or above) to the right of or at P, -1 when downwards, 0 otherwise.
   "On the line counts as above" is the half-open rule: a ray through a vertex
   counts the two edges meeting there once in total when they pass through the
   ray, and zero or twice (+1 -1) when they only touch it; a horizontal edge
   has u B = u A and contributes nothing. *)
From Coq Require Import ZArith List Reals.
From SP Require Import Spec.PointShapeSpec.
Import ListNotations.

Definition above (py vy : R) : Z := if Rle_dec py vy then 1%Z else 0%Z.

Definition X_at (A B : rpt) (y : R) : R :=
  (fst A + (y - snd A) * (fst B - fst A) / (snd B - snd A))%R.

Definition crosses_right (P A B : rpt) : Z :=
  if Rle_dec (fst P) (X_at A B (snd P)) then 1%Z else 0%Z.

Definition wn_edge (P A B : rpt) : Z :=
  ((above (snd P) (snd B) - above (snd P) (snd A)) * crosses_right P A B)%Z.

(* consecutive pairs of a vertex list *)
Fixpoint consec {A} (l : list A) : list (A * A) :=
  match l with
  | a :: ((b :: _) as t) => (a, b) :: consec t
  | _ => []
  end.

Definition zsum (l : list Z) : Z := fold_right Z.add 0%Z l.

Definition wn_ring (P : rpt) (ring : list rpt) : Z :=
  zsum (map (fun e => wn_edge P (fst e) (snd e)) (consec ring)).

Definition wn (P : rpt) (rings : list (list rpt)) : Z :=
  zsum (map (wn_ring P) rings).

(* rings of a polygon given as interleaved integer coordinates *)
Definition ring_of (flat : list Z) : list rpt := map inj (SP.Model.PointKernels.zpairs flat).

Definition closed_ring {A} (l : list A) (d : A) : Prop := l <> [] -> hd d l = last l d.
