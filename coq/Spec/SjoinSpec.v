(* What C05 says, independently of how sjoin computes it. *)
From Coq Require Import ZArith List Bool Arith String Permutation.
From SP Require Import Model.Num Model.Arrow Model.Bounds Model.PointKernels Model.PointShape
                       Model.Sjoin.
Import ListNotations.
Local Open Scope nat_scope.

(* left row l holds a point and that point intersects the shape (C02: the scalar
   form Point.intersects(shape) of the element) *)
Definition hitb (a : fixarr) (sh : shape) (l : nat) : bool :=
  match element_intersects a sh l with
  | Some (Some (Value true)) => true
  | _ => false
  end.

(* the pair (left row l, right row r) is an intersecting pair: both geometries
   present, and they intersect *)
Definition intersecting (a : fixarr) (rgeoms : list (option shape)) (l r : nat) : Prop :=
  l < fa_len a /\ exists sh, nth_error rgeoms r = Some (Some sh) /\ hitb a sh l = true.

(* ps enumerates the intersecting pairs, each exactly once *)
Definition pair_enum (a : fixarr) (rgeoms : list (option shape)) (ps : list (nat * nat)) : Prop :=
  NoDup ps /\ forall l r, In (l, r) ps <-> intersecting a rgeoms l r.

(* the rows each [how] must produce from an enumeration of the pairs: one row
   per pair; how=left: plus every left row without pair once, right side
   missing; how=right: plus every right row without pair once, left side missing *)
Definition both (p : nat * nat) : orow := (Some (fst p), Some (snd p)).
Definition unmatched_left (nl : nat) (ps : list (nat * nat)) : list nat :=
  filter (fun l => negb (existsb (fun p => Nat.eqb (fst p) l) ps)) (seq 0 nl).
Definition unmatched_right (nr : nat) (ps : list (nat * nat)) : list nat :=
  filter (fun r => negb (existsb (fun p => Nat.eqb (snd p) r) ps)) (seq 0 nr).

Definition expected_rows (h : how) (nl nr : nat) (ps : list (nat * nat)) : list orow :=
  match h with
  | Inner => map both ps
  | Left => map both ps ++ map (fun l => (Some l, None)) (unmatched_left nl ps)
  | Right => map both ps ++ map (fun r => (None, Some r)) (unmatched_right nr ps)
  end.

(* the contract of pandas.merge on an integer key: the relational join, in some order *)
Definition merge_contract (mrg : merge_op) : Prop :=
  forall (A B : Type) (ka : A -> option nat) (kb : B -> option nat) (h : how)
         (la : list A) (lb : list B),
    Permutation (mrg A B ka kb h la lb) (merge_rel ka kb h la lb).

(* a query box without NaN *)
Definition finite_box (q : bbox) : Prop :=
  match q with (Some _, Some _, Some _, Some _) => True | _ => False end.

(* the contract of the spatial index (C03) for the left bounds [lb]: for every query the
   answer has no duplicates and names existing rows; for a query without NaN it holds
   every row whose box is not outside the query box *)
Definition cand_contract (n : nat) (lb : list bbox) (cand : bbox -> list nat) : Prop :=
  (forall q, NoDup (cand q)) /\
  (forall q l, In l (cand q) -> l < n) /\
  (forall q l, finite_box q -> l < n -> box_outside q (nth l lb nanbox) = false ->
               In l (cand q)).

(* C02: the array form restricted to positions [inds] is the scalar form, position by position *)
Definition array_form_contract (a : fixarr) : Prop :=
  forall sh inds m, inds_ok (fa_len a) inds = true ->
    array_intersects a sh (Some inds) = Some (Value m) -> m = map (hitb a sh) inds.

(* a point that intersects a shape lies in the shape's bounds row: that row has no NaN
   and the left row's box is not outside it *)
Definition hit_in_bbox (a : fixarr) (sh : shape) : Prop :=
  forall l, l < fa_len a -> hitb a sh l = true ->
    finite_box (shape_bounds sh) /\
    box_outside (shape_bounds sh) (nth l (fa_bounds a) nanbox) = false.

(* the premises of the end-to-end statements, bundled *)
Definition contracts (mrg : merge_op) (cand : fixarr -> bbox -> list nat) (a : fixarr)
           (rgeoms : list (option shape)) : Prop :=
  merge_contract mrg /\ cand_contract (fa_len a) (fa_bounds a) (cand a) /\
  array_form_contract a /\
  Forall (fun s => match s with Some sh => hit_in_bbox a sh | None => True end) rgeoms.

(* column naming: clashing names get the suffix of their side *)
Definition suffixed (clash : list string) (sfx : string) (c : string) : string :=
  if mem c clash then sapp c (sapp "_" sfx) else c.
