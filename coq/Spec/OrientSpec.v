(* What C15 says, independently of how the code computes it. *)
From Coq Require Import ZArith List Bool Arith.
From SP Require Import Model.Num Model.Arrow Model.Measures Model.Orient
  Proofs.BoundsProofs Spec.MeasuresSpec.
Import ListNotations.
Local Open Scope nat_scope.

(* ring j of a values buffer under ring offsets ro *)
Definition ring_at (vals : list num) (ro : list nat) (j : nat) : list num :=
  slice (getn ro j) (getn ro (j + 1)) vals.

(* ring j is the first ring (the shell) of some polygon: its index is one of the
   polygon offsets other than the closing one *)
Definition is_shell (po : list nat) (j : nat) : Prop := In j (removelast po).

(* the property's scope for the orientation / idempotence clauses: every ring of 3
   or more vertices has finite coordinates and is closed (first vertex = last
   vertex); rings of fewer than 3 vertices are unrestricted.  Rings with NaN
   vertices and unclosed rings are outside C15's quantifier. *)
Definition ring_ok (r : list num) : Prop :=
  length r < 6 \/ exists ps, r = flatz ps /\ closed ps.
Definition rings_closed (vals : list num) (ro : list nat) : Prop :=
  forall j, j < length ro - 1 -> ring_ok (ring_at vals ro j).

(* reversal of the vertex order of an interleaved coordinate list *)
Definition rev_ring (r : list num) : list num :=
  interleave (rev (evens r)) (rev (odds r)).

(* the signed doubled area of a finite ring *)
Definition area2 (ps : list pt) : Z := shoelace2 ps.
