(* What C11 / C12 say, independently of how the code computes it. *)
From Coq Require Import ZArith NArith List Bool Arith.
From SP Require Import Model.Num Model.Arrow Model.Bounds.
Import ListNotations.
Local Open Scope Z_scope.

(* ---- C12: overlap of a recorded extent with a query box ---- *)

(* The query box is given by two opposite corners in either order; a recorded
   extent is (xmin, ymin, xmax, ymax).  They overlap when all eight numbers
   are numbers (a NaN extent -- a partition without any coordinate -- overlaps
   nothing, and a NaN query selects nothing) and the closed rectangles share a
   point. *)
Definition overlaps (q : num * num * num * num) (b : bbox) : Prop :=
  exists ax ay cx cy x0 y0 x1 y1 : Z,
    q = (Some ax, Some ay, Some cx, Some cy) /\
    b = (Some x0, Some y0, Some x1, Some y1) /\
    Z.min ax cx <= x1 /\ x0 <= Z.max ax cx /\
    Z.min ay cy <= y1 /\ y0 <= Z.max ay cy.

(* the same, decidable *)
Definition overlapsb (q : num * num * num * num) (b : bbox) : bool :=
  match q, b with
  | (Some ax, Some ay, Some cx, Some cy), (Some x0, Some y0, Some x1, Some y1) =>
      (Z.min ax cx <=? x1) && (x0 <=? Z.max ax cx) &&
      (Z.min ay cy <=? y1) && (y0 <=? Z.max ay cy)
  | _, _ => false
  end.

(* positions (in loaded order) of the partitions whose extent overlaps the box *)
Definition overlapping (q : num * num * num * num) (rows : list bbox) : list nat :=
  filter (fun j => overlapsb q (nth j rows nanbox)) (seq 0 (length rows)).

(* the sub-list of l at the given positions *)
Definition at_positions {A} (d : A) (l : list A) (js : list nat) : list A :=
  map (fun j => nth j l d) js.
