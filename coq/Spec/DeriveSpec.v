(* What C16 says at the element level, independently of how the library
   computes it: Python's own list semantics (the language reference's
   definition of indexing, slicing with a step, fancy indexing with negative
   wrap-around, concatenation) on the list of elements, and derived quantities
   as functions of the element list only.  No reference to buffers, offsets,
   numpy or pyarrow here. *)
From Coq Require Import ZArith List Bool Arith.
From SP Require Import Model.Num Model.Arrow Model.Bounds Model.Derive.
Import ListNotations.
Open Scope Z_scope.

Section PyList.
Context {X : Type}.
Variable na : X.

(* ---- l[i] ---- *)
(* the position a Python index denotes in a sequence of length len, if any *)
Definition py_pos (len i : Z) : option nat :=
  if (0 <=? i) && (i <? len) then Some (Z.to_nat i)
  else if (i <? 0) && (- len <=? i) then Some (Z.to_nat (len + i))
  else None.

Definition py_getitem (l : list X) (i : Z) : option X :=
  match py_pos (Z.of_nat (length l)) i with
  | Some k => nth_error l k
  | None => None
  end.

(* ---- l[start:stop:step] ---- *)
(* Language reference, "Sequence types", notes 3-5: negative bounds are taken
   relative to the end, then clipped (to [0, len] for a positive step, to
   [-1, len-1] for a negative one); omitted bounds are the "end" values in the
   direction of the step. *)
Definition py_clip (lo hi v : Z) : Z := Z.max lo (Z.min hi v).

Definition py_bound (v : option Z) (len lo hi dflt : Z) : Z :=
  match v with
  | None => dflt
  | Some s => py_clip lo hi (if s <? 0 then s + len else s)
  end.

Definition py_slice_bounds (start stop : option Z) (step len : Z) : Z * Z :=
  if 0 <? step then (py_bound start len 0 len 0, py_bound stop len 0 len len)
  else (py_bound start len (-1) (len - 1) (len - 1),
        py_bound stop len (-1) (len - 1) (-1)).

(* "the items with index x = i + n*k such that 0 <= n ... stopping when j is
   reached (but never including j)": walk from i in steps of k *)
Fixpoint py_walk (fuel : nat) (x j k : Z) : list Z :=
  match fuel with
  | O => []
  | S f => if (if 0 <? k then x <? j else j <? x)
           then x :: py_walk f (x + k) j k else []
  end.

(* |j - i| steps always suffice since |k| >= 1 *)
Definition py_range (i j k : Z) : list Z := py_walk (Z.to_nat (Z.abs (j - i))) i j k.

Definition py_slice (l : list X) (start stop step : option Z) : pyres (list X) :=
  let k := match step with None => 1 | Some s => s end in
  if k =? 0 then ValueError            (* "slice step cannot be zero" *)
  else
    let '(i, j) := py_slice_bounds start stop k (Z.of_nat (length l)) in
    Ok (map (fun x => nth (Z.to_nat x) l na) (py_range i j k)).

(* ---- [l[i] for i in ix], and pandas' take with allow_fill ---- *)
Fixpoint all_some {A} (l : list (option A)) : option (list A) :=
  match l with
  | [] => Some []
  | None :: _ => None
  | Some a :: t => match all_some t with Some t' => Some (a :: t') | None => None end
  end.

(* allow_fill = false: Python / numpy fancy indexing (negative = from the end);
   allow_fill = true: pandas' contract: -1 marks a missing slot, every other
   index must lie in [0, len) *)
Definition py_take (ix : list Z) (allow_fill : bool) (l : list X) : option (list X) :=
  all_some
    (map (fun i => if allow_fill then
                     (if i =? -1 then Some na
                      else if (0 <=? i) && (i <? Z.of_nat (length l))
                           then nth_error l (Z.to_nat i) else None)
                   else py_getitem l i) ix).

(* ---- l[mask] ---- *)
Fixpoint py_compress (m : list bool) (l : list X) : list X :=
  match m, l with
  | b :: m', x :: l' => if b then x :: py_compress m' l' else py_compress m' l'
  | _, _ => []
  end.

End PyList.

(* ---- derived quantities as functions of the elements only ---- *)
(* bounds row of one slot of a list array / of a point array *)
Definition flat_bbox (o : option (list num)) : bbox :=
  total_bounds_interleaved (match o with Some vs => vs | None => [] end).

Definition bounds_of_flat (d : list (option (list num))) : list bbox := map flat_bbox d.

Definition total_bounds_of_flat (d : list (option (list num))) : bbox :=
  total_bounds_interleaved
    (concat (map (fun o => match o with Some vs => vs | None => [] end) d)).

Definition point_bbox (p : option (num * num)) : bbox :=
  match p with
  | Some (x, y) => total_bounds_interleaved [x; y]
  | None => nanbox
  end.

Definition bounds_of_points (d : list (option (num * num))) : list bbox := map point_bbox d.

Definition total_bounds_of_points (d : list (option (num * num))) : bbox :=
  total_bounds_interleaved
    (concat (map (fun p => match p with Some (x, y) => [x; y] | None => [] end) d)).

(* on the nested elements *)
Definition elem_bbox (o : option elem) : bbox :=
  match o with
  | Some (EPoint x y) => total_bounds_interleaved [x; y]
  | Some e => total_bounds_interleaved (flat_elem e)
  | None => nanbox
  end.
