(* What C17 says, independently of how the code computes it.

   An element is *inert* when it is missing or has no finite coordinate
   (Model/Inert.v: [inert_flat], [inert_pt]; a bounds row: [nan_row]).
   [insert_inert inert l l']: l' is l with inert elements inserted at arbitrary
   positions, i.e. removing the inert elements of l' gives back l.
   The order-preserving renumbering of the rows that stay is
   [renumber (map inert l')] (Model/Inert.v). *)
From Coq Require Import ZArith List Bool Arith Permutation.
From SP Require Import Model.Num Model.Arrow Model.Bounds Model.Inert Spec.BoundsSpec.
Import ListNotations.

Definition insert_inert {A} (inert : A -> bool) (l l' : list A) : Prop :=
  filter (fun x => negb (inert x)) l' = l.

(* buffer level: a well-formed representation whose non-inert decoded elements
   are those of l (any offsets, any validity bitmap, inert slots anywhere) *)
Definition la_represents (a : listarr) (l : list (option (list num))) : Prop :=
  wf_listarr a = true /\ nulls_empty a = true /\ even_outer a = true /\
  insert_inert inert_flat l (decode_flat a).

Definition fa_represents (a : fixarr) (l : list (option (num * num))) : Prop :=
  wf_fixarr a = true /\ insert_inert inert_pt l (fa_decode a).

(* positions (row numbers) of the elements satisfying P *)
Fixpoint positions_from {A} (P : A -> bool) (k : nat) (l : list A) : list nat :=
  match l with
  | [] => []
  | x :: t => if P x then k :: positions_from P (S k) t else positions_from P (S k) t
  end.
Definition positions {A} (P : A -> bool) (l : list A) : list nat := positions_from P 0 l.

(* an operation that selects rows returns *exactly* the rows satisfying P
   (each once, in any order): the shape of the exactness theorems of C03 (index
   queries), C04 (cx), C05 (sjoin candidates / matches), C06 (Dask) *)
Definition selects_exactly {A} (sel : list A -> list nat) (P : A -> bool) : Prop :=
  forall l, Permutation (sel l) (positions P l).

(* the same for operations on labelled rows that return labels *)
Definition selects_labels_exactly {A L} (sel : list (L * A) -> list L) (P : A -> bool) : Prop :=
  forall l, Permutation (sel l) (map fst (filter (fun r => P (snd r)) l)).

(* a per-row operation (bounds, measures, predicates): row i of the answer
   depends on element i only *)
Definition rowwise {A B} (op : list A -> list B) (f : A -> B) : Prop :=
  forall l, op l = map f l.

(* a whole-array reduction that ignores inert elements *)
Definition ignores_inert {A B} (inert : A -> bool) (red : list A -> B) : Prop :=
  forall l, red l = red (filter (fun x => negb (inert x)) l).

(* all coordinates of the non-missing elements, in order; total_bounds over them *)
Definition coords_of (l : list (option (list num))) : list num :=
  concat (map (fun o => match o with Some vs => vs | None => [] end) l).
Definition total_of (l : list (option (list num))) : bbox :=
  total_bounds_interleaved (coords_of l).

Definition pt_coords_of (l : list (option (num * num))) : list num :=
  concat (map point_coords l).
Definition pt_total_of (l : list (option (num * num))) : bbox :=
  total_bounds_interleaved (pt_coords_of l).

(* every element spans whole (x, y) pairs *)
Definition all_even (l : list (option (list num))) : Prop :=
  Forall (fun o => match o with Some vs => Nat.even (length vs) = true | None => True end) l.
