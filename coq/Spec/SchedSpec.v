(* C18 — what schedule independence means for the three state machines of Model/Sched.v *)
From Coq Require Import List Bool Arith.
From SP Require Import Model.FS Model.Sched.
Import ListNotations.

Section Store.
  Variables Loc Val : Type.

  (* two stores are the same store *)
  Definition seq_store (s s' : store Loc Val) : Prop := forall l, s l = s' l.

  (* an operation honours its declared footprints:
     frame    — it changes nothing outside its write footprint;
     locality — what it writes depends only on what lies in its read and write footprints *)
  Definition op_ok (o : op Loc Val) : Prop :=
    (forall s l, wr o l = false -> act o s l = s l) /\
    (forall s s', (forall l, rd o l = true \/ wr o l = true -> s l = s' l) ->
                  forall l, wr o l = true -> act o s l = act o s' l).

  (* Bernstein's conditions: neither writes what the other reads or writes *)
  Definition independent (a b : op Loc Val) : Prop :=
    forall l, (wr a l = true -> rd b l = false /\ wr b l = false) /\
              (wr b l = true -> rd a l = false /\ wr a l = false).

  Definition commute (a b : op Loc Val) : Prop :=
    forall s, seq_store (act a (act b s)) (act b (act a s)).

  (* the operations of different tasks are pairwise independent *)
  Definition tasks_independent (ts : list (list (op Loc Val))) : Prop :=
    ForallOrdPairs (fun t1 t2 => forall a b, In a t1 -> In b t2 -> independent a b) ts.
End Store.

Arguments seq_store {Loc Val}.
Arguments op_ok {Loc Val}.
Arguments independent {Loc Val}.
Arguments commute {Loc Val}.
Arguments tasks_independent {Loc Val}.

(* caches: every value a thread returned, and the cell once anybody returned *)
Section Cache.
  Variable V : Type.
  Variable fx : V.

  Definition returned_ok (p : pc V) : Prop :=
    forall v, p = Done v -> v = Some fx.

  Definition all_done (ps : list (pc V)) : Prop :=
    Forall (fun p => exists v, p = Done v) ps.
End Cache.

Arguments returned_ok {V}.
Arguments all_done {V}.
