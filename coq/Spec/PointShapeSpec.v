(* What "the point intersects the shape" means, independently of how the code
   decides it: point sets in the real plane.  Shapes have integer coordinates
   (exactly representable coordinates, scaled), injected with IZR. *)
From Coq Require Import ZArith List Reals.
From SP Require Import Model.PointKernels.
Import ListNotations.
Open Scope R_scope.

Definition rpt : Type := (R * R)%type.

Definition inj (p : pt) : rpt := (IZR (fst p), IZR (snd p)).

(* the closed segment from A to B (A = B allowed: then it is the point A) *)
Definition on_seg (A B P : rpt) : Prop :=
  exists t : R, 0 <= t <= 1 /\
    fst P = fst A + t * (fst B - fst A) /\
    snd P = snd A + t * (snd B - snd A).

(* the point set of a multipoint *)
Definition points_set (vs : list pt) (P : rpt) : Prop :=
  exists v, In v vs /\ P = inj v.

(* the point set of a polyline: its vertices and its segments (a one-vertex
   line is that vertex; an empty line is empty) *)
Definition line_set (vs : list pt) (P : rpt) : Prop :=
  points_set vs P \/
  exists A B, In (A, B) (edges vs) /\ on_seg (inj A) (inj B) P.

(* a multiline: the union of its lines, each given as interleaved coordinates *)
Definition multiline_set (lines : list (list Z)) (P : rpt) : Prop :=
  exists l, In l lines /\ line_set (zpairs l) P.
