(* C05: a point that intersects a shape lies in the shape's bounds row
   (SjoinSpec.hit_in_bbox), shape kind by shape kind, from the C02 model of
   Point.intersects and the C13 theorem that a bounds row is the tight extent. *)
From Coq Require Import ZArith List Bool Arith Lia.
From SP Require Import Model.Num Model.Arrow Model.Bounds Model.PointKernels Model.PointShape
                       Model.Sjoin Spec.BoundsSpec Proofs.BoundsProofs Spec.SjoinSpec.
Import ListNotations.
Local Open Scope Z_scope.

(* ------------------------------------------------------------------ *)
(* the box of a present point; a box that spans a point is not outside it *)

Definition pt_box (x y : Z) : bbox := (Some x, Some y, Some x, Some y).

(* the finite coordinates [vs] span (x, y) *)
Definition covers (vs : list num) (x y : Z) : Prop :=
  (exists xa xb, In xa (xs_of vs) /\ In xb (xs_of vs) /\ xa <= x <= xb) /\
  (exists ya yb, In ya (ys_of vs) /\ In yb (ys_of vs) /\ ya <= y <= yb).

Lemma extent_spans : forall l lo hi a b v,
  extent l lo hi -> In a l -> In b l -> a <= v <= b ->
  num_lt (Some v) lo = false /\ num_lt hi (Some v) = false.
Proof.
  intros l lo hi a b v He Ha Hb Hv. destruct l as [|z t]; [contradiction|].
  cbn [extent] in He. destruct He as [m [M [-> [-> [[_ Hmin] [_ Hmax]]]]]].
  pose proof (Hmin a Ha). pose proof (Hmax b Hb). cbn. split; apply Z.ltb_ge; lia.
Qed.

Lemma extent_finite : forall l lo hi a, extent l lo hi -> In a l -> exists m M, lo = Some m /\ hi = Some M.
Proof.
  intros l lo hi a He Ha. destruct l as [|z t]; [contradiction|].
  cbn [extent] in He. destruct He as [m [M [-> [-> _]]]]. eauto.
Qed.

Lemma covers_not_outside : forall vs x y,
  covers vs x y ->
  finite_box (total_bounds_interleaved vs) /\
  box_outside (total_bounds_interleaved vs) (pt_box x y) = false.
Proof.
  intros vs x y [[xa [xb [Hxa [Hxb Hx]]]] [ya [yb [Hya [Hyb Hy]]]]].
  pose proof (kernel_tight vs) as Ht. unfold tight_box in Ht.
  destruct (total_bounds_interleaved vs) as [[[x0 y0] x1] y1]. destruct Ht as [Hex Hey].
  destruct (extent_spans _ _ _ _ _ _ Hex Hxa Hxb Hx) as [E1 E2].
  destruct (extent_spans _ _ _ _ _ _ Hey Hya Hyb Hy) as [E3 E4].
  destruct (extent_finite _ _ _ _ Hex Hxa) as [mx [Mx [-> ->]]].
  destruct (extent_finite _ _ _ _ Hey Hya) as [my [My [-> ->]]].
  split; [exact I|].
  unfold box_outside, pt_box. cbn [num_isnan]. rewrite E1, E2, E3, E4. reflexivity.
Qed.

(* ------------------------------------------------------------------ *)
(* what [hitb] says *)

Lemma hitb_inv : forall a sh l,
  wf_fixarr a = true -> (l < fa_len a)%nat -> hitb a sh l = true ->
  exists x y, nth l (fa_bounds a) nanbox = pt_box x y /\
              point_intersects x y sh = Some (Value true).
Proof.
  intros a sh l Hwf Hl H. unfold hitb, element_intersects in H.
  rewrite (fa_bounds_rows a Hwf). unfold fa_decode. rewrite map_map.
  rewrite nth_map_seq by exact Hl.
  destruct (isna_at (fa_valid a) (fa_off a) l); [discriminate|].
  destruct (nth (2 * (fa_off a + l)) (fa_vals a) None) as [x|]; [|discriminate].
  destruct (nth (2 * (fa_off a + l) + 1) (fa_vals a) None) as [y|]; [|discriminate].
  destruct (point_intersects x y sh) as [[[|]|]|] eqn:Ep; try discriminate.
  exists x, y. split; [reflexivity|exact Ep].
Qed.

(* the reduction: it suffices that the shape's coordinates span every point that
   Point.intersects accepts *)
Definition shape_coords (s : shape) : list num :=
  match s with
  | ShPoint x y => [x; y]
  | ShMultiPoint b | ShLine b | ShMultiLine b | ShPolygon b | ShMultiPolygon b => sb_flat_values b
  end.

Lemma shape_bounds_coords : forall s, shape_bounds s = total_bounds_interleaved (shape_coords s).
Proof. intros []; reflexivity. Qed.

Definition spans_hits (sh : shape) : Prop :=
  forall x y, point_intersects x y sh = Some (Value true) -> covers (shape_coords sh) x y.

Lemma spans_hit_in_bbox : forall a sh,
  wf_fixarr a = true -> spans_hits sh -> hit_in_bbox a sh.
Proof.
  intros a sh Hwf Hs l Hl Hh.
  destruct (hitb_inv a sh l Hwf Hl Hh) as [x [y [Hb Hp]]].
  rewrite Hb, shape_bounds_coords. apply covers_not_outside. apply Hs. exact Hp.
Qed.

(* ------------------------------------------------------------------ *)
(* finite coordinate lists *)

Lemma finite_vals_map : forall vs sf, finite_vals vs = Some sf -> vs = map Some sf.
Proof.
  induction vs as [|v t IH]; intros sf H; cbn in H.
  - inversion H. reflexivity.
  - destruct v as [z|]; [|discriminate].
    destruct (finite_vals t) as [r|]; [|discriminate]. inversion H; subst. cbn.
    f_equal. apply IH. reflexivity.
Qed.

Lemma combine_evens_odds : forall l : list Z, combine (evens l) (odds l) = zpairs l.
Proof.
  fix IH 1. intros [|a [|b t]]; [reflexivity|reflexivity|].
  unfold odds. cbn [evens tl combine zpairs]. f_equal.
  rewrite <- (IH t). unfold odds. destruct t; reflexivity.
Qed.

Lemma pairs_map_some : forall sf,
  pairs (map Some sf) = map (fun p : Z * Z => (Some (fst p), Some (snd p))) (zpairs sf).
Proof.
  fix IH 1. intros [|a [|b t]]; [reflexivity|reflexivity|].
  cbn [map pairs zpairs fst snd]. f_equal. exact (IH t).
Qed.

Lemma xs_of_some : forall sf, xs_of (map Some sf) = map fst (zpairs sf).
Proof.
  intros sf. unfold xs_of. rewrite pairs_map_some, map_map. cbn [fst].
  induction (zpairs sf) as [|p t IH]; [reflexivity|]. cbn. f_equal. exact IH.
Qed.

Lemma ys_of_some : forall sf, ys_of (map Some sf) = map snd (zpairs sf).
Proof.
  intros sf. unfold ys_of. rewrite pairs_map_some, map_map. cbn [snd].
  induction (zpairs sf) as [|p t IH]; [reflexivity|]. cbn. f_equal. exact IH.
Qed.

Lemma vertex_covers : forall sf x y, In (x, y) (zpairs sf) -> covers (map Some sf) x y.
Proof.
  intros sf x y H. unfold covers. rewrite xs_of_some, ys_of_some. split.
  - exists x, x. repeat split; try lia; apply (in_map fst _ _ H).
  - exists y, y. repeat split; try lia; apply (in_map snd _ _ H).
Qed.

Lemma any_vertex_in : forall x y flat, any_vertex x y flat = true -> In (x, y) (zpairs flat).
Proof.
  intros x y flat H. unfold any_vertex in H. rewrite combine_evens_odds in H.
  apply existsb_exists in H. destruct H as [[vx vy] [Hin He]].
  apply andb_true_iff in He. destruct He as [E1 E2].
  apply Z.eqb_eq in E1, E2. subst. exact Hin.
Qed.

(* ------------------------------------------------------------------ *)
(* points and multipoints *)

Lemma spans_point : forall px py, spans_hits (ShPoint px py).
Proof.
  intros px py x y H. cbn in H. destruct px as [px|]; [|discriminate].
  destruct py as [py|]; [|discriminate]. inversion H as [He].
  unfold sc_point in He. apply andb_true_iff in He. destruct He as [E1 E2].
  apply Z.eqb_eq in E1, E2. subst. cbn [shape_coords].
  apply (vertex_covers [px; py]). left. reflexivity.
Qed.

Lemma spans_multipoint : forall b, spans_hits (ShMultiPoint b).
Proof.
  intros b x y H. cbn in H. unfold obind in H.
  destruct (finite_vals (sb_flat_values b)) as [sf|] eqn:Ef; [|discriminate].
  inversion H as [He]. cbn [shape_coords]. rewrite (finite_vals_map _ _ Ef).
  apply vertex_covers. apply any_vertex_in. exact He.
Qed.

Theorem hit_in_bbox_point : forall a px py,
  wf_fixarr a = true -> hit_in_bbox a (ShPoint px py).
Proof. intros. apply spans_hit_in_bbox; [assumption|apply spans_point]. Qed.

Theorem hit_in_bbox_multipoint : forall a b,
  wf_fixarr a = true -> hit_in_bbox a (ShMultiPoint b).
Proof. intros. apply spans_hit_in_bbox; [assumption|apply spans_multipoint]. Qed.

(* ------------------------------------------------------------------ *)
(* rings / sub-lines: the coordinates of every ring lie inside flat_values *)
From SP Require Import Model.SjoinWf.
From Coq Require Import ZifyBool.

Lemma rings_of_in : forall sv offs flat, In flat (rings_of sv offs) ->
  exists i, (S i < List.length offs)%nat /\
            flat = slice (nth i offs 0%nat) (nth (S i) offs 0%nat) sv.
Proof.
  intros sv. induction offs as [|start t IH]; intros flat H; [contradiction|].
  destruct t as [|stop t']; [contradiction|].
  cbn [rings_of] in H. destruct H as [H|H].
  - exists 0%nat. split; [cbn; lia|]. cbn. now symmetry.
  - destruct (IH flat H) as [i [Hi Hf]]. exists (S i). split; [cbn in *; lia|]. exact Hf.
Qed.

Lemma zpairs_app_even : forall l1 l2,
  Nat.even (List.length l1) = true -> zpairs (l1 ++ l2) = zpairs l1 ++ zpairs l2.
Proof.
  fix IH 1. intros [|a [|b t]] l2 H; [reflexivity|discriminate|].
  cbn [app zpairs]. cbn [List.length Nat.even] in H. rewrite (IH t l2 H). reflexivity.
Qed.

Lemma zpairs_prefix : forall l1 l2 p, In p (zpairs l1) -> In p (zpairs (l1 ++ l2)).
Proof.
  fix IH 1. intros [|a [|b t]] l2 p H; [contradiction|cbn in H; contradiction|].
  cbn [app zpairs] in *. destruct H as [H|H]; [left; exact H|right; exact (IH t l2 p H)].
Qed.

Lemma slice_map : forall A B (f : A -> B) s e l, slice s e (map f l) = map f (slice s e l).
Proof. intros. unfold slice. now rewrite skipn_map, firstn_map. Qed.

Lemma sb_flat_values_range : forall b,
  sb_flat_values b =
  slice (fst (sb_flat_range b)) (snd (sb_flat_range b)) (sb_buffer_values b).
Proof.
  intros b. unfold sb_flat_values, sb_flat_range.
  destruct (sb_buffer_offsets b) as [|o0 rest]; [reflexivity|].
  destruct (PointShape.chase o0 rest); reflexivity.
Qed.

Lemma last_default : forall A (l : list A) d d', l <> [] -> last l d = last l d'.
Proof.
  induction l as [|x t IH]; intros d d' H; [contradiction|].
  destruct t as [|y t']; [reflexivity|]. cbn [last]. apply IH. discriminate.
Qed.

Lemma ring_in_flat : forall b sv i p,
  rings_wf b = true -> sb_buffer_values b = map Some sv ->
  (S i < List.length (sb_inner_offsets b))%nat ->
  In p (zpairs (slice (nth i (sb_inner_offsets b) 0%nat)
                      (nth (S i) (sb_inner_offsets b) 0%nat) sv)) ->
  In p (zpairs (slice (fst (sb_flat_range b)) (snd (sb_flat_range b)) sv)).
Proof.
  intros b sv i p Hwf Hsv Hi Hp. unfold rings_wf in Hwf.
  destruct (sb_flat_range b) as [s e]. cbn [fst snd].
  set (offs := sb_inner_offsets b) in *.
  repeat (apply andb_true_iff in Hwf; destruct Hwf as [Hwf ?]).
  rename Hwf into Hmono.
  match goal with H : forallb Nat.even offs = true |- _ => rename H into Hev end.
  match goal with H : Nat.eqb (hd s offs) s = true |- _ => apply Nat.eqb_eq in H; rename H into Hhd end.
  match goal with H : Nat.eqb (last offs e) e = true |- _ => apply Nat.eqb_eq in H; rename H into Hlast end.
  match goal with H : Nat.leb s e = true |- _ => apply Nat.leb_le in H; rename H into Hse end.
  match goal with H : Nat.leb e _ = true |- _ => apply Nat.leb_le in H; rename H into Hlen end.
  rewrite Hsv, map_length in Hlen.
  assert (Hne : offs <> []) by (intros E; rewrite E in Hi; cbn in Hi; lia).
  assert (Hs0 : s = nth 0 offs 0%nat).
  { destruct offs as [|o t]; [contradiction|]. cbn in Hhd. cbn. now symmetry. }
  assert (He0 : e = last offs 0%nat) by (rewrite <- Hlast at 1; apply last_default; exact Hne).
  set (a := nth i offs 0%nat) in *. set (c := nth (S i) offs 0%nat) in *.
  assert (Hsa : (s <= a)%nat) by (rewrite Hs0; apply mono_nth; [exact Hmono|lia|lia]).
  assert (Hac : (a <= c)%nat) by (apply mono_nth; [exact Hmono|lia|lia]).
  assert (Hce : (c <= e)%nat)
    by (rewrite He0; apply mono_le_last; [exact Hmono|apply nth_In; lia]).
  assert (Eva : Nat.even a = true)
    by (apply (proj1 (forallb_forall _ _) Hev); apply nth_In; lia).
  assert (Evs : Nat.even s = true)
    by (rewrite Hs0; apply (proj1 (forallb_forall _ _) Hev); apply nth_In; lia).
  rewrite (slice_split _ s a e) by lia. rewrite (slice_split _ a c e) by lia.
  rewrite zpairs_app_even.
  - apply in_or_app. right. apply zpairs_prefix. exact Hp.
  - rewrite slice_length by lia. rewrite Nat.even_sub by lia. rewrite Eva, Evs. reflexivity.
Qed.

(* two vertices whose coordinates bracket the point *)
Lemma covers_of_two : forall l p q x y,
  In p (zpairs l) -> In q (zpairs l) ->
  Z.min (fst p) (fst q) <= x <= Z.max (fst p) (fst q) ->
  Z.min (snd p) (snd q) <= y <= Z.max (snd p) (snd q) ->
  covers (map Some l) x y.
Proof.
  intros l p q x y Hp Hq Hx Hy. unfold covers. rewrite xs_of_some, ys_of_some.
  pose proof (in_map fst _ _ Hp). pose proof (in_map fst _ _ Hq).
  pose proof (in_map snd _ _ Hp). pose proof (in_map snd _ _ Hq).
  split.
  - exists (Z.min (fst p) (fst q)), (Z.max (fst p) (fst q)).
    repeat split; try lia.
    + destruct (Z.min_spec (fst p) (fst q)) as [[_ E]|[_ E]]; rewrite E; assumption.
    + destruct (Z.max_spec (fst p) (fst q)) as [[_ E]|[_ E]]; rewrite E; assumption.
  - exists (Z.min (snd p) (snd q)), (Z.max (snd p) (snd q)).
    repeat split; try lia.
    + destruct (Z.min_spec (snd p) (snd q)) as [[_ E]|[_ E]]; rewrite E; assumption.
    + destruct (Z.max_spec (snd p) (snd q)) as [[_ E]|[_ E]]; rewrite E; assumption.
Qed.

Lemma edges_in : forall (l : list pt) p q, In (p, q) (edges l) -> In p l /\ In q l.
Proof.
  induction l as [|a t IH]; intros p q H; [contradiction|].
  destruct t as [|b t']; [contradiction|]. cbn [edges] in H. destruct H as [H|H].
  - inversion H; subst. split; [left; reflexivity|right; left; reflexivity].
  - destruct (IH p q H) as [H1 H2]. split; right; assumption.
Qed.

(* ------------------------------------------------------------------ *)
(* lines and multilines *)

Lemma sc_lines_hit : forall x y lines, sc_lines x y lines = Value true ->
  exists flat, In flat lines /\
    (any_vertex x y flat = true \/ any_segment x y (evens flat) (odds flat) = true).
Proof.
  intros x y. induction lines as [|flat rest IH]; intros H; cbn [sc_lines] in H; [discriminate|].
  assert (Hrest : sc_lines x y rest = Value true ->
                  exists f, In f (flat :: rest) /\
                    (any_vertex x y f = true \/ any_segment x y (evens f) (odds f) = true)).
  { intros Hr. destruct (IH Hr) as [f [Hin Hf]]. exists f. split; [right; exact Hin|exact Hf]. }
  destruct (evens flat) as [|hx tx] eqn:Ee; [exact (Hrest H)|].
  destruct (odds flat) as [|hy ty] eqn:Eo; [discriminate|].
  destruct (negb (sc_in_bounds x y (lmin hx tx, lmin hy ty, lmax hx tx, lmax hy ty)));
    [exact (Hrest H)|].
  destruct (any_vertex x y flat) eqn:Ev.
  - exists flat. split; [left; reflexivity|left; exact Ev].
  - destruct (any_segment x y (hx :: tx) (hy :: ty)) eqn:Es; [|exact (Hrest H)].
    exists flat. split; [left; reflexivity|right]. rewrite Ee, Eo. exact Es.
Qed.

Lemma segment_bounds : forall ax0 ay0 ax1 ay1 x y,
  segment_intersects_point ax0 ay0 ax1 ay1 x y = true ->
  Z.min ax0 ax1 <= x <= Z.max ax0 ax1 /\ Z.min ay0 ay1 <= y <= Z.max ay0 ay1.
Proof.
  intros ax0 ay0 ax1 ay1 x y H. unfold segment_intersects_point in H.
  destruct (x <? Z.min ax0 ax1) eqn:E1; [discriminate|].
  destruct (Z.max ax0 ax1 <? x) eqn:E2; [discriminate|]. cbn [orb] in H.
  destruct (y <? Z.min ay0 ay1) eqn:E3; [discriminate|].
  destruct (Z.max ay0 ay1 <? y) eqn:E4; [discriminate|]. lia.
Qed.

Lemma hit_two_vertices : forall x y flat,
  any_vertex x y flat = true \/ any_segment x y (evens flat) (odds flat) = true ->
  exists p q, In p (zpairs flat) /\ In q (zpairs flat) /\
    Z.min (fst p) (fst q) <= x <= Z.max (fst p) (fst q) /\
    Z.min (snd p) (snd q) <= y <= Z.max (snd p) (snd q).
Proof.
  intros x y flat [H|H].
  - apply any_vertex_in in H. exists (x, y), (x, y). cbn [fst snd]. repeat split; try assumption; lia.
  - unfold any_segment in H. rewrite combine_evens_odds in H.
    apply existsb_exists in H. destruct H as [[[ax0 ay0] [ax1 ay1]] [Hin Hs]].
    apply edges_in in Hin. destruct Hin as [Hp Hq].
    apply segment_bounds in Hs. exists (ax0, ay0), (ax1, ay1). cbn [fst snd]. tauto.
Qed.

Lemma flat_covers : forall b sv flat x y,
  rings_wf b = true -> finite_vals (sb_buffer_values b) = Some sv ->
  In flat (rings_of sv (sb_inner_offsets b)) ->
  (exists p q, In p (zpairs flat) /\ In q (zpairs flat) /\
     Z.min (fst p) (fst q) <= x <= Z.max (fst p) (fst q) /\
     Z.min (snd p) (snd q) <= y <= Z.max (snd p) (snd q)) ->
  covers (sb_flat_values b) x y.
Proof.
  intros b sv flat x y Hwf Hfin Hin [p [q [Hp [Hq [Hx Hy]]]]].
  apply finite_vals_map in Hfin.
  destruct (rings_of_in _ _ _ Hin) as [i [Hi Hf]]. subst flat.
  rewrite sb_flat_values_range, Hfin, slice_map.
  apply (covers_of_two _ p q); try assumption.
  - apply (ring_in_flat b sv i p Hwf Hfin Hi Hp).
  - apply (ring_in_flat b sv i q Hwf Hfin Hi Hq).
Qed.

Lemma spans_lines : forall b x y,
  rings_wf b = true ->
  obind (finite_vals (sb_buffer_values b))
        (fun sv => Some (sc_lines x y (rings_of sv (sb_inner_offsets b)))) = Some (Value true) ->
  covers (sb_flat_values b) x y.
Proof.
  intros b x y Hwf H. unfold obind in H.
  destruct (finite_vals (sb_buffer_values b)) as [sv|] eqn:Ef; [|discriminate].
  inversion H as [Hs]. destruct (sc_lines_hit _ _ _ Hs) as [flat [Hin Hh]].
  apply (flat_covers b sv flat x y Hwf Ef Hin). apply hit_two_vertices. exact Hh.
Qed.

Theorem hit_in_bbox_line : forall a b,
  wf_fixarr a = true -> rings_wf b = true -> hit_in_bbox a (ShLine b).
Proof.
  intros a b Hwf Hb. apply spans_hit_in_bbox; [exact Hwf|].
  intros x y H. cbn [shape_coords]. apply spans_lines; [exact Hb|exact H].
Qed.

Theorem hit_in_bbox_multiline : forall a b,
  wf_fixarr a = true -> rings_wf b = true -> hit_in_bbox a (ShMultiLine b).
Proof.
  intros a b Hwf Hb. apply spans_hit_in_bbox; [exact Hwf|].
  intros x y H. cbn [shape_coords]. apply spans_lines; [exact Hb|exact H].
Qed.

(* ------------------------------------------------------------------ *)
(* polygons and multipolygons: a non-zero winding number puts the point inside
   the extent of a ring -- for closed rings (the contributions of the edges of a
   closed ring cancel for a point to the left of all its vertices) *)

Definition fz (y v : Z) : Z := if v <? y then 1 else 0.

Ltac split_ifs :=
  repeat match goal with
         | |- context [if ?c then _ else _] => destruct c eqn:?
         | H : context [if ?c then _ else _] |- _ => destruct c eqn:?
         end.

Lemma pip_edge_left : forall x y x0 y0 x1 y1,
  x <= x0 -> x <= x1 -> pip_edge x y ((x0, y0), (x1, y1)) = fz y y0 - fz y y1.
Proof.
  intros x y x0 y0 x1 y1 H0 H1. unfold pip_edge, fz.
  destruct (y1 =? y0) eqn:E0.
  - split_ifs; lia.
  - destruct (y1 <? y0) eqn:E1; cbv beta iota; split_ifs; lia.
Qed.

Lemma pip_edge_nonzero : forall x y x0 y0 x1 y1,
  pip_edge x y ((x0, y0), (x1, y1)) <> 0 ->
  Z.min y0 y1 < y <= Z.max y0 y1 /\ x <= Z.max x0 x1.
Proof.
  intros x y x0 y0 x1 y1 H. unfold pip_edge in H.
  destruct (y1 =? y0) eqn:E0; [contradiction|].
  destruct (y1 <? y0) eqn:E1; cbv beta iota in H; split_ifs; try contradiction; lia.
Qed.

Lemma fold_add_nonzero : forall A (f : A -> Z) l a0,
  fold_left (fun acc r => acc + f r) l a0 <> a0 -> exists r, In r l /\ f r <> 0.
Proof.
  induction l as [|a t IH]; intros a0 H; cbn in H; [contradiction|].
  destruct (Z.eq_dec (f a) 0) as [E|E].
  - rewrite E, Z.add_0_r in H. destruct (IH a0 H) as [r [Hin Hr]].
    exists r. split; [right; exact Hin|exact Hr].
  - exists a. split; [left; reflexivity|exact E].
Qed.

Lemma pip_telescope : forall x y vs a0 d,
  (forall v, In v vs -> x <= fst v) ->
  fold_left (fun acc e => acc + pip_edge x y e) (edges vs) a0 =
  a0 + fz y (snd (hd d vs)) - fz y (snd (last vs d)).
Proof.
  intros x y. induction vs as [|v t IH]; intros a0 d H.
  - cbn. lia.
  - destruct t as [|w t'].
    + cbn. lia.
    + cbn [edges fold_left]. rewrite (IH _ d) by (intros u Hu; apply H; right; exact Hu).
      destruct v as [vx vy], w as [wx wy].
      rewrite pip_edge_left.
      * cbn [hd snd]. change (last ((vx, vy) :: (wx, wy) :: t') d) with (last ((wx, wy) :: t') d). lia.
      * apply (H (vx, vy)). left. reflexivity.
      * apply (H (wx, wy)). right. left. reflexivity.
Qed.

Lemma last_cons_default : forall A (p : A) t d, last (p :: t) d = last t p.
Proof.
  intros A p t d. destruct t as [|q t]; [reflexivity|].
  change (last (p :: q :: t) d) with (last (q :: t) d). apply last_default. discriminate.
Qed.

Lemma pip_ring_closed_left : forall x y ring,
  ring_closed ring = true -> (forall v, In v (zpairs ring) -> x <= fst v) ->
  pip_ring x y ring = 0.
Proof.
  intros x y ring Hc Hl. unfold pip_ring. rewrite (pip_telescope x y _ 0 (0, 0) Hl).
  unfold ring_closed in Hc. destruct (zpairs ring) as [|p t]; [cbn; lia|].
  rewrite last_cons_default. cbn [hd].
  apply andb_true_iff in Hc. destruct Hc as [_ Hy]. apply Z.eqb_eq in Hy. rewrite Hy. lia.
Qed.

Lemma left_vertex_dec : forall (l : list pt) x,
  (forall v, In v l -> x <= fst v) \/ (exists v, In v l /\ fst v < x).
Proof.
  induction l as [|a t IH]; intros x; [left; intros v []|].
  destruct (IH x) as [H|[v [Hin Hv]]].
  - destruct (Z_le_gt_dec x (fst a)) as [Hle|Hgt].
    + left. intros v [E|Hin]; [subst; exact Hle|exact (H v Hin)].
    + right. exists a. split; [left; reflexivity|lia].
  - right. exists v. split; [right; exact Hin|exact Hv].
Qed.

Lemma covers_of_four : forall l pa pb pc pd x y,
  In pa (zpairs l) -> In pb (zpairs l) -> In pc (zpairs l) -> In pd (zpairs l) ->
  fst pa <= x <= fst pb -> snd pc <= y <= snd pd ->
  covers (map Some l) x y.
Proof.
  intros l pa pb pc pd x y Ha Hb Hc Hd Hx Hy. unfold covers. rewrite xs_of_some, ys_of_some.
  split.
  - exists (fst pa), (fst pb). repeat split; try lia; apply in_map; assumption.
  - exists (snd pc), (snd pd). repeat split; try lia; apply in_map; assumption.
Qed.

Lemma pip_ring_covers : forall x y ring,
  ring_closed ring = true -> pip_ring x y ring <> 0 ->
  exists pa pb pc pd,
    In pa (zpairs ring) /\ In pb (zpairs ring) /\ In pc (zpairs ring) /\ In pd (zpairs ring) /\
    fst pa <= x <= fst pb /\ snd pc <= y <= snd pd.
Proof.
  intros x y ring Hc Hn.
  destruct (left_vertex_dec (zpairs ring) x) as [Hall|[va [Hva Hlt]]].
  - exfalso. apply Hn. apply pip_ring_closed_left; assumption.
  - unfold pip_ring in Hn. destruct (fold_add_nonzero _ _ _ 0 Hn) as [[[x0 y0] [x1 y1]] [Hin He]].
    apply edges_in in Hin. destruct Hin as [H0 H1].
    apply pip_edge_nonzero in He. destruct He as [Hy Hx].
    exists va.
    exists (if x0 <=? x1 then (x1, y1) else (x0, y0)).
    exists (if y0 <=? y1 then (x0, y0) else (x1, y1)).
    exists (if y0 <=? y1 then (x1, y1) else (x0, y0)).
    destruct (x0 <=? x1) eqn:Ex, (y0 <=? y1) eqn:Ey; cbn [fst snd]; repeat split; try assumption; lia.
Qed.

Lemma flat_covers4 : forall b sv flat x y,
  rings_wf b = true -> finite_vals (sb_buffer_values b) = Some sv ->
  In flat (rings_of sv (sb_inner_offsets b)) ->
  (exists pa pb pc pd,
     In pa (zpairs flat) /\ In pb (zpairs flat) /\ In pc (zpairs flat) /\ In pd (zpairs flat) /\
     fst pa <= x <= fst pb /\ snd pc <= y <= snd pd) ->
  covers (sb_flat_values b) x y.
Proof.
  intros b sv flat x y Hwf Hfin Hin [pa [pb [pc [pd [Ha [Hb [Hc [Hd [Hx Hy]]]]]]]]].
  apply finite_vals_map in Hfin.
  destruct (rings_of_in _ _ _ Hin) as [i [Hi Hf]]. subst flat.
  rewrite sb_flat_values_range, Hfin, slice_map.
  apply (covers_of_four _ pa pb pc pd); try assumption;
    apply (ring_in_flat b sv i _ Hwf Hfin Hi); assumption.
Qed.

Lemma spans_polygon : forall b x y,
  rings_wf b = true -> rings_closed b = true ->
  obind (finite_vals (sb_buffer_values b))
        (fun sv => Some (Value (point_intersects_polygon x y sv (sb_inner_offsets b))))
    = Some (Value true) ->
  covers (sb_flat_values b) x y.
Proof.
  intros b x y Hwf Hcl H. unfold obind in H. unfold rings_closed in Hcl.
  destruct (finite_vals (sb_buffer_values b)) as [sv|] eqn:Ef; [|discriminate].
  inversion H as [Hp]. unfold point_intersects_polygon in Hp.
  apply negb_true_iff, Z.eqb_neq in Hp. unfold winding_number in Hp.
  destruct (fold_add_nonzero _ _ _ 0 Hp) as [ring [Hin Hr]].
  apply (flat_covers4 b sv ring x y Hwf Ef Hin).
  apply pip_ring_covers; [|exact Hr].
  apply (proj1 (forallb_forall _ _) Hcl). exact Hin.
Qed.

Theorem hit_in_bbox_polygon : forall a b,
  wf_fixarr a = true -> rings_wf b = true -> rings_closed b = true ->
  hit_in_bbox a (ShPolygon b).
Proof.
  intros a b Hwf Hb Hc. apply spans_hit_in_bbox; [exact Hwf|].
  intros x y H. cbn [shape_coords]. apply spans_polygon; [exact Hb|exact Hc|exact H].
Qed.

Theorem hit_in_bbox_multipolygon : forall a b,
  wf_fixarr a = true -> rings_wf b = true -> rings_closed b = true ->
  hit_in_bbox a (ShMultiPolygon b).
Proof.
  intros a b Hwf Hb Hc. apply spans_hit_in_bbox; [exact Hwf|].
  intros x y H. cbn [shape_coords]. apply spans_polygon; [exact Hb|exact Hc|exact H].
Qed.

(* every shape kind at once *)
Theorem hit_in_bbox_shape : forall a sh,
  wf_fixarr a = true -> shape_buffers_wf sh = true -> shape_rings_closed sh = true ->
  hit_in_bbox a sh.
Proof.
  intros a sh Hwf Hb Hc. destruct sh; cbn in Hb, Hc.
  - apply hit_in_bbox_point; assumption.
  - apply hit_in_bbox_multipoint; assumption.
  - apply hit_in_bbox_line; assumption.
  - apply hit_in_bbox_multiline; assumption.
  - apply hit_in_bbox_polygon; assumption.
  - apply hit_in_bbox_multipolygon; assumption.
Qed.

(* ------------------------------------------------------------------ *)
(* the premise [good_right] of the pair-table theorem, from executable guards *)
From SP Require Import Proofs.SjoinRows Proofs.SjoinPairs Proofs.SjoinCand.

Theorem good_right_of_wf : forall a rgeoms,
  wf_fixarr a = true -> right_wf rgeoms = true -> good_right a rgeoms.
Proof.
  intros a rgeoms Hwf H. unfold good_right. apply Forall_forall. intros s Hs.
  unfold right_wf in H. pose proof (proj1 (forallb_forall _ _) H s Hs) as Hg.
  destruct s as [sh|]; [|exact I]. apply andb_true_iff in Hg. destruct Hg as [Hb Hc].
  apply hit_in_bbox_shape; assumption.
Qed.

(* without the "closed" guard the statement is false: the polygon with the single,
   unclosed ring (0,0)-(0,2) "contains" (-5, 1) by its winding number, outside its bounds *)
Definition open_ring : shape :=
  ShPolygon (BList {| la_off := 0; la_len := 1; la_valid := None; la_offs := [[0; 4]%nat];
                      la_vals := [Some 0; Some 0; Some 0; Some 2] |}).
Definition far_point : fixarr :=
  {| fa_off := 0; fa_len := 1; fa_valid := None; fa_vals := [Some (-5); Some 1] |}.

Lemma unclosed_ring_refuted :
  wf_fixarr far_point = true /\ shape_buffers_wf open_ring = true /\
  shape_rings_closed open_ring = false /\
  ~ hit_in_bbox far_point open_ring /\
  intersecting far_point [Some open_ring] 0 0 /\
  pair_table (scan_cand far_point) far_point [Some open_ring] = Some (Value []).
Proof.
  split; [reflexivity|]. split; [reflexivity|]. split; [reflexivity|]. split; [|split].
  - intros H. specialize (H 0%nat). cbv in H.
    assert (E : True /\ true = false) by (apply H; [lia|reflexivity]). destruct E. discriminate.
  - split; [cbn; lia|]. exists open_ring. split; reflexivity.
  - vm_compute. reflexivity.
Qed.

(* ------------------------------------------------------------------ *)
(* all together: only the three external contracts and the executable guards remain *)
From SP Require Import Proofs.SjoinCols.
From Coq Require Import Permutation.

Theorem sjoin_exact : forall mrg cand h ls rs lm rm a rgeoms res,
  merge_contract mrg ->
  cand_contract (fa_len a) (fa_bounds a) (cand a) ->
  array_form_contract a ->
  right_wf rgeoms = true ->
  sjoin mrg cand h ls rs lm rm a rgeoms = Some (inr res) ->
  exists ps, pair_enum a rgeoms ps /\
             Permutation (j_rows res) (expected_rows h (fa_len a) (List.length rgeoms) ps).
Proof.
  intros mrg cand h ls rs lm rm a rgeoms res Hm Hc Ha Hw H.
  destruct (sjoin_inr_in_model _ _ _ _ _ _ _ _ _ _ H) as [_ Hwf].
  apply (sjoin_rows_exact mrg cand h ls rs lm rm a rgeoms res Hm Hc Ha); [|exact H].
  apply good_right_of_wf; assumption.
Qed.

(* the executable model is an instance: its scan is an index, its merge is the relational join *)
Theorem model_exact : forall h ls rs lm rm a rgeoms res,
  array_form_contract a ->
  right_wf rgeoms = true ->
  sjoin merge_rel_op scan_cand h ls rs lm rm a rgeoms = Some (inr res) ->
  exists ps, pair_enum a rgeoms ps /\
             Permutation (j_rows res) (expected_rows h (fa_len a) (List.length rgeoms) ps).
Proof.
  intros h ls rs lm rm a rgeoms res Ha Hw H.
  destruct (sjoin_inr_in_model _ _ _ _ _ _ _ _ _ _ H) as [_ Hwf].
  apply (sjoin_exact merge_rel_op scan_cand h ls rs lm rm a rgeoms res); try assumption.
  - apply merge_rel_contract.
  - apply scan_cand_contract. exact Hwf.
Qed.
