(* Lemma library for C14, float part: the bit-exact binary64 model
   Model/FloatMeasures.v related to the exact model Model/Measures.v.

   1. structure of the float length: the left-to-right float sum of
      sqrt(dx*dx + dy*dy) over exactly the segments both of whose ends are finite,
      the same segments in the same order as the terms of the Z model;
   2. array level: row i is NaN when element i is missing, the kernel on the
      element's ring offsets otherwise;
   3. exactness of the float area on integer-valued coordinates (Flocq: every
      subtraction, product and partial sum is an integer below 2^53, hence
      computed without rounding): float area = (doubled area of the Z model) / 2;
   4. exactness of the float length on integer coordinates when every segment has a
      perfect-square squared length: float length = the integer [exact_sum] yields. *)
From Coq Require Import ZArith Reals Floats List Bool Arith Lia Lra Psatz ZifyBool.
From Flocq Require Import Core.Core IEEE754.BinarySingleNaN IEEE754.PrimFloat.
From SP Require Import Model.Num Model.Arrow Model.Measures Model.FloatMeasures
  Proofs.BoundsProofs Spec.MeasuresSpec Proofs.MeasuresProofs Proofs.MeasuresMapProofs
  Proofs.MeasuresArrayProofs.
Import ListNotations.

(* Flocq's [float] (a record) shadows the primitive type *)
Notation pfloat := Coq.Floats.PrimFloat.float.

(* ================================================================== *)
(** * 1. compute_line_length: structure                                  *)
(* ================================================================== *)
Local Open Scope nat_scope.

Definition fseg := (pfloat * pfloat * pfloat * pfloat)%type.

Definition fseg_finite (s : fseg) : bool :=
  let '(x0, y0, x1, y1) := s in f_finite4 x0 y0 x1 y1.

Definition fseg_len (s : fseg) : pfloat :=
  let '(x0, y0, x1, y1) := s in f_seglen x0 y0 x1 y1.

(* the segments between consecutive vertices of one line that have both ends
   finite, in order (the shape of Measures.ll_inner) *)
Fixpoint fseg_inner (vals : list pfloat) (n i : nat) (x0 y0 : pfloat) : list fseg :=
  match n with
  | O => []
  | S n' =>
      let x1 := fget vals i in
      let y1 := fget vals (i + 1) in
      let rest := fseg_inner vals n' (i + 2) x1 y1 in
      if f_finite4 x0 y0 x1 y1 then (x0, y0, x1, y1) :: rest else rest
  end.

Fixpoint fseg_terms (vals : list pfloat) (offs : list nat) : list fseg :=
  match offs with
  | start :: ((stop :: _) as t) =>
      (if Nat.ltb (stop - start) 4 then []
       else fseg_inner vals (range2_count (start + 2) stop) (start + 2)
                       (fget vals start) (fget vals (start + 1)))
      ++ fseg_terms vals t
  | _ => []
  end.

(* left-to-right float summation *)
Definition fsum_from (acc : pfloat) (l : list fseg) : pfloat :=
  fold_left (fun a s => PrimFloat.add a (fseg_len s)) l acc.

Lemma fll_inner_sum : forall vals n i x0 y0 acc,
  fll_inner vals n i x0 y0 acc = fsum_from acc (fseg_inner vals n i x0 y0).
Proof.
  intros vals n. induction n as [|n IH]; intros i x0 y0 acc; cbn [fll_inner fseg_inner].
  - reflexivity.
  - rewrite IH. destruct (f_finite4 x0 y0 (fget vals i) (fget vals (i + 1))); reflexivity.
Qed.

Lemma fll_loop_cons : forall vals start stop t acc,
  fll_loop vals (start :: stop :: t) acc =
  fll_loop vals (stop :: t)
    (if Nat.ltb (stop - start) 4 then acc
     else fll_inner vals (range2_count (start + 2) stop) (start + 2)
                    (fget vals start) (fget vals (start + 1)) acc).
Proof. reflexivity. Qed.

Lemma fseg_terms_cons : forall vals start stop t,
  fseg_terms vals (start :: stop :: t) =
  (if Nat.ltb (stop - start) 4 then []
   else fseg_inner vals (range2_count (start + 2) stop) (start + 2)
                   (fget vals start) (fget vals (start + 1)))
  ++ fseg_terms vals (stop :: t).
Proof. reflexivity. Qed.

Lemma ll_terms_cons : forall vals start stop t,
  ll_terms vals (start :: stop :: t) =
  (if Nat.ltb (stop - start) 4 then []
   else ll_inner vals (range2_count (start + 2) stop) (start + 2)
                 (vget vals start) (vget vals (start + 1)))
  ++ ll_terms vals (stop :: t).
Proof. reflexivity. Qed.

Lemma fll_loop_sum : forall vals offs acc,
  fll_loop vals offs acc = fsum_from acc (fseg_terms vals offs).
Proof.
  intros vals offs. induction offs as [|start t IH]; intros acc; [reflexivity|].
  destruct t as [|stop t']; [reflexivity|].
  rewrite fll_loop_cons, fseg_terms_cons, IH. unfold fsum_from. rewrite fold_left_app.
  destruct (Nat.ltb (stop - start) 4); [reflexivity|].
  rewrite fll_inner_sum. reflexivity.
Qed.

Lemma fseg_inner_finite : forall vals n i x0 y0,
  Forall (fun s => fseg_finite s = true) (fseg_inner vals n i x0 y0).
Proof.
  intros vals n. induction n as [|n IH]; intros i x0 y0; cbn [fseg_inner]; [constructor|].
  destruct (f_finite4 x0 y0 (fget vals i) (fget vals (i + 1))) eqn:E; [constructor|]; auto.
Qed.

Lemma fseg_terms_finite : forall vals offs,
  Forall (fun s => fseg_finite s = true) (fseg_terms vals offs).
Proof.
  intros vals offs. induction offs as [|start t IH]; [constructor|].
  destruct t as [|stop t']; [constructor|].
  rewrite fseg_terms_cons. apply Forall_app. split; [|exact IH].
  destruct (Nat.ltb (stop - start) 4); [constructor | apply fseg_inner_finite].
Qed.

(* An abstraction of the coordinates to the numbers of the exact model: any map
   that sends exactly the non-finite floats (NaN, +inf, -inf) to [None]. *)
Section Abstraction.
  Variable ab : pfloat -> num.
  Hypothesis ab_finite : forall f, ab f = None <-> f_isfinite f = false.

  (* the argument of the sqrt in the exact model, for a segment of floats *)
  Definition zsq (s : fseg) : Z :=
    let '(x0, y0, x1, y1) := s in
    match ab x0, ab y0, ab x1, ab y1 with
    | Some a, Some b, Some c, Some d => sqdist a b c d
    | _, _, _, _ => 0%Z
    end.

  Lemma ab_nan : ab nan = None.
  Proof. apply ab_finite. vm_compute. reflexivity. Qed.

  Lemma vget_ab : forall vals i, vget (map ab vals) i = ab (fget vals i).
  Proof.
    intros vals i. unfold vget, fget. rewrite <- ab_nan. apply map_nth.
  Qed.

  Lemma ab_some : forall f, f_isfinite f = true -> exists z, ab f = Some z.
  Proof.
    intros f H. destruct (ab f) as [z|] eqn:E; [eauto|].
    apply ab_finite in E. congruence.
  Qed.

  Lemma ab_none_finite4 : forall x0 y0 x1 y1,
    f_finite4 x0 y0 x1 y1 = false ->
    ab x0 = None \/ ab y0 = None \/ ab x1 = None \/ ab y1 = None.
  Proof.
    intros x0 y0 x1 y1 H. unfold f_finite4 in H.
    destruct (f_isfinite x0) eqn:E0; [|left; apply ab_finite, E0].
    destruct (f_isfinite y0) eqn:E1; [|right; left; apply ab_finite, E1].
    destruct (f_isfinite x1) eqn:E2; [|right; right; left; apply ab_finite, E2].
    destruct (f_isfinite y1) eqn:E3; [discriminate|right; right; right; apply ab_finite, E3].
  Qed.

  Lemma ll_inner_ab : forall vals n i x0 y0,
    ll_inner (map ab vals) n i (ab x0) (ab y0) = map zsq (fseg_inner vals n i x0 y0).
  Proof.
    intros vals n. induction n as [|n IH]; intros i x0 y0; cbn [ll_inner fseg_inner]; [reflexivity|].
    rewrite !vget_ab, IH.
    destruct (f_finite4 x0 y0 (fget vals i) (fget vals (i + 1))) eqn:E.
    - unfold f_finite4 in E. apply andb_prop in E. destruct E as [E E3].
      apply andb_prop in E. destruct E as [E E2]. apply andb_prop in E. destruct E as [E0 E1].
      destruct (ab_some _ E0) as [a Ha], (ab_some _ E1) as [b Hb],
               (ab_some _ E2) as [c Hc], (ab_some _ E3) as [d Hd].
      cbn [map zsq]. rewrite Ha, Hb, Hc, Hd. reflexivity.
    - destruct (ab_none_finite4 _ _ _ _ E) as [H|[H|[H|H]]]; rewrite H;
        repeat match goal with |- context [match ?o with Some _ => _ | None => _ end] =>
                 destruct o end; reflexivity.
  Qed.

  Lemma ll_terms_ab : forall vals offs,
    ll_terms (map ab vals) offs = map zsq (fseg_terms vals offs).
  Proof.
    intros vals offs. induction offs as [|start t IH]; [reflexivity|].
    destruct t as [|stop t']; [reflexivity|].
    rewrite ll_terms_cons, fseg_terms_cons, IH, map_app. f_equal.
    destruct (Nat.ltb (stop - start) 4); [reflexivity|].
    rewrite !vget_ab. apply ll_inner_ab.
  Qed.

  (* The float length is the left-to-right float sum, starting from +0.0, of
     sqrt(dx*dx + dy*dy) over the list [fseg_terms]; every segment of that list has
     both ends finite; and it is, segment for segment and in the same order, the
     term list of the exact model run on the abstracted coordinates (which by
     C14_length_terms is exactly the segments between consecutive vertices with both
     ends finite, ring by ring). *)
  Theorem f_length_structure : forall vals offs,
    f_compute_line_length vals offs = fsum_from zero (fseg_terms vals offs) /\
    Forall (fun s => fseg_finite s = true) (fseg_terms vals offs) /\
    map zsq (fseg_terms vals offs) = fst (compute_line_length (map ab vals) offs).
  Proof.
    intros vals offs. split; [apply fll_loop_sum|]. split; [apply fseg_terms_finite|].
    unfold compute_line_length. cbn [fst]. symmetry. apply ll_terms_ab.
  Qed.

  (* ... spelled out against the specification of the rings *)
  Corollary f_length_structure_rings : forall vals offs,
    mono offs = true -> all_even offs = true -> last offs 0 <= length vals ->
    map zsq (fseg_terms vals offs) =
    concat (map (fun r => seg_terms (pairs r)) (segs (map ab vals) offs)).
  Proof.
    intros vals offs Hm He Hl.
    destruct (f_length_structure vals offs) as (_ & _ & H). rewrite H.
    rewrite compute_length_rings by (rewrite ?map_length; assumption).
    reflexivity.
  Qed.
End Abstraction.

(* ================================================================== *)
(** * 2. array level: missing -> NaN, otherwise the kernel on the element *)
(* ================================================================== *)

(* the ring offsets handed to the kernel for element i *)
Definition f_elem_offsets (a : listarr) (i : nat) : list nat :=
  match buffer_offsets a with
  | [o0] => slice i (i + 2) o0
  | [o0; o1] => slice (getn o0 i) (getn o0 (i + 1) + 1) o1
  | [o0; o1; o2] => slice (getn o1 (getn o0 i)) (getn o1 (getn o0 (i + 1)) + 1) o2
  | _ => []
  end.

Lemma with_nvals_offs : forall a n, la_offs (with_nvals a n) = la_offs a.
Proof. reflexivity. Qed.

Lemma f_wf_o0 : forall a fv o0 rest,
  la_offs a = o0 :: rest -> f_wf a fv = true ->
  length (slice (la_off a) (la_off a + la_len a + 1) o0) = la_len a + 1.
Proof.
  intros a fv o0 rest E H. unfold f_wf in H. apply andb_prop in H. destruct H as [H _].
  unfold wf_listarr in H. cbn [with_nvals la_offs la_off la_len la_valid la_vals] in H.
  rewrite E in H. apply andb_prop in H. destruct H as [H _].
  cbn [wf_levels] in H. apply andb_prop in H. destruct H as [H _].
  apply andb_prop in H. destruct H as [H _]. apply Nat.ltb_lt in H.
  rewrite slice_length by lia. lia.
Qed.

Lemma nan_fill_map : forall A (f : A -> option pfloat) l,
  nan_fill (map f l) = map (fun x => match f x with Some r => r | None => nan end) l.
Proof. intros. unfold nan_fill. rewrite map_map. reflexivity. Qed.

Lemma f_map_rows : forall k a fv fn,
  length (la_offs a) = kind_depth k -> f_wf a fv = true ->
  f_map_nested (kind_depth k) fn fv (buffer_offsets a) (la_isna a) =
  map (fun i => if isna_at (la_valid a) (la_off a) i then nan
                else fn fv (f_elem_offsets a i)) (seq 0 (la_len a)).
Proof.
  intros k a fv fn Hd Hwf. unfold f_map_nested, f_elem_offsets, buffer_offsets.
  destruct (la_offs a) as [|o0 [|o1 [|o2 [|o3 r]]]] eqn:E; cbn [length] in Hd;
    destruct k; cbn [kind_depth] in Hd |- *; try discriminate;
    pose proof (f_wf_o0 a fv _ _ E Hwf) as HL;
    unfold map_nested1, map_nested2, map_nested3; rewrite HL;
    replace (la_len a + 1 - 1) with (la_len a) by lia;
    rewrite nan_fill_map; apply map_ext_in; intros i Hi; apply in_seq in Hi;
    rewrite isna_nth by lia;
    destruct (isna_at (la_valid a) (la_off a) i); reflexivity.
Qed.

Lemma f_zeros_rows : forall a,
  f_zeros_nan (la_isna a) =
  map (fun i => if isna_at (la_valid a) (la_off a) i then nan else zero) (seq 0 (la_len a)).
Proof.
  intros a. unfold f_zeros_nan. rewrite zeros_nan_map, nan_fill_map.
  apply map_ext. intros i. destruct (isna_at (la_valid a) (la_off a) i); reflexivity.
Qed.

(* what row i of .length / .area is for an element that is not missing *)
Definition f_elem_length (k : kind) (a : listarr) (fv : list pfloat) (i : nat) : pfloat :=
  match k with
  | KMultiPoint => zero
  | _ => f_compute_line_length fv (f_elem_offsets a i)
  end.

Definition f_elem_area (k : kind) (a : listarr) (fv : list pfloat) (i : nat) : pfloat :=
  match k with
  | KPolygon | KMultiPolygon => f_compute_area fv (f_elem_offsets a i)
  | _ => zero
  end.

(* For every kind (all three nesting depths) and every well-formed buffer layout:
   row i of .length / .area is NaN when element i is missing and otherwise the float
   kernel on the ring offsets of element i. *)
Theorem f_array_rows : forall k a fv,
  length (la_offs a) = kind_depth k -> f_wf a fv = true ->
  f_arr_length k a fv =
    map (fun i => if isna_at (la_valid a) (la_off a) i then nan
                  else f_elem_length k a fv i) (seq 0 (la_len a)) /\
  f_arr_area k a fv =
    map (fun i => if isna_at (la_valid a) (la_off a) i then nan
                  else f_elem_area k a fv i) (seq 0 (la_len a)).
Proof.
  intros k a fv Hd Hwf.
  pose proof (fun fn => f_map_rows k a fv fn Hd Hwf) as R.
  split; destruct k; cbn [f_arr_length f_arr_area f_elem_length f_elem_area];
    try apply f_zeros_rows; apply R.
Qed.

Theorem f_missing_nan : forall k a fv i,
  length (la_offs a) = kind_depth k -> f_wf a fv = true ->
  i < la_len a -> isna_at (la_valid a) (la_off a) i = true ->
  length (f_arr_length k a fv) = la_len a /\ length (f_arr_area k a fv) = la_len a /\
  nth i (f_arr_length k a fv) zero = nan /\ nth i (f_arr_area k a fv) zero = nan.
Proof.
  intros k a fv i Hd Hwf Hi Hna.
  destruct (f_array_rows k a fv Hd Hwf) as [HL HA]. rewrite HL, HA.
  rewrite !map_length, seq_length, !nth_map_seq by exact Hi. rewrite Hna. auto.
Qed.

(* ================================================================== *)
(** * 3. compute_area on integer-valued coordinates is exact             *)
(* ================================================================== *)
Local Open Scope Z_scope.

(* the real value of a binary64 number (0 for NaN and the infinities) and its
   finiteness, through Flocq's formalisation of IEEE 754 ([Prim2B]: the primitive
   float as a Flocq binary_float) *)
Definition fvalue (f : pfloat) : R := B2R (Prim2B f).
Definition ffinite (f : pfloat) : bool := is_finite (Prim2B f).

(* the float [f] is finite and its value is the integer [z] *)
Definition frep (f : pfloat) (z : Z) : Prop :=
  ffinite f = true /\ fvalue f = IZR z.

Notation fexp64 := (FLT_exp (3 - emax - prec) prec).

(* z * 2^e with |z| <= 2^53 and e at least the minimal exponent is a binary64 number *)
Lemma int_format : forall z e, Z.abs z <= 2 ^ 53 -> -1074 <= e <= 0 ->
  generic_format radix2 fexp64 (IZR z * bpow radix2 e).
Proof.
  intros z e Hz He.
  destruct (Z.eq_dec (Z.abs z) (2 ^ 53)) as [E|NE].
  - assert (G : generic_format radix2 fexp64 (IZR (2 ^ 53) * bpow radix2 e)).
    { change (IZR (2 ^ 53)) with (IZR (Zpower radix2 53)). rewrite IZR_Zpower by lia.
      rewrite <- bpow_plus. apply generic_format_bpow. unfold FLT_exp, emax, prec. lia. }
    destruct (Z.abs_eq_or_opp z) as [A|A]; rewrite A in E.
    + rewrite E. exact G.
    + replace z with (- 2 ^ 53) by lia. rewrite opp_IZR, Ropp_mult_distr_l_reverse.
      apply generic_format_opp. exact G.
  - apply generic_format_FLT. apply (FLT_spec _ _ _ _ (Float radix2 z e)).
    + reflexivity.
    + simpl. unfold prec. change (Zpower radix2 53) with (2 ^ 53). lia.
    + simpl. unfold emax, prec. lia.
Qed.

Lemma int_format0 : forall z, Z.abs z <= 2 ^ 53 -> generic_format radix2 fexp64 (IZR z).
Proof.
  intros z Hz. replace (IZR z) with (IZR z * bpow radix2 0)%R by (simpl; lra).
  apply int_format; [exact Hz | lia].
Qed.

Lemma int_lt_emax : forall z, Z.abs z <= 2 ^ 53 -> (Rabs (IZR z) < bpow radix2 emax)%R.
Proof.
  intros z Hz. rewrite <- abs_IZR.
  apply Rle_lt_trans with (IZR (2 ^ 53)). apply IZR_le, Hz.
  change (IZR (2 ^ 53)) with (IZR (Zpower radix2 53)). rewrite IZR_Zpower by lia.
  apply bpow_lt. unfold emax. lia.
Qed.

Lemma frep_add : forall a b x y, frep a x -> frep b y -> Z.abs (x + y) <= 2 ^ 53 ->
  frep (a + b)%float (x + y).
Proof.
  intros a b x y [Fa Ra] [Fb Rb] Hb.
  unfold frep, ffinite, fvalue in *. rewrite add_equiv.
  generalize (Bplus_correct prec emax Hprec Hmax mode_NE (Prim2B a) (Prim2B b) Fa Fb).
  rewrite Ra, Rb, <- plus_IZR.
  rewrite round_generic; [| auto with typeclass_instances | apply int_format0, Hb].
  rewrite Rlt_bool_true by (apply int_lt_emax, Hb).
  intros (H1 & H2 & _). split; assumption.
Qed.

Lemma frep_sub : forall a b x y, frep a x -> frep b y -> Z.abs (x - y) <= 2 ^ 53 ->
  frep (a - b)%float (x - y).
Proof.
  intros a b x y [Fa Ra] [Fb Rb] Hb.
  unfold frep, ffinite, fvalue in *. rewrite sub_equiv.
  generalize (Bminus_correct prec emax Hprec Hmax mode_NE (Prim2B a) (Prim2B b) Fa Fb).
  rewrite Ra, Rb, <- minus_IZR.
  rewrite round_generic; [| auto with typeclass_instances | apply int_format0, Hb].
  rewrite Rlt_bool_true by (apply int_lt_emax, Hb).
  intros (H1 & H2 & _). split; assumption.
Qed.

Lemma frep_mul : forall a b x y, frep a x -> frep b y -> Z.abs (x * y) <= 2 ^ 53 ->
  frep (a * b)%float (x * y).
Proof.
  intros a b x y [Fa Ra] [Fb Rb] Hb.
  unfold frep, ffinite, fvalue in *. rewrite mul_equiv.
  generalize (Bmult_correct prec emax Hprec Hmax mode_NE (Prim2B a) (Prim2B b)).
  rewrite Ra, Rb, <- mult_IZR.
  rewrite round_generic; [| auto with typeclass_instances | apply int_format0, Hb].
  rewrite Rlt_bool_true by (apply int_lt_emax, Hb).
  rewrite Fa, Fb. intros (H1 & H2 & _). split; assumption.
Qed.

Lemma frep_zero : frep zero 0.
Proof. unfold frep, ffinite, fvalue in *. rewrite zero_equiv, Prim2B_B2Prim. simpl. auto. Qed.

Lemma B2R_two : B2R (Prim2B two) = 2%R.
Proof.
  unfold Prim2B. rewrite B2R_SF2B.
  replace (Prim2SF two) with (S754_finite false 4503599627370496 (-51))
    by (vm_compute; reflexivity).
  simpl. unfold F2R. simpl. lra.
Qed.

(* halving an integer below 2^53 is exact *)
Lemma frep_half : forall a x, frep a x -> Z.abs x <= 2 ^ 53 ->
  ffinite (a / two)%float = true /\
  fvalue (a / two)%float = (IZR x / 2)%R.
Proof.
  intros a x [Fa Ra] Hb. unfold ffinite, fvalue in *. rewrite div_equiv.
  assert (T : B2R (Prim2B two) <> 0%R) by (rewrite B2R_two; lra).
  generalize (Bdiv_correct prec emax Hprec Hmax mode_NE (Prim2B a) (Prim2B two) T).
  rewrite Ra, B2R_two.
  assert (G : generic_format radix2 fexp64 (IZR x / 2)).
  { replace (IZR x / 2)%R with (IZR x * bpow radix2 (-1))%R by (simpl; lra).
    apply int_format; [exact Hb | lia]. }
  rewrite round_generic; [| auto with typeclass_instances | exact G].
  rewrite Rlt_bool_true.
  - rewrite Fa. intros (H1 & H2 & _). split; assumption.
  - apply Rle_lt_trans with (Rabs (IZR x)); [|apply int_lt_emax, Hb].
    unfold Rdiv. rewrite Rabs_mult. rewrite (Rabs_pos_eq (/ 2)) by lra.
    pose proof (Rabs_pos (IZR x)). lra.
Qed.

(* ---- the float loop simulates the Z loop ---- *)
Section AreaExact.
  Variable fv : list pfloat.
  Variable zs : list Z.
  Variable B : Z.
  Hypothesis Hrep : Forall2 frep fv zs.
  Hypothesis Hbound : Forall (fun z => Z.abs z <= B) zs.

  (* a read of the Z model that succeeds is in range; the float read is its image *)
  Lemma read_rep : forall i z, vget (map Some zs) i = Some z ->
    frep (fget fv i) z /\ Z.abs z <= B.
  Proof.
    unfold vget, fget. revert Hbound. induction Hrep as [|f z0 fv' zs' H0 HF IH]; intros Hb i z Hr.
    - destruct i; discriminate.
    - inversion Hb as [|? ? Hz0 Hb']; subst. destruct i as [|i]; cbn [map nth] in *.
      + inversion Hr; subst. auto.
      + apply IH; assumption.
  Qed.

  (* [acc] after [t] terms: None (a read went out of range: the Z model gives up), or an
     integer of magnitude at most t * 2B^2 which the float accumulator holds exactly *)
  Definition arel (t : Z) (facc : pfloat) (acc : num) : Prop :=
    match acc with
    | None => True
    | Some z => frep facc z /\ Z.abs z <= t * (2 * B * B)
    end.

  Lemma term_rep : forall fi fj fk x j k,
    frep fi x -> frep fj j -> frep fk k ->
    Z.abs x <= B -> Z.abs j <= B -> Z.abs k <= B -> 2 * B * B <= 2 ^ 53 ->
    frep (f_aterm fi fj fk) (x * (j - k)) /\ Z.abs (x * (j - k)) <= 2 * B * B.
  Proof.
    intros fi fj fk x j k Hi Hj Hk Bx Bj Bk HB.
    assert (D : Z.abs (j - k) <= 2 * B) by lia.
    assert (P : Z.abs (x * (j - k)) <= 2 * B * B).
    { rewrite Z.abs_mul. transitivity (B * (2 * B)); [|lia].
      apply Z.mul_le_mono_nonneg; lia. }
    split; [|exact P]. unfold f_aterm. apply frep_mul; [exact Hi| |lia].
    apply frep_sub; [exact Hj|exact Hk|]. nia.
  Qed.

  Lemma step_rel : forall t facc acc i j k,
    arel t facc acc -> 0 <= t -> (t + 1) * (2 * B * B) <= 2 ^ 53 ->
    arel (t + 1)
      (PrimFloat.add facc (f_aterm (fget fv i) (fget fv j) (fget fv k)))
      (nadd acc (nmul (vget (map Some zs) i)
                      (nsub (vget (map Some zs) j) (vget (map Some zs) k)))).
  Proof.
    intros t facc acc i j k Hr Ht HB.
    destruct acc as [z|]; [|exact I].
    destruct (vget (map Some zs) i) as [x|] eqn:Ei; [|exact I].
    destruct (vget (map Some zs) j) as [y|] eqn:Ej; [|exact I].
    destruct (vget (map Some zs) k) as [w|] eqn:Ek; [|exact I].
    destruct (read_rep _ _ Ei) as [Ri Bi], (read_rep _ _ Ej) as [Rj Bj],
             (read_rep _ _ Ek) as [Rk Bk].
    destruct Hr as [Rz Bz].
    assert (B0 : 0 <= B) by lia.
    assert (HB1 : 2 * B * B <= 2 ^ 53) by nia.
    destruct (term_rep _ _ _ _ _ _ Ri Rj Rk Bi Bj Bk HB1) as [Rt Bt].
    cbn [nadd nmul nsub arel].
    assert (S : Z.abs (z + x * (y - w)) <= (t + 1) * (2 * B * B)) by lia.
    split; [|exact S]. apply frep_add; [exact Rz|exact Rt|lia].
  Qed.

  Lemma main_rel : forall n k t facc acc,
    arel t facc acc -> 0 <= t -> (t + Z.of_nat n) * (2 * B * B) <= 2 ^ 53 ->
    arel (t + Z.of_nat n) (farea_main fv n k facc) (area_main (map Some zs) n k acc).
  Proof.
    induction n as [|n IH]; intros k t facc acc Hr Ht HB; cbn [farea_main area_main].
    - replace (t + Z.of_nat 0) with t by lia. exact Hr.
    - replace (t + Z.of_nat (S n)) with ((t + 1) + Z.of_nat n) in * by lia.
      apply IH; [|lia|exact HB].
      apply step_rel; [exact Hr|exact Ht|].
      destruct (Z.le_gt_cases (2 * B * B) 0); nia.
  Qed.

  (* number of terms one ring / a list of rings adds to the accumulator *)
  Definition ring_nterms (start stop : nat) : nat :=
    if Nat.ltb (stop - start) 6 then 0%nat
    else (range2_count start (stop - 4) + 1)%nat.

  Fixpoint area_nterms (offs : list nat) : nat :=
    match offs with
    | start :: ((stop :: _) as t) => (ring_nterms start stop + area_nterms t)%nat
    | _ => 0%nat
    end.

  Lemma ring_rel : forall start stop t facc acc,
    arel t facc acc -> 0 <= t ->
    (t + Z.of_nat (ring_nterms start stop)) * (2 * B * B) <= 2 ^ 53 ->
    arel (t + Z.of_nat (ring_nterms start stop))
         (farea_ring fv start stop facc) (area_ring (map Some zs) start stop acc).
  Proof.
    intros start stop t facc acc Hr Ht HB. unfold farea_ring, area_ring, ring_nterms in *.
    destruct (Nat.ltb (stop - start) 6).
    - replace (t + Z.of_nat 0) with t by lia. exact Hr.
    - set (n := range2_count start (stop - 4)) in *.
      replace (t + Z.of_nat (n + 1)) with ((t + Z.of_nat n) + 1) in * by lia.
      apply step_rel; [|lia|exact HB].
      apply main_rel; [exact Hr|exact Ht|].
      destruct (Z.le_gt_cases (2 * B * B) 0); nia.
  Qed.

  Lemma loop_rel : forall offs t facc acc,
    arel t facc acc -> 0 <= t ->
    (t + Z.of_nat (area_nterms offs)) * (2 * B * B) <= 2 ^ 53 ->
    arel (t + Z.of_nat (area_nterms offs))
         (farea_loop fv offs facc) (area_loop (map Some zs) offs acc).
  Proof.
    induction offs as [|start tl IH]; intros t facc acc Hr Ht HB.
    - cbn. replace (t + 0) with t by lia. exact Hr.
    - destruct tl as [|stop tl'].
      + cbn. replace (t + 0) with t by lia. exact Hr.
      + change (area_nterms (start :: stop :: tl'))
          with (ring_nterms start stop + area_nterms (stop :: tl'))%nat in *.
        change (farea_loop fv (start :: stop :: tl') facc)
          with (farea_loop fv (stop :: tl') (farea_ring fv start stop facc)).
        change (area_loop (map Some zs) (start :: stop :: tl') acc)
          with (area_loop (map Some zs) (stop :: tl') (area_ring (map Some zs) start stop acc)).
        replace (t + Z.of_nat (ring_nterms start stop + area_nterms (stop :: tl')))
          with ((t + Z.of_nat (ring_nterms start stop)) + Z.of_nat (area_nterms (stop :: tl')))
          in * by lia.
        apply IH; [|lia|exact HB].
        apply ring_rel; [exact Hr|exact Ht|].
        destruct (Z.le_gt_cases (2 * B * B) 0); nia.
  Qed.

  Theorem area_exact : forall offs z2,
    Z.of_nat (area_nterms offs) * (2 * B * B) <= 2 ^ 53 ->
    compute_area (map Some zs) offs = Some z2 ->
    ffinite (f_compute_area fv offs) = true /\
    fvalue (f_compute_area fv offs) = (IZR z2 / 2)%R.
  Proof.
    intros offs z2 HB Hc. unfold compute_area in Hc. unfold f_compute_area, f_area2.
    assert (R0 : arel 0 zero (Some 0)) by (split; [apply frep_zero|lia]).
    pose proof (loop_rel offs 0 zero (Some 0) R0 ltac:(lia) ltac:(lia)) as R.
    rewrite Hc in R. destruct R as [Rz Bz].
    apply frep_half; [exact Rz|lia].
  Qed.
End AreaExact.

(* the number of terms is at most the number of vertices *)
Lemma ring_nterms_le : forall start stop, (2 * ring_nterms start stop <= stop - start)%nat.
Proof.
  intros start stop. unfold ring_nterms, range2_count.
  destruct (Nat.ltb (stop - start) 6) eqn:E; [lia|].
  apply Nat.ltb_ge in E.
  pose proof (Nat.div_mod (stop - 4 - start + 1) 2 ltac:(lia)) as D.
  pose proof (Nat.mod_upper_bound (stop - 4 - start + 1) 2 ltac:(lia)). lia.
Qed.

Lemma area_nterms_le : forall offs, mono offs = true ->
  (2 * area_nterms offs + hd 0 offs <= last offs 0)%nat.
Proof.
  induction offs as [|start tl IH]; intros Hm; [cbn; lia|].
  destruct tl as [|stop tl']; [cbn; lia|].
  change (area_nterms (start :: stop :: tl'))
    with (ring_nterms start stop + area_nterms (stop :: tl'))%nat.
  change (last (start :: stop :: tl') 0%nat) with (last (stop :: tl') 0%nat).
  change (mono (start :: stop :: tl')) with (Nat.leb start stop && mono (stop :: tl')) in Hm.
  apply andb_prop in Hm. destruct Hm as [H1 H2]. apply Nat.leb_le in H1.
  specialize (IH H2). cbn [hd] in *.
  pose proof (ring_nterms_le start stop). lia.
Qed.

(* (i) general form: any list of ring offsets; T = area_nterms offs is the number of
   terms added (at most the number of vertices).  Coordinates are floats holding the
   integers [zs] ([Forall2 frep]) of magnitude at most B; if T * 2 * B^2 <= 2^53 the
   float area is finite and equals the Z model's doubled area divided by 2, exactly. *)
Theorem f_area_exact_int : forall fv zs B offs z2,
  Forall2 frep fv zs -> Forall (fun z => Z.abs z <= B) zs ->
  Z.of_nat (area_nterms offs) * (2 * B * B) <= 2 ^ 53 ->
  compute_area (map Some zs) offs = Some z2 ->
  ffinite (f_compute_area fv offs) = true /\
  fvalue (f_compute_area fv offs) = (IZR z2 / 2)%R.
Proof. intros fv zs B offs z2 Hr Hb. apply area_exact; assumption. Qed.

(* in terms of the number of vertices m = last offs / 2 of an element's rings *)
Theorem f_area_exact_int_vertices : forall fv zs B offs z2 m,
  Forall2 frep fv zs -> Forall (fun z => Z.abs z <= B) zs ->
  mono offs = true -> (last offs 0 <= 2 * m)%nat ->
  Z.of_nat m * 2 * B * B <= 2 ^ 53 ->
  compute_area (map Some zs) offs = Some z2 ->
  ffinite (f_compute_area fv offs) = true /\
  fvalue (f_compute_area fv offs) = (IZR z2 / 2)%R.
Proof.
  intros fv zs B offs z2 m Hr Hb Hm Hl HB Hc.
  apply (f_area_exact_int fv zs B offs z2 Hr Hb); [|exact Hc].
  pose proof (area_nterms_le offs Hm) as Hn.
  assert (Z.of_nat (area_nterms offs) <= Z.of_nat m) by lia.
  assert (0 <= 2 * B * B) by nia. nia.
Qed.

(* a single ring of m vertices laid out at the start of the buffer *)
Theorem f_area_exact_ring : forall fv zs B m z2,
  Forall2 frep fv zs -> Forall (fun z => Z.abs z <= B) zs ->
  Z.of_nat m * 2 * B * B <= 2 ^ 53 ->
  compute_area (map Some zs) [0%nat; (2 * m)%nat] = Some z2 ->
  ffinite (f_compute_area fv [0%nat; (2 * m)%nat]) = true /\
  fvalue (f_compute_area fv [0%nat; (2 * m)%nat]) = (IZR z2 / 2)%R.
Proof.
  intros fv zs B m z2 Hr Hb HB Hc.
  apply (f_area_exact_int_vertices fv zs B _ z2 m Hr Hb); try assumption.
  - cbn [mono]. rewrite Bool.andb_true_r. apply Nat.leb_le. lia.
  - cbn [last]. lia.
Qed.

(* with C14_polygon_area: for closed rings the float area is half the shoelace sum *)
Theorem f_area_is_shoelace : forall fv zs B offs pss m,
  Forall2 frep fv zs -> Forall (fun z => Z.abs z <= B) zs ->
  mono offs = true -> all_even offs = true -> (last offs 0 <= length zs)%nat ->
  (last offs 0 <= 2 * m)%nat -> Z.of_nat m * 2 * B * B <= 2 ^ 53 ->
  segs (map Some zs) offs = map flatz pss -> Forall closed pss ->
  ffinite (f_compute_area fv offs) = true /\
  fvalue (f_compute_area fv offs) = (IZR (zsum (map shoelace2 pss)) / 2)%R.
Proof.
  intros fv zs B offs pss m Hr Hb Hm He Hl Hl2 HB Hs Hc.
  apply (f_area_exact_int_vertices fv zs B offs _ m Hr Hb Hm Hl2 HB).
  apply polygon_area_shoelace; try assumption. rewrite map_length. exact Hl.
Qed.

(* ---- the floats that hold integers: an explicit injection ---- *)
Definition Z2F (z : Z) : pfloat :=
  if z <? 0 then PrimFloat.opp (of_uint63 (Uint63.of_Z (- z)))
  else of_uint63 (Uint63.of_Z z).

Lemma frep_of_nonneg : forall z, 0 <= z <= 2 ^ 53 -> frep (of_uint63 (Uint63.of_Z z)) z.
Proof.
  intros z Hz. unfold frep, ffinite, fvalue in *. rewrite of_int63_equiv.
  assert (E : Uint63.to_Z (Uint63.of_Z z) = z).
  { rewrite Uint63.of_Z_spec. apply Z.mod_small. unfold Uint63.wB, Uint63.size.
    change (2 ^ Z.of_nat 63) with (2 ^ 63). lia. }
  rewrite E.
  pose proof (binary_normalize_correct prec emax Hprec Hmax mode_NE z 0 false) as H.
  cbv zeta in H.
  replace (F2R (Float radix2 z 0)) with (IZR z) in H by (unfold F2R; simpl; lra).
  rewrite round_generic in H; [| auto with typeclass_instances | apply int_format0; lia].
  rewrite Rlt_bool_true in H by (apply int_lt_emax; lia).
  destruct H as (H1 & H2 & _). split; assumption.
Qed.

Lemma frep_opp : forall a x, frep a x -> frep (PrimFloat.opp a) (- x).
Proof.
  intros a x [Fa Ra]. unfold frep, ffinite, fvalue in *. rewrite opp_equiv, is_finite_Bopp, B2R_Bopp, Ra, opp_IZR.
  auto.
Qed.

Lemma frep_Z2F : forall z, Z.abs z <= 2 ^ 53 -> frep (Z2F z) z.
Proof.
  intros z Hz. unfold Z2F. destruct (z <? 0) eqn:E.
  - replace z with (- - z) at 2 by lia. apply frep_opp, frep_of_nonneg. lia.
  - apply frep_of_nonneg. lia.
Qed.

Lemma frep_map_Z2F : forall zs, Forall (fun z => Z.abs z <= 2 ^ 53) zs ->
  Forall2 frep (map Z2F zs) zs.
Proof.
  induction zs as [|z t IH]; intros H; [constructor|].
  inversion H; subst. constructor; [apply frep_Z2F; assumption | apply IH; assumption].
Qed.

(* (i) for the image of an integer buffer *)
Theorem f_area_exact_Z2F : forall zs B offs z2 m,
  Forall (fun z => Z.abs z <= B) zs -> B <= 2 ^ 53 ->
  mono offs = true -> (last offs 0 <= 2 * m)%nat ->
  Z.of_nat m * 2 * B * B <= 2 ^ 53 ->
  compute_area (map Some zs) offs = Some z2 ->
  ffinite (f_compute_area (map Z2F zs) offs) = true /\
  fvalue (f_compute_area (map Z2F zs) offs) = (IZR z2 / 2)%R.
Proof.
  intros zs B offs z2 m Hb HB2 Hm Hl HB Hc.
  apply (f_area_exact_int_vertices (map Z2F zs) zs B offs z2 m); try assumption.
  apply frep_map_Z2F. eapply Forall_impl; [|exact Hb]. cbv beta. intros; lia.
Qed.

(* non-vacuity, by kernel evaluation of the float model: the 3-4-5 triangle *)
Example ex_f_area_triangle :
  f_compute_area (map Z2F [0; 0; 4; 0; 4; 3; 0; 0]) [0%nat; 8%nat] = 6%float /\
  compute_area (map Some [0; 0; 4; 0; 4; 3; 0; 0]) [0%nat; 8%nat] = Some 12.
Proof. split; vm_compute; reflexivity. Qed.

(* ================================================================== *)
(** * 4. compute_line_length on integer coordinates with perfect-square
        segment lengths is exact ([Measures.exact_sum])                  *)
(* ================================================================== *)

Lemma f_isfinite_ffinite : forall f, f_isfinite f = ffinite f.
Proof.
  intros f. unfold f_isfinite, ffinite. rewrite <- is_finite_equiv.
  unfold PrimFloat.is_finite. rewrite Bool.negb_orb. reflexivity.
Qed.

Lemma frep_finite : forall f z, frep f z -> f_isfinite f = true.
Proof. intros f z [H _]. rewrite f_isfinite_ffinite. exact H. Qed.

(* sqrt of a perfect square below 2^53 is exact *)
Lemma frep_sqrt : forall a r, 0 <= r -> r <= 2 ^ 53 -> frep a (r * r) -> frep (PrimFloat.sqrt a) r.
Proof.
  intros a r Hr0 Hr [Fa Ra]. unfold frep, ffinite, fvalue in *. rewrite sqrt_equiv.
  destruct (Bsqrt_correct prec emax Hprec Hmax mode_NE (Prim2B a)) as (H1 & H2 & _).
  rewrite Ra in H1.
  assert (S : R_sqrt.sqrt (IZR (r * r)) = IZR r).
  { rewrite mult_IZR. apply sqrt_square. apply IZR_le. exact Hr0. }
  rewrite S in H1.
  rewrite round_generic in H1; [| auto with typeclass_instances | apply int_format0; lia].
  split; [|exact H1]. rewrite H2.
  destruct (Prim2B a) as [s|s| |s m e Hb] eqn:E; try discriminate; [reflexivity|].
  destruct s; [|reflexivity]. exfalso.
  simpl in Ra. unfold F2R in Ra. simpl in Ra.
  assert (0 <= IZR (r * r))%R by (apply IZR_le; nia).
  assert (0 < bpow radix2 e)%R by apply bpow_gt_0.
  assert (IZR (Z.neg m) < 0)%R by (apply IZR_lt; lia).
  nra.
Qed.

Lemma is_square_sqrt : forall t, is_square t = true -> Z.sqrt t * Z.sqrt t = t.
Proof. intros t H. unfold is_square in H. apply Z.eqb_eq in H. exact H. Qed.

Lemma sq_bound : forall u M, Z.abs u <= M -> 0 <= u * u <= M * M.
Proof.
  intros u M H. rewrite <- Z.abs_square. split.
  - apply Z.mul_nonneg_nonneg; apply Z.abs_nonneg.
  - apply Z.mul_le_mono_nonneg; auto using Z.abs_nonneg.
Qed.

Lemma sqrt_bound : forall t M, 0 <= M -> t <= M * M -> Z.sqrt t <= M.
Proof.
  intros t M HM Ht. rewrite <- (Z.sqrt_square M HM). apply Z.sqrt_le_mono. exact Ht.
Qed.

Lemma three_B_small : forall B, 0 <= B -> 8 * B * B <= 2 ^ 53 -> 3 * B <= 2 ^ 53.
Proof. intros B H0 H. destruct (Z.le_gt_cases B 1); nia. Qed.

Section LengthExact.
  Variable fv : list pfloat.
  Variable zs : list Z.
  Variable B : Z.
  Hypothesis Hrep : Forall2 frep fv zs.
  Hypothesis Hbound : Forall (fun z => Z.abs z <= B) zs.
  Hypothesis HB : 8 * B * B <= 2 ^ 53.

  (* the abstraction of Section Abstraction determined by the real value *)
  Definition abv (f : pfloat) : num :=
    if f_isfinite f then Some (Ztrunc (fvalue f)) else None.

  Lemma abv_finite : forall f, abv f = None <-> f_isfinite f = false.
  Proof. intros f. unfold abv. destruct (f_isfinite f); split; congruence. Qed.

  Lemma abv_frep : forall f z, frep f z -> abv f = Some z.
  Proof.
    intros f z H. unfold abv. rewrite (frep_finite f z H). destruct H as [_ H].
    rewrite H, Ztrunc_IZR. reflexivity.
  Qed.

  Lemma map_abv : map abv fv = map Some zs.
  Proof.
    clear Hbound HB. induction Hrep as [|f z fv' zs' H0 HF IH]; [reflexivity|].
    cbn [map]. rewrite (abv_frep f z H0). f_equal. apply IH. exact HF.
  Qed.

  (* a float that the loop can read: NaN (out of range) or the image of a bounded integer *)
  Definition readable (f : pfloat) : Prop :=
    f_isfinite f = true -> exists z, frep f z /\ Z.abs z <= B.

  Lemma fget_readable : forall i, readable (fget fv i).
  Proof.
    unfold fget, readable. revert Hbound.
    induction Hrep as [|f z fv' zs' H0 HF IH]; intros Hb i Hf.
    - destruct i; cbn in Hf; vm_compute in Hf; discriminate.
    - inversion Hb as [|? ? Hz Hb']; subst. destruct i as [|i]; cbn [nth] in *.
      + exists z. auto.
      + apply IH; assumption.
  Qed.

  Definition seg_readable (s : fseg) : Prop :=
    let '(x0, y0, x1, y1) := s in readable x0 /\ readable y0 /\ readable x1 /\ readable y1.

  Lemma fseg_inner_readable : forall n i x0 y0, readable x0 -> readable y0 ->
    Forall seg_readable (fseg_inner fv n i x0 y0).
  Proof.
    induction n as [|n IH]; intros i x0 y0 Hx Hy; cbn [fseg_inner]; [constructor|].
    pose proof (fget_readable i) as R1. pose proof (fget_readable (i + 1)) as R2.
    destruct (f_finite4 x0 y0 (fget fv i) (fget fv (i + 1))); [constructor|]; auto.
    cbn. auto.
  Qed.

  Lemma fseg_terms_readable : forall offs, Forall seg_readable (fseg_terms fv offs).
  Proof.
    induction offs as [|start t IH]; [constructor|].
    destruct t as [|stop t']; [constructor|].
    rewrite fseg_terms_cons. apply Forall_app. split; [|exact IH].
    destruct (Nat.ltb (stop - start) 4); [constructor|].
    apply fseg_inner_readable; apply fget_readable.
  Qed.

  (* one term: sqrt((x1-x0)^2 + (y1-y0)^2) of a perfect square is the integer root *)
  Lemma seg_exact : forall s,
    seg_readable s -> fseg_finite s = true -> is_square (zsq abv s) = true ->
    frep (fseg_len s) (Z.sqrt (zsq abv s)) /\ 0 <= Z.sqrt (zsq abv s) <= 3 * B.
  Proof.
    intros [[[x0 y0] x1] y1] (R0 & R1 & R2 & R3) Hf Hs.
    unfold fseg_finite, f_finite4 in Hf.
    apply andb_prop in Hf. destruct Hf as [Hf F3]. apply andb_prop in Hf. destruct Hf as [Hf F2].
    apply andb_prop in Hf. destruct Hf as [F0 F1].
    destruct (R0 F0) as (a & Ra & Ba), (R1 F1) as (b & Rb & Bb),
             (R2 F2) as (c & Rc & Bc), (R3 F3) as (d & Rd & Bd).
    unfold zsq in *. rewrite (abv_frep _ _ Ra), (abv_frep _ _ Rb), (abv_frep _ _ Rc),
      (abv_frep _ _ Rd) in *.
    assert (B0 : 0 <= B) by lia.
    assert (Dx : Z.abs (c - a) <= 2 * B) by lia.
    assert (Dy : Z.abs (d - b) <= 2 * B) by lia.
    assert (Qx : 0 <= (c - a) * (c - a) <= 4 * B * B).
    { pose proof (sq_bound _ _ Dx) as Q. replace (2 * B * (2 * B)) with (4 * B * B) in Q by ring.
      exact Q. }
    assert (Qy : 0 <= (d - b) * (d - b) <= 4 * B * B).
    { pose proof (sq_bound _ _ Dy) as Q. replace (2 * B * (2 * B)) with (4 * B * B) in Q by ring.
      exact Q. }
    assert (T : frep (f_sqdist x0 y0 x1 y1) (sqdist a b c d)).
    { unfold f_sqdist, sqdist.
      assert (Fx : frep (PrimFloat.sub x1 x0) (c - a)) by (apply frep_sub; [assumption..|nia]).
      assert (Fy : frep (PrimFloat.sub y1 y0) (d - b)) by (apply frep_sub; [assumption..|nia]).
      apply frep_add; [apply frep_mul; [assumption..|lia] | apply frep_mul; [assumption..|lia] | lia]. }
    pose proof (is_square_sqrt _ Hs) as Q.
    pose proof (Z.sqrt_nonneg (sqdist a b c d)) as N.
    assert (B2 : 0 <= B * B) by (apply Z.mul_nonneg_nonneg; exact B0).
    assert (U : Z.sqrt (sqdist a b c d) <= 3 * B).
    { apply sqrt_bound; [lia|]. unfold sqdist. replace (3 * B * (3 * B)) with (9 * (B * B)) by ring.
      lia. }
    split; [|lia]. unfold fseg_len, f_seglen.
    pose proof (three_B_small B B0 HB) as TB.
    apply frep_sqrt; [lia| lia |]. rewrite Q. exact T.
  Qed.

  Lemma fsum_exact : forall l t facc z,
    Forall seg_readable l -> Forall (fun s => fseg_finite s = true) l ->
    forallb is_square (map (zsq abv) l) = true ->
    frep facc z -> 0 <= t -> Z.abs z <= t * (3 * B) ->
    (t + Z.of_nat (length l)) * (3 * B) <= 2 ^ 53 ->
    frep (fsum_from facc l) (z + fold_right Z.add 0 (map Z.sqrt (map (zsq abv) l))).
  Proof.
    induction l as [|s l IH]; intros t facc z HR HF HS Hz Ht Bz HT; cbn [fsum_from fold_left map fold_right].
    - replace (z + 0) with z by lia. exact Hz.
    - inversion HR as [|? ? R1 R2]; inversion HF as [|? ? F1 F2]; subst.
      cbn [map forallb] in HS. apply andb_prop in HS. destruct HS as [S1 S2].
      destruct (seg_exact s R1 F1 S1) as [E1 E2].
      replace (z + (Z.sqrt (zsq abv s) + fold_right Z.add 0 (map Z.sqrt (map (zsq abv) l))))
        with ((z + Z.sqrt (zsq abv s)) + fold_right Z.add 0 (map Z.sqrt (map (zsq abv) l))) by lia.
      cbn [length] in HT.
      apply (IH (t + 1)); try assumption; [|lia|lia|lia].
      apply frep_add; [exact Hz|exact E1|]. nia.
  Qed.

  (* When every summed sqrt of the exact model has a perfect-square argument, the float
     length is finite and is exactly the integer [exact_sum] yields. T bounds the number
     of segments; each root is at most 3B. *)
  Theorem length_exact : forall offs s,
    Z.of_nat (length (fst (compute_line_length (map Some zs) offs))) * (3 * B) <= 2 ^ 53 ->
    snd (compute_line_length (map Some zs) offs) = Some s ->
    frep (f_compute_line_length fv offs) s.
  Proof.
    intros offs s HT Hs.
    destruct (f_length_structure abv abv_finite fv offs) as (H1 & H2 & H3).
    rewrite map_abv in H3. rewrite <- H3 in *. rewrite map_length in HT.
    unfold compute_line_length in Hs. cbn [snd] in Hs.
    change (ll_terms (map Some zs) offs) with (fst (compute_line_length (map Some zs) offs)) in Hs.
    rewrite <- H3 in Hs. unfold exact_sum in Hs.
    destruct (forallb is_square (map (zsq abv) (fseg_terms fv offs))) eqn:E; [|discriminate].
    inversion Hs; subst s. rewrite H1.
    replace (fold_right Z.add 0 (map Z.sqrt (map (zsq abv) (fseg_terms fv offs))))
      with (0 + fold_right Z.add 0 (map Z.sqrt (map (zsq abv) (fseg_terms fv offs)))) by lia.
    apply (fsum_exact _ 0); try assumption; try lia.
    - apply fseg_terms_readable.
    - apply frep_zero.
  Qed.
End LengthExact.

Theorem f_length_exact_squares : forall fv zs B offs s,
  Forall2 frep fv zs -> Forall (fun z => Z.abs z <= B) zs -> 8 * B * B <= 2 ^ 53 ->
  Z.of_nat (length (fst (compute_line_length (map Some zs) offs))) * (3 * B) <= 2 ^ 53 ->
  snd (compute_line_length (map Some zs) offs) = Some s ->
  ffinite (f_compute_line_length fv offs) = true /\
  fvalue (f_compute_line_length fv offs) = IZR s.
Proof. intros fv zs B offs s H1 H2 H3 H4 H5. exact (length_exact fv zs B H1 H2 H3 offs s H4 H5). Qed.
