(* Histories of from_pandas calls (Model/DaskRegistry.v): every returned collection holds
   the frame it was made from iff the token separates the frames of the process. *)
From Coq Require Import List Bool.
From SP Require Import Model.DaskRegistry.
Import ListNotations.

Section Proofs.
  Variable F : Type.
  Variable T : Type.
  Variable tok : F -> T.
  Variable T_eq_dec : forall a b : T, {a = b} + {a <> b}.

  Notation lookup := (lookup F T T_eq_dec).
  Notation drop := (drop F T T_eq_dec).
  Notation run := (run F T tok T_eq_dec).
  Notation from_pandas := (from_pandas F T tok T_eq_dec).

  Lemma lookup_drop : forall r t u g,
    lookup (drop r t) u = Some g -> lookup r u = Some g.
  Proof.
    induction r as [|[v k] r IH]; intros t u g H; simpl in *.
    - discriminate.
    - destruct (T_eq_dec v t) as [Hvt|Hvt]; simpl in H.
      + destruct (T_eq_dec u v) as [Huv|Huv].
        * subst. (* u = v = t: dropped entries are never found again *)
          exfalso. clear IH. revert H.
          induction r as [|[w m] r IHr]; simpl; intro H; [discriminate|].
          destruct (T_eq_dec w t) as [Hw|Hw]; simpl in H; [now apply IHr|].
          destruct (T_eq_dec t w) as [Htw|Htw]; [congruence|now apply IHr].
        * now apply IH with t.
      + destruct (T_eq_dec u v) as [Huv|Huv]; [assumption|now apply IH with t].
  Qed.

  (* the frames of the process: P; the registry only holds frames of P under their own token *)
  Definition reg_ok (P : F -> Prop) (r : registry F T) : Prop :=
    forall t g, lookup r t = Some g -> tok g = t /\ P g.

  Lemma run_sound : forall (P : F -> Prop),
    (forall a b, P a -> P b -> tok a = tok b -> a = b) ->
    forall h r, reg_ok P r ->
    (forall f, In (FromPandas f) h -> P f) ->
    Forall (fun p => snd p = fst p) (run r h).
  Proof.
    intros P Hinj. induction h as [|o h IH]; intros r Hr Hh; simpl.
    - constructor.
    - destruct o as [f|t].
      + unfold DaskRegistry.from_pandas.
        destruct (lookup r (tok f)) as [g|] eqn:El.
        * constructor.
          -- simpl. destruct (Hr _ _ El) as [Htok Pg].
             apply Hinj; auto. apply Hh. now left.
          -- apply IH; auto. intros f' Hf'. apply Hh. now right.
        * constructor; [reflexivity|].
          apply IH.
          -- intros t g Hl. simpl in Hl.
             destruct (T_eq_dec t (tok f)) as [Ht|Ht].
             ++ inversion Hl; subst. split; auto. apply Hh. now left.
             ++ now apply Hr.
          -- intros f' Hf'. apply Hh. now right.
      + apply IH.
        * intros u g Hl. apply Hr. now apply lookup_drop with t.
        * intros f' Hf'. apply Hh. now right.
  Qed.

  Lemma reg_ok_nil : forall P, reg_ok P [].
  Proof. intros P t g H. discriminate. Qed.

  (* every history from an empty registry, when the token separates the frames passed in *)
  Lemma registry_sound : forall h,
    (forall a b, In (FromPandas a) h -> In (FromPandas b) h -> tok a = tok b -> a = b) ->
    Forall (fun p => snd p = fst p) (run [] h).
  Proof.
    intros h Hinj.
    apply run_sound with (P := fun f => In (FromPandas f) h); auto using reg_ok_nil.
  Qed.

  (* the premise is needed: two different frames with one token, both alive *)
  Lemma registry_collision : forall f g,
    tok f = tok g -> run [] [FromPandas f; FromPandas g] = [(f, f); (g, f)].
  Proof.
    intros f g H. simpl. unfold DaskRegistry.from_pandas. simpl.
    destruct (T_eq_dec (tok g) (tok f)) as [_|N]; [reflexivity|congruence].
  Qed.

  (* ... and harmless again once the first collection is gone *)
  Lemma registry_collision_after_drop : forall f g,
    run [] [FromPandas f; Drop (tok f); FromPandas g] = [(f, f); (g, g)].
  Proof.
    intros f g. simpl. unfold DaskRegistry.from_pandas. simpl.
    destruct (T_eq_dec (tok f) (tok f)) as [_|N]; [reflexivity|congruence].
  Qed.
End Proofs.
