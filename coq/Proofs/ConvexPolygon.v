(* Triangles, convex rings, convex shells with convex holes: what the winding
   number theorems of ConvexWinding.v say in the declarative vocabulary of
   Spec/ConvexSpec.v, and what they say about point_intersects_polygon. *)
From Coq Require Import ZArith List Bool Arith Reals Lra Lia.
From SP Require Import Model.Num Model.PointKernels Spec.PointShapeSpec Spec.Winding Spec.ConvexSpec
                       Proofs.WindingRefine Proofs.WindingLaws Proofs.ConvexArith
                       Proofs.ConvexWinding.
Import ListNotations.

(* ---- a line through an edge as a separating half-plane ---- *)

Open Scope R_scope.

Lemma orient_end1 : forall A B, orient A B A = 0.
Proof. intros [a0 b0] [a1 b1]. unfold orient; simpl. ring. Qed.

Lemma orient_end2 : forall A B, orient A B B = 0.
Proof. intros [a0 b0] [a1 b1]. unfold orient; simpl. ring. Qed.

Lemma separated_by_line : forall s E1 E2 ring P,
  Forall (fun V => 0 <= s * orient E1 E2 V) ring -> s * orient E1 E2 P < 0 -> separated ring P.
Proof.
  intros s [e0 f0] [e1 f1] ring P HF HP.
  exists (s * - (f1 - f0)), (s * (e1 - e0)), (s * ((f1 - f0) * e0 - (e1 - e0) * f0)).
  assert (Hf : forall V : rpt,
            s * - (f1 - f0) * fst V + s * (e1 - e0) * snd V + s * ((f1 - f0) * e0 - (e1 - e0) * f0)
            = s * orient (e0, f0) (e1, f1) V).
  { intros [a b]. unfold orient; simpl. ring. }
  split.
  - eapply Forall_impl; [|exact HF]. intros V HV. cbn beta. rewrite Hf. exact HV.
  - rewrite Hf. exact HP.
Qed.

Close Scope R_scope.

(* ---- (A) triangles ---- *)

Lemma triangle_convex : forall ccw A B C, turn ccw A B C -> convex_ring ccw [A; B; C].
Proof.
  intros ccw A B C H. split; [cbn; lia|]. cbn [ordered_triples ordered_pairs].
  repeat split; try apply Forall_nil. apply Forall_cons; [exact H | apply Forall_nil].
Qed.

Ltac forall3 :=
  apply Forall_cons; [|apply Forall_cons; [|apply Forall_cons; [|apply Forall_nil]]]; cbn beta.

(* strictly on the outer side of an edge line of a (non-degenerate) triangle:
   that line separates P from the three vertices *)
Lemma outside_triangle_separated : forall A B C P,
  strictly_outside_triangle A B C P -> separated [A; B; C] P.
Proof.
  intros A B C P Hout. unfold strictly_outside_triangle in Hout.
  pose proof (orient_cyc A B C) as C1. pose proof (orient_cyc B C A) as C2.
  destruct (Rtotal_order (orient A B C) 0) as [Hneg|[Hz|Hpos]].
  - (* clockwise: the inner side is the right-hand side *)
    destruct Hout as [H|[H|H]].
    + apply (separated_by_line (-1) A B); [|nra].
      forall3; rewrite ?orient_end1, ?orient_end2; lra.
    + apply (separated_by_line (-1) B C); [|nra].
      forall3; rewrite ?orient_end1, ?orient_end2; lra.
    + apply (separated_by_line (-1) C A); [|nra].
      forall3; rewrite ?orient_end1, ?orient_end2; lra.
  - exfalso. rewrite Hz in Hout. lra.
  - destruct Hout as [H|[H|H]].
    + apply (separated_by_line 1 A B); [|nra].
      forall3; rewrite ?orient_end1, ?orient_end2; lra.
    + apply (separated_by_line 1 B C); [|nra].
      forall3; rewrite ?orient_end1, ?orient_end2; lra.
    + apply (separated_by_line 1 C A); [|nra].
      forall3; rewrite ?orient_end1, ?orient_end2; lra.
Qed.

Theorem wn_triangle : forall A B C P,
  (strictly_inside_triangle A B C P ->
     wn_ring P [A; B; C; A] = if Rlt_dec 0 (orient A B C) then 1%Z else (-1)%Z) /\
  (strictly_outside_triangle A B C P -> wn_ring P [A; B; C; A] = 0%Z).
Proof.
  intros A B C P. pose proof (orient_sum A B C P) as Hsum. split.
  - intros [[H1 [H2 H3]]|[H1 [H2 H3]]]; cbn [turn] in *.
    + destruct (Rlt_dec 0 (orient A B C)) as [Hpos|Hn]; [|exfalso; lra].
      apply (wn_convex_inside true [A; B; C] P).
      * apply triangle_convex. exact Hpos.
      * unfold strictly_inside_convex. cbn [close_ring app consec].
        forall3; cbn [fst snd turn]; assumption.
    + destruct (Rlt_dec 0 (orient A B C)) as [Hpos|Hn]; [exfalso; lra|].
      apply (wn_convex_inside false [A; B; C] P).
      * apply triangle_convex. cbn [turn]. lra.
      * unfold strictly_inside_convex. cbn [close_ring app consec].
        forall3; cbn [fst snd turn]; assumption.
  - intros Hout. apply wn_tri_separated, outside_triangle_separated. exact Hout.
Qed.

(* ---- fan-triangulated rings (star-shaped from the first vertex, not
   necessarily convex): P strictly inside one fan triangle a B C and separated
   by a line from each of the others (for instance strictly outside it:
   outside_triangle_separated; degenerate fan triangles are allowed) ---- *)
Theorem wn_fan_triangulated : forall P a b l t1 B C t2,
  consec (b :: l) = t1 ++ (B, C) :: t2 ->
  Forall (fun e => separated [a; fst e; snd e] P) (t1 ++ t2) ->
  (strictly_inside_triangle a B C P ->
     wn_ring P (a :: b :: l ++ [a]) = if Rlt_dec 0 (orient a B C) then 1%Z else (-1)%Z) /\
  (separated [a; B; C] P -> wn_ring P (a :: b :: l ++ [a]) = 0%Z).
Proof.
  intros P a b l t1 B C t2 E Hsep. rewrite wn_fan, E, map_app, zsum_app.
  cbn [map zsum fold_right fst snd]. apply Forall_app in Hsep as [Hs1 Hs2].
  assert (Z : forall t, Forall (fun e => separated [a; fst e; snd e] P) t ->
                        zsum (map (fun e => wn_ring P [a; fst e; snd e; a]) t) = 0%Z).
  { intros t Ht. apply zsum_zero. intros e He. rewrite Forall_forall in Ht.
    apply wn_tri_separated. exact (Ht e He). }
  rewrite (Z t1 Hs1). fold (zsum (map (fun e => wn_ring P [a; fst e; snd e; a]) t2)).
  rewrite (Z t2 Hs2). split.
  - intros Hin. rewrite (proj1 (wn_triangle a B C P) Hin). lia.
  - intros Hout. rewrite (wn_tri_separated P a B C Hout). lia.
Qed.

(* ---- every vertex of a convex ring is on the inner side of every edge line ---- *)

Lemma turn_cyc : forall ccw A B C, turn ccw A B C -> turn ccw B C A.
Proof. intros ccw A B C. unfold turn. rewrite (orient_cyc A B C). auto. Qed.

Lemma consec_split : forall (l : list rpt) A B, In (A, B) (consec l) ->
  exists l1 l2, l = l1 ++ A :: B :: l2.
Proof.
  intros l. destruct l as [|c l]; [intros A B []|]. revert c.
  induction l as [|c' l IH]; intros c A B H; [destruct H|].
  rewrite consec_cons2 in H. destruct H as [H|H].
  - inversion H; subst. exists [], l. reflexivity.
  - destruct (IH c' A B H) as (l1 & l2 & E). exists (c :: l1), l2. rewrite E. reflexivity.
Qed.

Lemma op_app_mid : forall Q l1 (A B : rpt) l2, ordered_pairs Q (l1 ++ A :: B :: l2) -> Q A B.
Proof.
  intros Q. induction l1 as [|c l1 IH]; intros A B l2 H.
  - destruct H as [H _]. exact (Forall_inv H).
  - destruct H as [_ H]. exact (IH _ _ _ H).
Qed.

Lemma op_last : forall Q l (z : rpt), ordered_pairs Q (l ++ [z]) -> forall V, In V l -> Q V z.
Proof.
  intros Q. induction l as [|c l IH]; intros z H V HV; [destruct HV|].
  destruct H as [Hc H]. destruct HV as [->|HV].
  - apply Forall_app in Hc. exact (Forall_inv (proj2 Hc)).
  - exact (IH z H V HV).
Qed.

Lemma ot_app_mid : forall T l1 (A B : rpt) l2, ordered_triples T (l1 ++ A :: B :: l2) ->
  (forall V, In V l1 -> T V A B) /\ (forall V, In V l2 -> T A B V).
Proof.
  intros T. induction l1 as [|c l1 IH]; intros A B l2 H.
  - split; [intros V []|]. destruct H as [[H _] _]. rewrite Forall_forall in H. exact H.
  - destruct H as [Hc H]. destruct (IH A B l2 H) as [I1 I2]. split; [|exact I2].
    intros V [->|HV]; [|exact (I1 V HV)]. exact (op_app_mid _ _ _ _ _ Hc).
Qed.

Lemma closed_close_ring : forall vs, closed (close_ring vs).
Proof.
  intros [|a l] _; [reflexivity|]. cbn [close_ring hd].
  change ((a :: l) ++ [a]) with ((a :: l) ++ [a]). now rewrite last_last.
Qed.

Lemma in_close_ring : forall vs V, In V (close_ring vs) -> In V vs.
Proof.
  intros [|a l] V H; [exact H|]. unfold close_ring in H. apply in_app_or in H.
  destruct H as [H|[<-|[]]]; [exact H | now left].
Qed.

(* every vertex other than the edge's own ends is strictly on the inner side *)
Theorem convex_vertex_inner_side : forall ccw vs A B V,
  convex_ring ccw vs -> In (A, B) (consec (close_ring vs)) -> In V vs ->
  V = A \/ V = B \/ turn ccw A B V.
Proof.
  intros ccw vs A B V [Hlen HT] He HV.
  destruct vs as [|v0 l]; [destruct HV|].
  assert (Hne : v0 :: l <> []) by discriminate.
  destruct (exists_last Hne) as (l' & z & E).
  unfold close_ring in He. rewrite E in He, HT, HV.
  destruct l' as [|w l'].
  { cbn in E. inversion E; subst. cbn in Hlen. lia. }
  assert (Ew : w = v0) by (cbn in E; now inversion E). subst w.
  rewrite (consec_snoc (v0 :: l') z v0) in He. apply in_app_or in He.
  destruct He as [He|[He|[]]].
  - (* an edge of the open vertex list *)
    destruct (consec_split _ _ _ He) as (l1 & l2 & E2). rewrite E2 in HT, HV.
    destruct (ot_app_mid _ _ _ _ _ HT) as [I1 I2].
    apply in_app_or in HV. destruct HV as [HV|[HV|[HV|HV]]].
    + right; right. exact (turn_cyc _ _ _ _ (I1 V HV)).
    + left. now symmetry.
    + right; left. now symmetry.
    + right; right. exact (I2 V HV).
  - (* the closing edge z -> v0 *)
    inversion He; subst A B. clear He.
    change ((v0 :: l') ++ [z]) with (v0 :: l' ++ [z]) in HT, HV.
    destruct HV as [HV|HV]; [right; left; now symmetry|].
    apply in_app_or in HV. destruct HV as [HV|[HV|[]]]; [|left; now symmetry].
    right; right. destruct HT as [HT _]. apply turn_cyc, turn_cyc.
    exact (op_last _ _ _ HT V HV).
Qed.

(* strictly on the outer side of one edge line of a convex ring: that line
   separates P from the whole ring *)
Lemma outside_convex_separated : forall ccw vs P,
  convex_ring ccw vs -> strictly_outside_convex ccw vs P -> separated (close_ring vs) P.
Proof.
  intros ccw vs P Hc Hout. unfold strictly_outside_convex in Hout. apply Exists_exists in Hout.
  destruct Hout as ([A B] & He & Ht). cbn [fst snd] in Ht.
  assert (Hv : forall V, In V (close_ring vs) -> V = A \/ V = B \/ turn ccw A B V).
  { intros V HV. apply (convex_vertex_inner_side ccw vs A B V Hc He). now apply in_close_ring. }
  destruct ccw; cbn [negb turn] in *.
  - apply (separated_by_line 1 A B); [|lra]. apply Forall_forall. intros V HV.
    destruct (Hv V HV) as [->|[->|H]]; rewrite ?orient_end1, ?orient_end2; lra.
  - apply (separated_by_line (-1) A B); [|lra]. apply Forall_forall. intros V HV.
    destruct (Hv V HV) as [->|[->|H]]; rewrite ?orient_end1, ?orient_end2; lra.
Qed.

(* ---- (B) convex rings, both orientations ---- *)

Theorem wn_convex : forall ccw vs P, convex_ring ccw vs ->
  (strictly_inside_convex ccw vs P ->
     wn_ring P (close_ring vs) = if ccw then 1%Z else (-1)%Z) /\
  (strictly_outside_convex ccw vs P -> wn_ring P (close_ring vs) = 0%Z).
Proof.
  intros ccw vs P Hc. split.
  - now apply wn_convex_inside.
  - intros Hout. apply wn_separated; [apply closed_close_ring|].
    now apply (outside_convex_separated ccw).
Qed.

(* ---- (C) a convex shell with convex holes wound the other way ---- *)

Lemma wn_holes_outside : forall ccwh holes P,
  Forall (convex_ring ccwh) holes -> outside_holes ccwh holes P ->
  wn P (map close_ring holes) = 0%Z.
Proof.
  intros ccwh holes P Hc Hout. unfold wn. rewrite map_map. apply zsum_zero. intros h Hin.
  unfold outside_holes in Hout. rewrite Forall_forall in Hc, Hout.
  apply (proj2 (wn_convex ccwh h P (Hc h Hin))). exact (Hout h Hin).
Qed.

(* a ring inside the closed convex shell is separated from every point that
   is strictly outside the shell *)
Lemma inside_ring_separated : forall ccw shell h P,
  ring_inside_convex ccw shell h -> strictly_outside_convex ccw shell P ->
  separated (close_ring h) P.
Proof.
  intros ccw shell h P Hin Hout. unfold strictly_outside_convex in Hout.
  apply Exists_exists in Hout. destruct Hout as ([A B] & He & Ht). cbn [fst snd] in Ht.
  unfold ring_inside_convex in Hin. rewrite Forall_forall in Hin. specialize (Hin _ He).
  cbn [fst snd] in Hin. rewrite Forall_forall in Hin.
  destruct ccw; cbn [negb turn] in *.
  - apply (separated_by_line 1 A B); [|lra]. apply Forall_forall. intros V HV.
    apply in_close_ring in HV. specialize (Hin V HV). cbn beta in Hin. lra.
  - apply (separated_by_line (-1) A B); [|lra]. apply Forall_forall. intros V HV.
    apply in_close_ring in HV. specialize (Hin V HV). cbn beta in Hin. lra.
Qed.

Theorem wn_convex_polygon : forall ccw shell holes P,
  convex_ring ccw shell -> Forall (convex_ring (negb ccw)) holes ->
  (* strictly inside the shell, strictly outside every hole *)
  (strictly_inside_convex ccw shell P -> outside_holes (negb ccw) holes P ->
     wn P (convex_polygon shell holes) = if ccw then 1%Z else (-1)%Z) /\
  (* strictly outside the shell (the holes lie in the closed shell) *)
  (strictly_outside_convex ccw shell P -> Forall (ring_inside_convex ccw shell) holes ->
     wn P (convex_polygon shell holes) = 0%Z) /\
  (* strictly inside one hole, strictly outside the others *)
  (forall h1 h h2, holes = h1 ++ h :: h2 ->
     strictly_inside_convex ccw shell P -> strictly_inside_convex (negb ccw) h P ->
     outside_holes (negb ccw) h1 P -> outside_holes (negb ccw) h2 P ->
     wn P (convex_polygon shell holes) = 0%Z).
Proof.
  intros ccw shell holes P Hs Hh. unfold convex_polygon. split; [|split].
  - intros Hin Hout. rewrite wn_cons, (wn_holes_outside (negb ccw)) by assumption.
    rewrite (proj1 (wn_convex ccw shell P Hs) Hin). lia.
  - intros Hout Hins. rewrite wn_cons.
    rewrite (proj2 (wn_convex ccw shell P Hs) Hout).
    rewrite wn_separated_rings; [reflexivity| |].
    + apply Forall_forall. intros r Hr. apply in_map_iff in Hr. destruct Hr as (h & <- & _).
      apply closed_close_ring.
    + apply Forall_forall. intros r Hr. apply in_map_iff in Hr. destruct Hr as (h & <- & Hin).
      rewrite Forall_forall in Hins. exact (inside_ring_separated ccw shell h P (Hins h Hin) Hout).
  - intros h1 h h2 -> Hin Hinh Ho1 Ho2.
    apply Forall_app in Hh as [Hh1 Hh2]. inversion Hh2 as [|? ? Hhh Hh2']; subst.
    rewrite wn_cons, map_app, wn_app. cbn [map]. rewrite wn_cons.
    rewrite !(wn_holes_outside (negb ccw)) by assumption.
    rewrite (proj1 (wn_convex ccw shell P Hs) Hin).
    rewrite (proj1 (wn_convex (negb ccw) h P Hhh) Hinh).
    destruct ccw; reflexivity.
Qed.

(* ---- what this says about the code ---- *)

Theorem polygon_convex_with_convex_holes : forall x y values offs ccw shell holes,
  map ring_of (rings_of values offs) = convex_polygon shell holes ->
  convex_ring ccw shell -> Forall (convex_ring (negb ccw)) holes ->
  let P := (IZR x, IZR y) in
  (strictly_inside_convex ccw shell P -> outside_holes (negb ccw) holes P ->
     point_intersects_polygon x y values offs = true) /\
  (strictly_outside_convex ccw shell P -> Forall (ring_inside_convex ccw shell) holes ->
     point_intersects_polygon x y values offs = false) /\
  (forall h1 h h2, holes = h1 ++ h :: h2 ->
     strictly_inside_convex ccw shell P -> strictly_inside_convex (negb ccw) h P ->
     outside_holes (negb ccw) h1 P -> outside_holes (negb ccw) h2 P ->
     point_intersects_polygon x y values offs = false).
Proof.
  intros x y values offs ccw shell holes Hrings Hs Hh P.
  destruct (wn_convex_polygon ccw shell holes P Hs Hh) as [H1 [H2 H3]].
  rewrite pip_refines_wn, Hrings. fold P. split; [|split].
  - intros Hin Hout. rewrite (H1 Hin Hout). destruct ccw; reflexivity.
  - intros Hout Hins. now rewrite (H2 Hout Hins).
  - intros h1 h h2 E Hin Hinh Ho1 Ho2. now rewrite (H3 h1 h h2 E Hin Hinh Ho1 Ho2).
Qed.

(* the triangle as a polygon of the code: any closed 3-ring *)
Theorem polygon_triangle : forall x y values offs (A B C : pt),
  rings_of values offs = [[fst A; snd A; fst B; snd B; fst C; snd C; fst A; snd A]%Z] ->
  let P := (IZR x, IZR y) in
  (strictly_inside_triangle (inj A) (inj B) (inj C) P ->
     point_intersects_polygon x y values offs = true) /\
  (strictly_outside_triangle (inj A) (inj B) (inj C) P ->
     point_intersects_polygon x y values offs = false).
Proof.
  intros x y values offs [a0 a1] [b0 b1] [c0 c1] Hr. cbv zeta. rewrite pip_refines_wn, Hr.
  cbn [map fst snd]. unfold wn. cbn [map zsum fold_right].
  change (ring_of [a0; a1; b0; b1; c0; c1; a0; a1]%Z)
    with [inj (a0, a1); inj (b0, b1); inj (c0, c1); inj (a0, a1)].
  destruct (wn_triangle (inj (a0, a1)) (inj (b0, b1)) (inj (c0, c1)) (IZR x, IZR y)) as [H1 H2].
  split.
  - intros Hin. rewrite (H1 Hin). destruct (Rlt_dec _ _); reflexivity.
  - intros Hout. now rewrite (H2 Hout).
Qed.

(* ---- why "every consecutive triple turns the same way" is not enough ----
   The pentagram through five points in convex position: every three
   consecutive vertices turn left, the origin is strictly left of all five edge
   lines, and the winding number there is 2 (the code still answers True). *)
Example pentagram_wn2 :
  let v0 := inj (3, 0)%Z in let v2 := inj (-2, 2)%Z in let v4 := inj (1, -3)%Z in
  let v1 := inj (1, 3)%Z in let v3 := inj (-2, -2)%Z in
  let ring := [v0; v2; v4; v1; v3; v0] in
  let O := (IZR 0, IZR 0) in
  Forall (fun e => turn true (fst e) (snd e) O) (consec ring) /\
  (turn true v0 v2 v4 /\ turn true v2 v4 v1 /\ turn true v4 v1 v3 /\
   turn true v1 v3 v0 /\ turn true v3 v0 v2) /\
  wn_ring O ring = 2%Z /\
  point_intersects_polygon 0 0 [3; 0; -2; 2; 1; -3; 1; 3; -2; -2; 3; 0]%Z [0; 12]%nat = true.
Proof.
  cbv zeta. split; [|split; [|split]].
  - cbn [consec]. repeat (apply Forall_cons; [unfold turn, orient, inj; cbn [fst snd]; lra|]).
    apply Forall_nil.
  - unfold turn, orient, inj; cbn [fst snd]. repeat split; lra.
  - change [inj (3, 0)%Z; inj (-2, 2)%Z; inj (1, -3)%Z; inj (1, 3)%Z; inj (-2, -2)%Z; inj (3, 0)%Z]
      with (ring_of [3; 0; -2; 2; 1; -3; 1; 3; -2; -2; 3; 0]%Z).
    rewrite <- pip_ring_refines. vm_compute. reflexivity.
  - vm_compute. reflexivity.
Qed.
