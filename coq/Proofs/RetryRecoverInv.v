(* C19, recovery clause -- part 1: the invariant.

   [Inv cfg asg f0 T]: what every tree T that any execution prefix of
   pack_partitions_to_parquet -- fault-free or faulty, completed or aborted -- started from
   the prior tree f0 can leave has in common:
     N  no path occurs twice;
     C  the tree is a tree at the dataset path (nothing below it unless it exists);
     O  outside the paths the call owns (the dataset path and the per-partition temp
        directories tmp_path cfg N, N < npartitions) the tree is the prior tree, except that
        directories on the way to the dataset path / the temp parent may have been created;
     T  (external temp directories) a per-partition temp directory is absent or a directory
        holding nothing but sub-part FILES part<i>.parquet of cells (i, N) of the assignment
        (complete or torn).
   Nothing is said about what lies under the dataset path.

   This file: the definition, and its preservation by every filesystem effect the faulty
   primitives of Model/Retry.v can have when called with the paths the procedure passes. *)
From Coq Require Import ZArith List Bool Arith Lia Permutation.
From SP Require Import Harness Model.FS Model.PackFS Model.Retry Spec.PackSpec
  Proofs.FSProofs Proofs.PackProofs Proofs.RetryProofs.
Import ListNotations.

Section Inv.
Variable cfg : config.
Variable asg : assignment.
Variable f0 : fs.

Notation P := (c_path cfg).
Notation K := (c_k cfg).
Notation outp := (out_path cfg).
Notation tmpp := (tmp_path cfg).

(* the paths the call owns *)
Definition owned (q : path) : bool :=
  is_prefix P q || existsb (fun N => is_prefix (tmpp N) q) (seq 0 K).

(* the directories makedirs creates on the way *)
Definition way (q : path) : bool := on_the_way q P || on_the_way q (tbase cfg).

Definition tmp_ok (N : nat) (r : path) (o : option node) : Prop :=
  match r with
  | [] => o = None \/ o = Some Dir
  | [a] => o = None \/ exists i c, a = NSub i /\ In N (nth i asg []) /\ o = Some (File c)
  | _ => o = None
  end.

Definition Inv (T : fs) : Prop :=
  nodup_keys T = true /\
  (node_at T P = None -> forall q, is_prefix P q = true -> node_at T q = None) /\
  (forall q, owned q = false ->
     node_at T q = node_at f0 q \/ (way q = true /\ node_at T q = Some Dir)) /\
  (forall t N r, c_tmp cfg = TExternal t -> N < K ->
     tmp_ok N r (node_at T (t ++ [NTmp N] ++ r))).

Lemma tmp_ok_none : forall N r, tmp_ok N r None.
Proof. intros N [|a [|b r]]; simpl; auto. Qed.

(* ------------------------------------------------------------------ a frame rule *)
Lemma Inv_update : forall f f', Inv f -> nodup_keys f' = true ->
  (node_at f' P = None -> forall q, is_prefix P q = true -> node_at f' q = None) ->
  (forall q, owned q = false ->
     node_at f' q = node_at f q \/ (way q = true /\ node_at f' q = Some Dir)) ->
  (forall t N r, c_tmp cfg = TExternal t -> N < K ->
     node_at f' (t ++ [NTmp N] ++ r) = node_at f (t ++ [NTmp N] ++ r) \/
     tmp_ok N r (node_at f' (t ++ [NTmp N] ++ r))) ->
  Inv f'.
Proof.
  intros f f' (HN & HC & HO & HT) HN' HC' HO' HT'. split; [exact HN'|]. split; [exact HC'|]. split.
  - intros q Hq. destruct (HO' q Hq) as [E|E]; [|right; exact E]. rewrite E. apply HO. exact Hq.
  - intros t N r Et HN1. destruct (HT' t N r Et HN1) as [E|E]; [|exact E]. rewrite E. apply HT; assumption.
Qed.

Hypothesis Hprior : prior_ok f0 cfg.
Hypothesis Hsep : tmp_separate cfg.

Lemma seqin : forall N n, In N (seq 0 n) -> N < n.
Proof. intros N n H. apply in_seq in H. lia. Qed.
Lemma inseq : forall N n, N < n -> In N (seq 0 n).
Proof. intros N n H. apply in_seq. lia. Qed.

Lemma Pnn : P <> [].
Proof. exact (HP cfg f0 Hprior). Qed.

(* ------------------------------------------------------------------ the prior tree *)
Lemma Inv_prior : Inv f0.
Proof.
  destruct Hprior as (Hn & Hp & _ & Hclosed & Hext & _).
  split; [exact Hn|]. split; [exact Hclosed|]. split; [intros; left; reflexivity|].
  intros t N r Et HN. rewrite Et in Hext. destruct Hext as [_ Hext].
  rewrite (Hext N); [apply tmp_ok_none|]. rewrite app_assoc. apply is_prefix_app.
Qed.

(* ------------------------------------------------------------------ paths *)
Lemma owned_down : forall p q, owned p = true -> is_prefix p q = true -> owned q = true.
Proof.
  intros p q Ho Hpq. unfold owned in *. apply orb_prop in Ho as [Ho|Ho].
  - rewrite (is_prefix_trans _ _ _ Ho Hpq). reflexivity.
  - apply existsb_exists in Ho as [N [HN Ho]]. apply orb_true_intro. right.
    apply existsb_exists. exists N. split; [exact HN|]. exact (is_prefix_trans _ _ _ Ho Hpq).
Qed.

Lemma owned_under_P : forall q, is_prefix P q = true -> owned q = true.
Proof. intros q H. unfold owned. rewrite H. reflexivity. Qed.

Lemma owned_tmpp : forall N, N < K -> owned (tmpp N) = true.
Proof.
  intros N HN. unfold owned. apply orb_true_intro. right. apply existsb_exists.
  exists N. split; [apply inseq; exact HN|apply is_prefix_refl].
Qed.

Lemma under_outp : forall N, is_prefix P (outp N) = true.
Proof. intro N. unfold out_path. apply is_prefix_app. Qed.

(* external mode: the temp region is not under the dataset path *)
Lemma ext_region_not_under_P : forall t N r, c_tmp cfg = TExternal t ->
  is_prefix P (t ++ [NTmp N] ++ r) = false.
Proof.
  intros t N r Et. destruct (is_prefix P (t ++ [NTmp N] ++ r)) eqn:E; [|reflexivity]. exfalso.
  apply is_prefix_strip in E as [x E].
  pose proof (ext_not_under_P cfg Hsep t N _ _ Et E) as G.
  rewrite app_assoc, is_prefix_app in G. discriminate.
Qed.

(* external mode: a path of the temp region is not on the way to anything under the dataset
   path, nor to the dataset path *)
Lemma ext_region_not_above : forall t N r p, c_tmp cfg = TExternal t -> is_prefix P p = true ->
  is_prefix (t ++ [NTmp N] ++ r) p = false.
Proof.
  intros t N r p Et Hp. destruct (is_prefix (t ++ [NTmp N] ++ r) p) eqn:E; [|reflexivity]. exfalso.
  apply is_prefix_strip in Hp as [x Hx].
  pose proof (ext_not_under_P cfg Hsep t N _ _ Et Hx) as G.
  rewrite app_assoc in E.
  rewrite (is_prefix_trans _ _ _ (is_prefix_app (t ++ [NTmp N]) r) E) in G. discriminate.
Qed.

Lemma is_prefix_antisym : forall p q, is_prefix p q = true -> is_prefix q p = true -> p = q.
Proof.
  intros p q H1 H2. apply is_prefix_iff in H1 as [r ->]. apply prefix_len in H2.
  rewrite app_length in H2. destruct r; [symmetry; apply app_nil_r|simpl in H2; lia].
Qed.

Lemma on_the_way_is_prefix : forall q p, on_the_way q p = true -> is_prefix q p = true.
Proof. intros q p H. apply on_the_way_prefix in H. apply H. Qed.

(* on the way to an output path: on the way to the dataset path, or that output path *)
Lemma way_outp : forall q N, on_the_way q (outp N) = true -> owned q = false -> way q = true.
Proof.
  intros q N H Ho. unfold out_path in H. rewrite on_the_way_snoc in H. apply orb_prop in H as [H|H].
  - unfold way. rewrite H. reflexivity.
  - apply path_eqb_eq in H. subst q. rewrite owned_under_P in Ho by apply is_prefix_app. discriminate.
Qed.

Lemma way_tmpp : forall q N, N < K -> on_the_way q (tmpp N) = true -> owned q = false -> way q = true.
Proof.
  intros q N HN H Ho. rewrite (tmpp_eq cfg) in H. rewrite on_the_way_snoc in H. apply orb_prop in H as [H|H].
  - unfold way. rewrite H. apply orb_true_r.
  - apply path_eqb_eq in H. subst q. rewrite <- (tmpp_eq cfg), owned_tmpp in Ho by exact HN. discriminate.
Qed.

Lemma way_P : forall q, on_the_way q P = true -> way q = true.
Proof. intros q H. unfold way. rewrite H. reflexivity. Qed.

(* ------------------------------------------------------------------ rm (complete or interrupted) *)
Lemma Inv_rm_tree : forall f p, Inv f -> p <> [] -> owned p = true -> Inv (rm_tree f p).
Proof.
  intros f p HI Hp Ho. pose proof HI as (HN & HC & _ & _).
  apply (Inv_update f _ HI).
  - apply nodup_rm_tree. exact HN.
  - rewrite node_at_rm_tree by exact Hp. intros H q Hq. rewrite node_at_rm_tree by exact Hp.
    destruct (is_prefix p P) eqn:E.
    + rewrite (is_prefix_trans _ _ _ E Hq). reflexivity.
    + destruct (is_prefix p q); [reflexivity|]. apply HC; assumption.
  - intros q Hq. left. rewrite node_at_rm_tree by exact Hp.
    destruct (is_prefix p q) eqn:E; [|reflexivity].
    rewrite (owned_down p q Ho E) in Hq. discriminate.
  - intros t N r Et HN1. rewrite node_at_rm_tree by exact Hp.
    destruct (is_prefix p (t ++ [NTmp N] ++ r)); [right; apply tmp_ok_none|left; reflexivity].
Qed.

Lemma Inv_rm : forall f p g, Inv f -> owned p = true -> rm f p = Some g -> Inv g.
Proof. intros f p g HI Ho H. apply rm_some in H as [Hp ->]. apply Inv_rm_tree; assumption. Qed.

Lemma Inv_rm_partial : forall f p n, Inv f -> owned p = true -> Inv (rm_partial f p n).
Proof.
  intros f p n HI Ho. destruct (rm_partial_spec f p n) as [->|[a ->]]; [exact HI|].
  apply Inv_rm_tree; [exact HI|apply snoc_not_nil|]. apply (owned_down p); [exact Ho|apply is_prefix_app].
Qed.

(* ------------------------------------------------------------------ upsert *)
Lemma Inv_set : forall f q n, Inv f -> q <> [] ->
  (is_prefix P q = true -> q = P \/ node_at f P <> None) ->
  (owned q = true \/ (way q = true /\ n = Dir)) ->
  (forall t N r, c_tmp cfg = TExternal t -> N < K -> q = t ++ [NTmp N] ++ r -> tmp_ok N r (Some n)) ->
  Inv (upsert f q n).
Proof.
  intros f q n HI Hq HcC HcO HcT. pose proof HI as (HN & HC & _ & _).
  apply (Inv_update f _ HI).
  - apply nodup_upsert. exact HN.
  - rewrite node_at_upsert by exact Hq. destruct (path_eqb_spec q P) as [->|NE]; [intro X; discriminate X|].
    intros HP0 x Hx. rewrite node_at_upsert by exact Hq.
    destruct (path_eqb_spec q x) as [->|NE2].
    + exfalso. destruct (HcC Hx) as [E|E]; [contradiction|]. apply E. exact HP0.
    + apply HC; assumption.
  - intros x Hx. rewrite node_at_upsert by exact Hq.
    destruct (path_eqb_spec q x) as [->|NE]; [|left; reflexivity].
    destruct HcO as [E|[Hw ->]]; [congruence|]. right. auto.
  - intros t N r Et HN1. rewrite node_at_upsert by exact Hq.
    destruct (path_eqb_spec q (t ++ [NTmp N] ++ r)) as [E|NE]; [|left; reflexivity].
    right. apply (HcT t N r Et HN1 E).
Qed.

(* ------------------------------------------------------------------ makedirs (complete) *)
Lemma Inv_mk_all : forall f p f', Inv f -> mk_all f (prefixes p) = Some f' ->
  (forall q, on_the_way q p = true -> owned q = false -> way q = true) ->
  (forall q, on_the_way q p = true -> is_prefix P q = true -> on_the_way P p = true) ->
  (forall t N r, c_tmp cfg = TExternal t -> on_the_way (t ++ [NTmp N] ++ r) p = true -> r = []) ->
  Inv f'.
Proof.
  intros f p f' HI E Ha Hb Hc. pose proof HI as (HN & HC & _ & _).
  assert (Hspec : forall q, node_at f' q = if on_the_way q p then Some Dir else node_at f q).
  { intro q. rewrite (mk_all_spec _ _ _ (prefixes_nonnil p) E). rewrite on_the_way_prefixes. reflexivity. }
  apply (Inv_update f _ HI).
  - eapply nodup_mk_all; eauto.
  - rewrite Hspec. destruct (on_the_way P p) eqn:EP; [intro X; discriminate X|]. intros HP0 q Hq. rewrite Hspec.
    destruct (on_the_way q p) eqn:Eq.
    + pose proof (Hb q Eq Hq) as X. congruence.
    + apply HC; assumption.
  - intros q Hq. rewrite Hspec. destruct (on_the_way q p) eqn:Eq; [|left; reflexivity].
    right. split; [apply Ha; assumption|reflexivity].
  - intros t N r Et HN1. rewrite Hspec.
    destruct (on_the_way (t ++ [NTmp N] ++ r) p) eqn:Eq; [|left; reflexivity].
    right. rewrite (Hc t N r Et Eq). simpl. auto.
Qed.

Lemma mk_cond_P_b : forall q, on_the_way q P = true -> is_prefix P q = true -> on_the_way P P = true.
Proof.
  intros q _ _. unfold on_the_way. pose proof Pnn as H. destruct P; [contradiction|apply is_prefix_refl].
Qed.

Lemma mk_cond_ext_c_under : forall p t N r, is_prefix P p = true -> c_tmp cfg = TExternal t ->
  on_the_way (t ++ [NTmp N] ++ r) p = true -> r = [].
Proof.
  intros p t N r Hp Et H. apply on_the_way_is_prefix in H.
  rewrite (ext_region_not_above t N r p Et Hp) in H. discriminate.
Qed.

(* makedirs(path) -- inside move's copytree fallback *)
Lemma Inv_makedirs_P : forall f f', Inv f -> makedirs f P = Some f' -> Inv f'.
Proof.
  intros f f' HI E. apply (Inv_mk_all f P f' HI E).
  - intros q H _. apply way_P. exact H.
  - apply mk_cond_P_b.
  - intros t N r. apply mk_cond_ext_c_under. apply is_prefix_refl.
Qed.

Lemma on_the_way_P_outp : forall N, on_the_way P (outp N) = true.
Proof.
  intro N. unfold on_the_way. pose proof Pnn as H. destruct P eqn:E; [contradiction|]. rewrite <- E.
  apply under_outp.
Qed.

Lemma Inv_makedirs_outp : forall f N f', Inv f -> makedirs f (outp N) = Some f' -> Inv f'.
Proof.
  intros f N f' HI E. apply (Inv_mk_all f (outp N) f' HI E).
  - intros q H Ho. apply (way_outp q N); assumption.
  - intros q _ _. apply on_the_way_P_outp.
  - intros t M r. apply mk_cond_ext_c_under. apply under_outp.
Qed.

Lemma tmpp_inside : c_tmp cfg = TInside -> forall N, tmpp N = outp N.
Proof. intros E N. unfold tmp_path, out_path. rewrite E. reflexivity. Qed.

Lemma tmpp_ext : forall t, c_tmp cfg = TExternal t -> forall N, tmpp N = t ++ [NTmp N].
Proof. intros t E N. unfold tmp_path. rewrite E. reflexivity. Qed.

Lemma Inv_makedirs_tmpp : forall f N f', N < K -> Inv f -> makedirs f (tmpp N) = Some f' -> Inv f'.
Proof.
  intros f N f' HN HI E. destruct (c_tmp cfg) as [|t] eqn:Et.
  - rewrite (tmpp_inside Et) in E. eapply Inv_makedirs_outp; eauto.
  - apply (Inv_mk_all f (tmpp N) f' HI E).
    + intros q H Ho. apply (way_tmpp q N); assumption.
    + intros q H Hq. exfalso. apply on_the_way_is_prefix in H. rewrite (tmpp_ext t Et) in H.
      apply is_prefix_strip in Hq as [x Hx].
      rewrite (ext_not_above_P cfg Hsep t N q x Et Hx) in H. discriminate.
    + intros t' M r Et' H. rewrite Et in Et'. injection Et' as <-.
      apply on_the_way_is_prefix in H. rewrite (tmpp_ext t Et) in H. apply prefix_len in H.
      rewrite !app_length in H. simpl in H. destruct r; [reflexivity|simpl in H; lia].
Qed.

(* ------------------------------------------------------------------ makedirs (interrupted) *)
Lemma mk_first_cases : forall qs f,
  mk_first f qs = f \/ exists q, In q qs /\ node_at f q = None /\ mk_first f qs = upsert f q Dir.
Proof.
  induction qs as [|k qs IH]; intro f; simpl; [left; reflexivity|].
  destruct (node_at f k) as [[c|]|] eqn:Ek.
  - left. reflexivity.
  - destruct (IH f) as [E|[q [Hq [Hn E]]]]; [left; exact E|]. right. exists q. auto.
  - right. exists k. auto.
Qed.

Lemma mk_first_app : forall l1 l2 f,
  mk_first f (l1 ++ l2) = if forallb (isdir_b f) l1 then mk_first f l2 else mk_first f l1.
Proof.
  induction l1 as [|k l1 IH]; intros l2 f; simpl; [reflexivity|].
  unfold isdir_b at 1. destruct (node_at f k) as [[c|]|]; simpl; try reflexivity. apply IH.
Qed.

Lemma prefixes_from_snoc : forall p acc a,
  prefixes_from acc (p ++ [a]) = prefixes_from acc p ++ [acc ++ p ++ [a]].
Proof.
  induction p as [|b p IH]; intros acc a; simpl; [reflexivity|].
  rewrite IH. rewrite <- app_assoc. reflexivity.
Qed.

Lemma prefixes_snoc : forall p a, prefixes (p ++ [a]) = prefixes p ++ [p ++ [a]].
Proof. intros. unfold prefixes. rewrite prefixes_from_snoc. reflexivity. Qed.

(* an interrupted makedirs on a path on the way to the dataset path or the temp parent *)
Lemma Inv_mk_first_way : forall f p, Inv f ->
  (forall q, In q (prefixes p) -> owned q = true \/ way q = true) ->
  (forall q, In q (prefixes p) -> is_prefix P q = true -> q = P) ->
  (forall q t N r, In q (prefixes p) -> c_tmp cfg = TExternal t -> q = t ++ [NTmp N] ++ r -> r = []) ->
  Inv (mk_first f (prefixes p)).
Proof.
  intros f p HI Ha Hb Hc. destruct (mk_first_cases (prefixes p) f) as [->|[q [Hq [Hn ->]]]]; [exact HI|].
  apply Inv_set; [exact HI|eapply prefixes_nonnil; eauto| | |].
  - intro H. left. apply Hb; assumption.
  - destruct (Ha q Hq) as [E|E]; [left; exact E|right; auto].
  - intros t N r Et _ E. rewrite (Hc q t N r Hq Et E). simpl. auto.
Qed.

Lemma Inv_makedirs_partial_outp : forall f N, Inv f -> Inv (makedirs_partial f (outp N)).
Proof.
  intros f N HI. unfold makedirs_partial, out_path. rewrite prefixes_snoc, mk_first_app.
  fold (outp N).
  destruct (forallb (isdir_b f) (prefixes P)) eqn:Ed.
  - (* the dataset directory is there: part.N may get created *)
    assert (HPd : node_at f P <> None).
    { rewrite forallb_forall in Ed. assert (G : In P (prefixes P)).
      { apply prefixes_spec. split; [exact Pnn|apply is_prefix_refl]. }
      apply Ed in G. unfold isdir_b in G. destruct (node_at f P); [discriminate|discriminate]. }
    simpl. destruct (node_at f (outp N)) as [[c|]|] eqn:En; try exact HI.
    apply Inv_set; [exact HI|apply outp_nonnil|auto| |].
    + left. apply owned_under_P. apply under_outp.
    + intros t M r Et _ E. exfalso.
      pose proof (ext_region_not_under_P t M r Et) as G. rewrite <- E, under_outp in G. discriminate.
  - apply Inv_mk_first_way; [exact HI| | |].
    + intros q Hq. apply prefixes_spec in Hq as [Hq1 Hq2].
      destruct (path_eqb_spec q P) as [->|NE]; [left; apply owned_under_P; apply is_prefix_refl|].
      right. apply way_P. unfold on_the_way. destruct q; [contradiction|exact Hq2].
    + intros q Hq HPq. apply prefixes_spec in Hq as [_ Hq2]. apply is_prefix_antisym; assumption.
    + intros q t M r Hq Et E. exfalso. apply prefixes_spec in Hq as [_ Hq2].
      rewrite E, (ext_region_not_above t M r P Et (is_prefix_refl P)) in Hq2. discriminate.
Qed.

Lemma Inv_makedirs_partial_tmpp : forall f N, N < K -> Inv f -> Inv (makedirs_partial f (tmpp N)).
Proof.
  intros f N HN HI. destruct (c_tmp cfg) as [|t] eqn:Et.
  - rewrite (tmpp_inside Et). apply Inv_makedirs_partial_outp. exact HI.
  - unfold makedirs_partial. apply Inv_mk_first_way; [exact HI| | |].
    + intros q Hq. apply prefixes_spec in Hq as [Hq1 Hq2].
      destruct (owned q) eqn:Eo; [left; reflexivity|]. right.
      apply (way_tmpp q N HN); [|exact Eo]. unfold on_the_way. destruct q; [contradiction|exact Hq2].
    + intros q Hq HPq. exfalso. apply prefixes_spec in Hq as [_ Hq2]. rewrite (tmpp_ext t Et) in Hq2.
      apply is_prefix_strip in HPq as [x Hx].
      rewrite (ext_not_above_P cfg Hsep t N q x Et Hx) in Hq2. discriminate.
    + intros q t' M r Hq Et' E. rewrite Et in Et'. injection Et' as <-.
      apply prefixes_spec in Hq as [_ Hq2]. rewrite (tmpp_ext t Et), E in Hq2. apply prefix_len in Hq2.
      rewrite !app_length in Hq2. simpl in Hq2. destruct r; [reflexivity|simpl in Hq2; lia].
Qed.


(* ------------------------------------------------------------------ open-for-write (complete or torn) *)
Lemma Inv_write_gen : forall f p c f', Inv f -> write f p c = Some f' ->
  (is_prefix P p = true -> node_at f P <> None) ->
  owned p = true ->
  (forall t N r, c_tmp cfg = TExternal t -> N < K -> p = t ++ [NTmp N] ++ r ->
     exists i, r = [NSub i] /\ In N (nth i asg [])) ->
  Inv f'.
Proof.
  intros f p c f' HI H HcC HcO HcT. apply write_spec in H as [Hp [_ [_ ->]]].
  apply Inv_set; [exact HI|exact Hp|auto|auto|].
  intros t N r Et HN E. destruct (HcT t N r Et HN E) as [i [-> Hin]]. simpl. right. exists i, c. auto.
Qed.

(* a file directly under the dataset path: part.N.parquet, _metadata, _common_metadata *)
Lemma Inv_write_under : forall f a c f', Inv f -> write f (P ++ [a]) c = Some f' -> Inv f'.
Proof.
  intros f a c f' HI H. pose proof H as H0. apply write_spec in H0 as [_ [Hd _]].
  rewrite parent_snoc in Hd.
  apply (Inv_write_gen f (P ++ [a]) c f' HI H).
  - intros _ E. unfold isdir_b in Hd. rewrite E in Hd. discriminate.
  - apply owned_under_P. apply is_prefix_app.
  - intros t N r Et _ E. exfalso. pose proof (ext_region_not_under_P t N r Et) as G.
    rewrite <- E, is_prefix_app in G. discriminate.
Qed.

(* a sub-part file of a cell of the assignment *)
Lemma Inv_write_subp : forall f i N c f', Inv f -> N < K -> In N (nth i asg []) ->
  write f (tmpp N ++ [NSub i]) c = Some f' -> Inv f'.
Proof.
  intros f i N c f' HI HN Hin H. pose proof H as H0. apply write_spec in H0 as [_ [Hd _]].
  rewrite parent_snoc in Hd. pose proof HI as (_ & HC & _ & _).
  apply (Inv_write_gen f _ c f' HI H).
  - intros HPp E. destruct (c_tmp cfg) as [|t] eqn:Et.
    + rewrite (tmpp_inside Et) in Hd. unfold isdir_b in Hd.
      rewrite (HC E (outp N) (under_outp N)) in Hd. discriminate.
    + rewrite (tmpp_ext t Et), <- app_assoc in HPp.
      rewrite (ext_region_not_under_P t N [NSub i] Et) in HPp. discriminate.
  - apply (owned_down (tmpp N)); [apply owned_tmpp; exact HN|apply is_prefix_app].
  - intros t M r Et _ E. rewrite (tmpp_ext t Et), <- app_assoc in E. apply app_inv_head in E.
    injection E as -> <-. exists i. auto.
Qed.

(* ------------------------------------------------------------------ move *)
Lemma NoDup_nodup_keys : forall f, NoDup (map fst f) -> nodup_keys f = true.
Proof.
  induction f as [|[k m] f IH]; intro H; simpl in *; [reflexivity|].
  inversion H as [|? ? Hx Hl]. subst.
  destruct (assoc f k) eqn:Ek; [|apply IH; exact Hl].
  exfalso. apply Hx. apply In_keys_assoc. congruence.
Qed.

Lemma nodup_do_rename : forall f p1 dst, nodup_keys f = true ->
  is_prefix p1 dst = false -> is_prefix dst p1 = false -> nodup_keys (do_rename f p1 dst) = true.
Proof.
  intros f p1 dst H H1 H2. induction f as [|[k m] f IH]; [reflexivity|].
  simpl in H. destruct (assoc f k) eqn:Ek; [discriminate|]. specialize (IH H).
  unfold do_rename in *. simpl. destruct (is_prefix dst k) eqn:Edk; simpl; [exact IH|].
  fold (do_rename f p1 dst) in *.
  assert (G : assoc (do_rename f p1 dst) (fst (rename_entry p1 dst (k, m))) = None).
  { rewrite assoc_do_rename by assumption. unfold rename_entry. simpl.
    destruct (strip_prefix p1 k) as [r|] eqn:Er; simpl.
    - rewrite strip_prefix_app. apply strip_prefix_some in Er. subst k. exact Ek.
    - apply is_prefix_none in Edk. rewrite Edk. unfold is_prefix. rewrite Er. exact Ek. }
  destruct (rename_entry p1 dst (k, m)) as [k' m'] eqn:Ere. simpl in G. rewrite G. exact IH.
Qed.

Lemma Inv_do_rename : forall g p1 dst, Inv g -> p1 <> [] -> dst <> [] ->
  is_prefix p1 dst = false -> is_prefix dst p1 = false ->
  is_prefix P p1 = true -> is_prefix P dst = true ->
  is_prefix p1 P = false -> is_prefix dst P = false ->
  Inv (do_rename g p1 dst).
Proof.
  intros g p1 dst HI Hp Hd H1 H2 HPp HPd Hp1P HdP. pose proof HI as (HN & HC & _ & _).
  assert (Hspec : forall q, node_at (do_rename g p1 dst) q =
            match strip_prefix dst q with
            | Some r => node_at g (p1 ++ r)
            | None => if is_prefix p1 q then None else node_at g q
            end).
  { intro q. apply node_at_do_rename; assumption. }
  assert (Hout : forall q, is_prefix P q = false -> node_at (do_rename g p1 dst) q = node_at g q).
  { intros q Hq. rewrite Hspec.
    assert (G1 : strip_prefix dst q = None).
    { apply is_prefix_none. destruct (is_prefix dst q) eqn:E; [|reflexivity].
      rewrite (is_prefix_trans _ _ _ HPd E) in Hq. discriminate. }
    assert (G2 : is_prefix p1 q = false).
    { destruct (is_prefix p1 q) eqn:E; [|reflexivity].
      rewrite (is_prefix_trans _ _ _ HPp E) in Hq. discriminate. }
    rewrite G1, G2. reflexivity. }
  apply (Inv_update g _ HI).
  - apply nodup_do_rename; assumption.
  - rewrite Hspec. apply is_prefix_none in HdP. rewrite HdP, Hp1P. intros HP0 q Hq. rewrite Hspec.
    destruct (strip_prefix dst q) as [r|].
    + apply HC; [exact HP0|]. apply (is_prefix_trans _ _ _ HPp). apply is_prefix_app.
    + destruct (is_prefix p1 q); [reflexivity|]. apply HC; assumption.
  - intros q Hq. left. apply Hout. destruct (is_prefix P q) eqn:E; [|reflexivity].
    rewrite (owned_under_P q E) in Hq. discriminate.
  - intros t N r Et _. left. apply Hout. apply ext_region_not_under_P. exact Et.
Qed.

Lemma move_cases' : forall f p1 p2 f', move f p1 p2 = Some f' ->
  f' = f \/
  (exists g dst, (g = f \/ makedirs f (parent p2) = Some g) /\ f' = do_rename g p1 dst /\
     p1 <> [] /\ dst <> [] /\ is_prefix p1 dst = false /\ is_prefix dst p1 = false /\
     (dst = p2 \/ dst = p2 ++ [last p1 NMeta])).
Proof.
  intros f p1 p2 f' H. unfold move in H.
  destruct p1 as [|a1 p1]; [discriminate|].
  destruct (node_at f (a1 :: p1)) as [src|] eqn:Esrc; [|discriminate].
  destruct (isdir_b f p2) eqn:Ed2.
  - destruct (path_eqb_spec (a1 :: p1) p2) as [E|NE].
    + injection H as <-. left. reflexivity.
    + destruct (exists_b f (p2 ++ [last (a1 :: p1) NMeta])) eqn:Edst; [discriminate|].
      destruct (is_prefix (a1 :: p1) (p2 ++ [last (a1 :: p1) NMeta])) eqn:E1; [discriminate|].
      destruct (is_prefix (p2 ++ [last (a1 :: p1) NMeta]) (a1 :: p1)) eqn:E2; [discriminate|].
      simpl in H. injection H as <-. right.
      exists f, (p2 ++ [last (a1 :: p1) NMeta]).
      repeat split; try assumption; try discriminate; [left; reflexivity|apply snoc_not_nil|right; reflexivity].
  - destruct p2 as [|a2 p2]; [discriminate|].
    destruct (isdir_b f (parent (a2 :: p2))) eqn:Edp; simpl negb in H; cbv iota in H.
    + destruct (path_eqb_spec (a1 :: p1) (a2 :: p2)) as [E|NE].
      * injection H as <-. left. reflexivity.
      * destruct (is_prefix (a1 :: p1) (a2 :: p2)) eqn:E1; [discriminate|].
        destruct (is_prefix (a2 :: p2) (a1 :: p1)) eqn:E2; [discriminate|].
        simpl in H.
        assert (G : f' = do_rename f (a1 :: p1) (a2 :: p2)).
        { destruct src as [c|]; [|destruct (assoc f (a2 :: p2)) as [x|]; [discriminate|]];
            inversion H; reflexivity. }
        right. exists f, (a2 :: p2). repeat split; try assumption; try discriminate; left; reflexivity.
    + destruct src as [c|]; [discriminate|].
      destruct (is_prefix (a1 :: p1) (a2 :: p2)) eqn:E1; [discriminate|].
      destruct (is_prefix (a2 :: p2) (a1 :: p1)) eqn:E2; [discriminate|].
      change (false || false) with false in H. cbv iota in H.
      destruct (makedirs f (parent (a2 :: p2))) as [g|] eqn:Emk; [|discriminate].
      injection H as <-. right. exists g, (a2 :: p2).
      repeat split; try assumption; try discriminate; [right; reflexivity|left; reflexivity].
Qed.

Lemma outp_not_above_P : forall N, is_prefix (outp N) P = false.
Proof. intro N. unfold out_path. apply is_prefix_longer. discriminate. Qed.

(* move_retry(part.N.parquet, part.j.parquet) *)
Lemma Inv_move : forall f N j f', Inv f -> move f (outp N) (outp j) = Some f' -> Inv f'.
Proof.
  intros f N j f' HI H.
  apply move_cases' in H as [->|[g [dst [Hg [-> [Hp [Hd [H1 [H2 Hdst]]]]]]]]]; [exact HI|].
  assert (HIg : Inv g).
  { destruct Hg as [->|Hg]; [exact HI|]. unfold out_path in Hg. rewrite parent_snoc in Hg.
    eapply Inv_makedirs_P; eauto. }
  apply Inv_do_rename; try assumption.
  - apply under_outp.
  - destruct Hdst as [->| ->]; [apply under_outp|].
    apply (is_prefix_trans _ _ _ (under_outp j)). apply is_prefix_app.
  - apply outp_not_above_P.
  - destruct Hdst as [->| ->]; [apply outp_not_above_P|].
    apply is_prefix_false_app. apply outp_not_above_P.
Qed.

End Inv.
