(* C16, several sources: pd.concat of pieces of several arrays (Model/DeriveMulti.v)
   is the concatenation of Python's slices of the sources, in both regimes pandas
   may choose (same dtype: _concat_same_type; otherwise: object arrays of the
   scalars), and -- with any history of single-array steps after it -- commutes
   with every slot-wise map (so every slot-wise quantity of the result is the same
   selection of the sources' quantities). *)
From Coq Require Import ZArith List Bool Arith Lia.
From SP Require Import Model.Num Model.Arrow Model.Bounds Model.Derive Spec.DeriveSpec
  Model.DeriveMulti Proofs.DeriveProofs Proofs.DeriveSpecProofs.
Import ListNotations.

Section Spec.
Context {X : Type}.
Variable na : X.

Definition py_piece (srcs : list (list X)) (p : piece) : pyres (list X) :=
  let '(k, a, b, s) := p in py_slice na (nth k srcs []) a b s.

Lemma piece_elems_spec : forall srcs p, piece_elems na srcs p = py_piece srcs p.
Proof. intros srcs [[[k a] b] s]. apply getitem_slice_spec. Qed.

Theorem concat_pieces_spec : forall srcs ps,
  concat_pieces na srcs ps =
  pybind (collect (map (py_piece srcs) ps)) concat_same_type.
Proof.
  intros srcs ps. unfold concat_pieces. f_equal. f_equal.
  apply map_ext. apply piece_elems_spec.
Qed.

(* the object regime (iteration of every piece) gives the same elements *)
Theorem concat_pieces_object_eq : forall srcs ps,
  concat_pieces_object na srcs ps = concat_pieces na srcs ps.
Proof.
  intros srcs ps. unfold concat_pieces_object, concat_pieces. f_equal. f_equal.
  apply map_ext. intros p. destruct (piece_elems na srcs p); cbn [pybind]; try reflexivity.
  apply array_iter_spec.
Qed.

(* without a step every piece is l[a:b], which never fails: the result is the
   plain concatenation, and only an empty list of pieces is an error *)
Theorem concat_pieces_nostep : forall srcs (ps : list (nat * option Z * option Z)),
  concat_pieces na srcs (map (fun '(k, a, b) => (k, a, b, None)) ps) =
  match ps with
  | [] => ValueError
  | _ => Ok (concat (map (fun '(k, a, b) => py_slice1 na (nth k srcs []) a b) ps))
  end.
Proof.
  intros srcs ps. rewrite concat_pieces_spec, map_map.
  rewrite (map_ext _
             (fun p => Ok ((fun '(k, a, b) => py_slice1 na (nth k srcs []) a b) p))).
  2:{ intros [[k a] b]. cbn [py_piece]. apply py_slice_nostep. }
  rewrite collect_ok. cbn [pybind]. destruct ps as [|p t]; reflexivity.
Qed.

End Spec.

Section Naturality.
Context {X Y : Type}.
Variable g : X -> Y.
Variable naX : X.
Variable naY : Y.
Hypothesis Hg : g naX = naY.

Lemma piece_elems_map : forall srcs p,
  piece_elems naY (map (map g) srcs) p = pymap (map g) (piece_elems naX srcs p).
Proof.
  intros srcs [[[k a] b] s]. cbn [piece_elems].
  change (@nil Y) with (map g (@nil X)). rewrite map_nth.
  apply (getitem_slice_map g naX naY Hg).
Qed.

Lemma collect_pieces_map : forall srcs ps,
  collect (map (piece_elems naY (map (map g) srcs)) ps)
  = pymap (map (map g)) (collect (map (piece_elems naX srcs) ps)).
Proof.
  intros srcs ps. induction ps as [|p t IH]; [reflexivity|].
  cbn [map collect]. rewrite piece_elems_map, IH.
  destruct (piece_elems naX srcs p); cbn [pybind pymap]; try reflexivity.
  destruct (collect (map (piece_elems naX srcs) t)); reflexivity.
Qed.

Theorem concat_pieces_map : forall srcs ps,
  concat_pieces naY (map (map g) srcs) ps
  = pymap (map g) (concat_pieces naX srcs ps).
Proof.
  intros srcs ps. unfold concat_pieces. rewrite collect_pieces_map.
  destruct (collect (map (piece_elems naX srcs) ps)); cbn [pybind pymap]; try reflexivity.
  apply concat_same_type_map.
Qed.

Theorem run_multi_map : forall srcs ps steps,
  run_multi naY (map (map g) srcs) ps steps
  = pymap (map g) (run_multi naX srcs ps steps).
Proof.
  intros srcs ps steps. unfold run_multi. rewrite concat_pieces_map.
  destruct (concat_pieces naX srcs ps); cbn [pybind pymap]; try reflexivity.
  apply (run_steps_map g naX naY Hg).
Qed.

End Naturality.

(* instances: bounds rows and missing flags of the result *)
Theorem multi_bounds : forall srcs ps steps,
  run_multi nanbox (map (map elem_bbox) srcs) ps steps
  = pymap (map elem_bbox) (run_multi None srcs ps steps).
Proof. intros. apply run_multi_map. reflexivity. Qed.

Theorem multi_isna : forall (srcs : list (list (option elem))) ps steps,
  run_multi true (map isna srcs) ps steps
  = pymap isna (run_multi None srcs ps steps).
Proof. intros. apply (run_multi_map (@is_na elem) None true). reflexivity. Qed.
