(* C01 for the scalar wrappers (Line / Ring / MultiPoint / MultiLine / Polygon /
   MultiPolygon .intersects_bounds) over the scalar's own listarray buffers. *)
From Coq Require Import ZArith Reals Lia Bool ZifyBool List Arith.
From SP Require Import Model.Num Model.Arrow Model.Bounds Model.PointKernels Model.Intersect
                       Spec.Plane Spec.IntersectSpec
                       Proofs.IntersectBase Proofs.IntersectPoints Proofs.IntersectLine
                       Proofs.IntersectPolygon Proofs.IntersectPolygonC Proofs.IntersectWnConst.
Import ListNotations.
Open Scope Z_scope.

(* ---- an empty element (NullArray: one buffer): False ---- *)
Theorem scalar_empty_false : forall a b,
  (forall r, line_scalar 1 a b = Some r -> r = false) /\
  (forall r, multipoint_scalar 1 a b = Some r -> r = false) /\
  (forall r, multiline_scalar 1 a b = Some r -> r = false) /\
  (forall r, multipolygon_scalar 1 a b = Some r -> r = false).
Proof.
  intros a [[[bx0 by0] bx1] by1].
  unfold line_scalar, multipoint_scalar, multiline_scalar, multipolygon_scalar, sc_buffer_offsets.
  simpl Nat.ltb. cbn iota. unfold outer_offsets_of. simpl removelast. simpl tl.
  repeat split; intros r H; destruct (negb (wf_scalar 1 a)); try discriminate;
    try (destruct (finite_vals (buffer_values a)); [|discriminate]); inversion H; subst; clear H.
  - unfold lines_intersect_bounds. destruct (orient_box _) as [[[x0 y0] x1] y1].
    destruct ((x0 =? x1) || (y0 =? y1)); reflexivity.
  - unfold multipoints_intersect_bounds. destruct (orient_box _) as [[[x0 y0] x1] y1]. reflexivity.
  - unfold lines_intersect_bounds. destruct (orient_box _) as [[[x0 y0] x1] y1].
    destruct ((x0 =? x1) || (y0 =? y1)); reflexivity.
  - reflexivity.
Qed.

(* ---- Line / Ring scalar with coordinates (primitive array: two buffers) ---- *)
Theorem line_scalar_correct : forall a bx0 by0 bx1 by1 r,
  line_scalar 2 a (bx0, by0, bx1, by1) = Some r ->
  exists vals, finite_vals (la_vals a) = Some vals /\
  (bx0 <> bx1 -> by0 <> by1 ->
   (r = true <->
    exists P, in_zbox (Z.min bx0 bx1) (Z.min by0 by1) (Z.max bx0 bx1) (Z.max by0 by1) P /\
              line_set (zpairs (slice 0 (la_len a) vals)) P)) /\
  ((bx0 = bx1 \/ by0 = by1) -> r = false).
Proof.
  intros a bx0 by0 bx1 by1 r H. unfold line_scalar, sc_buffer_offsets in H.
  simpl Nat.ltb in H. cbn iota in H. unfold outer_offsets_of in H. simpl in H.
  destruct (negb (wf_scalar 2 a)); [discriminate|].
  unfold buffer_values in H. destruct (finite_vals (la_vals a)) as [vals|]; [|discriminate].
  inversion H; subst; clear H. exists vals. split; [reflexivity|].
  unfold lines_intersect_bounds. rewrite orient_box_spec.
  destruct ((Z.min bx0 bx1 =? Z.max bx0 bx1) || (Z.min by0 by1 =? Z.max by0 by1)) eqn:Deg.
  - split; [intros; lia | reflexivity].
  - split; [|intros; lia]. intros Nx Ny. simpl. apply perform_line_correct; lia.
Qed.

(* ---- MultiPoint scalar with coordinates ---- *)
Theorem multipoint_scalar_correct : forall a b r,
  multipoint_scalar 2 a b = Some r ->
  exists vals, finite_vals (la_vals a) = Some vals /\
  (r = true <-> exists p, In p (zpairs (slice 0 (la_len a) vals)) /\ zbox_has b p).
Proof.
  intros a [[[bx0 by0] bx1] by1] r H. unfold multipoint_scalar, sc_buffer_offsets in H.
  simpl Nat.ltb in H. cbn iota in H. unfold outer_offsets_of in H. simpl in H.
  destruct (negb (wf_scalar 2 a)); [discriminate|].
  unfold buffer_values in H. destruct (finite_vals (la_vals a)) as [vals|]; [|discriminate].
  inversion H; subst; clear H. exists vals. split; [reflexivity|].
  rewrite multipoints_as_map. simpl. apply multipoint_kernel_spec.
Qed.

(* ---- MultiLine scalar (one level of offsets): any of its lines ---- *)
Lemma existsb_id_map {A} (f : A -> bool) : forall l, existsb (fun r => r) (map f l) = existsb f l.
Proof. induction l as [|a l IH]; simpl; [reflexivity|]. now rewrite IH. Qed.

Theorem multiline_scalar_correct : forall nbuf a bx0 by0 bx1 by1 r, (3 <= nbuf)%nat ->
  multiline_scalar nbuf a (bx0, by0, bx1, by1) = Some r ->
  exists vals, finite_vals (buffer_values a) = Some vals /\
  let offs := outer_offsets_of (buffer_offsets a) in
  (bx0 <> bx1 -> by0 <> by1 ->
   (r = true <->
    exists P, in_zbox (Z.min bx0 bx1) (Z.min by0 by1) (Z.max bx0 bx1) (Z.max by0 by1) P /\
              lines_set (lines_of vals offs) P)) /\
  ((bx0 = bx1 \/ by0 = by1) -> r = false).
Proof.
  intros nbuf a bx0 by0 bx1 by1 r Hn H. unfold multiline_scalar, sc_buffer_offsets in H.
  destruct (Nat.ltb_spec nbuf 2); [lia|]. destruct (Nat.ltb_spec nbuf 3); [lia|].
  destruct (negb (wf_scalar nbuf a)); [discriminate|].
  destruct (finite_vals (buffer_values a)) as [vals|]; [|discriminate].
  inversion H; subst; clear H. exists vals. split; [reflexivity|]. cbv zeta.
  set (offs := outer_offsets_of (buffer_offsets a)).
  rewrite lines_as_map by (now rewrite length_removelast, length_tl).
  rewrite existsb_id_map, combine_removelast_tl.
  unfold line_kernel. rewrite orient_box_spec.
  destruct ((Z.min bx0 bx1 =? Z.max bx0 bx1) || (Z.min by0 by1 =? Z.max by0 by1)) eqn:Deg.
  - split; [intros; lia|]. intros _. induction (opairs offs); simpl; auto.
  - split; [|intros; lia]. intros Nx Ny. unfold lines_set, lines_of. rewrite existsb_exists. split.
    + intros ([s e] & Hin & Hp). apply perform_line_correct in Hp; try lia.
      destruct Hp as (P & HB & HL). exists P. split; [assumption|].
      exists (zpairs (slice s e vals)). split; [|assumption]. apply in_map_iff. exists (s, e). tauto.
    + intros (P & HB & vs & Hin & HL). apply in_map_iff in Hin. destruct Hin as ([s e] & E & Hin).
      subst vs. exists (s, e). split; [assumption|]. apply perform_line_correct; try lia. eauto.
Qed.

(* ---- Polygon scalar: the polygon kernel over all rings of the scalar's buffers ---- *)
Theorem polygon_scalar_kernel : forall nbuf a bx0 by0 bx1 by1 r, (3 <= nbuf)%nat ->
  polygon_scalar nbuf a (bx0, by0, bx1, by1) = Some r ->
  exists vals, finite_vals (buffer_values a) = Some vals /\
  let offsets1 := inner_offsets_of (buffer_offsets a) in
  r = perform_polygon (Z.min bx0 bx1) (Z.min by0 by1) (Z.max bx0 bx1) (Z.max by0 by1)
                      vals offsets1 0 (length offsets1 - 1).
Proof.
  intros nbuf a bx0 by0 bx1 by1 r Hn H. unfold polygon_scalar, sc_buffer_offsets in H.
  destruct (Nat.ltb_spec nbuf 2); [lia|]. destruct (Nat.ltb_spec nbuf 3); [lia|].
  destruct (negb (wf_scalar nbuf a)); [discriminate|].
  destruct (finite_vals (buffer_values a)) as [vals|]; [|discriminate].
  inversion H; subst; clear H. exists vals. split; [reflexivity|]. cbv zeta.
  unfold polygons_intersect_bounds. rewrite orient_box_spec. reflexivity.
Qed.

(* ---- MultiPolygon scalar: the multipolygon kernel over all parts ---- *)
Theorem multipolygon_scalar_kernel : forall nbuf a bx0 by0 bx1 by1 r offsets1 offsets2,
  (3 <= nbuf)%nat -> buffer_offsets a = [offsets1; offsets2] ->
  multipolygon_scalar nbuf a (bx0, by0, bx1, by1) = Some r ->
  exists vals, finite_vals (buffer_values a) = Some vals /\
  r = perform_multipolygon (Z.min bx0 bx1) (Z.min by0 by1) (Z.max bx0 bx1) (Z.max by0 by1)
                           vals offsets1 offsets2 0 (length offsets1 - 1).
Proof.
  intros nbuf a bx0 by0 bx1 by1 r offsets1 offsets2 Hn EO H.
  unfold multipolygon_scalar, sc_buffer_offsets in H.
  destruct (Nat.ltb_spec nbuf 2); [lia|]. destruct (Nat.ltb_spec nbuf 3); [lia|].
  destruct (negb (wf_scalar nbuf a)); [discriminate|]. rewrite EO in H.
  destruct (finite_vals (buffer_values a)) as [vals|]; [|discriminate].
  inversion H; subst; clear H. exists vals. split; [reflexivity|].
  unfold multipolygons_intersect_bounds. rewrite orient_box_spec. reflexivity.
Qed.
