(* Lemma library for C14, part 2: the kernels depend only on the rings between
   the offsets (representation independence), length terms, the array forms are
   maps of the ring-level measures over the elements, boundary. *)
From Coq Require Import ZArith List Bool Arith Lia ZifyBool.
From SP Require Import Model.Num Model.Arrow Model.Measures Proofs.BoundsProofs
  Spec.MeasuresSpec Proofs.MeasuresProofs.
Import ListNotations.
Local Open Scope nat_scope.

(* ================================================================== *)
(** * 1. compute_line_length: the terms are the segments of each ring    *)
(* ================================================================== *)

Lemma pairs_cons2 : forall x y t, pairs (x :: y :: t) = (x, y) :: pairs t.
Proof. reflexivity. Qed.

Lemma seg_terms_cons2 : forall p q t,
  seg_terms (p :: q :: t) =
  match fst p, snd p, fst q, snd q with
  | Some a, Some b, Some c, Some d => sqdist a b c d :: seg_terms (q :: t)
  | _, _, _, _ => seg_terms (q :: t)
  end.
Proof. reflexivity. Qed.

Lemma even_SS : forall n, Nat.even (S (S n)) = Nat.even n.
Proof. reflexivity. Qed.

Lemma pairs_length : forall r, Nat.even (length r) = true -> length r = 2 * length (pairs r).
Proof.
  intros r. pattern r. apply pairs_ind2; clear r.
  - reflexivity.
  - intros x H. discriminate H.
  - intros x y t IH H. cbn [length] in H. rewrite even_SS in H.
    rewrite pairs_cons2. cbn [length]. rewrite (IH H). lia.
Qed.

(* the inner loop over a ring body laid out anywhere in a buffer *)
Lemma ll_inner_spec : forall r pre post x0 y0,
  Nat.even (length r) = true ->
  ll_inner (pre ++ r ++ post) (length (pairs r)) (length pre) x0 y0 =
  seg_terms ((x0, y0) :: pairs r).
Proof.
  intros r. pattern r. apply pairs_ind2; clear r.
  - intros. reflexivity.
  - intros x pre post x0 y0 H. discriminate H.
  - intros x y t IH pre post x0 y0 H.
    cbn [length] in H. rewrite even_SS in H.
    rewrite pairs_cons2. cbn [length ll_inner].
    assert (Hx : vget (pre ++ (x :: y :: t) ++ post) (length pre) = x).
    { unfold vget. rewrite app_nth2 by lia. rewrite Nat.sub_diag. reflexivity. }
    assert (Hy : vget (pre ++ (x :: y :: t) ++ post) (length pre + 1) = y).
    { unfold vget. rewrite app_nth2 by lia.
      replace (length pre + 1 - length pre) with 1 by lia. reflexivity. }
    rewrite Hx, Hy.
    replace (pre ++ (x :: y :: t) ++ post) with ((pre ++ [x; y]) ++ t ++ post)
      by (rewrite <- app_assoc; reflexivity).
    replace (length pre + 2) with (length (pre ++ [x; y])) by (rewrite app_length; cbn; lia).
    rewrite (IH (pre ++ [x; y]) post x y H).
    rewrite seg_terms_cons2. cbn [fst snd].
    destruct x0, y0, x, y; reflexivity.
Qed.

Lemma even_sub : forall a b, Nat.even a = true -> Nat.even b = true -> Nat.even (b - a) = true.
Proof.
  intros a b Ha Hb.
  apply Nat.even_spec in Ha. apply Nat.even_spec in Hb.
  destruct Ha as [m ->]. destruct Hb as [n ->].
  apply Nat.even_spec. exists (n - m). lia.
Qed.

(* one ring delimited by two offsets *)
Lemma ll_ring_slice : forall vals s e,
  s <= e -> e <= length vals -> Nat.even (e - s) = true ->
  ll_inner vals (range2_count (s + 2) e) (s + 2) (vget vals s) (vget vals (s + 1)) =
  ring_terms (slice s e vals).
Proof.
  intros vals s e Hse He Hev.
  pose proof (slice_length _ s e vals He) as L.
  pose proof (slice_decompose _ vals s e Hse He) as D.
  unfold ring_terms.
  destruct (slice s e vals) as [|x [|y r']] eqn:ES.
  - cbn [length] in L.
    replace (range2_count (s + 2) e) with 0; [reflexivity|].
    unfold range2_count. replace (e - (s + 2) + 1) with 1 by lia. reflexivity.
  - cbn [length] in L. rewrite <- L in Hev. discriminate Hev.
  - cbn [length] in L.
    assert (Hx : vget vals s = x).
    { unfold vget. pose proof (nth_slice _ s e 0 vals None ltac:(lia)) as N.
      rewrite ES in N. cbn [nth] in N. rewrite Nat.add_0_r in N. symmetry. exact N. }
    assert (Hy : vget vals (s + 1) = y).
    { unfold vget. pose proof (nth_slice _ s e 1 vals None ltac:(lia)) as N.
      rewrite ES in N. cbn [nth] in N. symmetry. exact N. }
    rewrite Hx, Hy. rewrite pairs_cons2.
    assert (Hr : Nat.even (length r') = true).
    { rewrite <- L in Hev. rewrite even_SS in Hev. exact Hev. }
    pose proof (pairs_length r' Hr) as PL.
    replace e with (s + 2 + 2 * length (pairs r')) at 1 by lia.
    rewrite range2_count_even.
    rewrite D at 1.
    replace (firstn s vals ++ (x :: y :: r') ++ skipn e vals)
      with ((firstn s vals ++ [x; y]) ++ r' ++ skipn e vals)
      by (rewrite <- app_assoc; reflexivity).
    replace (s + 2) with (length (firstn s vals ++ [x; y]))
      by (rewrite app_length, firstn_length; cbn [length]; lia).
    apply ll_inner_spec. exact Hr.
Qed.

Definition all_even (offs : list nat) : bool := forallb Nat.even offs.

Lemma ll_terms_cons2 : forall vals a b t,
  ll_terms vals (a :: b :: t) =
  (if Nat.ltb (b - a) 4 then []
   else ll_inner vals (range2_count (a + 2) b) (a + 2) (vget vals a) (vget vals (a + 1)))
  ++ ll_terms vals (b :: t).
Proof. reflexivity. Qed.

(* a ring of fewer than two vertices has no segment *)
Lemma ring_terms_short : forall r, length r < 4 -> ring_terms r = [].
Proof.
  intros r H. unfold ring_terms.
  destruct r as [|x [|y [|z [|w t]]]]; cbn in H; try lia; reflexivity.
Qed.

Lemma segs_cons2 : forall A (vals : list A) a b t,
  segs vals (a :: b :: t) = slice a b vals :: segs vals (b :: t).
Proof. reflexivity. Qed.

Lemma offs_step : forall a b t nv,
  mono (a :: b :: t) = true -> all_even (a :: b :: t) = true ->
  last (a :: b :: t) 0 <= nv ->
  a <= b /\ b <= nv /\ Nat.even (b - a) = true /\
  mono (b :: t) = true /\ all_even (b :: t) = true /\ last (b :: t) 0 <= nv.
Proof.
  intros a b t nv Hm Hev Hl.
  pose proof (mono_tail _ _ Hm) as Hm'.
  assert (Hab : a <= b) by (apply (mono_head_le _ _ _ Hm); left; reflexivity).
  change (last (a :: b :: t) 0) with (last (b :: t) 0) in Hl.
  assert (Hb : b <= last (b :: t) 0) by (apply mono_le_last; [exact Hm' | left; reflexivity]).
  unfold all_even in *. cbn [forallb] in Hev.
  apply andb_true_iff in Hev. destruct Hev as [Ea Hev].
  pose proof Hev as Hev'. cbn [forallb] in Hev'.
  apply andb_true_iff in Hev'. destruct Hev' as [Eb _].
  repeat split; auto; try lia. apply even_sub; assumption.
Qed.

Lemma ll_terms_segs : forall vals offs,
  mono offs = true -> all_even offs = true -> last offs 0 <= length vals ->
  ll_terms vals offs = concat (map ring_terms (segs vals offs)).
Proof.
  intros vals offs. induction offs as [|a t IH]; intros Hm Hev Hl; [reflexivity|].
  destruct t as [|b t']; [reflexivity|].
  destruct (offs_step a b t' _ Hm Hev Hl) as (Hab & Hb & Eab & Hm' & Hev' & Hl').
  rewrite ll_terms_cons2, segs_cons2. cbn [map concat].
  rewrite IH by assumption. f_equal.
  destruct (Nat.ltb (b - a) 4) eqn:E4.
  - apply Nat.ltb_lt in E4. symmetry. apply ring_terms_short.
    rewrite slice_length by assumption. exact E4.
  - apply ll_ring_slice; assumption.
Qed.

Theorem compute_length_rings : forall vals offs,
  mono offs = true -> all_even offs = true -> last offs 0 <= length vals ->
  compute_line_length vals offs = rings_length (segs vals offs).
Proof.
  intros vals offs Hm Hev Hl. unfold compute_line_length, rings_length.
  rewrite ll_terms_segs by assumption. reflexivity.
Qed.

(* translation of a coordinate list: finite values move, non-finite ones stay *)
Fixpoint ntranslate (dx dy : Z) (r : list num) : list num :=
  match r with
  | x :: y :: t =>
      option_map (fun v => (v + dx)%Z) x :: option_map (fun v => (v + dy)%Z) y
      :: ntranslate dx dy t
  | l => l
  end.

Lemma sqdist_translate : forall a b c d dx dy,
  sqdist (a + dx) (b + dy) (c + dx) (d + dy) = sqdist a b c d.
Proof. intros. unfold sqdist. f_equal; f_equal; lia. Qed.

Lemma seg_terms_translate : forall dx dy r x0 y0,
  seg_terms ((option_map (fun v => (v + dx)%Z) x0, option_map (fun v => (v + dy)%Z) y0)
             :: pairs (ntranslate dx dy r)) =
  seg_terms ((x0, y0) :: pairs r).
Proof.
  intros dx dy r. pattern r. apply pairs_ind2; clear r.
  - intros. reflexivity.
  - intros x x0 y0. reflexivity.
  - intros x y t IH x0 y0.
    cbn [ntranslate]. rewrite !pairs_cons2, !seg_terms_cons2. cbn [fst snd].
    rewrite IH.
    destruct x0, y0, x, y; cbn [option_map]; try reflexivity.
    rewrite sqdist_translate. reflexivity.
Qed.

Theorem length_translate : forall dx dy r,
  ring_terms (ntranslate dx dy r) = ring_terms r.
Proof.
  intros dx dy r. unfold ring_terms.
  destruct r as [|x [|y t]]; [reflexivity | reflexivity|].
  cbn [ntranslate]. rewrite !pairs_cons2. apply seg_terms_translate.
Qed.

(* ================================================================== *)
(** * 2. compute_area depends only on the rings                          *)
(* ================================================================== *)

Lemma area_main_ext : forall n v1 v2 d k acc,
  (forall j, k + 1 <= j -> j <= k + 2 * n + 3 -> vget v1 (d + j) = vget v2 j) ->
  area_main v1 n (d + k) acc = area_main v2 n k acc.
Proof.
  induction n as [|n IH]; intros v1 v2 d k acc H; [reflexivity|].
  cbn [area_main].
  replace (d + k + 2) with (d + (k + 2)) by lia.
  replace (d + k + 4 + 1) with (d + (k + 4 + 1)) by lia.
  replace (d + k + 1) with (d + (k + 1)) by lia.
  rewrite !H by lia.
  apply IH. intros j H1 H2. apply H; lia.
Qed.

Lemma area_ring_transport : forall vals s e acc,
  s <= e -> e <= length vals -> Nat.even (e - s) = true ->
  area_ring vals s e acc = ring_area (slice s e vals) acc.
Proof.
  intros vals s e acc Hse He Hev.
  unfold ring_area, area_ring.
  rewrite (slice_length _ s e vals He), Nat.sub_0_r.
  destruct (Nat.ltb (e - s) 6) eqn:E6; [reflexivity|].
  apply Nat.ltb_ge in E6.
  apply Nat.even_spec in Hev. destruct Hev as [m Hm].
  assert (Hv : forall j, j < e - s -> vget vals (s + j) = vget (slice s e vals) j).
  { intros j Hj. unfold vget. symmetry. apply nth_slice. exact Hj. }
  assert (Hc : range2_count s (e - 4) = m - 2).
  { replace (e - 4) with (s + 2 * (m - 2)) by lia. apply range2_count_even. }
  assert (Hc' : range2_count 0 (e - s - 4) = m - 2).
  { replace (e - s - 4) with (0 + 2 * (m - 2)) by lia. apply range2_count_even. }
  rewrite Hc, Hc'.
  replace s with (s + 0) at 1 by lia.
  rewrite (area_main_ext (m - 2) vals (slice s e vals) s 0 acc)
    by (intros j H1 H2; apply Hv; lia).
  replace (vget vals s) with (vget vals (s + 0)) by (f_equal; lia).
  replace (e - 3) with (s + (e - s - 3)) by lia.
  rewrite !Hv by lia. reflexivity.
Qed.

Lemma area_loop_cons2 : forall vals a b t acc,
  area_loop vals (a :: b :: t) acc = area_loop vals (b :: t) (area_ring vals a b acc).
Proof. reflexivity. Qed.

Lemma area_loop_segs : forall vals offs acc,
  mono offs = true -> all_even offs = true -> last offs 0 <= length vals ->
  area_loop vals offs acc = fold_left (fun acc r => ring_area r acc) (segs vals offs) acc.
Proof.
  intros vals offs. induction offs as [|a t IH]; intros acc Hm Hev Hl; [reflexivity|].
  destruct t as [|b t']; [reflexivity|].
  destruct (offs_step a b t' _ Hm Hev Hl) as (Hab & Hb & Eab & Hm' & Hev' & Hl').
  rewrite area_loop_cons2, segs_cons2. cbn [fold_left].
  rewrite area_ring_transport by assumption.
  apply IH; assumption.
Qed.

Theorem compute_area_rings : forall vals offs,
  mono offs = true -> all_even offs = true -> last offs 0 <= length vals ->
  compute_area vals offs = rings_area (segs vals offs).
Proof. intros. unfold compute_area, rings_area. apply area_loop_segs; assumption. Qed.

(* ---- finite rings: sums of shoelace values ---- *)

Lemma ring_area_flatz : forall ps acc,
  ring_area (flatz ps) (Some acc) = Some (acc + code_area ps)%Z.
Proof.
  intros ps acc. unfold ring_area. rewrite flatz_length.
  pose proof (area_ring_spec ps [] [] acc) as H.
  cbn [app length] in H. rewrite app_nil_r in H. exact H.
Qed.

Lemma zsum_cons : forall x l, zsum (x :: l) = (x + zsum l)%Z.
Proof. reflexivity. Qed.

Lemma rings_area_fold_flatz : forall pss acc,
  fold_left (fun acc r => ring_area r acc) (map flatz pss) (Some acc) =
  Some (acc + zsum (map code_area pss))%Z.
Proof.
  induction pss as [|ps t IH]; intros acc.
  - cbn. f_equal. lia.
  - cbn [map fold_left]. rewrite ring_area_flatz, IH, zsum_cons.
    f_equal. lia.
Qed.

Lemma zsum_map_ext_Forall : forall A (f g : A -> Z) l,
  Forall (fun x => f x = g x) l -> zsum (map f l) = zsum (map g l).
Proof.
  intros A f g l H. induction H as [|x t Hx _ IH]; [reflexivity|].
  cbn [map]. rewrite !zsum_cons, Hx, IH. reflexivity.
Qed.

(* the area of a polygon / of all rings of a multipolygon element: the sum of
   the shoelace values of its (closed, finite) rings *)
Theorem polygon_area_shoelace : forall vals offs pss,
  mono offs = true -> all_even offs = true -> last offs 0 <= length vals ->
  segs vals offs = map flatz pss ->
  Forall closed pss ->
  compute_area vals offs = Some (zsum (map shoelace2 pss)).
Proof.
  intros vals offs pss Hm Hev Hl Hs Hc.
  rewrite compute_area_rings by assumption. unfold rings_area.
  rewrite Hs, rings_area_fold_flatz. f_equal.
  rewrite Z.add_0_l. apply zsum_map_ext_Forall.
  eapply Forall_impl; [|exact Hc]. intros ps H. apply code_area_shoelace, H.
Qed.

(* ring-oriented polygon: shell counter-clockwise, holes clockwise *)
Lemma oriented_sum : forall shell holes,
  (0 <= shoelace2 shell)%Z ->
  Forall (fun h => (shoelace2 h <= 0)%Z) holes ->
  zsum (map shoelace2 (shell :: holes)) =
  (Z.abs (shoelace2 shell) - zsum (map (fun h => Z.abs (shoelace2 h)) holes))%Z.
Proof.
  intros shell holes Hs Hh. cbn [map]. rewrite zsum_cons.
  assert (E : zsum (map shoelace2 holes) = (- zsum (map (fun h => Z.abs (shoelace2 h)) holes))%Z).
  { induction Hh as [|h t Hh _ IH]; [reflexivity|].
    cbn [map]. rewrite !zsum_cons, IH. lia. }
  rewrite E. lia.
Qed.

Lemma zsum_app : forall l1 l2, zsum (l1 ++ l2) = (zsum l1 + zsum l2)%Z.
Proof.
  induction l1 as [|x t IH]; intros l2; [reflexivity|].
  cbn [app]. rewrite !zsum_cons, IH. lia.
Qed.

(* multipolygon: the rings of all parts, summed = sum over the parts *)
Lemma zsum_concat : forall (parts : list (list (list pt))),
  zsum (map shoelace2 (concat parts)) =
  zsum (map (fun p => zsum (map shoelace2 p)) parts).
Proof.
  induction parts as [|p t IH]; [reflexivity|].
  cbn [concat map]. rewrite map_app, zsum_app, zsum_cons, IH. reflexivity.
Qed.

(* ================================================================== *)
(** * 3. slices of the rings of a buffer                                 *)
(* ================================================================== *)

Lemma map_seq_offset : forall A (f : nat -> A) a n,
  map f (seq a n) = map (fun i => f (a + i)) (seq 0 n).
Proof.
  intros A f a n. revert a. induction n as [|n IH]; intros a; [reflexivity|].
  cbn [seq map]. rewrite Nat.add_0_r. f_equal.
  rewrite IH. rewrite <- seq_shift, map_map.
  apply map_ext. intros i. f_equal. lia.
Qed.

Lemma slice_seq : forall a b n, b <= n -> slice a b (seq 0 n) = seq a (b - a).
Proof.
  intros a b n H. unfold slice.
  destruct (Nat.le_gt_cases a b) as [Hab|Hab].
  - replace n with (a + (n - a)) by lia. rewrite seq_app, Nat.add_0_l.
    rewrite skipn_app, seq_length, Nat.sub_diag.
    rewrite skipn_all2 by (rewrite seq_length; lia). cbn [skipn app].
    replace (n - a) with ((b - a) + (n - b)) by lia.
    rewrite seq_app, firstn_app, seq_length, Nat.sub_diag. cbn [firstn].
    rewrite app_nil_r. rewrite firstn_all2 by (rewrite seq_length; lia). reflexivity.
  - replace (b - a) with 0 by lia. reflexivity.
Qed.

Lemma slice_map : forall A B (f : A -> B) s e l, slice s e (map f l) = map f (slice s e l).
Proof. intros. unfold slice. rewrite skipn_map, firstn_map. reflexivity. Qed.

Lemma getn_slice : forall a b o i, i < b - a -> getn (slice a b o) i = getn o (a + i).
Proof. intros. unfold getn. apply nth_slice. assumption. Qed.

(* the rings delimited by offsets o[a..b] are rings a..b-1 of the buffer *)
Lemma segs_slice : forall A (vals : list A) o a b,
  a <= b -> b < length o ->
  segs vals (slice a (b + 1) o) = slice a b (segs vals o).
Proof.
  intros A vals o a b Hab Hb.
  rewrite (segs_seq _ vals o), slice_map, slice_seq by lia.
  rewrite segs_seq.
  assert (HL : length (slice a (b + 1) o) = b + 1 - a) by (apply slice_length; lia).
  rewrite HL. replace (b + 1 - a - 1) with (b - a) by lia.
  rewrite (map_seq_offset _ _ a (b - a)).
  apply map_ext_in. intros i Hi. apply in_seq in Hi.
  rewrite !getn_slice by lia. f_equal. f_equal. lia.
Qed.

Lemma all_even_slice : forall s e o, all_even o = true -> all_even (slice s e o) = true.
Proof.
  intros s e o H. unfold all_even in *. rewrite forallb_forall in *.
  intros x Hx. apply H. eapply in_slice, Hx.
Qed.

Lemma last_slice_le : forall a b o,
  mono o = true -> a <= b -> b < length o -> last (slice a (b + 1) o) 0 <= last o 0.
Proof.
  intros a b o Hm Hab Hb.
  apply mono_le_last; [exact Hm|].
  eapply in_slice. apply last_in.
  intros E. pose proof (slice_length _ a (b + 1) o ltac:(lia)) as L.
  rewrite E in L. cbn in L. lia.
Qed.

(* a kernel applied to a slice of the inner offsets sees exactly those rings *)
Lemma area_on_slice : forall vals o a b,
  mono o = true -> all_even o = true -> last o 0 <= length vals ->
  a <= b -> b < length o ->
  compute_area vals (slice a (b + 1) o) = rings_area (slice a b (segs vals o)).
Proof.
  intros vals o a b Hm Hev Hl Hab Hb.
  rewrite compute_area_rings.
  - rewrite segs_slice by assumption. reflexivity.
  - apply mono_slice, Hm.
  - apply all_even_slice, Hev.
  - pose proof (last_slice_le a b o Hm Hab Hb). lia.
Qed.

Lemma length_on_slice : forall vals o a b,
  mono o = true -> all_even o = true -> last o 0 <= length vals ->
  a <= b -> b < length o ->
  compute_line_length vals (slice a (b + 1) o) = rings_length (slice a b (segs vals o)).
Proof.
  intros vals o a b Hm Hev Hl Hab Hb.
  rewrite compute_length_rings.
  - rewrite segs_slice by assumption. reflexivity.
  - apply mono_slice, Hm.
  - apply all_even_slice, Hev.
  - pose proof (last_slice_le a b o Hm Hab Hb). lia.
Qed.
