(* Laws of the declarative winding number (Spec/Winding.v) over the real plane:
   antisymmetry / reversal, additivity, translation, zero outside the bounding
   box, axis-aligned rectangles.  None of them uses the Jordan curve theorem. *)
From Coq Require Import ZArith List Bool Arith Reals Lra Lia Psatz.
From SP Require Import Spec.PointShapeSpec Spec.Winding.
Import ListNotations.

(* ---- sums ---- *)

Lemma zsum_app : forall l1 l2, zsum (l1 ++ l2) = (zsum l1 + zsum l2)%Z.
Proof. induction l1 as [|a l1 IH]; intros l2; simpl; [reflexivity|]. rewrite IH. lia. Qed.

Lemma zsum_rev : forall l, zsum (rev l) = zsum l.
Proof.
  induction l as [|a l IH]; simpl; [reflexivity|]. rewrite zsum_app, IH. simpl. lia.
Qed.

Lemma zsum_map_opp : forall {A} (f : A -> Z) l, zsum (map (fun e => (- f e)%Z) l) = (- zsum (map f l))%Z.
Proof. intros A f l. induction l as [|a l IH]; simpl; [reflexivity|]. rewrite IH. lia. Qed.

Lemma zsum_zero : forall {A} (f : A -> Z) l, (forall e, In e l -> f e = 0%Z) -> zsum (map f l) = 0%Z.
Proof.
  intros A f l. induction l as [|a l IH]; intros H; simpl; [reflexivity|].
  rewrite (H a (or_introl eq_refl)), IH; [reflexivity|]. intros e He. apply H. now right.
Qed.

(* ---- consecutive pairs ---- *)

Lemma consec_cons2 {A} (a b : A) l : consec (a :: b :: l) = (a, b) :: consec (b :: l).
Proof. reflexivity. Qed.

Lemma consec_snoc {A} : forall (l : list A) (a b : A),
  consec ((l ++ [a]) ++ [b]) = consec (l ++ [a]) ++ [(a, b)].
Proof.
  induction l as [|c l IH]; intros a b; [reflexivity|].
  destruct l as [|c' l].
  - reflexivity.
  - change (((c :: c' :: l) ++ [a]) ++ [b]) with (c :: c' :: ((l ++ [a]) ++ [b])).
    change ((c :: c' :: l) ++ [a]) with (c :: c' :: (l ++ [a])).
    rewrite !consec_cons2.
    change (c' :: (l ++ [a]) ++ [b]) with (((c' :: l) ++ [a]) ++ [b]).
    rewrite IH. reflexivity.
Qed.

Lemma consec_rev {A} : forall (l : list A),
  consec (rev l) = map (fun e => (snd e, fst e)) (rev (consec l)).
Proof.
  intros l. destruct l as [|a l]; [reflexivity|]. revert a.
  induction l as [|b l IH]; intros a; [reflexivity|].
  rewrite consec_cons2. cbn [rev]. rewrite map_app. cbn [map rev app fst snd].
  rewrite <- IH. cbn [rev]. apply consec_snoc.
Qed.

Lemma consec_In {A} : forall (l : list A) a b, In (a, b) (consec l) -> In a l /\ In b l.
Proof.
  intros l. destruct l as [|c l]; [intros a b []|]. revert c.
  induction l as [|c' l IH]; intros c a b H; [destruct H|].
  rewrite consec_cons2 in H. destruct H as [H|H].
  - inversion H; subst. split; [now left | right; now left].
  - apply IH in H as [H1 H2]. split; now right.
Qed.

(* telescoping of differences along a vertex list *)
Lemma zsum_telescope : forall (f : rpt -> Z) (l : list rpt) d, l <> [] ->
  zsum (map (fun e => (f (snd e) - f (fst e))%Z) (consec l)) = (f (last l d) - f (hd d l))%Z.
Proof.
  intros f l d. destruct l as [|a l]; [congruence|]. intros _. revert a.
  induction l as [|b l IH]; intros a.
  - simpl. lia.
  - rewrite consec_cons2. cbn [map zsum fold_right fst snd]. fold (zsum (map (fun e => (f (snd e) - f (fst e))%Z) (consec (b :: l)))).
    rewrite IH. cbn [hd]. change (last (a :: b :: l) d) with (last (b :: l) d). lia.
Qed.

(* ---- edges ---- *)

Open Scope R_scope.

Lemma X_at_sym : forall A B y, snd A <> snd B -> X_at A B y = X_at B A y.
Proof. intros [a0 b0] [a1 b1] y H. unfold X_at; simpl in *. field. split; lra. Qed.

Lemma above_eq : forall y v w, v = w -> above y v = above y w.
Proof. intros; now subst. Qed.

Close Scope R_scope.

(* exact even when P lies on the edge *)
Lemma wn_edge_antisym : forall P A B, (wn_edge P A B + wn_edge P B A = 0)%Z.
Proof.
  intros P A B. unfold wn_edge.
  destruct (Req_dec (snd A) (snd B)) as [E|N].
  - rewrite (above_eq (snd P) _ _ E). lia.
  - unfold crosses_right. rewrite (X_at_sym A B _ N).
    destruct (Rle_dec (fst P) (X_at B A (snd P))); lia.
Qed.

(* a horizontal edge contributes nothing *)
Lemma wn_edge_horizontal : forall P A B, snd A = snd B -> wn_edge P A B = 0%Z.
Proof. intros P A B E. unfold wn_edge. rewrite (above_eq _ _ _ E). lia. Qed.

(* ---- wn_rev: a ring traversed the other way round has the opposite number ---- *)

Theorem wn_ring_rev : forall P ring, wn_ring P (rev ring) = (- wn_ring P ring)%Z.
Proof.
  intros P ring. unfold wn_ring. rewrite consec_rev, map_map. cbn [fst snd].
  rewrite <- zsum_map_opp, <- (zsum_rev (map _ (consec ring))), <- map_rev.
  f_equal. apply map_ext. intros [A B]. cbn [fst snd]. pose proof (wn_edge_antisym P A B). lia.
Qed.

Theorem wn_rev : forall P rings, wn P (map (@rev rpt) rings) = (- wn P rings)%Z.
Proof.
  intros P rings. unfold wn. rewrite map_map, <- zsum_map_opp. f_equal.
  apply map_ext. intros r. apply wn_ring_rev.
Qed.

(* "either way round": the answer does not depend on the orientation convention *)
Corollary wn_rev_nonzero : forall P rings,
  (wn P (map (@rev rpt) rings) =? 0)%Z = (wn P rings =? 0)%Z.
Proof.
  intros. rewrite wn_rev. destruct (wn P rings =? 0)%Z eqn:E.
  - apply Z.eqb_eq in E. rewrite E. reflexivity.
  - apply Z.eqb_neq in E. apply Z.eqb_neq. lia.
Qed.

(* ---- wn_app: rings add (shell + holes, parts of a multipolygon) ---- *)

Theorem wn_app : forall P r1 r2, wn P (r1 ++ r2) = (wn P r1 + wn P r2)%Z.
Proof. intros. unfold wn. now rewrite map_app, zsum_app. Qed.

Theorem wn_cons : forall P r rs, wn P (r :: rs) = (wn_ring P r + wn P rs)%Z.
Proof. reflexivity. Qed.

(* ---- wn_translate ---- *)

Definition tr (d : rpt) (V : rpt) : rpt := ((fst V + fst d)%R, (snd V + snd d)%R).

Lemma above_tr : forall y v dy, above (y + dy) (v + dy) = above y v.
Proof.
  intros. unfold above. destruct (Rle_dec (y + dy) (v + dy)), (Rle_dec y v); try reflexivity; lra.
Qed.

Lemma X_at_tr : forall d A B y,
  X_at (tr d A) (tr d B) (y + snd d) = (X_at A B y + fst d)%R.
Proof.
  intros [dx dy] [a0 b0] [a1 b1] y. unfold X_at, tr; simpl.
  replace (y + dy - (b0 + dy))%R with (y - b0)%R by ring.
  replace (a1 + dx - (a0 + dx))%R with (a1 - a0)%R by ring.
  replace (b1 + dy - (b0 + dy))%R with (b1 - b0)%R by ring.
  ring.
Qed.

Theorem wn_edge_translate : forall d P A B,
  wn_edge (tr d P) (tr d A) (tr d B) = wn_edge P A B.
Proof.
  intros d P A B. unfold wn_edge, crosses_right.
  change (snd (tr d P)) with (snd P + snd d)%R. change (snd (tr d A)) with (snd A + snd d)%R.
  change (snd (tr d B)) with (snd B + snd d)%R. change (fst (tr d P)) with (fst P + fst d)%R.
  rewrite !above_tr, X_at_tr.
  destruct (Rle_dec (fst P + fst d) (X_at A B (snd P) + fst d)),
           (Rle_dec (fst P) (X_at A B (snd P))); try reflexivity; lra.
Qed.

Theorem wn_ring_translate : forall d P ring,
  wn_ring (tr d P) (map (tr d) ring) = wn_ring P ring.
Proof.
  intros. unfold wn_ring. destruct ring as [|a l]; [reflexivity|].
  assert (H : forall l a, consec (map (tr d) (a :: l)) =
                          map (fun e => (tr d (fst e), tr d (snd e))) (consec (a :: l))).
  { clear. induction l as [|b l IH]; intros a; [reflexivity|].
    change (map (tr d) (a :: b :: l)) with (tr d a :: tr d b :: map (tr d) l).
    rewrite !consec_cons2. cbn [map fst snd]. f_equal. apply (IH b). }
  rewrite H, map_map. f_equal. apply map_ext. intros [A B]. apply wn_edge_translate.
Qed.

Theorem wn_translate : forall d P rings,
  wn (tr d P) (map (map (tr d)) rings) = wn P rings.
Proof.
  intros. unfold wn. rewrite map_map. f_equal. apply map_ext. intros r. apply wn_ring_translate.
Qed.

(* ---- where the abscissa of an edge lies ---- *)

Open Scope R_scope.

Lemma X_at_between : forall a0 b0 a1 b1 y lo hi,
  (b0 < y <= b1 \/ b1 < y <= b0) -> lo <= a0 <= hi -> lo <= a1 <= hi ->
  lo <= X_at (a0, b0) (a1, b1) y <= hi.
Proof.
  intros a0 b0 a1 b1 y lo hi Hy H0 H1. unfold X_at; simpl.
  set (t := (y - b0) / (b1 - b0)).
  assert (Hne : b1 - b0 <> 0) by lra.
  assert (Ht : t * (b1 - b0) = y - b0) by (unfold t; field; lra).
  assert (Ht01 : 0 <= t <= 1) by (destruct Hy; split; nra).
  replace (a0 + (y - b0) * (a1 - a0) / (b1 - b0)) with (a0 + t * (a1 - a0))
    by (unfold t; field; lra).
  split; nra.
Qed.

Lemma above_diff_cases : forall y b0 b1,
  (above y b1 - above y b0)%Z <> 0%Z -> (b0 < y <= b1 \/ b1 < y <= b0).
Proof.
  intros y b0 b1. unfold above. destruct (Rle_dec y b1), (Rle_dec y b0); intros H; try lia.
  - left. lra.
  - right. lra.
Qed.

Close Scope R_scope.

(* an edge entirely left of P contributes nothing *)
Lemma wn_edge_left_of : forall P A B,
  (fst A < fst P)%R -> (fst B < fst P)%R -> wn_edge P A B = 0%Z.
Proof.
  intros [x y] [a0 b0] [a1 b1] HA HB. unfold wn_edge. cbn [fst snd] in *.
  destruct (Z.eq_dec (above y b1 - above y b0) 0) as [E|N]; [rewrite E; lia|].
  apply above_diff_cases in N. unfold crosses_right. cbn [fst snd].
  destruct (Rle_dec x (X_at (a0, b0) (a1, b1) y)) as [H|H]; [|lia].
  exfalso. destruct (Rle_dec a0 a1).
  - pose proof (X_at_between a0 b0 a1 b1 y a0 a1 N ltac:(lra) ltac:(lra)). lra.
  - pose proof (X_at_between a0 b0 a1 b1 y a1 a0 N ltac:(lra) ltac:(lra)). lra.
Qed.

(* an edge entirely right of (or at) P contributes its crossing sign *)
Lemma wn_edge_right_of : forall P A B,
  (fst P <= fst A)%R -> (fst P <= fst B)%R ->
  wn_edge P A B = (above (snd P) (snd B) - above (snd P) (snd A))%Z.
Proof.
  intros [x y] [a0 b0] [a1 b1] HA HB. unfold wn_edge. cbn [fst snd] in *.
  destruct (Z.eq_dec (above y b1 - above y b0) 0) as [E|N]; [rewrite E; lia|].
  apply above_diff_cases in N. unfold crosses_right. cbn [fst snd].
  destruct (Rle_dec x (X_at (a0, b0) (a1, b1) y)) as [H|H]; [lia|].
  exfalso. destruct (Rle_dec a0 a1).
  - pose proof (X_at_between a0 b0 a1 b1 y a0 a1 N ltac:(lra) ltac:(lra)). lra.
  - pose proof (X_at_between a0 b0 a1 b1 y a1 a0 N ltac:(lra) ltac:(lra)). lra.
Qed.

Lemma wn_edge_same_side : forall P A B,
  above (snd P) (snd A) = above (snd P) (snd B) -> wn_edge P A B = 0%Z.
Proof. intros P A B E. unfold wn_edge. rewrite E. lia. Qed.

(* ---- wn_outside_bbox ---- *)

Definition all_vertices (rings : list (list rpt)) : list rpt := concat rings.

Definition closed (ring : list rpt) : Prop := ring <> [] -> hd (0%R, 0%R) ring = last ring (0%R, 0%R).

Lemma wn_ring_zero_if_edges_zero : forall P ring,
  (forall A B, In A ring -> In B ring -> wn_edge P A B = 0%Z) -> wn_ring P ring = 0%Z.
Proof.
  intros P ring H. unfold wn_ring. apply zsum_zero. intros [A B] Hin.
  apply consec_In in Hin as [HA HB]. cbn [fst snd]. now apply H.
Qed.

(* P strictly right of, above or below every vertex: every edge contributes 0 *)
Lemma wn_ring_right_of : forall P ring,
  Forall (fun V => (fst V < fst P)%R) ring -> wn_ring P ring = 0%Z.
Proof.
  intros P ring H. rewrite Forall_forall in H. apply wn_ring_zero_if_edges_zero.
  intros A B HA HB. apply wn_edge_left_of; now apply H.
Qed.

Lemma wn_ring_above : forall P ring,
  Forall (fun V => (snd V < snd P)%R) ring -> wn_ring P ring = 0%Z.
Proof.
  intros P ring H. rewrite Forall_forall in H. apply wn_ring_zero_if_edges_zero.
  intros A B HA HB. apply wn_edge_same_side. unfold above.
  pose proof (H A HA). pose proof (H B HB).
  destruct (Rle_dec (snd P) (snd A)), (Rle_dec (snd P) (snd B)); try reflexivity; lra.
Qed.

Lemma wn_ring_below : forall P ring,
  Forall (fun V => (snd P < snd V)%R) ring -> wn_ring P ring = 0%Z.
Proof.
  intros P ring H. rewrite Forall_forall in H. apply wn_ring_zero_if_edges_zero.
  intros A B HA HB. apply wn_edge_same_side. unfold above.
  pose proof (H A HA). pose proof (H B HB).
  destruct (Rle_dec (snd P) (snd A)), (Rle_dec (snd P) (snd B)); try reflexivity; lra.
Qed.

(* P strictly left of every vertex: every edge counts with its sign, and the
   signs telescope to zero around a closed ring *)
Lemma wn_ring_left_of : forall P ring, closed ring ->
  Forall (fun V => (fst P < fst V)%R) ring -> wn_ring P ring = 0%Z.
Proof.
  intros P ring Hc H. rewrite Forall_forall in H. unfold wn_ring.
  destruct ring as [|a l]; [reflexivity|].
  rewrite (map_ext_in _ (fun e : rpt * rpt => (above (snd P) (snd (snd e)) - above (snd P) (snd (fst e)))%Z)).
  - rewrite (zsum_telescope (fun V => above (snd P) (snd V)) (a :: l) (0%R, 0%R)) by discriminate.
    rewrite <- Hc by discriminate. apply Z.sub_diag.
  - intros [A B] Hin. apply consec_In in Hin as [HA HB]. cbn [fst snd].
    apply wn_edge_right_of; left; now apply H.
Qed.

Definition outside_bbox (P : rpt) (vs : list rpt) : Prop :=
  Forall (fun V => (fst V < fst P)%R) vs \/ Forall (fun V => (fst P < fst V)%R) vs \/
  Forall (fun V => (snd V < snd P)%R) vs \/ Forall (fun V => (snd P < snd V)%R) vs.

Lemma Forall_concat_in {A} (Q : A -> Prop) (ls : list (list A)) l :
  Forall Q (concat ls) -> In l ls -> Forall Q l.
Proof.
  intros H Hin. rewrite Forall_forall in *. intros x Hx. apply H.
  apply in_concat. exists l. now split.
Qed.

Theorem wn_outside_bbox : forall P rings,
  Forall closed rings -> outside_bbox P (all_vertices rings) -> wn P rings = 0%Z.
Proof.
  intros P rings Hc Hout. unfold wn. apply zsum_zero. intros r Hr.
  rewrite Forall_forall in Hc. unfold all_vertices in Hout.
  destruct Hout as [H|[H|[H|H]]].
  - apply wn_ring_right_of. eapply Forall_concat_in; eassumption.
  - apply wn_ring_left_of; [now apply Hc|]. eapply Forall_concat_in; eassumption.
  - apply wn_ring_above. eapply Forall_concat_in; eassumption.
  - apply wn_ring_below. eapply Forall_concat_in; eassumption.
Qed.
