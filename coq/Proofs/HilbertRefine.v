(* C07: the curves of successive orders refine each other (every p, every n):
   dropping the last n bits of the order-(p+1) distance of a cell gives the
   order-p distance of its parent cell.  Lock-step simulation of the two runs
   of distance_from_coordinate under the invariant  coord' >> 1 = coord. *)
From Coq Require Import NArith List Bool Arith Lia.
From SP Require Import Model.Hilbert Spec.Curve Proofs.HilbertLists Proofs.HilbertExcess
     Proofs.HilbertGray Proofs.HilbertTranspose Proofs.HilbertRoundtrip.
Import ListNotations.
Local Open Scope N_scope.

Definition halve (c : list N) : list N := map (fun x => N.shiftr x 1) c.

Lemma halve_length : forall c, length (halve c) = length c.
Proof. intros. apply map_length. Qed.

Lemma getc_halve : forall c i, getc (halve c) i = N.shiftr (getc c i) 1.
Proof.
  intros. unfold getc, halve.
  change 0 with ((fun x => N.shiftr x 1) 0) at 1. apply map_nth.
Qed.

Lemma halve_setc : forall c i v, halve (setc c i v) = setc (halve c) i (N.shiftr v 1).
Proof.
  induction c as [|x c IH]; intros [|i] v; simpl; auto. f_equal. apply IH.
Qed.

Lemma shiftr1_ones : forall k, N.shiftr (2 ^ N.of_nat (S k) - 1) 1 = 2 ^ N.of_nat k - 1.
Proof.
  intros k.
  replace (2 ^ N.of_nat (S k) - 1) with (N.ones (N.of_nat (S k))) by (rewrite N.ones_equiv; lia).
  replace (2 ^ N.of_nat k - 1) with (N.ones (N.of_nat k)) by (rewrite N.ones_equiv; lia).
  apply N.bits_inj. intro m. rewrite N.shiftr_spec'.
  destruct (N.lt_ge_cases m (N.of_nat k)) as [H|H].
  - rewrite !N.ones_spec_low by lia. reflexivity.
  - rewrite !N.ones_spec_high by lia. reflexivity.
Qed.

Lemma truthy_shift : forall x k,
    truthy (N.land x (2 ^ N.of_nat (S k))) = truthy (N.land (N.shiftr x 1) (2 ^ N.of_nat k)).
Proof.
  intros. rewrite !truthy_land_pow2, N.shiftr_spec'. f_equal. lia.
Qed.

(* ---- one step, one level, the whole loop -------------------------------- *)
Lemma excess_step_halve : forall k c i,
    halve (excess_step (2 ^ N.of_nat (S k)) (2 ^ N.of_nat (S k) - 1) c i)
    = excess_step (2 ^ N.of_nat k) (2 ^ N.of_nat k - 1) (halve c) i.
Proof.
  intros k c i. unfold excess_step.
  rewrite !getc_halve, <- truthy_shift.
  destruct (truthy _).
  - now rewrite halve_setc, N.shiftr_lxor, shiftr1_ones.
  - rewrite !halve_setc. rewrite !N.shiftr_lxor, !N.shiftr_land, !N.shiftr_lxor, shiftr1_ones.
    rewrite <- (getc_halve (setc c 0 _) i), halve_setc.
    rewrite !N.shiftr_lxor, !N.shiftr_land, !N.shiftr_lxor, shiftr1_ones. reflexivity.
Qed.

Lemma fold_sim : forall {A B} (h : A -> B) (f' : A -> nat -> A) (f : B -> nat -> B) (s : nat -> nat) l,
    (forall a i, h (f' a (s i)) = f (h a) i) ->
    forall a, h (fold_left f' (map s l) a) = fold_left f l (h a).
Proof.
  intros A B h f' f s l H. induction l as [|i r IH]; intros a; simpl; auto.
  rewrite IH, H. reflexivity.
Qed.

Lemma level_up_halve : forall n k c, halve (level_up n c (S k)) = level_up n (halve c) k.
Proof.
  intros n k c. unfold level_up. cbv zeta.
  rewrite <- (map_id (seq 0 n)) at 1.
  apply (fold_sim halve _ _ (fun i => i)). intros a i. apply excess_step_halve.
Qed.

(* the lowest level only touches bit 0 *)
Lemma excess_step_low : forall c i, halve (excess_step 2 1 c i) = halve c.
Proof.
  intros c i. unfold excess_step. destruct (truthy _).
  - rewrite halve_setc, N.shiftr_lxor. change (N.shiftr 1 1) with 0.
    rewrite N.lxor_0_r, <- getc_halve. apply setc_getc_id.
  - rewrite !halve_setc, !N.shiftr_lxor, !N.shiftr_land. change (N.shiftr 1 1) with 0.
    rewrite !N.land_0_r, !N.lxor_0_r.
    rewrite <- (getc_halve c 0), setc_getc_id.
    rewrite <- (getc_halve (setc c 0 _) i), halve_setc, N.shiftr_lxor, N.shiftr_land.
    change (N.shiftr 1 1) with 0.
    rewrite N.land_0_r, N.lxor_0_r, <- getc_halve, setc_getc_id. apply setc_getc_id.
Qed.

Lemma level_up_low : forall n c, halve (level_up n c 1) = halve c.
Proof.
  intros n c. unfold level_up. cbv zeta. change (2 ^ N.of_nat 1) with 2. change (2 - 1) with 1.
  generalize (seq 0 n) as l. intro l. revert c.
  induction l as [|i r IH]; intros c; simpl; auto. now rewrite IH, excess_step_low.
Qed.

Lemma seq_shift1 : forall m, seq 1 (S m) = 1%nat :: map S (seq 1 m).
Proof. intros. cbn [seq]. f_equal. now rewrite <- seq_shift. Qed.

Lemma inverse_undo_halve : forall p n c, (1 <= p)%nat ->
    halve (inverse_undo (S p) n c) = inverse_undo p n (halve c).
Proof.
  intros p n c Hp. rewrite !inverse_undo_eq by lia.
  replace (S p - 1)%nat with (S (p - 1)) by lia.
  rewrite seq_shift1. cbn [rev]. rewrite fold_left_app. cbn [fold_left].
  rewrite level_up_low, <- map_rev.
  apply (fold_sim halve _ _ S). intros a k. apply level_up_halve.
Qed.

(* ---- Gray encode --------------------------------------------------------- *)
Lemma halve_prefx : forall l acc, halve (prefx acc l) = prefx (N.shiftr acc 1) (halve l).
Proof.
  induction l as [|x r IH]; intros acc; [reflexivity|]. cbn [prefx halve map].
  fold (halve r). fold (halve (prefx (N.lxor x acc) r)). now rewrite IH, N.shiftr_lxor.
Qed.

Lemma halve_map_xor : forall l t,
    halve (map (fun x => N.lxor x t) l) = map (fun x => N.lxor x (N.shiftr t 1)) (halve l).
Proof.
  induction l as [|x r IH]; intros t; [reflexivity|]. cbn [halve map].
  fold (halve r). fold (halve (map (fun x => N.lxor x t) r)). now rewrite IH, N.shiftr_lxor.
Qed.

Lemma xb_halve : forall g q j, xb g (j + 1) (S q) = xb (N.shiftr g 1) j q.
Proof.
  induction q as [|q IH]; intros j.
  - cbn [xb]. destruct (N.ltb_spec (j + 1) (N.of_nat 1)); [lia|reflexivity].
  - cbn [xb] in *. rewrite IH. f_equal. rewrite N.shiftr_spec'.
    replace (N.of_nat (S q) + 1) with (N.of_nat (S (S q))) by lia.
    f_equal.
    destruct (N.ltb_spec (j + 1) (N.of_nat (S (S q)))), (N.ltb_spec j (N.of_nat (S q))); lia.
Qed.

Lemma Tk_halve : forall g q, N.shiftr (Tk g (S q)) 1 = Tk (N.shiftr g 1) q.
Proof.
  intros. apply N.bits_inj. intro j. rewrite N.shiftr_spec', !Tk_testbit. apply xb_halve.
Qed.

Lemma gray_encode_halve : forall p n c, (1 <= p)%nat -> (1 <= n)%nat -> length c = n ->
    halve (gray_encode (S p) n (Mof (S p)) c) = gray_encode p n (Mof p) (halve c).
Proof.
  intros p n c Hp Hn Hlen.
  destruct c as [|a rest]; [simpl in Hlen; lia|]. cbn [length] in Hlen. subst n.
  rewrite gray_encode_cons. cbv zeta.
  set (s := a :: prefx a rest).
  rewrite halve_map_xor.
  change (halve (a :: rest)) with (N.shiftr a 1 :: halve rest).
  replace (S (length rest)) with (S (length (halve rest))) by (now rewrite halve_length).
  rewrite gray_encode_cons. cbv zeta. rewrite halve_length.
  assert (Hs : halve s = N.shiftr a 1 :: prefx (N.shiftr a 1) (halve rest)).
  { unfold s. change (halve (a :: prefx a rest)) with (N.shiftr a 1 :: halve (prefx a rest)).
    now rewrite halve_prefx. }
  rewrite <- Hs.
  rewrite !Mof_pow2, !gray_t_loop_spec by lia. rewrite !N.lxor_0_l.
  replace (S p - 1)%nat with (S (p - 1)) by lia.
  now rewrite Tk_halve, <- getc_halve.
Qed.

(* ---- bit interleave ------------------------------------------------------ *)
Lemma valL_app : forall a b, valL (a ++ b) = valL a + 2 ^ N.of_nat (length a) * valL b.
Proof.
  induction a as [|x a IH]; intros b.
  - cbn [app valL length]. change (N.of_nat 0) with 0. rewrite N.pow_0_r. lia.
  - cbn [app valL length]. rewrite IH, Nat2N.inj_succ, N.pow_succ_r'. lia.
Qed.

Lemma i2b_succ : forall v p, int_2_binary v (S p) = int_2_binary (N.shiftr v 1) p ++ [v mod 2].
Proof. intros. rewrite !int_2_binary_eq. reflexivity. Qed.

Lemma flat_map_ext_seq : forall (f g : nat -> list N) p,
    (forall i, (i < p)%nat -> f i = g i) -> flat_map f (seq 0 p) = flat_map g (seq 0 p).
Proof.
  intros f g p H. induction p as [|p IH]; [reflexivity|].
  rewrite seq_S, !flat_map_app. cbn [flat_map plus]. rewrite IH, H by (intros; auto with arith).
  reflexivity.
Qed.

Lemma t2h_halve : forall p c,
    N.shiftr (transpose_to_hilbert_integer (S p) c) (N.of_nat (length c))
    = transpose_to_hilbert_integer p (halve c).
Proof.
  intros p c. unfold transpose_to_hilbert_integer. cbv zeta.
  set (bins' := map (fun v => int_2_binary v (S p)) c).
  set (bins := map (fun v => int_2_binary v p) (halve c)).
  rewrite seq_S, flat_map_app. cbn [flat_map plus]. rewrite app_nil_r.
  assert (Hrows : flat_map (fun i => map (fun b : list N => nth i b 0) bins') (seq 0 p)
                  = flat_map (fun i => map (fun b : list N => nth i b 0) bins) (seq 0 p)).
  { apply flat_map_ext_seq. intros i Hi. unfold bins, bins', halve. rewrite !map_map.
    apply map_ext. intro v. rewrite i2b_succ, app_nth1 by (now rewrite i2b_length). reflexivity. }
  assert (Hlast : map (fun b : list N => nth p b 0) bins' = map (fun v => v mod 2) c).
  { unfold bins'. rewrite map_map. apply map_ext. intro v.
    rewrite i2b_succ, app_nth2 by (rewrite i2b_length; lia).
    now rewrite i2b_length, Nat.sub_diag. }
  rewrite Hrows, Hlast.
  set (A := flat_map _ (seq 0 p)). set (R := map (fun v => v mod 2) c).
  rewrite !binary_2_int_eq, rev_app_distr, valL_app, rev_length.
  assert (HR : length R = length c) by apply map_length.
  assert (Hlt : valL (rev R) < 2 ^ N.of_nat (length c)).
  { rewrite <- HR, <- rev_length. apply valL_lt. apply Forall_rev. unfold R.
    apply Forall_forall. intros x Hx. apply in_map_iff in Hx. destruct Hx as [v [<- _]].
    unfold isbit. apply N.mod_lt. lia. }
  rewrite HR, N.shiftr_div_pow2.
  assert (Hnz : 2 ^ N.of_nat (length c) <> 0) by (apply N.pow_nonzero; lia).
  rewrite N.add_comm, N.mul_comm, N.div_add_l by assumption.
  rewrite N.div_small by assumption. lia.
Qed.

(* ---- the theorem --------------------------------------------------------- *)
Theorem refinement : forall p n c, hilbert_guard (S p) n -> (1 <= p)%nat -> length c = n ->
    N.shiftr (distance_from_coordinate (S p) c) (N.of_nat n)
    = distance_from_coordinate p (map (fun x => N.shiftr x 1) c).
Proof.
  intros p n c (_ & Hn & _) Hp Hlen. fold (halve c).
  unfold distance_from_coordinate. rewrite !dfc_state_unfold, halve_length, Hlen.
  assert (Hl : length (gray_encode (S p) n (Mof (S p)) (inverse_undo (S p) n c)) = n).
  { apply gray_encode_length; [assumption|]. rewrite inverse_undo_length by lia. assumption. }
  pose proof (t2h_halve p (gray_encode (S p) n (Mof (S p)) (inverse_undo (S p) n c))) as Ht.
  rewrite Hl in Ht. rewrite Ht. clear Ht.
  rewrite gray_encode_halve; [|assumption|assumption|rewrite inverse_undo_length by lia; assumption].
  now rewrite inverse_undo_halve.
Qed.
