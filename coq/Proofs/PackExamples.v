(* Closed instances, decided by computation inside the kernel: the setup "M" of
   harness/c19.py (5 rows with duplicate keys, inputs [0:2] and [2:5], npartitions = 4,
   assignment [[0;3];[0;2;3]]: two outputs fed by two sub-parts, output 1 empty in front of
   the non-empty outputs 2 and 3, so compaction moves 2 -> 1 and 3 -> 2), started over a
   prior dataset with debris and overwrite=True, in the three temp-directory modes. *)
From Coq Require Import ZArith List Bool Arith String Permutation.
From SP Require Import Harness Model.FS Model.PackFS Model.Retry Spec.PackSpec.
Import ListNotations.
Local Open Scope string_scope.
Local Open Scope list_scope.

Definition ds : path := [NStr "ds"].

Definition priorM : fs :=
  [ ([NStr "keep"], Dir);
    ([NStr "keep"; NStr "other.bin"], File (COpaque 5));
    (ds, Dir);
    (ds ++ [NPart 0], File (COpaque 11));
    (ds ++ [NPart 1], File (COpaque 12));
    (ds ++ [NMeta], File (COpaque 13));
    (ds ++ [NCommon], File (COpaque 14));
    (ds ++ [NPart 3], Dir);
    (ds ++ [NPart 3; NSub 0], File (COpaque 15));
    (ds ++ [NStr "notes.txt"], File (COpaque 7)) ].

Definition asgM : assignment := [[0; 3]; [0; 2; 3]].

Definition cfgM (tm : tmpmode) : config :=
  {| c_path := ds; c_k := 4; c_tmp := tm; c_overwrite := true;
     c_iorder := [1; 0]; c_corder := [3; 2; 1; 0] |}.

Definition uuid_parent : path := [NStr "tmp"; NStr "5eed0000-0000-4000-8000-000000000001"].

Definition partsM : list (list cell) := [[(0, 0); (1, 0)]; [(1, 2)]; [(0, 3); (1, 3)]].

Definition datasetM : fs :=
  [ (ds, Dir);
    (ds ++ [NPart 0], File (CRows [(0, 0); (1, 0)]));
    (ds ++ [NPart 1], File (CRows [(1, 2)]));
    (ds ++ [NPart 2], File (CRows [(0, 3); (1, 3)]));
    (ds ++ [NMeta], File (CMeta partsM));
    (ds ++ [NCommon], File (CCommon partsM)) ].

Definition keepM : fs :=
  [ ([NStr "keep"], Dir); ([NStr "keep"; NStr "other.bin"], File (COpaque 5)) ].

Definition final_is (r : outcome fs (list (list cell))) (expect : fs) : bool :=
  match r with
  | OK parts f1 => fs_eqb f1 expect && list_eqb cells_eqb parts partsM && wf_fs_b f1
  | Err _ => false
  end.

(* non-vacuity of C10: the fault-free runs of setup M *)
Lemma packM_inside : final_is (pack priorM (cfgM TInside) asgM) (keepM ++ datasetM) = true.
Proof. vm_compute. reflexivity. Qed.

Lemma packM_flat : final_is (pack priorM (cfgM (TExternal [])) asgM) (keepM ++ datasetM) = true.
Proof. vm_compute. reflexivity. Qed.

(* with the {uuid} directory above the per-partition leaf, tmp/ and tmp/<uuid>/ stay behind *)
Lemma packM_uuid :
  final_is (pack priorM (cfgM (TExternal uuid_parent)) asgM)
           (keepM ++ datasetM ++ [([NStr "tmp"], Dir); (uuid_parent, Dir)]) = true.
Proof. vm_compute. reflexivity. Qed.

(* "no temporary directories outside the dataset" is false for that format: a path that did
   not exist before the call exists after it, outside the dataset *)
Lemma uuid_parent_left :
  exists f0 cfg asg parts f1 q,
    pack f0 cfg asg = OK parts f1 /\
    is_prefix (c_path cfg) q = false /\
    node_at f0 q = None /\ node_at f1 q = Some Dir.
Proof.
  exists priorM, (cfgM (TExternal uuid_parent)), asgM.
  destruct (pack priorM (cfgM (TExternal uuid_parent)) asgM) as [parts f1|f1] eqn:E.
  - exists parts, f1, uuid_parent. split; [reflexivity|].
    revert E. vm_compute. intro E. injection E as _ E2. subst f1. repeat split; reflexivity.
  - exfalso. revert E. vm_compute. discriminate.
Qed.

(* ------------------------------------------------------------------ faults on setup M *)
Definition outcome_ok (K : nat) (sched : list (option fault)) (tm : tmpmode) : bool :=
  match pack priorM (cfgM tm) asgM, packF K sched priorM (cfgM tm) asgM with
  | OK parts f1, OK parts' s => fs_eqb (st_fs s) f1 && list_eqb cells_eqb parts' parts
  | OK _ _, Err _ => true
  | Err _, _ => false
  end.

Definition single (pos : nat) (ft : fault) : list (option fault) :=
  repeat None pos ++ [Some ft].

Definition all_kinds : list fault :=
  [FRaise; FNotFound; FAfter; FPartial 0; FPartial 1; FStale 0; FStale 1; FLie].

(* every single fault of every kind -- including a lying existence check -- at every one of
   the first 130 filesystem calls (the fault-free run makes 75 of them) of setup M,
   retry budget 3: the call raises or leaves exactly the fault-free tree and parts *)
Lemma single_faults_M_inside :
  forallb (fun pos => forallb (fun ft => outcome_ok 3 (single pos ft) TInside) all_kinds)
          (seq 0 130) = true.
Proof. vm_compute. reflexivity. Qed.

Lemma single_faults_M_flat :
  forallb (fun pos => forallb (fun ft => outcome_ok 3 (single pos ft) (TExternal [])) all_kinds)
          (seq 0 130) = true.
Proof. vm_compute. reflexivity. Qed.

Lemma single_faults_M_uuid :
  forallb (fun pos => forallb (fun ft => outcome_ok 3 (single pos ft) (TExternal uuid_parent)) all_kinds)
          (seq 0 130) = true.
Proof. vm_compute. reflexivity. Qed.

(* a fault of any kind persisting over the first r = 2, 3, 4 attempts of the call at each
   position cannot be expressed positionally in general; what can: the same fault at two
   consecutive calls, every kind, every position *)
Definition double (pos : nat) (ft : fault) : list (option fault) :=
  repeat None pos ++ [Some ft; Some ft].

Lemma double_faults_M_flat_nolie :
  forallb (fun pos => forallb (fun ft => outcome_ok 3 (double pos ft) (TExternal []))
                              [FRaise; FNotFound; FAfter; FPartial 0; FStale 0])
          (seq 0 130) = true.
Proof. vm_compute. reflexivity. Qed.

(* Two faults that together defeat rm_retry even after its repair: an injected
   FileNotFoundError at rm (taken for "already gone") followed by a lying existence check.
   Over a prior tree whose debris does not collide with the new part directories the call
   returns normally and the debris is still inside the dataset. *)
Definition priorJ : fs :=
  [ (ds, Dir);
    (ds ++ [NPart 9], File (COpaque 12));
    (ds ++ [NStr "notes.txt"], File (COpaque 7)) ].

Definition lie_pair_sched : list (option fault) := [Some FNotFound; Some FLie].

Lemma lie_pair_defeats_rm_retry :
  exists parts f1 parts' s,
    pack priorJ (cfgM (TExternal [])) asgM = OK parts f1 /\
    packF 3 lie_pair_sched priorJ (cfgM (TExternal [])) asgM = OK parts' s /\
    node_at f1 (ds ++ [NStr "notes.txt"]) = None /\
    node_at (st_fs s) (ds ++ [NStr "notes.txt"]) = Some (File (COpaque 7)).
Proof.
  destruct (pack priorJ (cfgM (TExternal [])) asgM) as [parts f1|f1] eqn:E1;
    [|exfalso; revert E1; vm_compute; discriminate].
  destruct (packF 3 lie_pair_sched priorJ (cfgM (TExternal [])) asgM) as [parts' s|s] eqn:E2;
    [|exfalso; revert E2; vm_compute; discriminate].
  exists parts, f1, parts', s. split; [reflexivity|]. split; [reflexivity|].
  revert E1 E2. vm_compute. intros E1 E2.
  injection E1 as _ E1. injection E2 as _ E2. subst f1 s. split; reflexivity.
Qed.

(* ------------------------------------------------------------------ non-vacuity of C10_layout *)
(* the premises of the general theorem hold for setup M in the default and the flat
   external mode (prior dataset with debris, overwrite) *)
Lemma premises_M_inside :
  prior_ok priorM (cfgM TInside) /\ tmp_separate (cfgM TInside) /\ wf_asg 4 asgM /\
  wf_orders (cfgM TInside) asgM /\ nonempty_outputs 4 asgM <> [].
Proof.
  split; [|split; [exact I|split; [|split; [|discriminate]]]].
  - unfold prior_ok. simpl. split; [reflexivity|]. split; [discriminate|].
    split; [intros q H; destruct q; discriminate|].
    split; [discriminate|]. split; [exact I|discriminate].
  - intros outs N Ho HN. simpl in Ho.
    destruct Ho as [<-|[<-|[]]]; simpl in HN; repeat (destruct HN as [<-|HN]; [repeat constructor|]); contradiction.
  - split; simpl.
    + apply perm_swap.
    + apply Permutation_sym. apply (Permutation_rev [0; 1; 2; 3]).
Qed.

Lemma premises_M_flat :
  prior_ok priorM (cfgM (TExternal [])) /\ tmp_separate (cfgM (TExternal [])) /\ wf_asg 4 asgM /\
  wf_orders (cfgM (TExternal [])) asgM /\ nonempty_outputs 4 asgM <> [].
Proof.
  destruct premises_M_inside as (_ & _ & Ha & Ho & Hn).
  split; [|split; [|split; [exact Ha|split; [exact Ho|exact Hn]]]].
  - unfold prior_ok. simpl. split; [reflexivity|]. split; [discriminate|].
    split; [intros q H; destruct q; discriminate|].
    split; [discriminate|]. split; [|discriminate]. split.
    + intros q H. destruct q; discriminate.
    + intros N q H. destruct q as [|a q]; [discriminate|].
      unfold is_prefix in H. simpl in H. destruct a; try discriminate. reflexivity.
  - simpl. split; [reflexivity|]. intro N. reflexivity.
Qed.

(* ------------------------------------------------------------------ recovery after an aborted run *)
(* With a retry budget of ONE attempt every single fault aborts the run at that point, leaving
   whatever the interrupted call left.  From every such aborted tree (every position, every
   fault kind incl. partial effects) a fault-free repeat with overwrite=True ends in exactly
   the fault-free tree: nothing of the aborted run survives, inside or outside the dataset. *)
Definition recover_ok (K : nat) (sched : list (option fault)) (tm : tmpmode) : bool :=
  match packF K sched priorM (cfgM tm) asgM with
  | Err s => final_is (pack (st_fs s) (cfgM tm) asgM) (keepM ++ datasetM)
  | OK _ _ => true
  end.

Definition aborts (K : nat) (sched : list (option fault)) (tm : tmpmode) : bool :=
  match packF K sched priorM (cfgM tm) asgM with Err _ => true | OK _ _ => false end.

Lemma recover_M_inside :
  forallb (fun pos => forallb (fun ft => recover_ok 1 (single pos ft) TInside) all_kinds) (seq 0 130) = true.
Proof. vm_compute. reflexivity. Qed.

Lemma recover_M_flat :
  forallb (fun pos => forallb (fun ft => recover_ok 1 (single pos ft) (TExternal [])) all_kinds) (seq 0 130) = true.
Proof. vm_compute. reflexivity. Qed.

(* and these runs do abort: at every one of the 75 calls a raising fault ends the run *)
Lemma aborts_M :
  forallb (fun pos => aborts 1 (single pos FRaise) TInside) (seq 0 75) = true /\
  forallb (fun pos => aborts 1 (single pos FRaise) (TExternal [])) (seq 0 75) = true.
Proof. split; vm_compute; reflexivity. Qed.
