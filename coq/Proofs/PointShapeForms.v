(* The three forms agree: array form = array form at positions = scalar form of
   every non-missing element; a missing element answers False. *)
From Coq Require Import ZArith List Bool Arith Lia.
From SP Require Import Model.Num Model.Arrow Model.PointKernels Model.PointShape
                       Proofs.PointShapeBasics Proofs.PointShapeLine.
Import ListNotations.

(* ---- out_map ---- *)

Lemma out_map_Value {A B} (h : A -> B) (l : list A) :
  out_map (fun j => Value (h j)) l = Value (map h l).
Proof. induction l as [|a l IH]; simpl; [reflexivity|]. now rewrite IH. Qed.

Lemma out_map_inv {A B} (f : A -> outcome B) (l : list A) (r : list B) :
  out_map f l = Value r ->
  length r = length l /\
  forall k da db, (k < length l)%nat -> f (nth k l da) = Value (nth k r db).
Proof.
  revert r. induction l as [|a l IH]; simpl; intros r H.
  - inversion H; subst. split; [reflexivity|]. intros; lia.
  - destruct (f a) as [v|] eqn:Ea; [|discriminate].
    destruct (out_map f l) as [r'|] eqn:El; [|discriminate].
    inversion H; subst. destruct (IH r' eq_refl) as [Hlen Hnth]. split; [simpl; now rewrite Hlen|].
    intros [|k] da db Hk; simpl; [assumption|]. apply Hnth. lia.
Qed.

Lemma out_map_pointwise {A B} (f : A -> outcome B) (g : A -> B) (l : list A) :
  (forall j, In j l -> f j = Value (g j)) -> out_map f l = Value (map g l).
Proof.
  induction l as [|a l IH]; simpl; intros H; [reflexivity|].
  rewrite (H a (or_introl eq_refl)), IH; [reflexivity|]. intros j Hj. apply H. now right.
Qed.

(* ---- mask_missing ---- *)

Lemma existsb_id_false : forall l i, existsb (fun b : bool => b) l = false -> nth i l false = false.
Proof.
  induction l as [|b l IH]; intros i H; simpl in *; [now destruct i|].
  apply orb_false_iff in H as [-> H]. destruct i; [reflexivity | now apply IH].
Qed.

Lemma nth_map_seq {B} (g : nat -> B) n i d : (i < n)%nat -> nth i (map g (seq 0 n)) d = g i.
Proof.
  intros H. rewrite nth_indep with (d' := g 0%nat) by (now rewrite map_length, seq_length).
  now rewrite map_nth, seq_nth.
Qed.

Lemma map_nth_seq : forall (l : list bool), l = map (fun i => nth i l false) (seq 0 (length l)).
Proof.
  intros l. apply nth_ext with (d := false) (d' := false).
  - now rewrite map_length, seq_length.
  - intros k Hk. now rewrite nth_map_seq.
Qed.

Definition masked (isna raw : list bool) (i : nat) : bool :=
  nth i raw false && negb (nth i isna false).

Lemma mask_none : forall isna raw, length raw = length isna ->
  mask_missing isna None raw = map (masked isna raw) (seq 0 (length raw)).
Proof.
  intros isna raw Hlen. unfold mask_missing.
  destruct (existsb (fun b => b) isna) eqn:E.
  - apply nth_ext with (d := false) (d' := false).
    + now rewrite !map_length, combine_length, seq_length, Hlen, Nat.min_id.
    + intros k Hk. rewrite map_length, combine_length, <- Hlen, Nat.min_id in Hk.
      rewrite nth_map_seq by assumption.
      change false with ((fun '(r, na) => r && negb na) (false, false)) at 1.
      rewrite map_nth, combine_nth by assumption. reflexivity.
  - rewrite (map_nth_seq raw) at 1. apply map_ext. intros i. unfold masked.
    now rewrite (existsb_id_false _ _ E), andb_true_r.
Qed.

Lemma mask_some : forall isna raw l,
  mask_missing isna (Some l) (map (fun j => nth j raw false) l) = map (masked isna raw) l.
Proof.
  intros isna raw l. unfold mask_missing.
  destruct (existsb (fun b => b) isna) eqn:E.
  - induction l as [|j l IH]; simpl; [reflexivity|]. now rewrite IH.
  - apply map_ext. intros j. unfold masked. now rewrite (existsb_id_false _ _ E), andb_true_r.
Qed.

(* ---- what the slots of a well-formed point array hold ---- *)

Lemma flat_length : forall a zs, wf_fixarr a = true ->
  finite_vals (fa_flat_values a) = Some zs -> length zs = (2 * fa_len a)%nat.
Proof.
  intros a zs Hwf H. apply finite_vals_length in H. rewrite H. unfold fa_flat_values.
  destruct (Nat.eqb (fa_len a) 0) eqn:E.
  - apply Nat.eqb_eq in E. rewrite E. reflexivity.
  - unfold wf_fixarr in Hwf. apply andb_true_iff in Hwf as [Hwf _]. apply Nat.leb_le in Hwf.
    rewrite slice_length by lia. lia.
Qed.

Lemma slot_values : forall a zs i k, wf_fixarr a = true ->
  finite_vals (fa_flat_values a) = Some zs -> (i < fa_len a)%nat -> (k < 2)%nat ->
  nth (2 * (fa_off a + i) + k) (fa_vals a) None = Some (zn zs (2 * i + k)).
Proof.
  intros a zs i k Hwf H Hi Hk.
  pose proof (finite_vals_nth _ _ (2 * i + k) H) as Hn.
  unfold fa_flat_values in *.
  destruct (Nat.eqb (fa_len a) 0) eqn:E; [apply Nat.eqb_eq in E; lia|].
  unfold wf_fixarr in Hwf. apply andb_true_iff in Hwf as [Hwf _]. apply Nat.leb_le in Hwf.
  rewrite slice_length in Hn by lia. rewrite slice_nth in Hn by lia.
  unfold zn. rewrite <- Hn by lia. f_equal. lia.
Qed.

(* ---- the generic argument ---- *)

Section Generic.
  Variable a : fixarr.
  Variable s : shape.
  Variable f g : nat -> outcome bool.
  Let n := fa_len a.
  Hypothesis H1 : forall inds,
    array_intersects_raw a s inds = Some (out_map f (the_inds n inds)).
  Hypothesis H2 : forall i, (i < n)%nat -> isna_at (fa_valid a) (fa_off a) i = false ->
    element_intersects a s i = Some (Some (g i)).
  Hypothesis H3 : forall i v, f i = Value v -> g i = Value v.

  Lemma isna_nth : forall i, (i < n)%nat ->
    nth i (fa_isna a) false = isna_at (fa_valid a) (fa_off a) i.
  Proof. intros i Hi. unfold fa_isna. now apply nth_map_seq. Qed.

  Lemma generic_forms : forall r,
    array_intersects a s None = Some (Value r) ->
    length r = n /\
    (forall inds, inds_ok n inds = true ->
       array_intersects a s (Some inds) = Some (Value (map (fun j => nth j r false) inds))) /\
    (forall i, (i < n)%nat ->
       element_intersects a s i =
       Some (if isna_at (fa_valid a) (fa_off a) i then None else Some (Value (nth i r false)))) /\
    (forall i, (i < n)%nat -> isna_at (fa_valid a) (fa_off a) i = true -> nth i r false = false).
  Proof.
    intros r Hr. unfold array_intersects in Hr. rewrite H1 in Hr. simpl the_inds in Hr.
    destruct (out_map f (seq 0 n)) as [raw|] eqn:Eraw; [|discriminate].
    inversion Hr as [Hr']. clear Hr.
    destruct (out_map_inv _ _ _ Eraw) as [Hlen Hnth]. rewrite seq_length in Hlen.
    assert (Hisna : length (fa_isna a) = n) by (unfold fa_isna; now rewrite map_length, seq_length).
    rewrite mask_none by lia. rewrite Hlen.
    assert (Hf : forall j, (j < n)%nat -> f j = Value (nth j raw false)).
    { intros j Hj. specialize (Hnth j 0%nat false). rewrite seq_length, seq_nth in Hnth by assumption.
      now apply Hnth. }
    split; [now rewrite map_length, seq_length|]. split; [|split].
    - intros inds Hok. unfold array_intersects. rewrite H1. simpl the_inds.
      unfold inds_ok in Hok. rewrite forallb_forall in Hok.
      rewrite (out_map_pointwise f (fun j => nth j raw false)).
      + rewrite mask_some. do 2 f_equal. apply map_ext_in. intros j Hj.
        apply Hok, Nat.ltb_lt in Hj. now rewrite nth_map_seq.
      + intros j Hj. apply Hok, Nat.ltb_lt in Hj. now apply Hf.
    - intros i Hi. rewrite nth_map_seq by assumption. unfold masked.
      rewrite isna_nth by assumption.
      destruct (isna_at (fa_valid a) (fa_off a) i) eqn:Ena.
      + unfold element_intersects. now rewrite Ena.
      + rewrite H2 by assumption. rewrite (H3 i _ (Hf i Hi)). now rewrite andb_true_r.
    - intros i Hi Ena. rewrite nth_map_seq by assumption. unfold masked.
      rewrite isna_nth by assumption. rewrite Ena. apply andb_false_r.
  Qed.
End Generic.

(* ---- PointArray._intersects_point without inds: the strided comparison is
        the per-slot comparison ---- *)

Lemma map_zpairs_seq {B} (h : pt -> B) : forall n (zs : list Z), length zs = (2 * n)%nat ->
  map h (zpairs zs) = map (fun j => h (pt_at zs j)) (seq 0 n).
Proof.
  intros n zs Hlen. apply nth_ext with (d := h (0%Z, 0%Z)) (d' := h (0%Z, 0%Z)).
  - rewrite !map_length, seq_length. now apply zpairs_length_even.
  - intros k Hk. rewrite map_length, (zpairs_length_even zs n Hlen) in Hk.
    rewrite map_nth, nth_map_seq by assumption. f_equal. unfold pt_at, zn.
    apply zpairs_nth. lia.
Qed.

(* ---- the theorem ---- *)

Theorem forms_agree : forall a s r,
  wf_fixarr a = true ->
  array_intersects a s None = Some (Value r) ->
  length r = fa_len a /\
  (forall inds, inds_ok (fa_len a) inds = true ->
     array_intersects a s (Some inds) = Some (Value (map (fun j => nth j r false) inds))) /\
  (forall i, (i < fa_len a)%nat ->
     element_intersects a s i =
     Some (if isna_at (fa_valid a) (fa_off a) i then None else Some (Value (nth i r false)))) /\
  (forall i, (i < fa_len a)%nat -> isna_at (fa_valid a) (fa_off a) i = true -> nth i r false = false).
Proof.
  intros a s r Hwf Hr.
  assert (Hraw : exists o, array_intersects_raw a s None = Some o).
  { unfold array_intersects in Hr. destruct (array_intersects_raw a s None); [eauto | discriminate]. }
  destruct Hraw as [o Hraw]. unfold array_intersects_raw in Hraw.
  destruct (finite_vals (fa_flat_values a)) as [zs|] eqn:Ezs; [|discriminate]. simpl in Hraw.
  pose proof (flat_length a zs Hwf Ezs) as Hlen.
  assert (Hslot : forall i, (i < fa_len a)%nat ->
            isna_at (fa_valid a) (fa_off a) i = false ->
            element_intersects a s i =
            match point_intersects (zn zs (2 * i)) (zn zs (2 * i + 1)) s with
            | Some o => Some (Some o) | None => None end).
  { intros i Hi Ena. unfold element_intersects. rewrite Ena.
    pose proof (slot_values a zs i 0 Hwf Ezs Hi ltac:(lia)) as E0.
    pose proof (slot_values a zs i 1 Hwf Ezs Hi ltac:(lia)) as E1.
    rewrite Nat.add_0_r in E0. rewrite E0, E1. now rewrite Nat.add_0_r. }
  destruct s as [px py|b|b|b|b|b].
  - (* Point *)
    destruct px as [px|]; [|discriminate]. destruct py as [py|]; [|discriminate].
    apply (generic_forms a _ (fun j => Value (sc_point (zn zs (2 * j)) (zn zs (2 * j + 1)) px py))
                             (fun j => Value (sc_point (zn zs (2 * j)) (zn zs (2 * j + 1)) px py))); [ | | | exact Hr].
    + intros inds. unfold array_intersects_raw. rewrite Ezs. simpl. f_equal.
      rewrite out_map_Value. f_equal. destruct inds as [l|]; simpl.
      * apply map_ext. intros j. unfold sc_point. now rewrite Nat.mul_comm.
      * rewrite combine_evens_odds.
        erewrite map_zpairs_seq by exact Hlen.
        apply map_ext. intros j. reflexivity.
    + intros i Hi Ena. rewrite Hslot by assumption. reflexivity.
    + intros i v Hv. exact Hv.
  - (* MultiPoint *)
    simpl in Hraw. destruct (finite_vals (sb_flat_values b)) as [sf|] eqn:Esf; [|discriminate].
    apply (generic_forms a _ (fun j => Value (sc_multipoint (zn zs (2 * j)) (zn zs (2 * j + 1)) sf))
                             (fun j => Value (sc_multipoint (zn zs (2 * j)) (zn zs (2 * j + 1)) sf))); [ | | | exact Hr].
    + intros inds. unfold array_intersects_raw. rewrite Ezs. simpl. rewrite Esf. simpl. f_equal.
      rewrite out_map_Value. reflexivity.
    + intros i Hi Ena. rewrite Hslot by assumption. simpl. rewrite Esf. reflexivity.
    + intros i v Hv. exact Hv.
  - (* Line *)
    simpl in Hraw. destruct (finite_vals (sb_buffer_values b)) as [sv|] eqn:Esv; [|discriminate].
    apply (generic_forms a _
             (fun j => ar_lines (zn zs (2 * j)) (zn zs (2 * j + 1)) (rings_of sv (sb_inner_offsets b)) false)
             (fun j => sc_lines (zn zs (2 * j)) (zn zs (2 * j + 1)) (rings_of sv (sb_inner_offsets b)))); [ | | | exact Hr].
    + intros inds. unfold array_intersects_raw. rewrite Ezs. simpl. rewrite Esv. reflexivity.
    + intros i Hi Ena. rewrite Hslot by assumption. simpl. rewrite Esv. reflexivity.
    + intros i v Hv. apply ar_lines_sc_lines in Hv as [b' [Hb' ->]]. exact Hb'.
  - (* MultiLine *)
    simpl in Hraw. destruct (finite_vals (sb_buffer_values b)) as [sv|] eqn:Esv; [|discriminate].
    apply (generic_forms a _
             (fun j => ar_lines (zn zs (2 * j)) (zn zs (2 * j + 1)) (rings_of sv (sb_inner_offsets b)) false)
             (fun j => sc_lines (zn zs (2 * j)) (zn zs (2 * j + 1)) (rings_of sv (sb_inner_offsets b)))); [ | | | exact Hr].
    + intros inds. unfold array_intersects_raw. rewrite Ezs. simpl. rewrite Esv. reflexivity.
    + intros i Hi Ena. rewrite Hslot by assumption. simpl. rewrite Esv. reflexivity.
    + intros i v Hv. apply ar_lines_sc_lines in Hv as [b' [Hb' ->]]. exact Hb'.
  - (* Polygon *)
    simpl in Hraw. destruct (finite_vals (sb_buffer_values b)) as [sv|] eqn:Esv; [|discriminate].
    apply (generic_forms a _
             (fun j => Value (point_intersects_polygon (zn zs (2 * j)) (zn zs (2 * j + 1)) sv (sb_inner_offsets b)))
             (fun j => Value (point_intersects_polygon (zn zs (2 * j)) (zn zs (2 * j + 1)) sv (sb_inner_offsets b)))); [ | | | exact Hr].
    + intros inds. unfold array_intersects_raw. rewrite Ezs. simpl. rewrite Esv. simpl. f_equal.
      rewrite out_map_Value. reflexivity.
    + intros i Hi Ena. rewrite Hslot by assumption. simpl. rewrite Esv. reflexivity.
    + intros i v Hv. exact Hv.
  - (* MultiPolygon *)
    simpl in Hraw. destruct (finite_vals (sb_buffer_values b)) as [sv|] eqn:Esv; [|discriminate].
    apply (generic_forms a _
             (fun j => Value (point_intersects_polygon (zn zs (2 * j)) (zn zs (2 * j + 1)) sv (sb_inner_offsets b)))
             (fun j => Value (point_intersects_polygon (zn zs (2 * j)) (zn zs (2 * j + 1)) sv (sb_inner_offsets b)))); [ | | | exact Hr].
    + intros inds. unfold array_intersects_raw. rewrite Ezs. simpl. rewrite Esv. simpl. f_equal.
      rewrite out_map_Value. reflexivity.
    + intros i Hi Ena. rewrite Hslot by assumption. simpl. rewrite Esv. reflexivity.
    + intros i v Hv. exact Hv.
Qed.

Corollary missing_false : forall a s r i,
  wf_fixarr a = true -> array_intersects a s None = Some (Value r) ->
  (i < fa_len a)%nat -> isna_at (fa_valid a) (fa_off a) i = true ->
  nth i r false = false.
Proof. intros a s r i Hwf Hr. exact (proj2 (proj2 (proj2 (forms_agree a s r Hwf Hr))) i). Qed.
