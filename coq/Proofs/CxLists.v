(* List lemmas of the C04 proofs: boolean masks, the insertion sort of
   Model/Rtree.v (np.sort), uniqueness of sorted duplicate-free lists. *)
From Coq Require Import ZArith List Bool Arith Lia Permutation Sorted.
From SP Require Import Model.Num Model.Rtree Model.Cx Proofs.RtreeLists.
Import ListNotations.

(* ------------------------------------------------------------------ masks *)
Lemma masked_map_filter : forall A (f : A -> bool) l, masked l (map f l) = filter f l.
Proof.
  intros A f l. unfold masked. induction l as [|x t IH]; cbn; [reflexivity|].
  destruct (f x); cbn; now rewrite IH.
Qed.

Lemma mask_positions_filter : forall mask,
  mask_positions mask = filter (fun i => nth i mask false) (seq 0 (length mask)).
Proof.
  intros mask. unfold mask_positions.
  rewrite <- (map_nth_seq bool mask false) at 2.
  apply masked_map_filter.
Qed.

Lemma masked_in : forall A (l : list A) mask x, In x (masked l mask) -> In x l.
Proof.
  intros A l mask x H. unfold masked in H. apply in_map_iff in H.
  destruct H as [[y b] [E H]]. cbn in E. subst y. apply filter_In in H. destruct H as [H _].
  eapply in_combine_l. exact H.
Qed.

(* ------------------------------------------------------------------- sort *)
Lemma insert_sorted_perm : forall x l, Permutation (insert_sorted x l) (x :: l).
Proof.
  intros x l. induction l as [|y t IH]; cbn; [apply Permutation_refl|].
  destruct (x <=? y); [apply Permutation_refl|].
  eapply perm_trans; [apply perm_skip, IH | apply perm_swap].
Qed.

Lemma sort_nat_perm : forall l, Permutation (sort_nat l) l.
Proof.
  induction l as [|x t IH]; [apply Permutation_refl|].
  unfold sort_nat in *. cbn [fold_right].
  eapply perm_trans; [apply insert_sorted_perm | apply perm_skip, IH].
Qed.

Lemma insert_sorted_sorted : forall x l,
  StronglySorted le l -> StronglySorted le (insert_sorted x l).
Proof.
  intros x l H. induction H as [|y t Ht IH Hy]; cbn.
  - constructor; constructor.
  - destruct (x <=? y) eqn:E.
    + apply Nat.leb_le in E. constructor; [constructor; assumption|].
      constructor; [exact E|]. eapply Forall_impl; [|exact Hy]. intros; lia.
    + apply Nat.leb_gt in E. constructor; [exact IH|].
      eapply Permutation_Forall; [apply Permutation_sym, insert_sorted_perm|].
      constructor; [lia | exact Hy].
Qed.

Lemma sort_nat_sorted : forall l, StronglySorted le (sort_nat l).
Proof.
  induction l as [|x t IH]; [constructor|].
  unfold sort_nat in *. cbn [fold_right]. apply insert_sorted_sorted, IH.
Qed.

Lemma sorted_perm_eq : forall l1 l2,
  StronglySorted le l1 -> StronglySorted le l2 -> Permutation l1 l2 -> l1 = l2.
Proof.
  induction l1 as [|a t1 IH]; intros l2 H1 H2 P.
  - apply Permutation_nil in P. now subst.
  - destruct l2 as [|b t2]; [apply Permutation_sym, Permutation_nil in P; discriminate|].
    inversion H1 as [|? ? S1 F1]; subst. inversion H2 as [|? ? S2 F2]; subst.
    assert (a = b).
    { assert (Ia : In a (b :: t2)) by (eapply Permutation_in; [exact P | now left]).
      assert (Ib : In b (a :: t1))
        by (eapply Permutation_in; [apply Permutation_sym; exact P | now left]).
      rewrite Forall_forall in F1, F2.
      destruct Ia as [->|Ia]; [reflexivity|]. destruct Ib as [->|Ib]; [reflexivity|].
      specialize (F1 _ Ib). specialize (F2 _ Ia). lia. }
    subst b. f_equal. apply IH; try assumption.
    eapply Permutation_cons_inv. exact P.
Qed.

Lemma filter_seq_sorted : forall (f : nat -> bool) n s, StronglySorted le (filter f (seq s n)).
Proof.
  intros f. induction n as [|n IH]; intros s; cbn; [constructor|].
  destruct (f s).
  - constructor; [apply IH|]. apply Forall_forall. intros x Hx.
    apply filter_In in Hx. destruct Hx as [Hx _]. apply in_seq in Hx. lia.
  - apply IH.
Qed.

Lemma filter_seq_NoDup : forall (f : nat -> bool) n s, NoDup (filter f (seq s n)).
Proof. intros. apply NoDup_filter, seq_NoDup. Qed.

(* np.sort of a duplicate-free list whose members are exactly the [i < n] with
   [f i] is the increasing enumeration of those [i] *)
Lemma sort_to_filter : forall (f : nat -> bool) n l,
  NoDup l -> (forall i, In i l <-> i < n /\ f i = true) ->
  sort_nat l = filter f (seq 0 n).
Proof.
  intros f n l ND Hin. apply sorted_perm_eq.
  - apply sort_nat_sorted.
  - apply filter_seq_sorted.
  - eapply perm_trans; [apply sort_nat_perm|].
    apply NoDup_Permutation; [exact ND | apply filter_seq_NoDup|].
    intros i. rewrite Hin, filter_In, in_seq. intuition lia.
Qed.

(* --------------------------------------------- the pandas oracle contracts *)
Lemma take_rows_filter : forall A (rows : list A) (f : nat -> bool),
  take_rows rows (filter f (seq 0 (length rows))) =
  map snd (filter (fun ir => f (fst ir)) (combine (seq 0 (length rows)) rows)).
Proof.
  intros A rows f. unfold take_rows.
  assert (G : forall (pre : list A) rs,
             flat_map (fun i => match nth_error (pre ++ rs) i with Some r => [r] | None => [] end)
                      (filter f (seq (length pre) (length rs))) =
             map snd (filter (fun ir => f (fst ir)) (combine (seq (length pre) (length rs)) rs))).
  { intros pre rs. revert pre. induction rs as [|r t IH]; intros pre; cbn; [reflexivity|].
    specialize (IH (pre ++ [r])). rewrite <- app_assoc, app_length in IH. cbn in IH.
    replace (length pre + 1) with (S (length pre)) in IH by lia.
    destruct (f (length pre)); cbn.
    - rewrite nth_error_app2 by lia. rewrite Nat.sub_diag. cbn. f_equal. exact IH.
    - exact IH. }
  exact (G [] rows).
Qed.

Lemma mask_rows_filter : forall A (rows : list A) (f : nat -> bool),
  mask_rows rows (map f (seq 0 (length rows))) =
  map snd (filter (fun ir => f (fst ir)) (combine (seq 0 (length rows)) rows)).
Proof.
  intros A rows f. unfold mask_rows, masked.
  generalize 0 as s. induction rows as [|r t IH]; intros s; cbn; [reflexivity|].
  destruct (f s); cbn; now rewrite IH.
Qed.
