(* Lemma library for C17, part 4: predicates on inert elements
   (PointArray.intersects with missing points: the C02 model;
    intersects_bounds of elements without coordinates: the C01 model). *)
From Coq Require Import ZArith List Bool Arith Lia.
From SP Require Import Model.Num Model.Arrow Model.Bounds Model.PointKernels
                       Model.PointShape Model.Intersect Model.Inert
                       Proofs.BoundsProofs Proofs.InertProofs.
Import ListNotations.
Local Open Scope nat_scope.

(* ================================================================== *)
(** * 1. PointArray.intersects: the isna mask                            *)
(* ================================================================== *)

Lemma nth_mask : forall (v m : list bool) i,
  i < length (combine v m) -> nth i m false = true ->
  nth i (map (fun '(r, na) => r && negb na) (combine v m)) true = false.
Proof.
  induction v as [|r v IH]; intros m i Hi Hm; [cbn in Hi; lia|].
  destruct m as [|na m]; [cbn in Hi; lia|].
  destruct i as [|i]; cbn [combine map nth length] in *.
  - rewrite Hm. apply andb_false_r.
  - apply IH; [lia | exact Hm].
Qed.

Lemma nth_true_exists : forall (m : list bool) i,
  nth i m false = true -> existsb (fun b => b) m = true.
Proof.
  induction m as [|b m IH]; intros i H; [destruct i; discriminate H|].
  destruct i as [|i]; cbn [nth existsb] in *.
  - rewrite H. reflexivity.
  - rewrite (IH i H). apply orb_true_r.
Qed.

Lemma mask_missing_length : forall isna inds res,
  length (mask_missing isna inds res) <= length res.
Proof.
  intros isna inds res. unfold mask_missing.
  destruct (existsb (fun b => b) isna); [|lia].
  rewrite map_length, combine_length. lia.
Qed.

(* whole-array form: the slot of a missing point answers False *)
Lemma mask_missing_none : forall isna res i,
  i < length (mask_missing isna None res) -> nth i isna false = true ->
  nth i (mask_missing isna None res) true = false.
Proof.
  intros isna res i Hi Hm. unfold mask_missing in *.
  rewrite (nth_true_exists isna i Hm) in *.
  rewrite map_length in Hi. apply nth_mask; assumption.
Qed.

(* restricted to positions [l]: position k answers False when l[k] is missing *)
Lemma mask_missing_inds : forall isna l res k,
  k < length (mask_missing isna (Some l) res) -> nth (nth k l 0) isna false = true ->
  k < length l ->
  nth k (mask_missing isna (Some l) res) true = false.
Proof.
  intros isna l res k Hk Hm Hkl. unfold mask_missing in *.
  rewrite (nth_true_exists isna _ Hm) in *.
  rewrite map_length in Hk. apply nth_mask; [exact Hk|].
  rewrite (nth_map_lt _ _ (fun j => nth j isna false) l k false 0 Hkl). exact Hm.
Qed.

Lemma fa_isna_nth : forall a i, i < fa_len a ->
  nth i (fa_isna a) false = isna_at (fa_valid a) (fa_off a) i.
Proof. intros a i H. unfold fa_isna. apply nth_map_seq. exact H. Qed.

(* PointArray.intersects(shape): a missing point intersects no shape, whatever
   the placeholder bytes of its slot are *)
Lemma array_intersects_missing_false : forall a s r i,
  array_intersects a s None = Some (Value r) ->
  i < fa_len a -> i < length r ->
  isna_at (fa_valid a) (fa_off a) i = true ->
  nth i r true = false.
Proof.
  intros a s r i H Hi Hr Hna. unfold array_intersects in H.
  destruct (array_intersects_raw a s None) as [[v|]|]; try discriminate H.
  injection H as <-. apply mask_missing_none; [exact Hr|].
  rewrite fa_isna_nth by exact Hi. exact Hna.
Qed.

(* PointArray.intersects(shape, inds): the same through positions *)
Lemma array_intersects_inds_missing_false : forall a s l r k,
  array_intersects a s (Some l) = Some (Value r) ->
  k < length l -> k < length r -> nth k l 0 < fa_len a ->
  isna_at (fa_valid a) (fa_off a) (nth k l 0) = true ->
  nth k r true = false.
Proof.
  intros a s l r k H Hk Hr Hj Hna. unfold array_intersects in H.
  destruct (array_intersects_raw a s (Some l)) as [[v|]|]; try discriminate H.
  injection H as <-. apply mask_missing_inds; [exact Hr | | exact Hk].
  rewrite fa_isna_nth by exact Hj. exact Hna.
Qed.

(* the scalar form: a missing element is None, not a Point, and has no answer *)
Lemma element_intersects_missing : forall a s i,
  isna_at (fa_valid a) (fa_off a) i = true -> element_intersects a s i = Some None.
Proof. intros a s i H. unfold element_intersects. rewrite H. reflexivity. Qed.


(* ================================================================== *)
(** * 2. intersects_bounds kernels on elements without coordinates        *)
(* ================================================================== *)

Lemma zbounds_short : forall seg, length seg < 2 -> zbounds seg = nanbox.
Proof.
  intros [|x [|y t]] H; try reflexivity. cbn in H. lia.
Qed.

(* multipoints: no vertex, no hit *)
Lemma perform_multipoint_empty : forall x0 y0 x1 y1 vals s e,
  slice s e vals = [] -> perform_multipoint x0 y0 x1 y1 vals s e = false.
Proof. intros. unfold perform_multipoint. rewrite H. reflexivity. Qed.

(* lines / rings: NaN bounds => the early return *)
Lemma perform_line_empty : forall x0 y0 x1 y1 vals s e,
  slice s e vals = [] -> perform_line x0 y0 x1 y1 vals s e = false.
Proof. intros. unfold perform_line. rewrite H. reflexivity. Qed.

(* polygons: no coordinate between the element's outer offsets *)
Lemma perform_polygon_empty : forall x0 y0 x1 y1 vals offsets1 s0 e0,
  slice (getn offsets1 s0) (getn offsets1 e0) vals = [] ->
  perform_polygon x0 y0 x1 y1 vals offsets1 s0 e0 = false.
Proof. intros. unfold perform_polygon. rewrite H. reflexivity. Qed.

Lemma existsb_all_false : forall A (f : A -> bool) l,
  (forall x, In x l -> f x = false) -> existsb f l = false.
Proof.
  intros A f l H. induction l as [|x t IH]; [reflexivity|].
  cbn [existsb]. rewrite (H x (or_introl eq_refl)), IH; [reflexivity|].
  intros y Hy. apply H. right. exact Hy.
Qed.

(* multilines: every sub-line of the element is empty *)
Lemma perform_multiline_empty : forall x0 y0 x1 y1 vals offsets1 s0 e0,
  (forall s e, In (s, e) (opairs (slice s0 (e0 + 1) offsets1)) -> slice s e vals = []) ->
  perform_multiline x0 y0 x1 y1 vals offsets1 s0 e0 = false.
Proof.
  intros x0 y0 x1 y1 vals offsets1 s0 e0 H. unfold perform_multiline.
  apply existsb_all_false. intros [s e] Hin. apply perform_line_empty, H, Hin.
Qed.

(* multipolygons: every polygon of the element is without coordinates *)
Lemma perform_multipolygon_empty : forall x0 y0 x1 y1 vals offsets1 offsets2 s0 e0,
  (forall s e, In (s, e) (opairs (slice s0 (e0 + 1) offsets1)) ->
               slice (getn offsets2 s) (getn offsets2 e) vals = []) ->
  perform_multipolygon x0 y0 x1 y1 vals offsets1 offsets2 s0 e0 = false.
Proof.
  intros x0 y0 x1 y1 vals offsets1 offsets2 s0 e0 H. unfold perform_multipolygon.
  apply existsb_all_false. intros [s e] Hin. apply perform_polygon_empty, H, Hin.
Qed.

(* points: a missing slot is NaN in self.x: outside every box *)
Lemma point_test_missing : forall b, point_test b None = false.
Proof. intros [[[x0 y0] x1] y1]. unfold point_test. destruct (orient_box _) as [[[? ?] ?] ?]. reflexivity. Qed.

(* ---- from the offsets: a sub-range squeezed between equal offsets is empty ---- *)

Lemma in_opairs : forall l s e, In (s, e) (opairs l) ->
  exists j, S j < length l /\ s = nth j l 0 /\ e = nth (S j) l 0.
Proof.
  induction l as [|a [|b t] IH]; intros s e H; try (destruct H).
  - injection H as <- <-. exists 0. cbn. repeat split. lia.
  - destruct (IH s e H) as (j & Hj & Hs & He).
    exists (S j). cbn [length nth] in *. repeat split; [lia | exact Hs | exact He].
Qed.

Lemma mono_squeeze : forall l a b j,
  mono l = true -> a <= j -> j <= b -> b < length l ->
  nth a l 0 = nth b l 0 -> nth j l 0 = nth a l 0.
Proof.
  intros l a b j Hm Haj Hjb Hb E.
  pose proof (mono_nth l a j Hm Haj ltac:(lia)) as H1.
  pose proof (mono_nth l j b Hm Hjb Hb) as H2. lia.
Qed.

(* the consecutive pairs of offs[s0 .. e0] are all (v, v) when offs[s0] = offs[e0] *)
Lemma opairs_slice_flat : forall offs s0 e0 s e,
  mono offs = true -> s0 <= e0 -> e0 < length offs ->
  getn offs s0 = getn offs e0 ->
  In (s, e) (opairs (slice s0 (e0 + 1) offs)) -> s = getn offs s0 /\ e = getn offs s0.
Proof.
  intros offs s0 e0 s e Hm Hle He0 E Hin.
  destruct (in_opairs _ _ _ Hin) as (j & Hj & -> & ->).
  rewrite slice_length in Hj by lia.
  rewrite !nth_slice by lia. unfold getn in *.
  split; apply (mono_squeeze offs s0 e0); try assumption; lia.
Qed.
