(* C20 — lemmas about Model/GeoFrame.v (pandas part). *)
From Coq Require Import List Bool String Arith Lia.
From SP Require Import Model.GeoFrame Spec.GeoFrameSpec.
Import ListNotations.
Local Open Scope string_scope.
Local Open Scope list_scope.

(* ---------------- strings, lookup ---------------- *)

Lemma eqb_eq : forall a b, String.eqb a b = true <-> a = b.
Proof. exact String.eqb_eq. Qed.

Lemma eqb_neq : forall a b, String.eqb a b = false <-> a <> b.
Proof. exact String.eqb_neq. Qed.

Lemma mem_In : forall n l, mem n l = true <-> In n l.
Proof.
  induction l as [|m t IH]; simpl.
  - split; [discriminate|tauto].
  - rewrite orb_true_iff, IH, eqb_eq. tauto.
Qed.

Lemma has_col_lookup : forall cs n, has_col cs n = true <-> lookup cs n <> None.
Proof.
  intros cs n. unfold has_col. destruct (lookup cs n); split; intro H; try reflexivity;
    try discriminate; try congruence.
Qed.

Lemma is_geom_col_has_col : forall cs g, is_geom_col cs g = true -> has_col cs g = true.
Proof.
  intros cs g. unfold is_geom_col, has_col. destruct (lookup cs g); [reflexivity|discriminate].
Qed.

Lemma lookup_app : forall a b g,
  lookup (a ++ b) g = match lookup a g with Some k => Some k | None => lookup b g end.
Proof.
  induction a as [|[m k] t IH]; intros b g; simpl; [reflexivity|].
  destruct (String.eqb m g); [reflexivity|apply IH].
Qed.

Lemma is_geom_col_any_geom : forall cs g, is_geom_col cs g = true -> any_geom cs = true.
Proof.
  induction cs as [|[m k] t IH]; intros g; unfold is_geom_col; simpl; [discriminate|].
  destruct (String.eqb m g).
  - intros H. rewrite H. reflexivity.
  - intros H. rewrite orb_true_iff. right. apply (IH g). exact H.
Qed.

(* ---------------- first geometry column ---------------- *)

Lemma fgc_from_some : forall cs acc,
  (acc <> None \/ any_geom cs = true) -> first_geometry_col_from acc cs <> None.
Proof.
  induction cs as [|[m k] t IH]; intros acc H; simpl.
  - destruct H as [H|H]; [exact H|discriminate].
  - destruct (is_geom k) eqn:Hk.
    + apply IH. left. destruct acc as [a|]; [destruct (truthy a)|]; discriminate.
    + apply IH. destruct H as [H|H]; [left; exact H|right].
      simpl in H. rewrite Hk in H. exact H.
Qed.

Lemma fgc_some : forall cs, any_geom cs = true -> exists n, first_geometry_col cs = Some n.
Proof.
  intros cs H. unfold first_geometry_col.
  destruct (first_geometry_col_from None cs) eqn:E; [eauto|].
  exfalso. apply (fgc_from_some cs None); [right; exact H|exact E].
Qed.

(* ---------------- the repo's functions ---------------- *)

Lemma valid_has_valid : forall f g, valid_active f g -> has_valid_geometry f = true.
Proof. intros f g (_ & Ha & Hg). unfold has_valid_geometry. rewrite Ha. exact Hg. Qed.

Lemma valid_geometry : forall f g, valid_active f g -> geometry f = Some g.
Proof.
  intros f g H. pose proof (valid_has_valid f g H) as Hv. destruct H as (Hc & Ha & Hg).
  unfold geometry. rewrite Hc, Hv. exact Ha.
Qed.

Lemma geometry_valid : forall f g, geometry f = Some g -> valid_active f g.
Proof.
  intros f g. unfold geometry, valid_active. destruct (f_cls f); [discriminate|].
  destruct (has_valid_geometry f) eqn:Hv; [|discriminate]. intros Ha.
  unfold has_valid_geometry in Hv. rewrite Ha in Hv. auto.
Qed.

Lemma valid_is_geo : forall f g, valid_active f g -> is_geo f = true.
Proof. intros f g (Hc & _). unfold is_geo. rewrite Hc. reflexivity. Qed.

Lemma set_inplace_valid : forall cs c a g,
  is_geom_col cs g = true ->
  exists f', set_geometry_inplace (mkFrame cs c a) g = Some f' /\
             f_cols f' = cs /\ f_cls f' = c /\ f_act f' = Some g.
Proof.
  intros cs c a g H. unfold set_geometry_inplace. simpl. rewrite H. eexists. repeat split.
Qed.

Lemma gdf_init_explicit : forall d g,
  is_geom_col (f_cols d) g = true ->
  exists f', gdf_init d (Some g) = Some f' /\ f_cols f' = f_cols d /\ valid_active f' g.
Proof.
  intros d g Hg. unfold gdf_init.
  destruct (fgc_some (f_cols d) (is_geom_col_any_geom _ _ Hg)) as [n Hn]. rewrite Hn.
  destruct (set_inplace_valid (f_cols d) CGeo None g Hg) as (f' & E & Hc & Hk & Ha).
  exists f'. split; [exact E|]. split; [exact Hc|]. unfold valid_active. rewrite Hc. auto.
Qed.

Lemma gdf_init_inherits : forall d g,
  valid_active d g ->
  exists f', gdf_init d None = Some f' /\ f_cols f' = f_cols d /\ valid_active f' g.
Proof.
  intros d g Hv. pose proof (valid_has_valid _ _ Hv) as Hh. pose proof (valid_is_geo _ _ Hv) as Hi.
  destruct Hv as (Hc & Ha & Hg). unfold gdf_init.
  destruct (fgc_some (f_cols d) (is_geom_col_any_geom _ _ Hg)) as [n Hn]. rewrite Hn.
  rewrite Hi, Hh, Ha. simpl.
  destruct (set_inplace_valid (f_cols d) CGeo None g Hg) as (f' & E & Hc' & Hk & Ha').
  exists f'. split; [exact E|]. split; [exact Hc'|]. unfold valid_active. rewrite Hc'. auto.
Qed.

(* whatever gdf_init returns is a geo frame with a valid active geometry *)
Lemma gdf_init_some_valid : forall d geom f',
  gdf_init d geom = Some f' ->
  f_cols f' = f_cols d /\ exists g, valid_active f' g.
Proof.
  intros d geom f'. unfold gdf_init.
  destruct (first_geometry_col (f_cols d)) as [first|]; [|discriminate].
  unfold set_geometry_inplace. simpl.
  match goal with |- (if is_geom_col _ ?g then _ else _) = _ -> _ => destruct (is_geom_col (f_cols d) g) eqn:Hg end;
    [|discriminate].
  intros E. injection E as E. subst f'. simpl. split; [reflexivity|].
  eexists. unfold valid_active. simpl. repeat split. exact Hg.
Qed.

Lemma from_mgr_geo : forall f cs g,
  f_cls f = CGeo -> is_geom_col cs g = true ->
  f_cls (from_mgr f cs) = CGeo /\ f_cols (from_mgr f cs) = cs.
Proof.
  intros f cs g Hc Hg. unfold from_mgr. rewrite Hc. unfold constructor_from_mgr.
  rewrite (is_geom_col_any_geom _ _ Hg). simpl.
  destruct (Nat.eqb (count_named "geometry" cs) 1); simpl; auto.
Qed.

Lemma from_mgr_cols : forall f cs, f_cols (from_mgr f cs) = cs.
Proof.
  intros f cs. unfold from_mgr, constructor_from_mgr, plain_of.
  destruct (f_cls f); [reflexivity|].
  destruct (negb (any_geom cs)); [reflexivity|].
  destruct (Nat.eqb (count_named "geometry" cs) 1); reflexivity.
Qed.

Lemma from_mgr_plain_when_no_geom : forall f cs,
  any_geom cs = false -> f_cls (from_mgr f cs) = CPlain.
Proof.
  intros f cs H. unfold from_mgr, constructor_from_mgr. destruct (f_cls f); [reflexivity|].
  rewrite H. reflexivity.
Qed.

(* the finalize class keeps the active geometry of the source *)
Lemma finalize_valid : forall f cs g,
  valid_active f g -> is_geom_col cs g = true ->
  valid_active (pandas_finalize (from_mgr f cs) f) g /\
  f_cols (pandas_finalize (from_mgr f cs) f) = cs.
Proof.
  intros f cs g (Hc & Ha & Hg0) Hg.
  destruct (from_mgr_geo f cs g Hc Hg) as (Hk & Hcs).
  unfold pandas_finalize. rewrite Hk, Hc. simpl. rewrite Hcs.
  unfold valid_active. simpl. auto.
Qed.

Lemma pandas_finalize_cols : forall r s, f_cols (pandas_finalize r s) = f_cols r.
Proof. intros r s. unfold pandas_finalize. destruct (f_cls r), (f_cls s); reflexivity. Qed.

Lemma pandas_finalize_cls : forall r s, f_cls (pandas_finalize r s) = f_cls r.
Proof. intros r s. unfold pandas_finalize. destruct (f_cls r) eqn:E, (f_cls s); simpl; congruence. Qed.

(* ---------------- column bookkeeping of the listed operations ---------------- *)

Lemma select_cols_lookup : forall cs ns r g,
  select_cols cs ns = Some r -> mem g ns = true -> lookup r g = lookup cs g.
Proof.
  induction ns as [|n t IH]; intros r g; simpl; [discriminate|].
  destruct (lookup cs n) as [k|] eqn:Ek; [|discriminate].
  destruct (select_cols cs t) as [r'|] eqn:Er; [|discriminate].
  intros E Hm. injection E as E. subst r. simpl.
  destruct (String.eqb n g) eqn:Eng.
  - apply eqb_eq in Eng. subst n. symmetry. exact Ek.
  - simpl in Hm. apply (IH r' g eq_refl Hm).
Qed.

Lemma select_cols_total : forall cs ns, all_in cs ns = true -> exists r, select_cols cs ns = Some r.
Proof.
  induction ns as [|n t IH]; simpl; intros H; [eauto|].
  apply andb_true_iff in H. destruct H as [Hn Ht]. destruct (IH Ht) as [r Er]. rewrite Er.
  unfold has_col in Hn. destruct (lookup cs n); [eauto|discriminate].
Qed.

Lemma lookup_filter_drop : forall cs ns g,
  mem g ns = false ->
  lookup (filter (fun c => negb (mem (fst c) ns)) cs) g = lookup cs g.
Proof.
  induction cs as [|[m k] t IH]; intros ns g Hg; simpl; [reflexivity|].
  destruct (mem m ns) eqn:Em; simpl.
  - destruct (String.eqb m g) eqn:E.
    + apply eqb_eq in E. subst m. congruence.
    + apply IH. exact Hg.
  - destruct (String.eqb m g); [reflexivity|apply IH; exact Hg].
Qed.

Lemma lookup_rename : forall cs old new g,
  old <> g -> new <> g -> lookup (rename_cols cs old new) g = lookup cs g.
Proof.
  induction cs as [|[m k] t IH]; intros old new g Ho Hn; simpl; [reflexivity|].
  destruct (String.eqb m old) eqn:Emo; simpl.
  - apply eqb_eq in Emo. subst m.
    destruct (String.eqb new g) eqn:E1; [apply eqb_eq in E1; contradiction|].
    destruct (String.eqb old g) eqn:E2; [apply eqb_eq in E2; contradiction|].
    apply IH; assumption.
  - destruct (String.eqb m g); [reflexivity|apply IH; assumption].
Qed.

(* ---------------- concat ---------------- *)

Lemma lookup_union : forall cs acc g,
  lookup (union_cols acc cs) g =
  match lookup acc g with Some k => Some k | None => lookup cs g end.
Proof.
  induction cs as [|[m k] t IH]; intros acc g; simpl.
  - destruct (lookup acc g); reflexivity.
  - destruct (has_col acc m) eqn:Hm.
    + rewrite IH. destruct (lookup acc g) eqn:Ea; [reflexivity|].
      destruct (String.eqb m g) eqn:E; [|reflexivity].
      apply eqb_eq in E. subst m. unfold has_col in Hm. rewrite Ea in Hm. discriminate.
    + rewrite IH, lookup_app. simpl. destruct (lookup acc g); [reflexivity|].
      destruct (String.eqb m g); reflexivity.
Qed.

Lemma concat_cols_geom_from : forall objs acc g,
  (is_geom_col acc g = true \/
   (lookup acc g = None /\ objs <> [] /\ Forall (fun f => is_geom_col (f_cols f) g = true) objs)) ->
  is_geom_col (fold_left (fun a f => union_cols a (f_cols f)) objs acc) g = true.
Proof.
  induction objs as [|f t IH]; intros acc g H; simpl.
  - destruct H as [H|(_ & H & _)]; [exact H|congruence].
  - apply IH. left. unfold is_geom_col. rewrite lookup_union.
    destruct H as [H|(Hn & _ & Hall)].
    + unfold is_geom_col in H. destruct (lookup acc g); [exact H|discriminate].
    + rewrite Hn. inversion Hall as [|? ? Hf _]; subst. exact Hf.
Qed.

Lemma concat_cols_geom : forall objs g,
  objs <> [] -> Forall (fun f => is_geom_col (f_cols f) g = true) objs ->
  is_geom_col (concat_cols objs) g = true.
Proof.
  intros objs g Hne Hall. unfold concat_cols. apply concat_cols_geom_from. right. auto.
Qed.

Lemma opt_eqb_eq : forall a b, opt_eqb a b = true <-> a = b.
Proof.
  intros [a|] [b|]; simpl; split; intro H; try discriminate; try reflexivity.
  - apply eqb_eq in H. congruence.
  - injection H as H. apply eqb_eq. exact H.
Qed.

Lemma omem_In : forall a l, omem a l = true <-> In a l.
Proof.
  induction l as [|b t IH]; simpl; [split; [discriminate|tauto]|].
  rewrite orb_true_iff, IH, opt_eqb_eq. tauto.
Qed.

Lemma dedup_In : forall a l, In a (dedup l) <-> In a l.
Proof.
  induction l as [|b t IH]; simpl; [tauto|].
  destruct (omem b t) eqn:E.
  - rewrite IH. split; [tauto|]. intros [H|H]; [subst; apply omem_In; exact E|exact H].
  - simpl. rewrite IH. tauto.
Qed.

Lemma dedup_const : forall a l, l <> [] -> (forall b, In b l -> b = a) -> dedup l = [a].
Proof.
  induction l as [|b t IH]; intros Hne Hall; [congruence|]. simpl.
  assert (b = a) by (apply Hall; left; reflexivity). subst b.
  destruct t as [|c t'].
  - reflexivity.
  - assert (E : omem a (c :: t') = true).
    { apply omem_In. left. apply Hall. right. left. reflexivity. }
    rewrite E. apply IH; [discriminate|]. intros b Hb. apply Hall. right. exact Hb.
Qed.

Lemma agrees_spec : forall g f, agrees g f = true <-> valid_active f g.
Proof.
  intros g f. unfold agrees, valid_active, is_geo. rewrite !andb_true_iff, opt_eqb_eq.
  destruct (f_cls f); split; intros H.
  - destruct H as ((H & _) & _). discriminate.
  - destruct H as (H & _). discriminate.
  - tauto.
  - destruct H as (_ & Ha & Hg). auto.
Qed.

Lemma finalize_concat_cols : forall r objs, f_cols (finalize_concat r objs) = f_cols r.
Proof.
  intros r objs. unfold finalize_concat. destruct (f_cls r); [reflexivity|].
  destruct (concat_names objs) as [|[n|] [|? ?]]; try reflexivity.
  destruct (has_col (f_cols r) n); reflexivity.
Qed.

Lemma finalize_concat_cls : forall r objs, f_cls (finalize_concat r objs) = f_cls r.
Proof.
  intros r objs. unfold finalize_concat. destruct (f_cls r) eqn:E; [exact E|].
  destruct (concat_names objs) as [|[n|] [|? ?]]; try exact E.
  destruct (has_col (f_cols r) n); [reflexivity|exact E].
Qed.

(* frames agreeing on g: the concatenation is a geo frame with active geometry g *)
Lemma concat_agree : forall objs g,
  objs <> [] -> Forall (fun f => valid_active f g) objs ->
  exists r, concat_frames objs = Some r /\ valid_active r g /\ f_cols r = concat_cols objs.
Proof.
  intros objs g Hne Hall. destruct objs as [|s rest]; [congruence|].
  unfold concat_frames. eexists. split; [reflexivity|].
  assert (Hg : is_geom_col (concat_cols (s :: rest)) g = true).
  { apply concat_cols_geom; [discriminate|].
    eapply Forall_impl; [|exact Hall]. intros f (_ & _ & H). exact H. }
  assert (Hs : valid_active s g) by (inversion Hall; assumption).
  destruct Hs as (Hsc & _ & _).
  destruct (from_mgr_geo s (concat_cols (s :: rest)) g Hsc Hg) as (Hk & Hcs).
  assert (Hn : concat_names (s :: rest) = [Some g]).
  { unfold concat_names. apply dedup_const.
    - simpl. unfold is_geo at 1. rewrite Hsc. discriminate.
    - intros b Hb. apply in_map_iff in Hb. destruct Hb as (f & Hf & Hin).
      apply filter_In in Hin. destruct Hin as (Hin & _).
      rewrite Forall_forall in Hall. destruct (Hall f Hin) as (_ & Ha & _). congruence. }
  unfold finalize_concat. rewrite Hk, Hn, Hcs, (is_geom_col_has_col _ _ Hg).
  unfold valid_active. simpl. auto.
Qed.

(* frames that do not agree: nothing but pandas' constructor path decides *)
Lemma concat_disagree : forall s rest,
  (exists f1 f2, In f1 (s :: rest) /\ In f2 (s :: rest) /\
                 is_geo f1 = true /\ is_geo f2 = true /\ f_act f1 <> f_act f2) ->
  concat_frames (s :: rest) = Some (from_mgr s (concat_cols (s :: rest))).
Proof.
  intros s rest (f1 & f2 & H1 & H2 & G1 & G2 & Hd). unfold concat_frames. f_equal.
  unfold finalize_concat. destruct (f_cls (from_mgr s (concat_cols (s :: rest)))); [reflexivity|].
  destruct (concat_names (s :: rest)) as [|[n|] [|? ?]] eqn:En; try reflexivity.
  exfalso. unfold concat_names in En.
  assert (A1 : In (f_act f1) (dedup (map f_act (filter is_geo (s :: rest))))).
  { apply dedup_In, in_map, filter_In. auto. }
  assert (A2 : In (f_act f2) (dedup (map f_act (filter is_geo (s :: rest))))).
  { apply dedup_In, in_map, filter_In. auto. }
  rewrite En in A1, A2. simpl in A1, A2.
  destruct A1 as [A1|[]], A2 as [A2|[]]. congruence.
Qed.

(* ---------------- one step ---------------- *)

Lemma keeps_rows : forall f g,
  valid_active f g ->
  valid_active (pandas_finalize (from_mgr f (f_cols f)) f) g /\
  f_cols (pandas_finalize (from_mgr f (f_cols f)) f) = f_cols f.
Proof. intros f g H. apply finalize_valid; [exact H|]. destruct H as (_ & _ & H). exact H. Qed.

Lemma apply_generic : forall o f cs,
  match o with
  | OSetGeometry _ _ | OGeoInit | OConstructor | OConcat _ _ | OCx | OMerge _ _ => False
  | _ => True
  end ->
  pop_cols o (f_cols f) = Some cs ->
  apply_pop o f = Some (pandas_finalize (from_mgr f cs) f).
Proof.
  intros o f cs Ho Hc. destruct o; try contradiction; unfold apply_pop; rewrite Hc; reflexivity.
Qed.

Theorem step_keeps : forall o f g,
  valid_active f g -> keeps g (f_cols f) o = true ->
  exists f', apply_pop o f = Some f' /\ valid_active f' g.
Proof.
  intros o f g Hv Hk. pose proof Hv as (Hc & Ha & Hg).
  destruct o;
    try (eexists; split;
         [apply apply_generic; [exact I|reflexivity]|apply keeps_rows; exact Hv]).
  - (* OCx *)
    unfold apply_pop. rewrite (valid_geometry _ _ Hv). eexists. split; [reflexivity|].
    apply keeps_rows. exact Hv.
  - (* OSubset *)
    simpl in Hk. apply andb_true_iff in Hk. destruct Hk as [Hm Hall].
    destruct (select_cols_total _ _ Hall) as [r Er].
    eexists. split; [apply apply_generic; [exact I|exact Er]|].
    apply finalize_valid; [exact Hv|]. unfold is_geom_col.
    rewrite (select_cols_lookup _ _ _ _ Er Hm). exact Hg.
  - (* ODrop *)
    simpl in Hk. apply andb_true_iff in Hk. destruct Hk as [Hm Hall].
    apply negb_true_iff in Hm.
    eexists. split; [apply apply_generic; [exact I|simpl; rewrite Hall; reflexivity]|].
    apply finalize_valid; [exact Hv|]. unfold is_geom_col. rewrite lookup_filter_drop; assumption.
  - (* OAssign *)
    simpl in Hk. apply negb_true_iff in Hk.
    eexists. split; [apply apply_generic; [exact I|simpl; rewrite Hk; reflexivity]|].
    apply finalize_valid; [exact Hv|]. unfold is_geom_col. rewrite lookup_app.
    unfold is_geom_col in Hg. destruct (lookup (f_cols f) g); [exact Hg|discriminate].
  - (* ORename *)
    simpl in Hk. apply andb_true_iff in Hk. destruct Hk as [Ho Hn].
    apply negb_true_iff in Ho, Hn. apply eqb_neq in Ho.
    eexists. split; [apply apply_generic; [exact I|reflexivity]|].
    apply finalize_valid; [exact Hv|]. unfold is_geom_col. rewrite lookup_rename; [exact Hg|exact Ho|].
    intros E. subst new. rewrite (is_geom_col_has_col _ _ Hg) in Hn. discriminate.
  - (* OResetIndex *)
    simpl in Hk. apply negb_true_iff in Hk.
    eexists. split; [apply apply_generic; [exact I|simpl; rewrite Hk; reflexivity]|].
    apply finalize_valid; [exact Hv|]. unfold is_geom_col. simpl.
    destruct (String.eqb n g) eqn:E; [|exact Hg].
    apply eqb_eq in E. subst n. rewrite (is_geom_col_has_col _ _ Hg) in Hk. discriminate.
  - (* OMerge *)
    simpl in Hk. discriminate.
  - (* OConcat *)
    simpl in Hk. unfold apply_pop.
    assert (Hall : Forall (fun x => valid_active x g) (before ++ [f] ++ after)).
    { rewrite forallb_forall in Hk. apply Forall_forall. intros x Hx.
      apply in_app_or in Hx. destruct Hx as [Hx|Hx].
      - apply agrees_spec, Hk, in_or_app. left. exact Hx.
      - simpl in Hx. destruct Hx as [Hx|Hx]; [subst x; exact Hv|].
        apply agrees_spec, Hk, in_or_app. right. exact Hx. }
    destruct (concat_agree (before ++ [f] ++ after) g) as (r & Er & Hr & _);
      [destruct before; discriminate|exact Hall|]. eauto.
  - (* OSetGeometry *)
    simpl in Hk. apply eqb_eq in Hk. subst g0. unfold apply_pop. rewrite Hc.
    destruct inplace.
    + destruct f as [cs c a]. simpl in *.
      destruct (set_inplace_valid cs c a g Hg) as (f' & E & Hcs & Hcl & Hac).
      exists f'. split; [exact E|]. unfold valid_active. rewrite Hcs, Hcl, Hac. subst c. auto.
    + rewrite Hg. destruct (gdf_init_explicit f g Hg) as (f' & E & _ & Hv'). eauto.
  - (* OGeoInit *)
    unfold apply_pop. destruct (gdf_init_inherits f g Hv) as (f' & E & _ & Hv'). eauto.
  - (* OConstructor *)
    unfold apply_pop, maybe_geodataframe. rewrite Hc.
    destruct (gdf_init_inherits f g Hv) as (f' & E & _ & Hv'). rewrite E. eauto.
Qed.

(* C20_preserved: every sequence of operations that keep g *)
Theorem preserved : forall ops f g,
  valid_active f g -> ops_keep g f ops = true ->
  exists f', exec_pops f ops = Some f' /\ valid_active f' g /\ geometry f' = Some g.
Proof.
  induction ops as [|o t IH]; intros f g Hv Hk; simpl.
  - exists f. auto using valid_geometry.
  - simpl in Hk. apply andb_true_iff in Hk. destruct Hk as [Hk Ht].
    destruct (step_keeps o f g Hv Hk) as (f1 & E & Hv1). rewrite E in *.
    apply IH; assumption.
Qed.

(* what the harness observes after every step of such a sequence *)
Theorem preserved_observed : forall ops f g,
  valid_active f g -> ops_keep g f ops = true ->
  Forall (fun o => exists cols, o = Some (true, Some g, Some g, cols)) (run_pops f ops).
Proof.
  induction ops as [|o t IH]; intros f g Hv Hk; simpl; [constructor|].
  simpl in Hk. apply andb_true_iff in Hk. destruct Hk as [Hk Ht].
  destruct (step_keeps o f g Hv Hk) as (f1 & E & Hv1). rewrite E in *.
  constructor.
  - unfold observe. rewrite (valid_geometry _ _ Hv1), (valid_is_geo _ _ Hv1).
    destruct Hv1 as (_ & Ha & _). rewrite Ha. eauto.
  - apply IH; assumption.
Qed.

(* ---------------- a result without geometry column is a plain DataFrame ---------------- *)

Lemma set_inplace_any_geom : forall f g f',
  set_geometry_inplace f g = Some f' -> any_geom (f_cols f') = true.
Proof.
  intros f g f'. unfold set_geometry_inplace.
  destruct (is_geom_col (f_cols f) g) eqn:E; [|discriminate].
  intros H. injection H as H. subst f'. simpl. eapply is_geom_col_any_geom. exact E.
Qed.

Lemma gdf_init_any_geom : forall d geom f',
  gdf_init d geom = Some f' -> any_geom (f_cols f') = true.
Proof.
  intros d geom f' H. destruct (gdf_init_some_valid _ _ _ H) as (_ & g & _ & _ & Hg).
  eapply is_geom_col_any_geom. exact Hg.
Qed.

Theorem plain_when_no_geometry : forall o f f',
  apply_pop o f = Some f' -> any_geom (f_cols f') = false -> f_cls f' = CPlain.
Proof.
  intros o f f' H Hn.
  assert (G : forall cs, f' = pandas_finalize (from_mgr f cs) f -> f_cls f' = CPlain).
  { intros cs E. subst f'. rewrite pandas_finalize_cls. apply from_mgr_plain_when_no_geom.
    rewrite pandas_finalize_cols, from_mgr_cols in Hn. exact Hn. }
  destruct o; unfold apply_pop in H;
    try (simpl in H; injection H as H; eapply G; symmetry; exact H);
    try (destruct (pop_cols _ (f_cols f)) as [cs|]; [|discriminate]; simpl in H;
         injection H as H; eapply G; symmetry; exact H).
  - (* OCx *)
    destruct (geometry f); [|discriminate]. injection H as H. eapply G. symmetry. exact H.
  - (* OMerge *)
    destruct (pop_cols _ (f_cols f)) as [cs|]; [|discriminate]. injection H as H. subst f'.
    rewrite finalize_concat_cls. rewrite finalize_concat_cols, from_mgr_cols in Hn.
    apply from_mgr_plain_when_no_geom. exact Hn.
  - (* OConcat *)
    unfold concat_frames in H. destruct (before ++ [f] ++ after) as [|s rest] eqn:E; [discriminate|].
    injection H as H. subst f'. rewrite finalize_concat_cls.
    rewrite finalize_concat_cols, from_mgr_cols in Hn. apply from_mgr_plain_when_no_geom. exact Hn.
  - (* OSetGeometry *)
    destruct (f_cls f); [discriminate|]. destruct inplace.
    + rewrite (set_inplace_any_geom _ _ _ H) in Hn. discriminate.
    + destruct (is_geom_col (f_cols f) g); [|discriminate].
      rewrite (gdf_init_any_geom _ _ _ H) in Hn. discriminate.
  - (* OGeoInit *)
    rewrite (gdf_init_any_geom _ _ _ H) in Hn. discriminate.
  - (* OConstructor *)
    destruct (f_cls f) eqn:Ec.
    + injection H as H. subst f'. reflexivity.
    + injection H as H. subst f'. unfold maybe_geodataframe in *.
      destruct (gdf_init f None) eqn:E; [|reflexivity].
      rewrite (gdf_init_any_geom _ _ _ E) in Hn. discriminate.
Qed.

Lemma from_mgr_cls_geo : forall f cs,
  f_cls f = CGeo -> any_geom cs = true -> f_cls (from_mgr f cs) = CGeo.
Proof.
  intros f cs Hc Hcs. unfold from_mgr, constructor_from_mgr. rewrite Hc, Hcs. simpl.
  destruct (Nat.eqb (count_named "geometry" cs) 1); reflexivity.
Qed.

(* ... and, for the pandas code paths, a geo source whose result still has a geometry
   column gives a GeoDataFrame *)
Theorem geo_when_geometry : forall o f f',
  match pop_class o with Finalize | CtorOnly => True | _ => False end ->
  f_cls f = CGeo -> apply_pop o f = Some f' -> any_geom (f_cols f') = true -> f_cls f' = CGeo.
Proof.
  intros o f f' Ho Hc H Hg.
  assert (G : forall cs, any_geom cs = true -> f_cls (from_mgr f cs) = CGeo).
  { intros cs Hcs. unfold from_mgr, constructor_from_mgr. rewrite Hc, Hcs. simpl.
    destruct (Nat.eqb (count_named "geometry" cs) 1); reflexivity. }
  destruct o; simpl in Ho; try contradiction; unfold apply_pop in H;
    try (simpl in H; injection H as H; subst f'; rewrite pandas_finalize_cls;
         rewrite pandas_finalize_cols, from_mgr_cols in Hg; apply G; exact Hg);
    try (destruct (pop_cols _ (f_cols f)) as [cs|]; [|discriminate]; simpl in H;
         injection H as H; subst f'; rewrite pandas_finalize_cls;
         rewrite pandas_finalize_cols, from_mgr_cols in Hg; apply G; exact Hg).
  - (* OCx *)
    destruct (geometry f); [|discriminate]. injection H as H. subst f'.
    rewrite pandas_finalize_cls. rewrite pandas_finalize_cols, from_mgr_cols in Hg. apply G. exact Hg.
  - (* OMerge *)
    destruct (pop_cols _ (f_cols f)) as [cs|] eqn:Ec; [|discriminate]. injection H as H. subst f'.
    rewrite finalize_concat_cls. rewrite finalize_concat_cols, from_mgr_cols in Hg.
    assert (Ha : any_geom (f_cols f) = true).
    { simpl in Ec. destruct (has_col (f_cols f) n); [discriminate|]. injection Ec as Ec. subst cs.
      unfold any_geom in Hg |- *. rewrite existsb_app in Hg. simpl in Hg.
      rewrite orb_false_r in Hg. exact Hg. }
    assert (H0 : f_cls (pandas_finalize (from_mgr f (f_cols f)) f) = CGeo).
    { rewrite pandas_finalize_cls. apply G. exact Ha. }
    apply from_mgr_cls_geo; [|exact Hg].
    destruct ident; [exact H0|]. apply from_mgr_cls_geo; assumption.
Qed.

(* merge (constructor-only class, rows re-indexed) never keeps an active column unless it
   is literally named "geometry": this is what sjoin's result carries *)
Lemma from_mgr_act : forall f cs,
  f_act (from_mgr f cs) = None \/ f_act (from_mgr f cs) = Some "geometry".
Proof.
  intros f cs. unfold from_mgr, constructor_from_mgr, plain_of. destruct (f_cls f); [left; reflexivity|].
  destruct (negb (any_geom cs)); [left; reflexivity|].
  destruct (Nat.eqb (count_named "geometry" cs) 1); [right|left]; reflexivity.
Qed.

Lemma finalize_concat_act : forall r objs,
  f_act (finalize_concat r objs) = f_act r \/
  exists n, concat_names objs = [Some n] /\ f_act (finalize_concat r objs) = Some n.
Proof.
  intros r objs. unfold finalize_concat. destruct (f_cls r); [left; reflexivity|].
  destruct (concat_names objs) as [|[n|] [|? ?]]; try (left; reflexivity).
  destruct (has_col (f_cols r) n); [right; eauto|left; reflexivity].
Qed.

Theorem merge_loses_active : forall f g n f',
  g <> "geometry" -> apply_pop (OMerge n false) f = Some f' -> f_act f' <> Some g.
Proof.
  intros f g n f' Hg H. unfold apply_pop in H.
  destruct (pop_cols (OMerge n false) (f_cols f)) as [cs|]; [|discriminate].
  injection H as H. subst f'.
  set (l1 := from_mgr (pandas_finalize (from_mgr f (f_cols f)) f) (f_cols f)).
  destruct (finalize_concat_act (from_mgr l1 cs) [l1; plain_of [(n, KPlain)]]) as [E|(m & En & E)];
    rewrite E.
  - destruct (from_mgr_act l1 cs) as [E1|E1]; rewrite E1; congruence.
  - unfold concat_names in En. simpl in En. destruct (is_geo l1); simpl in En; [|discriminate].
    injection En as En. unfold l1 in En.
    destruct (from_mgr_act (pandas_finalize (from_mgr f (f_cols f)) f) (f_cols f)) as [E1|E1];
      rewrite E1 in En; congruence.
Qed.

(* ---------------- which column is read ---------------- *)

Theorem uses_active : forall f g, valid_active f g ->
  geometry f = Some g /\ cx_reads f = Some g /\ build_sindex_reads f = Some g.
Proof.
  intros f g H. unfold cx_reads, build_sindex_reads. rewrite (valid_geometry _ _ H). auto.
Qed.

Lemma record_reset_index_valid : forall f g n,
  valid_active f g -> has_col (f_cols f) n = false ->
  exists f', record_reset_index f n = Some f' /\ valid_active f' g.
Proof.
  intros f g n Hv Hn. unfold record_reset_index.
  destruct (step_keeps OCopyDeep f g Hv eq_refl) as (f1 & E1 & Hv1).
  rewrite E1.
  assert (Hc : f_cols f1 = f_cols f).
  { unfold apply_pop in E1. simpl in E1. injection E1 as E1. subst f1.
    rewrite pandas_finalize_cols, from_mgr_cols. reflexivity. }
  apply step_keeps; [exact Hv1|]. simpl. rewrite Hc, Hn. reflexivity.
Qed.

Theorem sjoin_uses_active : forall l r gl gr il ir,
  valid_active l gl -> valid_active r gr ->
  has_col (f_cols l) il = false -> has_col (f_cols r) ir = false ->
  sjoin_reads l r il ir = Some (gl, gr).
Proof.
  intros l r gl gr il ir Hl Hr Hil Hir. unfold sjoin_reads.
  destruct (record_reset_index_valid r gr ir Hr Hir) as (r1 & Er & Hr1).
  destruct (record_reset_index_valid l gl il Hl Hil) as (l1 & El & Hl1).
  rewrite Er, El, (valid_geometry _ _ Hl1), (valid_geometry _ _ Hr1). reflexivity.
Qed.
