(* pip_refines_wn: the per-edge decision of point_intersects_polygon equals the
   declarative half-open ray-crossing contribution, edge by edge. *)
From Coq Require Import ZArith List Bool Arith Reals Lra Lia Psatz ZifyBool.
From SP Require Import Model.Num Model.PointKernels Spec.PointShapeSpec Spec.Winding.
Import ListNotations.

(* ---- the code's edge contribution as three cases (integers) ---- *)

Definition cross_lo_hi (x y lx ly ux uy : Z) : Z := ((lx - x) * (uy - y) - (ly - y) * (ux - x))%Z.

Lemma pip_edge_cases : forall x y x0 y0 x1 y1,
  pip_edge x y ((x0, y0), (x1, y1)) =
  (if (y0 <? y) && (y <=? y1) then (if 0 <=? cross_lo_hi x y x0 y0 x1 y1 then 1 else 0)
   else if (y1 <? y) && (y <=? y0) then (if 0 <=? cross_lo_hi x y x1 y1 x0 y0 then -1 else 0)
   else 0)%Z.
Proof.
  intros. unfold pip_edge, cross_lo_hi.
  destruct (y1 =? y0)%Z eqn:Eh.
  { destruct ((y0 <? y)%Z && (y <=? y1)%Z) eqn:E1; [lia|].
    destruct ((y1 <? y)%Z && (y <=? y0)%Z) eqn:E2; [lia|]. reflexivity. }
  destruct (y1 <? y0)%Z eqn:Ed.
  - (* descending: lower = (x1,y1), upper = (x0,y0) *)
    destruct ((y0 <? y)%Z && (y <=? y1)%Z) eqn:E1; [lia|].
    destruct ((y1 <? y)%Z && (y <=? y0)%Z) eqn:E2.
    + destruct ((y <=? y1)%Z || (y0 <? y)%Z || ((x1 <? x)%Z && (x0 <? x)%Z)) eqn:E3.
      * destruct (0 <=? (x1 - x) * (y0 - y) - (y1 - y) * (x0 - x))%Z eqn:E4; [|reflexivity].
        exfalso. nia.
      * destruct ((x <=? x1)%Z && (x <=? x0)%Z) eqn:E5.
        -- destruct (0 <=? (x1 - x) * (y0 - y) - (y1 - y) * (x0 - x))%Z eqn:E4; [reflexivity|].
           exfalso. nia.
        -- destruct (0 <=? (x1 - x) * (y0 - y) - (y1 - y) * (x0 - x))%Z eqn:E4;
           destruct ((0 <? (x1 - x) * (y0 - y) - (y1 - y) * (x0 - x))%Z
                     || ((x1 - x) * (y0 - y) - (y1 - y) * (x0 - x) =? 0)%Z) eqn:E6;
           try reflexivity; exfalso; lia.
    + destruct ((y <=? y1)%Z || (y0 <? y)%Z || ((x1 <? x)%Z && (x0 <? x)%Z)) eqn:E3;
        [reflexivity | exfalso; lia].
  - (* ascending *)
    destruct ((y0 <? y)%Z && (y <=? y1)%Z) eqn:E1.
    + destruct ((y <=? y0)%Z || (y1 <? y)%Z || ((x0 <? x)%Z && (x1 <? x)%Z)) eqn:E3.
      * destruct (0 <=? (x0 - x) * (y1 - y) - (y0 - y) * (x1 - x))%Z eqn:E4; [|reflexivity].
        exfalso. nia.
      * destruct ((x <=? x0)%Z && (x <=? x1)%Z) eqn:E5.
        -- destruct (0 <=? (x0 - x) * (y1 - y) - (y0 - y) * (x1 - x))%Z eqn:E4; [reflexivity|].
           exfalso. nia.
        -- destruct (0 <=? (x0 - x) * (y1 - y) - (y0 - y) * (x1 - x))%Z eqn:E4;
           destruct ((0 <? (x0 - x) * (y1 - y) - (y0 - y) * (x1 - x))%Z
                     || ((x0 - x) * (y1 - y) - (y0 - y) * (x1 - x) =? 0)%Z) eqn:E6;
           try reflexivity; exfalso; lia.
    + destruct ((y1 <? y)%Z && (y <=? y0)%Z) eqn:E2; [lia|].
      destruct ((y <=? y0)%Z || (y1 <? y)%Z || ((x0 <? x)%Z && (x1 <? x)%Z)) eqn:E3;
        [reflexivity | exfalso; lia].
Qed.

(* ---- the declarative contribution at integer points, same three cases ---- *)

Lemma above_IZR : forall y v : Z, above (IZR y) (IZR v) = if (y <=? v)%Z then 1%Z else 0%Z.
Proof.
  intros. unfold above. destruct (Rle_dec (IZR y) (IZR v)) as [H|H].
  - apply le_IZR in H. destruct (y <=? v)%Z eqn:E; [reflexivity | lia].
  - destruct (y <=? v)%Z eqn:E; [|reflexivity]. exfalso. apply H, IZR_le. lia.
Qed.

Open Scope R_scope.

Lemma X_at_minus : forall a0 b0 a1 b1 x y : R, b0 <> b1 ->
  X_at (a0, b0) (a1, b1) y - x = ((a0 - x) * (b1 - y) - (b0 - y) * (a1 - x)) / (b1 - b0).
Proof. intros. unfold X_at; simpl. field. lra. Qed.

Lemma crosses_up : forall a0 b0 a1 b1 x y : R, b0 < b1 ->
  (x <= X_at (a0, b0) (a1, b1) y <-> 0 <= (a0 - x) * (b1 - y) - (b0 - y) * (a1 - x)).
Proof.
  intros a0 b0 a1 b1 x y Hb.
  pose proof (X_at_minus a0 b0 a1 b1 x y ltac:(lra)) as HX.
  set (c := (a0 - x) * (b1 - y) - (b0 - y) * (a1 - x)) in *.
  assert (Hinv : 0 < / (b1 - b0)) by (apply Rinv_0_lt_compat; lra).
  unfold Rdiv in HX. split; intros H.
  - assert (Hc : c = (X_at (a0, b0) (a1, b1) y - x) * (b1 - b0)).
    { rewrite HX. field. lra. }
    rewrite Hc. apply Rmult_le_pos; lra.
  - assert (0 <= c * / (b1 - b0)) by (apply Rmult_le_pos; lra). lra.
Qed.

Lemma crosses_down : forall a0 b0 a1 b1 x y : R, b1 < b0 ->
  (x <= X_at (a0, b0) (a1, b1) y <-> (a0 - x) * (b1 - y) - (b0 - y) * (a1 - x) <= 0).
Proof.
  intros a0 b0 a1 b1 x y Hb.
  pose proof (X_at_minus a0 b0 a1 b1 x y ltac:(lra)) as HX.
  set (c := (a0 - x) * (b1 - y) - (b0 - y) * (a1 - x)) in *.
  assert (Hinv : 0 < / (b0 - b1)) by (apply Rinv_0_lt_compat; lra).
  assert (HX' : X_at (a0, b0) (a1, b1) y - x = (- c) * / (b0 - b1)).
  { rewrite HX. field. lra. }
  split; intros H.
  - assert (Hc : - c = (X_at (a0, b0) (a1, b1) y - x) * (b0 - b1)).
    { rewrite HX'. field. lra. }
    assert (0 <= - c) by (rewrite Hc; apply Rmult_le_pos; lra). lra.
  - assert (0 <= (- c) * / (b0 - b1)) by (apply Rmult_le_pos; lra). lra.
Qed.

Lemma cross_IZR : forall x y lx ly ux uy : Z,
  IZR (cross_lo_hi x y lx ly ux uy) =
  (IZR lx - IZR x) * (IZR uy - IZR y) - (IZR ly - IZR y) * (IZR ux - IZR x).
Proof. intros. unfold cross_lo_hi. now rewrite minus_IZR, !mult_IZR, !minus_IZR. Qed.

Lemma wn_edge_cases : forall x y x0 y0 x1 y1 : Z,
  wn_edge (IZR x, IZR y) (IZR x0, IZR y0) (IZR x1, IZR y1) =
  (if (y0 <? y) && (y <=? y1) then (if 0 <=? cross_lo_hi x y x0 y0 x1 y1 then 1 else 0)
   else if (y1 <? y) && (y <=? y0) then (if 0 <=? cross_lo_hi x y x1 y1 x0 y0 then -1 else 0)
   else 0)%Z.
Proof.
  intros. unfold wn_edge. cbn [fst snd]. rewrite !above_IZR. unfold crosses_right. cbn [fst snd].
  destruct ((y0 <? y)%Z && (y <=? y1)%Z) eqn:E1.
  - assert (Hlt : IZR y0 < IZR y1) by (apply IZR_lt; lia).
    destruct (y <=? y1)%Z eqn:Ea; [|lia]. destruct (y <=? y0)%Z eqn:Eb; [lia|].
    destruct (Rle_dec (IZR x) (X_at (IZR x0, IZR y0) (IZR x1, IZR y1) (IZR y))) as [H|H].
    + apply crosses_up in H; [|assumption]. rewrite <- cross_IZR in H. apply le_IZR in H.
      destruct (0 <=? cross_lo_hi x y x0 y0 x1 y1)%Z eqn:E; [reflexivity | lia].
    + destruct (0 <=? cross_lo_hi x y x0 y0 x1 y1)%Z eqn:E; [|reflexivity].
      exfalso. apply H. apply crosses_up; [assumption|]. rewrite <- cross_IZR. apply IZR_le. lia.
  - destruct ((y1 <? y)%Z && (y <=? y0)%Z) eqn:E2.
    + assert (Hlt : IZR y1 < IZR y0) by (apply IZR_lt; lia).
      destruct (y <=? y1)%Z eqn:Ea; [lia|]. destruct (y <=? y0)%Z eqn:Eb; [|lia].
      assert (Hc : (IZR x0 - IZR x) * (IZR y1 - IZR y) - (IZR y0 - IZR y) * (IZR x1 - IZR x)
                   = - IZR (cross_lo_hi x y x1 y1 x0 y0)) by (rewrite cross_IZR; ring).
      destruct (Rle_dec (IZR x) (X_at (IZR x0, IZR y0) (IZR x1, IZR y1) (IZR y))) as [H|H].
      * apply crosses_down in H; [|assumption]. rewrite Hc in H.
        assert (H' : 0 <= IZR (cross_lo_hi x y x1 y1 x0 y0)) by lra. apply le_IZR in H'.
        destruct (0 <=? cross_lo_hi x y x1 y1 x0 y0)%Z eqn:E; [reflexivity | lia].
      * destruct (0 <=? cross_lo_hi x y x1 y1 x0 y0)%Z eqn:E; [|reflexivity].
        exfalso. apply H. apply crosses_down; [assumption|]. rewrite Hc.
        assert (0 <= IZR (cross_lo_hi x y x1 y1 x0 y0)) by (apply IZR_le; lia). lra.
    + destruct (y <=? y1)%Z eqn:Ea; destruct (y <=? y0)%Z eqn:Eb; try lia;
        destruct (Rle_dec _ _); reflexivity.
Qed.

Close Scope R_scope.

(* ---- per edge, per ring, per polygon ---- *)

Theorem pip_edge_refines : forall x y (A B : pt),
  pip_edge x y (A, B) = wn_edge (IZR x, IZR y) (inj A) (inj B).
Proof.
  intros x y [x0 y0] [x1 y1]. unfold inj; cbn [fst snd].
  now rewrite pip_edge_cases, wn_edge_cases.
Qed.

Lemma fold_left_add_zsum : forall {A} (f : A -> Z) (l : list A) (acc : Z),
  fold_left (fun a e => (a + f e)%Z) l acc = (acc + zsum (map f l))%Z.
Proof.
  intros A f l. induction l as [|e l IH]; intros acc; simpl.
  - lia.
  - rewrite IH. unfold zsum. lia.
Qed.

Lemma consec_map : forall {A B} (f : A -> B) (l : list A),
  consec (map f l) = map (fun e => (f (fst e), f (snd e))) (consec l).
Proof.
  intros A B f l. destruct l as [|a l]; [reflexivity|]. revert a.
  induction l as [|b l IH]; intros a; [reflexivity|].
  change (consec (map f (a :: b :: l))) with ((f a, f b) :: consec (map f (b :: l))).
  now rewrite IH.
Qed.

Lemma edges_consec : forall ps : list pt, edges ps = consec ps.
Proof.
  intros ps. destruct ps as [|a l]; [reflexivity|]. revert a.
  induction l as [|b l IH]; intros a; [reflexivity|].
  change (edges (a :: b :: l)) with ((a, b) :: edges (b :: l)).
  now rewrite IH.
Qed.

Lemma pip_ring_refines : forall x y ring,
  pip_ring x y ring = wn_ring (IZR x, IZR y) (ring_of ring).
Proof.
  intros. unfold pip_ring, wn_ring, ring_of. rewrite fold_left_add_zsum, Z.add_0_l.
  rewrite consec_map, map_map, edges_consec. f_equal. apply map_ext.
  intros [A B]. cbn [fst snd]. apply pip_edge_refines.
Qed.

Lemma winding_number_refines : forall x y values offs,
  winding_number x y values offs = wn (IZR x, IZR y) (map ring_of (rings_of values offs)).
Proof.
  intros. unfold winding_number, wn. rewrite fold_left_add_zsum, Z.add_0_l, map_map.
  f_equal. apply map_ext. intros r. apply pip_ring_refines.
Qed.

Theorem pip_refines_wn : forall x y values offs,
  point_intersects_polygon x y values offs =
  negb (wn (IZR x, IZR y) (map ring_of (rings_of values offs)) =? 0)%Z.
Proof. intros. unfold point_intersects_polygon. now rewrite winding_number_refines. Qed.
