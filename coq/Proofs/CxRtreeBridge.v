(* C04 x C03, closing the last case of .cx through the real R-tree model.

   Proofs/CxProofs.v / CxBounds.v / CxExtent.v already run .cx through the tree of
   Model/Rtree.v ([build_sindex] = HilbertRtree over the array's bounds rows, any key
   permutation, any page size) but only for data WITH an extent
   ([g_total_bounds g = (Some _, Some _, Some _, Some _)]).  Here:

   * [extent_cases]: a modelled array either has a finite extent, or its total_bounds is
     all NaN and then every bounds row is NaN (total_bounds = the NaN-ignoring union of the
     rows, via C04_root_is_extent and C03_total_bounds_box);
   * [get_bounds_same]: the box _get_bounds computes from the tree's root box is the box it
     computes from total_bounds -- for every key, with or without extent;
   * data without extent: a key with an omitted end gets a NaN end and the model's NaN-end
     branches answer "nothing" on both paths ([cx_noextent_open]); and "nothing" is the
     specified answer, because such data intersects no box at all and the tree built over it
     answers ([], []) to every finite query ([no_extent_nothing]);
   * [cx_rtree_closed]: the statement of C04 without the premise "the data has an extent". *)
From Coq Require Import ZArith List Bool Arith Lia Permutation.
From SP Require Import Model.Num Model.Arrow Model.Bounds Model.PointKernels
     Model.Intersect Model.Rtree Model.Cx.
From SP Require Import Spec.BoundsSpec Spec.Boxes Spec.IntersectSpec Spec.CxSpec.
From SP Require Import Proofs.BoundsProofs Proofs.RtreeLists Proofs.RtreeProofs
     Proofs.IntersectBase Proofs.IntersectBounds
     Proofs.CxLists Proofs.CxProofs Proofs.CxKinds Proofs.CxBounds Proofs.CxExtent.
Import ListNotations.
Local Open Scope nat_scope.

(* ------------------------------------------------ bounds rows: all NaN or all finite *)
Definition uniform (b : bbox) : Prop :=
  b = nanbox \/ exists x0 y0 x1 y1 : Z, b = (Some x0, Some y0, Some x1, Some y1).

Lemma zb_uniform : forall seg, uniform (zbounds seg).
Proof.
  intros seg. destruct (zpairs seg) as [|p ps] eqn:E.
  - left. apply zbounds_nil, E.
  - right. destruct (zbounds_cons seg p ps E) as (a & b & c & d & Eb & _). now exists a, b, c, d.
Qed.

Lemma la_rows_uniform : forall a vals, wf_listarr a = true ->
  finite_vals (buffer_values a) = Some vals -> Forall uniform (la_bounds a).
Proof.
  intros a vals W F. apply Forall_forall. intros b Hb.
  destruct (In_nth _ _ nanbox Hb) as [i [Hi <-]].
  rewrite (la_bounds_length a W) in Hi.
  rewrite (la_bb a vals i W F Hi). apply zb_uniform.
Qed.

Lemma fa_rows_uniform : forall a slots, wf_fixarr a = true ->
  all_some (map (point_slot a) (seq 0 (fa_len a))) = Some slots -> Forall uniform (fa_bounds a).
Proof.
  intros a slots W AS. apply Forall_forall. intros b Hb.
  destruct (In_nth _ _ nanbox Hb) as [i [Hi <-]].
  pose proof (k_bounds_len _ (point_ok a slots W AS)) as L. cbn [g_bounds g_len] in L.
  rewrite L in Hi.
  pose proof (point_row a slots W AS i Hi) as R. unfold bb in R. cbn [g_bounds] in R. rewrite R.
  destruct (nth i slots None) as [[x y]|]; [right; now exists x, y, x, y | left; reflexivity].
Qed.

Lemma rows_uniform : forall g, g_modelled g -> Forall uniform (g_bounds g).
Proof.
  intros [a|a|a|a|a|a] M; cbn in M; cbn [g_bounds].
  - destruct M as [W [slots AS]]. eapply fa_rows_uniform; eassumption.
  - destruct M as [W [vals F]]. eapply la_rows_uniform; eassumption.
  - destruct M as [W [vals F]]. eapply la_rows_uniform; eassumption.
  - destruct M as [[W [vals F]] _]. eapply la_rows_uniform; eassumption.
  - destruct M as [[W [vals F]] _]. eapply la_rows_uniform; eassumption.
  - destruct M as [[W [vals F]] _]. eapply la_rows_uniform; eassumption.
Qed.

Lemma norm_uniform : forall b, uniform b -> norm_row (row_of_bbox b) = row_of_bbox b.
Proof. intros b [-> | (x0 & y0 & x1 & y1 & ->)]; reflexivity. Qed.

Lemma map_norm_uniform : forall bs, Forall uniform bs ->
  map norm_row (map row_of_bbox bs) = map row_of_bbox bs.
Proof.
  intros bs H. rewrite map_map. apply map_ext_in. intros b Hb. apply norm_uniform.
  rewrite Forall_forall in H. apply H, Hb.
Qed.

(* ------------------------------- total_bounds = NaN-ignoring union of the bounds rows *)
Lemma root_is_fold : forall g keys ps,
  g_modelled g -> Permutation keys (seq 0 (g_len g)) ->
  unpack4 (total_bounds (sindex_build g keys ps)) = fold_right bunion nanbox (g_bounds g).
Proof.
  intros g keys ps M P. unfold sindex_build.
  pose proof (kinds_ok g M) as K.
  rewrite C03_total_bounds_box.
  - rewrite (map_norm_uniform _ (rows_uniform g M)). apply cols_fold.
  - lia.
  - apply (wf_len 2), (k_wf_box g K).
  - rewrite map_length, (k_bounds_len g K). exact P.
Qed.

Lemma total_is_fold : forall g, g_modelled g -> g_even_outer g ->
  g_total_bounds g = fold_right bunion nanbox (g_bounds g).
Proof.
  intros g M E.
  pose proof (root_is_extent g (seq 0 (g_len g)) 1 M E (Permutation_refl _)) as R.
  unfold extent_of in R. cbn [build_sindex new_obj go_sindex go_data] in R.
  rewrite <- R. apply root_is_fold; [exact M | apply Permutation_refl].
Qed.

Lemma bunion_uniform : forall p q, uniform p -> uniform q -> uniform (bunion p q).
Proof.
  intros p q [-> | (a & b & c & d & ->)] [-> | (a' & b' & c' & d' & ->)]; cbn.
  - left; reflexivity.
  - right; now exists a', b', c', d'.
  - right; now exists a, b, c, d.
  - right; now exists (Z.min a a'), (Z.min b b'), (Z.max c c'), (Z.max d d').
Qed.

Lemma fold_uniform : forall bs, Forall uniform bs -> uniform (fold_right bunion nanbox bs).
Proof.
  induction bs as [|b t IH]; intros H; [left; reflexivity|].
  inversion H; subst. cbn [fold_right]. apply bunion_uniform; [assumption | apply IH; assumption].
Qed.

Lemma fold_nan_all : forall bs, Forall uniform bs ->
  fold_right bunion nanbox bs = nanbox -> forallb bbox_isnan bs = true.
Proof.
  induction bs as [|b t IH]; intros H E; [reflexivity|].
  inversion H as [|? ? Hb Ht]; subst. cbn [fold_right] in E. cbn [forallb].
  destruct Hb as [-> | (a & b' & c & d & ->)].
  - cbn [bbox_isnan nanbox isnan andb]. apply IH; [exact Ht|].
    destruct (fold_right bunion nanbox t) as [[[a b] c] d]. exact E.
  - destruct (fold_right bunion nanbox t) as [[[[a2|] b2] c2] d2]; discriminate E.
Qed.

(* a modelled array has a finite extent, or none at all *)
Theorem extent_cases : forall g, g_modelled g -> g_even_outer g ->
  (exists ex0 ey0 ex1 ey1 : Z, g_total_bounds g = (Some ex0, Some ey0, Some ex1, Some ey1)) \/
  (g_total_bounds g = nanbox /\ forallb bbox_isnan (g_bounds g) = true).
Proof.
  intros g M E. pose proof (total_is_fold g M E) as T.
  destruct (fold_uniform _ (rows_uniform g M)) as [N | F].
  - right. split; [now rewrite T|]. apply fold_nan_all; [apply rows_uniform, M | exact N].
  - left. rewrite T. exact F.
Qed.

(* ------------------------------------ the box from the root box = the box from total_bounds *)
Theorem get_bounds_same : forall g keys ps xs ys,
  g_modelled g -> g_even_outer g -> Permutation keys (seq 0 (g_len g)) ->
  get_bounds (build_sindex (new_obj g) keys ps) xs ys = get_bounds (new_obj g) xs ys.
Proof.
  intros g keys ps xs ys M E P.
  pose proof (root_is_extent g keys ps M E P) as R.
  unfold extent_of in R. cbn [build_sindex new_obj go_sindex go_data] in R.
  unfold get_bounds. cbn [build_sindex new_obj go_sindex go_data]. rewrite R. reflexivity.
Qed.

(* ------------------------------------------------------------ data without an extent *)
(* the key leaves an end open *)
Definition open_end (xs ys : axis_key) : bool :=
  match key_ends xs, key_ends ys with
  | (Some _, Some _), (Some _, Some _) => false
  | _, _ => true
  end.

Lemma get_bounds_nan_end : forall o xs ys,
  key_has_step xs = false -> key_has_step ys = false ->
  extent_of o = nanbox -> open_end xs ys = true ->
  exists x0 x1 y0 y1, get_bounds o xs ys = Some (x0, x1, y0, y1) /\
    (x0 = None \/ x1 = None \/ y0 = None \/ y1 = None).
Proof.
  intros o xs ys Sx Sy E O. unfold get_bounds. unfold extent_of in E. rewrite E. unfold nanbox.
  destruct xs as [vx|[ax|] [bx|] [sx|]]; try discriminate Sx;
  destruct ys as [vy|[ay|] [by_|] [sy|]]; try discriminate Sy;
  try discriminate O; cbn [as_slice or_default];
  repeat match goal with
         | |- context [nlt (Some ?u) (Some ?v)] => destruct (nlt (Some u) (Some v))
         end;
  cbn [nlt]; do 4 eexists; (split; [reflexivity|]); tauto.
Qed.

(* an omitted end on data without extent: nothing is selected, on both paths *)
Theorem cx_noextent_open : forall g keys ps xs ys,
  g_modelled g -> g_even_outer g -> Permutation keys (seq 0 (g_len g)) ->
  key_has_step xs = false -> key_has_step ys = false ->
  g_total_bounds g = nanbox -> open_end xs ys = true ->
  cx_positions (build_sindex (new_obj g) keys ps) xs ys = inr [] /\
  cx_positions (new_obj g) xs ys = inr [].
Proof.
  intros g keys ps xs ys M E P Sx Sy N O.
  destruct (extent_cases g M E) as [(a & b & c & d & F) | [_ AllNan]];
    [rewrite F in N; discriminate N|].
  pose proof (root_is_extent g keys ps M E P) as R. rewrite N in R.
  assert (E0 : extent_of (new_obj g) = nanbox) by exact N.
  split.
  - destruct (get_bounds_nan_end _ xs ys Sx Sy R O) as (x0 & x1 & y0 & y1 & GB & Hn).
    unfold cx_positions. rewrite GB. cbn [build_sindex new_obj go_sindex go_data].
    unfold extent_of in R. cbn [build_sindex new_obj go_sindex go_data] in R.
    assert (C0 : isnan (col 0 (total_bounds (sindex_build g keys ps))) = true).
    { unfold unpack4, nanbox in R. injection R as H0 _ _ _. rewrite H0. reflexivity. }
    destruct x0, y0, x1, y1; try (rewrite C0; reflexivity).
    destruct Hn as [H|[H|[H|H]]]; discriminate H.
  - destruct (get_bounds_nan_end _ xs ys Sx Sy E0 O) as (x0 & x1 & y0 & y1 & GB & Hn).
    unfold cx_positions. rewrite GB. cbn [new_obj go_sindex go_data]. rewrite AllNan.
    destruct x0, y0, x1, y1; try reflexivity.
    destruct Hn as [H|[H|[H|H]]]; discriminate H.
Qed.

(* ... and "nothing" is the specified answer: such data intersects no box, and the tree
   built over it (any keys, any page size) answers nothing to any finite query *)
Theorem no_extent_nothing : forall g,
  g_modelled g -> g_even_outer g -> g_total_bounds g = nanbox ->
  (forall x0 y0 x1 y1, (x0 <= x1)%Z -> (y0 <= y1)%Z -> cx_spec g (x0, y0, x1, y1) = []) /\
  (forall keys ps q, Permutation keys (seq 0 (g_len g)) -> length q = 4 ->
     covers_overlaps (sindex_build g keys ps) q = ([], []) /\
     intersects (sindex_build g keys ps) q = []).
Proof.
  intros g M E N.
  destruct (extent_cases g M E) as [(a & b & c & d & F) | [_ AllNan]];
    [rewrite F in N; discriminate N|].
  pose proof (kinds_ok g M) as K.
  split.
  - intros x0 y0 x1 y1 Hx Hy. now apply no_extent_selects_nothing.
  - intros keys ps q P Hq. unfold sindex_build.
    set (rows := map row_of_bbox (g_bounds g)).
    assert (Hn : length rows = g_len g) by (unfold rows; rewrite map_length; apply (k_bounds_len g K)).
    assert (P' : Permutation keys (seq 0 (length rows))) by (rewrite Hn; exact P).
    pose proof (k_wf_box g K) as Hwf. fold rows in Hwf.
    assert (Hd : 1 <= 2) by lia. assert (Hq' : length q = 2 * 2) by exact Hq.
    assert (NF : forall i, i < length rows -> row_finite (nth i rows []) = false).
    { intros i Hi. unfold rows. rewrite nth_rows by (rewrite Hn, <- (k_bounds_len g K) in Hi; exact Hi).
      rewrite forallb_forall in AllNan.
      assert (Hb : bbox_isnan (bb g i) = true).
      { apply AllNan. unfold bb. apply nth_In. rewrite Hn, <- (k_bounds_len g K) in Hi. exact Hi. }
      destruct (bb g i) as [[[b0 b1] b2] b3]. cbn in Hb. destruct b0; [discriminate Hb | reflexivity]. }
    assert (NoI : forall l : list nat, (forall i, In i l -> i < length rows /\ False) -> l = []).
    { intros [|x t] H; [reflexivity|]. destruct (H x (or_introl eq_refl)) as [_ []]. }
    split.
    + pose proof (fun i => C03_covers_In 2 rows keys ps q i Hd Hwf P' Hq') as HC.
      pose proof (fun i => C03_overlaps_In 2 rows keys ps q i Hd Hwf P' Hq') as HO.
      destruct (covers_overlaps (build 2 rows keys ps) q) as [cv ov]. cbn [fst snd] in HC, HO.
      f_equal; apply NoI; intros i Hi.
      * apply HC in Hi. destruct Hi as [Hi Hc]. split; [exact Hi|].
        apply coveredb_finite in Hc. rewrite (NF i Hi) in Hc. discriminate Hc.
      * apply HO in Hi. destruct Hi as [Hi [Hc _]]. split; [exact Hi|].
        apply overlapsb_finite in Hc. rewrite (NF i Hi) in Hc. discriminate Hc.
    + apply NoI. intros i Hi.
      apply (C03_intersects_In 2 rows keys ps q i Hd Hwf P' Hq') in Hi. destruct Hi as [Hi Hc].
      split; [exact Hi|]. apply overlapsb_finite in Hc. rewrite (NF i Hi) in Hc. discriminate Hc.
Qed.

(* -------------------------------------------------------------------- in one piece *)
(* the box a key denotes on the array: omitted ends are the data extent; on data without
   extent only a key with four explicit ends denotes a box *)
Definition cx_box (g : garr) (xs ys : axis_key) : option box :=
  match g_total_bounds g with
  | (Some ex0, Some ey0, Some ex1, Some ey1) => Some (spec_box xs ys (ex0, ey0, ex1, ey1))
  | _ =>
      match key_ends xs, key_ends ys with
      | (Some a, Some c), (Some b, Some d) => Some (Z.min a c, Z.min b d, Z.max a c, Z.max b d)
      | _, _ => None
      end
  end.

(* the rows .cx must select: those intersecting the box; none when there is no box *)
Definition cx_answer (g : garr) (xs ys : axis_key) : list nat :=
  match cx_box g xs ys with Some b => cx_spec g b | None => [] end.

Definition rows_answer {A} (g : garr) (xs ys : axis_key) (rows : list A) : list A :=
  match cx_box g xs ys with Some b => rows_spec g b rows | None => [] end.

Lemma cx_box_explicit : forall g xs ys a b c d,
  key_ends xs = (Some a, Some c) -> key_ends ys = (Some b, Some d) ->
  cx_box g xs ys = Some (Z.min a c, Z.min b d, Z.max a c, Z.max b d).
Proof.
  intros g xs ys a b c d Ex Ey. unfold cx_box.
  destruct (g_total_bounds g) as [[[[e0|] [e1|]] [e2|]] [e3|]]; rewrite ?Ex, ?Ey; try reflexivity.
  unfold spec_box, spec_axis. rewrite Ex, Ey. reflexivity.
Qed.

Lemma open_end_false : forall xs ys, open_end xs ys = false ->
  exists a b c d, key_ends xs = (Some a, Some c) /\ key_ends ys = (Some b, Some d).
Proof.
  intros xs ys H. unfold open_end in H.
  destruct (key_ends xs) as [[a|] [c|]]; try discriminate H;
  destruct (key_ends ys) as [[b|] [d|]]; try discriminate H.
  now exists a, b, c, d.
Qed.

Theorem cx_rtree_closed : forall g keys ps xs ys,
  g_modelled g -> g_even_outer g ->
  Permutation keys (seq 0 (g_len g)) ->
  key_has_step xs = false -> key_has_step ys = false ->
  (forall b, cx_box g xs ys = Some b -> positive_box b) ->
  get_bounds (build_sindex (new_obj g) keys ps) xs ys = get_bounds (new_obj g) xs ys /\
  cx_positions (build_sindex (new_obj g) keys ps) xs ys = inr (cx_answer g xs ys) /\
  cx_positions (new_obj g) xs ys = inr (cx_answer g xs ys).
Proof.
  intros g keys ps xs ys M E P Sx Sy Pos.
  split; [apply get_bounds_same; assumption|].
  destruct (extent_cases g M E) as [(ex0 & ey0 & ex1 & ey1 & F) | [N AllNan]].
  - (* data with an extent *)
    assert (B : cx_box g xs ys = Some (spec_box xs ys (ex0, ey0, ex1, ey1)))
      by (unfold cx_box; rewrite F; reflexivity).
    unfold cx_answer. rewrite B.
    pose proof (selects_exact_noindex_key g xs ys ex0 ey0 ex1 ey1 M Sx Sy F) as H0.
    split; [|exact H0].
    rewrite (index_irrelevant_open_ends g keys ps xs ys ex0 ey0 ex1 ey1); try assumption.
    apply Pos, B.
  - (* data without extent *)
    destruct (open_end xs ys) eqn:O.
    + assert (B : cx_box g xs ys = None).
      { unfold cx_box. rewrite N. unfold nanbox. unfold open_end in O.
        destruct (key_ends xs) as [[a|] [c|]]; try reflexivity;
        destruct (key_ends ys) as [[b|] [d|]]; try reflexivity. discriminate O. }
      unfold cx_answer. rewrite B. apply cx_noextent_open; assumption.
    + destruct (open_end_false xs ys O) as (a & b & c & d & Ex & Ey).
      pose proof (cx_box_explicit g xs ys a b c d Ex Ey) as B.
      unfold cx_answer. rewrite B.
      pose proof (Pos _ B) as [Px Py].
      pose proof (kinds_ok g M) as K.
      split.
      * apply selects_exact_index; try assumption.
        apply (get_bounds_explicit _ xs ys a b c d Sx Sy Ex Ey).
      * apply selects_exact_noindex; [exact K|].
        apply (get_bounds_explicit _ xs ys a b c d Sx Sy Ex Ey).
Qed.

(* the rows of a container aligned with the array *)
Theorem cx_rows_rtree_closed : forall A g (rows : list A) keys ps xs ys,
  g_modelled g -> g_even_outer g ->
  length rows = g_len g ->
  Permutation keys (seq 0 (g_len g)) ->
  key_has_step xs = false -> key_has_step ys = false ->
  (forall b, cx_box g xs ys = Some b -> positive_box b) ->
  cx_rows (build_sindex (new_obj g) keys ps) rows xs ys = Some (rows_answer g xs ys rows) /\
  cx_rows (new_obj g) rows xs ys = Some (rows_answer g xs ys rows).
Proof.
  intros A g rows keys ps xs ys M E L P Sx Sy Pos.
  destruct (cx_rtree_closed g keys ps xs ys M E P Sx Sy Pos) as (_ & H1 & H0).
  unfold cx_answer in H1, H0. unfold rows_answer.
  destruct (cx_box g xs ys) as [b|].
  - split; apply rows_travel; assumption.
  - unfold cx_rows. rewrite H1, H0. destruct rows; split; reflexivity.
Qed.
