(* Lemma library for C17, part 2: the Hilbert R-tree with NaN rows (from C03). *)
From Coq Require Import ZArith List Bool Arith Lia Permutation.
From SP Require Import Model.Num Model.Rtree Model.Inert Spec.Boxes Spec.InertSpec
                       Proofs.InertProofs Proofs.RtreeProofs.
Import ListNotations.
Local Open Scope nat_scope.

Lemma nan_row_not_finite : forall r, nan_row r = true -> row_finite r = false.
Proof.
  intros r H. unfold nan_row in H. apply existsb_exists in H. destruct H as (x & Hx & Hn).
  unfold row_finite. destruct (forallb (fun x => negb (isnan x)) r) eqn:E; [|reflexivity].
  rewrite forallb_forall in E. specialize (E x Hx). rewrite Hn in E. discriminate E.
Qed.

Lemma overlapsb_nan_row : forall d q r, nan_row r = true -> overlapsb d r q = false.
Proof. intros d q r H. unfold overlapsb. rewrite (nan_row_not_finite r H). reflexivity. Qed.

Lemma coveredb_nan_row : forall d q r, nan_row r = true -> coveredb d r q = false.
Proof. intros d q r H. unfold coveredb. rewrite (nan_row_not_finite r H). reflexivity. Qed.

Lemma partialb_nan_row : forall d q r, nan_row r = true ->
  overlapsb d r q && negb (coveredb d r q) = false.
Proof. intros d q r H. rewrite (overlapsb_nan_row d q r H). reflexivity. Qed.

Lemma Forall_filter : forall A (Q : A -> Prop) (f : A -> bool) l,
  Forall Q l -> Forall Q (filter f l).
Proof.
  intros A Q f l H. apply Forall_forall. intros x Hx. apply filter_In in Hx.
  rewrite Forall_forall in H. apply H, Hx.
Qed.

Section Rtree.
  Variables (d : nat) (rows' : list row) (keys' keys : list nat) (ps' ps : nat) (q : list Z).
  (* the rows with NaN rows anywhere, the rows without them, any two curve
     orders, any two page sizes *)
  Let rows := filter (fun r => negb (nan_row r)) rows'.
  Hypothesis Hd : 1 <= d.
  Hypothesis Hwf : Forall (wf_box d) rows'.
  Hypothesis Hk' : Permutation keys' (seq 0 (length rows')).
  Hypothesis Hk : Permutation keys (seq 0 (length rows)).
  Hypothesis Hq : length q = 2 * d.

  Let T' := build d rows' keys' ps'.
  Let T := build d rows keys ps.

  Lemma rows_wf : Forall (wf_box d) rows.
  Proof. apply Forall_filter, Hwf. Qed.

  Lemma rows_insert : insert_inert nan_row rows rows'.
  Proof. reflexivity. Qed.

  (* (a) a NaN row is never returned *)
  Lemma rtree_intersects_never_nan : forall i,
    In i (intersects T' q) -> i < length rows' /\ nan_row (nth i rows' []) = false.
  Proof.
    intros i Hi. apply (C03_intersects_In d rows' keys' ps' q i Hd Hwf Hk' Hq) in Hi.
    destruct Hi as [Hlt Ho]. split; [exact Hlt|].
    destruct (nan_row (nth i rows' [])) eqn:E; [|reflexivity].
    rewrite (overlapsb_nan_row d q _ E) in Ho. discriminate Ho.
  Qed.

  Lemma rtree_covers_never_nan : forall i,
    In i (fst (covers_overlaps T' q)) -> i < length rows' /\ nan_row (nth i rows' []) = false.
  Proof.
    intros i Hi. apply (C03_covers_In d rows' keys' ps' q i Hd Hwf Hk' Hq) in Hi.
    destruct Hi as [Hlt Ho]. split; [exact Hlt|].
    destruct (nan_row (nth i rows' [])) eqn:E; [|reflexivity].
    rewrite (coveredb_nan_row d q _ E) in Ho. discriminate Ho.
  Qed.

  Lemma rtree_overlaps_never_nan : forall i,
    In i (snd (covers_overlaps T' q)) -> i < length rows' /\ nan_row (nth i rows' []) = false.
  Proof.
    intros i Hi. apply (C03_overlaps_In d rows' keys' ps' q i Hd Hwf Hk' Hq) in Hi.
    destruct Hi as (Hlt & Ho & _). split; [exact Hlt|].
    destruct (nan_row (nth i rows' [])) eqn:E; [|reflexivity].
    rewrite (overlapsb_nan_row d q _ E) in Ho. discriminate Ho.
  Qed.

  (* (b) the answers are the renumbered answers of the index without the NaN rows *)
  Lemma rtree_intersects_others_unchanged :
    Permutation (intersects T' q) (map (Inert.renumber (map nan_row rows')) (intersects T q)).
  Proof.
    apply (exact_answers_inert_invariant row nan_row (fun r => overlapsb d r q)
             (overlapsb_nan_row d q) rows rows' (intersects T q) (intersects T' q) rows_insert).
    - rewrite (positions_filter_seq _ _ rows' []).
      apply C03_intersects; assumption.
    - rewrite (positions_filter_seq _ _ rows []).
      apply C03_intersects; try assumption. apply rows_wf.
  Qed.

  Lemma rtree_covers_others_unchanged :
    Permutation (fst (covers_overlaps T' q))
                (map (Inert.renumber (map nan_row rows')) (fst (covers_overlaps T q))).
  Proof.
    apply (exact_answers_inert_invariant row nan_row (fun r => coveredb d r q)
             (coveredb_nan_row d q) rows rows' _ _ rows_insert).
    - rewrite (positions_filter_seq _ _ rows' []).
      apply C03_covers_overlaps; assumption.
    - rewrite (positions_filter_seq _ _ rows []).
      apply C03_covers_overlaps; try assumption. apply rows_wf.
  Qed.

  Lemma rtree_overlaps_others_unchanged :
    Permutation (snd (covers_overlaps T' q))
                (map (Inert.renumber (map nan_row rows')) (snd (covers_overlaps T q))).
  Proof.
    apply (exact_answers_inert_invariant row nan_row
             (fun r => overlapsb d r q && negb (coveredb d r q))
             (partialb_nan_row d q) rows rows' _ _ rows_insert).
    - rewrite (positions_filter_seq _ _ rows' []).
      apply C03_covers_overlaps; assumption.
    - rewrite (positions_filter_seq _ _ rows []).
      apply C03_covers_overlaps; try assumption. apply rows_wf.
  Qed.
End Rtree.

Lemma rtree_never_returned : forall d rows keys ps q,
  1 <= d -> Forall (wf_box d) rows -> Permutation keys (seq 0 (length rows)) ->
  length q = 2 * d ->
  forall i,
    (In i (intersects (build d rows keys ps) q) \/
     In i (fst (covers_overlaps (build d rows keys ps) q)) \/
     In i (snd (covers_overlaps (build d rows keys ps) q))) ->
    i < length rows /\ nan_row (nth i rows []) = false.
Proof.
  intros d rows keys ps q Hd Hwf Hk Hq i [H|[H|H]].
  - exact (rtree_intersects_never_nan d rows keys ps q Hd Hwf Hk Hq i H).
  - exact (rtree_covers_never_nan d rows keys ps q Hd Hwf Hk Hq i H).
  - exact (rtree_overlaps_never_nan d rows keys ps q Hd Hwf Hk Hq i H).
Qed.
