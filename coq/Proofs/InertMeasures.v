(* Lemma library for C17, part 3: measures of missing elements (from C14). *)
From Coq Require Import ZArith List Bool Arith Lia.
From SP Require Import Model.Num Model.Arrow Model.Measures Model.Inert
                       Spec.MeasuresSpec Proofs.BoundsProofs Proofs.MeasuresArrayProofs.
Import ListNotations.
Local Open Scope nat_scope.

(* from C14's [array_is_map]: the row of a missing element is NaN.  The defaults
   of [nth] are non-NaN values, so the statement is not true by default. *)
Lemma measures_missing_nan : forall k a i dl,
  length (la_offs a) = depth k -> wf_listarr a = true -> even_inner a = true ->
  i < la_len a -> isna_at (la_valid a) (la_off a) i = true ->
  nth i (arr_area k a) (Some 0%Z) = None /\
  nth i (arr_length k a) (Some dl) = None.
Proof.
  intros k a i dl Hd Hwf Hev Hi Hna.
  destruct (array_is_map k a Hd Hwf Hev) as [Ha Hl].
  rewrite Ha, Hl. rewrite !nth_map_seq by exact Hi. rewrite Hna. split; reflexivity.
Qed.

Lemma measures_length_rows : forall k a,
  length (la_offs a) = depth k -> wf_listarr a = true -> even_inner a = true ->
  length (arr_area k a) = la_len a /\ length (arr_length k a) = la_len a.
Proof.
  intros k a Hd Hwf Hev. destruct (array_is_map k a Hd Hwf Hev) as [Ha Hl].
  rewrite Ha, Hl, !map_length, !seq_length. split; reflexivity.
Qed.

Lemma fa_isna_nth : forall a i, i < fa_len a ->
  nth i (fa_isna a) false = isna_at (fa_valid a) (fa_off a) i.
Proof. intros a i H. unfold fa_isna. apply nth_map_seq. exact H. Qed.

Lemma pt_measures_missing_nan : forall a i dl,
  i < fa_len a -> isna_at (fa_valid a) (fa_off a) i = true ->
  nth i (pt_area a) (Some 0%Z) = None /\ nth i (pt_length a) (Some dl) = None.
Proof.
  intros a i dl Hi Hna. unfold pt_area, pt_length, zeros_nan, fa_isna.
  rewrite !map_map. rewrite !nth_map_seq by exact Hi. rewrite Hna. split; reflexivity.
Qed.
