(* C07, n = 2, EVERY order p: the model of coordinate_from_distance is the classical
   Hilbert curve [hilbert_ref] of Spec/Curve.v.

   Route (bit level).  Write X_j, Y_j for bit j of the two coordinates.
   * transpose:     X_j = h_(2j+1), Y_j = h_(2j)                       (h2t_testbit)
   * Gray decode:   X'_j = h_(2j+1) xor h_(2j+2), Y'_j = h_(2j+1) xor h_(2j)
   * undo excess:   level k (Q = 2^k) reads (X'_k, Y'_k) and applies ONE of four
                    symmetries of the square ([Tstep]: swap / swap+flip / flip / id)
                    to every bit pair below k; so the final bit pair m is the
                    gray-decoded pair m pushed through the levels m+1 .. p-1 ([ubf]).
   * classical:     bit pair m of [hilbert_ref p h] is the quadrant position of digit m
                    pushed through the quadrant symmetries (transpose / id / id /
                    anti-transpose) of the digits m+1 .. p-1 ([rb]).
   * the two top-down recursions agree up to a flip of x governed by the low bit of the
     digit above ("carry" of the Gray code): a 32-case check ([core_step]). *)
From Coq Require Import NArith List Bool Arith Lia.
From SP Require Import Model.Hilbert Spec.Curve Proofs.HilbertLists Proofs.HilbertExcess
     Proofs.HilbertGray Proofs.HilbertTranspose Proofs.HilbertRoundtrip Proofs.HilbertCurveRef.
Import ListNotations.
Local Open Scope N_scope.

(* ======================================================================== *)
(* 1. bits of the transpose                                                  *)

Lemma nth_bitsL : forall k v m, (m < k)%nat ->
    nth m (bitsL v k) 0 = N.b2n (N.testbit v (N.of_nat m)).
Proof.
  induction k as [|k IH]; intros v m Hm; [lia|]. cbn [bitsL].
  destruct m as [|m].
  - cbn [nth]. symmetry. apply N.bit0_mod.
  - cbn [nth]. rewrite IH by lia. rewrite N.shiftr_spec'. do 2 f_equal. lia.
Qed.

Lemma testbit_valL : forall l (f : nat -> bool),
    (forall j, (j < length l)%nat -> nth j l 0 = N.b2n (f j)) ->
    forall j, N.testbit (valL l) (N.of_nat j) = if (j <? length l)%nat then f j else false.
Proof.
  induction l as [|x t IH]; intros f Hf j.
  - cbn [valL length]. rewrite N.bits_0. destruct (Nat.ltb_spec j 0); [lia|reflexivity].
  - cbn [valL length].
    assert (H0 : nth 0 (x :: t) 0 = N.b2n (f 0%nat)) by (apply Hf; cbn [length]; lia).
    cbn [nth] in H0. rewrite H0.
    rewrite N.add_comm.
    destruct j as [|j].
    + cbn [N.of_nat]. rewrite N.testbit_0_r. reflexivity.
    + rewrite Nat2N.inj_succ, N.testbit_succ_r.
      rewrite (IH (fun i => f (S i))).
      * reflexivity.
      * intros i Hi. apply (Hf (S i)). cbn [length]. lia.
Qed.

(* bit j of coordinate i of the transpose of h is bit n*j + (n-1-i) of h *)
Lemma h2t_testbit : forall p n h i j, (1 <= p)%nat -> (i < n)%nat ->
    N.testbit (getc (hilbert_integer_to_transpose p h n) i) (N.of_nat j)
    = if (j <? p)%nat then N.testbit h (N.of_nat (j * n + (n - 1 - i))) else false.
Proof.
  intros p n h i j Hp Hi. unfold getc, hilbert_integer_to_transpose. cbv zeta.
  rewrite nth_map_seq by assumption.
  rewrite int_2_binary_eq, binary_2_int_eq.
  set (B := rev (bitsL h (p * n))).
  assert (HB : length B = (p * n)%nat) by (unfold B; now rewrite rev_length, bitsL_length).
  assert (Hl : length (strided i n B) = p) by (apply strided_length; lia).
  rewrite (testbit_valL _ (fun j => N.testbit h (N.of_nat (j * n + (n - 1 - i))))).
  - now rewrite rev_length, Hl.
  - intros k Hk. rewrite rev_length, Hl in Hk.
    rewrite rev_nth by lia. rewrite Hl, strided_nth by lia.
    assert (Hin : (i + (p - S k) * n < p * n)%nat).
    { pose proof (Nat.mul_le_mono_r (S (p - S k)) p n ltac:(lia)) as Hm. cbn [Nat.mul] in Hm. lia. }
    unfold B. rewrite rev_nth by (rewrite bitsL_length; lia). rewrite bitsL_length.
    assert (E : (p * n - S (i + (p - S k) * n) = k * n + (n - 1 - i))%nat).
    { replace p with (S k + (p - S k))%nat at 1 by lia. rewrite Nat.mul_add_distr_r.
      cbn [Nat.mul]. lia. }
    rewrite E. apply nth_bitsL.
    pose proof (Nat.mul_le_mono_r (S k) p n ltac:(lia)) as Hm. cbn [Nat.mul] in Hm. lia.
Qed.

(* ======================================================================== *)
(* 2. small bit facts                                                        *)

Lemma ones_bit : forall k m, N.testbit (N.ones k) m = (m <? k).
Proof.
  intros k m. destruct (N.ltb_spec m k).
  - now apply N.ones_spec_low.
  - now apply N.ones_spec_high.
Qed.

Lemma ones_pred : forall k, 2 ^ k - 1 = N.ones k.
Proof. intros. rewrite N.ones_equiv. lia. Qed.

Lemma lt_testbit_high : forall k x m, x < 2 ^ k -> k <= m -> N.testbit x m = false.
Proof. intros k x m Hx Hm. apply (fits_testbit k); [now apply fits_lt|assumption]. Qed.

Lemma testbit_lt : forall k x, (forall m, k <= m -> N.testbit x m = false) -> x < 2 ^ k.
Proof. intros k x H. apply fits_lt. now apply testbit_fits. Qed.

(* x + 2^k = x xor 2^k  and  2^k - 1 - x = x xor (2^k - 1)  for x < 2^k *)
Lemma add_pow2_lxor : forall k x, x < 2 ^ k -> x + 2 ^ k = N.lxor x (2 ^ k).
Proof.
  intros k x Hx. apply N.add_nocarry_lxor. apply N.bits_inj. intro m.
  rewrite N.land_spec, N.bits_0, N.pow2_bits_eqb.
  destruct (N.eqb_spec k m) as [<-|]; [|apply andb_false_r].
  rewrite (lt_testbit_high k x k Hx) by lia. reflexivity.
Qed.

Lemma compl_lxor : forall k x, x < 2 ^ k -> 2 ^ k - 1 - x = N.lxor x (N.ones k).
Proof.
  intros k x Hx.
  assert (H0 : N.land (N.lxor x (N.ones k)) x = 0).
  { apply N.bits_inj. intro m. rewrite N.land_spec, N.lxor_spec, ones_bit, N.bits_0.
    destruct (N.ltb_spec m k).
    - now destruct (N.testbit x m).
    - rewrite (lt_testbit_high k x m Hx) by lia. reflexivity. }
  apply N.add_nocarry_lxor in H0.
  rewrite N.lxor_assoc, (N.lxor_comm (N.ones k)), <- N.lxor_assoc, N.lxor_nilpotent, N.lxor_0_l in H0.
  rewrite <- ones_pred in *. lia.
Qed.

Lemma testbit_add_pow2 : forall k x m, x < 2 ^ k ->
    N.testbit (x + 2 ^ k) m = if m =? k then true else N.testbit x m.
Proof.
  intros k x m Hx. rewrite add_pow2_lxor, N.lxor_spec, N.pow2_bits_eqb by assumption.
  rewrite (N.eqb_sym k m). destruct (N.eqb_spec m k) as [->|].
  - rewrite (lt_testbit_high k x k Hx) by lia. reflexivity.
  - apply xorb_false_r.
Qed.

Lemma testbit_compl : forall k x m, x < 2 ^ k ->
    N.testbit (2 ^ k - 1 - x) m = if m <? k then negb (N.testbit x m) else false.
Proof.
  intros k x m Hx. rewrite compl_lxor, N.lxor_spec, ones_bit by assumption.
  destruct (N.ltb_spec m k).
  - apply xorb_true_r.
  - rewrite (lt_testbit_high k x m Hx) by lia. reflexivity.
Qed.

Lemma compl_lt : forall k x, x < 2 ^ k -> 2 ^ k - 1 - x < 2 ^ k.
Proof. intros. lia. Qed.

(* a pair of numbers as a stream of bit pairs *)
Definition bp (c : N * N) (m : N) : bool * bool := (N.testbit (fst c) m, N.testbit (snd c) m).

Lemma bp_inj : forall c d, (forall m, bp c m = bp d m) -> c = d.
Proof.
  intros [a b] [a' b'] H. unfold bp in H. cbn [fst snd] in H. f_equal; apply N.bits_inj; intro m.
  - now injection (H m).
  - now injection (H m).
Qed.

(* ======================================================================== *)
(* 3. the n = 2 stages on pairs                                              *)

Lemma list2 : forall l : list N, length l = 2%nat -> l = [getc l 0; getc l 1].
Proof.
  intros [|a [|b [|c l]]] H; simpl in H; try discriminate. reflexivity.
Qed.

Lemma gray_decode2 : forall A B, gray_decode 2 [A; B] = [N.lxor A (N.shiftr B 1); N.lxor B A].
Proof. reflexivity. Qed.

(* one level of the undo-excess loop (i = 1, then i = 0) on the pair (X, Y) *)
Definition ld2 (k : N) (X Y : N) : N * N :=
  let P := N.ones k in
  let XY1 := if N.testbit Y k then (N.lxor X P, Y)
             else (N.lxor X (N.land (N.lxor X Y) P), N.lxor Y (N.land (N.lxor X Y) P)) in
  if N.testbit (fst XY1) k then (N.lxor (fst XY1) P, snd XY1) else XY1.

Lemma level_down2 : forall k X Y,
    level_down 2 [X; Y] k = [fst (ld2 (N.of_nat k) X Y); snd (ld2 (N.of_nat k) X Y)].
Proof.
  intros k X Y. unfold level_down, ld2. cbv zeta. cbn [seq rev app fold_left].
  rewrite ones_pred.
  unfold excess_step at 2. cbn [getc nth]. rewrite truthy_land_pow2.
  destruct (N.testbit Y (N.of_nat k)).
  - cbn [setc fst snd]. unfold excess_step. cbn [getc nth]. rewrite truthy_land_pow2.
    destruct (N.testbit _ (N.of_nat k)); cbn [setc getc nth fst snd]; [reflexivity|].
    now rewrite N.lxor_nilpotent, N.land_0_l, !N.lxor_0_r.
  - cbn [setc getc nth fst snd]. unfold excess_step. cbn [getc nth]. rewrite truthy_land_pow2.
    destruct (N.testbit _ (N.of_nat k)); cbn [setc getc nth fst snd]; [reflexivity|].
    now rewrite N.lxor_nilpotent, N.land_0_l, !N.lxor_0_r.
Qed.

(* the symmetry of the square that level k applies to every lower bit pair;
   a = X_k, b = Y_k *)
Definition Tstep (a b : bool) (v : bool * bool) : bool * bool :=
  let v1 := if b then (negb (fst v), snd v) else (snd v, fst v) in
  if a then (negb (fst v1), snd v1) else v1.

Lemma ld2_bits : forall k X Y m,
    bp (ld2 k X Y) m
    = if m <? k then Tstep (N.testbit X k) (N.testbit Y k) (bp (X, Y) m) else bp (X, Y) m.
Proof.
  intros k X Y m. unfold ld2, Tstep, bp. cbv zeta.
  destruct (N.testbit Y k) eqn:EY; cbn [fst snd].
  - rewrite N.lxor_spec, ones_bit, N.ltb_irrefl, xorb_false_r.
    destruct (N.testbit X k) eqn:EX; cbn [fst snd];
      rewrite ?N.lxor_spec, ?ones_bit; destruct (m <? k);
      destruct (N.testbit X m), (N.testbit Y m); reflexivity.
  - rewrite N.lxor_spec, N.land_spec, ones_bit, N.ltb_irrefl, andb_false_r, xorb_false_r.
    destruct (N.testbit X k) eqn:EX; cbn [fst snd];
      rewrite ?N.lxor_spec, ?N.land_spec, ?N.lxor_spec, ?ones_bit; destruct (m <? k);
      destruct (N.testbit X m), (N.testbit Y m); reflexivity.
Qed.

(* levels 1 .. k *)
Fixpoint U2 (k : nat) (c : N * N) : N * N :=
  match k with
  | O => c
  | S k' => let c' := U2 k' c in ld2 (N.of_nat k) (fst c') (snd c')
  end.

Lemma undo2_fold : forall k X Y,
    fold_left (level_down 2) (seq 1 k) [X; Y] = [fst (U2 k (X, Y)); snd (U2 k (X, Y))].
Proof.
  induction k as [|k IH]; intros X Y; [reflexivity|].
  rewrite seq_S, fold_left_app, IH. cbn [fold_left plus]. rewrite level_down2. reflexivity.
Qed.

(* the bit pairs after levels 1 .. k, as a function of the bit pairs before *)
Fixpoint ubf (g : N -> bool * bool) (k : nat) (m : N) : bool * bool :=
  match k with
  | O => g m
  | S k' => if m <? N.of_nat (S k')
            then Tstep (fst (g (N.of_nat (S k')))) (snd (g (N.of_nat (S k')))) (ubf g k' m)
            else g m
  end.

Lemma ubf_high : forall g k m, N.of_nat k <= m -> ubf g k m = g m.
Proof.
  induction k as [|k IH]; intros m Hm; [reflexivity|]. cbn [ubf].
  destruct (N.ltb_spec m (N.of_nat (S k))); [lia|reflexivity].
Qed.

Lemma ubf_ext : forall g g' k m, (forall j, g j = g' j) -> ubf g k m = ubf g' k m.
Proof.
  induction k as [|k IH]; intros m H; cbn [ubf]; [apply H|]. now rewrite (IH m H), !H.
Qed.

Lemma U2_bits : forall k c m, bp (U2 k c) m = ubf (bp c) k m.
Proof.
  induction k as [|k IH]; intros c m; [reflexivity|]. cbn [U2 ubf]. rewrite ld2_bits.
  pose proof (IH c (N.of_nat (S k))) as Hk. rewrite ubf_high in Hk by lia.
  unfold bp in Hk at 1. cbn [fst snd] in Hk.
  assert (E1 : N.testbit (fst (U2 k c)) (N.of_nat (S k)) = fst (bp c (N.of_nat (S k))))
    by (now rewrite <- Hk).
  assert (E2 : N.testbit (snd (U2 k c)) (N.of_nat (S k)) = snd (bp c (N.of_nat (S k))))
    by (now rewrite <- Hk).
  rewrite E1, E2.
  replace (fst (U2 k c), snd (U2 k c)) with (U2 k c) by (now destruct (U2 k c)).
  rewrite IH. destruct (N.ltb_spec m (N.of_nat (S k))); [reflexivity|].
  rewrite ubf_high by lia. reflexivity.
Qed.

(* ======================================================================== *)
(* 4. the bits of the classical curve                                        *)

(* the symmetry of the sub-curve in quadrant q = 2*d1 + d0: transpose (q = 0),
   none (q = 1, 2), anti-transpose (q = 3) -- on one bit pair *)
Definition tau (d1 d0 : bool) (v : bool * bool) : bool * bool :=
  if d1 then (if d0 then (negb (snd v), negb (fst v)) else v)
  else (if d0 then v else (snd v, fst v)).

(* bit pair m of hilbert_ref p (h mod 4^p), computed from the bits of h *)
Fixpoint rb (h : N) (p : nat) (m : N) : bool * bool :=
  match p with
  | O => (false, false)
  | S k => let d1 := N.testbit h (2 * N.of_nat k + 1) in
           let d0 := N.testbit h (2 * N.of_nat k) in
           if m <? N.of_nat k then tau d1 d0 (rb h k m)
           else if m =? N.of_nat k then (d1, xorb d1 d0) else (false, false)
  end.

Lemma four_pow : forall k, 4 ^ k = 2 ^ (2 * k).
Proof. intros. change 4 with (2 ^ 2). now rewrite <- N.pow_mul_r. Qed.

Lemma digit_bits : forall h k, let q := (h / 4 ^ k) mod 4 in
    q < 4 /\ N.testbit h (2 * k) = N.testbit q 0 /\ N.testbit h (2 * k + 1) = N.testbit q 1.
Proof.
  intros h k q. split; [apply N.mod_lt; lia|]. unfold q. rewrite four_pow.
  change 4 with (2 ^ 2). rewrite !N.mod_pow2_bits_low by lia. rewrite !N.div_pow2_bits.
  split; f_equal; lia.
Qed.

Lemma ref_bits : forall p h m, bp (hilbert_ref p (h mod 4 ^ N.of_nat p)) m = rb h p m.
Proof.
  induction p as [|k IH]; intros h m.
  - cbn [hilbert_ref rb]. unfold bp. cbn [fst snd]. now rewrite N.bits_0.
  - set (s := 2 ^ N.of_nat k). set (M := 4 ^ N.of_nat k).
    assert (HM : 0 < M) by (apply N.neq_0_lt_0, N.pow_nonzero; lia).
    assert (Hpow : 4 ^ N.of_nat (S k) = M * 4)
      by (unfold M; rewrite Nat2N.inj_succ, N.pow_succ_r'; lia).
    rewrite Hpow, N.mod_mul_r by lia.
    set (r := h mod M). set (q := (h / M) mod 4).
    assert (Hr : r < M) by (apply N.mod_lt; lia).
    destruct (digit_bits h (N.of_nat k)) as (Hq & Hd0 & Hd1). fold M q in Hq, Hd0, Hd1.
    assert (Ediv : (r + M * q) / M = q) by (symmetry; apply (N.div_unique _ _ q r); lia).
    assert (Emod : (r + M * q) mod M = r) by (symmetry; apply (N.mod_unique _ _ q r); lia).
    rewrite hilbert_ref_S. fold s M. rewrite Ediv, Emod.
    pose proof (IH h) as IHm. fold M r in IHm.
    destruct (hilbert_ref_range k r Hr) as [Hx Hy]. fold s in Hx, Hy.
    destruct (hilbert_ref k r) as [x y]. cbn [fst snd] in Hx, Hy.
    cbn [rb]. rewrite Hd0, Hd1, <- IHm. unfold bp, tau. cbn [fst snd].
    assert (Hcases : q = 0 \/ q = 1 \/ q = 2 \/ q = 3) by lia.
    destruct Hcases as [E|[E|[E|E]]]; rewrite E.
    + rewrite quad0. cbn [fst snd N.testbit Pos.testbit]. 
      destruct (N.ltb_spec m (N.of_nat k)); [reflexivity|].
      rewrite (lt_testbit_high _ x m Hx), (lt_testbit_high _ y m Hy) by lia.
      now destruct (m =? N.of_nat k).
    + rewrite quad1. cbn [fst snd N.testbit Pos.testbit]. unfold s.
      rewrite testbit_add_pow2 by assumption.
      destruct (N.ltb_spec m (N.of_nat k)).
      * destruct (N.eqb_spec m (N.of_nat k)); [lia|]. now destruct (N.testbit x m), (N.testbit y m).
      * rewrite (lt_testbit_high _ x m Hx), (lt_testbit_high _ y m Hy) by lia.
        now destruct (m =? N.of_nat k).
    + rewrite quad2. cbn [fst snd N.testbit Pos.testbit]. unfold s.
      rewrite !testbit_add_pow2 by assumption.
      destruct (N.ltb_spec m (N.of_nat k)).
      * destruct (N.eqb_spec m (N.of_nat k)); [lia|]. now destruct (N.testbit x m), (N.testbit y m).
      * rewrite (lt_testbit_high _ x m Hx), (lt_testbit_high _ y m Hy) by lia.
        now destruct (m =? N.of_nat k).
    + rewrite quad3. cbn [fst snd N.testbit Pos.testbit].
      replace (2 * s - 1 - y) with ((s - 1 - y) + s) by lia. unfold s.
      rewrite testbit_add_pow2 by (apply compl_lt; assumption).
      rewrite !testbit_compl by assumption.
      destruct (N.ltb_spec m (N.of_nat k)).
      * destruct (N.eqb_spec m (N.of_nat k)); [lia|]. reflexivity.
      * now destruct (m =? N.of_nat k).
Qed.

(* ======================================================================== *)
(* 5. the two recursions agree                                               *)

(* the Gray-decoded bit pair j of the transpose of h *)
Definition gr (h : N) (j : N) : bool * bool :=
  (xorb (N.testbit h (2 * j + 1)) (N.testbit h (2 * j + 2)),
   xorb (N.testbit h (2 * j + 1)) (N.testbit h (2 * j))).

(* flip of x governed by a carry bit *)
Definition Fx (c : bool) (v : bool * bool) : bool * bool := (xorb c (fst v), snd v).

(* the finite heart of the matter: one level of Skilling's loop, fed with the Gray code
   of digit (h3 h2) under carry h4, acting on a lower pair that carries the flip h2, is
   the quadrant symmetry of that digit under the flip h4 *)
Lemma core_step : forall h4 h3 h2 v,
    Tstep (xorb h3 h4) (xorb h3 h2) (Fx h2 v) = Fx h4 (tau h3 h2 v).
Proof. intros [|] [|] [|] [[|] [|]]; reflexivity. Qed.

Lemma core : forall h k m, m <= N.of_nat k ->
    ubf (gr h) k m = Fx (N.testbit h (2 * N.of_nat k + 2)) (rb h (S k) m).
Proof.
  intros h. induction k as [|k IH]; intros m Hm.
  - assert (m = 0) by lia. subst m. cbn [ubf rb N.of_nat]. unfold gr, Fx.
    cbn [N.ltb N.compare N.eqb N.mul N.add Pos.add fst snd].
    now destruct (N.testbit h 1), (N.testbit h 2), (N.testbit h 0).
  - cbn [ubf].
    replace (2 * N.of_nat (S k) + 2) with (2 * N.of_nat k + 4) by lia.
    destruct (N.ltb_spec m (N.of_nat (S k))) as [Hlt|Hge].
    + rewrite IH by lia. unfold gr at 1 2. cbn [fst snd].
      change (rb h (S (S k)) m)
        with (if m <? N.of_nat (S k)
              then tau (N.testbit h (2 * N.of_nat (S k) + 1)) (N.testbit h (2 * N.of_nat (S k)))
                       (rb h (S k) m)
              else if m =? N.of_nat (S k)
                   then (N.testbit h (2 * N.of_nat (S k) + 1),
                         xorb (N.testbit h (2 * N.of_nat (S k) + 1)) (N.testbit h (2 * N.of_nat (S k))))
                   else (false, false)).
      destruct (N.ltb_spec m (N.of_nat (S k))); [|lia].
      replace (2 * N.of_nat (S k) + 1) with (2 * N.of_nat k + 3) by lia.
      replace (2 * N.of_nat (S k) + 2) with (2 * N.of_nat k + 4) by lia.
      replace (2 * N.of_nat (S k)) with (2 * N.of_nat k + 2) by lia.
      apply core_step.
    + assert (m = N.of_nat (S k)) by lia. subst m.
      change (rb h (S (S k)) (N.of_nat (S k)))
        with (if N.of_nat (S k) <? N.of_nat (S k)
              then tau (N.testbit h (2 * N.of_nat (S k) + 1)) (N.testbit h (2 * N.of_nat (S k)))
                       (rb h (S k) (N.of_nat (S k)))
              else if N.of_nat (S k) =? N.of_nat (S k)
                   then (N.testbit h (2 * N.of_nat (S k) + 1),
                         xorb (N.testbit h (2 * N.of_nat (S k) + 1)) (N.testbit h (2 * N.of_nat (S k))))
                   else (false, false)).
      rewrite N.ltb_irrefl, N.eqb_refl. unfold gr, Fx. cbn [fst snd].
      replace (2 * N.of_nat (S k) + 2) with (2 * N.of_nat k + 4) by lia.
      f_equal. apply xorb_comm.
Qed.

(* ======================================================================== *)
(* 6. assembly                                                               *)

Lemma distance2_lt : forall p h, distance p 2 h <-> h < 4 ^ N.of_nat p.
Proof.
  intros p h. unfold distance. rewrite four_pow.
  replace (N.of_nat (2 * p)) with (2 * N.of_nat p) by lia. tauto.
Qed.

(* the Gray-decoded transpose, as bit pairs *)
Lemma gray_h2t_bits : forall k h, h < 4 ^ N.of_nat (S k) ->
    let A := getc (hilbert_integer_to_transpose (S k) h 2) 0 in
    let B := getc (hilbert_integer_to_transpose (S k) h 2) 1 in
    forall j, bp (N.lxor A (N.shiftr B 1), N.lxor B A) j = gr h j.
Proof.
  intros k h Hh A B j. rewrite four_pow in Hh.
  assert (Hhi : forall m, 2 * N.of_nat (S k) <= m -> N.testbit h m = false)
    by (intros m Hm; now apply (lt_testbit_high _ h m Hh)).
  assert (HA : forall i, N.testbit A (N.of_nat i) = N.testbit h (2 * N.of_nat i + 1)).
  { intro i. unfold A. rewrite h2t_testbit by lia.
    replace (N.of_nat (i * 2 + (2 - 1 - 0))) with (2 * N.of_nat i + 1) by lia.
    destruct (Nat.ltb_spec i (S k)); [reflexivity|]. symmetry. apply Hhi. lia. }
  assert (HB : forall i, N.testbit B (N.of_nat i) = N.testbit h (2 * N.of_nat i)).
  { intro i. unfold B. rewrite h2t_testbit by lia.
    replace (N.of_nat (i * 2 + (2 - 1 - 1))) with (2 * N.of_nat i) by lia.
    destruct (Nat.ltb_spec i (S k)); [reflexivity|]. symmetry. apply Hhi. lia. }
  unfold bp, gr. cbn [fst snd]. rewrite !N.lxor_spec, N.shiftr_spec'.
  rewrite <- (N2Nat.id j).
  replace (N.of_nat (N.to_nat j) + 1) with (N.of_nat (S (N.to_nat j))) by lia.
  rewrite !HA, !HB. f_equal.
  - do 2 f_equal. lia.
  - apply xorb_comm.
Qed.

Theorem classical_all : forall p h, hilbert_guard p 2 -> distance p 2 h ->
    coordinate_from_distance p 2 h = [fst (hilbert_ref p h); snd (hilbert_ref p h)].
Proof.
  intros p h (Hp & _ & _) Hh. apply distance2_lt in Hh.
  destruct p as [|k]; [lia|].
  rewrite cfd_unfold.
  rewrite (list2 (hilbert_integer_to_transpose (S k) h 2)) by apply h2t_length.
  rewrite gray_decode2, undo_excess_eq by lia.
  replace (S k - 1)%nat with k by lia. rewrite undo2_fold.
  set (A := getc (hilbert_integer_to_transpose (S k) h 2) 0).
  set (B := getc (hilbert_integer_to_transpose (S k) h 2) 1).
  set (c := (N.lxor A (N.shiftr B 1), N.lxor B A)).
  assert (E : U2 k c = hilbert_ref (S k) h); [|now rewrite E].
  apply bp_inj. intro m.
  rewrite U2_bits. rewrite (ubf_ext _ (gr h)) by (apply gray_h2t_bits; assumption).
  rewrite <- (N.mod_small h (4 ^ N.of_nat (S k))) at 2 by assumption. rewrite ref_bits.
  destruct (N.le_gt_cases m (N.of_nat k)) as [Hle|Hgt].
  - rewrite core by assumption.
    rewrite (lt_testbit_high (2 * N.of_nat (S k)) h) by (rewrite <- ?four_pow; try assumption; lia).
    unfold Fx. destruct (rb h (S k) m) as [a b]. now destruct a.
  - rewrite ubf_high by lia. cbn [rb].
    destruct (N.ltb_spec m (N.of_nat k)); [lia|]. destruct (N.eqb_spec m (N.of_nat k)); [lia|].
    unfold gr. rewrite four_pow in Hh.
    rewrite !(lt_testbit_high (2 * N.of_nat (S k)) h) by (try assumption; lia). reflexivity.
Qed.

(* consecutive distances are grid neighbours: n = 2, EVERY order *)
Theorem adjacent_n2 : forall p h, hilbert_guard p 2 -> distance p 2 (h + 1) ->
    neighbours (coordinate_from_distance p 2 h) (coordinate_from_distance p 2 (h + 1)).
Proof.
  intros p h Hg Hh. apply adjacent_if_classical; [|assumption].
  intros h' Hh'. now apply classical_all.
Qed.

(* ======================================================================== *)
(* 7. n = 1: the mapping is the identity (every order)                        *)

Lemma list1 : forall l : list N, length l = 1%nat -> l = [getc l 0].
Proof. intros [|a [|b l]] H; simpl in H; try discriminate. reflexivity. Qed.

Lemma gray_decode1 : forall A, gray_decode 1 [A] = [N.lxor A (N.shiftr A 1)].
Proof. reflexivity. Qed.

Definition ld1 (k : N) (X : N) : N := if N.testbit X k then N.lxor X (N.ones k) else X.

Lemma level_down1 : forall k X, level_down 1 [X] k = [ld1 (N.of_nat k) X].
Proof.
  intros k X. unfold level_down, ld1. cbv zeta. cbn [seq rev app fold_left].
  rewrite ones_pred. unfold excess_step. cbn [getc nth]. rewrite truthy_land_pow2.
  destruct (N.testbit X (N.of_nat k)); cbn [setc getc nth]; [reflexivity|].
  now rewrite N.lxor_nilpotent, N.land_0_l, !N.lxor_0_r.
Qed.

Lemma ld1_bits : forall k X m,
    N.testbit (ld1 k X) m = if m <? k then xorb (N.testbit X k) (N.testbit X m) else N.testbit X m.
Proof.
  intros k X m. unfold ld1. destruct (N.testbit X k) eqn:E.
  - rewrite N.lxor_spec, ones_bit. destruct (m <? k); now destruct (N.testbit X m).
  - now destruct (m <? k), (N.testbit X m).
Qed.

Fixpoint U1 (k : nat) (X : N) : N :=
  match k with O => X | S k' => ld1 (N.of_nat k) (U1 k' X) end.

Lemma undo1_fold : forall k X, fold_left (level_down 1) (seq 1 k) [X] = [U1 k X].
Proof.
  induction k as [|k IH]; intros X; [reflexivity|].
  rewrite seq_S, fold_left_app, IH. cbn [fold_left plus]. now rewrite level_down1.
Qed.

Lemma U1_high : forall k X m, N.of_nat k <= m -> N.testbit (U1 k X) m = N.testbit X m.
Proof.
  induction k as [|k IH]; intros X m Hm; [reflexivity|]. cbn [U1]. rewrite ld1_bits.
  destruct (N.ltb_spec m (N.of_nat (S k))); [lia|]. apply IH. lia.
Qed.

(* Gray decode of levels 1..k:  bit m of U1 k (h xor h>>1)  is  h_m xor h_(k+1) *)
Lemma U1_gray : forall h k m, m <= N.of_nat k ->
    N.testbit (U1 k (N.lxor h (N.shiftr h 1))) m
    = xorb (N.testbit h m) (N.testbit h (N.of_nat k + 1)).
Proof.
  intros h. induction k as [|k IH]; intros m Hm.
  - assert (m = 0) by lia. subst m. cbn [U1 N.of_nat].
    now rewrite N.lxor_spec, N.shiftr_spec'.
  - cbn [U1]. rewrite ld1_bits. rewrite (U1_high k _ (N.of_nat (S k))) by lia.
    rewrite N.lxor_spec, N.shiftr_spec'.
    replace (N.of_nat (S k) + 1) with (N.of_nat k + 2) by lia.
    destruct (N.ltb_spec m (N.of_nat (S k))).
    + rewrite IH by lia. replace (N.of_nat (S k)) with (N.of_nat k + 1) by lia.
      now destruct (N.testbit h m), (N.testbit h (N.of_nat k + 1)), (N.testbit h (N.of_nat k + 2)).
    + assert (m = N.of_nat (S k)) by lia. subst m.
      rewrite U1_high by lia. rewrite N.lxor_spec, N.shiftr_spec'.
      replace (N.of_nat (S k) + 1) with (N.of_nat k + 2) by lia. reflexivity.
Qed.

Theorem identity_n1 : forall p h, hilbert_guard p 1 -> distance p 1 h ->
    coordinate_from_distance p 1 h = [h].
Proof.
  intros p h (Hp & _ & _) Hh. unfold distance in Hh.
  replace (N.of_nat (1 * p)) with (N.of_nat p) in Hh by lia.
  destruct p as [|k]; [lia|].
  rewrite cfd_unfold.
  rewrite (list1 (hilbert_integer_to_transpose (S k) h 1)) by apply h2t_length.
  assert (EA : getc (hilbert_integer_to_transpose (S k) h 1) 0 = h).
  { apply N.bits_inj. intro m. rewrite <- (N2Nat.id m). rewrite h2t_testbit by lia.
    replace (N.to_nat m * 1 + (1 - 1 - 0))%nat with (N.to_nat m) by lia.
    destruct (Nat.ltb_spec (N.to_nat m) (S k)); [reflexivity|].
    symmetry. apply (lt_testbit_high _ h _ Hh). lia. }
  rewrite EA, gray_decode1, undo_excess_eq by lia.
  replace (S k - 1)%nat with k by lia. rewrite undo1_fold. f_equal.
  apply N.bits_inj. intro m.
  destruct (N.le_gt_cases m (N.of_nat k)) as [Hle|Hgt].
  - rewrite U1_gray by assumption.
    rewrite (lt_testbit_high _ h (N.of_nat k + 1) Hh) by lia. apply xorb_false_r.
  - rewrite U1_high by lia. rewrite N.lxor_spec, N.shiftr_spec'.
    rewrite !(lt_testbit_high _ h _ Hh) by lia. reflexivity.
Qed.

Theorem adjacent_n1 : forall p h, hilbert_guard p 1 -> distance p 1 (h + 1) ->
    neighbours (coordinate_from_distance p 1 h) (coordinate_from_distance p 1 (h + 1)).
Proof.
  intros p h Hg Hh. unfold distance in *.
  rewrite !identity_n1 by (try assumption; unfold distance; lia).
  unfold neighbours. cbn [length]. split; [reflexivity|].
  exists 0%nat. split; [lia|]. split; [left; reflexivity|].
  intros [|j] Hj; [congruence|]. now destruct j.
Qed.
