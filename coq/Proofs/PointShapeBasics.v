(* List facts used by the C02 proofs: strided views, slices, finite_vals. *)
From Coq Require Import ZArith List Bool Arith Lia.
From SP Require Import Model.Num Model.Arrow Model.PointKernels Model.PointShape.
Import ListNotations.

(* ---- evens / odds / zpairs ---- *)

Lemma evens_cons2 {A} (x y : A) l : evens (x :: y :: l) = x :: evens l.
Proof. reflexivity. Qed.

Lemma odds_cons2 {A} (x y : A) l : odds (x :: y :: l) = y :: odds l.
Proof. unfold odds. simpl. destruct l; reflexivity. Qed.

Lemma list_ind2 {A} (P : list A -> Prop) :
  P [] -> (forall x, P [x]) -> (forall x y l, P l -> P (x :: y :: l)) -> forall l, P l.
Proof.
  intros H0 H1 H2.
  fix IH 1. intros [|x [|y l]]; [exact H0 | apply H1 | apply H2, IH].
Qed.

Lemma combine_evens_odds : forall l : list Z, combine (evens l) (odds l) = zpairs l.
Proof.
  induction l as [| x | x y l IH] using list_ind2; try reflexivity.
  rewrite evens_cons2, odds_cons2. simpl. now rewrite IH.
Qed.

Lemma evens_nil_iff {A} (l : list A) : evens l = [] <-> l = [].
Proof. destruct l; simpl; split; intros H; try reflexivity; discriminate. Qed.

Lemma zpairs_length : forall l : list Z, length (zpairs l) = Nat.div2 (length l).
Proof.
  induction l as [| x | x y l IH] using list_ind2; try reflexivity.
  simpl. now rewrite IH.
Qed.

Lemma zpairs_nth : forall (l : list Z) i, (2 * i + 1 < length l)%nat ->
  nth i (zpairs l) (0%Z, 0%Z) = (nth (2 * i) l 0%Z, nth (2 * i + 1) l 0%Z).
Proof.
  induction l as [| x | x y l IH] using list_ind2; intros i Hi; simpl in Hi; try lia.
  destruct i as [|i].
  - reflexivity.
  - replace (2 * S i)%nat with (S (S (2 * i))) by lia.
    replace (S (S (2 * i)) + 1)%nat with (S (S (2 * i + 1))) by lia.
    simpl zpairs. cbn [nth]. apply IH. lia.
Qed.

Lemma zpairs_length_even : forall (l : list Z) n, length l = (2 * n)%nat -> length (zpairs l) = n.
Proof.
  induction l as [| x | x y l IH] using list_ind2; intros n Hn; simpl in Hn.
  - destruct n; [reflexivity | lia].
  - lia.
  - destruct n as [|n]; [lia|]. simpl. f_equal. apply IH. lia.
Qed.

(* ---- slice ---- *)

Lemma slice_length {A} (s e : nat) (l : list A) :
  (e <= length l)%nat -> length (slice s e l) = (e - s)%nat.
Proof.
  intros H. unfold slice. rewrite firstn_length, skipn_length. lia.
Qed.

Lemma nth_skipn {A} (l : list A) s k d : nth k (skipn s l) d = nth (s + k) l d.
Proof.
  revert l. induction s as [|s IH]; intros l; simpl.
  - reflexivity.
  - destruct l as [|x l]; simpl.
    + now destruct k.
    + apply IH.
Qed.

Lemma nth_firstn {A} (l : list A) n k d : (k < n)%nat -> nth k (firstn n l) d = nth k l d.
Proof.
  revert l k. induction n as [|n IH]; intros l k Hk; [lia|].
  destruct l as [|x l]; simpl.
  - now destruct k.
  - destruct k as [|k]; [reflexivity|]. apply IH. lia.
Qed.

Lemma slice_nth {A} (s e k : nat) (l : list A) d :
  (k < e - s)%nat -> nth k (slice s e l) d = nth (s + k) l d.
Proof.
  intros H. unfold slice. rewrite nth_firstn by assumption. apply nth_skipn.
Qed.

(* ---- finite_vals ---- *)

Lemma finite_vals_length : forall vs zs, finite_vals vs = Some zs -> length zs = length vs.
Proof.
  induction vs as [|[v|] vs IH]; simpl; intros zs H.
  - now inversion H.
  - destruct (finite_vals vs) as [r|]; [|discriminate]. inversion H; subst. simpl.
    f_equal. now apply IH.
  - discriminate.
Qed.

Lemma finite_vals_nth : forall vs zs k, finite_vals vs = Some zs -> (k < length vs)%nat ->
  nth k vs None = Some (nth k zs 0%Z).
Proof.
  induction vs as [|[v|] vs IH]; simpl; intros zs k H Hk.
  - lia.
  - destruct (finite_vals vs) as [r|] eqn:E; [|discriminate]. inversion H; subst.
    destruct k as [|k]; [reflexivity|]. simpl. apply IH; [reflexivity | lia].
  - discriminate.
Qed.

(* ---- existsb over pairs ---- *)

Lemma any_vertex_In : forall x y flat,
  any_vertex x y flat = true <-> In (x, y) (zpairs flat).
Proof.
  intros x y flat. unfold any_vertex. rewrite combine_evens_odds, existsb_exists. split.
  - intros [[vx vy] [Hin H]]. apply andb_true_iff in H as [H1 H2].
    apply Z.eqb_eq in H1, H2. now subst.
  - intros Hin. exists (x, y). split; [assumption|]. now rewrite !Z.eqb_refl.
Qed.

(* ---- lmin / lmax ---- *)

Lemma fold_min_le_acc : forall t h, (fold_left Z.min t h <= h)%Z.
Proof.
  induction t as [|a t IH]; intros h; simpl; [lia|].
  specialize (IH (Z.min h a)). lia.
Qed.

Lemma fold_min_le_in : forall t h v, In v t -> (fold_left Z.min t h <= v)%Z.
Proof.
  induction t as [|a t IH]; intros h v Hin; simpl; [contradiction|].
  destruct Hin as [->|Hin].
  - pose proof (fold_min_le_acc t (Z.min h v)). lia.
  - now apply IH.
Qed.

Lemma fold_max_ge_acc : forall t h, (h <= fold_left Z.max t h)%Z.
Proof.
  induction t as [|a t IH]; intros h; simpl; [lia|].
  specialize (IH (Z.max h a)). lia.
Qed.

Lemma fold_max_ge_in : forall t h v, In v t -> (v <= fold_left Z.max t h)%Z.
Proof.
  induction t as [|a t IH]; intros h v Hin; simpl; [contradiction|].
  destruct Hin as [->|Hin].
  - pose proof (fold_max_ge_acc t (Z.max h v)). lia.
  - now apply IH.
Qed.

Lemma lmin_le : forall h t v, In v (h :: t) -> (lmin h t <= v)%Z.
Proof.
  intros h t v [->|Hin]; unfold lmin; [apply fold_min_le_acc | now apply fold_min_le_in].
Qed.

Lemma lmax_ge : forall h t v, In v (h :: t) -> (v <= lmax h t)%Z.
Proof.
  intros h t v [->|Hin]; unfold lmax; [apply fold_max_ge_acc | now apply fold_max_ge_in].
Qed.

Lemma lmin_le_lmax : forall h t, (lmin h t <= lmax h t)%Z.
Proof.
  intros h t. pose proof (lmin_le h t h (or_introl eq_refl)).
  pose proof (lmax_ge h t h (or_introl eq_refl)). lia.
Qed.

(* members of zpairs are members of the strided views *)
Lemma zpairs_In_evens_odds : forall l a b, In (a, b) (zpairs l) -> In a (evens l) /\ In b (odds l).
Proof.
  induction l as [| x | x y l IH] using list_ind2; intros a b H;
    try (simpl in H; contradiction).
  rewrite odds_cons2, evens_cons2. simpl in H.
  destruct H as [H|H].
  - inversion H; subst. split; now left.
  - apply IH in H as [H1 H2]. split; now right.
Qed.

Lemma edges_In : forall (ps : list pt) a b, In (a, b) (edges ps) -> In a ps /\ In b ps.
Proof.
  induction ps as [|p ps IH]; simpl; intros a b H; [contradiction|].
  destruct ps as [|q ps]; [contradiction|].
  destruct H as [H|H].
  - inversion H; subst. split; [now left | right; now left].
  - apply IH in H as [H1 H2]. split; now right.
Qed.
