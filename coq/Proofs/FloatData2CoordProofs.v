(* C08, float part: theorems about the bit-exact binary64 model Model/FloatData2Coord.v.

   (i)   [f_data2coord_range]: whatever the floats (NaN, infinities, any finite value), the
         cell coordinate lies in [0, n-1].
   (ii)  [f_data2coord_exact_regime]: on floats that are images  z * 2^e  of integers in the
         exact-scaling regime of Model/Data2Coord.v (|z| < 2^52, |hi - lo| a power of two)
         the float model computes exactly what the exact rational model [data2coord1]
         computes.  Route: Flocq's IEEE754.PrimFloat ties the primitive operations to
         [Bminus]/[Bmult]/[Bdiv]/[Bltb] (through the standard library's FloatAxioms);
         the [_correct] theorems say the result is the rounding of the exact result; a
         number  z * 2^e  with |z| < 2^53 and e in range is in the binary64 format, so the
         rounding is the identity; division and multiplication by a power of two only move
         the exponent.

   [Fdy e f z]: f is finite and its real value is z * 2^e (both +0.0 and -0.0 are 0). *)
From Coq Require Import ZArith List Bool Lia ZifyBool Reals Lra Floats.
From Flocq Require Import Core.Core Plus_error IEEE754.BinarySingleNaN IEEE754.PrimFloat.
From SP Require Import Model.Num Model.Bounds Model.Hilbert Model.Data2Coord Model.FloatData2Coord Spec.Curve
     Proofs.Data2CoordProofs.
Import ListNotations.
Local Open Scope Z_scope.

Local Notation fexp64 := (SpecFloat.fexp prec emax).
Local Notation float := Coq.Floats.PrimFloat.float.

(* ====================================================================
   (i) range
   ==================================================================== *)
Lemma i_clip_range : forall r n, 1 <= n -> 0 <= i_clip r n <= n - 1.
Proof.
  intros r n Hn. unfold i_clip.
  destruct (r <? 0) eqn:E1.
  - destruct (n - 1 <? 0) eqn:E2; lia.
  - destruct (n - 1 <? r) eqn:E2; lia.
Qed.

Theorem f_data2coord_range_n : forall v lo hi n, 1 <= n -> 0 <= f_data2coord v lo hi n <= n - 1.
Proof.
  intros v lo hi n Hn. unfold f_data2coord.
  destruct (PrimFloat.eqb (PrimFloat.sub hi lo) 0%float).
  - destruct (PrimFloat.ltb hi v); lia.
  - now apply i_clip_range.
Qed.

(* the branch for a range without extent: cell 0 unless v > hi (NaN is not > hi), else the last *)
Theorem f_zero_width : forall v lo hi n,
    PrimFloat.eqb (PrimFloat.sub hi lo) 0%float = true ->
    f_data2coord v lo hi n = if PrimFloat.ltb hi v then n - 1 else 0.
Proof. intros v lo hi n H. unfold f_data2coord. now rewrite H. Qed.

Theorem f_zero_width_cells : forall v lo hi p, 1 <= p ->
    PrimFloat.eqb (PrimFloat.sub hi lo) 0%float = true ->
    (f_data2coord v lo hi (2 ^ p) = 0 <-> PrimFloat.ltb hi v = false) /\
    (f_data2coord v lo hi (2 ^ p) = 2 ^ p - 1 <-> PrimFloat.ltb hi v = true).
Proof.
  intros v lo hi p Hp H. rewrite (f_zero_width _ _ _ _ H).
  assert (2 <= 2 ^ p) by (change 2 with (2 ^ 1) at 1; apply Z.pow_le_mono_r; lia).
  destruct (PrimFloat.ltb hi v); split; split; intros; (reflexivity || discriminate || lia).
Qed.

Theorem f_data2coord_range : forall (v lo hi : float) (p : nat),
    0 <= f_data2coord v lo hi (2 ^ Z.of_nat p) <= 2 ^ Z.of_nat p - 1.
Proof.
  intros. apply f_data2coord_range_n.
  assert (0 < 2 ^ Z.of_nat p) by (apply Z.pow_pos_nonneg; lia). lia.
Qed.

(* ====================================================================
   dyadic numbers in the binary64 format
   ==================================================================== *)
Definition Fdy (e : Z) (f : float) (z : Z) : Prop :=
  is_finite (Prim2B f) = true /\ B2R (Prim2B f) = (IZR z * bpow radix2 e)%R.

Lemma dy_format : forall z e, Z.abs z < 2 ^ 53 -> -1074 <= e ->
  generic_format radix2 fexp64 (IZR z * bpow radix2 e).
Proof.
  intros z e Hz He.
  change fexp64 with (FLT_exp (-1074) 53).
  apply generic_format_FLT.
  apply (FLT_spec radix2 (-1074) 53 _ (Float radix2 z e)).
  - reflexivity.
  - simpl. change (Z.pow_pos 2 53) with (2 ^ 53). exact Hz.
  - simpl. exact He.
Qed.

Lemma dy_round : forall z e, Z.abs z < 2 ^ 53 -> -1074 <= e ->
  round radix2 fexp64 (round_mode mode_NE) (IZR z * bpow radix2 e) = (IZR z * bpow radix2 e)%R.
Proof.
  intros z e Hz He. apply round_generic.
  - apply valid_rnd_N.
  - now apply dy_format.
Qed.

Lemma dy_lt_emax : forall z e, Z.abs z < 2 ^ 53 -> e <= 971 ->
  Rlt_bool (Rabs (IZR z * bpow radix2 e)) (bpow radix2 emax) = true.
Proof.
  intros z e Hz He. apply Rlt_bool_true.
  rewrite Rabs_mult, <- abs_IZR, (Rabs_pos_eq (bpow radix2 e)) by apply bpow_ge_0.
  apply Rlt_le_trans with (IZR (2 ^ 53) * bpow radix2 e)%R.
  - apply Rmult_lt_compat_r; [apply bpow_gt_0 | apply IZR_lt; exact Hz].
  - change (IZR (2 ^ 53)) with (bpow radix2 53). rewrite <- bpow_plus.
    apply bpow_le. change emax with 1024. lia.
Qed.

Lemma Fdy_sub : forall e a b za zb, -1074 <= e <= 971 -> Fdy e a za -> Fdy e b zb ->
  Z.abs (za - zb) < 2 ^ 53 -> Fdy e (a - b)%float (za - zb).
Proof.
  intros e a b za zb He [Fa Ra] [Fb Rb] H.
  unfold Fdy. rewrite sub_equiv.
  generalize (Bminus_correct prec emax Hprec Hmax mode_NE (Prim2B a) (Prim2B b) Fa Fb).
  rewrite Ra, Rb.
  replace (IZR za * bpow radix2 e - IZR zb * bpow radix2 e)%R
    with (IZR (za - zb) * bpow radix2 e)%R by (rewrite minus_IZR; ring).
  rewrite (dy_round _ _ H) by lia. rewrite (dy_lt_emax _ _ H) by lia.
  intros (R & F & _). split; assumption.
Qed.

Lemma Fdy_add : forall e a b za zb, -1074 <= e <= 971 -> Fdy e a za -> Fdy e b zb ->
  Z.abs (za + zb) < 2 ^ 53 -> Fdy e (a + b)%float (za + zb).
Proof.
  intros e a b za zb He [Fa Ra] [Fb Rb] H.
  unfold Fdy. rewrite add_equiv.
  generalize (Bplus_correct prec emax Hprec Hmax mode_NE (Prim2B a) (Prim2B b) Fa Fb).
  rewrite Ra, Rb.
  replace (IZR za * bpow radix2 e + IZR zb * bpow radix2 e)%R
    with (IZR (za + zb) * bpow radix2 e)%R by (rewrite plus_IZR; ring).
  rewrite (dy_round _ _ H) by lia. rewrite (dy_lt_emax _ _ H) by lia.
  intros (R & F & _). split; assumption.
Qed.

Lemma Fdy_mul : forall e1 e2 a b za zb, -1074 <= e1 + e2 <= 971 -> Fdy e1 a za -> Fdy e2 b zb ->
  Z.abs (za * zb) < 2 ^ 53 -> Fdy (e1 + e2) (a * b)%float (za * zb).
Proof.
  intros e1 e2 a b za zb He [Fa Ra] [Fb Rb] H.
  unfold Fdy. rewrite mul_equiv.
  generalize (Bmult_correct prec emax Hprec Hmax mode_NE (Prim2B a) (Prim2B b)).
  rewrite Ra, Rb.
  replace (IZR za * bpow radix2 e1 * (IZR zb * bpow radix2 e2))%R
    with (IZR (za * zb) * bpow radix2 (e1 + e2))%R by (rewrite mult_IZR, bpow_plus; ring).
  rewrite (dy_round _ _ H) by lia. rewrite (dy_lt_emax _ _ H) by lia.
  intros (R & F & _). rewrite Fa, Fb in F. split; assumption.
Qed.

Lemma IZR_pow2 : forall p, 0 <= p -> IZR (2 ^ p) = bpow radix2 p.
Proof. intros p Hp. apply (IZR_Zpower radix2). exact Hp. Qed.

(* 2^p / (+-2^k * 2^e) = +-2^(p-k-e): only the exponent moves *)
Lemma Fdy_div_pow2 : forall a b p k e sg, (sg = 1 \/ sg = -1) -> 0 <= p -> 0 <= k ->
  Fdy 0 a (2 ^ p) -> Fdy e b (sg * 2 ^ k) -> -1074 <= p - k - e <= 971 ->
  Fdy (p - k - e) (a / b)%float sg.
Proof.
  intros a b p k e sg Hsg Hp Hk [Fa Ra] [Fb Rb] He.
  assert (Hsg' : Z.abs sg < 2 ^ 53) by (destruct Hsg; subst; reflexivity).
  assert (Hnz : B2R (Prim2B b) <> 0%R).
  { rewrite Rb, mult_IZR, IZR_pow2 by assumption.
    apply Rmult_integral_contrapositive_currified.
    - apply Rmult_integral_contrapositive_currified.
      + destruct Hsg; subst; [apply IZR_neq; lia | apply IZR_neq; lia].
      + apply Rgt_not_eq, bpow_gt_0.
    - apply Rgt_not_eq, bpow_gt_0. }
  unfold Fdy. rewrite div_equiv.
  generalize (Bdiv_correct prec emax Hprec Hmax mode_NE (Prim2B a) (Prim2B b) Hnz).
  rewrite Ra, Rb.
  replace (IZR (2 ^ p) * bpow radix2 0 / (IZR (sg * 2 ^ k) * bpow radix2 e))%R
    with (IZR sg * bpow radix2 (p - k - e))%R.
  2:{ rewrite mult_IZR, !IZR_pow2 by assumption.
      unfold Z.sub. rewrite !bpow_plus, !bpow_opp. simpl (bpow radix2 0).
      assert (bpow radix2 k <> 0%R) by apply Rgt_not_eq, bpow_gt_0.
      assert (bpow radix2 e <> 0%R) by apply Rgt_not_eq, bpow_gt_0.
      destruct Hsg; subst; field; auto. }
  rewrite (dy_round _ _ Hsg') by lia. rewrite (dy_lt_emax _ _ Hsg') by lia.
  intros (R & F & _). rewrite Fa in F. split; assumption.
Qed.

(* ---- int -> float of 0 <= z <= 2^53 ---- *)
Lemma Fdy_of_nonneg : forall z, 0 <= z < 2 ^ 53 -> Fdy 0 (Z2float z) z.
Proof.
  intros z Hz. unfold Z2float. destruct (z <? 0) eqn:E; [lia|].
  unfold Fdy. rewrite of_int63_equiv.
  assert (Ez : Uint63.to_Z (Uint63.of_Z z) = z).
  { rewrite Uint63.of_Z_spec. apply Z.mod_small.
    assert (2 ^ 53 < Uint63.wB) by reflexivity. lia. }
  rewrite Ez.
  generalize (binary_normalize_correct prec emax Hprec Hmax mode_NE z 0 false).
  assert (EF : F2R (Float radix2 z 0) = (IZR z * bpow radix2 0)%R) by reflexivity.
  assert (Hz' : Z.abs z < 2 ^ 53) by lia.
  cbv zeta. rewrite EF, (dy_round _ _ Hz') by lia. rewrite (dy_lt_emax _ _ Hz') by lia.
  intros (R & F & _). split; assumption.
Qed.

Lemma Fdy_zero : forall e, Fdy e 0%float 0.
Proof.
  intros e. change 0%float with zero. rewrite zero_equiv.
  unfold Fdy. rewrite Prim2B_B2Prim. split; [reflexivity|]. simpl. ring.
Qed.

(* ---- comparisons ---- *)
Lemma Fdy_ltb : forall e a b za zb, Fdy e a za -> Fdy e b zb -> (a <? b)%float = (za <? zb).
Proof.
  intros e a b za zb [Fa Ra] [Fb Rb].
  rewrite ltb_equiv, Bltb_correct by assumption. rewrite Ra, Rb.
  destruct (Z.ltb_spec za zb) as [H|H].
  - apply Rlt_bool_true. apply Rmult_lt_compat_r; [apply bpow_gt_0 | now apply IZR_lt].
  - apply Rlt_bool_false. apply Rmult_le_compat_r; [apply bpow_ge_0 | now apply IZR_le].
Qed.

Lemma Fdy_eqb : forall e a b za zb, Fdy e a za -> Fdy e b zb -> (a =? b)%float = (za =? zb).
Proof.
  intros e a b za zb [Fa Ra] [Fb Rb].
  rewrite eqb_equiv, Beqb_correct by assumption. rewrite Ra, Rb.
  destruct (Z.eqb_spec za zb) as [H|H].
  - apply Req_bool_true. now rewrite H.
  - apply Req_bool_false. intro E. apply Rmult_eq_reg_r in E; [|apply Rgt_not_eq, bpow_gt_0].
    apply eq_IZR in E. contradiction.
Qed.

(* ====================================================================
   float -> int64
   ==================================================================== *)
Lemma trunc_F2R_pos : forall m e,
  Ztrunc (F2R (Float radix2 (Z.pos m) e)) =
  if 0 <=? e then Z.pos m * 2 ^ e else Z.pos m / 2 ^ (- e).
Proof.
  intros m e. unfold F2R. simpl Fnum. simpl Fexp.
  destruct (0 <=? e) eqn:E.
  - rewrite <- IZR_pow2 by lia. rewrite <- mult_IZR. apply Ztrunc_IZR.
  - assert (He : 0 <= - e) by lia.
    replace e with (- - e) at 1 by lia. rewrite bpow_opp, <- IZR_pow2 by exact He.
    rewrite Ztrunc_floor.
    + apply Zfloor_div. assert (0 < 2 ^ (- e)) by (apply Z.pow_pos_nonneg; lia). lia.
    + apply Rmult_le_pos; [apply IZR_le; lia|].
      apply Rlt_le, Rinv_0_lt_compat, IZR_lt, Z.pow_pos_nonneg; lia.
Qed.

Lemma Zabs_trunc_lt : forall x z, (Rabs x < IZR z)%R -> Z.abs (Ztrunc x) < z.
Proof.
  intros x z H. rewrite <- Ztrunc_abs. apply lt_IZR.
  apply Rle_lt_trans with (2 := H).
  rewrite Ztrunc_floor by apply Rabs_pos. apply Zfloor_lb.
Qed.

Theorem float_to_int64_trunc : forall f,
  is_finite (Prim2B f) = true -> (Rabs (B2R (Prim2B f)) < IZR (2 ^ 63))%R ->
  float_to_int64 f = Ztrunc (B2R (Prim2B f)).
Proof.
  intros f. unfold float_to_int64. rewrite <- B2SF_Prim2B.
  destruct (Prim2B f) as [s|s| |s m e H]; simpl B2SF; cbv iota; intros Hfin Hlt;
    try discriminate.
  - simpl. symmetry. apply (Ztrunc_IZR 0).
  - assert (Et : Ztrunc (B2R (B754_finite s m e H)) =
                 (if s then - (if 0 <=? e then Z.pos m * 2 ^ e else Z.pos m / 2 ^ (- e))
                  else (if 0 <=? e then Z.pos m * 2 ^ e else Z.pos m / 2 ^ (- e)))).
    { unfold B2R. rewrite F2R_cond_Zopp. destruct s; simpl cond_Ropp.
      - rewrite Ztrunc_opp. f_equal. apply trunc_F2R_pos.
      - apply trunc_F2R_pos. }
    pose proof (Zabs_trunc_lt _ _ Hlt) as Hb. rewrite Et in Hb |- *.
    cbv zeta. unfold INT64_MIN.
    match goal with |- (if ?c then _ else _) = _ => destruct c eqn:Ec end; [reflexivity|].
    exfalso. change (2 ^ 63) with 9223372036854775808 in *. lia.
Qed.

(* ====================================================================
   (ii) the exact-scaling regime
   ==================================================================== *)
(* the exact model when the width is +-2^k *)
Lemma data2coord1_pow2 : forall v lo sg k p,
  (sg = 1 \/ sg = -1) -> 0 <= k -> 0 <= p ->
  data2coord1 v lo (sg * 2 ^ k) (2 ^ p) =
  if (v - lo) * sg <? 0 then 0
  else if (2 ^ p - 1) * 2 ^ k <? (v - lo) * sg * 2 ^ p then 2 ^ p - 1
       else ((v - lo) * sg * 2 ^ p) / 2 ^ k.
Proof.
  intros v lo sg k p Hsg Hk Hp.
  assert (HK : 0 < 2 ^ k) by (apply Z.pow_pos_nonneg; lia).
  assert (Hn : 0 < 2 ^ p) by (apply Z.pow_pos_nonneg; lia).
  set (K := 2 ^ k) in *. set (n := 2 ^ p) in *. set (d := v - lo).
  unfold data2coord1. fold d. unfold rat_lt0, rat_gt.
  destruct Hsg as [-> | ->].
  - (* positive width *)
    replace (1 * K) with K by lia. replace (d * 1) with d by lia.
    destruct (d <? 0) eqn:Ed.
    + assert (E0 : (d * n <? 0) && (0 <? K) || (0 <? d * n) && (K <? 0) = true) by nia.
      rewrite E0. cbv iota beta. replace (0 <? 1) with true by reflexivity.
      replace ((n - 1) * 1 <? 0) with false by lia. cbv iota beta.
      change (Z.quot 0 1) with 0. replace (0 <? 0) with false by reflexivity.
      replace (n - 1 <? 0) with false by lia. reflexivity.
    + assert (E0 : (d * n <? 0) && (0 <? K) || (0 <? d * n) && (K <? 0) = false) by nia.
      rewrite E0. cbv iota beta. replace (0 <? K) with true by lia.
      destruct ((n - 1) * K <? d * n) eqn:E1; cbv iota beta.
      * rewrite Z.quot_1_r. replace (n - 1 <? 0) with false by lia.
        replace (n - 1 <? n - 1) with false by lia. reflexivity.
      * rewrite Z.quot_div_nonneg by nia.
        pose proof (Z.div_mod (d * n) K ltac:(lia)) as Hdm.
        pose proof (Z.mod_pos_bound (d * n) K HK) as Hmod.
        set (q := d * n / K) in *.
        assert (0 <= q) by (apply Z.div_pos; nia).
        assert (q <= n - 1) by nia.
        replace (q <? 0) with false by lia. replace (n - 1 <? q) with false by lia. reflexivity.
  - (* negative width *)
    replace (-1 * K) with (- K) by lia. replace (d * -1) with (- d) by lia.
    destruct (- d <? 0) eqn:Ed.
    + assert (E0 : (d * n <? 0) && (0 <? - K) || (0 <? d * n) && (- K <? 0) = true) by nia.
      rewrite E0. cbv iota beta. replace (0 <? 1) with true by reflexivity.
      replace ((n - 1) * 1 <? 0) with false by lia. cbv iota beta.
      change (Z.quot 0 1) with 0. replace (0 <? 0) with false by reflexivity.
      replace (n - 1 <? 0) with false by lia. reflexivity.
    + assert (E0 : (d * n <? 0) && (0 <? - K) || (0 <? d * n) && (- K <? 0) = false) by nia.
      rewrite E0. cbv iota beta. replace (0 <? - K) with false by lia.
      replace (d * n <? (n - 1) * - K) with ((n - 1) * K <? - d * n) by nia.
      destruct ((n - 1) * K <? - d * n) eqn:E1; cbv iota beta.
      * rewrite Z.quot_1_r. replace (n - 1 <? 0) with false by lia.
        replace (n - 1 <? n - 1) with false by lia. reflexivity.
      * replace (d * n) with (- (- d * n)) by lia. rewrite Z.quot_opp_opp by lia.
        rewrite Z.quot_div_nonneg by nia.
        pose proof (Z.div_mod (- d * n) K ltac:(lia)) as Hdm.
        pose proof (Z.mod_pos_bound (- d * n) K HK) as Hmod.
        set (q := - d * n / K) in *.
        assert (0 <= q) by (apply Z.div_pos; nia).
        assert (q <= n - 1) by nia.
        replace (q <? 0) with false by lia. replace (n - 1 <? q) with false by lia. reflexivity.
Qed.

(* comparing an integer with a dyadic number *)
Lemma Rlt_bool_dy : forall a b t k p, 0 <= k -> 0 <= p -> t = p - k ->
  Rlt_bool (IZR a * bpow radix2 0) (IZR b * bpow radix2 t) = (a * 2 ^ k <? b * 2 ^ p).
Proof.
  intros a b t k p Hk Hp ->.
  assert (Hb : bpow radix2 p = (bpow radix2 (p - k) * bpow radix2 k)%R)
    by (rewrite <- bpow_plus; f_equal; lia).
  simpl (bpow radix2 0). rewrite Rmult_1_r.
  destruct (Z.ltb_spec (a * 2 ^ k) (b * 2 ^ p)) as [H|H].
  - apply Rlt_bool_true. apply IZR_lt in H. rewrite !mult_IZR, !IZR_pow2 in H by assumption.
    rewrite Hb, <- Rmult_assoc in H. apply Rmult_lt_reg_r in H; [exact H | apply bpow_gt_0].
  - apply Rlt_bool_false. apply IZR_le in H. rewrite !mult_IZR, !IZR_pow2 in H by assumption.
    rewrite Hb, <- Rmult_assoc in H. apply Rmult_le_reg_r in H; [exact H | apply bpow_gt_0].
Qed.

(* the float clips and the cast, on a dyadic scaled value m * 2^(p-k) *)
Lemma f_clip_cast : forall s m k p, 1 <= p <= 31 -> 0 <= k <= 53 ->
  Fdy (p - k) s m -> Z.abs m < 2 ^ 53 ->
  float_to_int64 (f_clip s (2 ^ p)) =
  if m <? 0 then 0
  else if (2 ^ p - 1) * 2 ^ k <? m * 2 ^ p then 2 ^ p - 1 else (m * 2 ^ p) / 2 ^ k.
Proof.
  intros s m k p Hp Hk Hs Hm.
  assert (HK : 0 < 2 ^ k) by (apply Z.pow_pos_nonneg; lia).
  assert (Hn : 2 <= 2 ^ p) by (change 2 with (2 ^ 1) at 1; apply Z.pow_le_mono_r; lia).
  assert (Hn' : 2 ^ p <= 2 ^ 31) by (apply Z.pow_le_mono_r; lia).
  change (2 ^ 31) with 2147483648 in Hn'.
  set (n := 2 ^ p) in *.
  assert (Hn1 : Fdy 0 (Z2float (n - 1)) (n - 1)).
  { apply Fdy_of_nonneg. change (2 ^ 53) with 9007199254740992. lia. }
  assert (Hcast1 : float_to_int64 (Z2float (n - 1)) = n - 1).
  { destruct Hn1 as [F1 R1]. rewrite float_to_int64_trunc; [|exact F1|].
    - rewrite R1. simpl (bpow radix2 0). rewrite Rmult_1_r. apply Ztrunc_IZR.
    - rewrite R1. simpl (bpow radix2 0). rewrite Rmult_1_r, <- abs_IZR. apply IZR_lt.
      change (2 ^ 63) with 9223372036854775808. lia. }
  unfold f_clip.
  rewrite (Fdy_ltb _ _ _ _ _ Hs (Fdy_zero (p - k))).
  destruct (m <? 0) eqn:Em.
  - rewrite (Fdy_ltb _ _ _ _ _ Hn1 (Fdy_zero 0)).
    replace (n - 1 <? 0) with false by lia. reflexivity.
  - destruct Hs as [Fs Rs]. destruct Hn1 as [F1 R1].
    rewrite ltb_equiv, Bltb_correct by assumption. rewrite R1, Rs.
    rewrite (Rlt_bool_dy _ _ (p - k) k p) by lia. fold n.
    destruct ((n - 1) * 2 ^ k <? m * n) eqn:E1.
    + exact Hcast1.
    + assert (Hval : (IZR m * bpow radix2 (p - k))%R = (IZR (m * n) / IZR (2 ^ k))%R).
      { unfold n. rewrite mult_IZR, !IZR_pow2 by lia. unfold Z.sub. rewrite bpow_plus, bpow_opp.
        unfold Rdiv. ring. }
      rewrite float_to_int64_trunc; [|exact Fs|].
      * rewrite Rs, Hval, Ztrunc_div by lia. apply Z.quot_div_nonneg; nia.
      * rewrite Rs, Hval. rewrite Rabs_pos_eq.
        -- apply Rlt_le_trans with (IZR n).
           ++ apply Rmult_lt_reg_r with (IZR (2 ^ k)); [apply IZR_lt; lia|].
              unfold Rdiv. rewrite Rmult_assoc, Rinv_l, Rmult_1_r by (apply IZR_neq; lia).
              rewrite <- mult_IZR. apply IZR_lt. nia.
           ++ apply IZR_le. change (2 ^ 63) with 9223372036854775808. lia.
        -- apply Rmult_le_pos; [apply IZR_le; nia|].
           apply Rlt_le, Rinv_0_lt_compat, IZR_lt. lia.
Qed.

Lemma is_pow2_spec : forall w, is_pow2 w = true -> w = 2 ^ Z.log2 w /\ 0 < w.
Proof.
  intros w H. unfold is_pow2 in H. apply andb_prop in H. destruct H as [H1 H2]. lia.
Qed.

(* The float model equals the exact model on images of integers in the exact-scaling regime.
   [e] is the exponent of the unit (the harness' unit is 2^-s: e = -s); the bound on e keeps
   every intermediate result away from overflow and underflow. *)
Theorem f_data2coord_exact_regime : forall e p fv flo fhi v lo hi,
  -900 <= e <= 900 -> 1 <= p <= 31 ->
  Fdy e fv v -> Fdy e flo lo -> Fdy e fhi hi ->
  small v = true -> small lo = true -> small hi = true ->
  is_pow2 (Z.abs (hi - lo)) = true ->
  f_data2coord fv flo fhi (2 ^ p) = data2coord1 v lo (hi - lo) (2 ^ p).
Proof.
  intros e p fv flo fhi v lo hi He Hp Hv Hlo Hhi Sv Slo Shi Hw.
  unfold small in Sv, Slo, Shi. change (2 ^ 52) with 4503599627370496 in *.
  apply is_pow2_spec in Hw. destruct Hw as [Hw Hwpos].
  set (k := Z.log2 (Z.abs (hi - lo))) in *.
  assert (Hk0 : 0 <= k) by apply Z.log2_nonneg.
  assert (Hk53 : k <= 53).
  { destruct (Z_le_gt_dec k 53) as [H|H]; [exact H|exfalso].
    assert (2 ^ 54 <= 2 ^ k) by (apply Z.pow_le_mono_r; lia).
    change (2 ^ 54) with 18014398509481984 in *. lia. }
  set (sg := Z.sgn (hi - lo)).
  assert (Hsg : sg = 1 \/ sg = -1) by (unfold sg; lia).
  assert (Ew : hi - lo = sg * 2 ^ k) by (unfold sg; rewrite <- Hw; lia).
  assert (H53 : forall x, Z.abs x < 9007199254740992 -> Z.abs x < 2 ^ 53) by (intros; assumption).
  (* x_width, vals - lo, n, n / x_width, the product *)
  assert (Hxw : Fdy e (fhi - flo)%float (sg * 2 ^ k)).
  { rewrite <- Ew. apply Fdy_sub; try assumption; [lia | apply H53; lia]. }
  assert (Hd : Fdy e (fv - flo)%float (v - lo)).
  { apply Fdy_sub; try assumption; [lia | apply H53; lia]. }
  assert (Hn : Fdy 0 (Z2float (2 ^ p)) (2 ^ p)).
  { apply Fdy_of_nonneg. split; [apply Z.pow_nonneg; lia | apply Z.pow_lt_mono_r; lia]. }
  assert (Hq : Fdy (p - k - e) (Z2float (2 ^ p) / (fhi - flo))%float sg).
  { apply (Fdy_div_pow2 _ _ p k e sg); try assumption; lia. }
  assert (Hs : Fdy (p - k) (f_scaled fv flo fhi (2 ^ p)) ((v - lo) * sg)).
  { unfold f_scaled. replace (p - k) with (e + (p - k - e)) by lia.
    apply Fdy_mul; try assumption; [lia | apply H53; destruct Hsg; subst sg; lia]. }
  unfold f_data2coord.
  assert (HK0 : 0 < 2 ^ k) by (apply Z.pow_pos_nonneg; lia).
  rewrite (Fdy_eqb _ _ _ _ _ Hxw (Fdy_zero e)).
  replace (sg * 2 ^ k =? 0) with false by (destruct Hsg as [E|E]; rewrite E; lia).
  rewrite (f_clip_cast _ ((v - lo) * sg) k p) by
    (try assumption; try lia; apply H53; destruct Hsg as [E|E]; rewrite E; lia).
  rewrite Ew, data2coord1_pow2 by (assumption || lia).
  (* the integer clips do nothing: the value is in range already *)
  assert (HK : 0 < 2 ^ k) by (apply Z.pow_pos_nonneg; lia).
  assert (HN : 0 < 2 ^ p) by (apply Z.pow_pos_nonneg; lia).
  set (m := (v - lo) * sg). set (n := 2 ^ p) in *. set (K := 2 ^ k) in *.
  unfold i_clip.
  destruct (m <? 0) eqn:Em.
  - replace (0 <? 0) with false by reflexivity. replace (n - 1 <? 0) with false by lia. reflexivity.
  - destruct ((n - 1) * K <? m * n) eqn:E1.
    + replace (n - 1 <? 0) with false by lia. replace (n - 1 <? n - 1) with false by lia. reflexivity.
    + pose proof (Z.div_mod (m * n) K ltac:(lia)) as Hdm.
      pose proof (Z.mod_pos_bound (m * n) K HK) as Hmod.
      set (q := m * n / K) in *.
      assert (0 <= q) by (apply Z.div_pos; nia).
      assert (q <= n - 1) by nia.
      replace (q <? 0) with false by lia. replace (n - 1 <? q) with false by lia. reflexivity.
Qed.

(* ====================================================================
   (ii'), one row: mid-point, zero-extent widening, both axes, Hilbert distance
   ==================================================================== *)
Lemma Fdy_rescale : forall e s f z, 0 <= s -> Fdy e f z -> Fdy (e - s) f (z * 2 ^ s).
Proof.
  intros e s f z Hs [F R]. split; [exact F|].
  rewrite R, mult_IZR, IZR_pow2 by exact Hs. unfold Z.sub. rewrite bpow_plus, bpow_opp.
  field. apply Rgt_not_eq, bpow_gt_0.
Qed.

(* the float 1.0 is [one] = 2^s units *)
Lemma Fdy_one : forall s, 0 <= s -> Fdy (- s) 1%float (2 ^ s).
Proof.
  intros s Hs. replace (2 ^ s) with (1 * 2 ^ s) by lia. change (- s) with (0 - s).
  apply Fdy_rescale; [exact Hs|]. change 1%float with (Z2float 1). apply Fdy_of_nonneg.
  change (2 ^ 53) with 9007199254740992. lia.
Qed.

(* x / 2.0 of an even number of units *)
Lemma Fdy_half : forall e a h, -1074 <= e <= 971 -> Z.abs h < 2 ^ 53 ->
  Fdy e a (2 * h) -> Fdy e (a / 2)%float h.
Proof.
  intros e a h He Hh [Fa Ra].
  assert (H2 : Fdy 0 (Z2float 2) 2).
  { apply Fdy_of_nonneg. change (2 ^ 53) with 9007199254740992. lia. }
  change (Z2float 2) with 2%float in H2. destruct H2 as [F2 R2].
  assert (Hnz : B2R (Prim2B 2%float) <> 0%R) by (rewrite R2; simpl; lra).
  unfold Fdy. rewrite div_equiv.
  generalize (Bdiv_correct prec emax Hprec Hmax mode_NE (Prim2B a) (Prim2B 2%float) Hnz).
  rewrite Ra, R2.
  replace (IZR (2 * h) * bpow radix2 e / (2 * bpow radix2 0))%R
    with (IZR h * bpow radix2 e)%R by (rewrite mult_IZR; simpl (bpow radix2 0); field).
  rewrite (dy_round _ _ Hh) by lia. rewrite (dy_lt_emax _ _ Hh) by lia.
  intros (R & F & _). rewrite Fa in F. split; assumption.
Qed.

Lemma f_mid_exact : forall e fa fb a b, -1074 <= e <= 971 ->
  Fdy e fa a -> Fdy e fb b -> regime_val (Some a) (Some b) = true ->
  Fdy e (f_mid fa fb) ((a + b) / 2) /\ small ((a + b) / 2) = true.
Proof.
  intros e fa fb a b He Ha Hb Hr. unfold regime_val, small in Hr.
  change (2 ^ 52) with 4503599627370496 in Hr.
  assert (Hev : Z.even (a + b) = true) by lia.
  apply Z.even_spec in Hev. destruct Hev as [h Hh].
  assert (Eh : (a + b) / 2 = h) by (rewrite Hh, Z.mul_comm; apply Z.div_mul; lia).
  rewrite Eh. split.
  - unfold f_mid. apply Fdy_half; [exact He | change (2 ^ 53) with 9007199254740992; lia |].
    rewrite <- Hh. apply Fdy_add; try assumption.
    change (2 ^ 53) with 9007199254740992. lia.
  - unfold small. change (2 ^ 52) with 4503599627370496. lia.
Qed.

Lemma f_widen_exact : forall s flo fhi lo hi, 0 <= s <= 900 ->
  Fdy (- s) flo lo -> Fdy (- s) fhi hi ->
  small (snd (widen (2 ^ s) (lo, hi))) = true ->
  Fdy (- s) (fst (f_widen (flo, fhi))) (fst (widen (2 ^ s) (lo, hi))) /\
  Fdy (- s) (snd (f_widen (flo, fhi))) (snd (widen (2 ^ s) (lo, hi))).
Proof.
  intros s flo fhi lo hi Hs Hlo Hhi. unfold widen, f_widen.
  rewrite (Fdy_eqb _ _ _ _ _ Hlo Hhi).
  destruct (lo =? hi); cbn [fst snd]; intros Hsm; split; try assumption.
  apply Fdy_add; [lia | assumption | apply Fdy_one; lia |].
  unfold small in Hsm. change (2 ^ 52) with 4503599627370496 in Hsm.
  change (2 ^ 53) with 9007199254740992. lia.
Qed.

Lemma regime_range_split : forall lo hi, regime_range lo hi = true ->
  small lo = true /\ small hi = true /\ is_pow2 (Z.abs (hi - lo)) = true.
Proof.
  intros lo hi H. unfold regime_range in H.
  apply andb_prop in H. destruct H as [H H3]. apply andb_prop in H. destruct H as [H1 H2].
  auto.
Qed.

(* a row the exact model answers: the float model gives the same Hilbert distance *)
Theorem f_hd1_exact_regime :
  forall s p ftx0 fty0 ftx1 fty1 fx0 fy0 fx1 fy1 tx0 ty0 tx1 ty1 x0 y0 x1 y1 d,
  0 <= s <= 900 -> (1 <= p <= 31)%nat ->
  Fdy (- s) ftx0 tx0 -> Fdy (- s) fty0 ty0 -> Fdy (- s) ftx1 tx1 -> Fdy (- s) fty1 ty1 ->
  Fdy (- s) fx0 x0 -> Fdy (- s) fy0 y0 -> Fdy (- s) fx1 x1 -> Fdy (- s) fy1 y1 ->
  hd1 (2 ^ s) (tx0, ty0, tx1, ty1) p (Some x0, Some y0, Some x1, Some y1) = Some d ->
  f_hd1 (ftx0, fty0, ftx1, fty1) p (fx0, fy0, fx1, fy1) = d.
Proof.
  intros s p ftx0 fty0 ftx1 fty1 fx0 fy0 fx1 fy1 tx0 ty0 tx1 ty1 x0 y0 x1 y1 d
         Hs Hp.
  assert (He : -1074 <= - s <= 971) by lia.
  assert (Hp' : 1 <= Z.of_nat p <= 31) by lia.
  assert (He' : -900 <= - s <= 900) by lia.
  intros Htx0 Hty0 Htx1 Hty1 Hx0 Hy0 Hx1 Hy1 H.
  unfold hd1 in H. unfold f_hd1.
  pose proof (f_widen_exact s ftx0 ftx1 tx0 tx1 Hs Htx0 Htx1) as Wx.
  pose proof (f_widen_exact s fty0 fty1 ty0 ty1 Hs Hty0 Hty1) as Wy.
  destruct (widen (2 ^ s) (tx0, tx1)) as [xlo xhi].
  destruct (widen (2 ^ s) (ty0, ty1)) as [ylo yhi].
  destruct (f_widen (ftx0, ftx1)) as [fxlo fxhi].
  destruct (f_widen (fty0, fty1)) as [fylo fyhi].
  cbn [fst snd] in Wx, Wy.
  destruct (regime_range xlo xhi && regime_range ylo yhi &&
            regime_val (bx0 (Some x0, Some y0, Some x1, Some y1)) (bx1 (Some x0, Some y0, Some x1, Some y1)) &&
            regime_val (by0 (Some x0, Some y0, Some x1, Some y1)) (by1 (Some x0, Some y0, Some x1, Some y1)))
    eqn:G; [|discriminate].
  cbn [bx0 bx1 by0 by1] in G, H.
  apply andb_prop in G. destruct G as [G Gvy]. apply andb_prop in G. destruct G as [G Gvx].
  apply andb_prop in G. destruct G as [Grx Gry].
  apply regime_range_split in Grx. destruct Grx as (Sxlo & Sxhi & Pwx).
  apply regime_range_split in Gry. destruct Gry as (Sylo & Syhi & Pwy).
  destruct (Wx Sxhi) as [Fxlo Fxhi]. destruct (Wy Syhi) as [Fylo Fyhi].
  destruct (f_mid_exact _ _ _ _ _ He Hx0 Hx1 Gvx) as [Fmx Smx].
  destruct (f_mid_exact _ _ _ _ _ He Hy0 Hy1 Gvy) as [Fmy Smy].
  cbn [fadd fhalf] in H.
  assert (Nx : xhi - xlo <> 0) by (apply is_pow2_spec in Pwx; lia).
  assert (Ny : yhi - ylo <> 0) by (apply is_pow2_spec in Pwy; lia).
  rewrite (data2coord_width _ _ _ _ Nx), (data2coord_width _ _ _ _ Ny) in H. cbn [map] in H.
  inversion H; subst d; clear H.
  rewrite (f_data2coord_exact_regime (- s) (Z.of_nat p) _ _ _ _ _ _ He' Hp' Fmx Fxlo Fxhi Smx Sxlo Sxhi Pwx).
  rewrite (f_data2coord_exact_regime (- s) (Z.of_nat p) _ _ _ _ _ _ He' Hp' Fmy Fylo Fyhi Smy Sylo Syhi Pwy).
  reflexivity.
Qed.

(* ... hence the statement of the property, about the bit-exact float model: in the exact regime the
   distance is the curve position of the cell that contains the bbox centre (C08_cell composed with
   the row theorem above) *)
Theorem f_cell_of_centre :
  forall s p ftx0 fty0 ftx1 fty1 fx0 fy0 fx1 fy1 tx0 ty0 tx1 ty1 x0 y0 x1 y1 d,
  0 <= s <= 900 -> (1 <= p <= 31)%nat ->
  Fdy (- s) ftx0 tx0 -> Fdy (- s) fty0 ty0 -> Fdy (- s) ftx1 tx1 -> Fdy (- s) fty1 ty1 ->
  Fdy (- s) fx0 x0 -> Fdy (- s) fy0 y0 -> Fdy (- s) fx1 x1 -> Fdy (- s) fy1 y1 ->
  let xr := widen (2 ^ s) (tx0, tx1) in
  let yr := widen (2 ^ s) (ty0, ty1) in
  fst xr < snd xr -> fst yr < snd yr ->
  hd1 (2 ^ s) (tx0, ty0, tx1, ty1) p (Some x0, Some y0, Some x1, Some y1) = Some d ->
  exists cx cy,
    f_hd1 (ftx0, fty0, ftx1, fty1) p (fx0, fy0, fx1, fy1)
    = distance_from_coordinate p [Z.to_N cx; Z.to_N cy] /\
    cell_index_spec (fst xr) (snd xr - fst xr) p (x0 + x1) cx /\
    cell_index_spec (fst yr) (snd yr - fst yr) p (y0 + y1) cy.
Proof.
  intros s p ftx0 fty0 ftx1 fty1 fx0 fy0 fx1 fy1 tx0 ty0 tx1 ty1 x0 y0 x1 y1 d
         Hs Hp Htx0 Hty0 Htx1 Hty1 Hx0 Hy0 Hx1 Hy1 xr yr Hxr Hyr H.
  destruct (cell_of_centre (2 ^ s) tx0 ty0 tx1 ty1 p x0 y0 x1 y1 d Hxr Hyr H)
    as (cx & cy & Hd & Hcx & Hcy).
  exists cx, cy. split; [|split; assumption].
  rewrite <- Hd.
  apply (f_hd1_exact_regime s p ftx0 fty0 ftx1 fty1 fx0 fy0 fx1 fy1 tx0 ty0 tx1 ty1 x0 y0 x1 y1 d);
    assumption.
Qed.

(* ====================================================================
   (iii) monotonicity (partial: no intermediate overflow)
   ==================================================================== *)
Definition clipR (n : Z) (x : R) : R :=
  if Rlt_bool x 0 then 0%R else if Rlt_bool (IZR (n - 1)) x then IZR (n - 1) else x.

Lemma clipR_bounds : forall n x, 1 <= n -> (0 <= clipR n x <= IZR (n - 1))%R.
Proof.
  intros n x Hn. assert (0 <= IZR (n - 1))%R by (apply IZR_le; lia). unfold clipR.
  destruct (Rlt_bool_spec x 0); [lra|]. destruct (Rlt_bool_spec (IZR (n - 1)) x); lra.
Qed.

Lemma clipR_mono : forall n x y, 1 <= n -> (x <= y)%R -> (clipR n x <= clipR n y)%R.
Proof.
  intros n x y Hn Hxy. assert (0 <= IZR (n - 1))%R by (apply IZR_le; lia). unfold clipR.
  destruct (Rlt_bool_spec x 0); destruct (Rlt_bool_spec y 0);
    destruct (Rlt_bool_spec (IZR (n - 1)) x); destruct (Rlt_bool_spec (IZR (n - 1)) y); lra.
Qed.

Lemma f_clip_finite : forall s p, 1 <= p <= 31 -> is_finite (Prim2B s) = true ->
  is_finite (Prim2B (f_clip s (2 ^ p))) = true /\
  B2R (Prim2B (f_clip s (2 ^ p))) = clipR (2 ^ p) (B2R (Prim2B s)).
Proof.
  intros s p Hp Fs.
  assert (Hn : 2 <= 2 ^ p) by (change 2 with (2 ^ 1) at 1; apply Z.pow_le_mono_r; lia).
  assert (Hn' : 2 ^ p <= 2 ^ 31) by (apply Z.pow_le_mono_r; lia).
  change (2 ^ 31) with 2147483648 in Hn'.
  set (n := 2 ^ p) in *.
  assert (Hn1 : Fdy 0 (Z2float (n - 1)) (n - 1)).
  { apply Fdy_of_nonneg. change (2 ^ 53) with 9007199254740992. lia. }
  destruct (Fdy_zero 0) as [F0 R0]. rewrite Rmult_0_l in R0.
  unfold f_clip, clipR.
  rewrite (ltb_equiv s 0%float), Bltb_correct by assumption. rewrite R0.
  destruct (Rlt_bool (B2R (Prim2B s)) 0).
  - rewrite (Fdy_ltb _ _ _ _ _ Hn1 (Fdy_zero 0)). replace (n - 1 <? 0) with false by lia.
    split; assumption.
  - destruct Hn1 as [F1 R1]. simpl (bpow radix2 0) in R1. rewrite Rmult_1_r in R1.
    rewrite (ltb_equiv (Z2float (n - 1)) s), (Bltb_correct _ _ _ _ F1 Fs). rewrite R1.
    destruct (Rlt_bool (IZR (n - 1)) (B2R (Prim2B s))); split; (assumption || reflexivity).
Qed.

Lemma cast_clip_mono : forall s s' p, 1 <= p <= 31 ->
  is_finite (Prim2B s) = true -> is_finite (Prim2B s') = true ->
  (B2R (Prim2B s) <= B2R (Prim2B s'))%R ->
  float_to_int64 (f_clip s (2 ^ p)) <= float_to_int64 (f_clip s' (2 ^ p)).
Proof.
  intros s s' p Hp Fs Fs' Hle.
  assert (Hn : 1 <= 2 ^ p) by (assert (0 < 2 ^ p) by (apply Z.pow_pos_nonneg; lia); lia).
  assert (Hn' : 2 ^ p <= 2 ^ 31) by (apply Z.pow_le_mono_r; lia).
  destruct (f_clip_finite s p Hp Fs) as [F1 R1]. destruct (f_clip_finite s' p Hp Fs') as [F2 R2].
  assert (Hb : forall x, (Rabs (clipR (2 ^ p) x) < IZR (2 ^ 63))%R).
  { intros x. pose proof (clipR_bounds (2 ^ p) x Hn) as [B1 B2]. rewrite Rabs_pos_eq by exact B1.
    apply Rle_lt_trans with (1 := B2). apply IZR_lt.
    change (2 ^ 31) with 2147483648 in Hn'. change (2 ^ 63) with 9223372036854775808. lia. }
  rewrite !float_to_int64_trunc; try assumption; try (rewrite ?R1, ?R2; apply Hb).
  rewrite R1, R2. apply Ztrunc_le. now apply clipR_mono.
Qed.

Lemma i_clip_mono : forall r r' n, r <= r' -> i_clip r n <= i_clip r' n.
Proof.
  intros r r' n H. unfold i_clip.
  destruct (r <? 0) eqn:E1; destruct (r' <? 0) eqn:E2;
    repeat match goal with |- context [?a <? ?b] => destruct (a <? b) eqn:? end; lia.
Qed.

(* finite result of a subtraction / multiplication of finite floats = no overflow happened *)
Lemma sub_finite_round : forall a b, is_finite (Prim2B a) = true -> is_finite (Prim2B b) = true ->
  is_finite (Prim2B (a - b)) = true ->
  B2R (Prim2B (a - b)) = round radix2 fexp64 (round_mode mode_NE) (B2R (Prim2B a) - B2R (Prim2B b)).
Proof.
  intros a b Fa Fb. rewrite sub_equiv.
  generalize (Bminus_correct prec emax Hprec Hmax mode_NE (Prim2B a) (Prim2B b) Fa Fb).
  destruct (Rlt_bool _ _).
  - intros (R & _) _. exact R.
  - intros (O & _) F. rewrite <- is_finite_SF_B2SF, O in F. discriminate.
Qed.

Lemma mul_finite_round : forall a b, is_finite (Prim2B (a * b)) = true ->
  B2R (Prim2B (a * b)) = round radix2 fexp64 (round_mode mode_NE) (B2R (Prim2B a) * B2R (Prim2B b)).
Proof.
  intros a b. rewrite mul_equiv.
  generalize (Bmult_correct prec emax Hprec Hmax mode_NE (Prim2B a) (Prim2B b)).
  destruct (Rlt_bool _ _).
  - intros (R & _) _. exact R.
  - intros O F. rewrite <- is_finite_SF_B2SF, O in F. discriminate.
Qed.

(* For fixed finite lo and a finite non-negative factor n / (hi - lo), a larger value never gets a
   smaller cell: every operation (subtraction, multiplication, the clips, the truncation) is
   monotone (in a range without extent: v > hi implies v' > hi).  PARTIAL: the hypotheses exclude non-finite inputs and overflow of the two
   intermediate results; [is_finite] and the comparisons are PrimFloat's. *)
Theorem f_data2coord_monotone_partial : forall v v' lo hi p, 1 <= p <= 31 ->
  let c := (Z2float (2 ^ p) / (hi - lo))%float in
  PrimFloat.is_finite v = true -> PrimFloat.is_finite v' = true -> PrimFloat.is_finite lo = true ->
  PrimFloat.is_finite hi = true ->
  PrimFloat.is_finite c = true -> (0 <=? c)%float = true ->
  PrimFloat.is_finite (v - lo)%float = true -> PrimFloat.is_finite (v' - lo)%float = true ->
  PrimFloat.is_finite ((v - lo) * c)%float = true -> PrimFloat.is_finite ((v' - lo) * c)%float = true ->
  (v <=? v')%float = true ->
  f_data2coord v lo hi (2 ^ p) <= f_data2coord v' lo hi (2 ^ p).
Proof.
  intros v v' lo hi p Hp c Fv Fv' Flo Fhi Fc Hc Fd Fd' Fs Fs' Hvv.
  rewrite is_finite_equiv in Fv, Fv', Flo, Fhi, Fc, Fd, Fd', Fs, Fs'.
  assert (Hc0 : (0 <= B2R (Prim2B c))%R).
  { destruct (Fdy_zero 0) as [F0 R0]. rewrite Rmult_0_l in R0.
    rewrite leb_equiv, Bleb_correct in Hc by assumption. rewrite R0 in Hc.
    destruct (Rle_bool_spec 0 (B2R (Prim2B c))); [assumption | discriminate]. }
  assert (Hle : (B2R (Prim2B v) <= B2R (Prim2B v'))%R).
  { rewrite leb_equiv, Bleb_correct in Hvv by assumption.
    destruct (Rle_bool_spec (B2R (Prim2B v)) (B2R (Prim2B v'))); [assumption | discriminate]. }
  unfold f_data2coord.
  destruct (PrimFloat.eqb (hi - lo) 0).
  { (* a range without extent: v > hi implies v' > hi *)
    assert (2 <= 2 ^ p) by (change 2 with (2 ^ 1) at 1; apply Z.pow_le_mono_r; lia).
    rewrite !ltb_equiv, !Bltb_correct by assumption.
    destruct (Rlt_bool_spec (B2R (Prim2B hi)) (B2R (Prim2B v)));
      destruct (Rlt_bool_spec (B2R (Prim2B hi)) (B2R (Prim2B v'))); try lia. lra. }
  apply i_clip_mono. apply cast_clip_mono; try assumption.
  unfold f_scaled. fold c.
  rewrite !mul_finite_round by assumption.
  apply round_le; [apply FLT_exp_valid; reflexivity | apply valid_rnd_N |].
  apply Rmult_le_compat_r; [exact Hc0|].
  rewrite !sub_finite_round by assumption.
  apply round_le; [apply FLT_exp_valid; reflexivity | apply valid_rnd_N |].
  lra.
Qed.

(* ====================================================================
   when is a range without extent?  exactly when lo and hi are the same finite number
   ==================================================================== *)
Theorem zero_width_iff : forall lo hi,
  is_finite (Prim2B lo) = true -> is_finite (Prim2B hi) = true ->
  (PrimFloat.eqb (hi - lo) 0 = true <-> B2R (Prim2B hi) = B2R (Prim2B lo)).
Proof.
  intros lo hi Flo Fhi. rewrite eqb_equiv, sub_equiv.
  generalize (Bminus_correct prec emax Hprec Hmax mode_NE (Prim2B hi) (Prim2B lo) Fhi Flo).
  set (x := B2R (Prim2B hi)). set (y := B2R (Prim2B lo)).
  assert (Fx : generic_format radix2 fexp64 x) by apply generic_format_B2R.
  assert (Fy : generic_format radix2 fexp64 (- y)) by (apply generic_format_opp, generic_format_B2R).
  assert (Hv : Valid_exp fexp64) by (apply FLT_exp_valid; reflexivity).
  destruct (Fdy_zero 0) as [F0 R0]. rewrite Rmult_0_l in R0.
  destruct (Rlt_bool _ _) eqn:E.
  - intros (R & F & _). rewrite Beqb_correct by assumption. rewrite R, R0. split.
    + intro H.
      destruct (Req_bool_spec (round radix2 fexp64 (round_mode mode_NE) (x - y)) 0) as [H0|H0];
        [|discriminate].
      assert (x + - y = 0)%R.
      { apply (round_plus_eq_0 radix2 fexp64 (round_mode mode_NE)); try assumption. }
      lra.
    + intro H. apply Req_bool_true. replace (x - y)%R with 0%R by lra. apply round_0.
      apply valid_rnd_N.
  - intros (O & _). split.
    + intro H. unfold Beqb in H. rewrite O in H. rewrite B2SF_Prim2B in H.
      destruct (Bsign (Prim2B hi)); discriminate.
    + intro H. exfalso. replace (x - y)%R with 0%R in E by lra.
      rewrite round_0, Rabs_R0 in E by apply valid_rnd_N.
      rewrite Rlt_bool_true in E; [discriminate | apply bpow_gt_0].
Qed.

(* the same in PrimFloat's own vocabulary: for finite lo, hi,  hi - lo == 0.0  iff  hi == lo
   (gradual underflow: a difference of two different floats never rounds to zero) *)
Theorem zero_width_eqb : forall lo hi,
  PrimFloat.is_finite lo = true -> PrimFloat.is_finite hi = true ->
  PrimFloat.eqb (hi - lo) 0 = PrimFloat.eqb hi lo.
Proof.
  intros lo hi Flo Fhi. rewrite is_finite_equiv in Flo, Fhi.
  pose proof (zero_width_iff lo hi Flo Fhi) as [H1 H2].
  rewrite (eqb_equiv hi lo), Beqb_correct by assumption.
  destruct (Req_bool_spec (B2R (Prim2B hi)) (B2R (Prim2B lo))) as [E|E].
  - now apply H2.
  - destruct (PrimFloat.eqb (hi - lo) 0); [|reflexivity]. exfalso. apply E. now apply H1.
Qed.
