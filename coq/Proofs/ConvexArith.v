(* Real-arithmetic core of the triangle / convex-ring theorems about the
   declarative winding number (Spec/Winding.v):
   - the contribution of an edge in terms of [orient] (wn_edge_up/down);
   - four points in convex position cannot alternate above/below a horizontal
     line (four_point);
   - directions in a closed half-plane are ordered by the cross product
     (lt_dir_step): a closed chain cannot turn left all the way;
   - the wedge lemma: a point separated from O, M, N by a line is not between
     the edges OM and ON on a horizontal line crossing both (wedge). *)
From Coq Require Import ZArith List Bool Arith Reals Lra Lia Psatz.
From SP Require Import Spec.PointShapeSpec Spec.Winding Spec.ConvexSpec
                       Proofs.WindingRefine Proofs.WindingLaws.
Import ListNotations.
Open Scope R_scope.

(* ---- orient ---- *)

Lemma orient_vec : forall A B P,
  orient A B P = (fst A - fst P) * (snd B - snd P) - (snd A - snd P) * (fst B - fst P).
Proof. intros [a0 b0] [a1 b1] [x y]. unfold orient; simpl. ring. Qed.

Lemma orient_cyc : forall A B C, orient A B C = orient B C A.
Proof. intros [a0 b0] [a1 b1] [x y]. unfold orient; simpl. ring. Qed.

Lemma orient_swap : forall A B C, orient B A C = - orient A B C.
Proof. intros [a0 b0] [a1 b1] [x y]. unfold orient; simpl. ring. Qed.

Lemma orient_same : forall A P, orient A A P = 0.
Proof. intros [a0 b0] [x y]. unfold orient; simpl. ring. Qed.

(* the three sub-triangles at P add up to the triangle *)
Lemma orient_sum : forall A B C P,
  orient A B P + orient B C P + orient C A P = orient A B C.
Proof. intros [a0 b0] [a1 b1] [a2 b2] [x y]. unfold orient; simpl. ring. Qed.

(* ---- one edge ---- *)

Lemma above_1 : forall y v, y <= v -> above y v = 1%Z.
Proof. intros. unfold above. destruct (Rle_dec y v); [reflexivity | lra]. Qed.

Lemma above_0 : forall y v, v < y -> above y v = 0%Z.
Proof. intros. unfold above. destruct (Rle_dec y v); [lra | reflexivity]. Qed.

Lemma above_01 : forall y v, above y v = 0%Z \/ above y v = 1%Z.
Proof. intros. unfold above. destruct (Rle_dec y v); auto. Qed.

Lemma above_1_inv : forall y v, above y v = 1%Z -> y <= v.
Proof. intros y v. unfold above. destruct (Rle_dec y v); [auto | discriminate]. Qed.

Lemma above_0_inv : forall y v, above y v = 0%Z -> v < y.
Proof. intros y v. unfold above. destruct (Rle_dec y v); [discriminate | lra]. Qed.

(* upward edge: counted iff P is on or left of the directed line A -> B *)
Lemma wn_edge_up : forall P A B, snd A < snd P <= snd B ->
  wn_edge P A B = if Rle_dec 0 (orient A B P) then 1%Z else 0%Z.
Proof.
  intros [x y] [a0 b0] [a1 b1] [H1 H2]. unfold wn_edge, crosses_right. cbn [fst snd] in *.
  rewrite (above_1 y b1 H2), (above_0 y b0 H1).
  pose proof (crosses_up a0 b0 a1 b1 x y ltac:(lra)) as Hc.
  rewrite orient_vec. cbn [fst snd].
  destruct (Rle_dec x (X_at (a0, b0) (a1, b1) y)) as [H|H];
    destruct (Rle_dec 0 ((a0 - x) * (b1 - y) - (b0 - y) * (a1 - x))) as [H'|H'];
    try reflexivity; exfalso; tauto.
Qed.

(* downward edge: counted iff P is on or right of the directed line A -> B *)
Lemma wn_edge_down : forall P A B, snd B < snd P <= snd A ->
  wn_edge P A B = if Rle_dec (orient A B P) 0 then (-1)%Z else 0%Z.
Proof.
  intros [x y] [a0 b0] [a1 b1] [H1 H2]. unfold wn_edge, crosses_right. cbn [fst snd] in *.
  rewrite (above_1 y b0 H2), (above_0 y b1 H1).
  pose proof (crosses_down a0 b0 a1 b1 x y ltac:(lra)) as Hc.
  rewrite orient_vec. cbn [fst snd].
  destruct (Rle_dec x (X_at (a0, b0) (a1, b1) y)) as [H|H];
    destruct (Rle_dec ((a0 - x) * (b1 - y) - (b0 - y) * (a1 - x)) 0) as [H'|H'];
    try reflexivity; exfalso; tauto.
Qed.

(* P strictly left of A -> B: exactly the upward crossings count *)
Lemma wn_edge_left : forall P A B, 0 < orient A B P ->
  wn_edge P A B = ((1 - above (snd P) (snd A)) * above (snd P) (snd B))%Z.
Proof.
  intros P A B Ho.
  destruct (Rle_dec (snd P) (snd A)) as [HA|HA]; destruct (Rle_dec (snd P) (snd B)) as [HB|HB].
  - rewrite wn_edge_same_side by (rewrite !above_1 by assumption; reflexivity).
    rewrite !above_1 by assumption. reflexivity.
  - rewrite wn_edge_down by lra. rewrite above_1, above_0 by lra.
    destruct (Rle_dec (orient A B P) 0); [lra | reflexivity].
  - rewrite wn_edge_up by lra. rewrite above_0, above_1 by lra.
    destruct (Rle_dec 0 (orient A B P)); [reflexivity | lra].
  - rewrite wn_edge_same_side by (rewrite !above_0 by lra; reflexivity).
    rewrite !above_0 by lra. reflexivity.
Qed.

(* P strictly right of A -> B: exactly the downward crossings count *)
Lemma wn_edge_right : forall P A B, orient A B P < 0 ->
  wn_edge P A B = (- (above (snd P) (snd A) * (1 - above (snd P) (snd B))))%Z.
Proof.
  intros P A B Ho.
  destruct (Rle_dec (snd P) (snd A)) as [HA|HA]; destruct (Rle_dec (snd P) (snd B)) as [HB|HB].
  - rewrite wn_edge_same_side by (rewrite !above_1 by assumption; reflexivity).
    rewrite !above_1 by assumption. reflexivity.
  - rewrite wn_edge_down by lra. rewrite above_1, above_0 by lra.
    destruct (Rle_dec (orient A B P) 0); [reflexivity | lra].
  - rewrite wn_edge_up by lra. rewrite above_0, above_1 by lra.
    destruct (Rle_dec 0 (orient A B P)); [lra | reflexivity].
  - rewrite wn_edge_same_side by (rewrite !above_0 by lra; reflexivity).
    rewrite !above_0 by lra. reflexivity.
Qed.

(* ---- four points in convex position ---- *)

(* the affine dependency of four points of the plane, second coordinate,
   measured from height y *)
Lemma four_point_identity : forall a b c d : rpt, forall y,
  orient b c d * (snd a - y) + orient a b d * (snd c - y) =
  orient a c d * (snd b - y) + orient a b c * (snd d - y).
Proof. intros [a0 a1] [b0 b1] [c0 c1] [d0 d1] y. unfold orient; simpl. ring. Qed.

(* the heights of a, b, c, d (in ring order) do not alternate around y *)
Definition no_alt (y : R) (a b c d : rpt) : Prop :=
  ~ (above y (snd a) = above y (snd c) /\ above y (snd b) = above y (snd d) /\
     above y (snd a) <> above y (snd b)).

Lemma four_point : forall ccw a b c d y,
  turn ccw a b c -> turn ccw b c d -> turn ccw a c d -> turn ccw a b d ->
  no_alt y a b c d.
Proof.
  intros ccw a b c d y Habc Hbcd Hacd Habd [Hac [Hbd Hab]].
  pose proof (four_point_identity a b c d y) as Hid.
  destruct (above_01 y (snd a)) as [Ea|Ea]; destruct (above_01 y (snd b)) as [Eb|Eb];
    try (rewrite Ea, Eb in Hab; apply Hab; reflexivity).
  - (* a, c below; b, d at or above *)
    rewrite Ea in Hac. rewrite Eb in Hbd. symmetry in Hac, Hbd.
    apply above_0_inv in Ea, Hac. apply above_1_inv in Eb, Hbd.
    destruct ccw; cbn [turn] in *;
      set (oabc := orient a b c) in *; set (obcd := orient b c d) in *;
      set (oacd := orient a c d) in *; set (oabd := orient a b d) in *.
    + assert (obcd * (snd a - y) < 0) by nra. assert (oabd * (snd c - y) < 0) by nra.
      assert (0 <= oacd * (snd b - y)) by nra. assert (0 <= oabc * (snd d - y)) by nra. lra.
    + assert (0 < obcd * (snd a - y)) by nra. assert (0 < oabd * (snd c - y)) by nra.
      assert (oacd * (snd b - y) <= 0) by nra. assert (oabc * (snd d - y) <= 0) by nra. lra.
  - (* a, c at or above; b, d below *)
    rewrite Ea in Hac. rewrite Eb in Hbd. symmetry in Hac, Hbd.
    apply above_1_inv in Ea, Hac. apply above_0_inv in Eb, Hbd.
    destruct ccw; cbn [turn] in *;
      set (oabc := orient a b c) in *; set (obcd := orient b c d) in *;
      set (oacd := orient a c d) in *; set (oabd := orient a b d) in *.
    + assert (0 <= obcd * (snd a - y)) by nra. assert (0 <= oabd * (snd c - y)) by nra.
      assert (oacd * (snd b - y) < 0) by nra. assert (oabc * (snd d - y) < 0) by nra. lra.
    + assert (obcd * (snd a - y) <= 0) by nra. assert (oabd * (snd c - y) <= 0) by nra.
      assert (0 < oacd * (snd b - y)) by nra. assert (0 < oabc * (snd d - y)) by nra. lra.
Qed.

(* ---- directions in the closed upper half-plane ---- *)

Definition cross (u v : rpt) : R := fst u * snd v - snd u * fst v.

(* the angle of u is smaller than the angle of v (both in [0, pi]) *)
Definition lt_dir (u v : rpt) : Prop :=
  0 < cross u v \/ (snd u = 0 /\ snd v = 0 /\ 0 < fst u /\ fst v < 0).

Lemma lt_dir_irrefl : forall u, ~ lt_dir u u.
Proof.
  intros [a b] [H|[_ [_ [H1 H2]]]]; unfold cross in *; simpl in *; [|lra].
  assert (a * b - b * a = 0) by ring. lra.
Qed.

Lemma lt_dir_step : forall u v w,
  0 <= snd u -> 0 <= snd v -> 0 <= snd w ->
  lt_dir u v -> 0 < cross v w -> lt_dir u w.
Proof.
  intros [a0 b0] [a1 b1] [a2 b2]. unfold lt_dir, cross. cbn [fst snd].
  intros H0 H1 H2 Huv Hvw.
  destruct Huv as [Huv|[E0 [E1 [P0 N1]]]].
  - assert (Hid : (a0 * b2 - b0 * a2) * b1 = (a0 * b1 - b0 * a1) * b2 + (a1 * b2 - b1 * a2) * b0)
      by ring.
    destruct (Rle_lt_or_eq_dec 0 b1 H1) as [Hb1|Hb1].
    + (* v strictly above the axis *)
      assert (T1 : 0 <= (a0 * b1 - b0 * a1) * b2) by (apply Rmult_le_pos; lra).
      assert (T2 : 0 <= (a1 * b2 - b1 * a2) * b0) by (apply Rmult_le_pos; lra).
      assert (Hge : 0 <= (a0 * b2 - b0 * a2) * b1) by lra.
      destruct (Rle_lt_dec (a0 * b2 - b0 * a2) 0) as [Hle|Hgt]; [|now left].
      assert (Hz : (a0 * b2 - b0 * a2) * b1 <= 0) by nra.
      assert (Z1 : (a0 * b1 - b0 * a1) * b2 = 0) by lra.
      assert (Z2 : (a1 * b2 - b1 * a2) * b0 = 0) by lra.
      assert (Eb2 : b2 = 0) by nra. assert (Eb0 : b0 = 0) by nra.
      right. subst b2 b0. repeat split; try reflexivity; nra.
    + (* v on the axis *)
      subst b1. exfalso.
      assert (b0 * a1 < 0) by lra. assert (0 < a1 * b2) by lra.
      destruct (Rle_lt_dec a1 0); nra.
  - subst b0 b1. exfalso. nra.
Qed.

(* ---- the wedge lemma (vectors measured from P) ----
   g w = f0 + p * fst w + q * snd w is an affine function, negative at the
   origin (P) and non-negative at u, m, n; u is at or below the horizontal
   axis, m and n at or above, strictly apart.  Then the origin is not between
   the rays of the segments u-m and u-n on the axis:  cross u m >= 0 >= cross u n
   forces both to vanish. *)
Lemma wedge : forall p q f0 (u m n : rpt),
  f0 < 0 ->
  0 <= f0 + p * fst u + q * snd u ->
  0 <= f0 + p * fst m + q * snd m ->
  0 <= f0 + p * fst n + q * snd n ->
  snd u <= 0 -> 0 <= snd m -> 0 <= snd n -> snd u < snd m -> snd u < snd n ->
  0 <= cross u m -> cross u n <= 0 -> 0 < cross u m - cross u n -> False.
Proof.
  intros p q f0 [au bu] [am bm] [an bn]. unfold cross. cbn [fst snd].
  intros Hf Gu Gm Gn Hu Hm Hn Hum Hun Cm Cn Cs.
  set (sB := au * bm - bu * am) in *. set (sC := - (au * bn - bu * an)).
  assert (HsC : 0 <= sC) by (unfold sC; lra).
  set (gu := f0 + p * au + q * bu) in *. set (gm := f0 + p * am + q * bm) in *.
  set (gn := f0 + p * an + q * bn) in *.
  assert (Hid : (sB * (bn - bu) + sC * (bm - bu)) * f0 =
                sB * (bn * gu + (- bu) * gn) + sC * (bm * gu + (- bu) * gm)).
  { unfold sB, sC, gu, gm, gn. ring. }
  assert (K : 0 < sB * (bn - bu) + sC * (bm - bu)).
  { assert (0 <= sB * (bn - bu)) by (apply Rmult_le_pos; lra).
    assert (0 <= sC * (bm - bu)) by (apply Rmult_le_pos; lra).
    destruct (Rle_lt_or_eq_dec 0 sB Cm) as [Hp|Hz].
    - assert (0 < sB * (bn - bu)) by (apply Rmult_lt_0_compat; lra). lra.
    - assert (0 < sC) by (unfold sC; lra).
      assert (0 < sC * (bm - bu)) by (apply Rmult_lt_0_compat; lra). lra. }
  assert (L : (sB * (bn - bu) + sC * (bm - bu)) * f0 < 0) by nra.
  assert (R1 : 0 <= bn * gu + (- bu) * gn).
  { assert (0 <= bn * gu) by (apply Rmult_le_pos; lra).
    assert (0 <= (- bu) * gn) by (apply Rmult_le_pos; lra). lra. }
  assert (R2 : 0 <= bm * gu + (- bu) * gm).
  { assert (0 <= bm * gu) by (apply Rmult_le_pos; lra).
    assert (0 <= (- bu) * gm) by (apply Rmult_le_pos; lra). lra. }
  assert (0 <= sB * (bn * gu + (- bu) * gn)) by (apply Rmult_le_pos; lra).
  assert (0 <= sC * (bm * gu + (- bu) * gm)) by (apply Rmult_le_pos; lra).
  lra.
Qed.
