(* Plane geometry of two segments over R, in coordinates. *)
From Coq Require Import Reals Lra Psatz.
Open Scope R_scope.

(* (B - A) x (C - A) *)
Definition crossR (ax ay bx by_ cx cy : R) : R :=
  (bx - ax) * (cy - ay) - (by_ - ay) * (cx - ax).

(* the two closed segments a0a1 and b0b1 share a point *)
Definition meetR (ax0 ay0 ax1 ay1 bx0 by0 bx1 by1 : R) : Prop :=
  exists s t, 0 <= s <= 1 /\ 0 <= t <= 1 /\
    ax0 + s * (ax1 - ax0) = bx0 + t * (bx1 - bx0) /\
    ay0 + s * (ay1 - ay0) = by0 + t * (by1 - by0).

Lemma meetR_swap_xy : forall ax0 ay0 ax1 ay1 bx0 by0 bx1 by1,
  meetR ay0 ax0 ay1 ax1 by0 bx0 by1 bx1 -> meetR ax0 ay0 ax1 ay1 bx0 by0 bx1 by1.
Proof.
  intros * (s & t & Hs & Ht & E1 & E2). exists s, t. repeat split; tauto || lra.
Qed.

Lemma meetR_sym : forall ax0 ay0 ax1 ay1 bx0 by0 bx1 by1,
  meetR bx0 by0 bx1 by1 ax0 ay0 ax1 ay1 -> meetR ax0 ay0 ax1 ay1 bx0 by0 bx1 by1.
Proof.
  intros * (s & t & Hs & Ht & E1 & E2). exists t, s. repeat split; tauto || lra.
Qed.

Lemma crossR_swap_xy : forall ax ay bx by_ cx cy,
  crossR ay ax by_ bx cy cx = - crossR ax ay bx by_ cx cy.
Proof. intros. unfold crossR. ring. Qed.

(* a common point has its abscissa in both projections *)
Lemma meetR_proj_x : forall ax0 ay0 ax1 ay1 bx0 by0 bx1 by1,
  meetR ax0 ay0 ax1 ay1 bx0 by0 bx1 by1 ->
  Rmax (Rmin ax0 ax1) (Rmin bx0 bx1) <= Rmin (Rmax ax0 ax1) (Rmax bx0 bx1).
Proof.
  intros * (s & t & Hs & Ht & E1 & _).
  assert (Ha : Rmin ax0 ax1 <= ax0 + s * (ax1 - ax0) <= Rmax ax0 ax1).
  { unfold Rmin, Rmax. destruct (Rle_dec ax0 ax1); nra. }
  assert (Hb : Rmin bx0 bx1 <= bx0 + t * (bx1 - bx0) <= Rmax bx0 bx1).
  { unfold Rmin, Rmax. destruct (Rle_dec bx0 bx1); nra. }
  rewrite E1 in Ha.
  apply Rmax_lub; apply Rmin_glb; lra.
Qed.

Lemma meetR_proj_y : forall ax0 ay0 ax1 ay1 bx0 by0 bx1 by1,
  meetR ax0 ay0 ax1 ay1 bx0 by0 bx1 by1 ->
  Rmax (Rmin ay0 ay1) (Rmin by0 by1) <= Rmin (Rmax ay0 ay1) (Rmax by0 by1).
Proof.
  intros * H. apply (meetR_proj_x ay0 ax0 ay1 ax1 by0 bx0 by1 bx1).
  destruct H as (s & t & Hs & Ht & E1 & E2). exists s, t. repeat split; tauto || lra.
Qed.

(* along a common point, the cross product with a's direction interpolates
   between its values at b's endpoints *)
Lemma meetR_cross_interp : forall ax0 ay0 ax1 ay1 bx0 by0 bx1 by1 s t,
  ax0 + s * (ax1 - ax0) = bx0 + t * (bx1 - bx0) ->
  ay0 + s * (ay1 - ay0) = by0 + t * (by1 - by0) ->
  (1 - t) * crossR ax0 ay0 ax1 ay1 bx0 by0 + t * crossR ax0 ay0 ax1 ay1 bx1 by1 = 0.
Proof.
  intros * E1 E2. unfold crossR.
  replace ((1 - t) * ((ax1 - ax0) * (by0 - ay0) - (ay1 - ay0) * (bx0 - ax0)) +
           t * ((ax1 - ax0) * (by1 - ay0) - (ay1 - ay0) * (bx1 - ax0)))
    with ((ax1 - ax0) * ((by0 + t * (by1 - by0)) - ay0) -
          (ay1 - ay0) * ((bx0 + t * (bx1 - bx0)) - ax0)) by ring.
  rewrite <- E1, <- E2. ring.
Qed.

(* both endpoints of b strictly on the same side of line a: no common point *)
Lemma same_side_pos_no_meet : forall ax0 ay0 ax1 ay1 bx0 by0 bx1 by1,
  0 < crossR ax0 ay0 ax1 ay1 bx0 by0 -> 0 < crossR ax0 ay0 ax1 ay1 bx1 by1 ->
  ~ meetR ax0 ay0 ax1 ay1 bx0 by0 bx1 by1.
Proof.
  intros * H1 H2 (s & t & Hs & Ht & E1 & E2).
  pose proof (meetR_cross_interp _ _ _ _ _ _ _ _ s t E1 E2) as E.
  assert (0 <= (1 - t) * crossR ax0 ay0 ax1 ay1 bx0 by0) by nra.
  assert (0 <= t * crossR ax0 ay0 ax1 ay1 bx1 by1) by nra.
  destruct (Rle_lt_dec t 0); nra.
Qed.

Lemma same_side_neg_no_meet : forall ax0 ay0 ax1 ay1 bx0 by0 bx1 by1,
  crossR ax0 ay0 ax1 ay1 bx0 by0 < 0 -> crossR ax0 ay0 ax1 ay1 bx1 by1 < 0 ->
  ~ meetR ax0 ay0 ax1 ay1 bx0 by0 bx1 by1.
Proof.
  intros * H1 H2 (s & t & Hs & Ht & E1 & E2).
  pose proof (meetR_cross_interp _ _ _ _ _ _ _ _ s t E1 E2) as E.
  assert ((1 - t) * crossR ax0 ay0 ax1 ay1 bx0 by0 <= 0) by nra.
  assert (t * crossR ax0 ay0 ax1 ay1 bx1 by1 <= 0) by nra.
  destruct (Rle_lt_dec t 0); nra.
Qed.

(* u/(u-v) is in [0,1] when u and v have opposite (weak) signs and differ *)
Lemma frac_unit : forall u v, u * v <= 0 -> u <> v -> 0 <= u / (u - v) <= 1.
Proof.
  intros u v H N.
  assert (E : u / (u - v) * (u - v) = u) by (field; lra).
  destruct (Rlt_le_dec 0 (u - v)) as [D|D].
  - assert (0 <= u) by nra. assert (v <= 0) by nra.
    remember (u / (u - v)) as x eqn:Ex. clear Ex. split; nra.
  - assert (D' : u - v < 0) by lra.
    assert (u <= 0) by nra. assert (0 <= v) by nra.
    remember (u / (u - v)) as x eqn:Ex. clear Ex. split; nra.
Qed.

(* the endpoints of each segment are (weakly) on opposite sides of the other
   segment's line, and the lines are not parallel: they cross *)
Lemma crossing_meet : forall ax0 ay0 ax1 ay1 bx0 by0 bx1 by1,
  let c1 := crossR ax0 ay0 ax1 ay1 bx0 by0 in
  let c2 := crossR ax0 ay0 ax1 ay1 bx1 by1 in
  let c3 := crossR bx0 by0 bx1 by1 ax0 ay0 in
  let c4 := crossR bx0 by0 bx1 by1 ax1 ay1 in
  c1 * c2 <= 0 -> c1 <> c2 -> c3 * c4 <= 0 -> c3 <> c4 ->
  meetR ax0 ay0 ax1 ay1 bx0 by0 bx1 by1.
Proof.
  intros * H12 N12 H34 N34.
  exists (c3 / (c3 - c4)), (c1 / (c1 - c2)).
  split; [apply frac_unit; assumption|]. split; [apply frac_unit; assumption|].
  assert (D1 : c1 - c2 <> 0) by lra. assert (D3 : c3 - c4 <> 0) by lra.
  unfold c1, c2, c3, c4, crossR in *.
  split; field; split; assumption.
Qed.

(* a point collinear with a non-vertical segment whose abscissa is in the
   segment's projection lies on the segment *)
Lemma on_line_x : forall bx0 by0 bx1 by1 px py,
  bx0 <> bx1 -> crossR bx0 by0 bx1 by1 px py = 0 ->
  Rmin bx0 bx1 <= px <= Rmax bx0 bx1 ->
  exists t, 0 <= t <= 1 /\ px = bx0 + t * (bx1 - bx0) /\ py = by0 + t * (by1 - by0).
Proof.
  intros * N C [L U]. exists ((px - bx0) / (bx1 - bx0)).
  assert (E : (px - bx0) / (bx1 - bx0) * (bx1 - bx0) = px - bx0) by (field; lra).
  unfold crossR in C.
  split; [|split].
  - clear C. remember ((px - bx0) / (bx1 - bx0)) as t eqn:Et. clear Et.
    destruct (Rtotal_order bx0 bx1) as [Hlt|[Heq|Hgt]]; [|contradiction|].
    + rewrite Rmin_left in L by lra. rewrite Rmax_right in U by lra. split; nra.
    + rewrite Rmin_right in L by lra. rewrite Rmax_left in U by lra. split; nra.
  - lra.
  - assert (H : (py - by0) * (bx1 - bx0) = (px - bx0) / (bx1 - bx0) * (by1 - by0) * (bx1 - bx0)).
    { replace ((px - bx0) / (bx1 - bx0) * (by1 - by0) * (bx1 - bx0))
        with ((px - bx0) / (bx1 - bx0) * (bx1 - bx0) * (by1 - by0)) by ring.
      rewrite E. lra. }
    apply Rmult_eq_reg_r in H; lra.
Qed.

(* collinear segments (b's endpoints on a's line), a not vertical, b not a
   point, projections on x overlapping: they share an endpoint of one of them *)
Lemma collinear_meet_x : forall ax0 ay0 ax1 ay1 bx0 by0 bx1 by1,
  ax0 <> ax1 -> (bx0 <> bx1 \/ by0 <> by1) ->
  crossR ax0 ay0 ax1 ay1 bx0 by0 = 0 -> crossR ax0 ay0 ax1 ay1 bx1 by1 = 0 ->
  Rmax (Rmin ax0 ax1) (Rmin bx0 bx1) <= Rmin (Rmax ax0 ax1) (Rmax bx0 bx1) ->
  meetR ax0 ay0 ax1 ay1 bx0 by0 bx1 by1.
Proof.
  intros * NA NB C1 C2 OV.
  (* b is not vertical either *)
  assert (NBx : bx0 <> bx1).
  { intro E. unfold crossR in C1, C2. destruct NB as [NB|NB]; [lra|].
    assert ((ax1 - ax0) * (by0 - by1) = 0) by (subst bx1; nra).
    assert (by0 - by1 = 0) by (apply (Rmult_integral_contrapositive_currified) in H; lra || (destruct (Rmult_integral _ _ H); lra)).
    lra. }
  (* a's endpoints are on b's line *)
  assert (C3 : crossR bx0 by0 bx1 by1 ax0 ay0 = 0).
  { unfold crossR in *.
    assert (H : (ax1 - ax0) * ((bx1 - bx0) * (ay0 - by0) - (by1 - by0) * (ax0 - bx0)) =
                (bx0 - ax0) * ((ax1 - ax0) * (by1 - ay0) - (ay1 - ay0) * (bx1 - ax0)) -
                (bx1 - ax0) * ((ax1 - ax0) * (by0 - ay0) - (ay1 - ay0) * (bx0 - ax0))) by ring.
    rewrite C1, C2 in H. rewrite !Rmult_0_r, Rminus_0_r in H.
    destruct (Rmult_integral _ _ H); lra. }
  assert (C4 : crossR bx0 by0 bx1 by1 ax1 ay1 = 0).
  { unfold crossR in *.
    assert (H : (ax1 - ax0) * ((bx1 - bx0) * (ay1 - by0) - (by1 - by0) * (ax1 - bx0)) =
                (bx0 - ax0 - (ax1 - ax0)) * ((ax1 - ax0) * (by1 - ay0) - (ay1 - ay0) * (bx1 - ax0)) -
                (bx1 - ax0 - (ax1 - ax0)) * ((ax1 - ax0) * (by0 - ay0) - (ay1 - ay0) * (bx0 - ax0))) by ring.
    rewrite C1, C2 in H. rewrite !Rmult_0_r, Rminus_0_r in H.
    destruct (Rmult_integral _ _ H); lra. }
  assert (OV1 : Rmin ax0 ax1 <= Rmax bx0 bx1 /\ Rmin bx0 bx1 <= Rmax ax0 ax1).
  { split.
    - eapply Rle_trans; [apply Rmax_l|]. eapply Rle_trans; [apply OV|]. apply Rmin_r.
    - eapply Rle_trans; [apply Rmax_r|]. eapply Rle_trans; [apply OV|]. apply Rmin_l. }
  destruct OV1 as [OVa OVb].
  destruct (Rle_lt_dec (Rmin bx0 bx1) (Rmin ax0 ax1)) as [Hc|Hc].
  - (* the left endpoint of a lies on b *)
    destruct (Rle_dec ax0 ax1) as [Ho|Ho].
    + rewrite (Rmin_left ax0 ax1) in * by lra.
      destruct (on_line_x bx0 by0 bx1 by1 ax0 ay0 NBx C3 ltac:(lra)) as (t & Ht & Ex & Ey).
      exists 0, t. repeat split; lra.
    + rewrite (Rmin_right ax0 ax1) in * by lra.
      destruct (on_line_x bx0 by0 bx1 by1 ax1 ay1 NBx C4 ltac:(lra)) as (t & Ht & Ex & Ey).
      exists 1, t. repeat split; lra.
  - (* the left endpoint of b lies on a *)
    destruct (Rle_dec bx0 bx1) as [Ho|Ho].
    + rewrite (Rmin_left bx0 bx1) in * by lra.
      destruct (on_line_x ax0 ay0 ax1 ay1 bx0 by0 NA C1 ltac:(lra)) as (s & Hs & Ex & Ey).
      exists s, 0. repeat split; lra.
    + rewrite (Rmin_right bx0 bx1) in * by lra.
      destruct (on_line_x ax0 ay0 ax1 ay1 bx1 by1 NA C2 ltac:(lra)) as (s & Hs & Ex & Ey).
      exists s, 1. repeat split; lra.
Qed.

(* the general collinear case: a and b are not points *)
Lemma collinear_meet : forall ax0 ay0 ax1 ay1 bx0 by0 bx1 by1,
  (ax0 <> ax1 \/ ay0 <> ay1) -> (bx0 <> bx1 \/ by0 <> by1) ->
  crossR ax0 ay0 ax1 ay1 bx0 by0 = 0 -> crossR ax0 ay0 ax1 ay1 bx1 by1 = 0 ->
  Rmax (Rmin ax0 ax1) (Rmin bx0 bx1) <= Rmin (Rmax ax0 ax1) (Rmax bx0 bx1) ->
  Rmax (Rmin ay0 ay1) (Rmin by0 by1) <= Rmin (Rmax ay0 ay1) (Rmax by0 by1) ->
  meetR ax0 ay0 ax1 ay1 bx0 by0 bx1 by1.
Proof.
  intros * NA NB C1 C2 OVx OVy.
  destruct (Req_dec ax0 ax1) as [E|E].
  - apply meetR_swap_xy. apply collinear_meet_x; try assumption.
    + destruct NA; [contradiction | assumption].
    + tauto.
    + rewrite crossR_swap_xy. lra.
    + rewrite crossR_swap_xy. lra.
  - apply collinear_meet_x; assumption.
Qed.
