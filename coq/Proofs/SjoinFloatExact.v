(* The binary64 intersection test of Model/SjoinFloat.v answers what the integer test
   of Model/PointShape.v (the one Model/Sjoin.v and the theorems of C05 are about)
   answers, on floats that are images of integers |v| <= 2^25 - for every shape kind.
   Lifts Proofs/FloatExact.v (kernel level) to the level of a right geometry. *)
From Coq Require Import ZArith List Bool Arith Lia Floats.
From SP Require Import Model.Num Model.Arrow Model.FloatKernels Model.PointKernels Model.PointShape
                       Model.SjoinFloat Proofs.FloatExact.
Import ListNotations.

Lemma pair_ind : forall A (P : list A -> Prop),
  P [] -> (forall a, P [a]) -> (forall a b t, P t -> P (a :: b :: t)) -> forall l, P l.
Proof.
  intros A P H0 H1 H2. fix IH 1. intros [|a [|b t]]; [exact H0 | apply H1 | apply H2, IH].
Qed.

Lemma combine_evens_odds : forall l : list Z, combine (evens l) (odds l) = zpairs l.
Proof.
  apply pair_ind; [reflexivity | reflexivity |].
  intros a b t IH. change (odds (a :: b :: t)) with (evens (b :: t)).
  simpl. f_equal. destruct t as [|c t']; [reflexivity|]. exact IH.
Qed.

Lemma evens_fst : forall l : list Z, Nat.even (length l) = true -> evens l = map fst (zpairs l).
Proof.
  apply (pair_ind Z (fun l => Nat.even (length l) = true -> evens l = map fst (zpairs l)));
    [reflexivity | discriminate |].
  intros a b t IH H. simpl in *. f_equal. exact (IH H).
Qed.

Lemma odds_snd : forall l : list Z, odds l = map snd (zpairs l).
Proof.
  apply pair_ind; [reflexivity | reflexivity |].
  intros a b t IH. change (odds (a :: b :: t)) with (evens (b :: t)).
  simpl. f_equal. destruct t as [|c t']; [reflexivity|]. exact IH.
Qed.

Lemma odds_match : forall l : list Z,
  match l with [] => [] | _ :: t' => evens t' end = odds l.
Proof. intros [|c t]; reflexivity. Qed.

Lemma odds_cons2 : forall (a b : Z) t, odds (a :: b :: t) = b :: odds t.
Proof. intros a b [|c t]; reflexivity. Qed.

Lemma existsb_rel : forall A B (R : A -> B -> Prop) (f : A -> bool) (g : B -> bool) la lb,
  Forall2 R la lb -> (forall a b, R a b -> f a = g b) -> existsb f la = existsb g lb.
Proof.
  intros A B R f g la lb H Hfg. induction H as [|a b la lb Hab H IH]; simpl; [reflexivity|].
  rewrite (Hfg _ _ Hab), IH. reflexivity.
Qed.

Lemma map_fst_rel : forall ps qs, Forall2 FintP ps qs -> Forall2 FintS (map fst ps) (map fst qs).
Proof. intros ps qs H. induction H as [|p q ps qs [Hp _] H IH]; simpl; constructor; assumption. Qed.

Lemma map_snd_rel : forall ps qs, Forall2 FintP ps qs -> Forall2 FintS (map snd ps) (map snd qs).
Proof. intros ps qs H. induction H as [|p q ps qs [_ Hp] H IH]; simpl; constructor; assumption. Qed.

Lemma flmin_rel : forall t zt, Forall2 FintS t zt -> forall h zh, FintS h zh ->
  FintS (flmin h t) (lmin zh zt).
Proof.
  unfold flmin, lmin. intros t zt H. induction H as [|a za t zt Ha H IH]; intros h zh Hh; simpl.
  - exact Hh.
  - apply IH. apply FintS_fmin; assumption.
Qed.

Lemma flmax_rel : forall t zt, Forall2 FintS t zt -> forall h zh, FintS h zh ->
  FintS (flmax h t) (lmax zh zt).
Proof.
  unfold flmax, lmax. intros t zt H. induction H as [|a za t zt Ha H IH]; intros h zh Hh; simpl.
  - exact Hh.
  - apply IH. apply FintS_fmax; assumption.
Qed.

(* np.any((xs == x) & (ys == y)) *)
Lemma fany_vertex_exact : forall x y zx zy flat zflat,
  FintS x zx -> FintS y zy -> Forall2 FintS flat zflat ->
  fany_vertex x y flat = any_vertex zx zy zflat.
Proof.
  intros x y zx zy flat zflat Hx Hy H. unfold fany_vertex, any_vertex.
  rewrite combine_evens_odds.
  apply (existsb_rel _ _ FintP); [apply fpairs_rel, H|].
  intros [vx vy] [zvx zvy] [H1 H2]. simpl in *.
  rewrite (Fint_eqb _ _ _ _ (proj1 H1) (proj1 Hx)), (Fint_eqb _ _ _ _ (proj1 H2) (proj1 Hy)).
  rewrite (Z.eqb_sym zvx zx), (Z.eqb_sym zvy zy). reflexivity.
Qed.

Lemma fany_segment_exact : forall x y zx zy ps qs,
  FintS x zx -> FintS y zy -> Forall2 FintP ps qs ->
  fany_segment x y ps =
  existsb (fun '((ax0, ay0), (ax1, ay1)) => segment_intersects_point ax0 ay0 ax1 ay1 zx zy) (edges qs).
Proof.
  intros x y zx zy ps qs Hx Hy H. unfold fany_segment.
  apply (existsb_rel _ _ FintE); [apply fedges_rel, H|].
  intros [[a b] [c d]] [[za zb] [zc zd]] [[H1 H2] [H3 H4]]. simpl in *.
  apply segment_intersects_point_float_exact_rel; assumption.
Qed.

(* _perform_intersects_line for one point: sub-lines with an even number of values
   (what every constructor of the library produces) *)
Theorem far_lines_exact : forall x y zx zy, FintS x zx -> FintS y zy ->
  forall lines zlines, Forall2 (Forall2 FintS) lines zlines ->
  Forall (fun l => Nat.even (length l) = true) zlines ->
  forall acc, ar_lines zx zy zlines acc = Value (far_lines x y lines acc).
Proof.
  intros x y zx zy Hx Hy lines zlines H.
  induction H as [|flat zflat lines zlines Hf H IH]; intros Hev acc; [reflexivity|].
  inversion Hev as [|? ? He Hev']; subst.
  destruct Hf as [|a za flat' zflat' Ha Hf'].
  - simpl. apply IH. exact Hev'.
  - destruct Hf' as [|b zb flat'' zflat'' Hb Hf'']; [discriminate He|].
    assert (He2 : Nat.even (length zflat'') = true) by exact He.
    pose proof (fpairs_rel _ _ Hf'') as Hp.
    assert (Hxs : Forall2 FintS (map fst (fpairs flat'')) (evens zflat''))
      by (rewrite (evens_fst _ He2); apply map_fst_rel, Hp).
    assert (Hys : Forall2 FintS (map snd (fpairs flat'')) (odds zflat''))
      by (rewrite odds_snd; apply map_snd_rel, Hp).
    cbn [ar_lines far_lines fpairs evens odds tl].
    rewrite !odds_match.
    rewrite (Fint_ltb _ _ _ _ (proj1 Hx) (proj1 (flmin_rel _ _ Hxs _ _ Ha))).
    rewrite (Fint_ltb _ _ _ _ (proj1 Hy) (proj1 (flmin_rel _ _ Hys _ _ Hb))).
    rewrite (Fint_ltb _ _ _ _ (proj1 (flmax_rel _ _ Hxs _ _ Ha)) (proj1 Hx)).
    rewrite (Fint_ltb _ _ _ _ (proj1 (flmax_rel _ _ Hys _ _ Hb)) (proj1 Hy)).
    rewrite (fany_vertex_exact x y zx zy (a :: b :: flat'') (za :: zb :: zflat'') Hx Hy)
      by (constructor; [exact Ha | constructor; [exact Hb | exact Hf'']]).
    assert (Hseg : fany_segment x y ((a, b) :: fpairs flat'') =
                   any_segment zx zy (za :: evens zflat'') (zb :: odds zflat'')).
    { unfold any_segment.
      rewrite <- (odds_cons2 za zb zflat'').
      change (za :: evens zflat'') with (evens (za :: zb :: zflat'')).
      rewrite combine_evens_odds.
      apply (fany_segment_exact x y zx zy ((a, b) :: fpairs flat'') (zpairs (za :: zb :: zflat'')) Hx Hy).
      simpl. constructor; [split; assumption | exact Hp]. }
    rewrite Hseg.
    destruct ((zx <? lmin za (evens zflat''))%Z || (zy <? lmin zb (odds zflat''))%Z ||
              (lmax za (evens zflat'') <? zx)%Z || (lmax zb (odds zflat'') <? zy)%Z);
      [apply IH; exact Hev'|].
    destruct (any_vertex zx zy (za :: zb :: zflat'')); apply IH; exact Hev'.
Qed.

(* a polygon without values holds nothing, in both models *)
Lemma rings_of_nil_sum : forall zx zy offs, winding_number zx zy [] offs = 0%Z.
Proof.
  intros zx zy offs. unfold winding_number.
  assert (H : forall acc, fold_left (fun a r => (a + pip_ring zx zy r)%Z) (rings_of [] offs) acc = acc).
  { induction offs as [|s [|e t] IH]; intro acc; [reflexivity | reflexivity |].
    change (rings_of [] (s :: e :: t)) with (slice s e (@nil Z) :: rings_of [] (e :: t)).
    simpl fold_left. rewrite IH. unfold slice. rewrite skipn_nil, firstn_nil.
    unfold pip_ring. simpl. lia. }
  apply H.
Qed.

(* PointArray._intersects(shape, inds) at one position, shape by shape *)
Theorem fintersects_point_exact : forall x y zx zy px py zpx zpy,
  FintS x zx -> FintS y zy -> FintS px zpx -> FintS py zpy ->
  fintersects (x, y) (FPoint px py) = sc_point zx zy zpx zpy.
Proof.
  intros x y zx zy px py zpx zpy Hx Hy Hpx Hpy. unfold fintersects, sc_point.
  rewrite (Fint_eqb _ _ _ _ (proj1 Hx) (proj1 Hpx)), (Fint_eqb _ _ _ _ (proj1 Hy) (proj1 Hpy)).
  reflexivity.
Qed.

Theorem fintersects_multipoint_exact : forall x y zx zy flat zflat,
  FintS x zx -> FintS y zy -> Forall2 FintS flat zflat ->
  fintersects (x, y) (FMultiPoint flat) = sc_multipoint zx zy zflat.
Proof. intros. unfold fintersects, sc_multipoint. apply fany_vertex_exact; assumption. Qed.

Theorem fintersects_lines_exact : forall x y zx zy lines zlines,
  FintS x zx -> FintS y zy -> Forall2 (Forall2 FintS) lines zlines ->
  Forall (fun l => Nat.even (length l) = true) zlines ->
  ar_lines zx zy zlines false = Value (fintersects (x, y) (FLines lines)).
Proof. intros. unfold fintersects. apply far_lines_exact; assumption. Qed.

Theorem fintersects_polygon_exact : forall x y zx zy vals zvals offs,
  FintS x zx -> FintS y zy -> Forall2 FintS vals zvals ->
  fintersects (x, y) (FPolygon vals offs) = point_intersects_polygon zx zy zvals offs.
Proof.
  intros x y zx zy vals zvals offs Hx Hy H. unfold fintersects.
  destruct H as [|v zv vals zvals Hv H].
  - simpl. unfold point_intersects_polygon. rewrite rings_of_nil_sum. reflexivity.
  - simpl existsb. rewrite (Fint_isfinite _ _ (proj1 Hv)). cbn [orb negb].
    apply point_intersects_polygon_float_exact_rel; [exact Hx | exact Hy |].
    constructor; assumption.
Qed.
