(* wn_subdivide: inserting a vertex on an edge -- anywhere on the closed
   segment, in particular exactly at the height of the point, which turns a
   plain crossing into a "ray through a vertex" -- changes no winding number.
   Consequence: the convex-polygon theorem holds for rings with extra
   (collinear or repeated) vertices on their edges. *)
From Coq Require Import ZArith List Bool Arith Reals Lra Lia Psatz.
From SP Require Import Model.Num Model.PointKernels Spec.PointShapeSpec Spec.Winding Spec.ConvexSpec
                       Proofs.WindingRefine Proofs.WindingLaws Proofs.ConvexArith
                       Proofs.ConvexWinding Proofs.ConvexPolygon.
Import ListNotations.

Open Scope R_scope.

Lemma sign_scale_ge : forall t o, 0 < t -> (0 <= t * o <-> 0 <= o).
Proof. intros t o Ht. split; intros H; nra. Qed.

Lemma sign_scale_le : forall t o, 0 < t -> (t * o <= 0 <-> o <= 0).
Proof. intros t o Ht. split; intros H; nra. Qed.

Lemma between_below : forall t a b y, 0 <= t <= 1 -> a < y -> b < y -> a + t * (b - a) < y.
Proof.
  intros t a b y Ht Ha Hb.
  assert (E : a + t * (b - a) - y = (1 - t) * (a - y) + t * (b - y)) by ring.
  destruct (Rle_lt_or_eq_dec 0 t (proj1 Ht)) as [Hp|Hz].
  - assert (t * (b - y) < 0) by nra. assert ((1 - t) * (a - y) <= 0) by nra. lra.
  - subst t. lra.
Qed.

Lemma between_above : forall t a b y, 0 <= t <= 1 -> y <= a -> y <= b -> y <= a + t * (b - a).
Proof.
  intros t a b y Ht Ha Hb.
  assert (E : a + t * (b - a) - y = (1 - t) * (a - y) + t * (b - y)) by ring.
  assert (0 <= t * (b - y)) by nra. assert (0 <= (1 - t) * (a - y)) by nra. lra.
Qed.

Close Scope R_scope.

Theorem wn_edge_subdivide : forall P A B M, on_seg A B M ->
  (wn_edge P A M + wn_edge P M B = wn_edge P A B)%Z.
Proof.
  intros [x y] [a0 b0] [a1 b1] [m0 m1] (t & Ht & E0 & E1). cbn [fst snd] in *.
  assert (OM : orient (a0, b0) (m0, m1) (x, y) = (t * orient (a0, b0) (a1, b1) (x, y))%R).
  { unfold orient; cbn [fst snd]. rewrite E0, E1. ring. }
  assert (OB : orient (m0, m1) (a1, b1) (x, y) = ((1 - t) * orient (a0, b0) (a1, b1) (x, y))%R).
  { unfold orient; cbn [fst snd]. rewrite E0, E1. ring. }
  set (o := orient (a0, b0) (a1, b1) (x, y)) in *.
  destruct (Rle_dec y b0) as [HA|HA]; [|apply Rnot_le_lt in HA];
  (destruct (Rle_dec y m1) as [HM|HM]; [|apply Rnot_le_lt in HM]);
  (destruct (Rle_dec y b1) as [HB|HB]; [|apply Rnot_le_lt in HB]).
  - rewrite !wn_edge_both_above by (cbn [fst snd]; assumption). reflexivity.
  - (* 1 1 0 : M -> B and A -> B go down *)
    rewrite (wn_edge_both_above (x, y) (a0, b0) (m0, m1)) by (cbn [fst snd]; assumption).
    rewrite (wn_edge_down (x, y) (m0, m1) (a1, b1)) by (cbn [fst snd]; lra).
    rewrite (wn_edge_down (x, y) (a0, b0) (a1, b1)) by (cbn [fst snd]; lra).
    fold o. rewrite OB.
    assert (Ht1 : (0 < 1 - t)%R).
    { destruct (Rle_lt_or_eq_dec t 1 (proj2 Ht)) as [?|E]; [lra|]. subst t. exfalso. lra. }
    pose proof (sign_scale_le (1 - t) o Ht1) as Hiff.
    destruct (Rle_dec ((1 - t) * o) 0) as [h1|h1], (Rle_dec o 0) as [h2|h2];
      try reflexivity; exfalso; tauto.
  - (* 1 0 1 : impossible, M is between A and B *)
    exfalso. pose proof (between_above t b0 b1 y Ht HA HB). lra.
  - (* 1 0 0 : A -> M and A -> B go down *)
    rewrite (wn_edge_both_below (x, y) (m0, m1) (a1, b1)) by (cbn [fst snd]; assumption).
    rewrite (wn_edge_down (x, y) (a0, b0) (m0, m1)) by (cbn [fst snd]; lra).
    rewrite (wn_edge_down (x, y) (a0, b0) (a1, b1)) by (cbn [fst snd]; lra).
    fold o. rewrite OM.
    assert (Ht0 : (0 < t)%R).
    { destruct (Rle_lt_or_eq_dec 0 t (proj1 Ht)) as [?|E]; [lra|]. subst t. exfalso. lra. }
    pose proof (sign_scale_le t o Ht0) as Hiff.
    destruct (Rle_dec (t * o) 0) as [h1|h1], (Rle_dec o 0) as [h2|h2];
      try reflexivity; exfalso; tauto.
  - (* 0 1 1 : A -> M and A -> B go up *)
    rewrite (wn_edge_both_above (x, y) (m0, m1) (a1, b1)) by (cbn [fst snd]; assumption).
    rewrite (wn_edge_up (x, y) (a0, b0) (m0, m1)) by (cbn [fst snd]; lra).
    rewrite (wn_edge_up (x, y) (a0, b0) (a1, b1)) by (cbn [fst snd]; lra).
    fold o. rewrite OM.
    assert (Ht0 : (0 < t)%R).
    { destruct (Rle_lt_or_eq_dec 0 t (proj1 Ht)) as [?|E]; [lra|]. subst t. exfalso. lra. }
    pose proof (sign_scale_ge t o Ht0) as Hiff.
    destruct (Rle_dec 0 (t * o)) as [h1|h1], (Rle_dec 0 o) as [h2|h2];
      try reflexivity; exfalso; tauto.
  - (* 0 1 0 : impossible *)
    exfalso. pose proof (between_below t b0 b1 y Ht HA HB). lra.
  - (* 0 0 1 : M -> B and A -> B go up *)
    rewrite (wn_edge_both_below (x, y) (a0, b0) (m0, m1)) by (cbn [fst snd]; assumption).
    rewrite (wn_edge_up (x, y) (m0, m1) (a1, b1)) by (cbn [fst snd]; lra).
    rewrite (wn_edge_up (x, y) (a0, b0) (a1, b1)) by (cbn [fst snd]; lra).
    fold o. rewrite OB.
    assert (Ht1 : (0 < 1 - t)%R).
    { destruct (Rle_lt_or_eq_dec t 1 (proj2 Ht)) as [?|E]; [lra|]. subst t. exfalso. lra. }
    pose proof (sign_scale_ge (1 - t) o Ht1) as Hiff.
    destruct (Rle_dec 0 ((1 - t) * o)) as [h1|h1], (Rle_dec 0 o) as [h2|h2];
      try reflexivity; exfalso; tauto.
  - rewrite !wn_edge_both_below by (cbn [fst snd]; assumption). reflexivity.
Qed.

(* ---- rings ---- *)

Lemma wn_ring_app : forall P l1 a l2,
  wn_ring P (l1 ++ a :: l2) = (wn_ring P (l1 ++ [a]) + wn_ring P (a :: l2))%Z.
Proof.
  intros P. induction l1 as [|c l1 IH]; intros a l2.
  - cbn [app]. unfold wn_ring at 2. cbn. lia.
  - destruct l1 as [|c' l1].
    + cbn [app]. rewrite !wn_ring_cons2. unfold wn_ring at 3. cbn. lia.
    + change ((c :: c' :: l1) ++ a :: l2) with (c :: c' :: (l1 ++ a :: l2)).
      change ((c :: c' :: l1) ++ [a]) with (c :: c' :: (l1 ++ [a])).
      rewrite !wn_ring_cons2.
      change (c' :: l1 ++ a :: l2) with ((c' :: l1) ++ a :: l2).
      change (c' :: l1 ++ [a]) with ((c' :: l1) ++ [a]).
      rewrite IH. lia.
Qed.

Theorem wn_subdivide : forall P l1 A M B l2, on_seg A B M ->
  wn_ring P (l1 ++ A :: M :: B :: l2) = wn_ring P (l1 ++ A :: B :: l2).
Proof.
  intros P l1 A M B l2 H.
  rewrite (wn_ring_app P l1 A (M :: B :: l2)), (wn_ring_app P l1 A (B :: l2)).
  rewrite !wn_ring_cons2. pose proof (wn_edge_subdivide P A B M H). lia.
Qed.

Theorem wn_refines : forall P r' r, refines r' r -> wn_ring P r' = wn_ring P r.
Proof.
  intros P r' r H. induction H as [r|l1 A M B l2 r Hon _ IH]; [reflexivity|].
  now rewrite wn_subdivide.
Qed.

Theorem wn_refines_rings : forall P rings' rings,
  Forall2 refines rings' rings -> wn P rings' = wn P rings.
Proof.
  intros P rings' rings H. induction H as [|r' r l' l Hr _ IH]; [reflexivity|].
  rewrite !wn_cons, IH, (wn_refines P r' r Hr). reflexivity.
Qed.

(* the convex-polygon theorem for rings with extra vertices on their edges *)
Theorem polygon_convex_refined : forall x y values offs ccw shell holes,
  Forall2 refines (map ring_of (rings_of values offs)) (convex_polygon shell holes) ->
  convex_ring ccw shell -> Forall (convex_ring (negb ccw)) holes ->
  let P := (IZR x, IZR y) in
  (strictly_inside_convex ccw shell P -> outside_holes (negb ccw) holes P ->
     point_intersects_polygon x y values offs = true) /\
  (strictly_outside_convex ccw shell P -> Forall (ring_inside_convex ccw shell) holes ->
     point_intersects_polygon x y values offs = false) /\
  (forall h1 h h2, holes = h1 ++ h :: h2 ->
     strictly_inside_convex ccw shell P -> strictly_inside_convex (negb ccw) h P ->
     outside_holes (negb ccw) h1 P -> outside_holes (negb ccw) h2 P ->
     point_intersects_polygon x y values offs = false).
Proof.
  intros x y values offs ccw shell holes Hrings Hs Hh P.
  destruct (wn_convex_polygon ccw shell holes P Hs Hh) as [H1 [H2 H3]].
  rewrite pip_refines_wn. fold P. rewrite (wn_refines_rings P _ _ Hrings). split; [|split].
  - intros Hin Hout. rewrite (H1 Hin Hout). destruct ccw; reflexivity.
  - intros Hout Hins. now rewrite (H2 Hout Hins).
  - intros h1 h h2 E Hin Hinh Ho1 Ho2. now rewrite (H3 h1 h h2 E Hin Hinh Ho1 Ho2).
Qed.

(* ---- any closed rings outside whose convex hulls the point lies ---- *)
Theorem polygon_separated_false : forall x y values offs,
  let rings := map ring_of (rings_of values offs) in
  let P := (IZR x, IZR y) in
  Forall closed rings -> Forall (fun ring => separated ring P) rings ->
  point_intersects_polygon x y values offs = false.
Proof.
  intros x y values offs rings P Hc Hs. rewrite pip_refines_wn. fold rings P.
  now rewrite (wn_separated_rings P rings Hc Hs).
Qed.
