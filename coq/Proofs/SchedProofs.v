(* C18 — generic interleaving theorem, prange kernels, check-then-build caches. *)
From Coq Require Import List Bool Arith Lia Permutation.
From SP Require Import Model.FS Model.Sched Spec.SchedSpec.
Import ListNotations.

(* ================================================================== *)
(* generic: independent operations, any interleaving                    *)
(* ================================================================== *)
Section Store.
  Variables Loc Val : Type.
  Notation op := (op Loc Val).
  Notation store := (store Loc Val).

  Lemma seq_refl : forall s : store, seq_store s s.
  Proof. intros s l. reflexivity. Qed.

  Lemma seq_trans : forall s1 s2 s3 : store, seq_store s1 s2 -> seq_store s2 s3 -> seq_store s1 s3.
  Proof. intros s1 s2 s3 H1 H2 l. rewrite H1. apply H2. Qed.

  Lemma seq_sym : forall s1 s2 : store, seq_store s1 s2 -> seq_store s2 s1.
  Proof. intros s1 s2 H l. symmetry. apply H. Qed.

  Lemma run_app : forall (a b : list op) s, run (a ++ b) s = run b (run a s).
  Proof. intros. unfold run. apply fold_left_app. Qed.

  Lemma act_proper : forall (o : op) s s', op_ok o -> seq_store s s' -> seq_store (act o s) (act o s').
  Proof.
    intros o s s' (Hf & Hl) H l. destruct (wr o l) eqn:E.
    - apply Hl; [|exact E]. intros l' _. apply H.
    - rewrite (Hf s l E), (Hf s' l E). apply H.
  Qed.

  Lemma run_proper : forall (l : list op) s s',
    Forall op_ok l -> seq_store s s' -> seq_store (run l s) (run l s').
  Proof.
    induction l as [|o t IH]; intros s s' Hok H; simpl; [exact H|].
    inversion Hok; subst. apply IH; [assumption|]. apply act_proper; assumption.
  Qed.

  (* ops_commute: two operations with disjoint footprints commute *)
  Theorem independent_commute : forall a b : op,
    op_ok a -> op_ok b -> independent a b -> commute a b.
  Proof.
    intros a b (Hfa & Hla) (Hfb & Hlb) Hi s l.
    destruct (wr a l) eqn:Ea; destruct (wr b l) eqn:Eb.
    - destruct (Hi l) as (H1 & _). destruct (H1 Ea) as (_ & H). congruence.
    - (* a writes l *)
      rewrite (Hfb (act a s) l Eb). apply Hla; [|exact Ea].
      intros l' Hl'. apply Hfb. destruct (wr b l') eqn:E; [|reflexivity].
      destruct (Hi l') as (_ & H2). destruct (H2 E) as (R & W). destruct Hl'; congruence.
    - (* b writes l *)
      rewrite (Hfa (act b s) l Ea). symmetry. apply Hlb; [|exact Eb].
      intros l' Hl'. apply Hfa. destruct (wr a l') eqn:E; [|reflexivity].
      destruct (Hi l') as (H1 & _). destruct (H1 E) as (R & W). destruct Hl'; congruence.
    - rewrite (Hfa (act b s) l Ea), (Hfb s l Eb), (Hfb (act a s) l Eb), (Hfa s l Ea). reflexivity.
  Qed.

  Lemma commute_run : forall (a : list op) (y : op) s,
    Forall op_ok a -> op_ok y -> (forall x, In x a -> commute x y) ->
    seq_store (run a (act y s)) (act y (run a s)).
  Proof.
    induction a as [|x t IH]; intros y s Hok Hy Hc; simpl; [apply seq_refl|].
    inversion Hok; subst.
    eapply seq_trans.
    - apply run_proper; [assumption|]. apply (Hc x (or_introl eq_refl)).
    - apply IH; [assumption|assumption|]. intros x' Hx'. apply Hc. right. exact Hx'.
  Qed.

  Lemma merge2_In : forall (a b l : list op) x, merge2 a b l -> In x l -> In x a \/ In x b.
  Proof.
    intros a b l x H. induction H; simpl; intros Hin; auto.
    - destruct Hin as [E|Hin]; [left; left; exact E|]. destruct (IHmerge2 Hin); auto.
    - destruct Hin as [E|Hin]; [right; left; exact E|]. destruct (IHmerge2 Hin); auto.
  Qed.

  Theorem merge2_run : forall (a b l : list op),
    merge2 a b l -> Forall op_ok a -> Forall op_ok b ->
    (forall x y, In x a -> In y b -> independent x y) ->
    forall s, seq_store (run l s) (run (a ++ b) s).
  Proof.
    intros a b l H. induction H; intros Ha Hb Hi s.
    - apply seq_refl.
    - rewrite app_nil_r. apply seq_refl.
    - simpl. inversion Ha; subst. apply IHmerge2; [assumption|assumption|].
      intros x' y' Hx' Hy'. apply Hi; [right; exact Hx'|exact Hy'].
    - simpl. inversion Hb; subst.
      eapply seq_trans.
      + apply IHmerge2; [assumption|assumption|].
        intros x' y' Hx' Hy'. apply Hi; [exact Hx'|right; exact Hy'].
      + rewrite !run_app. simpl.
        apply run_proper; [assumption|].
        apply commute_run; [assumption|assumption|].
        intros x Hx. apply independent_commute.
        * rewrite Forall_forall in Ha. apply Ha. exact Hx.
        * assumption.
        * apply Hi; [exact Hx|left; reflexivity].
  Qed.

  Lemma interleave_In : forall (ts : list (list op)) l x,
    interleave ts l -> In x l -> exists t, In t ts /\ In x t.
  Proof.
    intros ts l x H. revert x. induction H; intros x Hin; [contradiction|].
    destruct (merge2_In _ _ _ _ H0 Hin) as [Hx|Hx].
    - exists t. split; [left; reflexivity|exact Hx].
    - destruct (IHinterleave x Hx) as (t' & Ht' & Hxt'). exists t'. split; [right; exact Ht'|exact Hxt'].
  Qed.

  (* every interleaving of independent tasks gives the store of the sequential run *)
  Theorem interleave_run : forall (ts : list (list op)) l,
    interleave ts l -> Forall (Forall op_ok) ts -> tasks_independent ts ->
    forall s, seq_store (run l s) (run (concat ts) s).
  Proof.
    intros ts l H. induction H; intros Hok Hi s; [apply seq_refl|].
    inversion Hok as [|? ? Hokt Hokts]; subst. inversion Hi as [|? ? Hit Hits]; subst.
    assert (Hokr : Forall op_ok r).
    { apply Forall_forall. intros x Hx. destruct (interleave_In _ _ _ H Hx) as (t' & Ht' & Hxt').
      rewrite Forall_forall in Hokts. specialize (Hokts t' Ht'). rewrite Forall_forall in Hokts.
      apply Hokts. exact Hxt'. }
    eapply seq_trans.
    - apply (merge2_run t r l H0 Hokt Hokr).
      intros x y Hx Hy. destruct (interleave_In _ _ _ H Hy) as (t' & Ht' & Hyt').
      rewrite Forall_forall in Hit. apply (Hit t' Ht'); assumption.
    - simpl. rewrite !run_app. apply IHinterleave; assumption.
  Qed.

  (* two schedules of the same tasks end in the same store *)
  Corollary interleave_unique : forall (ts : list (list op)) l1 l2,
    interleave ts l1 -> interleave ts l2 -> Forall (Forall op_ok) ts -> tasks_independent ts ->
    forall s, seq_store (run l1 s) (run l2 s).
  Proof.
    intros ts l1 l2 H1 H2 Hok Hi s. eapply seq_trans.
    - apply (interleave_run ts l1 H1 Hok Hi).
    - apply seq_sym. apply (interleave_run ts l2 H2 Hok Hi).
  Qed.
End Store.

(* ================================================================== *)
(* (a) prange                                                            *)
(* ================================================================== *)
Section Prange.
  Variable V : Type.
  Notation writes := (list (nat * V)).

  Lemma upd_comm : forall (r : list V) i j v w,
    i <> j -> upd (upd r i v) j w = upd (upd r j w) i v.
  Proof.
    induction r as [|x t IH]; intros i j v w Hij; [reflexivity|].
    destruct i, j; simpl; try reflexivity; [congruence|]. f_equal. apply IH. congruence.
  Qed.

  Lemma apply_app : forall (a b : writes) r,
    apply_writes (a ++ b) r = apply_writes b (apply_writes a r).
  Proof. intros. unfold apply_writes. apply fold_left_app. Qed.

  Lemma apply_one_comm : forall (a : writes) i v r,
    (forall x, In x a -> fst x <> i) ->
    apply_writes a (upd r i v) = upd (apply_writes a r) i v.
  Proof.
    induction a as [|[j w] t IH]; intros i v r H; simpl; [reflexivity|].
    rewrite (upd_comm r i j v w); [|intros E; apply (H (j, w)); [left; reflexivity|simpl; congruence]].
    apply IH. intros x Hx. apply H. right. exact Hx.
  Qed.

  Lemma apply_comm : forall (a b : writes) r,
    (forall x y, In x a -> In y b -> fst x <> fst y) ->
    apply_writes a (apply_writes b r) = apply_writes b (apply_writes a r).
  Proof.
    intros a b. induction b as [|[j w] t IH]; intros r H; simpl; [reflexivity|].
    rewrite IH; [|intros x y Hx Hy; apply H; [exact Hx|right; exact Hy]].
    f_equal. apply apply_one_comm. intros x Hx. apply (H x (j, w) Hx). left. reflexivity.
  Qed.

  Lemma iter_writes_fst : forall (it : nat * list V) x, In x (iter_writes it) -> fst x = fst it.
  Proof.
    intros [i vs] x H. unfold iter_writes in H. apply in_map_iff in H.
    destruct H as (v & E & _). subst x. reflexivity.
  Qed.

  Lemma run_iterations_cons : forall it (its : list (nat * list V)) r,
    run_iterations (it :: its) r = run_iterations its (apply_writes (iter_writes it) r).
  Proof. intros. unfold run_iterations. simpl. apply apply_app. Qed.

  (* prange_any_order: the iterations executed in any order give the sequential result *)
  Theorem prange_any_order : forall (its its' : list (nat * list V)),
    Permutation its its' -> footprints_distinct its ->
    forall r, run_iterations its' r = run_iterations its r.
  Proof.
    intros its its' HP. induction HP; intros Hnd r.
    - reflexivity.
    - rewrite !run_iterations_cons. apply IHHP. unfold footprints_distinct in *. simpl in Hnd.
      inversion Hnd; assumption.
    - rewrite !run_iterations_cons. f_equal. apply apply_comm.
      intros a b Ha Hb. rewrite (iter_writes_fst _ _ Ha), (iter_writes_fst _ _ Hb).
      unfold footprints_distinct in Hnd. simpl in Hnd. inversion Hnd as [|? ? Hn _]; subst.
      intros E. apply Hn. left. symmetry. exact E.
    - rewrite IHHP2; [apply IHHP1; exact Hnd|].
      unfold footprints_distinct in *. eapply Permutation_NoDup; [|exact Hnd].
      apply Permutation_map. exact HP1.
  Qed.

  Lemma wmerge2_In : forall (a b l : writes) x, wmerge2 a b l -> In x l -> In x a \/ In x b.
  Proof.
    intros a b l x H. induction H; simpl; intros Hin; auto.
    - destruct Hin as [E|Hin]; [left; left; exact E|]. destruct (IHwmerge2 Hin); auto.
    - destruct Hin as [E|Hin]; [right; left; exact E|]. destruct (IHwmerge2 Hin); auto.
  Qed.

  Lemma wmerge2_apply : forall (a b l : writes),
    wmerge2 a b l -> (forall x y, In x a -> In y b -> fst x <> fst y) ->
    forall r, apply_writes l r = apply_writes (a ++ b) r.
  Proof.
    intros a b l H. induction H; intros Hd r.
    - reflexivity.
    - rewrite app_nil_r. reflexivity.
    - simpl. apply IHwmerge2. intros x' y' Hx' Hy'. apply Hd; [right; exact Hx'|exact Hy'].
    - simpl. rewrite IHwmerge2; [|intros x' y' Hx' Hy'; apply Hd; [exact Hx'|right; exact Hy']].
      rewrite !apply_app. simpl. f_equal. destruct y as [j w]. simpl.
      apply apply_one_comm. intros x Hx. apply (Hd x (j, w) Hx). left. reflexivity.
  Qed.

  Lemma winterleave_In : forall (ts : list writes) l x,
    winterleave ts l -> In x l -> exists t, In t ts /\ In x t.
  Proof.
    intros ts l x H. revert x. induction H; intros x Hin; [contradiction|].
    destruct (wmerge2_In _ _ _ _ H0 Hin) as [Hx|Hx].
    - exists t. split; [left; reflexivity|exact Hx].
    - destruct (IHwinterleave x Hx) as (t' & Ht' & Hxt'). exists t'. split; [right; exact Ht'|exact Hxt'].
  Qed.

  (* ... and so does every interleaving of their individual stores *)
  Theorem prange_any_interleaving : forall (its : list (nat * list V)) ws,
    winterleave (map iter_writes its) ws -> footprints_distinct its ->
    forall r, apply_writes ws r = run_iterations its r.
  Proof.
    induction its as [|it its IH]; intros ws H Hnd r.
    - inversion H; subst. reflexivity.
    - simpl in H. inversion H as [|t ts rr l Hr Hm]; subst.
      unfold footprints_distinct in Hnd. simpl in Hnd. inversion Hnd as [|? ? Hn Hnd']; subst.
      rewrite (wmerge2_apply _ _ _ Hm).
      + rewrite apply_app, run_iterations_cons. apply IH; assumption.
      + intros x y Hx Hy. rewrite (iter_writes_fst _ _ Hx).
        destruct (winterleave_In _ _ _ Hr Hy) as (t' & Ht' & Hyt').
        apply in_map_iff in Ht'. destruct Ht' as (it' & E & Hit'). subst t'.
        rewrite (iter_writes_fst _ _ Hyt'). intros E. apply Hn. rewrite E.
        apply in_map. exact Hit'.
  Qed.
End Prange.

(* ================================================================== *)
(* (b) caches                                                            *)
(* ================================================================== *)
Section Cache.
  Variable V : Type.
  Variable fx : V.
  Notation pc := (pc V).

  Definition pc_ok (c : option V) (p : pc) : Prop :=
    match p with
    | Read _ => c = Some fx
    | Done v => v = Some fx /\ c = Some fx
    | _ => True
    end.

  Definition inv (s : option V * list pc) : Prop :=
    (fst s = None \/ fst s = Some fx) /\ Forall (pc_ok (fst s)) (snd s).

  Lemma set_nth_Forall : forall (P : pc -> Prop) l i p,
    Forall P l -> P p -> Forall P (set_nth l i p).
  Proof.
    induction l as [|x t IH]; intros i p Hl Hp; simpl; [constructor|].
    inversion Hl; subst. destruct i; constructor; auto.
  Qed.

  Lemma pc_ok_mono : forall c p, (c = None \/ c = Some fx) -> pc_ok c p -> pc_ok (Some fx) p.
  Proof.
    intros c p Hc H. destruct p; simpl in *; auto. destruct H. auto.
  Qed.

  Lemma sstep_inv : forall s i, inv s -> inv (sstep fx s i).
  Proof.
    intros [c ps] i (Hc & Hps). unfold sstep. simpl in *.
    destruct (nth_error ps i) as [p|] eqn:E; [|split; assumption].
    assert (Hp : pc_ok c p).
    { rewrite Forall_forall in Hps. apply Hps. eapply nth_error_In. exact E. }
    destruct p as [k mw|mw|m|v]; simpl.
    - (* Check *)
      destruct c as [x|]; simpl.
      + split; [exact Hc|]. apply set_nth_Forall; [exact Hps|]. simpl.
        destruct Hc as [Hc|Hc]; [discriminate|exact Hc].
      + split; [exact Hc|]. apply set_nth_Forall; [exact Hps|]. destruct k; exact I.
    - (* Write *)
      split; [right; reflexivity|]. apply set_nth_Forall; [|reflexivity].
      eapply Forall_impl; [|exact Hps]. intros q Hq. eapply pc_ok_mono; eauto.
    - (* Read *)
      destruct m; simpl; (split; [exact Hc|]); (apply set_nth_Forall; [exact Hps|]);
        simpl in Hp; simpl; auto.
    - (* Done *)
      split; [exact Hc|]. apply set_nth_Forall; [exact Hps|]. exact Hp.
  Qed.

  Lemma srun_inv : forall sched s, inv s -> inv (srun fx sched s).
  Proof.
    induction sched as [|i t IH]; intros s H; simpl; [exact H|]. apply IH. apply sstep_inv. exact H.
  Qed.

  Lemma start_inv : forall cfgs, inv (start cfgs).
  Proof.
    intros cfgs. split; [left; reflexivity|]. simpl.
    apply Forall_forall. intros p Hp. apply in_map_iff in Hp. destruct Hp as (k & E & _). subst p. exact I.
  Qed.

  (* cache_race_benign: whatever the interleaving and the number of threads, every thread
     that has returned returned Some (f x); the cell never holds anything else; and once
     some thread has returned the cell holds f x *)
  Theorem cache_race_benign : forall checks sched,
    let s := srun fx sched (start checks) in
    Forall (returned_ok fx) (snd s) /\
    (fst s = None \/ fst s = Some fx) /\
    ((exists p v, In p (snd s) /\ p = Done v) -> fst s = Some fx).
  Proof.
    intros checks sched s. destruct (srun_inv sched _ (start_inv checks)) as (Hc & Hps).
    fold s in Hc, Hps. split; [|split; [exact Hc|]].
    - eapply Forall_impl; [|exact Hps]. intros p Hp v E. subst p. simpl in Hp. tauto.
    - intros (p & v & Hin & E). subst p. rewrite Forall_forall in Hps.
      specialize (Hps _ Hin). simpl in Hps. tauto.
  Qed.

  (* progress: a thread scheduled often enough has returned *)
  Definition measure (p : pc) : nat :=
    match p with Check k mw => k + mw + 3 | Write mw => mw + 2 | Read m => m + 1 | Done _ => 0 end.

  Lemma tstep_measure : forall c p, measure (snd (tstep fx c p)) <= pred (measure p).
  Proof.
    intros c p. destruct p as [k mw|mw|m|v]; simpl; try lia.
    - destruct c; simpl; [lia|]. destruct k; simpl; lia.
    - destruct m; simpl; lia.
  Qed.

  Lemma nth_error_set_nth_eq : forall (l : list pc) i p q,
    nth_error l i = Some q -> nth_error (set_nth l i p) i = Some p.
  Proof.
    induction l as [|x t IH]; intros i p q H; destruct i; simpl in *; try discriminate; eauto.
  Qed.

  Lemma nth_error_set_nth_neq : forall (l : list pc) i j p,
    i <> j -> nth_error (set_nth l i p) j = nth_error l j.
  Proof.
    induction l as [|x t IH]; intros i j p H; destruct i, j; simpl; try reflexivity; try congruence.
    apply IH. congruence.
  Qed.

  Definition pc_measure (s : option V * list pc) (i : nat) : nat :=
    match nth_error (snd s) i with Some p => measure p | None => 0 end.

  Lemma sstep_measure_same : forall s i, pc_measure (sstep fx s i) i <= pred (pc_measure s i).
  Proof.
    intros [c ps] i. unfold sstep, pc_measure. simpl.
    destruct (nth_error ps i) as [p|] eqn:E; simpl; [|rewrite E; lia].
    destruct (tstep fx c p) as [c' p'] eqn:Et. simpl.
    rewrite (nth_error_set_nth_eq _ _ _ _ E).
    pose proof (tstep_measure c p) as H. rewrite Et in H. exact H.
  Qed.

  Lemma sstep_measure_other : forall s i j, i <> j -> pc_measure (sstep fx s i) j = pc_measure s j.
  Proof.
    intros [c ps] i j Hij. unfold sstep, pc_measure. simpl.
    destruct (nth_error ps i) as [p|] eqn:E; simpl; [|reflexivity].
    destruct (tstep fx c p) as [c' p']. simpl. rewrite nth_error_set_nth_neq; [reflexivity|exact Hij].
  Qed.

  Lemma srun_measure : forall sched s j,
    pc_measure (srun fx sched s) j <= pc_measure s j - count_occ Nat.eq_dec sched j.
  Proof.
    induction sched as [|i t IH]; intros s j; simpl; [lia|].
    destruct (Nat.eq_dec i j) as [E|E].
    - subst i. specialize (IH (sstep fx s j) j). pose proof (sstep_measure_same s j). lia.
    - specialize (IH (sstep fx s i) j). rewrite (sstep_measure_other s i j E) in IH. lia.
  Qed.

  Lemma srun_length : forall sched s, length (snd (srun fx sched s)) = length (snd s).
  Proof.
    induction sched as [|i t IH]; intros s; simpl; [reflexivity|]. rewrite IH.
    destruct s as [c ps]. unfold sstep. simpl. destruct (nth_error ps i) as [p|]; [|reflexivity].
    destruct (tstep fx c p). simpl. clear. revert i. induction ps as [|x u IHu]; intros i; simpl; [reflexivity|].
    destruct i; simpl; [reflexivity|]. rewrite IHu. reflexivity.
  Qed.

  Theorem cache_progress : forall checks sched j k mw,
    nth_error checks j = Some (k, mw) -> k + mw + 3 <= count_occ Nat.eq_dec sched j ->
    nth_error (snd (srun fx sched (start checks))) j = Some (Done (Some fx)).
  Proof.
    intros checks sched j k mw Hk Hcount.
    pose proof (srun_measure sched (start checks) j) as Hm.
    assert (H0 : pc_measure (start checks) j = k + mw + 3).
    { unfold pc_measure, start. simpl. rewrite nth_error_map, Hk. reflexivity. }
    rewrite H0 in Hm.
    assert (Hlen : j < length (snd (srun fx sched (start checks)))).
    { rewrite srun_length. simpl. rewrite map_length. apply nth_error_Some. congruence. }
    destruct (nth_error (snd (srun fx sched (start checks))) j) as [p|] eqn:E;
      [|apply nth_error_None in E; lia].
    unfold pc_measure in Hm. rewrite E in Hm.
    destruct p as [k' mw'|mw'|m'|v]; simpl in Hm; try lia.
    destruct (cache_race_benign checks sched) as (Hr & _ & _).
    rewrite Forall_forall in Hr. rewrite (Hr (Done v) (nth_error_In _ _ E) v eq_refl). reflexivity.
  Qed.
End Cache.
