(* C05, the pair table: candidates from any index that satisfies the C03
   contract, filtered exactly by the C02 array form, enumerate the intersecting
   pairs once each -- provided an intersecting point lies in the shape's bounds
   row (SjoinBBox.v). *)
From Coq Require Import ZArith List Bool Arith Lia Permutation String.
From SP Require Import Model.Num Model.Arrow Model.Bounds Model.PointKernels Model.PointShape
                       Model.Sjoin Spec.SjoinSpec Proofs.SjoinRows.
Import ListNotations.
Local Open Scope nat_scope.

Lemma mask_select : forall (f : nat -> bool) c,
  map fst (filter snd (combine c (map f c))) = filter f c.
Proof.
  induction c as [|x t IH]; cbn; [reflexivity|].
  destruct (f x); cbn; now rewrite IH.
Qed.

Definition good_right (a : fixarr) (rgeoms : list (option shape)) : Prop :=
  Forall (fun s => match s with Some sh => hit_in_bbox a sh | None => True end) rgeoms.

Section PairsExact.
  Variable cand : bbox -> list nat.
  Variable a : fixarr.
  Hypothesis Hcand : cand_contract (fa_len a) (fa_bounds a) cand.
  Hypothesis Harr : array_form_contract a.

  Lemma cand_inds_ok : forall q, inds_ok (fa_len a) (cand q) = true.
  Proof.
    intros q. unfold inds_ok. apply forallb_forall. intros l Hl.
    apply Nat.ltb_lt. destruct Hcand as [_ [Hr _]]. exact (Hr q l Hl).
  Qed.

  Lemma row_matches_spec : forall sh ls,
    hit_in_bbox a sh ->
    row_matches cand a (Some sh) = Some (Value ls) ->
    NoDup ls /\ forall l, In l ls <-> (l < fa_len a /\ hitb a sh l = true).
  Proof.
    intros sh ls Hbb H. unfold row_matches in H.
    destruct Hcand as [Hnd [Hrange Hcomplete]].
    destruct (cand (shape_bounds sh)) as [|c0 ct] eqn:Ec.
    - inversion H; subst ls. split; [constructor|].
      intros l. split; [intros []|]. intros [Hl Hh].
      destruct (Hbb l Hl Hh) as [Hfin Hout].
      pose proof (Hcomplete (shape_bounds sh) l Hfin Hl Hout) as Hin.
      rewrite Ec in Hin. exact Hin.
    - destruct (array_intersects a sh (Some (c0 :: ct))) as [[m|]|] eqn:Ea; try discriminate.
      assert (Hls : ls = map fst (filter snd (combine (c0 :: ct) m))) by congruence.
      subst ls. clear H.
      pose proof (cand_inds_ok (shape_bounds sh)) as Hok. rewrite Ec in Hok.
      rewrite (Harr sh (c0 :: ct) m Hok Ea), mask_select.
      split.
      + apply NoDup_filter. rewrite <- Ec. apply Hnd.
      + intros l. rewrite filter_In. split.
        * intros [Hin Hh]. split; [|exact Hh]. apply (Hrange (shape_bounds sh)).
          rewrite Ec. exact Hin.
        * intros [Hl Hh]. split; [|exact Hh]. rewrite <- Ec.
          destruct (Hbb l Hl Hh) as [Hfin Hout]. apply Hcomplete; assumption.
  Qed.

  Lemma pairs_from_spec : forall rgeoms i ps,
    good_right a rgeoms ->
    pairs_from cand a i rgeoms = Some (Value ps) ->
    NoDup ps /\
    forall l r, In (l, r) ps <->
                (i <= r /\ l < fa_len a /\
                 exists sh, nth_error rgeoms (r - i) = Some (Some sh) /\ hitb a sh l = true).
  Proof.
    induction rgeoms as [|s t IH]; intros i ps Hgood H.
    - cbn in H. inversion H; subst ps. split; [constructor|].
      intros l r. split; [intros []|]. intros [_ [_ [sh [Hn _]]]].
      destruct (r - i); discriminate.
    - cbn [pairs_from] in H.
      inversion Hgood as [|s' t' Hs Ht]; subst s' t'.
      destruct (row_matches cand a s) as [[ls|]|] eqn:Er; try discriminate.
      destruct (pairs_from cand a (S i) t) as [[ps'|]|] eqn:Et; try discriminate.
      inversion H; subst ps. clear H.
      destruct (IH (S i) ps' Ht Et) as [Hnd' Hiff'].
      assert (Hls : NoDup ls /\
                    forall l, In l ls <-> (l < fa_len a /\ exists sh, s = Some sh /\ hitb a sh l = true)).
      { destruct s as [sh|].
        - destruct (row_matches_spec sh ls Hs Er) as [Hn Hi]. split; [exact Hn|].
          intros l. rewrite Hi. split.
          + intros [H1 H2]. split; [exact H1|]. exists sh. split; [reflexivity|exact H2].
          + intros [H1 [sh' [He H2]]]. inversion He; subst sh'. split; assumption.
        - cbn in Er. inversion Er; subst ls. split; [constructor|].
          intros l. split; [intros []|]. intros [_ [sh [He _]]]. discriminate. }
      destruct Hls as [Hndls Hils].
      split.
      + apply NoDup_app_disj.
        * apply NoDup_map_inj; [|exact Hndls]. intros x y Hxy. now inversion Hxy.
        * exact Hnd'.
        * intros [l r] Hin Hin'. apply in_map_iff in Hin. destruct Hin as [l' [He _]].
          inversion He; subst l' r. apply Hiff' in Hin'. lia.
      + intros l r. rewrite in_app_iff, in_map_iff. split.
        * intros [[l' [He Hin]]|Hin].
          -- inversion He; subst l' r. apply Hils in Hin. destruct Hin as [Hl [sh [Hs' Hh]]].
             split; [lia|]. split; [exact Hl|]. exists sh. rewrite Nat.sub_diag. cbn.
             split; [now rewrite Hs'|exact Hh].
          -- apply Hiff' in Hin. destruct Hin as [Hr [Hl [sh [Hn Hh]]]].
             split; [lia|]. split; [exact Hl|]. exists sh.
             replace (r - i) with (S (r - S i)) by lia. cbn. split; assumption.
        * intros [Hr [Hl [sh [Hn Hh]]]].
          destruct (Nat.eq_dec r i) as [E|E].
          -- subst r. rewrite Nat.sub_diag in Hn. cbn in Hn. inversion Hn; subst s.
             left. exists l. split; [reflexivity|]. apply Hils. split; [exact Hl|].
             exists sh. split; [reflexivity|exact Hh].
          -- right. apply Hiff'. split; [lia|]. split; [exact Hl|]. exists sh.
             replace (r - i) with (S (r - S i)) in Hn by lia. cbn in Hn. split; assumption.
  Qed.

  (* the pair table enumerates the intersecting pairs, each exactly once *)
  Theorem pairs_exact : forall rgeoms ps,
    good_right a rgeoms ->
    pair_table cand a rgeoms = Some (Value ps) ->
    pair_enum a rgeoms ps.
  Proof.
    intros rgeoms ps Hgood H. unfold pair_table in H.
    destruct (pairs_from_spec rgeoms 0 ps Hgood H) as [Hnd Hiff].
    split; [exact Hnd|]. intros l r. rewrite Hiff. unfold intersecting.
    rewrite Nat.sub_0_r. split.
    - intros [_ [Hl Hex]]. split; assumption.
    - intros [Hl Hex]. split; [lia|]. split; assumption.
  Qed.
End PairsExact.

Lemma pair_enum_range : forall a rgeoms ps,
  pair_enum a rgeoms ps ->
  forall p, In p ps -> fst p < fa_len a /\ snd p < List.length rgeoms.
Proof.
  intros a rgeoms ps [_ Hiff] [l r] Hin. apply Hiff in Hin.
  destruct Hin as [Hl [sh [Hn _]]]. cbn. split; [exact Hl|].
  apply nth_error_Some. rewrite Hn. discriminate.
Qed.

(* ------------------------------------------------------------------ *)
(* sjoin as a whole: when it returns a frame, its rows are the rows [how]
   must produce from an exact enumeration of the intersecting pairs *)

Lemma sjoin_inr_inv : forall mrg cand h ls rs lm rm a rgeoms res,
  sjoin mrg cand h ls rs lm rm a rgeoms = Some (inr res) ->
  exists ps cols g,
    pair_table (cand a) a rgeoms = Some (Value ps) /\
    String.eqb ls rs = false /\
    name_clash (fm_cols lm) (fm_cols rm) (snd (record_reset_index (fm_index lm) ls))
               (snd (record_reset_index (fm_index rm) rs)) = false /\
    join_cols h ls rs lm rm (snd (record_reset_index (fm_index lm) ls))
              (snd (record_reset_index (fm_index rm) rs)) = inr (cols, g) /\
    res = {| j_rows := join_rows mrg h (fa_len a) (List.length rgeoms) ps;
             j_cols := cols;
             j_index_names := match h with
                              | Right => fst (record_reset_index (fm_index rm) rs)
                              | _ => fst (record_reset_index (fm_index lm) ls)
                              end;
             j_geom := g;
             j_right_bounds := right_bounds rgeoms |}.
Proof.
  intros mrg cand h ls rs lm rm a rgeoms res H. unfold sjoin in H.
  destruct (negb (in_model lm rm && wf_fixarr a)); [discriminate|].
  destruct (String.eqb ls rs) eqn:Es; [discriminate|].
  destruct (record_reset_index (fm_index rm) rs) as [rin ir] eqn:Er.
  destruct (record_reset_index (fm_index lm) ls) as [lin il] eqn:El.
  destruct (name_clash (fm_cols lm) (fm_cols rm) il ir) eqn:Ec; [discriminate|].
  destruct (pair_table (cand a) a rgeoms) as [[ps|]|] eqn:Ep; try discriminate.
  destruct (join_cols h ls rs lm rm il ir) as [e|[cols g]] eqn:Ej; [discriminate|].
  inversion H; subst res. exists ps, cols, g. cbn [fst snd].
  repeat split; try assumption; reflexivity.
Qed.

Theorem sjoin_rows_exact : forall mrg cand h ls rs lm rm a rgeoms res,
  merge_contract mrg ->
  cand_contract (fa_len a) (fa_bounds a) (cand a) ->
  array_form_contract a ->
  good_right a rgeoms ->
  sjoin mrg cand h ls rs lm rm a rgeoms = Some (inr res) ->
  exists ps, pair_enum a rgeoms ps /\
             Permutation (j_rows res) (expected_rows h (fa_len a) (List.length rgeoms) ps).
Proof.
  intros mrg cand h ls rs lm rm a rgeoms res Hm Hc Ha Hg H.
  destruct (sjoin_inr_inv _ _ _ _ _ _ _ _ _ _ H) as [ps [cols [g [Hp [_ [_ [_ Hres]]]]]]].
  exists ps. pose proof (pairs_exact (cand a) a Hc Ha rgeoms ps Hg Hp) as He.
  split; [exact He|]. subst res. cbn [j_rows].
  apply join_rows_expected; [exact Hm|]. exact (pair_enum_range a rgeoms ps He).
Qed.

Lemma rows_exact_h : forall mrg cand h ls rs lm rm a rgeoms res,
  contracts mrg cand a rgeoms ->
  sjoin mrg cand h ls rs lm rm a rgeoms = Some (inr res) ->
  exists ps, pair_enum a rgeoms ps /\
             Permutation (j_rows res) (expected_rows h (fa_len a) (List.length rgeoms) ps).
Proof.
  intros mrg cand h ls rs lm rm a rgeoms res [H1 [H2 [H3 H4]]].
  now apply sjoin_rows_exact.
Qed.
