(* C08: theorems about Model/Data2Coord.v *)
From Coq Require Import ZArith NArith List Bool String Lia ZifyBool.
From SP Require Import Model.Num Model.Bounds Model.Hilbert Model.Data2Coord Spec.Curve
     Proofs.HilbertRoundtrip.
Import ListNotations.
Local Open Scope Z_scope.

(* ---- the wrapper: what total bounds it works with ------------------------ *)
(* the four floats after float() and the zero-extent widening, when all finite *)
Definition effective_bounds (one : Z) (self : arrview) (total_bounds : option pyseq)
  : option (Z * Z * Z * Z) :=
  let seq0 := match total_bounds with None => bbox_seq (av_total self) | Some s => s end in
  match map (to_float one) (sq_items seq0) with
  | Some a :: Some b :: Some c :: Some d :: _ =>
      Some (a, b, (if a =? c then c + one else c), (if b =? d then d + one else d))
  | _ => None
  end.

Lemma hilbert_distance_elementwise : forall one self tb p t,
    effective_bounds one self tb = Some t ->
    hilbert_distance one self tb p = (Returned (map (hd1 one t p) (av_bounds self)), tb).
Proof.
  intros one self tb p t H. unfold hilbert_distance, effective_bounds in *.
  destruct (map (to_float one) _) as [|[a|] [|[b|] [|[c|] [|[d|] rest]]]]; try discriminate.
  inversion H; subst; clear H. unfold feq, fadd.
  destruct (a =? c), (b =? d); reflexivity.
Qed.

(* the value of a row depends on that row and on (total_bounds, p) only *)
Theorem elementwise : forall one self tb p t,
    effective_bounds one self tb = Some t ->
    fst (hilbert_distance one self tb p) = Returned (map (hd1 one t p) (av_bounds self)).
Proof. intros. now rewrite (hilbert_distance_elementwise _ _ _ _ t). Qed.

(* with an explicit total_bounds nothing but the rows themselves matters *)
Lemma effective_bounds_explicit : forall one self self' s,
    effective_bounds one self (Some s) = effective_bounds one self' (Some s).
Proof. reflexivity. Qed.

Theorem partition_invariant : forall one s p t rows1 rows2 tot tot1 tot2,
    effective_bounds one {| av_bounds := rows1 ++ rows2; av_total := tot |} (Some s) = Some t ->
    exists r1 r2,
      fst (hilbert_distance one {| av_bounds := rows1; av_total := tot1 |} (Some s) p) = Returned r1 /\
      fst (hilbert_distance one {| av_bounds := rows2; av_total := tot2 |} (Some s) p) = Returned r2 /\
      fst (hilbert_distance one {| av_bounds := rows1 ++ rows2; av_total := tot |} (Some s) p)
      = Returned (r1 ++ r2).
Proof.
  intros one s p t rows1 rows2 tot tot1 tot2 H.
  exists (map (hd1 one t p) rows1), (map (hd1 one t p) rows2).
  rewrite !(elementwise _ _ _ _ t) by exact H. cbn [av_bounds]. now rewrite map_app.
Qed.

Theorem row_independent : forall one s p t rows tot i b,
    effective_bounds one {| av_bounds := rows; av_total := tot |} (Some s) = Some t ->
    nth_error rows i = Some b ->
    exists r, fst (hilbert_distance one {| av_bounds := rows; av_total := tot |} (Some s) p) = Returned r /\
              nth_error r i = Some (hd1 one t p b).
Proof.
  intros one s p t rows tot i b H Hi. exists (map (hd1 one t p) rows).
  rewrite (elementwise _ _ _ _ t) by exact H. split; [reflexivity|].
  now apply map_nth_error.
Qed.

(* ---- the argument --------------------------------------------------------- *)
Theorem argument_unchanged : forall one self tb p, snd (hilbert_distance one self tb p) = tb.
Proof. reflexivity. Qed.

Theorem sequence_type_irrelevant : forall one self k1 k2 items1 items2 p,
    map (to_float one) items1 = map (to_float one) items2 ->
    fst (hilbert_distance one self (Some {| sq_kind := k1; sq_items := items1 |}) p)
    = fst (hilbert_distance one self (Some {| sq_kind := k2; sq_items := items2 |}) p).
Proof.
  intros one self k1 k2 items1 items2 p H. unfold hilbert_distance. cbn [sq_items fst].
  now rewrite H.
Qed.

(* ---- range ---------------------------------------------------------------- *)
Lemma hd1_range : forall one t p b d, hilbert_guard p 2 -> hd1 one t p b = Some d ->
    (d < 2 ^ N.of_nat (2 * p))%N.
Proof.
  intros one [[[tx0 ty0] tx1] ty1] p b d Hg H. unfold hd1 in H.
  destruct (widen one (tx0, tx1)) as [xlo xhi]. destruct (widen one (ty0, ty1)) as [ylo yhi].
  destruct (_ && _); [|discriminate].
  destruct (data2coord _ xlo xhi _) as [|[cx|] [|? ?]]; try discriminate.
  destruct (data2coord _ ylo yhi _) as [|[cy|] [|? ?]]; try discriminate.
  inversion H; subst. apply (dfc_range p 2); [assumption|reflexivity].
Qed.

Theorem range : forall one self tb p r d, hilbert_guard p 2 ->
    fst (hilbert_distance one self tb p) = Returned r -> In (Some d) r ->
    (d < 4 ^ N.of_nat p)%N.
Proof.
  intros one self tb p r d Hg Hr Hin.
  assert (H4 : (4 ^ N.of_nat p = 2 ^ N.of_nat (2 * p))%N).
  { change 4%N with (2 ^ 2)%N. rewrite <- N.pow_mul_r. f_equal. lia. }
  rewrite H4.
  destruct (effective_bounds one self tb) as [t|] eqn:E.
  - rewrite (elementwise _ _ _ _ t E) in Hr. inversion Hr; subst.
    apply in_map_iff in Hin. destruct Hin as [b [Hb _]]. now apply (hd1_range one t p b).
  - (* non-finite or short total_bounds: no row is answered *)
    unfold hilbert_distance, effective_bounds in *. cbn [fst] in Hr.
    destruct (map (to_float one) _) as [|[a|] [|[b|] [|[c|] [|[e|] rest]]]]; try discriminate;
      try (inversion Hr; subst; apply in_map_iff in Hin; destruct Hin as [? [? _]]; discriminate).
    all: unfold feq, fadd in Hr; try (destruct (a =? c)); try (destruct (b =? e));
      try discriminate;
      try (inversion Hr; subst; apply in_map_iff in Hin; destruct Hin as [? [? _]]; discriminate).
Qed.

(* ---- the cell -------------------------------------------------------------- *)
Lemma pow2_pos : forall p, 0 < 2 ^ Z.of_nat p.
Proof. intros. apply Z.pow_pos_nonneg; lia. Qed.

(* one axis, positive width: the coordinate is the index of the cell that
   contains the centre v = m2/2; the last cell on the upper edge and beyond, the
   first below *)
Lemma data2coord1_cell : forall v lo w p,
    0 < w ->
    cell_index_spec lo w p (2 * v) (data2coord1 v lo w (2 ^ Z.of_nat p)).
Proof.
  intros v lo w p Hw. pose proof (pow2_pos p) as Hn.
  set (n := 2 ^ Z.of_nat p) in *.
  unfold cell_index_spec, in_cell, data2coord1. fold n.
  unfold rat_lt0, rat_gt.
  destruct (((v - lo) * n <? 0) && (0 <? w) || (0 <? (v - lo) * n) && (w <? 0)) eqn:E0.
  - (* below *)
    assert (Hneg : (v - lo) * n < 0) by lia.
    assert (v < lo) by nia.
    replace (0 <? 1) with true by reflexivity.
    destruct ((n - 1) * 1 <? 0) eqn:E1; [lia|].
    change (Z.quot 0 1) with 0.
    destruct (0 <? 0) eqn:E2; [lia|]. destruct (n - 1 <? 0) eqn:E3; [lia|].
    split; [lia|]. right. right. lia.
  - assert (Hnn : 0 <= (v - lo) * n) by lia.
    assert (lo <= v) by nia.
    replace (0 <? w) with true by lia.
    destruct ((n - 1) * w <? (v - lo) * n) eqn:E1.
    + (* last cell *)
      rewrite Z.quot_1_r.
      destruct (n - 1 <? 0) eqn:E2; [lia|]. destruct (n - 1 <? n - 1) eqn:E3; [lia|].
      split; [lia|].
      destruct (Z_lt_le_dec v (lo + w)) as [Hin|Hout].
      * left. nia.
      * right. left. lia.
    + (* inside *)
      assert (Hq : Z.quot ((v - lo) * n) w = ((v - lo) * n) / w) by (apply Z.quot_div_nonneg; lia).
      rewrite Hq.
      pose proof (Z.div_mod ((v - lo) * n) w ltac:(lia)) as Hdm.
      pose proof (Z.mod_pos_bound ((v - lo) * n) w Hw) as Hmod.
      set (k := ((v - lo) * n) / w) in *.
      assert (Hk0 : 0 <= k) by (apply Z.div_pos; lia).
      assert (Hk1 : k <= n - 1) by nia.
      destruct (k <? 0) eqn:E2; [lia|]. destruct (n - 1 <? k) eqn:E3; [lia|].
      split; [lia|]. left. nia.
Qed.

(* a range with a width takes the scaling path (the zero-width branch of _data2coord is not taken) *)
Lemma data2coord_width : forall vals lo hi n, hi - lo <> 0 ->
    data2coord vals lo hi n =
    map (fun v => match v with
                  | Some v => Some (data2coord1 v lo (hi - lo) n)
                  | None => None
                  end) vals.
Proof.
  intros vals lo hi n H. unfold data2coord.
  destruct (Z.eqb_spec (hi - lo) 0) as [E|E]; [contradiction|reflexivity].
Qed.

(* a row answered by the model: its distance is the curve position of the
   cell (cx, cy), each coordinate being the index of the grid cell containing
   the centre of the row's bounding box (ranges with positive width) *)
Theorem cell_of_centre : forall one tx0 ty0 tx1 ty1 p x0 y0 x1 y1 d,
    let xr := widen one (tx0, tx1) in
    let yr := widen one (ty0, ty1) in
    fst xr < snd xr -> fst yr < snd yr ->
    hd1 one (tx0, ty0, tx1, ty1) p (Some x0, Some y0, Some x1, Some y1) = Some d ->
    exists cx cy,
      d = distance_from_coordinate p [Z.to_N cx; Z.to_N cy] /\
      cell_index_spec (fst xr) (snd xr - fst xr) p (x0 + x1) cx /\
      cell_index_spec (fst yr) (snd yr - fst yr) p (y0 + y1) cy.
Proof.
  intros one tx0 ty0 tx1 ty1 p x0 y0 x1 y1 d xr yr Hx Hy H.
  unfold hd1 in H. fold xr yr in H.
  destruct xr as [xlo xhi]. destruct yr as [ylo yhi]. cbn [fst snd] in *.
  destruct (_ && _) eqn:Hreg; [|discriminate].
  cbn [bx0 bx1 by0 by1 fadd fhalf] in H.
  rewrite !data2coord_width in H by lia. cbn [map] in H. inversion H; subst; clear H.
  apply andb_prop in Hreg. destruct Hreg as [Hreg Hvy].
  apply andb_prop in Hreg. destruct Hreg as [_ Hvx].
  cbn [bx0 bx1 by0 by1 regime_val] in Hvx, Hvy.
  apply andb_prop in Hvx. destruct Hvx as [_ Hex]. apply andb_prop in Hvy. destruct Hvy as [_ Hey].
  apply Z.even_spec in Hex. destruct Hex as [hx Hhx]. apply Z.even_spec in Hey. destruct Hey as [hy Hhy].
  exists (data2coord1 ((x0 + x1) / 2) xlo (xhi - xlo) (2 ^ Z.of_nat p)),
         (data2coord1 ((y0 + y1) / 2) ylo (yhi - ylo) (2 ^ Z.of_nat p)).
  split; [reflexivity|].
  rewrite Hhx, Hhy. rewrite !(Z.mul_comm 2), !Z.div_mul by lia. rewrite !(Z.mul_comm _ 2).
  split; apply data2coord1_cell; lia.
Qed.

(* ---- zero extent ----------------------------------------------------------- *)
Theorem zero_extent_widened : forall one self kind x0 y0 x1 y1 p,
    0 < one ->
    let tb := Some {| sq_kind := kind;
                      sq_items := [PyFloat (Some x0); PyFloat (Some y0);
                                   PyFloat (Some x1); PyFloat (Some y1)] |} in
    let xhi := if x0 =? x1 then x1 + one else x1 in
    let yhi := if y0 =? y1 then y1 + one else y1 in
    xhi - x0 <> 0 /\ yhi - y0 <> 0 /\
    widen one (x0, xhi) = (x0, xhi) /\ widen one (y0, yhi) = (y0, yhi) /\
    fst (hilbert_distance one self tb p)
    = Returned (map (hd1 one (x0, y0, xhi, yhi) p) (av_bounds self)).
Proof.
  intros one self kind x0 y0 x1 y1 p Hone tb xhi yhi.
  assert (Hx : xhi - x0 <> 0) by (unfold xhi; destruct (Z.eqb_spec x0 x1); lia).
  assert (Hy : yhi - y0 <> 0) by (unfold yhi; destruct (Z.eqb_spec y0 y1); lia).
  repeat split; try assumption.
  - unfold widen. destruct (Z.eqb_spec x0 xhi); [lia|reflexivity].
  - unfold widen. destruct (Z.eqb_spec y0 yhi); [lia|reflexivity].
  - now apply elementwise.
Qed.
