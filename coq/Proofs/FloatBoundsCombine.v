(* C09 / C13 / C06, binary64: the two-level total bounds of a Dask frame do not depend on how
   the rows are split into partitions - up to the sign of a zero - and no Hilbert key
   depends on the sign of a zero in the total bounds.

     spatialpandas/dask.py  DaskGeoSeries.partition_bounds   per partition s.total_bounds
                            DaskGeoSeries.total_bounds       np.nanmin / np.nanmax of the
                                                             partition_bounds columns
   are [f_total_bounds] / [f_dask_total_bounds] of Model/PackFloat.v: nan-skipping min / max
   folds ([f_nanmin2]: NaN is skipped, the running value is kept when the new one compares
   equal, NaN when there is nothing else) on Coq's primitive binary64 floats.

   min / max select one of their arguments (no rounding); the only freedom is which of two
   values that compare equal is kept, and binary64 [<?] identifies exactly +0.0 and -0.0
   (and nothing else): the result of the reduction is determined by the SET of the rows up
   to [feq_mod_zero].  Proved from the standard library's specification of the primitive
   comparisons ([FloatAxioms.ltb_spec], [eqb_spec] over [SpecFloat.SFcompare]) without
   Flocq and without real numbers: [SFcompare] is a lexicographic order on
   (class, exponent, mantissa), see [sf_ord].

   Downstream (GeometryArray.hilbert_distance -> _distances_from_bounds -> _data2coord,
   Model/FloatData2Coord.v): every operation applied to the total bounds maps values that
   are equal up to the sign of a zero to values equal up to the sign of a zero, except the
   division n / x_width, which is only reached when x_width is not a zero; the final cast
   sends both zeros to cell 0.  Hence the unconditional [f_pack_keys_partition_independent]. *)
From Coq Require Import PrimFloat SpecFloat FloatOps FloatAxioms ZArith NArith List Bool Lia
                        Permutation.
From SP Require Import Harness Model.Hilbert Model.FloatData2Coord Model.Pack Model.PackFloat
                       Model.FloatBounds Proofs.PackFloatProofs.
Import ListNotations.

(* ================================================================== *)
(* 1. equality up to the sign of a zero                                 *)
(* ================================================================== *)
(* bitwise equal, or both zeros (of either sign), or both NaN.  (Coq's primitive floats have
   ONE NaN - [FloatAxioms.SF2Prim_Prim2SF] - so the third case is contained in the first; it
   is kept in the definition because numpy's NaN results carry a sign / payload that nothing
   here or in the library looks at.) *)
Definition feq_mod_zero (a b : float) : Prop :=
  a = b \/ (is_zero a = true /\ is_zero b = true) \/ (is_nan a = true /\ is_nan b = true).

Definition frow_eq_mod_zero (r s : frow) : Prop :=
  let '(a0, a1, a2, a3) := r in
  let '(b0, b1, b2, b3) := s in
  feq_mod_zero a0 b0 /\ feq_mod_zero a1 b1 /\ feq_mod_zero a2 b2 /\ feq_mod_zero a3 b3.

(* the same on specifications *)
Definition sf_is_zero (x : spec_float) : bool :=
  match x with S754_zero _ => true | _ => false end.
Definition sf_is_nan (x : spec_float) : bool :=
  match x with S754_nan => true | _ => false end.
Definition sfeq_mod_zero (x y : spec_float) : Prop :=
  x = y \/ (sf_is_zero x = true /\ sf_is_zero y = true).

Lemma Prim2SF_zero : Prim2SF zero = S754_zero false.
Proof. reflexivity. Qed.

Lemma SFcompare_refl : forall x, sf_is_nan x = false -> SFcompare x x = Some Eq.
Proof.
  intros [s|s| |s m e] H; simpl in *; try discriminate.
  - reflexivity.
  - destruct s; reflexivity.
  - rewrite Z.compare_refl.
    change (Pos.compare_cont Eq m m) with (Pos.compare m m).
    rewrite Pos.compare_refl. destruct s; reflexivity.
Qed.

Lemma is_nan_sf : forall a, is_nan a = sf_is_nan (Prim2SF a).
Proof.
  intro a. unfold is_nan. rewrite FloatAxioms.eqb_spec. unfold SFeqb.
  destruct (sf_is_nan (Prim2SF a)) eqn:H.
  - destruct (Prim2SF a); try discriminate. reflexivity.
  - rewrite SFcompare_refl by exact H. reflexivity.
Qed.

Lemma is_zero_sf : forall a, is_zero a = sf_is_zero (Prim2SF a).
Proof.
  intro a. unfold is_zero. rewrite FloatAxioms.eqb_spec, Prim2SF_zero. unfold SFeqb.
  destruct (Prim2SF a) as [s|s| |s m e]; simpl; try reflexivity; destruct s; reflexivity.
Qed.

Lemma feq_mod_zero_sf : forall a b,
  feq_mod_zero a b <-> sfeq_mod_zero (Prim2SF a) (Prim2SF b).
Proof.
  intros a b. unfold feq_mod_zero, sfeq_mod_zero. rewrite !is_zero_sf, !is_nan_sf. split.
  - intros [H|[H|[H1 H2]]]; [left; now subst | right; exact H |].
    left. destruct (Prim2SF a), (Prim2SF b); try discriminate. reflexivity.
  - intros [H|H]; [left; now apply Prim2SF_inj | right; left; exact H].
Qed.

Lemma feq_mod_zero_refl : forall a, feq_mod_zero a a.
Proof. intro a. left. reflexivity. Qed.

Lemma feq_mod_zero_sym : forall a b, feq_mod_zero a b -> feq_mod_zero b a.
Proof.
  intros a b [H|[[H1 H2]|[H1 H2]]]; [left; now subst | right; left; now split
                                     | right; right; now split].
Qed.

Lemma feq_mod_zero_trans : forall a b c,
  feq_mod_zero a b -> feq_mod_zero b c -> feq_mod_zero a c.
Proof.
  intros a b c. rewrite !feq_mod_zero_sf. unfold sfeq_mod_zero.
  intros [H|[H1 H2]] [K|[K1 K2]].
  - left. congruence.
  - right. rewrite H. now split.
  - right. rewrite <- K. now split.
  - right. now split.
Qed.

(* the one-NaN remark, as a lemma: the relation is "equal, or both zeros" *)
Lemma feq_mod_zero_iff : forall a b,
  feq_mod_zero a b <-> a = b \/ (is_zero a = true /\ is_zero b = true).
Proof.
  intros a b. split.
  - intros [H|[H|[H1 H2]]]; [now left | now right |].
    left. apply Prim2SF_inj. rewrite is_nan_sf in H1, H2.
    destruct (Prim2SF a), (Prim2SF b); try discriminate. reflexivity.
  - intros [H|H]; [now left | right; now left].
Qed.

Lemma is_nan_eq : forall a, is_nan a = true -> a = nan.
Proof.
  intros a H. apply Prim2SF_inj. rewrite is_nan_sf in H.
  destruct (Prim2SF a); try discriminate. reflexivity.
Qed.

(* ================================================================== *)
(* 2. SFcompare is a lexicographic order                                *)
(* ================================================================== *)
(* (class, exponent, mantissa): -inf < negative finite < zeros < positive finite < +inf;
   among positive finite numbers the exponent decides, then the mantissa; mirrored for the
   negative ones.  This is what SFcompare computes on ANY pair of specifications (it is the
   order of the values on the valid ones, which is not needed here). *)
Definition sf_ord (x : spec_float) : Z * Z * Z :=
  match x with
  | S754_nan => (0, 0, 0)
  | S754_zero _ => (0, 0, 0)
  | S754_infinity true => (-2, 0, 0)
  | S754_infinity false => (2, 0, 0)
  | S754_finite true m e => (-1, - e, - Z.pos m)
  | S754_finite false m e => (1, e, Z.pos m)
  end%Z.

Definition lex_lt (p q : Z * Z * Z) : Prop :=
  let '(a, b, c) := p in
  let '(a', b', c') := q in
  (a < a' \/ (a = a' /\ (b < b' \/ (b = b' /\ c < c'))))%Z.

Lemma SFltb_lex : forall x y,
  sf_is_nan x = false -> sf_is_nan y = false ->
  (SFltb x y = true <-> lex_lt (sf_ord x) (sf_ord y)).
Proof.
  intros [s|s| |s m e] [s'|s'| |s' m' e'] Hx Hy; try discriminate;
    unfold SFltb, SFcompare, sf_ord, lex_lt;
    try (destruct s); try (destruct s');
    try (split; [intro H; try discriminate H; lia | intro H; try reflexivity; lia]).
  - (* neg / neg *)
    change (Pos.compare_cont Eq m m') with (Pos.compare m m').
    destruct (Z.compare_spec e e') as [E|E|E]; destruct (Pos.compare_spec m m') as [M|M|M];
      simpl; split; intro H; try discriminate H; try reflexivity; lia.
  - (* pos / pos *)
    change (Pos.compare_cont Eq m m') with (Pos.compare m m').
    destruct (Z.compare_spec e e') as [E|E|E]; destruct (Pos.compare_spec m m') as [M|M|M];
      simpl; split; intro H; try discriminate H; try reflexivity; lia.
Qed.

Lemma sf_ord_inj : forall x y,
  sf_is_nan x = false -> sf_is_nan y = false ->
  sf_ord x = sf_ord y -> sfeq_mod_zero x y.
Proof.
  intros [s|s| |s m e] [s'|s'| |s' m' e'] Hx Hy; try discriminate;
    unfold sf_ord, sfeq_mod_zero; try (destruct s); try (destruct s'); intro H;
    try discriminate H; try (left; reflexivity); try (right; split; reflexivity).
  - injection H as H1 H2. left. f_equal; lia.
  - injection H as H1 H2. left. f_equal; lia.
Qed.

Lemma lex_total : forall p q, ~ lex_lt p q -> ~ lex_lt q p -> p = q.
Proof.
  intros [[a b] c] [[a' b'] c'] H K. unfold lex_lt in *.
  assert (a = a' /\ b = b' /\ c = c') as (-> & -> & ->) by lia. reflexivity.
Qed.

(* ---- the order facts on floats ---- *)
Lemma f_ltb_irrefl : forall a, (a <? a)%float = false.
Proof.
  intro a. rewrite FloatAxioms.ltb_spec. unfold SFltb.
  destruct (sf_is_nan (Prim2SF a)) eqn:H.
  - destruct (Prim2SF a); try discriminate. reflexivity.
  - rewrite SFcompare_refl by exact H. reflexivity.
Qed.

Lemma f_ltb_nan_l : forall a b, is_nan a = true -> (a <? b)%float = false.
Proof.
  intros a b H. rewrite is_nan_sf in H. rewrite FloatAxioms.ltb_spec.
  destruct (Prim2SF a); try discriminate. reflexivity.
Qed.

Lemma f_ltb_nan_r : forall a b, is_nan b = true -> (a <? b)%float = false.
Proof.
  intros a b H. rewrite is_nan_sf in H. rewrite FloatAxioms.ltb_spec.
  destruct (Prim2SF b); try discriminate. destruct (Prim2SF a); reflexivity.
Qed.

Lemma f_ltb_lex : forall a b,
  is_nan a = false -> is_nan b = false ->
  ((a <? b)%float = true <-> lex_lt (sf_ord (Prim2SF a)) (sf_ord (Prim2SF b))).
Proof.
  intros a b Ha Hb. rewrite is_nan_sf in Ha, Hb. rewrite FloatAxioms.ltb_spec. now apply SFltb_lex.
Qed.

Lemma f_nlt_lex : forall a b,
  is_nan a = false -> is_nan b = false ->
  ((a <? b)%float = false <-> ~ lex_lt (sf_ord (Prim2SF a)) (sf_ord (Prim2SF b))).
Proof.
  intros a b Ha Hb. rewrite <- (f_ltb_lex a b Ha Hb).
  destruct (a <? b)%float; split; intro H; try discriminate; try reflexivity.
  now elim H.
Qed.

Lemma f_ltb_asym : forall a b, (a <? b)%float = true -> (b <? a)%float = false.
Proof.
  intros a b H.
  destruct (is_nan a) eqn:Ha; [now rewrite f_ltb_nan_l in H|].
  destruct (is_nan b) eqn:Hb; [now rewrite f_ltb_nan_r in H|].
  apply f_ltb_lex in H; [|assumption..]. apply f_nlt_lex; [assumption..|].
  destruct (sf_ord (Prim2SF a)) as [[x y] z], (sf_ord (Prim2SF b)) as [[x' y'] z'].
  unfold lex_lt in *. lia.
Qed.

(* a <= b <= c  (written with "not less") *)
Lemma f_nlt_trans : forall a b c,
  is_nan a = false -> is_nan b = false -> is_nan c = false ->
  (b <? a)%float = false -> (c <? b)%float = false -> (c <? a)%float = false.
Proof.
  intros a b c Ha Hb Hc H K.
  apply f_nlt_lex in H; [|assumption..]. apply f_nlt_lex in K; [|assumption..].
  apply f_nlt_lex; [assumption..|].
  destruct (sf_ord (Prim2SF a)) as [[x y] z], (sf_ord (Prim2SF b)) as [[x' y'] z'],
           (sf_ord (Prim2SF c)) as [[x'' y''] z''].
  unfold lex_lt in *. lia.
Qed.

(* values that compare equal are equal up to the sign of a zero *)
Lemma f_nlt_antisym : forall a b,
  is_nan a = false -> is_nan b = false ->
  (a <? b)%float = false -> (b <? a)%float = false -> feq_mod_zero a b.
Proof.
  intros a b Ha Hb H K.
  apply f_nlt_lex in H; [|assumption..]. apply f_nlt_lex in K; [|assumption..].
  apply feq_mod_zero_sf. rewrite is_nan_sf in Ha, Hb.
  apply sf_ord_inj; [assumption..|]. now apply lex_total.
Qed.

(* ================================================================== *)
(* 3. nan-skipping minimum / maximum of a list: what the folds select   *)
(* ================================================================== *)
Definition all_nan (l : list float) : Prop := forall x, In x l -> is_nan x = true.

Section NanSkippingSelection.
  (* [lt a b]: a is strictly better than b.  min: a <? b; max: b <? a. *)
  Variable lt : float -> float -> bool.
  Hypothesis lt_irrefl : forall a, lt a a = false.
  Hypothesis lt_asym : forall a b, lt a b = true -> lt b a = false.
  Hypothesis nlt_trans : forall a b c,
    is_nan a = false -> is_nan b = false -> is_nan c = false ->
    lt b a = false -> lt c b = false -> lt c a = false.
  Hypothesis nlt_antisym : forall a b,
    is_nan a = false -> is_nan b = false ->
    lt a b = false -> lt b a = false -> feq_mod_zero a b.

  (* f_nanmin2 / f_nanmax2: NaN skipped, the running value kept on a tie *)
  Definition sel2 (a b : float) : float :=
    if is_nan a then b else if is_nan b then a else if lt b a then b else a.

  (* [m] is a best non-NaN element of [l]; NaN when there is none *)
  Definition is_best (l : list float) (m : float) : Prop :=
    (all_nan l /\ is_nan m = true) \/
    (is_nan m = false /\ In m l /\
     forall x, In x l -> is_nan x = false -> lt x m = false).

  (* only the SET of the non-NaN elements matters *)
  Lemma is_best_ext : forall l l' m,
    (forall v, is_nan v = false -> (In v l <-> In v l')) ->
    is_best l m -> is_best l' m.
  Proof.
    intros l l' m E [[A N]|(N & I & B)].
    - left. split; [|exact N]. intros x Hx.
      destruct (is_nan x) eqn:Nx; [reflexivity|].
      apply (E x Nx) in Hx. rewrite (A x Hx) in Nx. discriminate.
    - right. split; [exact N|]. split; [now apply (E m N)|].
      intros x Hx Nx. apply B; [now apply (E x Nx)|exact Nx].
  Qed.

  Lemma is_best_unique : forall l m m',
    is_best l m -> is_best l m' -> feq_mod_zero m m'.
  Proof.
    intros l m m' [[A N]|(N & I & B)] [[A' N']|(N' & I' & B')].
    - right. right. now split.
    - rewrite (A m' I') in N'. discriminate.
    - rewrite (A' m I) in N. discriminate.
    - apply nlt_antisym; [assumption..| |]; [apply B'|apply B]; assumption.
  Qed.

  Lemma sel2_step : forall a x l m,
    is_best (sel2 a x :: l) m -> is_best (a :: x :: l) m.
  Proof.
    intros a x l m. unfold sel2.
    destruct (is_nan a) eqn:Na.
    { apply is_best_ext. intros v Nv. simpl. split; [tauto|].
      intros [H|H]; [subst; rewrite Na in Nv; discriminate | exact H]. }
    destruct (is_nan x) eqn:Nx.
    { apply is_best_ext. intros v Nv. simpl. split; [tauto|].
      intros [H|[H|H]]; [tauto | subst; rewrite Nx in Nv; discriminate | tauto]. }
    intros [[A N]|(N & I & B)].
    - exfalso. assert (H : is_nan (if lt x a then x else a) = true) by (apply A; now left).
      destruct (lt x a); congruence.
    - right. split; [exact N|]. split.
      + destruct I as [I|I]; [|right; right; exact I].
        destruct (lt x a); [right; left; exact I | left; exact I].
      + assert (By : lt (if lt x a then x else a) m = false).
        { apply B; [now left|]. destruct (lt x a); assumption. }
        intros v [H|[H|H]] Nv; [subst v|subst v|apply B; [now right|exact Nv]].
        * destruct (lt x a) eqn:L; [|exact By].
          apply (nlt_trans m x a N Nx Na By). now apply lt_asym.
        * destruct (lt x a) eqn:L; [exact By|].
          exact (nlt_trans m a x N Na Nx By L).
  Qed.

  Lemma fold_sel2_best : forall l acc, is_best (acc :: l) (fold_left sel2 l acc).
  Proof.
    induction l as [|x l IH]; intro acc; simpl.
    - destruct (is_nan acc) eqn:N.
      + left. split; [|exact N]. intros v [H|[]]. now subst.
      + right. split; [exact N|]. split; [now left|].
        intros v [H|[]] _. subst. apply lt_irrefl.
    - apply sel2_step. apply IH.
  Qed.

  Definition best (l : list float) : float := fold_left sel2 l nan.

  Lemma best_is_best : forall l, is_best l (best l).
  Proof.
    intro l. apply (is_best_ext (nan :: l)); [|apply fold_sel2_best].
    intros v Nv. simpl. split; [|tauto]. intros [H|H]; [|exact H].
    subst v. discriminate Nv.
  Qed.

  (* the two-level reduction selects a best element of the concatenation *)
  Lemma is_best_two_level : forall chunks m,
    is_best (map best chunks) m -> is_best (concat chunks) m.
  Proof.
    intros chunks m [[A N]|(N & I & B)].
    - left. split; [|exact N]. intros x Hx.
      apply in_concat in Hx. destruct Hx as (c & Hc & Hx).
      destruct (best_is_best c) as [[Ac _]|(Nc & _)]; [now apply Ac|].
      rewrite (A (best c)) in Nc by (apply in_map; exact Hc). discriminate.
    - right. split; [exact N|].
      apply in_map_iff in I. destruct I as (c & Em & Hc).
      split.
      + apply in_concat. exists c. split; [exact Hc|].
        destruct (best_is_best c) as [[_ Nc]|(_ & Ic & _)]; [congruence|]. now rewrite <- Em.
      + intros x Hx Nx. apply in_concat in Hx. destruct Hx as (c' & Hc' & Hx).
        destruct (best_is_best c') as [[Ac _]|(Nc & _ & Bc)].
        * rewrite (Ac x Hx) in Nx. discriminate.
        * apply (nlt_trans m (best c') x N Nc Nx).
          -- apply B; [apply in_map; exact Hc'|exact Nc].
          -- now apply Bc.
  Qed.

  (* every split of the rows into consecutive chunks (empty ones, all-NaN ones) *)
  Theorem best_partition_independent : forall chunks,
    feq_mod_zero (best (map best chunks)) (best (concat chunks)).
  Proof.
    intro chunks. apply (is_best_unique (concat chunks)); [|apply best_is_best].
    apply is_best_two_level. apply best_is_best.
  Qed.

  (* the set of the values decides: any two splits of any two arrangements of the same
     values (in particular of a permutation of the rows) *)
  Theorem best_set_independent : forall chunks chunks',
    (forall v, In v (concat chunks) <-> In v (concat chunks')) ->
    feq_mod_zero (best (map best chunks)) (best (map best chunks')).
  Proof.
    intros chunks chunks' E. apply (is_best_unique (concat chunks')).
    - apply (is_best_ext (concat chunks)); [intros v _; apply E|].
      apply is_best_two_level. apply best_is_best.
    - apply is_best_two_level. apply best_is_best.
  Qed.

  (* ---- the SEQUENTIAL folds are even bitwise independent of a split into consecutive
     chunks: "first best element" is associative, NaN its unit.  (Not so for a reordering
     of the values - [ex_f_zero_sign_depends_on_order] below - and numpy is free to reduce
     in another order: what does not depend on the order is [best_set_independent].) ---- *)
  Lemma lt_trans : forall a b c,
    is_nan a = false -> is_nan b = false -> is_nan c = false ->
    lt b a = true -> lt c b = true -> lt c a = true.
  Proof.
    intros a b c Na Nb Nc H K. destruct (lt c a) eqn:L; [reflexivity|].
    rewrite (nlt_trans a c b Na Nc Nb L (lt_asym c b K)) in H. discriminate.
  Qed.

  Lemma sel2_assoc : forall a b c, sel2 (sel2 a b) c = sel2 a (sel2 b c).
  Proof.
    intros a b c. unfold sel2.
    destruct (is_nan a) eqn:Na; [reflexivity|].
    destruct (is_nan b) eqn:Nb; cbv iota.
    { rewrite Na. cbv iota. destruct (is_nan c); reflexivity. }
    destruct (is_nan c) eqn:Nc; cbv iota.
    { rewrite Nb. cbv iota. destruct (lt b a) eqn:Lba; cbv iota; rewrite ?Na, ?Nb; reflexivity. }
    destruct (lt b a) eqn:Lba; destruct (lt c b) eqn:Lcb; cbv iota;
      rewrite ?Na, ?Nb, ?Nc; cbv iota; rewrite ?Lba, ?Lcb; cbv iota.
    - now rewrite (lt_trans a b c Na Nb Nc Lba Lcb).
    - reflexivity.
    - reflexivity.
    - now rewrite (nlt_trans a b c Na Nb Nc Lba Lcb).
  Qed.

  Lemma sel2_nan_r : forall a, sel2 a nan = a.
  Proof.
    intro a. unfold sel2. destruct (is_nan a) eqn:Na; [|reflexivity].
    symmetry. now apply is_nan_eq.
  Qed.

  Lemma fold_sel2_acc : forall l a, fold_left sel2 l a = sel2 a (best l).
  Proof.
    unfold best. induction l as [|x t IH]; intro a; simpl.
    - symmetry. apply sel2_nan_r.
    - rewrite (IH (sel2 a x)), (IH (sel2 nan x)), sel2_assoc. reflexivity.
  Qed.

  Lemma best_app : forall l1 l2, best (l1 ++ l2) = sel2 (best l1) (best l2).
  Proof. intros l1 l2. unfold best at 1. rewrite fold_left_app. apply fold_sel2_acc. Qed.

  Theorem best_split_exact : forall chunks, best (map best chunks) = best (concat chunks).
  Proof.
    induction chunks as [|c t IH]; simpl; [reflexivity|].
    rewrite best_app, <- IH. unfold best at 1. simpl. apply fold_sel2_acc.
  Qed.
End NanSkippingSelection.

(* ---- the two instances ---- *)
Definition f_gtb (a b : float) : bool := (b <? a)%float.

Lemma f_nanmin_is_best : forall l, f_nanmin l = best PrimFloat.ltb l.
Proof. reflexivity. Qed.
Lemma f_nanmax_is_best : forall l, f_nanmax l = best f_gtb l.
Proof. reflexivity. Qed.

Lemma f_gtb_nlt_trans : forall a b c,
  is_nan a = false -> is_nan b = false -> is_nan c = false ->
  f_gtb b a = false -> f_gtb c b = false -> f_gtb c a = false.
Proof.
  unfold f_gtb. intros a b c Na Nb Nc H K. exact (f_nlt_trans c b a Nc Nb Na K H).
Qed.

Lemma f_gtb_nlt_antisym : forall a b,
  is_nan a = false -> is_nan b = false ->
  f_gtb a b = false -> f_gtb b a = false -> feq_mod_zero a b.
Proof.
  unfold f_gtb. intros a b Na Nb H K. exact (f_nlt_antisym a b Na Nb K H).
Qed.

(* the nan-skipping minimum, by what it is: NaN iff there is no number, otherwise an element
   that no number of the list is below *)
Theorem f_nanmin_spec : forall l,
  (all_nan l /\ is_nan (f_nanmin l) = true) \/
  (is_nan (f_nanmin l) = false /\ In (f_nanmin l) l /\
   forall x, In x l -> is_nan x = false -> (x <? f_nanmin l)%float = false).
Proof.
  intro l. exact (best_is_best PrimFloat.ltb f_ltb_irrefl f_ltb_asym f_nlt_trans l).
Qed.

Theorem f_nanmax_spec : forall l,
  (all_nan l /\ is_nan (f_nanmax l) = true) \/
  (is_nan (f_nanmax l) = false /\ In (f_nanmax l) l /\
   forall x, In x l -> is_nan x = false -> (f_nanmax l <? x)%float = false).
Proof.
  intro l.
  exact (best_is_best f_gtb (fun a => f_ltb_irrefl a) (fun a b => f_ltb_asym b a)
                      f_gtb_nlt_trans l).
Qed.

Theorem f_nanmin_partition_independent : forall chunks : list (list float),
  feq_mod_zero (f_nanmin (map f_nanmin chunks)) (f_nanmin (concat chunks)).
Proof.
  exact (best_partition_independent PrimFloat.ltb f_ltb_irrefl f_ltb_asym f_nlt_trans
                                    f_nlt_antisym).
Qed.

Theorem f_nanmax_partition_independent : forall chunks : list (list float),
  feq_mod_zero (f_nanmax (map f_nanmax chunks)) (f_nanmax (concat chunks)).
Proof.
  exact (best_partition_independent f_gtb (fun a => f_ltb_irrefl a)
                                    (fun a b => f_ltb_asym b a) f_gtb_nlt_trans
                                    f_gtb_nlt_antisym).
Qed.

Theorem f_nanmin_set_independent : forall chunks chunks' : list (list float),
  (forall v, In v (concat chunks) <-> In v (concat chunks')) ->
  feq_mod_zero (f_nanmin (map f_nanmin chunks)) (f_nanmin (map f_nanmin chunks')).
Proof.
  exact (best_set_independent PrimFloat.ltb f_ltb_irrefl f_ltb_asym f_nlt_trans
                              f_nlt_antisym).
Qed.

Theorem f_nanmax_set_independent : forall chunks chunks' : list (list float),
  (forall v, In v (concat chunks) <-> In v (concat chunks')) ->
  feq_mod_zero (f_nanmax (map f_nanmax chunks)) (f_nanmax (map f_nanmax chunks')).
Proof.
  exact (best_set_independent f_gtb (fun a => f_ltb_irrefl a)
                              (fun a b => f_ltb_asym b a) f_gtb_nlt_trans
                              f_gtb_nlt_antisym).
Qed.

Theorem f_nanmin_permutation_independent : forall chunks chunks' : list (list float),
  Permutation (concat chunks) (concat chunks') ->
  feq_mod_zero (f_nanmin (map f_nanmin chunks)) (f_nanmin (map f_nanmin chunks')).
Proof.
  intros chunks chunks' P. apply f_nanmin_set_independent. intro v.
  split; apply Permutation_in; [exact P | now apply Permutation_sym].
Qed.

Theorem f_nanmax_permutation_independent : forall chunks chunks' : list (list float),
  Permutation (concat chunks) (concat chunks') ->
  feq_mod_zero (f_nanmax (map f_nanmax chunks)) (f_nanmax (map f_nanmax chunks')).
Proof.
  intros chunks chunks' P. apply f_nanmax_set_independent. intro v.
  split; apply Permutation_in; [exact P | now apply Permutation_sym].
Qed.

(* ================================================================== *)
(* 4. the four columns: total bounds of a Dask frame                    *)
(* ================================================================== *)
Definition fr_x0 (b : frow) : float := let '(v, _, _, _) := b in v.
Definition fr_y0 (b : frow) : float := let '(_, v, _, _) := b in v.
Definition fr_x1 (b : frow) : float := let '(_, _, v, _) := b in v.
Definition fr_y1 (b : frow) : float := let '(_, _, _, v) := b in v.

Lemma f_total_bounds_cols : forall rows,
  f_total_bounds rows = (f_nanmin (map fr_x0 rows), f_nanmin (map fr_y0 rows),
                         f_nanmax (map fr_x1 rows), f_nanmax (map fr_y1 rows)).
Proof. reflexivity. Qed.

Lemma f_dask_total_bounds_cols : forall parts,
  f_dask_total_bounds parts =
  (f_nanmin (map f_nanmin (map (map fr_x0) parts)),
   f_nanmin (map f_nanmin (map (map fr_y0) parts)),
   f_nanmax (map f_nanmax (map (map fr_x1) parts)),
   f_nanmax (map f_nanmax (map (map fr_y1) parts))).
Proof.
  intro parts. unfold f_dask_total_bounds. rewrite f_total_bounds_cols.
  rewrite !map_map. reflexivity.
Qed.

Lemma in_concat_map_cols : forall (g : frow -> float) parts parts',
  (forall r, In r (concat parts) <-> In r (concat parts')) ->
  forall v, In v (concat (map (map g) parts)) <-> In v (concat (map (map g) parts')).
Proof.
  intros g parts parts' E v. rewrite <- !concat_map, !in_map_iff.
  split; intros (r & Hr & I); exists r; (split; [exact Hr|]); now apply E.
Qed.

(* DaskGeoSeries.total_bounds (two levels) against the total bounds of all the rows at once *)
Theorem f_total_bounds_partition_independent : forall parts : list (list frow),
  frow_eq_mod_zero (f_dask_total_bounds parts) (f_total_bounds (concat parts)).
Proof.
  intro parts. rewrite f_dask_total_bounds_cols, f_total_bounds_cols.
  rewrite !concat_map. unfold frow_eq_mod_zero.
  repeat split; first [apply f_nanmin_partition_independent
                      |apply f_nanmax_partition_independent].
Qed.

(* two Dask frames holding the same set of bounds rows, split in any two ways *)
Theorem f_dask_total_bounds_set_independent : forall parts parts' : list (list frow),
  (forall r, In r (concat parts) <-> In r (concat parts')) ->
  frow_eq_mod_zero (f_dask_total_bounds parts) (f_dask_total_bounds parts').
Proof.
  intros parts parts' E. rewrite !f_dask_total_bounds_cols. unfold frow_eq_mod_zero.
  repeat split; first [apply f_nanmin_set_independent|apply f_nanmax_set_independent];
    now apply in_concat_map_cols.
Qed.

(* in particular: the same rows in any order, split in any two ways *)
Theorem f_dask_total_bounds_permutation_independent : forall parts parts' : list (list frow),
  Permutation (concat parts) (concat parts') ->
  frow_eq_mod_zero (f_dask_total_bounds parts) (f_dask_total_bounds parts').
Proof.
  intros parts parts' P. apply f_dask_total_bounds_set_independent. intro r.
  split; apply Permutation_in; [exact P | now apply Permutation_sym].
Qed.

(* ================================================================== *)
(* 5. what is done with the total bounds respects [feq_mod_zero]        *)
(* ================================================================== *)
(* comparisons do not see the sign of a zero *)
Lemma SFcompare_mod_zero : forall x x' y y',
  sfeq_mod_zero x x' -> sfeq_mod_zero y y' -> SFcompare x y = SFcompare x' y'.
Proof.
  intros x x' y y' [->|[Zx Zx']] [->|[Zy Zy']]; try reflexivity.
  - destruct y; try discriminate. destruct y'; try discriminate. destruct x'; reflexivity.
  - destruct x; try discriminate. destruct x'; try discriminate. destruct y'; reflexivity.
  - destruct x; try discriminate. destruct x'; try discriminate.
    destruct y; try discriminate. destruct y'; try discriminate. reflexivity.
Qed.

Lemma f_ltb_mod_zero : forall a a' b b',
  feq_mod_zero a a' -> feq_mod_zero b b' -> (a <? b)%float = (a' <? b')%float.
Proof.
  intros a a' b b' Ha Hb. apply feq_mod_zero_sf in Ha. apply feq_mod_zero_sf in Hb.
  rewrite !FloatAxioms.ltb_spec. unfold SFltb. now rewrite (SFcompare_mod_zero _ _ _ _ Ha Hb).
Qed.

Lemma f_eqb_mod_zero : forall a a' b b',
  feq_mod_zero a a' -> feq_mod_zero b b' -> (a =? b)%float = (a' =? b')%float.
Proof.
  intros a a' b b' Ha Hb. apply feq_mod_zero_sf in Ha. apply feq_mod_zero_sf in Hb.
  rewrite !FloatAxioms.eqb_spec. unfold SFeqb. now rewrite (SFcompare_mod_zero _ _ _ _ Ha Hb).
Qed.

(* x - y, x + y, x * y: a zero operand of the other sign changes at most the sign of a
   zero result (the rounding branch finite op finite is only met with identical operands) *)
Lemma SFsub_mod_zero : forall x x' y y',
  sfeq_mod_zero x x' -> sfeq_mod_zero y y' ->
  sfeq_mod_zero (SFsub prec emax x y) (SFsub prec emax x' y').
Proof.
  intros x x' y y' [->|[Zx Zx']] [->|[Zy Zy']]; [left; reflexivity|..].
  - destruct y as [sy| | |]; try discriminate. destruct y' as [sy'| | |]; try discriminate.
    destruct x' as [sx|sx| |sx mx ex]; simpl; try (left; reflexivity).
    right. destruct (Bool.eqb sx (negb sy)), (Bool.eqb sx (negb sy')); split; reflexivity.
  - destruct x as [sx| | |]; try discriminate. destruct x' as [sx'| | |]; try discriminate.
    destruct y' as [sy|sy| |sy my ey]; simpl; try (left; reflexivity).
    right. destruct (Bool.eqb sx (negb sy)), (Bool.eqb sx' (negb sy)); split; reflexivity.
  - destruct x as [sx| | |]; try discriminate. destruct x' as [sx'| | |]; try discriminate.
    destruct y as [sy| | |]; try discriminate. destruct y' as [sy'| | |]; try discriminate.
    simpl. right.
    destruct (Bool.eqb sx (negb sy)), (Bool.eqb sx' (negb sy')); split; reflexivity.
Qed.

Lemma SFadd_mod_zero : forall x x' y y',
  sfeq_mod_zero x x' -> sfeq_mod_zero y y' ->
  sfeq_mod_zero (SFadd prec emax x y) (SFadd prec emax x' y').
Proof.
  intros x x' y y' [->|[Zx Zx']] [->|[Zy Zy']]; [left; reflexivity|..].
  - destruct y as [sy| | |]; try discriminate. destruct y' as [sy'| | |]; try discriminate.
    destruct x' as [sx|sx| |sx mx ex]; simpl; try (left; reflexivity).
    right. destruct (Bool.eqb sx sy), (Bool.eqb sx sy'); split; reflexivity.
  - destruct x as [sx| | |]; try discriminate. destruct x' as [sx'| | |]; try discriminate.
    destruct y' as [sy|sy| |sy my ey]; simpl; try (left; reflexivity).
    right. destruct (Bool.eqb sx sy), (Bool.eqb sx' sy); split; reflexivity.
  - destruct x as [sx| | |]; try discriminate. destruct x' as [sx'| | |]; try discriminate.
    destruct y as [sy| | |]; try discriminate. destruct y' as [sy'| | |]; try discriminate.
    simpl. right. destruct (Bool.eqb sx sy), (Bool.eqb sx' sy'); split; reflexivity.
Qed.

Lemma SFmul_mod_zero : forall x x' y y',
  sfeq_mod_zero x x' -> sfeq_mod_zero y y' ->
  sfeq_mod_zero (SFmul prec emax x y) (SFmul prec emax x' y').
Proof.
  intros x x' y y' [->|[Zx Zx']] [->|[Zy Zy']]; [left; reflexivity|..].
  - destruct y as [sy| | |]; try discriminate. destruct y' as [sy'| | |]; try discriminate.
    destruct x' as [sx|sx| |sx mx ex]; simpl; try (left; reflexivity);
      right; split; reflexivity.
  - destruct x as [sx| | |]; try discriminate. destruct x' as [sx'| | |]; try discriminate.
    destruct y' as [sy|sy| |sy my ey]; simpl; try (left; reflexivity);
      right; split; reflexivity.
  - destruct x as [sx| | |]; try discriminate. destruct x' as [sx'| | |]; try discriminate.
    destruct y as [sy| | |]; try discriminate. destruct y' as [sy'| | |]; try discriminate.
    simpl. right. split; reflexivity.
Qed.

Lemma f_sub_mod_zero : forall a a' b b',
  feq_mod_zero a a' -> feq_mod_zero b b' -> feq_mod_zero (a - b) (a' - b').
Proof.
  intros a a' b b' Ha Hb. apply feq_mod_zero_sf in Ha. apply feq_mod_zero_sf in Hb.
  apply feq_mod_zero_sf. rewrite !FloatAxioms.sub_spec. now apply SFsub_mod_zero.
Qed.

Lemma f_add_mod_zero : forall a a' b b',
  feq_mod_zero a a' -> feq_mod_zero b b' -> feq_mod_zero (a + b) (a' + b').
Proof.
  intros a a' b b' Ha Hb. apply feq_mod_zero_sf in Ha. apply feq_mod_zero_sf in Hb.
  apply feq_mod_zero_sf. rewrite !FloatAxioms.add_spec. now apply SFadd_mod_zero.
Qed.

Lemma f_mul_mod_zero : forall a a' b b',
  feq_mod_zero a a' -> feq_mod_zero b b' -> feq_mod_zero (a * b) (a' * b').
Proof.
  intros a a' b b' Ha Hb. apply feq_mod_zero_sf in Ha. apply feq_mod_zero_sf in Hb.
  apply feq_mod_zero_sf. rewrite !FloatAxioms.mul_spec. now apply SFmul_mod_zero.
Qed.

(* division does NOT respect the relation (n / +0.0 = +inf, n / -0.0 = -inf): *)
Lemma f_div_not_mod_zero :
  feq_mod_zero 0%float (-0)%float /\ ~ feq_mod_zero (1 / 0)%float (1 / (-0))%float.
Proof.
  split; [right; left; split; reflexivity|].
  intros [H|[[H _]|[H _]]]; [|vm_compute in H; discriminate H..].
  apply (f_equal (fun x => (x <? 0)%float)) in H. vm_compute in H. discriminate H.
Qed.

(* the cast sends both zeros to 0 *)
Lemma float_to_int64_mod_zero : forall a a',
  feq_mod_zero a a' -> float_to_int64 a = float_to_int64 a'.
Proof.
  intros a a' H. apply feq_mod_zero_sf in H. unfold float_to_int64.
  destruct H as [->|[Z Z']]; [reflexivity|].
  destruct (Prim2SF a); try discriminate. destruct (Prim2SF a'); try discriminate. reflexivity.
Qed.

Lemma f_clip_mod_zero : forall s s' n,
  feq_mod_zero s s' -> feq_mod_zero (f_clip s n) (f_clip s' n).
Proof.
  intros s s' n H. unfold f_clip.
  rewrite <- (f_ltb_mod_zero s s' 0 0 H (feq_mod_zero_refl _)).
  destruct (s <? 0)%float; [apply feq_mod_zero_refl|].
  rewrite <- (f_ltb_mod_zero _ _ s s' (feq_mod_zero_refl (Z2float (n - 1))) H).
  destruct (Z2float (n - 1) <? s)%float; [apply feq_mod_zero_refl|exact H].
Qed.

(* _data2coord: the cell does not depend on the sign of a zero end of the range (nor of a
   zero value) *)
Theorem f_data2coord_mod_zero : forall v v' lo lo' hi hi' n,
  feq_mod_zero v v' -> feq_mod_zero lo lo' -> feq_mod_zero hi hi' ->
  f_data2coord v lo hi n = f_data2coord v' lo' hi' n.
Proof.
  intros v v' lo lo' hi hi' n Hv Hlo Hhi. unfold f_data2coord.
  assert (Hw : feq_mod_zero (hi - lo) (hi' - lo')) by now apply f_sub_mod_zero.
  rewrite <- (f_eqb_mod_zero _ _ 0 0 Hw (feq_mod_zero_refl _)).
  destruct ((hi - lo) =? 0)%float eqn:W.
  - rewrite <- (f_ltb_mod_zero hi hi' v v' Hhi Hv). reflexivity.
  - f_equal. apply float_to_int64_mod_zero. apply f_clip_mod_zero. unfold f_scaled.
    apply feq_mod_zero_iff in Hw. destruct Hw as [Hw|[Zw _]].
    + rewrite <- Hw. apply f_mul_mod_zero; [now apply f_sub_mod_zero|apply feq_mod_zero_refl].
    + unfold is_zero in Zw. change zero with 0%float in Zw. congruence.
Qed.

Lemma f_widen_mod_zero : forall lo lo' hi hi',
  feq_mod_zero lo lo' -> feq_mod_zero hi hi' ->
  feq_mod_zero (fst (f_widen (lo, hi))) (fst (f_widen (lo', hi'))) /\
  feq_mod_zero (snd (f_widen (lo, hi))) (snd (f_widen (lo', hi'))).
Proof.
  intros lo lo' hi hi' Hlo Hhi. unfold f_widen.
  rewrite <- (f_eqb_mod_zero lo lo' hi hi' Hlo Hhi).
  destruct (lo =? hi)%float; simpl; (split; [exact Hlo|]); [|exact Hhi].
  apply f_add_mod_zero; [exact Hhi|apply feq_mod_zero_refl].
Qed.

Lemma f_key_tb_mod_zero : forall tb tb',
  frow_eq_mod_zero tb tb' -> frow_eq_mod_zero (f_key_tb tb) (f_key_tb tb').
Proof.
  intros [[[a0 a1] a2] a3] [[[b0 b1] b2] b3] (H0 & H1 & H2 & H3). unfold f_key_tb, frow_eq_mod_zero.
  rewrite <- (f_eqb_mod_zero a0 b0 a2 b2 H0 H2), <- (f_eqb_mod_zero a1 b1 a3 b3 H1 H3).
  repeat split; try assumption.
  - destruct (a0 =? a2)%float; [|exact H2].
    apply f_add_mod_zero; [exact H2|apply feq_mod_zero_refl].
  - destruct (a1 =? a3)%float; [|exact H3].
    apply f_add_mod_zero; [exact H3|apply feq_mod_zero_refl].
Qed.

(* the Hilbert distance of a row against total bounds that differ in zero signs only *)
Theorem f_hd1_mod_zero : forall tb tb' p b,
  frow_eq_mod_zero tb tb' -> f_hd1 tb p b = f_hd1 tb' p b.
Proof.
  intros [[[a0 a1] a2] a3] [[[b0 b1] b2] b3] p [[[x0 y0] x1] y1] (H0 & H1 & H2 & H3).
  unfold f_hd1.
  destruct (f_widen_mod_zero a0 b0 a2 b2 H0 H2) as [Xl Xh].
  destruct (f_widen_mod_zero a1 b1 a3 b3 H1 H3) as [Yl Yh].
  destruct (f_widen (a0, a2)) as [xlo xhi], (f_widen (b0, b2)) as [xlo' xhi'],
           (f_widen (a1, a3)) as [ylo yhi], (f_widen (b1, b3)) as [ylo' yhi'].
  simpl in Xl, Xh, Yl, Yh.
  rewrite (f_data2coord_mod_zero _ _ xlo xlo' xhi xhi' _ (feq_mod_zero_refl _) Xl Xh).
  rewrite (f_data2coord_mod_zero _ _ ylo ylo' yhi yhi' _ (feq_mod_zero_refl _) Yl Yh).
  reflexivity.
Qed.

Theorem f_key_mod_zero : forall tb tb' p b,
  frow_eq_mod_zero tb tb' -> f_hd1 (f_key_tb tb) p b = f_hd1 (f_key_tb tb') p b.
Proof. intros tb tb' p b H. apply f_hd1_mod_zero. now apply f_key_tb_mod_zero. Qed.

(* ================================================================== *)
(* 6. pack_partitions' key column does not depend on the partitioning   *)
(* ================================================================== *)
(* the key FUNCTION row -> key of a Dask frame depends only on the set of its bounds rows *)
Theorem f_key_function_set_independent : forall parts parts' p b,
  (forall r, In r (concat parts) <-> In r (concat parts')) ->
  f_hd1 (f_key_tb (f_dask_total_bounds parts)) p b =
  f_hd1 (f_key_tb (f_dask_total_bounds parts')) p b.
Proof.
  intros parts parts' p b E. apply f_key_mod_zero.
  now apply f_dask_total_bounds_set_independent.
Qed.

(* any two partitionings of the same rows (same order): every row gets the same key *)
Theorem f_pack_keys_partition_independent : forall parts parts' p keys keys',
  concat parts = concat parts' ->
  f_pack_keys parts p = Some keys ->
  f_pack_keys parts' p = Some keys' ->
  concat keys = concat keys'.
Proof.
  intros parts parts' p keys keys' E H H'.
  apply f_pack_keys_own_key in H. apply f_pack_keys_own_key in H'.
  destruct H as [H _], H' as [H' _]. rewrite H, H', <- E.
  apply map_ext. intro b. apply f_key_function_set_independent.
  intro r. now rewrite E.
Qed.

(* the rows in another order as well (a shuffled frame): the (row, key) pairs are the same *)
Lemma combine_map_r : forall (A B : Type) (g : A -> B) (l : list A),
  combine l (map g l) = map (fun r => (r, g r)) l.
Proof. intros A B g l. induction l as [|r t IH]; simpl; [reflexivity|now rewrite IH]. Qed.

Theorem f_pack_keys_permutation_independent : forall parts parts' p keys keys',
  Permutation (concat parts) (concat parts') ->
  f_pack_keys parts p = Some keys ->
  f_pack_keys parts' p = Some keys' ->
  Permutation (combine (concat parts) (concat keys)) (combine (concat parts') (concat keys')).
Proof.
  intros parts parts' p keys keys' P H H'.
  apply f_pack_keys_own_key in H. apply f_pack_keys_own_key in H'.
  destruct H as [H _], H' as [H' _]. rewrite H, H', !combine_map_r.
  rewrite (map_ext _ (fun r => (r, f_hd1 (f_key_tb (f_dask_total_bounds parts')) p r))).
  - now apply Permutation_map.
  - intro b. f_equal. apply f_key_function_set_independent. intro r.
    split; apply Permutation_in; [exact P | now apply Permutation_sym].
Qed.

(* ================================================================== *)
(* 7. the sequential folds: consecutive splits, bit for bit             *)
(* ================================================================== *)
(* [f_nanmin] / [f_nanmax] scan from left to right and keep the running value on a tie:
   they return the FIRST best element, and "first best" is associative.  For a split of the
   rows into consecutive partitions the two-level reduction of the MODEL is therefore equal
   to the one-level reduction bit for bit, zero signs included; the sign of a zero can only
   change with the ORDER in which the values are met (rows assigned to the partitions in
   another order, or an implementation of np.nanmin that reduces in another order - SIMD
   lanes, pairwise), and that is what sections 3-6 are independent of. *)
Theorem f_nanmin_split_exact : forall chunks : list (list float),
  f_nanmin (map f_nanmin chunks) = f_nanmin (concat chunks).
Proof.
  exact (best_split_exact PrimFloat.ltb f_ltb_asym f_nlt_trans).
Qed.

Theorem f_nanmax_split_exact : forall chunks : list (list float),
  f_nanmax (map f_nanmax chunks) = f_nanmax (concat chunks).
Proof.
  exact (best_split_exact f_gtb (fun a b => f_ltb_asym b a) f_gtb_nlt_trans).
Qed.

Theorem f_total_bounds_split_exact : forall parts : list (list frow),
  f_dask_total_bounds parts = f_total_bounds (concat parts).
Proof.
  intro parts. rewrite f_dask_total_bounds_cols, f_total_bounds_cols, !concat_map.
  now rewrite !f_nanmin_split_exact, !f_nanmax_split_exact.
Qed.

(* whatever way an implementation picks its answer (order of the reduction, which of two
   equal-comparing values it keeps): an answer that is NaN when there is no number and
   otherwise an element that no number of the list is below is [f_nanmin] up to zero sign *)
Theorem f_nanmin_characterised : forall l m,
  (all_nan l /\ is_nan m = true) \/
  (is_nan m = false /\ In m l /\
   forall x, In x l -> is_nan x = false -> (x <? m)%float = false) ->
  feq_mod_zero m (f_nanmin l).
Proof.
  intros l m H.
  exact (is_best_unique PrimFloat.ltb f_nlt_antisym l m (f_nanmin l) H (f_nanmin_spec l)).
Qed.

Theorem f_nanmax_characterised : forall l m,
  (all_nan l /\ is_nan m = true) \/
  (is_nan m = false /\ In m l /\
   forall x, In x l -> is_nan x = false -> (m <? x)%float = false) ->
  feq_mod_zero m (f_nanmax l).
Proof.
  intros l m H.
  exact (is_best_unique f_gtb f_gtb_nlt_antisym l m (f_nanmax l) H (f_nanmax_spec l)).
Qed.

(* ================================================================== *)
(* 8. witnesses for the Examples of Properties/C09.v, C13.v, C06.v      *)
(* ================================================================== *)
(* rows (+0.0, 1), (-0.0, 2), (4, 8) as points: the partitions [[a]; [b; c]] and
   [[b]; [a; c]] hold the same rows; x0 of the total bounds is +0.0 for the first and -0.0
   for the second (the first zero met), the keys of a, b, c are 0, 16644, 699050 in both *)
Definition ex_f_zero_sign_depends_on_order_stmt : Prop :=
  let r (x y : float) : frow := (x, y, x, y) in
  let a := r 0%float 1%float in
  let b := r (-0)%float 2%float in
  let c := r 4%float 8%float in
  Prim2SF (fr_x0 (f_dask_total_bounds [[a]; [b; c]])) = S754_zero false /\
  Prim2SF (fr_x0 (f_dask_total_bounds [[b]; [a; c]])) = S754_zero true /\
  f_pack_keys [[a]; [b; c]] 10 = Some [[0%N]; [16644%N; 699050%N]] /\
  f_pack_keys [[b]; [a; c]] 10 = Some [[16644%N]; [0%N; 699050%N]].
Lemma ex_f_zero_sign_depends_on_order_holds : ex_f_zero_sign_depends_on_order_stmt.
Proof. vm_compute. repeat split; reflexivity. Qed.

(* the same for an upper bound: rows (-3, 0.5), (-0.0, 2), (+0.0, 1); x1 is -0.0 / +0.0 *)
Definition ex_f_zero_sign_upper_stmt : Prop :=
  let r (x y : float) : frow := (x, y, x, y) in
  let a := r 0%float 1%float in
  let b := r (-0)%float 2%float in
  let d := r (-3)%float 0.5%float in
  Prim2SF (fr_x1 (f_dask_total_bounds [[d]; [b; a]])) = S754_zero true /\
  Prim2SF (fr_x1 (f_dask_total_bounds [[a]; [b; d]])) = S754_zero false /\
  f_pack_keys [[d]; [b; a]] 10 = Some [[0%N]; [699050%N; 806596%N]] /\
  f_pack_keys [[a]; [b; d]] 10 = Some [[806596%N]; [699050%N; 0%N]].
Lemma ex_f_zero_sign_upper_holds : ex_f_zero_sign_upper_stmt.
Proof. vm_compute. repeat split; reflexivity. Qed.

(* a partition of missing rows only (its partition_bounds row is NaN) and an empty one:
   skipped by the second level; a frame of missing rows only: NaN total bounds, keys 0 *)
Definition ex_f_all_nan_partition_stmt : Prop :=
  let r (x y : float) : frow := (x, y, x, y) in
  let a := r 0%float 1%float in
  let c := r 4%float 8%float in
  let d := r (-3)%float 0.5%float in
  let m : frow := (nan, nan, nan, nan) in
  map f_total_bounds [[a; d]; [m; m]; []; [c]] =
    [((-3)%float, 0.5%float, 0%float, 1%float); m; m; c] /\
  f_dask_total_bounds [[a; d]; [m; m]; []; [c]] = ((-3)%float, 0.5%float, 4%float, 8%float) /\
  f_total_bounds [a; d; m; m; c] = ((-3)%float, 0.5%float, 4%float, 8%float) /\
  f_pack_keys [[a; d]; [m; m]; []; [c]] 10 = Some [[95628%N; 0%N]; [0%N; 0%N]; []; [699050%N]] /\
  f_pack_keys [[a; d; m; m; c]] 10 = Some [[95628%N; 0%N; 0%N; 0%N; 699050%N]] /\
  f_dask_total_bounds [[m]; []] = m /\
  f_pack_keys [[m]; []] 10 = Some [[0%N]; []].
Lemma ex_f_all_nan_partition_holds : ex_f_all_nan_partition_stmt.
Proof. vm_compute. repeat split; reflexivity. Qed.

(* ================================================================== *)
(* 9. the numba kernel (Model/FloatBounds.v) computes the row-level folds *)
(* ================================================================== *)
(* a value the kernel skips is a NaN for the nan-skipping folds *)
Definition f_clean (v : float) : float := if is_finite v then v else nan.

Fixpoint f_xs (vs : list float) : list float :=
  match vs with x :: _ :: t => x :: f_xs t | _ => [] end.
Fixpoint f_ys (vs : list float) : list float :=
  match vs with _ :: y :: t => y :: f_ys t | _ => [] end.

Lemma pairs_ind : forall (A : Type) (P : list A -> Prop),
  P [] -> (forall x, P [x]) -> (forall x y t, P t -> P (x :: y :: t)) -> forall l, P l.
Proof.
  intros A P H0 H1 H2. fix IH 1. intros [|x [|y t]]; [exact H0|apply H1|].
  apply H2. apply IH.
Qed.

Lemma is_finite_not_nan : forall v, is_finite v = true -> is_nan v = false.
Proof.
  intros v H. unfold is_finite in H. destruct (is_nan v); [discriminate H|reflexivity].
Qed.

Lemma is_finite_sf : forall v, is_finite v = true ->
  match Prim2SF v with S754_zero _ | S754_finite _ _ _ => True | _ => False end.
Proof.
  intros v H. unfold is_finite in H. apply negb_true_iff, orb_false_iff in H.
  destruct H as [N I]. rewrite is_nan_sf in N. unfold is_infinity in I.
  rewrite FloatAxioms.eqb_spec, abs_spec in I.
  destruct (Prim2SF v) as [s|s| |s m e]; try exact Logic.I; try discriminate N.
  vm_compute in I. discriminate I.
Qed.

Lemma is_finite_lt_inf : forall v, is_finite v = true -> (v <? infinity)%float = true.
Proof.
  intros v H. apply is_finite_sf in H. rewrite FloatAxioms.ltb_spec.
  change (Prim2SF infinity) with (S754_infinity false).
  destruct (Prim2SF v); try contradiction; reflexivity.
Qed.

Lemma is_finite_gt_neg_inf : forall v, is_finite v = true -> (neg_infinity <? v)%float = true.
Proof.
  intros v H. apply is_finite_sf in H. rewrite FloatAxioms.ltb_spec.
  change (Prim2SF neg_infinity) with (S754_infinity true).
  destruct (Prim2SF v); try contradiction; reflexivity.
Qed.

(* kernel state (running min, max) against the state of the two folds: nothing finite seen
   yet, or the same finite numbers *)
Definition tbi_state (kmin kmax mmin mmax : float) : Prop :=
  (kmin = infinity /\ kmax = neg_infinity /\ mmin = nan /\ mmax = nan) \/
  (is_finite kmin = true /\ is_finite kmax = true /\ mmin = kmin /\ mmax = kmax).

Lemma tbi_state_step : forall kmin kmax mmin mmax v,
  tbi_state kmin kmax mmin mmax ->
  tbi_state (fst (if is_finite v then (nb_min kmin v, nb_max kmax v) else (kmin, kmax)))
            (snd (if is_finite v then (nb_min kmin v, nb_max kmax v) else (kmin, kmax)))
            (f_nanmin2 mmin (f_clean v)) (f_nanmax2 mmax (f_clean v)).
Proof.
  intros kmin kmax mmin mmax v S. unfold f_clean.
  destruct (is_finite v) eqn:Fv; simpl.
  - pose proof (is_finite_not_nan v Fv) as Nv.
    destruct S as [(-> & -> & -> & ->)|(Fmin & Fmax & -> & ->)].
    + right. unfold nb_min, nb_max.
      rewrite (is_finite_lt_inf v Fv), (is_finite_gt_neg_inf v Fv).
      repeat split; assumption.
    + right. unfold nb_min, nb_max, f_nanmin2, f_nanmax2.
      rewrite (is_finite_not_nan _ Fmin), (is_finite_not_nan _ Fmax), Nv.
      repeat split; try reflexivity.
      * destruct (v <? kmin)%float; assumption.
      * destruct (kmax <? v)%float; assumption.
  - destruct S as [(-> & -> & -> & ->)|(Fmin & Fmax & -> & ->)].
    + left. repeat split; reflexivity.
    + right. unfold f_nanmin2, f_nanmax2.
      rewrite (is_finite_not_nan _ Fmin), (is_finite_not_nan _ Fmax).
      repeat split; assumption.
Qed.

Lemma f_tbi_loop_folds : forall vs xmin xmax ymin ymax mx0 mx1 my0 my1,
  tbi_state xmin xmax mx0 mx1 -> tbi_state ymin ymax my0 my1 ->
  let '(a, b, c, d) := f_tbi_loop vs xmin xmax ymin ymax in
  tbi_state a b (fold_left f_nanmin2 (map f_clean (f_xs vs)) mx0)
                (fold_left f_nanmax2 (map f_clean (f_xs vs)) mx1) /\
  tbi_state c d (fold_left f_nanmin2 (map f_clean (f_ys vs)) my0)
                (fold_left f_nanmax2 (map f_clean (f_ys vs)) my1).
Proof.
  induction vs as [|x|x y t IH] using pairs_ind; intros xmin xmax ymin ymax mx0 mx1 my0 my1 SX SY.
  - simpl. split; assumption.
  - simpl. split; assumption.
  - cbn [f_tbi_loop f_xs f_ys map fold_left].
    pose proof (tbi_state_step _ _ _ _ x SX) as SX'.
    pose proof (tbi_state_step _ _ _ _ y SY) as SY'.
    destruct (if is_finite x then (nb_min xmin x, nb_max xmax x) else (xmin, xmax)) as [a b].
    destruct (if is_finite y then (nb_min ymin y, nb_max ymax y) else (ymin, ymax)) as [c d].
    exact (IH _ _ _ _ _ _ _ _ SX' SY').
Qed.

(* total_bounds_interleaved = the four nan-skipping folds over the de-interleaved values,
   non-finite values read as NaN: bit for bit *)
Theorem f_tbi_is_folds : forall vs,
  f_total_bounds_interleaved vs =
  (f_nanmin (map f_clean (f_xs vs)), f_nanmin (map f_clean (f_ys vs)),
   f_nanmax (map f_clean (f_xs vs)), f_nanmax (map f_clean (f_ys vs))).
Proof.
  intro vs. unfold f_total_bounds_interleaved, f_nanmin, f_nanmax.
  assert (S0 : tbi_state infinity neg_infinity nan nan) by (left; repeat split; reflexivity).
  pose proof (f_tbi_loop_folds vs _ _ _ _ _ _ _ _ S0 S0) as H.
  destruct (f_tbi_loop vs infinity neg_infinity infinity neg_infinity) as [[[a b] c] d].
  destruct H as [[(-> & -> & -> & ->)|(Fa & _ & -> & ->)] [(-> & -> & -> & ->)|(Fc & _ & -> & ->)]];
    rewrite ?Fa, ?Fc; reflexivity.
Qed.

Lemma f_xs_app : forall l1 l2, Nat.even (length l1) = true -> f_xs (l1 ++ l2) = f_xs l1 ++ f_xs l2.
Proof.
  induction l1 as [|x|x y t IH] using pairs_ind; intros l2 E; [reflexivity|discriminate E|].
  simpl. rewrite IH; [reflexivity|exact E].
Qed.
Lemma f_ys_app : forall l1 l2, Nat.even (length l1) = true -> f_ys (l1 ++ l2) = f_ys l1 ++ f_ys l2.
Proof.
  induction l1 as [|x|x y t IH] using pairs_ind; intros l2 E; [reflexivity|discriminate E|].
  simpl. rewrite IH; [reflexivity|exact E].
Qed.

Lemma f_xs_concat : forall pieces,
  Forall (fun l => Nat.even (length l) = true) pieces ->
  f_xs (concat pieces) = concat (map f_xs pieces).
Proof.
  induction 1 as [|l t E _ IH]; simpl; [reflexivity|]. now rewrite f_xs_app, IH.
Qed.
Lemma f_ys_concat : forall pieces,
  Forall (fun l => Nat.even (length l) = true) pieces ->
  f_ys (concat pieces) = concat (map f_ys pieces).
Proof.
  induction 1 as [|l t E _ IH]; simpl; [reflexivity|]. now rewrite f_ys_app, IH.
Qed.

(* the kernel on a concatenation of coordinate lists (whole pairs each) = the row-level
   nan-combination of its answers on the pieces: pieces = the elements of an array
   (total_bounds against bounds) or the partitions of a frame.  Bit for bit, in this order. *)
Theorem f_tbi_concat : forall pieces,
  Forall (fun l => Nat.even (length l) = true) pieces ->
  f_total_bounds_interleaved (concat pieces) =
  f_total_bounds (map f_total_bounds_interleaved pieces).
Proof.
  intros pieces E. rewrite f_tbi_is_folds, f_total_bounds_cols.
  rewrite (f_xs_concat pieces E), (f_ys_concat pieces E), !concat_map.
  rewrite <- !f_nanmin_split_exact, <- !f_nanmax_split_exact.
  rewrite !map_map.
  f_equal; [f_equal; [f_equal|]|]; f_equal; apply map_ext; intro l;
    rewrite f_tbi_is_folds; reflexivity.
Qed.

(* kernel witnesses: the first zero met is kept, as minimum and as maximum; non-finite
   values are skipped; nothing finite: NaN *)
Definition ex_f_kernel_stmt : Prop :=
  let sgn (r : frow) := (Prim2SF (fr_x0 r), Prim2SF (fr_x1 r)) in
  sgn (f_total_bounds_interleaved [0; 1; -0; 2; 4; 8]%float) =
    (S754_zero false, Prim2SF 4%float) /\
  sgn (f_total_bounds_interleaved [-0; 2; 0; 1; -4; 8]%float) =
    (Prim2SF (-4)%float, S754_zero true) /\
  f_total_bounds_interleaved [infinity; 1; -3; nan; 5; neg_infinity]%float =
    ((-3)%float, 1%float, 5%float, 1%float) /\
  f_total_bounds_interleaved [nan; infinity; neg_infinity; nan] = (nan, nan, nan, nan) /\
  f_total_bounds_interleaved [] = (nan, nan, nan, nan).
Lemma ex_f_kernel_holds : ex_f_kernel_stmt.
Proof. vm_compute. repeat split; reflexivity. Qed.
