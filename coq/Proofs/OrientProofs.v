(* Lemma library for C15 (oriented). *)
From Coq Require Import ZArith List Bool Arith Lia ZifyBool.
From SP Require Import Model.Num Model.Arrow Model.Measures Model.Orient
  Proofs.BoundsProofs Spec.MeasuresSpec Proofs.MeasuresProofs Proofs.MeasuresMapProofs
  Proofs.MeasuresArrayProofs Spec.OrientSpec.
Import ListNotations.
Local Open Scope nat_scope.

(* ================================================================== *)
(** * 1. evens / odds / interleave                                       *)
(* ================================================================== *)

Lemma list_ind2 : forall A (P : list A -> Prop),
  P [] -> (forall x, P [x]) -> (forall x y t, P t -> P (x :: y :: t)) -> forall l, P l.
Proof.
  intros A P H0 H1 H2.
  assert (H : forall l, P l /\ forall x, P (x :: l)).
  { induction l as [|y t [IHa IHb]]; split; auto. }
  intros l; apply H.
Qed.

Lemma evens_odds_length : forall A (l : list A),
  length (evens l) + length (odds l) = length l /\
  length (odds l) <= length (evens l) /\ length (evens l) <= length (odds l) + 1.
Proof.
  intros A l. pattern l. apply list_ind2; clear l.
  - cbn. lia.
  - intros x. cbn. lia.
  - intros x y t IH. cbn [evens odds length]. lia.
Qed.

Lemma interleave_length : forall A (xs ys : list A),
  length ys <= length xs -> length xs <= length ys + 1 ->
  length (interleave xs ys) = length xs + length ys.
Proof.
  induction xs as [|x xt IH]; intros ys H1 H2.
  - destruct ys; cbn in *; lia.
  - destruct ys as [|y yt].
    + destruct xt; cbn in *; lia.
    + cbn [interleave length]. rewrite IH by (cbn in *; lia). lia.
Qed.

Lemma rev_ring_length : forall r, length (rev_ring r) = length r.
Proof.
  intros r. unfold rev_ring.
  destruct (evens_odds_length _ r) as (H1 & H2 & H3).
  rewrite interleave_length by (rewrite !rev_length; lia).
  rewrite !rev_length. exact H1.
Qed.

Lemma evens_flatz : forall ps, evens (flatz ps) = map (fun p => Some (fst p)) ps.
Proof.
  induction ps as [|p t IH]; [reflexivity|].
  change (flatz (p :: t)) with (Some (fst p) :: Some (snd p) :: flatz t).
  cbn [evens map]. rewrite IH. reflexivity.
Qed.

Lemma odds_flatz : forall ps, odds (flatz ps) = map (fun p => Some (snd p)) ps.
Proof.
  induction ps as [|p t IH]; [reflexivity|].
  change (flatz (p :: t)) with (Some (fst p) :: Some (snd p) :: flatz t).
  cbn [odds map]. rewrite IH. reflexivity.
Qed.

Lemma interleave_maps : forall (l : list (Z * Z)),
  interleave (map (fun p => Some (fst p)) l) (map (fun p => Some (snd p)) l) = flatz l.
Proof.
  induction l as [|p t IH]; [reflexivity|].
  cbn [map interleave]. rewrite IH. reflexivity.
Qed.

Lemma rev_ring_flatz : forall ps, rev_ring (flatz ps) = flatz (rev ps).
Proof.
  intros ps. unfold rev_ring. rewrite evens_flatz, odds_flatz, <- !map_rev.
  apply interleave_maps.
Qed.

Lemma hd_rev : forall A (l : list A) d, hd d (rev l) = last l d.
Proof.
  induction l as [|x l IH]; intros d; [reflexivity|].
  destruct l as [|y l']; [reflexivity|].
  change (last (x :: y :: l') d) with (last (y :: l') d). rewrite <- IH.
  cbn [rev]. destruct (rev l' ++ [y]) as [|z w] eqn:E.
  - apply (f_equal (@length _)) in E. rewrite app_length in E. cbn in E. lia.
  - reflexivity.
Qed.

Lemma last_rev : forall A (l : list A) d, last (rev l) d = hd d l.
Proof. intros A [|x l] d; [reflexivity|]. cbn [rev hd]. apply last_last. Qed.

Lemma closed_iff : forall ps, closed ps <-> last ps (0, 0)%Z = hd (0, 0)%Z ps.
Proof.
  intros [|p t]; [cbn; tauto|]. unfold closed. cbn [hd].
  rewrite (last_indep _ (p :: t) (0, 0)%Z p) by discriminate. tauto.
Qed.

Lemma closed_rev : forall ps, closed ps -> closed (rev ps).
Proof.
  intros ps H. apply closed_iff in H. apply closed_iff.
  rewrite last_rev, hd_rev. symmetry. exact H.
Qed.

(* ================================================================== *)
(** * 2. flip_ring                                                       *)
(* ================================================================== *)

Lemma flip_ring_eq : forall v a b,
  a <= b -> b <= length v ->
  flip_ring v a b = firstn a v ++ rev_ring (slice a b v) ++ skipn b v.
Proof.
  intros v a b Hab Hb. unfold flip_ring, rev_ring.
  rewrite (slice_length _ a b v Hb). replace (a + (b - a)) with b by lia. reflexivity.
Qed.

Lemma flip_ring_length : forall v a b,
  a <= b -> b <= length v -> length (flip_ring v a b) = length v.
Proof.
  intros v a b Hab Hb. rewrite flip_ring_eq by assumption.
  rewrite !app_length, rev_ring_length, firstn_length, skipn_length,
    (slice_length _ a b v Hb). lia.
Qed.

Lemma slice_app_l : forall A (l1 l2 : list A) c d,
  d <= length l1 -> slice c d (l1 ++ l2) = slice c d l1.
Proof.
  intros A l1 l2 c d H. unfold slice.
  destruct (Nat.le_gt_cases c d) as [Hcd|Hcd].
  - rewrite skipn_app. replace (c - length l1) with 0 by lia. cbn [skipn].
    rewrite firstn_app, skipn_length. replace (d - c - (length l1 - c)) with 0 by lia.
    cbn [firstn]. apply app_nil_r.
  - replace (d - c) with 0 by lia. reflexivity.
Qed.

Lemma slice_app_r : forall A (l1 l2 : list A) c d,
  length l1 <= c -> slice c d (l1 ++ l2) = slice (c - length l1) (d - length l1) l2.
Proof.
  intros A l1 l2 c d H. unfold slice.
  rewrite skipn_app, skipn_all2 by lia. cbn [app].
  f_equal. lia.
Qed.

Lemma slice_firstn : forall A (l : list A) c d a,
  d <= a -> slice c d (firstn a l) = slice c d l.
Proof.
  intros A l c d a H. unfold slice.
  destruct (Nat.le_gt_cases c d) as [Hcd|Hcd].
  - rewrite skipn_firstn_comm, firstn_firstn. f_equal. lia.
  - replace (d - c) with 0 by lia. reflexivity.
Qed.

Lemma slice_skipn : forall A (l : list A) c d b,
  slice c d (skipn b l) = slice (b + c) (b + d) l.
Proof.
  intros A l c d b. unfold slice. rewrite <- skipn_add. f_equal. lia.
Qed.

(* the flipped ring itself *)
Lemma flip_ring_self : forall v a b,
  a <= b -> b <= length v -> slice a b (flip_ring v a b) = rev_ring (slice a b v).
Proof.
  intros v a b Hab Hb. rewrite flip_ring_eq by assumption.
  assert (La : length (firstn a v) = a) by (rewrite firstn_length; lia).
  rewrite slice_app_r by lia. rewrite La, Nat.sub_diag.
  assert (Lr : length (rev_ring (slice a b v)) = b - a)
    by (rewrite rev_ring_length; apply slice_length, Hb).
  rewrite slice_app_l by lia.
  unfold slice at 1. cbn [skipn]. rewrite Nat.sub_0_r. apply firstn_all2. lia.
Qed.

(* everything before and after the ring is untouched *)
Lemma flip_ring_before : forall v a b c d,
  a <= b -> b <= length v -> d <= a -> slice c d (flip_ring v a b) = slice c d v.
Proof.
  intros v a b c d Hab Hb Hd. rewrite flip_ring_eq by assumption.
  destruct (Nat.le_gt_cases c d) as [Hcd|Hcd].
  - rewrite slice_app_l by (rewrite firstn_length; lia). apply slice_firstn, Hd.
  - unfold slice. replace (d - c) with 0 by lia. reflexivity.
Qed.

Lemma flip_ring_after : forall v a b c d,
  a <= b -> b <= length v -> b <= c -> slice c d (flip_ring v a b) = slice c d v.
Proof.
  intros v a b c d Hab Hb Hc. rewrite flip_ring_eq by assumption.
  rewrite app_assoc.
  assert (L : length (firstn a v ++ rev_ring (slice a b v)) = b).
  { rewrite app_length, firstn_length, rev_ring_length, (slice_length _ a b v Hb). lia. }
  rewrite slice_app_r by lia. rewrite L, slice_skipn.
  destruct (Nat.le_gt_cases c d) as [Hcd|Hcd].
  - f_equal; lia.
  - unfold slice. replace (b + (d - b) - (b + (c - b))) with 0 by lia.
    replace (d - c) with 0 by lia. reflexivity.
Qed.

(* ================================================================== *)
(** * 3. folding the flips over a set of distinct ring indices           *)
(* ================================================================== *)

Definition flip_all (ro : list nat) (inds : list nat) (v : list num) : list num :=
  fold_left (fun v i => flip_ring v (getn ro i) (getn ro (i + 1))) inds v.

Lemma ro_step : forall ro i, mono ro = true -> i + 1 < length ro -> getn ro i <= getn ro (i + 1).
Proof. intros ro i Hm Hi. unfold getn. apply mono_nth; [exact Hm | lia | exact Hi]. Qed.

Lemma ro_le : forall ro i j, mono ro = true -> i <= j -> j < length ro -> getn ro i <= getn ro j.
Proof. intros ro i j Hm Hij Hj. unfold getn. apply mono_nth; assumption. Qed.

Lemma ro_last : forall ro i, mono ro = true -> i < length ro -> getn ro i <= last ro 0.
Proof. intros ro i Hm Hi. apply mono_le_last; [exact Hm|]. unfold getn. apply nth_In, Hi. Qed.

Lemma flip_all_spec : forall ro inds v,
  mono ro = true -> last ro 0 <= length v ->
  NoDup inds -> (forall i, In i inds -> i + 1 < length ro) ->
  length (flip_all ro inds v) = length v /\
  (forall j, j + 1 < length ro ->
     ring_at (flip_all ro inds v) ro j =
     if existsb (Nat.eqb j) inds then rev_ring (ring_at v ro j) else ring_at v ro j) /\
  firstn (getn ro 0) (flip_all ro inds v) = firstn (getn ro 0) v /\
  skipn (last ro 0) (flip_all ro inds v) = skipn (last ro 0) v.
Proof.
  intros ro inds. induction inds as [|i inds IH]; intros v Hm Hl Hnd Hin.
  - cbn [flip_all fold_left existsb]. auto.
  - inversion Hnd as [|? ? Hni Hnd']; subst.
    assert (Hi : i + 1 < length ro) by (apply Hin; left; reflexivity).
    pose proof (ro_step ro i Hm Hi) as Hab.
    assert (Hb : getn ro (i + 1) <= length v) by (pose proof (ro_last ro (i + 1) Hm Hi); lia).
    set (v' := flip_ring v (getn ro i) (getn ro (i + 1))).
    assert (Lv' : length v' = length v) by (apply flip_ring_length; assumption).
    change (flip_all ro (i :: inds) v) with (flip_all ro inds v').
    destruct (IH v' Hm ltac:(lia) Hnd' ltac:(intros; apply Hin; right; assumption))
      as (IL & IR & IF & IS).
    split; [lia|]. split; [|split].
    + intros j Hj. rewrite IR by exact Hj. cbn [existsb].
      destruct (Nat.eqb j i) eqn:Eji.
      * apply Nat.eqb_eq in Eji. subst j. cbn [orb].
        assert (Ex : existsb (Nat.eqb i) inds = false).
        { apply not_true_is_false. intros Hex. apply existsb_exists in Hex.
          destruct Hex as (x & Hx & Ex). apply Nat.eqb_eq in Ex. subst x. contradiction. }
        rewrite Ex. unfold ring_at, v'. apply flip_ring_self; assumption.
      * apply Nat.eqb_neq in Eji. cbn [orb].
        assert (Hsame : ring_at v' ro j = ring_at v ro j).
        { unfold ring_at, v'.
          destruct (Nat.lt_ge_cases j i) as [Hlt|Hge].
          - apply flip_ring_before; try assumption. apply ro_le; [exact Hm | lia | lia].
          - apply flip_ring_after; try assumption. apply ro_le; [exact Hm | lia | lia]. }
        rewrite Hsame. reflexivity.
    + rewrite IF. unfold v'.
      pose proof (flip_ring_before v (getn ro i) (getn ro (i + 1)) 0 (getn ro 0) Hab Hb
                    ltac:(apply ro_le; [exact Hm | lia | lia])) as Hf.
      unfold slice in Hf. cbn [skipn] in Hf. rewrite Nat.sub_0_r in Hf. exact Hf.
    + rewrite IS. unfold v'.
      rewrite flip_ring_eq by assumption.
      rewrite app_assoc.
      assert (L : length (firstn (getn ro i) v ++ rev_ring (slice (getn ro i) (getn ro (i + 1)) v))
                  = getn ro (i + 1)).
      { rewrite app_length, firstn_length, rev_ring_length,
          (slice_length _ _ _ v Hb). lia. }
      pose proof (ro_last ro (i + 1) Hm Hi) as Hle.
      rewrite skipn_app, L.
      rewrite skipn_all2 by lia. cbn [app].
      rewrite <- skipn_add. f_equal. lia.
Qed.

(* ================================================================== *)
(** * 4. expected_ccw: the shells are the first rings of the polygons    *)
(* ================================================================== *)

Lemma set_nth_length : forall A i (v : A) l, length (set_nth i v l) = length l.
Proof.
  intros A i v l. revert i. induction l as [|x t IH]; intros i; [destruct i; reflexivity|].
  destruct i; cbn [set_nth length]; [reflexivity | rewrite IH; reflexivity].
Qed.

Lemma nth_set_nth : forall i j l, i < length l ->
  nth j (set_nth i true l) false = (Nat.eqb j i || nth j l false).
Proof.
  intros i j l. revert i j. induction l as [|x t IH]; intros i j Hi; [cbn in Hi; lia|].
  destruct i as [|i]; destruct j as [|j]; cbn [set_nth nth]; try reflexivity.
  - cbn [length] in Hi. rewrite IH by lia. reflexivity.
Qed.

Lemma nth_fold_set : forall ps e j,
  (forall p, In p ps -> p < length e) ->
  nth j (fold_left (fun e p => set_nth p true e) ps e) false =
  (existsb (Nat.eqb j) ps || nth j e false).
Proof.
  induction ps as [|p ps IH]; intros e j H; [reflexivity|].
  cbn [fold_left existsb]. rewrite IH.
  - rewrite nth_set_nth by (apply H; left; reflexivity).
    destruct (Nat.eqb j p), (existsb (Nat.eqb j) ps), (nth j e false); reflexivity.
  - intros q Hq. rewrite set_nth_length. apply H. right. exact Hq.
Qed.

Lemma nth_repeat_false : forall n j, nth j (repeat false n) false = false.
Proof. induction n as [|n IH]; intros [|j]; cbn; auto. Qed.

Lemma expected_ccw_spec : forall po ro j, j < length ro - 1 ->
  nth j (expected_ccw po ro) false = existsb (Nat.eqb j) (removelast po).
Proof.
  intros po ro j Hj. unfold expected_ccw.
  rewrite nth_fold_set.
  - rewrite nth_repeat_false, orb_false_r.
    induction (removelast po) as [|p t IH]; [reflexivity|].
    cbn [filter existsb].
    destruct (Nat.ltb p (length ro - 1)) eqn:E.
    + cbn [existsb]. rewrite IH. reflexivity.
    + rewrite IH. apply Nat.ltb_ge in E.
      destruct (Nat.eqb j p) eqn:Ej; [apply Nat.eqb_eq in Ej; lia | reflexivity].
  - intros p Hp. apply filter_In in Hp. destruct Hp as [_ Hp].
    apply Nat.ltb_lt in Hp. rewrite repeat_length. exact Hp.
Qed.

Lemma expected_ccw_shell : forall po ro j, j < length ro - 1 ->
  (nth j (expected_ccw po ro) false = true <-> is_shell po j).
Proof.
  intros po ro j Hj. rewrite expected_ccw_spec by exact Hj. unfold is_shell.
  rewrite existsb_exists. split.
  - intros (x & Hx & E). apply Nat.eqb_eq in E. subst x. exact Hx.
  - intros H. exists j. split; [exact H | apply Nat.eqb_refl].
Qed.

(* ================================================================== *)
(** * 5. orient_polygons                                                 *)
(* ================================================================== *)

Definition flips (vals : list num) (po ro : list nat) (j : nat) : bool :=
  flip_test (nth j (ring_areas vals ro) None) (nth j (expected_ccw po ro) false).

Lemma orient_unfold : forall vals po ro,
  orient_polygons vals po ro =
  flip_all ro (filter (flips vals po ro) (seq 0 (length ro - 1))) vals.
Proof. reflexivity. Qed.

Lemma existsb_filter_seq : forall (f : nat -> bool) n j, j < n ->
  existsb (Nat.eqb j) (filter f (seq 0 n)) = f j.
Proof.
  intros f n j Hj.
  destruct (f j) eqn:E.
  - apply existsb_exists. exists j. split; [|apply Nat.eqb_refl].
    apply filter_In. split; [apply in_seq; lia | exact E].
  - apply not_true_is_false. intros H. apply existsb_exists in H.
    destruct H as (x & Hx & Ex). apply Nat.eqb_eq in Ex. subst x.
    apply filter_In in Hx. destruct Hx as [_ Hx]. congruence.
Qed.

(* the shape of the result: every ring is kept or exactly reversed, according to
   [flips]; nothing else in the buffer changes *)
Theorem orient_rings : forall vals po ro,
  mono ro = true -> last ro 0 <= length vals ->
  let v' := orient_polygons vals po ro in
  length v' = length vals /\
  (forall j, j < length ro - 1 ->
     ring_at v' ro j = if flips vals po ro j then rev_ring (ring_at vals ro j)
                       else ring_at vals ro j) /\
  firstn (getn ro 0) v' = firstn (getn ro 0) vals /\
  skipn (last ro 0) v' = skipn (last ro 0) vals.
Proof.
  intros vals po ro Hm Hl. cbv zeta. rewrite orient_unfold.
  destruct (flip_all_spec ro (filter (flips vals po ro) (seq 0 (length ro - 1))) vals Hm Hl)
    as (L & R & F & S).
  - apply NoDup_filter, seq_NoDup.
  - intros i Hi. apply filter_In in Hi. destruct Hi as [Hi _]. apply in_seq in Hi. lia.
  - split; [exact L|]. split; [|split; assumption].
    intros j Hj. rewrite R by lia. rewrite existsb_filter_seq by lia. reflexivity.
Qed.

(* areas *)
Lemma ring_areas_nth : forall vals ro j, j < length ro - 1 ->
  nth j (ring_areas vals ro) None = compute_area vals [getn ro j; getn ro (j + 1)].
Proof.
  intros vals ro j Hj. unfold ring_areas.
  rewrite (nth_map_seq num (fun i => compute_area vals (slice i (i + 2) ro))
             (length ro - 1) j None Hj).
  rewrite (slice_pair _ j ro 0) by lia.
  replace (S j) with (j + 1) by lia. reflexivity.
Qed.

Lemma ring_area_value : forall vals ro j,
  mono ro = true -> last ro 0 <= length vals -> j < length ro - 1 ->
  (length (ring_at vals ro j) < 6 -> nth j (ring_areas vals ro) None = Some 0%Z) /\
  (forall ps, ring_at vals ro j = flatz ps -> closed ps ->
     nth j (ring_areas vals ro) None = Some (shoelace2 ps)).
Proof.
  intros vals ro j Hm Hl Hj.
  pose proof (ro_step ro j Hm ltac:(lia)) as Hab.
  pose proof (ro_last ro (j + 1) Hm ltac:(lia)) as Hb.
  rewrite ring_areas_nth by exact Hj. split.
  - intros Hs. apply area_lt3_zero. unfold ring_at in Hs.
    rewrite slice_length in Hs by lia. exact Hs.
  - intros ps E Hc. apply area_is_shoelace; try assumption; lia.
Qed.

Lemma flip_test_zero : forall c, flip_test (Some 0%Z) c = false.
Proof. intros c. cbn. apply andb_false_r. Qed.

Lemma flip_test_true : forall z c, flip_test (Some z) c = true ->
  (z <> 0 /\ (c = true -> z < 0) /\ (c = false -> 0 < z))%Z.
Proof.
  intros z c H. unfold flip_test in H.
  destruct c, (0 <? z)%Z eqn:Z1, (z =? 0)%Z eqn:Z2; cbn in H; try discriminate;
    repeat split; intros; try discriminate; lia.
Qed.

Lemma flip_test_false : forall z c, flip_test (Some z) c = false ->
  ((c = true -> z <> 0 -> 0 < z) /\ (c = false -> z <= 0))%Z.
Proof.
  intros z c H. unfold flip_test in H.
  destruct c, (0 <? z)%Z eqn:Z1, (z =? 0)%Z eqn:Z2; cbn in H; try discriminate;
    split; intros; try discriminate; lia.
Qed.

(* the outcome for one ring inside the property's scope *)
Theorem orient_ring_ok : forall vals po ro j,
  mono ro = true -> last ro 0 <= length vals -> j < length ro - 1 ->
  ring_ok (ring_at vals ro j) ->
  let r' := ring_at (orient_polygons vals po ro) ro j in
  (length (ring_at vals ro j) < 6 /\ r' = ring_at vals ro j) \/
  (exists ps ps', ring_at vals ro j = flatz ps /\ closed ps /\
                  r' = flatz ps' /\ closed ps' /\ (ps' = ps \/ ps' = rev ps) /\
                  (nth j (expected_ccw po ro) false = true ->
                     (shoelace2 ps <> 0 -> 0 < shoelace2 ps')%Z /\
                     (shoelace2 ps = 0%Z -> ps' = ps)) /\
                  (nth j (expected_ccw po ro) false = false ->
                     (shoelace2 ps' <= 0)%Z /\ (shoelace2 ps = 0%Z -> ps' = ps))).
Proof.
  intros vals po ro j Hm Hl Hj Hok. cbv zeta.
  destruct (orient_rings vals po ro Hm Hl) as (_ & R & _ & _).
  rewrite (R j Hj).
  destruct (ring_area_value vals ro j Hm Hl Hj) as (A0 & A1).
  destruct Hok as [Hs|(ps & E & Hc)].
  - left. split; [exact Hs|]. unfold flips. rewrite (A0 Hs), flip_test_zero. reflexivity.
  - right. unfold flips. rewrite (A1 ps E Hc).
    destruct (flip_test (Some (shoelace2 ps)) (nth j (expected_ccw po ro) false)) eqn:FT.
    + apply flip_test_true in FT. destruct FT as (Hnz & Ht & Hf).
      exists ps, (rev ps). rewrite E, rev_ring_flatz.
      split; [reflexivity|]. split; [exact Hc|]. split; [reflexivity|].
      split; [apply closed_rev, Hc|]. split; [right; reflexivity|].
      rewrite (area_rev ps). split.
      * intros Hcc. specialize (Ht Hcc). split; intros; lia.
      * intros Hcc. specialize (Hf Hcc). split; intros; lia.
    + apply flip_test_false in FT. destruct FT as (Ht & Hf).
      exists ps, ps. rewrite E.
      split; [reflexivity|]. split; [exact Hc|]. split; [reflexivity|].
      split; [exact Hc|]. split; [left; reflexivity|]. split.
      * intros Hcc. split; [intros Hnz; apply (Ht Hcc Hnz) | reflexivity].
      * intros Hcc. split; [apply (Hf Hcc) | reflexivity].
Qed.

(* ================================================================== *)
(** * 6. idempotence                                                     *)
(* ================================================================== *)

Lemma flip_test_settled : forall z c,
  (c = true -> (0 < z \/ z = 0)%Z) -> (c = false -> (z <= 0)%Z) ->
  flip_test (Some z) c = false.
Proof.
  intros z c Ht Hf. unfold flip_test.
  destruct c, (0 <? z)%Z eqn:Z1, (z =? 0)%Z eqn:Z2; cbn; try reflexivity; exfalso.
  - specialize (Ht eq_refl). lia.
  - specialize (Hf eq_refl). lia.
Qed.

Lemma filter_nil : forall A (f : A -> bool) l,
  (forall x, In x l -> f x = false) -> filter f l = [].
Proof.
  intros A f l H. induction l as [|x t IH]; [reflexivity|].
  cbn [filter]. rewrite (H x) by (left; reflexivity). apply IH.
  intros y Hy. apply H. right. exact Hy.
Qed.

Theorem orient_idempotent : forall vals po ro,
  mono ro = true -> last ro 0 <= length vals -> rings_closed vals ro ->
  orient_polygons (orient_polygons vals po ro) po ro = orient_polygons vals po ro.
Proof.
  intros vals po ro Hm Hl Hok.
  destruct (orient_rings vals po ro Hm Hl) as (L & _ & _ & _).
  assert (Hall : forall j, j < length ro - 1 ->
            ring_ok (ring_at vals ro j) ->
            let r' := ring_at (orient_polygons vals po ro) ro j in
            (length (ring_at vals ro j) < 6 /\ r' = ring_at vals ro j) \/
            (exists ps ps', ring_at vals ro j = flatz ps /\ closed ps /\
                  r' = flatz ps' /\ closed ps' /\ (ps' = ps \/ ps' = rev ps) /\
                  (nth j (expected_ccw po ro) false = true ->
                     (shoelace2 ps <> 0 -> 0 < shoelace2 ps')%Z /\
                     (shoelace2 ps = 0%Z -> ps' = ps)) /\
                  (nth j (expected_ccw po ro) false = false ->
                     (shoelace2 ps' <= 0)%Z /\ (shoelace2 ps = 0%Z -> ps' = ps))))
    by (intros j Hj Hr; apply orient_ring_ok; assumption).
  cbv zeta in *.
  remember (orient_polygons vals po ro) as v' eqn:Ev.
  rewrite (orient_unfold v' po ro).
  rewrite filter_nil; [reflexivity|].
  intros j Hj. apply in_seq in Hj.
  assert (Hj' : j < length ro - 1) by lia.
  assert (Hl' : last ro 0 <= length v') by lia.
  destruct (ring_area_value v' ro j Hm Hl' Hj') as (A0 & A1).
  unfold flips.
  destruct (Hall j Hj' (Hok j Hj')) as
    [(Hs & E)|(ps & ps' & E & Hc & E' & Hc' & _ & Ht & Hf)].
  - rewrite A0 by (rewrite E; exact Hs). apply flip_test_zero.
  - rewrite (A1 ps' E' Hc').
    apply flip_test_settled.
    + intros Hcc. destruct (Ht Hcc) as (H1 & H2).
      destruct (Z.eq_dec (shoelace2 ps) 0) as [Hz|Hz].
      * right. rewrite (H2 Hz). exact Hz.
      * left. apply H1, Hz.
    + intros Hcc. apply (Hf Hcc).
Qed.

(* NaN rings and unclosed rings are outside the scope: idempotence fails there *)
Theorem orient_idempotent_nan_refuted :
  exists vals po ro,
    orient_polygons (orient_polygons vals po ro) po ro <> orient_polygons vals po ro.
Proof.
  exists [Some 0; Some 0; None; Some 0; Some 3; Some 4; Some 0; Some 0]%Z, [0; 1], [0; 8].
  vm_compute. discriminate.
Qed.

Theorem orient_idempotent_unclosed_refuted :
  exists ps po ro,
    orient_polygons (orient_polygons (flatz ps) po ro) po ro <> orient_polygons (flatz ps) po ro.
Proof.
  exists [(0, 0); (0, 1); (1, 0); (2, 0)]%Z, [0; 1], [0; 8].
  vm_compute. discriminate.
Qed.

(* ================================================================== *)
(** * 7. what [rev_ring] means on any ring of whole (x, y) pairs         *)
(* ================================================================== *)

Lemma evens_odds_pairs : forall r, Nat.even (length r) = true ->
  evens r = map fst (pairs r) /\ odds r = map snd (pairs r).
Proof.
  intros r. pattern r. apply pairs_ind2; clear r.
  - intros _. split; reflexivity.
  - intros x H. discriminate H.
  - intros x y t IH H. cbn [length] in H. rewrite even_SS in H.
    destruct (IH H) as (E1 & E2).
    rewrite pairs_cons2. cbn [evens odds map fst snd]. rewrite E1, E2. split; reflexivity.
Qed.

Lemma pairs_interleave : forall (l : list (num * num)),
  pairs (interleave (map fst l) (map snd l)) = l.
Proof.
  induction l as [|[x y] t IH]; [reflexivity|].
  cbn [map interleave fst snd]. rewrite pairs_cons2, IH. reflexivity.
Qed.

Theorem pairs_rev_ring : forall r, Nat.even (length r) = true ->
  pairs (rev_ring r) = rev (pairs r).
Proof.
  intros r H. unfold rev_ring.
  destruct (evens_odds_pairs r H) as (E1 & E2).
  rewrite E1, E2, <- !map_rev. apply pairs_interleave.
Qed.
