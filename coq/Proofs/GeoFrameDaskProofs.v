(* C20 — lemmas about the Dask part of Model/GeoFrame.v. *)
From Coq Require Import List Bool String Arith Lia.
From SP Require Import Model.GeoFrame Spec.GeoFrameSpec Proofs.GeoFrameProofs.
Import ListNotations.
Local Open Scope string_scope.
Local Open Scope list_scope.

(* ---------------- unique labels ---------------- *)

Lemma mem_names_has_col : forall cs n, mem n (names cs) = has_col cs n.
Proof.
  induction cs as [|[m k] t IH]; intros n; unfold has_col; simpl; [reflexivity|].
  destruct (String.eqb m n); simpl; [reflexivity|]. rewrite IH. reflexivity.
Qed.

Lemma lookup_in_nodup : forall cs n k,
  wf_cols cs = true -> In (n, k) cs -> lookup cs n = Some k.
Proof.
  unfold wf_cols. induction cs as [|[m j] t IH]; intros n k Hw Hin; simpl in *; [contradiction|].
  apply andb_true_iff in Hw. destruct Hw as [Hm Ht]. apply negb_true_iff in Hm.
  destruct Hin as [E|Hin].
  - injection E as E1 E2. subst. rewrite String.eqb_refl. reflexivity.
  - destruct (String.eqb m n) eqn:E.
    + apply eqb_eq in E. subst m. exfalso.
      assert (mem n (names t) = true).
      { apply mem_In. unfold names. apply in_map_iff. exists (n, k). auto. }
      congruence.
    + apply IH; assumption.
Qed.

Lemma fgc_from_in : forall cs acc n,
  first_geometry_col_from acc cs = Some n ->
  acc = Some n \/ exists k, In (n, k) cs /\ is_geom k = true.
Proof.
  induction cs as [|[m k] t IH]; intros acc n H; simpl in H; [left; exact H|].
  destruct (is_geom k) eqn:Hk.
  - apply IH in H. destruct H as [H|(j & Hin & Hj)].
    + destruct acc as [a|].
      * destruct (truthy a).
        -- left. exact H.
        -- injection H as H. subst m. right. exists k. simpl. auto.
      * injection H as H. subst m. right. exists k. simpl. auto.
    + right. exists j. simpl. auto.
  - apply IH in H. destruct H as [H|(j & Hin & Hj)]; [left; exact H|right; exists j; simpl; auto].
Qed.

Lemma fgc_is_geom : forall cs n,
  wf_cols cs = true -> first_geometry_col cs = Some n -> is_geom_col cs n = true.
Proof.
  intros cs n Hw H. apply fgc_from_in in H. destruct H as [H|(k & Hin & Hk)]; [discriminate|].
  unfold is_geom_col. rewrite (lookup_in_nodup _ _ _ Hw Hin). exact Hk.
Qed.

(* GeoDataFrame(<plain frame>) = the first geometry column *)
Lemma gdf_init_plain : forall cs,
  wf_cols cs = true -> any_geom cs = true ->
  exists f n, gdf_init (plain_of cs) None = Some f /\ first_geometry_col cs = Some n /\
              valid_active f n /\ f_cols f = cs.
Proof.
  intros cs Hw Ha. destruct (fgc_some cs Ha) as [n Hn].
  pose proof (fgc_is_geom cs n Hw Hn) as Hg.
  unfold gdf_init. simpl. rewrite Hn. simpl.
  unfold set_geometry_inplace. simpl. rewrite Hg.
  eexists. exists n. split; [reflexivity|]. split; [reflexivity|].
  unfold valid_active. simpl. auto.
Qed.

Lemma meta_nonempty_valid : forall f g,
  wf_frame f = true -> valid_active f g ->
  exists m, meta_nonempty f = Some m /\ valid_active m g /\ f_cols m = f_cols f.
Proof.
  intros f g Hw Hv. pose proof (valid_has_valid _ _ Hv) as Hh. destruct Hv as (Hc & Ha & Hg).
  unfold meta_nonempty. rewrite Hc.
  destruct (gdf_init_plain (f_cols f) Hw (is_geom_col_any_geom _ _ Hg)) as (r & n & E & _ & Hr & Hcs).
  rewrite E, Hh, Ha. destruct r as [rc rk ra]. simpl in Hcs. subst rc.
  destruct Hr as (Hrk & _ & _). simpl in Hrk. subst rk.
  unfold set_geometry_inplace. simpl. rewrite Hg.
  eexists. split; [reflexivity|]. unfold valid_active. simpl. auto.
Qed.

Lemma make_meta_valid : forall f g,
  valid_active f g ->
  exists m, make_meta f = Some m /\ valid_active m g /\ f_cols m = f_cols f.
Proof.
  intros f g Hv. unfold make_meta, apply_pop. simpl. eexists. split; [reflexivity|].
  destruct (keeps_rows f g Hv) as (H1 & H2). auto.
Qed.

(* ---------------- wf is kept by the operations Dask applies to the meta ---------------- *)

Lemma nodup_filter_names : forall (p : col -> bool) cs,
  nodup_names (names cs) = true -> nodup_names (names (filter p cs)) = true.
Proof.
  induction cs as [|[m k] t IH]; simpl; intros H; [reflexivity|].
  apply andb_true_iff in H. destruct H as [Hm Ht]. apply negb_true_iff in Hm.
  destruct (p (m, k)); simpl; [|apply IH; exact Ht].
  rewrite (IH Ht), andb_true_r. apply negb_true_iff.
  destruct (mem m (names (filter p t))) eqn:E; [|reflexivity].
  exfalso. apply mem_In in E. unfold names in E. apply in_map_iff in E.
  destruct E as ((m' & k') & E1 & E2). simpl in E1. subst m'. apply filter_In in E2.
  destruct E2 as (E2 & _).
  assert (mem m (names t) = true) by (apply mem_In; unfold names; apply in_map_iff; exists (m, k'); auto).
  congruence.
Qed.

Lemma mem_app : forall n a b, mem n (a ++ b) = mem n a || mem n b.
Proof.
  induction a as [|m t IH]; intros b; simpl; [reflexivity|]. rewrite IH, orb_assoc. reflexivity.
Qed.

Lemma nodup_snoc : forall l n, nodup_names l = true -> mem n l = false -> nodup_names (l ++ [n]) = true.
Proof.
  induction l as [|m t IH]; intros n H Hn; simpl; [reflexivity|].
  simpl in H, Hn. apply andb_true_iff in H. destruct H as [Hm Ht].
  apply orb_false_iff in Hn. destruct Hn as [Hmn Hn].
  rewrite (IH n Ht Hn), andb_true_r, mem_app. simpl.
  apply negb_true_iff in Hm. rewrite Hm. simpl.
  rewrite orb_false_r. apply negb_true_iff. rewrite String.eqb_sym. exact Hmn.
Qed.

Lemma names_app : forall a b, names (a ++ b) = names a ++ names b.
Proof. intros. unfold names. apply map_app. Qed.

Lemma select_cols_names : forall cs ns r, select_cols cs ns = Some r -> names r = ns.
Proof.
  induction ns as [|n t IH]; intros r; simpl.
  - intros H. injection H as H. subst r. reflexivity.
  - destruct (lookup cs n); [|discriminate]. destruct (select_cols cs t) as [r'|]; [|discriminate].
    intros H. injection H as H. subst r. simpl. rewrite (IH r' eq_refl). reflexivity.
Qed.

Lemma mem_rename : forall cs old new x,
  x <> new ->
  mem x (names (rename_cols cs old new)) = true -> mem x (names cs) = true.
Proof.
  induction cs as [|[m k] t IH]; intros old new x Hx; simpl; [auto|].
  destruct (String.eqb m old) eqn:E; simpl.
  - intros H. apply orb_true_iff in H. destruct H as [H|H].
    + apply eqb_eq in H. congruence.
    + apply orb_true_iff. right. eapply IH; eauto.
  - intros H. apply orb_true_iff in H. apply orb_true_iff. destruct H as [H|H]; [left; exact H|right].
    eapply IH; eauto.
Qed.

Lemma mem_rename_new : forall cs old new,
  mem old (names cs) = false -> mem new (names cs) = false ->
  mem new (names (rename_cols cs old new)) = false.
Proof.
  induction cs as [|[m k] t IH]; intros old new Ho Hn; simpl; [reflexivity|].
  simpl in Ho, Hn. apply orb_false_iff in Ho. destruct Ho as [Ho1 Ho2].
  apply orb_false_iff in Hn. destruct Hn as [Hn1 Hn2].
  rewrite Ho1. simpl. rewrite Hn1. simpl. apply IH; assumption.
Qed.

Lemma nodup_rename : forall cs old new,
  nodup_names (names cs) = true -> mem new (names cs) = false ->
  nodup_names (names (rename_cols cs old new)) = true.
Proof.
  induction cs as [|[m k] t IH]; intros old new H Hn; simpl; [reflexivity|].
  simpl in H, Hn. apply andb_true_iff in H. destruct H as [Hm Ht]. apply negb_true_iff in Hm.
  apply orb_false_iff in Hn. destruct Hn as [Hn1 Hn2].
  destruct (String.eqb m old) eqn:E; simpl.
  - apply eqb_eq in E. subst m. rewrite (IH old new Ht Hn2), andb_true_r. apply negb_true_iff.
    apply mem_rename_new; assumption.
  - rewrite (IH old new Ht Hn2), andb_true_r. apply negb_true_iff.
    destruct (mem m (names (rename_cols t old new))) eqn:Em; [|reflexivity].
    exfalso. apply mem_rename in Em; [congruence|]. intros E2. subst m.
    rewrite String.eqb_refl in Hn1. discriminate.
Qed.

Lemma pop_cols_wf : forall o cs cs' g,
  wf_cols cs = true -> keeps g cs o = true -> wf_keeps o = true ->
  pop_cols o cs = Some cs' -> wf_cols cs' = true.
Proof.
  unfold wf_cols. intros o cs cs' g Hw Hk Hwk H.
  destruct o; simpl in H; try (injection H as H; subst cs'; exact Hw).
  - (* OSubset *) rewrite (select_cols_names _ _ _ H). exact Hwk.
  - (* ODrop *) destruct (all_in cs ns); [|discriminate]. injection H as H. subst cs'.
    apply nodup_filter_names. exact Hw.
  - (* OAssign *) destruct (has_col cs n) eqn:E; [discriminate|]. injection H as H. subst cs'.
    rewrite names_app. apply nodup_snoc; [exact Hw|]. rewrite mem_names_has_col. exact E.
  - (* ORename *) injection H as H. subst cs'. simpl in Hk. apply andb_true_iff in Hk.
    destruct Hk as [_ Hn]. apply negb_true_iff in Hn. apply nodup_rename; [exact Hw|].
    rewrite mem_names_has_col. exact Hn.
  - (* OResetIndex *) destruct (has_col cs n) eqn:E; [discriminate|]. injection H as H. subst cs'.
    simpl. rewrite Hw, andb_true_r. apply negb_true_iff. rewrite mem_names_has_col. exact E.
  - (* OMerge *) simpl in Hk. discriminate.
Qed.

(* the operations Dask applies to meta and partitions go through the generic path *)
Definition generic_pop (o : pop) : Prop :=
  match o with
  | OSetGeometry _ _ | OGeoInit | OConstructor | OConcat _ _ | OCx | OMerge _ _ => False
  | _ => True
  end.

Lemma dop_pop_generic : forall o, generic_pop (dop_pop o).
Proof. destruct o; exact I. Qed.

Lemma generic_step : forall o f g,
  generic_pop o -> valid_active f g -> keeps g (f_cols f) o = true ->
  exists f' cs, pop_cols o (f_cols f) = Some cs /\ apply_pop o f = Some f' /\
                valid_active f' g /\ f_cols f' = cs.
Proof.
  intros o f g Ho Hv Hk. destruct (step_keeps o f g Hv Hk) as (f' & E & Hv').
  destruct (pop_cols o (f_cols f)) as [cs|] eqn:Ec.
  - exists f', cs. split; [reflexivity|]. split; [exact E|]. split; [exact Hv'|].
    rewrite (apply_generic o f cs Ho Ec) in E. injection E as E. subst f'.
    rewrite pandas_finalize_cols, from_mgr_cols. reflexivity.
  - exfalso. destruct o; try contradiction; unfold apply_pop in E; rewrite Ec in E; discriminate.
Qed.

Lemma generic_step_wf : forall o f g,
  generic_pop o -> wf_frame f = true -> valid_active f g ->
  keeps g (f_cols f) o = true -> wf_keeps o = true ->
  exists f', apply_pop o f = Some f' /\ valid_active f' g /\ wf_frame f' = true.
Proof.
  intros o f g Ho Hw Hv Hk Hwk.
  destruct (generic_step o f g Ho Hv Hk) as (f' & cs & Ec & E & Hv' & Hcs).
  exists f'. split; [exact E|]. split; [exact Hv'|]. unfold wf_frame. rewrite Hcs.
  eapply pop_cols_wf; eauto.
Qed.

(* ---------------- partitions ---------------- *)

Lemma Forall_map_part : forall (F : option frame -> option frame) g ps,
  (forall p, part_valid g p -> part_valid g (F p)) ->
  Forall (part_valid g) ps -> Forall (part_valid g) (map F ps).
Proof.
  intros F g ps HF H. induction H; simpl; constructor; auto.
Qed.

Lemma sequence_valid : forall g ps,
  Forall (part_valid g) ps ->
  exists fs, sequence ps = Some fs /\ Forall (fun f => valid_active f g) fs /\ List.length fs = List.length ps.
Proof.
  intros g ps H. induction H as [|p t (f & Ep & Hf) _ (fs & E & Hfs & Hl)]; simpl.
  - exists []. auto.
  - subst p. rewrite E. exists (f :: fs). simpl. auto.
Qed.

Lemma repeat_part_Forall : forall (P : option frame -> Prop) p n, P p -> Forall P (repeat_part p n).
Proof. induction n; simpl; intros; constructor; auto. Qed.

Lemma select_parts_valid : forall g ps sel,
  Forall (part_valid g) ps -> all_lt (List.length ps) sel = true ->
  Forall (part_valid g) (select_parts ps sel).
Proof.
  intros g ps sel Hps. induction sel as [|i t IH]; simpl; intros H; [constructor|].
  apply andb_true_iff in H. destruct H as [Hi Ht]. apply Nat.ltb_lt in Hi.
  constructor; [|apply IH; exact Ht].
  rewrite Forall_forall in Hps. apply Hps. apply nth_In. exact Hi.
Qed.

(* ---------------- single Dask steps ---------------- *)

Theorem dask_from_pandas : forall f g n,
  valid_active f g -> exists d, from_pandas f n = Some d /\ dvalid d g /\
                                f_cols (d_meta d) = f_cols f /\ List.length (d_parts d) = n.
Proof.
  intros f g n Hv. unfold from_pandas.
  destruct (make_meta_valid f g Hv) as (m & E & Hm & Hc). rewrite E.
  eexists. split; [reflexivity|]. simpl. split; [|split; [exact Hc|]].
  - split; [exact Hm|]. simpl. apply repeat_part_Forall.
    destruct (step_keeps OIlocSlice f g Hv eq_refl) as (f' & E' & Hv'). exists f'. auto.
  - clear. induction n; simpl; congruence.
Qed.

Theorem dask_compute : forall d g,
  dvalid d g -> d_parts d <> [] -> exists f, dcompute d = Some f /\ valid_active f g.
Proof.
  intros d g (_ & Hps) Hne. unfold dcompute.
  destruct (sequence_valid g _ Hps) as (fs & E & Hfs & Hl). rewrite E.
  destruct fs as [|f1 [|f2 t]].
  - destruct (d_parts d); [congruence|discriminate].
  - simpl. exists f1. split; [reflexivity|]. inversion Hfs; assumption.
  - unfold dask_methods_concat.
    destruct (concat_agree (f1 :: f2 :: t) g) as (r & Er & Hr & _); [discriminate|exact Hfs|]. eauto.
Qed.

(* set_geometry(g) on a frame that agrees on some g0: afterwards everything agrees on g *)
Theorem dask_set_geometry_agree : forall d g0 g,
  dvalid_wf d g0 ->
  is_geom_col (f_cols (d_meta d)) g = true -> Forall (part_has g) (d_parts d) ->
  exists d', apply_dop (DSetGeometry g) d = Some d' /\ dvalid_wf d' g /\
             f_cols (d_meta d') = f_cols (d_meta d).
Proof.
  intros d g0 g (Hw & Hm & Hps) Hg Hparts. pose proof Hm as (Hc & Ha & Hg0).
  unfold apply_dop. rewrite Hc.
  destruct (opt_eqb (Some g) (f_act (d_meta d))) eqn:E.
  - apply opt_eqb_eq in E. rewrite Ha in E. injection E as E. subst g0.
    exists d. split; [reflexivity|]. split; [|reflexivity]. split; [exact Hw|]. split; assumption.
  - destruct (meta_nonempty_valid _ _ Hw Hm) as (mn & Emn & Hmn & Hcmn). rewrite Emn.
    unfold apply_pop at 1. destruct Hmn as (Hmc & _ & _). rewrite Hmc, Hcmn, Hg.
    assert (Hg' : is_geom_col (f_cols mn) g = true) by (rewrite Hcmn; exact Hg).
    destruct (gdf_init_explicit mn g Hg') as (m1 & E1 & Hc1 & Hv1). rewrite E1.
    destruct (make_meta_valid m1 g Hv1) as (m2 & E2 & Hv2 & Hc2). rewrite E2.
    eexists. split; [reflexivity|]. simpl. split; [|rewrite Hc2, Hc1, Hcmn; reflexivity].
    split; [unfold wf_frame; simpl; rewrite Hc2, Hc1, Hcmn; exact Hw|]. split; [exact Hv2|]. simpl.
    clear - Hparts. induction Hparts as [|p t (f & Ep & Hfc & Hfg) _ IH]; simpl; constructor; [|exact IH].
    subst p. simpl. rewrite Hfc, Hfg.
    destruct (gdf_init_explicit f g Hfg) as (f' & E' & _ & Hv'). exists f'. auto.
Qed.

(* read_parquet_dask(geometry=g): the meta and every partition have g *)
Theorem read_parquet_dask_agree : forall cs g n,
  wf_cols cs = true -> is_geom_col cs g = true -> truthy g = true ->
  exists d, read_parquet_dask cs (Some g) n = Some d /\ dvalid_wf d g /\
            f_cols (d_meta d) = cs /\ List.length (d_parts d) = n.
Proof.
  intros cs g n Hw Hg Ht. unfold read_parquet_dask, read_parquet. rewrite Ht.
  destruct (gdf_init_plain cs Hw (is_geom_col_any_geom _ _ Hg)) as (r & first & E & _ & Hr & Hcs).
  rewrite E. simpl. destruct Hr as (Hrc & _ & _). rewrite Hrc, Hcs, Hg.
  assert (Hg' : is_geom_col (f_cols r) g = true) by (rewrite Hcs; exact Hg).
  destruct (gdf_init_explicit r g Hg') as (m & Em & Hcm & Hvm). rewrite Em.
  rewrite (valid_geometry _ _ Hvm).
  eexists. split; [reflexivity|]. simpl. split; [|split; [congruence|]].
  - split; [unfold wf_frame; simpl; rewrite Hcm, Hcs; exact Hw|]. split; [exact Hvm|]. simpl.
    apply repeat_part_Forall. exists m. auto.
  - clear. induction n; simpl; congruence.
Qed.

(* without geometry= : the first geometry column, in the meta and in every partition *)
Theorem read_parquet_dask_default : forall cs n,
  wf_cols cs = true -> any_geom cs = true ->
  exists d first, read_parquet_dask cs None n = Some d /\ first_geometry_col cs = Some first /\
                  dvalid_wf d first.
Proof.
  intros cs n Hw Ha. unfold read_parquet_dask, read_parquet.
  destruct (gdf_init_plain cs Hw Ha) as (r & first & E & Hf & Hr & Hcs). rewrite E.
  rewrite (valid_geometry _ _ Hr). eexists. exists first. split; [reflexivity|]. split; [exact Hf|].
  split; [unfold wf_frame; simpl; rewrite Hcs; exact Hw|]. split; [exact Hr|]. simpl.
  apply repeat_part_Forall. exists r. auto.
Qed.

Lemma union_cols_self : forall cs acc,
  (forall c, In c cs -> has_col acc (fst c) = true) -> union_cols acc cs = acc.
Proof.
  induction cs as [|c t IH]; intros acc H; simpl; [reflexivity|].
  rewrite (H c (or_introl eq_refl)). apply IH. intros c' Hc'. apply H. right. exact Hc'.
Qed.

Lemma union_cols_nil : forall cs acc,
  nodup_names (names acc ++ names cs) = true -> union_cols acc cs = acc ++ cs.
Proof.
  induction cs as [|[m k] t IH]; intros acc H; simpl; [rewrite app_nil_r; reflexivity|].
  assert (Hm : has_col acc m = false).
  { rewrite <- mem_names_has_col. destruct (mem m (names acc)) eqn:E; [|reflexivity]. exfalso.
    clear IH. induction acc as [|[a j] u IHu]; simpl in *; [discriminate|].
    apply andb_true_iff in H. destruct H as [Ha Hu]. apply negb_true_iff in Ha.
    apply orb_true_iff in E. destruct E as [E|E].
    - apply eqb_eq in E. subst a. rewrite mem_app in Ha. simpl in Ha. rewrite String.eqb_refl in Ha.
      rewrite orb_true_r in Ha. discriminate.
    - apply IHu; assumption. }
  rewrite Hm. rewrite IH.
  - rewrite <- app_assoc. reflexivity.
  - rewrite names_app. simpl. rewrite <- app_assoc. simpl. exact H.
Qed.

Lemma concat_cols_self : forall f, wf_frame f = true -> concat_cols [f; f] = f_cols f.
Proof.
  intros f Hw. unfold concat_cols. simpl. rewrite (union_cols_nil (f_cols f) []); [|exact Hw].
  simpl. apply union_cols_self. intros [m k] Hin. simpl. unfold has_col.
  unfold wf_frame in Hw. rewrite (lookup_in_nodup _ _ _ Hw Hin). reflexivity.
Qed.

(* dd.concat([ddf, ddf]) keeps the active column in the meta and in the partitions *)
Theorem dask_concat_self : forall d g,
  dvalid_wf d g -> exists d', apply_dop DConcatSelf d = Some d' /\ dvalid_wf d' g.
Proof.
  intros d g (Hw & Hm & Hps). unfold apply_dop.
  destruct (meta_nonempty_valid _ _ Hw Hm) as (mn & Emn & Hmn & Hcmn). rewrite Emn.
  destruct (concat_agree [mn; mn] g) as (mc & Ec & Hmc & Hcc); [discriminate|constructor; [exact Hmn|constructor; [exact Hmn|constructor]]|].
  rewrite Ec. destruct (make_meta_valid mc g Hmc) as (m1 & E1 & Hv1 & Hc1). rewrite E1.
  eexists. split; [reflexivity|]. split.
  - unfold wf_frame. simpl. rewrite Hc1, Hcc, concat_cols_self; [rewrite Hcmn; exact Hw|].
    unfold wf_frame. rewrite Hcmn. exact Hw.
  - split; [exact Hv1|]. simpl. apply Forall_app. auto.
Qed.

Lemma shuffle_valid : forall o ps nout g,
  generic_pop o -> Forall (part_valid g) ps -> ps <> [] ->
  forallb (part_keeps g o) ps = true ->
  Forall (part_valid g) (shuffle_parts o ps nout).
Proof.
  intros o ps nout g Ho Hps Hne Hk. unfold shuffle_parts. apply repeat_part_Forall.
  assert (Hmap : Forall (part_valid g) (map (omap_pop o) ps)).
  { rewrite forallb_forall in Hk. rewrite Forall_forall in Hps. apply Forall_forall.
    intros p Hp. apply in_map_iff in Hp. destruct Hp as (q & Eq & Hq). subst p.
    destruct (Hps q Hq) as (f & Ef & Hf). subst q. specialize (Hk _ Hq). simpl in Hk.
    simpl. destruct (step_keeps o f g Hf Hk) as (f' & E' & Hv'). exists f'. auto. }
  destruct (sequence_valid g _ Hmap) as (fs & E & Hfs & Hl). rewrite E.
  destruct (concat_agree fs g) as (r & Er & Hr & _); [|exact Hfs|exists r; auto].
  intros ->. simpl in Hl. rewrite map_length in Hl. destruct ps; [congruence|discriminate].
Qed.

(* every listed Dask operation keeps the invariant *)
Theorem dstep_keeps : forall o d g,
  dvalid_wf d g -> dkeeps_wf g d o = true ->
  exists d', apply_dop o d = Some d' /\ dvalid_wf d' g.
Proof.
  intros o d g Hd Hk. pose proof Hd as (Hw & Hm & Hps).
  unfold dkeeps_wf in Hk. apply andb_true_iff in Hk. destruct Hk as [Hk Hwk].
  assert (Generic : forall p, generic_pop p -> wf_keeps p = true ->
            keeps g (f_cols (d_meta d)) p = true -> forallb (part_keeps g p) (d_parts d) = true ->
            exists m1, apply_pop p (d_meta d) = Some m1 /\
                       dvalid_wf (mkD m1 (map (omap_pop p) (d_parts d))) g).
  { intros p Hp Hwp Hkm Hkp.
    destruct (generic_step_wf p _ g Hp Hw Hm Hkm Hwp) as (m1 & E1 & Hv1 & Hw1).
    exists m1. split; [exact E1|]. split; [exact Hw1|]. split; [exact Hv1|]. simpl.
    rewrite forallb_forall in Hkp. rewrite Forall_forall in Hps. apply Forall_forall.
    intros q Hq. apply in_map_iff in Hq. destruct Hq as (q0 & Eq & Hq0). subst q.
    destruct (Hps q0 Hq0) as (f & Ef & Hf). subst q0. specialize (Hkp _ Hq0). simpl in Hkp.
    simpl. destruct (step_keeps p f g Hf Hkp) as (f' & E' & Hv'). exists f'. auto. }
  assert (Shuf : forall p nout, generic_pop p -> wf_keeps p = true ->
            keeps g (f_cols (d_meta d)) p = true -> forallb (part_keeps g p) (d_parts d) = true ->
            d_parts d <> [] ->
            exists m1, apply_pop p (d_meta d) = Some m1 /\
                       dvalid_wf (mkD m1 (shuffle_parts p (d_parts d) nout)) g).
  { intros p nout Hp Hwp Hkm Hkp Hne.
    destruct (generic_step_wf p _ g Hp Hw Hm Hkm Hwp) as (m1 & E1 & Hv1 & Hw1).
    exists m1. split; [exact E1|]. split; [exact Hw1|]. split; [exact Hv1|]. simpl.
    apply shuffle_valid; assumption. }
  assert (Key : partition_sindex_key d = Some g) by (apply valid_geometry; exact Hm).
  assert (NE : negb (Nat.eqb (List.length (d_parts d)) 0) = true -> d_parts d <> []).
  { intros H E. rewrite E in H. discriminate. }
  destruct o; cbn [dkeeps] in Hk;
    try (apply andb_true_iff in Hk; destruct Hk as [Hk1 Hk2];
         match goal with
         | |- exists d', apply_dop ?o d = Some d' /\ _ =>
             destruct (Generic (dop_pop o) (dop_pop_generic o) Hwk Hk1 Hk2) as (m1 & E1 & Hd1);
             exists (mkD m1 (map (omap_pop (dop_pop o)) (d_parts d))); split; [|exact Hd1];
             unfold apply_dop; simpl dop_pop in E1 |- *; rewrite E1; reflexivity
         end).
  - (* DPartitions *)
    eexists. split; [reflexivity|]. split; [exact Hw|]. split; [exact Hm|]. simpl.
    apply select_parts_valid; assumption.
  - (* DMapIdentity *)
    unfold apply_dop. destruct (meta_nonempty_valid _ _ Hw Hm) as (mn & Emn & Hmn & Hcmn). rewrite Emn.
    destruct (make_meta_valid mn g Hmn) as (m1 & E1 & Hv1 & Hc1). rewrite E1.
    eexists. split; [reflexivity|]. split; [unfold wf_frame in *; simpl; congruence|].
    split; [exact Hv1|exact Hps].
  - (* DConcatSelf *) apply dask_concat_self. exact Hd.
  - (* DSortValues *)
    apply andb_true_iff in Hk. destruct Hk as [Hk Hne]. apply andb_true_iff in Hk. destruct Hk as [Hk1 Hk2].
    pose proof (NE Hne) as Hne'.
    destruct (Shuf OSortValues nout I eq_refl Hk1 Hk2 Hne') as (m1 & E1 & Hd1).
    unfold apply_dop. simpl dop_pop. rewrite E1. eauto.
  - (* DSetIndex *)
    apply andb_true_iff in Hk. destruct Hk as [Hk Hne]. apply andb_true_iff in Hk. destruct Hk as [Hk1 Hk2].
    pose proof (NE Hne) as Hne'.
    destruct (Shuf (ODrop [n]) nout I eq_refl Hk1 Hk2 Hne') as (m1 & E1 & Hd1).
    unfold apply_dop. simpl dop_pop. rewrite E1. eauto.
  - (* DRepartition *)
    apply andb_true_iff in Hk. destruct Hk as [Hk Hne]. apply andb_true_iff in Hk. destruct Hk as [Hk1 Hk2].
    pose proof (NE Hne) as Hne'.
    destruct (Shuf OCopyShallow nout I eq_refl Hk1 Hk2 Hne') as (m1 & E1 & Hd1).
    unfold apply_dop. simpl dop_pop. rewrite E1.
    (* the meta of a repartition is the meta itself passed through copy: same state *)
    eauto.
  - (* DPackPartitions *)
    pose proof (NE Hk) as Hne'.
    unfold apply_dop. rewrite Key. eexists. split; [reflexivity|].
    split; [exact Hw|]. split; [exact Hm|]. simpl.
    apply shuffle_valid; [exact I|exact Hps|exact Hne'|].
    apply forallb_forall. intros p Hp. rewrite Forall_forall in Hps.
    destruct (Hps p Hp) as (f & Ef & _). subst p. reflexivity.
  - (* DCx *)
    unfold apply_dop. rewrite Key. destruct sel as [|i t].
    + destruct (dask_from_pandas (d_meta d) g 1 Hm) as (d1 & E1 & Hd1 & Hc1 & _). rewrite E1.
      exists d1. split; [reflexivity|]. split; [|exact Hd1]. unfold wf_frame in *. congruence.
    + eexists. split; [reflexivity|]. split; [exact Hw|]. split; [exact Hm|]. cbn [d_parts].
      apply Forall_map_part.
      * intros p (f & Ef & Hf). subst p. simpl.
        destruct (step_keeps OCx f g Hf eq_refl) as (f' & E' & Hv'). exists f'. auto.
      * apply select_parts_valid; assumption.
  - (* DCxPartitions *)
    unfold apply_dop. rewrite Key. destruct sel as [|i t].
    + destruct (dask_from_pandas (d_meta d) g 1 Hm) as (d1 & E1 & Hd1 & Hc1 & _). rewrite E1.
      exists d1. split; [reflexivity|]. split; [|exact Hd1]. unfold wf_frame in *. congruence.
    + eexists. split; [reflexivity|]. split; [exact Hw|]. split; [exact Hm|]. cbn [d_parts].
      apply select_parts_valid; assumption.
  - (* DBuildSindex *)
    unfold apply_dop. destruct Hm as (Hc & Ha & Hg). rewrite Hc.
    eexists. split; [reflexivity|]. split; [exact Hw|]. split; [unfold valid_active; auto|]. simpl.
    apply Forall_map_part; [|exact Hps].
    intros p (f & Ef & Hf). subst p. unfold build_sindex_reads. rewrite (valid_geometry _ _ Hf).
    exists f. auto.
  - (* DSetGeometry *)
    apply eqb_eq in Hk. subst g0. unfold apply_dop. destruct Hm as (Hc & Ha & Hg). rewrite Hc, Ha.
    simpl. rewrite String.eqb_refl. exists d. split; [reflexivity|exact Hd].
Qed.

Theorem dask_preserved : forall ops d g,
  dvalid_wf d g -> dops_keep_wf g d ops = true ->
  exists d', exec_dops d ops = Some d' /\ dvalid_wf d' g.
Proof.
  induction ops as [|o t IH]; intros d g Hd Hk; simpl; [eauto|].
  simpl in Hk. apply andb_true_iff in Hk. destruct Hk as [Hk Ht].
  destruct (dstep_keeps o d g Hd Hk) as (d1 & E & Hd1). rewrite E in *. apply IH; assumption.
Qed.

(* ---------------- which column Dask's spatial operations read ---------------- *)

Lemma parts_cx_reads : forall g ps, Forall (part_valid g) ps ->
  map (fun p => match p with Some f => cx_reads f | None => None end) ps = map (fun _ => Some g) ps.
Proof.
  intros g ps H. induction H as [|p t (f & Ef & Hf) _ IH]; simpl; [reflexivity|].
  subst p. unfold cx_reads at 1. rewrite (valid_geometry _ _ Hf). f_equal. exact IH.
Qed.

Theorem dask_uses_active : forall d g, dvalid d g ->
  partition_sindex_key d = Some g /\ pack_key_reads d = Some g /\ dsjoin_reads d = Some g /\
  dcx_reads d = (Some g, map (fun _ => Some g) (d_parts d)).
Proof.
  intros d g (Hm & Hps). pose proof (valid_geometry _ _ Hm) as Hgm.
  unfold pack_key_reads, dsjoin_reads, dcx_reads, partition_sindex_key.
  rewrite Hgm, (parts_cx_reads g _ Hps). auto.
Qed.
