(* The winding number of convex rings and of rings separated from the point by
   a line (Spec/ConvexSpec.v), without the Jordan curve theorem:

   wn_convex_inside : a convex ring (either orientation) has winding number
                      +-1 at every point strictly on the inner side of all its
                      edge lines -- every "ray through a vertex" and "ray
                      along a horizontal edge" configuration included;
   wn_ring_ear, wn_fan : a ring is the sum of its fan triangles (the two
                      directed copies of a diagonal cancel for EVERY point,
                      also for points on the diagonal: wn_edge_antisym);
   wn_separated     : ANY closed ring has winding number 0 at a point that a
                      line separates from all its vertices (outside the convex
                      hull); generalises wn_outside_bbox.

   Proof of wn_convex_inside.  For P strictly left of every edge only upward
   crossings count, each +1 (wn_edge_left), so wn = U = number of edges going
   from strictly below P's height to at-or-above it.  (i) U <= 1 by convexity:
   removing a vertex changes U only when its height bit differs from both
   neighbours', and then, four points in convex position being unable to
   alternate around a horizontal line (four_point), all other bits agree
   (U_convex).  (ii) U >= 1: the vertices are not all on one side of P's
   height, because seen from P the directions of the vertices of a ring that
   turns left all the way would increase strictly in a half-turn and come back
   to the start (no_closed_chain). *)
From Coq Require Import ZArith List Bool Arith Reals Lra Lia.
From SP Require Import Spec.PointShapeSpec Spec.Winding Spec.ConvexSpec
                       Proofs.WindingRefine Proofs.WindingLaws Proofs.ConvexArith.
Import ListNotations.

(* ---- counting upward / downward crossings of the height y ---- *)

Definition bit (y : R) (V : rpt) : Z := above y (snd V).
Definition up (y : R) (A B : rpt) : Z := ((1 - bit y A) * bit y B)%Z.
Definition down (y : R) (A B : rpt) : Z := (bit y A * (1 - bit y B))%Z.
Definition U (y : R) (ring : list rpt) : Z :=
  zsum (map (fun e => up y (fst e) (snd e)) (consec ring)).
Definition D (y : R) (ring : list rpt) : Z :=
  zsum (map (fun e => down y (fst e) (snd e)) (consec ring)).

Lemma bit_01 : forall y V, bit y V = 0%Z \/ bit y V = 1%Z.
Proof. intros. apply above_01. Qed.

Lemma U_cons2 : forall y a b t, U y (a :: b :: t) = (up y a b + U y (b :: t))%Z.
Proof. reflexivity. Qed.

Lemma D_cons2 : forall y a b t, D y (a :: b :: t) = (down y a b + D y (b :: t))%Z.
Proof. reflexivity. Qed.

(* around a closed ring there are as many downward as upward crossings *)
Lemma DU_path : forall y l a z,
  (D y (a :: l ++ [z]) - U y (a :: l ++ [z]) = bit y a - bit y z)%Z.
Proof.
  intros y. induction l as [|b l IH]; intros a z.
  - unfold D, U, down, up; cbn [app consec map zsum fold_right fst snd]. lia.
  - change ((b :: l) ++ [z]) with (b :: l ++ [z]). rewrite D_cons2, U_cons2.
    specialize (IH b z). unfold down, up in *. lia.
Qed.

Definition same_bit (y : R) (v0 V : rpt) : bool := (bit y V =? bit y v0)%Z.

Section Unimodal.
  Variable y : R.
  Variable T : rpt -> rpt -> rpt -> Prop.
  Hypothesis T4 : forall a b c d, T a b c -> T b c d -> T a c d -> T a b d -> no_alt y a b c d.

  Lemma ordered_triples_drop2 : forall a b l,
    ordered_triples T (a :: b :: l) -> ordered_triples T (a :: l).
  Proof. intros a b l [[_ H1] [_ H2]]. split; assumption. Qed.

  (* the number of upward crossings of a ring in convex position: 0 if all
     vertices are on the same side of the height y, otherwise exactly 1 *)
  Lemma U_convex : forall l v0, ordered_triples T (v0 :: l) ->
    U y (v0 :: l ++ [v0]) = if forallb (same_bit y v0) l then 0%Z else 1%Z.
  Proof.
    induction l as [|v1 l IH]; intros v0 HT.
    - unfold U, up; cbn [app consec map zsum fold_right fst snd forallb].
      destruct (bit_01 y v0) as [E|E]; rewrite E; reflexivity.
    - destruct l as [|h rest].
      + unfold U, up, same_bit; cbn [app consec map zsum fold_right fst snd forallb].
        destruct (bit_01 y v0) as [E0|E0], (bit_01 y v1) as [E1|E1]; rewrite E0, E1; reflexivity.
      + specialize (IH v0 (ordered_triples_drop2 _ _ _ HT)).
        change ((v1 :: h :: rest) ++ [v0]) with (v1 :: h :: rest ++ [v0]).
        change ((h :: rest) ++ [v0]) with (h :: rest ++ [v0]) in IH.
        rewrite !U_cons2. rewrite U_cons2 in IH. cbn [forallb] in *.
        destruct HT as [[F01 [F0h _]] [[F1h _] _]].
        assert (Hrest : bit y h = bit y v0 -> bit y v1 <> bit y v0 ->
                        forallb (same_bit y v0) rest = true).
        { intros Eh N1. apply forallb_forall. intros w Hw. unfold same_bit. apply Z.eqb_eq.
          rewrite Forall_forall in F0h, F1h.
          pose proof (Forall_inv F01) as T01h.
          pose proof (Forall_inv_tail F01) as F01'. rewrite Forall_forall in F01'.
          pose proof (T4 v0 v1 h w T01h (F1h w Hw) (F0h w Hw) (F01' w Hw)) as NA.
          unfold no_alt in NA. fold (bit y v0) (bit y v1) (bit y h) (bit y w) in NA.
          destruct (bit_01 y v0), (bit_01 y v1), (bit_01 y w); try lia;
            exfalso; apply NA; repeat split; lia. }
        unfold same_bit in *. unfold up in *.
        destruct (bit_01 y v0) as [E0|E0], (bit_01 y v1) as [E1|E1], (bit_01 y h) as [Eh|Eh];
          rewrite ?E0, ?E1, ?Eh in *; cbn [Z.eqb Pos.eqb andb] in *;
          try (rewrite Hrest in IH by (reflexivity || discriminate));
          destruct (forallb _ rest); lia.
  Qed.
End Unimodal.

(* ---- a ring that turns left all the way round P is not on one side of P's height ---- *)

Section Chain.
  Variable f : rpt -> rpt.
  Let nonneg (V : rpt) : Prop := (0 <= snd (f V))%R.
  Let turns (e : rpt * rpt) : Prop := (0 < cross (f (fst e)) (f (snd e)))%R.

  Lemma chain : forall l a z, nonneg z -> Forall nonneg (a :: l) ->
    Forall turns (consec (a :: l ++ [z])) -> lt_dir (f z) (f a) -> False.
  Proof.
    induction l as [|b l IH]; intros a z Hz Hn Ht Hlt.
    - cbn in Ht. apply Forall_inv in Ht. unfold turns in Ht; cbn [fst snd] in Ht.
      apply (lt_dir_irrefl (f z)).
      apply (lt_dir_step (f z) (f a) (f z)); try assumption. exact (Forall_inv Hn).
    - change (consec (a :: (b :: l) ++ [z])) with ((a, b) :: consec (b :: l ++ [z])) in Ht.
      pose proof (Forall_inv Ht) as Hab. unfold turns in Hab; cbn [fst snd] in Hab.
      apply (IH b z Hz (Forall_inv_tail Hn) (Forall_inv_tail Ht)).
      apply (lt_dir_step (f z) (f a) (f b)); try assumption.
      + exact (Forall_inv Hn).
      + exact (Forall_inv (Forall_inv_tail Hn)).
  Qed.

  Lemma no_closed_chain : forall l v0, Forall nonneg (v0 :: l) ->
    Forall turns (consec (v0 :: l ++ [v0])) -> False.
  Proof.
    intros [|b l] v0 Hn Ht.
    - cbn in Ht. apply Forall_inv in Ht. unfold turns in Ht; cbn [fst snd] in Ht.
      apply (lt_dir_irrefl (f v0)). now left.
    - change (consec (v0 :: (b :: l) ++ [v0])) with ((v0, b) :: consec (b :: l ++ [v0])) in Ht.
      apply (chain l b v0 (Forall_inv Hn) (Forall_inv_tail Hn) (Forall_inv_tail Ht)).
      left. exact (Forall_inv Ht).
  Qed.
End Chain.

Definition fvec (sx sy : R) (P V : rpt) : rpt :=
  ((sx * (fst V - fst P))%R, (sy * (snd V - snd P))%R).

Lemma cross_fvec : forall sx sy P A B,
  cross (fvec sx sy P A) (fvec sx sy P B) = (sx * sy * orient A B P)%R.
Proof. intros sx sy [x y] [a0 b0] [a1 b1]. unfold cross, fvec, orient; simpl. ring. Qed.

Lemma closed_not_one_side : forall sx sy l v0 P,
  Forall (fun V => 0 <= sy * (snd V - snd P))%R (v0 :: l) ->
  Forall (fun e => 0 < sx * sy * orient (fst e) (snd e) P)%R (consec (v0 :: l ++ [v0])) -> False.
Proof.
  intros sx sy l v0 P Hn Ht.
  apply (no_closed_chain (fvec sx sy P) l v0).
  - exact Hn.
  - eapply Forall_impl; [|exact Ht]. intros [A B] H. cbn [fst snd] in *. now rewrite cross_fvec.
Qed.

Lemma all_same_bit : forall y v0 l k, bit y v0 = k -> forallb (same_bit y v0) l = true ->
  Forall (fun V => bit y V = k) (v0 :: l).
Proof.
  intros y v0 l k E H. constructor; [assumption|]. rewrite forallb_forall in H.
  apply Forall_forall. intros V HV. specialize (H V HV). unfold same_bit in H.
  apply Z.eqb_eq in H. congruence.
Qed.

Lemma turned_not_all_same : forall ccw l v0 P,
  Forall (fun e => turn ccw (fst e) (snd e) P) (consec (v0 :: l ++ [v0])) ->
  forallb (same_bit (snd P) v0) l = false.
Proof.
  intros ccw l v0 P Ht. destruct (forallb (same_bit (snd P) v0) l) eqn:E; [exfalso|reflexivity].
  destruct (bit_01 (snd P) v0) as [E0|E0]; pose proof (all_same_bit _ _ _ _ E0 E) as Hall.
  - (* all strictly below P's height *)
    assert (Hn : Forall (fun V => 0 <= (-1) * (snd V - snd P))%R (v0 :: l)).
    { eapply Forall_impl; [|exact Hall]. intros V HV. apply above_0_inv in HV. lra. }
    destruct ccw; cbn [turn] in Ht.
    + apply (closed_not_one_side (-1) (-1) l v0 P Hn).
      eapply Forall_impl; [|exact Ht]. intros e He. cbn beta in *. lra.
    + apply (closed_not_one_side 1 (-1) l v0 P Hn).
      eapply Forall_impl; [|exact Ht]. intros e He. cbn beta in *. lra.
  - (* all at or above P's height *)
    assert (Hn : Forall (fun V => 0 <= 1 * (snd V - snd P))%R (v0 :: l)).
    { eapply Forall_impl; [|exact Hall]. intros V HV. apply above_1_inv in HV. lra. }
    destruct ccw; cbn [turn] in Ht.
    + apply (closed_not_one_side 1 1 l v0 P Hn).
      eapply Forall_impl; [|exact Ht]. intros e He. cbn beta in *. lra.
    + apply (closed_not_one_side (-1) 1 l v0 P Hn).
      eapply Forall_impl; [|exact Ht]. intros e He. cbn beta in *. lra.
Qed.

(* ---- strictly inside a convex ring ---- *)

Lemma wn_ring_left_U : forall ring P,
  Forall (fun e => 0 < orient (fst e) (snd e) P)%R (consec ring) ->
  wn_ring P ring = U (snd P) ring.
Proof.
  intros ring P H. rewrite Forall_forall in H. unfold wn_ring, U. f_equal.
  apply map_ext_in. intros [A B] Hin. cbn [fst snd]. apply wn_edge_left. exact (H _ Hin).
Qed.

Lemma wn_ring_right_D : forall ring P,
  Forall (fun e => orient (fst e) (snd e) P < 0)%R (consec ring) ->
  wn_ring P ring = (- D (snd P) ring)%Z.
Proof.
  intros ring P H. rewrite Forall_forall in H. unfold wn_ring, D.
  rewrite <- zsum_map_opp. f_equal.
  apply map_ext_in. intros [A B] Hin. cbn [fst snd]. apply wn_edge_right. exact (H _ Hin).
Qed.

Theorem wn_convex_inside : forall ccw vs P,
  convex_ring ccw vs -> strictly_inside_convex ccw vs P ->
  wn_ring P (close_ring vs) = if ccw then 1%Z else (-1)%Z.
Proof.
  intros ccw vs P [Hlen HT] Hin. unfold strictly_inside_convex in Hin.
  destruct vs as [|v0 l]; [cbn in Hlen; lia|].
  change (close_ring (v0 :: l)) with (v0 :: l ++ [v0]) in *.
  pose proof (turned_not_all_same ccw l v0 P Hin) as Hns.
  pose proof (U_convex (snd P) (turn ccw) (fun a b c d => four_point ccw a b c d (snd P)) l v0 HT)
    as HU.
  rewrite Hns in HU.
  destruct ccw; cbn [turn] in Hin.
  - rewrite wn_ring_left_U by exact Hin. exact HU.
  - rewrite wn_ring_right_D by exact Hin.
    pose proof (DU_path (snd P) l v0 v0). lia.
Qed.

(* ---- ears and fans: internal diagonals cancel exactly ---- *)

Lemma wn_ring_cons2 : forall P a b t,
  wn_ring P (a :: b :: t) = (wn_edge P a b + wn_ring P (b :: t))%Z.
Proof. reflexivity. Qed.

(* cutting the ear a b c off a ring (any ring, any point) *)
Lemma wn_ring_ear : forall P a b c t,
  wn_ring P (a :: b :: c :: t) = (wn_ring P [a; b; c; a] + wn_ring P (a :: c :: t))%Z.
Proof.
  intros. rewrite !wn_ring_cons2. unfold wn_ring at 2. cbn [consec map zsum fold_right].
  pose proof (wn_edge_antisym P a c). lia.
Qed.

(* wn_additive for the fan of a ring from its first vertex: the ring
   a v1 ... vk a has the winding number of the sum of the triangles
   a vi vi+1 a -- for every point, also one on a diagonal *)
Theorem wn_fan : forall P a l b,
  wn_ring P (a :: b :: l ++ [a]) =
  zsum (map (fun e => wn_ring P [a; fst e; snd e; a]) (consec (b :: l))).
Proof.
  intros P a. induction l as [|c l IH]; intros b.
  - cbn [app consec map zsum fold_right]. unfold wn_ring. cbn [consec map zsum fold_right fst snd].
    pose proof (wn_edge_antisym P a b). lia.
  - change (a :: b :: (c :: l) ++ [a]) with (a :: b :: c :: l ++ [a]).
    rewrite wn_ring_ear, IH. reflexivity.
Qed.

(* ---- a triangle separated from P by a line ---- *)

Lemma wn_edge_both_above : forall P A B, (snd P <= snd A)%R -> (snd P <= snd B)%R ->
  wn_edge P A B = 0%Z.
Proof. intros. apply wn_edge_same_side. now rewrite !above_1. Qed.

Lemma wn_edge_both_below : forall P A B, (snd A < snd P)%R -> (snd B < snd P)%R ->
  wn_edge P A B = 0%Z.
Proof. intros. apply wn_edge_same_side. now rewrite !above_0. Qed.

Open Scope R_scope.

Lemma wedge_low : forall p q r O M N P,
  0 <= p * fst O + q * snd O + r -> 0 <= p * fst M + q * snd M + r ->
  0 <= p * fst N + q * snd N + r -> p * fst P + q * snd P + r < 0 ->
  snd O < snd P -> snd P <= snd M -> snd P <= snd N ->
  0 <= orient O M P -> 0 <= orient O N P.
Proof.
  intros p q r [ao bo] [am bm] [an bn] [x y]. cbn [fst snd].
  intros GO GM GN GP HO HM HN H1.
  destruct (Rle_lt_dec 0 (orient (ao, bo) (an, bn) (x, y))) as [H2|H2]; [assumption|exfalso].
  rewrite orient_vec in H1, H2. cbn [fst snd] in *.
  apply (wedge p q (p * x + q * y + r) (ao - x, bo - y) (am - x, bm - y) (an - x, bn - y));
    unfold cross; cbn [fst snd]; try lra.
Qed.

Lemma wedge_high : forall p q r O M N P,
  0 <= p * fst O + q * snd O + r -> 0 <= p * fst M + q * snd M + r ->
  0 <= p * fst N + q * snd N + r -> p * fst P + q * snd P + r < 0 ->
  snd P <= snd O -> snd M < snd P -> snd N < snd P ->
  orient O M P <= 0 -> orient O N P <= 0.
Proof.
  intros p q r [ao bo] [am bm] [an bn] [x y]. cbn [fst snd].
  intros GO GM GN GP HO HM HN H1.
  destruct (Rle_lt_dec (orient (ao, bo) (an, bn) (x, y)) 0) as [H2|H2]; [assumption|exfalso].
  rewrite orient_vec in H1, H2. cbn [fst snd] in *.
  apply (wedge (- p) (- q) (p * x + q * y + r) (x - ao, y - bo) (x - an, y - bn) (x - am, y - bm));
    unfold cross; cbn [fst snd]; try lra.
Qed.

Close Scope R_scope.

Lemma wn_tri_separated : forall P A B C, separated [A; B; C] P -> wn_ring P [A; B; C; A] = 0%Z.
Proof.
  intros P A B C (p & q & r & HF & GP).
  pose proof (Forall_inv HF) as GA. pose proof (Forall_inv (Forall_inv_tail HF)) as GB.
  pose proof (Forall_inv (Forall_inv_tail (Forall_inv_tail HF))) as GC. cbn beta in GA, GB, GC.
  unfold wn_ring. cbn [consec map zsum fold_right fst snd].
  pose proof (orient_swap A B P) as SAB. pose proof (orient_swap B C P) as SBC.
  pose proof (orient_swap C A P) as SCA.
  destruct (Rle_dec (snd P) (snd A)) as [HA|HA]; [|apply Rnot_le_lt in HA];
  (destruct (Rle_dec (snd P) (snd B)) as [HB|HB]; [|apply Rnot_le_lt in HB]);
  (destruct (Rle_dec (snd P) (snd C)) as [HC|HC]; [|apply Rnot_le_lt in HC]).
  - (* 1 1 1 *)
    rewrite !wn_edge_both_above by assumption. reflexivity.
  - (* 1 1 0 : C below; B -> C down, C -> A up *)
    rewrite (wn_edge_both_above P A B) by assumption.
    rewrite (wn_edge_down P B C) by lra. rewrite (wn_edge_up P C A) by lra.
    pose proof (wedge_low p q r C A B P GC GA GB GP HC HA HB) as W1.
    pose proof (wedge_low p q r C B A P GC GB GA GP HC HB HA) as W2.
    destruct (Rle_dec (orient B C P) 0) as [h1|h1], (Rle_dec 0 (orient C A P)) as [h2|h2];
      try reflexivity; exfalso; [apply h2, W2; lra | apply h1; specialize (W1 h2); lra].
  - (* 1 0 1 : B below; A -> B down, B -> C up *)
    rewrite (wn_edge_both_above P C A) by assumption.
    rewrite (wn_edge_down P A B) by lra. rewrite (wn_edge_up P B C) by lra.
    pose proof (wedge_low p q r B C A P GB GC GA GP HB HC HA) as W1.
    pose proof (wedge_low p q r B A C P GB GA GC GP HB HA HC) as W2.
    destruct (Rle_dec (orient A B P) 0) as [h1|h1], (Rle_dec 0 (orient B C P)) as [h2|h2];
      try reflexivity; exfalso; [apply h2, W2; lra | apply h1; specialize (W1 h2); lra].
  - (* 1 0 0 : A above; A -> B down, C -> A up *)
    rewrite (wn_edge_both_below P B C) by assumption.
    rewrite (wn_edge_down P A B) by lra. rewrite (wn_edge_up P C A) by lra.
    pose proof (wedge_high p q r A B C P GA GB GC GP HA HB HC) as W1.
    pose proof (wedge_high p q r A C B P GA GC GB GP HA HC HB) as W2.
    destruct (Rle_dec (orient A B P) 0) as [h1|h1], (Rle_dec 0 (orient C A P)) as [h2|h2];
      try reflexivity; exfalso; [apply h2; specialize (W1 h1); lra | apply h1, W2; lra].
  - (* 0 1 1 : A below; A -> B up, C -> A down *)
    rewrite (wn_edge_both_above P B C) by assumption.
    rewrite (wn_edge_up P A B) by lra. rewrite (wn_edge_down P C A) by lra.
    pose proof (wedge_low p q r A B C P GA GB GC GP HA HB HC) as W1.
    pose proof (wedge_low p q r A C B P GA GC GB GP HA HC HB) as W2.
    destruct (Rle_dec 0 (orient A B P)) as [h1|h1], (Rle_dec (orient C A P) 0) as [h2|h2];
      try reflexivity; exfalso; [apply h2; specialize (W1 h1); lra | apply h1, W2; lra].
  - (* 0 1 0 : B above; A -> B up, B -> C down *)
    rewrite (wn_edge_both_below P C A) by assumption.
    rewrite (wn_edge_up P A B) by lra. rewrite (wn_edge_down P B C) by lra.
    pose proof (wedge_high p q r B C A P GB GC GA GP HB HC HA) as W1.
    pose proof (wedge_high p q r B A C P GB GA GC GP HB HA HC) as W2.
    destruct (Rle_dec 0 (orient A B P)) as [h1|h1], (Rle_dec (orient B C P) 0) as [h2|h2];
      try reflexivity; exfalso; [apply h2, W2; lra | apply h1; specialize (W1 h2); lra].
  - (* 0 0 1 : C above; B -> C up, C -> A down *)
    rewrite (wn_edge_both_below P A B) by assumption.
    rewrite (wn_edge_up P B C) by lra. rewrite (wn_edge_down P C A) by lra.
    pose proof (wedge_high p q r C A B P GC GA GB GP HC HA HB) as W1.
    pose proof (wedge_high p q r C B A P GC GB GA GP HC HB HA) as W2.
    destruct (Rle_dec 0 (orient B C P)) as [h1|h1], (Rle_dec (orient C A P) 0) as [h2|h2];
      try reflexivity; exfalso; [apply h2; specialize (W2 ltac:(lra)); lra | apply h1; specialize (W1 h2); lra].
  - (* 0 0 0 *)
    rewrite !wn_edge_both_below by assumption. reflexivity.
Qed.

(* ---- any closed ring separated from P by a line ---- *)

Lemma wn_separated_closed : forall P l a, separated (a :: l) P -> wn_ring P (a :: l ++ [a]) = 0%Z.
Proof.
  intros P. induction l as [|b l IH]; intros a Hs.
  - unfold wn_ring; cbn. rewrite wn_edge_same_side by reflexivity. reflexivity.
  - destruct l as [|c l].
    + unfold wn_ring; cbn [app consec map zsum fold_right fst snd].
      pose proof (wn_edge_antisym P a b). lia.
    + change (a :: (b :: c :: l) ++ [a]) with (a :: b :: c :: l ++ [a]).
      rewrite wn_ring_ear.
      destruct Hs as (p & q & r & HF & GP).
      rewrite wn_tri_separated.
      * change (a :: c :: l ++ [a]) with (a :: (c :: l) ++ [a]). rewrite IH; [reflexivity|].
        exists p, q, r. split; [|exact GP].
        constructor; [exact (Forall_inv HF) | exact (Forall_inv_tail (Forall_inv_tail HF))].
      * exists p, q, r. split; [|exact GP].
        pose proof (Forall_inv_tail HF) as H1. pose proof (Forall_inv_tail H1) as H2.
        constructor; [exact (Forall_inv HF)|]. constructor; [exact (Forall_inv H1)|].
        constructor; [exact (Forall_inv H2)|]. constructor.
Qed.

(* every closed ring -- convex or not, simple or not -- has winding number 0 at
   a point that some line separates from all its vertices *)
Theorem wn_separated : forall P ring, closed ring -> separated ring P -> wn_ring P ring = 0%Z.
Proof.
  intros P ring Hc Hs. destruct ring as [|a l]; [reflexivity|].
  destruct l as [|b l]; [reflexivity|].
  assert (Hne : b :: l <> []) by discriminate.
  destruct (exists_last Hne) as (l' & z & E). rewrite E in *.
  assert (Ez : z = a).
  { specialize (Hc ltac:(discriminate)). cbn [hd] in Hc.
    change (a :: l' ++ [z]) with ((a :: l') ++ [z]) in Hc. rewrite last_last in Hc. now symmetry. }
  subst z. apply wn_separated_closed.
  destruct Hs as (p & q & r & HF & GP). exists p, q, r. split; [|exact GP].
  change (a :: l' ++ [a]) with ((a :: l') ++ [a]) in HF. apply Forall_app in HF. tauto.
Qed.

Theorem wn_separated_rings : forall P rings,
  Forall closed rings -> Forall (fun ring => separated ring P) rings -> wn P rings = 0%Z.
Proof.
  intros P rings Hc Hs. unfold wn. apply zsum_zero. intros ring Hin.
  rewrite Forall_forall in Hc, Hs. apply wn_separated; auto.
Qed.
