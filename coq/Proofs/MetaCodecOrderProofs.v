(* Model/MetaCodec.v never computes with a bounds value: it copies values and compares
   them.  Hence every function of the model commutes with a strictly increasing
   renaming f : Z -> Z of the numbers (NaN = None stays None).  This is what lets the
   correspondence run hand binary64 values to the model exactly: a case whose numbers are
   dyadic rationals is multiplied by one power of two (f = multiplication by 2^k on the
   rationals, the integers seen here being the images), or, when that would need integers
   of thousands of bits, every number is replaced by its rank among the numbers of the
   case (harness/c12_util.py: transport). *)
From Coq Require Import ZArith NArith List Bool String Lia.
From SP Require Import Model.Num Model.Arrow Model.Bounds Model.NatSort Model.MetaCodec.
Import ListNotations.

Definition increasing (f : Z -> Z) : Prop := forall a b : Z, (a < b)%Z <-> (f a < f b)%Z.

Definition nmap (f : Z -> Z) (v : num) : num := option_map f v.
Definition bmap (f : Z -> Z) (b : bbox) : bbox :=
  let '(x0, y0, x1, y1) := b in (nmap f x0, nmap f y0, nmap f x1, nmap f y1).
Definition qmap (f : Z -> Z) (q : qbox) : qbox :=
  let '(x0, y0, x1, y1) := q in (nmap f x0, nmap f y0, nmap f x1, nmap f y1).
Definition emap (f : Z -> Z) (e : entries) : entries := map (fun kv => (fst kv, nmap f (snd kv))) e.
Definition jmap (f : Z -> Z) (j : bounds_json) : bounds_json :=
  {| jx0 := emap f (jx0 j); jy0 := emap f (jy0 j); jx1 := emap f (jx1 j); jy1 := emap f (jy1 j) |}.
Definition cbmap (f : Z -> Z) (m : colbounds) : colbounds :=
  map (fun cr => (fst cr, map (bmap f) (snd cr))) m.

Section Mono.
Variable f : Z -> Z.
Hypothesis Hf : increasing f.

Lemma f_le : forall a b, (a <= b)%Z <-> (f a <= f b)%Z.
Proof.
  intros a b. pose proof (Hf b a) as H. split; intro; lia.
Qed.

Lemma gtb_mono : forall a b, num_gtb (nmap f a) (nmap f b) = num_gtb a b.
Proof.
  intros [a|] [b|]; simpl; try reflexivity.
  pose proof (Hf b a) as H.
  destruct (Z.gtb_spec (f a) (f b)), (Z.gtb_spec a b); try reflexivity; lia.
Qed.

Lemma geb_mono : forall a b, num_geb (nmap f a) (nmap f b) = num_geb a b.
Proof.
  intros [a|] [b|]; simpl; try reflexivity.
  pose proof (f_le b a) as H.
  destruct (Z.geb_spec (f a) (f b)), (Z.geb_spec a b); try reflexivity; lia.
Qed.

Lemma leb_mono : forall a b, num_leb (nmap f a) (nmap f b) = num_leb a b.
Proof.
  intros [a|] [b|]; simpl; try reflexivity.
  pose proof (f_le a b) as H.
  destruct (Z.leb_spec (f a) (f b)), (Z.leb_spec a b); try reflexivity; lia.
Qed.

Lemma norm_box_mono : forall q, norm_box (qmap f q) = qmap f (norm_box q).
Proof.
  intros [[[x0 y0] x1] y1]. unfold norm_box, qmap.
  rewrite !gtb_mono.
  destruct (num_gtb x0 x1), (num_gtb y0 y1); reflexivity.
Qed.

(* the bounds= test gives the same answer on the renamed numbers *)
Lemma keep_mono : forall q b, keep (qmap f q) (bmap f b) = keep q b.
Proof.
  intros q b. unfold keep. rewrite norm_box_mono.
  destruct (norm_box q) as [[[qx0 qy0] qx1] qy1].
  destruct b as [[[x0 y0] x1] y1]. simpl.
  rewrite !geb_mono, !leb_mono. reflexivity.
Qed.

Lemma select_map : forall {A B} (g : A -> B) inds l, select inds (map g l) = map g (select inds l).
Proof.
  intros A B g inds. induction inds as [|i it IH]; intros [|x t]; simpl; try reflexivity.
  - destruct i; reflexivity.
  - destruct i; simpl; rewrite IH; reflexivity.
Qed.

Lemma cb_get_map : forall c m, cb_get c (cbmap f m) = option_map (map (bmap f)) (cb_get c m).
Proof.
  intros c m. induction m as [|[c' v] t IH]; simpl; [reflexivity|].
  destruct (String.eqb c c'); [reflexivity|exact IH].
Qed.

(* the pruning step: same partitions kept, the reported bounds are the renamed ones *)
Lemma prune_mono : forall {P} q active pb (pieces : list P),
  prune (option_map (qmap f) q) active (cbmap f pb) pieces
  = option_map (fun r => (cbmap f (fst r), snd r)) (prune q active pb pieces).
Proof.
  intros P q active pb pieces. unfold prune.
  destruct q as [q|]; simpl.
  2:{ reflexivity. }
  rewrite cb_get_map. destruct (cb_get active pb) as [rows|]; simpl.
  2:{ reflexivity. }
  rewrite map_length.
  destruct (negb (Nat.eqb (List.length rows) (List.length pieces))); [reflexivity|].
  assert (Hall : forallb (fun '(_, r) => Nat.eqb (List.length r) (List.length rows)) (cbmap f pb)
                 = forallb (fun '(_, r) => Nat.eqb (List.length r) (List.length rows)) pb).
  { unfold cbmap. induction pb as [|[c r] t IH]; simpl; [reflexivity|].
    rewrite map_length, IH. reflexivity. }
  rewrite Hall.
  destruct (negb (forallb (fun '(_, r) => Nat.eqb (List.length r) (List.length rows)) pb)); [reflexivity|].
  simpl. f_equal. f_equal.
  assert (Hinds : map (keep (qmap f q)) (map (bmap f) rows) = map (keep q) rows).
  { rewrite map_map. apply map_ext. intro b. apply keep_mono. }
  rewrite Hinds.
  - unfold cbmap. rewrite !map_map. apply map_ext. intros [c r]. simpl.
    rewrite select_map. reflexivity.
  - assert (Hinds : map (keep (qmap f q)) (map (bmap f) rows) = map (keep q) rows).
    { rewrite map_map. apply map_ext. intro b. apply keep_mono. }
    rewrite Hinds. reflexivity.
Qed.

(* the reader: the table loaded from the renamed document is the renamed table *)
Lemma lookup_map : forall k e, lookup k (emap f e) = nmap f (lookup k e).
Proof.
  intros k e. induction e as [|[k' v] t IH]; simpl; [reflexivity|].
  destruct (String.eqb k k'); [reflexivity|exact IH].
Qed.

Lemma fst_emap : forall e, map fst (emap f e) = map fst e.
Proof.
  intro e. unfold emap. rewrite map_map. apply map_ext. intros [k v]. reflexivity.
Qed.

Lemma insert_by_snd : forall {K A B} (lt : K -> K -> bool) (g : A -> B) (x : K * A) l,
  insert_by (fun a b => lt (fst a) (fst b)) (fst x, g (snd x)) (map (fun p => (fst p, g (snd p))) l)
  = map (fun p => (fst p, g (snd p))) (insert_by (fun a b => lt (fst a) (fst b)) x l).
Proof.
  intros K A B lt g x l. induction l as [|y t IH]; simpl; [reflexivity|].
  destruct (lt (fst y) (fst x)); simpl; [rewrite IH|]; reflexivity.
Qed.

Lemma sort_by_snd : forall {K A B} (lt : K -> K -> bool) (g : A -> B) (l : list (K * A)),
  sort_by (fun a b => lt (fst a) (fst b)) (map (fun p => (fst p, g (snd p))) l)
  = map (fun p => (fst p, g (snd p))) (sort_by (fun a b => lt (fst a) (fst b)) l).
Proof.
  intros K A B lt g l. unfold sort_by. induction l as [|x t IH]; simpl; [reflexivity|].
  rewrite IH. apply insert_by_snd.
Qed.

Lemma combine_map_r : forall {K A B} (g : A -> B) (ks : list K) (l : list A),
  combine ks (map g l) = map (fun p => (fst p, g (snd p))) (combine ks l).
Proof.
  intros K A B g ks. induction ks as [|k t IH]; intros [|x l]; simpl; try reflexivity.
  rewrite IH. reflexivity.
Qed.

Lemma load_mono : forall j, load (jmap f j) = option_map (map (bmap f)) (load j).
Proof.
  intro j. unfold load. simpl. rewrite !fst_emap.
  set (index := uniq [] (map fst (jx0 j) ++ map fst (jy0 j) ++ map fst (jx1 j) ++ map fst (jy1 j))).
  destruct (parse_all index) as [ints|]; simpl; [|reflexivity].
  f_equal.
  assert (Hrows : map (fun k => (lookup k (emap f (jx0 j)), lookup k (emap f (jy0 j)),
                                 lookup k (emap f (jx1 j)), lookup k (emap f (jy1 j)))) index
                  = map (bmap f) (map (fun k => (lookup k (jx0 j), lookup k (jy0 j),
                                                  lookup k (jx1 j), lookup k (jy1 j))) index)).
  { rewrite map_map. apply map_ext. intro k. rewrite !lookup_map. reflexivity. }
  rewrite Hrows, combine_map_r.
  rewrite (sort_by_snd N.ltb (bmap f)).
  rewrite !map_map. apply map_ext. intros [k b]. reflexivity.
Qed.


(* ---- the whole reader: read_parquet_dask(paths, geometry=active, bounds=q) ---- *)
Definition dmap (m : list (string * bounds_json)) : list (string * bounds_json) :=
  map (fun cj => (fst cj, jmap f (snd cj))) m.

Lemma load_cols_mono : forall m, load_cols (dmap m) = option_map (cbmap f) (load_cols m).
Proof.
  induction m as [|[c j] t IH]; simpl; [reflexivity|].
  rewrite load_mono. fold (dmap t). rewrite IH.
  destruct (load j) as [r|]; simpl; [|reflexivity].
  destruct (load_cols t) as [a|]; reflexivity.
Qed.

Lemma cb_append_mono : forall c v m,
  cb_append c (map (bmap f) v) (cbmap f m) = cbmap f (cb_append c v m).
Proof.
  intros c v m. induction m as [|[c' v'] t IH]; simpl; [reflexivity|].
  destruct (String.eqb c c'); simpl.
  - rewrite map_app. reflexivity.
  - f_equal. exact IH.
Qed.

Lemma fold_append_mono : forall (m acc : colbounds),
  fold_left (fun acc' '(c, v) => cb_append c v acc') (cbmap f m) (cbmap f acc)
  = cbmap f (fold_left (fun acc' '(c, v) => cb_append c v acc') m acc).
Proof.
  induction m as [|[c v] t IH]; intro acc; simpl; [reflexivity|].
  rewrite cb_append_mono. apply IH.
Qed.

Lemma concat_datasets_mono : forall ds,
  concat_datasets (map (option_map (cbmap f)) ds) = cbmap f (concat_datasets ds).
Proof.
  intro ds. unfold concat_datasets.
  assert (He : existsb (fun d : option colbounds => match d with None => true | Some _ => false end)
                       (map (option_map (cbmap f)) ds)
               = existsb (fun d : option colbounds => match d with None => true | Some _ => false end) ds).
  { induction ds as [|[d|] t IH]; simpl; [reflexivity|exact IH|reflexivity]. }
  rewrite He.
  destruct (existsb _ ds); [reflexivity|]. clear He.
  change (@nil (string * list bbox)) with (cbmap f []) at 1.
  generalize (@nil (string * list bbox)) as acc.
  induction ds as [|d t IH]; intro acc; simpl; [reflexivity|].
  destruct d as [m|]; simpl.
  - rewrite fold_append_mono. apply IH.
  - apply IH.
Qed.

Definition dsmap (ds : list (option (list (string * bounds_json)))) := map (option_map dmap) ds.

Lemma load_datasets_mono : forall ds,
  load_datasets (dsmap ds) = option_map (cbmap f) (load_datasets ds).
Proof.
  intro ds. unfold load_datasets, dsmap.
  set (ld := fun d : option (list (string * bounds_json)) =>
               match d with None => Some None | Some m => option_map Some (load_cols m) end).
  assert (Hl : map ld (map (option_map dmap) ds)
               = map (option_map (option_map (cbmap f))) (map ld ds)).
  { rewrite !map_map. apply map_ext. intros [m|]; simpl; [|reflexivity].
    rewrite load_cols_mono. destruct (load_cols m); reflexivity. }
  rewrite Hl.
  set (L := map ld ds).
  assert (Hall : forallb (fun o : option (option colbounds) => match o with Some _ => true | None => false end)
                         (map (option_map (option_map (cbmap f))) L)
                 = forallb (fun o : option (option colbounds) => match o with Some _ => true | None => false end) L).
  { induction L as [|[o|] t IH]; simpl; [reflexivity|exact IH|reflexivity]. }
  rewrite Hall.
  destruct (forallb _ L); [|reflexivity]. clear Hall Hl.
  simpl. f_equal.
  rewrite <- concat_datasets_mono. f_equal.
  induction L as [|[o|] t IH]; simpl; [reflexivity| |exact IH].
  rewrite IH. reflexivity.
Qed.

Lemma expose_mono : forall {P} pb (kept : list P), expose (cbmap f pb) kept = cbmap f (expose pb kept).
Proof.
  intros P [|x t] [|k kt]; reflexivity.
Qed.

(* the kept partitions are the same, the bounds reported are the renamed ones *)
Theorem read_bounds_mono : forall ds n active q,
  read_bounds (dsmap ds) n active (option_map (qmap f) q)
  = option_map (fun r => (cbmap f (fst r), snd r)) (read_bounds ds n active q).
Proof.
  intros ds n active q. unfold read_bounds.
  rewrite load_datasets_mono.
  destruct (load_datasets ds) as [pb|]; simpl; [|reflexivity].
  rewrite prune_mono.
  destruct (prune q active pb (seq 0 n)) as [[pb' kept]|]; simpl; [|reflexivity].
  rewrite expose_mono. reflexivity.
Qed.

End Mono.

(* multiplying by a power of two is such a renaming *)
Lemma scaling_increasing : forall k : Z, (0 <= k)%Z -> increasing (fun z => z * 2 ^ k)%Z.
Proof.
  intros k Hk a b. assert (0 < 2 ^ k)%Z by (apply Z.pow_pos_nonneg; [reflexivity|exact Hk]).
  split; intro H0.
  - apply Z.mul_lt_mono_pos_r; assumption.
  - apply Z.mul_lt_mono_pos_r in H0; assumption.
Qed.
