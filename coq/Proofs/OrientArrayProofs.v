(* Lemma library for C15, part 2: PolygonArray.oriented / MultiPolygonArray.oriented
   on well-formed arrays with any buffer offsets. *)
From Coq Require Import ZArith List Bool Arith Lia ZifyBool.
From SP Require Import Model.Num Model.Arrow Model.Measures Model.Orient
  Proofs.BoundsProofs Spec.MeasuresSpec Proofs.MeasuresProofs Proofs.MeasuresMapProofs
  Proofs.MeasuresArrayProofs Spec.OrientSpec Proofs.OrientProofs.
Import ListNotations.
Local Open Scope nat_scope.

Lemma polygon_oriented_unfold : forall a o0 o1, la_offs a = [o0; o1] ->
  polygon_oriented a =
  {| la_off := 0; la_len := la_len a; la_valid := Some (map negb (la_isna a));
     la_offs := [o0s a o0; o1];
     la_vals := orient_polygons (buffer_values a) (o0s a o0) o1 |}.
Proof.
  intros a o0 o1 E. unfold polygon_oriented, buffer_offsets. rewrite E. reflexivity.
Qed.

Lemma multipolygon_oriented_unfold : forall a o0 o1 o2, la_offs a = [o0; o1; o2] ->
  multipolygon_oriented a =
  {| la_off := 0; la_len := la_len a; la_valid := Some (map negb (la_isna a));
     la_offs := [o0s a o0; o1; o2];
     la_vals := orient_polygons (buffer_values a) o1 o2 |}.
Proof.
  intros a o0 o1 o2 E. unfold multipolygon_oriented, buffer_offsets. rewrite E. reflexivity.
Qed.

(* a freshly wrapped array: offset 0, first offsets level of length len + 1 *)
Lemma buffer_offsets_fresh : forall n valid o rest vals,
  length o = n + 1 ->
  buffer_offsets {| la_off := 0; la_len := n; la_valid := valid;
                    la_offs := o :: rest; la_vals := vals |} = o :: rest.
Proof.
  intros n valid o rest vals H. unfold buffer_offsets. cbn [la_offs la_off la_len].
  rewrite slice_all by lia. reflexivity.
Qed.

Lemma la_isna_fresh_rec : forall a offs vals,
  la_isna {| la_off := 0; la_len := la_len a; la_valid := Some (map negb (la_isna a));
             la_offs := offs; la_vals := vals |} = la_isna a.
Proof. intros. apply la_isna_fresh; reflexivity. Qed.

Lemma la_isna_length : forall a, length (la_isna a) = la_len a.
Proof. intros a. unfold la_isna. rewrite map_length, seq_length. reflexivity. Qed.

(* ---- structure: parts / rings / missing preserved, any buffer offsets ---- *)

Theorem polygon_oriented_structure : forall a o0 o1,
  la_offs a = [o0; o1] -> wf_listarr a = true ->
  let b := polygon_oriented a in
  la_len b = la_len a /\ la_isna b = la_isna a /\
  buffer_offsets b = buffer_offsets a /\
  length (buffer_values b) = length (buffer_values a) /\
  wf_listarr b = true.
Proof.
  intros a o0 o1 E Hwf.
  destruct (wf2 a o0 o1 E Hwf) as (Hlen & Hm0 & Hl0 & Hm1 & Hl1).
  destruct (o0s_facts a o0 Hlen Hm0) as (HL & Hms & Hstep & Hle & Hin).
  cbv zeta. rewrite (polygon_oriented_unfold a o0 o1 E).
  destruct (orient_rings (buffer_values a) (o0s a o0) o1 Hm1 Hl1) as (L & _).
  split; [reflexivity|]. split; [apply la_isna_fresh_rec|].
  split; [|split].
  - rewrite buffer_offsets_fresh by exact HL. unfold buffer_offsets. rewrite E. reflexivity.
  - exact L.
  - unfold wf_listarr. cbn [la_offs la_off la_len la_vals la_valid wf_levels].
    rewrite L. unfold buffer_values.
    rewrite map_length, la_isna_length.
    assert (H1 : Nat.ltb (la_len a) (length (o0s a o0)) = true) by (apply Nat.ltb_lt; lia).
    assert (H2 : Nat.ltb (last (o0s a o0) 0) (length o1) = true).
    { apply Nat.ltb_lt. rewrite last_nth_pred, HL.
      replace (la_len a + 1 - 1) with (la_len a) by lia.
      pose proof (Hle (la_len a) (le_n _)) as H. unfold getn in H. lia. }
    assert (H3 : Nat.leb (last o1 0) (length (la_vals a)) = true) by (apply Nat.leb_le; exact Hl1).
    assert (H4 : Nat.leb (la_len a) (la_len a) = true) by (apply Nat.leb_le; lia).
    cbn [Nat.add]. rewrite H1, Hms, H2, Hm1, H3, H4. reflexivity.
Qed.

Theorem multipolygon_oriented_structure : forall a o0 o1 o2,
  la_offs a = [o0; o1; o2] -> wf_listarr a = true ->
  let b := multipolygon_oriented a in
  la_len b = la_len a /\ la_isna b = la_isna a /\
  buffer_offsets b = buffer_offsets a /\
  length (buffer_values b) = length (buffer_values a) /\
  wf_listarr b = true.
Proof.
  intros a o0 o1 o2 E Hwf.
  destruct (wf3 a o0 o1 o2 E Hwf) as (Hlen & Hm0 & Hl0 & Hm1 & Hl1 & Hm2 & Hl2).
  destruct (o0s_facts a o0 Hlen Hm0) as (HL & Hms & Hstep & Hle & Hin).
  cbv zeta. rewrite (multipolygon_oriented_unfold a o0 o1 o2 E).
  destruct (orient_rings (buffer_values a) o1 o2 Hm2 Hl2) as (L & _).
  split; [reflexivity|]. split; [apply la_isna_fresh_rec|].
  split; [|split].
  - rewrite buffer_offsets_fresh by exact HL. unfold buffer_offsets. rewrite E. reflexivity.
  - exact L.
  - unfold wf_listarr. cbn [la_offs la_off la_len la_vals la_valid wf_levels].
    rewrite L. unfold buffer_values.
    rewrite map_length, la_isna_length.
    assert (H1 : Nat.ltb (la_len a) (length (o0s a o0)) = true) by (apply Nat.ltb_lt; lia).
    assert (H2 : Nat.ltb (last (o0s a o0) 0) (length o1) = true).
    { apply Nat.ltb_lt. rewrite last_nth_pred, HL.
      replace (la_len a + 1 - 1) with (la_len a) by lia.
      pose proof (Hle (la_len a) (le_n _)) as H. unfold getn in H. lia. }
    assert (H3 : Nat.ltb (last o1 0) (length o2) = true) by (apply Nat.ltb_lt; exact Hl1).
    assert (H5 : Nat.leb (last o2 0) (length (la_vals a)) = true) by (apply Nat.leb_le; exact Hl2).
    assert (H4 : Nat.leb (la_len a) (la_len a) = true) by (apply Nat.leb_le; lia).
    cbn [Nat.add]. rewrite H1, Hms, H2, Hm1, H3, Hm2, H5, H4. reflexivity.
Qed.

(* ---- idempotence of the array methods ---- *)

Theorem polygon_oriented_idempotent : forall a o0 o1,
  la_offs a = [o0; o1] -> wf_listarr a = true ->
  rings_closed (buffer_values a) o1 ->
  polygon_oriented (polygon_oriented a) = polygon_oriented a.
Proof.
  intros a o0 o1 E Hwf Hok.
  destruct (wf2 a o0 o1 E Hwf) as (Hlen & Hm0 & Hl0 & Hm1 & Hl1).
  destruct (o0s_facts a o0 Hlen Hm0) as (HL & Hms & Hstep & Hle & Hin).
  rewrite (polygon_oriented_unfold a o0 o1 E).
  unfold polygon_oriented at 1.
  rewrite buffer_offsets_fresh by exact HL.
  rewrite la_isna_fresh_rec.
  cbn [la_len buffer_values la_vals].
  f_equal. apply orient_idempotent; assumption.
Qed.

Theorem multipolygon_oriented_idempotent : forall a o0 o1 o2,
  la_offs a = [o0; o1; o2] -> wf_listarr a = true ->
  rings_closed (buffer_values a) o2 ->
  multipolygon_oriented (multipolygon_oriented a) = multipolygon_oriented a.
Proof.
  intros a o0 o1 o2 E Hwf Hok.
  destruct (wf3 a o0 o1 o2 E Hwf) as (Hlen & Hm0 & Hl0 & Hm1 & Hl1 & Hm2 & Hl2).
  destruct (o0s_facts a o0 Hlen Hm0) as (HL & Hms & Hstep & Hle & Hin).
  rewrite (multipolygon_oriented_unfold a o0 o1 o2 E).
  unfold multipolygon_oriented at 1.
  rewrite buffer_offsets_fresh by exact HL.
  rewrite la_isna_fresh_rec.
  cbn [la_len buffer_values la_vals].
  f_equal. apply orient_idempotent; assumption.
Qed.

(* ---- |area| per ring; total area of an oriented polygon ---- *)

Lemma abs_same_or_rev : forall ps ps', ps' = ps \/ ps' = rev ps ->
  Z.abs (shoelace2 ps') = Z.abs (shoelace2 ps).
Proof. intros ps ps' [->| ->]; [reflexivity|]. rewrite area_rev. lia. Qed.

(* after orient_polygons a polygon whose rings (shell first) are in scope has doubled
   area |shell| - sum |holes|; it is non-negative when the holes are no larger than
   the shell (in particular for holes inside the shell) *)
Theorem oriented_polygon_area : forall shell' holes' shell holes,
  (Z.abs (shoelace2 shell') = Z.abs (shoelace2 shell)) ->
  Forall2 (fun h' h => Z.abs (shoelace2 h') = Z.abs (shoelace2 h)) holes' holes ->
  (0 <= shoelace2 shell')%Z ->
  Forall (fun h => (shoelace2 h <= 0)%Z) holes' ->
  zsum (map shoelace2 (shell' :: holes')) =
  (Z.abs (shoelace2 shell) - zsum (map (fun h => Z.abs (shoelace2 h)) holes))%Z.
Proof.
  intros shell' holes' shell holes Hs Hh H0 Hneg.
  rewrite oriented_sum by assumption. rewrite Hs. f_equal.
  clear Hneg. induction Hh as [|h' h t' t Hx _ IH]; [reflexivity|].
  cbn [map]. rewrite !zsum_cons, Hx, IH. reflexivity.
Qed.

(* ---- element level: every element keeps its rings, each the same or reversed ---- *)

Definition same_or_rev (r' r : list num) : Prop := r' = r \/ r' = rev_ring r.

Lemma segs_ring_at : forall v ro, segs v ro = map (ring_at v ro) (seq 0 (length ro - 1)).
Proof.
  intros v ro. rewrite segs_seq. apply map_ext. intros i. unfold ring_at.
  replace (i + 1) with (S i) by lia. reflexivity.
Qed.

Lemma Forall2_map_same : forall A B (R : B -> B -> Prop) (f g : A -> B) l,
  (forall x, In x l -> R (f x) (g x)) -> Forall2 R (map f l) (map g l).
Proof.
  intros A B R f g l H. induction l as [|x t IH]; [constructor|].
  cbn [map]. constructor; [apply H; left; reflexivity|].
  apply IH. intros y Hy. apply H. right. exact Hy.
Qed.

Lemma Forall2_firstn : forall A (R : A -> A -> Prop) n l1 l2,
  Forall2 R l1 l2 -> Forall2 R (firstn n l1) (firstn n l2).
Proof.
  intros A R n. induction n as [|n IH]; intros l1 l2 H; [constructor|].
  destruct H; cbn [firstn]; constructor; auto.
Qed.

Lemma Forall2_skipn : forall A (R : A -> A -> Prop) n l1 l2,
  Forall2 R l1 l2 -> Forall2 R (skipn n l1) (skipn n l2).
Proof.
  intros A R n. induction n as [|n IH]; intros l1 l2 H; [exact H|].
  destruct H; cbn [skipn]; [constructor | auto].
Qed.

Lemma Forall2_slice : forall A (R : A -> A -> Prop) s e l1 l2,
  Forall2 R l1 l2 -> Forall2 R (slice s e l1) (slice s e l2).
Proof. intros. unfold slice. apply Forall2_firstn, Forall2_skipn. assumption. Qed.

Theorem orient_segs : forall vals po ro,
  mono ro = true -> last ro 0 <= length vals ->
  Forall2 same_or_rev (segs (orient_polygons vals po ro) ro) (segs vals ro).
Proof.
  intros vals po ro Hm Hl.
  destruct (orient_rings vals po ro Hm Hl) as (_ & R & _ & _).
  rewrite !segs_ring_at. apply Forall2_map_same.
  intros j Hj. apply in_seq in Hj. rewrite (R j) by lia.
  destruct (flips vals po ro j); [right | left]; reflexivity.
Qed.

Theorem polygon_oriented_elements : forall a o0 o1,
  la_offs a = [o0; o1] -> wf_listarr a = true ->
  forall i, Forall2 same_or_rev (elem_rings (polygon_oriented a) i) (elem_rings a i).
Proof.
  intros a o0 o1 E Hwf i.
  destruct (wf2 a o0 o1 E Hwf) as (Hlen & Hm0 & Hl0 & Hm1 & Hl1).
  destruct (o0s_facts a o0 Hlen Hm0) as (HL & Hms & Hstep & Hle & Hin).
  unfold elem_rings at 1. rewrite (polygon_oriented_unfold a o0 o1 E).
  rewrite buffer_offsets_fresh by exact HL.
  unfold elem_rings, buffer_offsets. rewrite E. fold (o0s a o0).
  cbn [buffer_values la_vals].
  apply Forall2_slice, orient_segs; assumption.
Qed.

Theorem multipolygon_oriented_elements : forall a o0 o1 o2,
  la_offs a = [o0; o1; o2] -> wf_listarr a = true ->
  forall i, Forall2 same_or_rev (elem_rings (multipolygon_oriented a) i) (elem_rings a i).
Proof.
  intros a o0 o1 o2 E Hwf i.
  destruct (wf3 a o0 o1 o2 E Hwf) as (Hlen & Hm0 & Hl0 & Hm1 & Hl1 & Hm2 & Hl2).
  destruct (o0s_facts a o0 Hlen Hm0) as (HL & Hms & Hstep & Hle & Hin).
  unfold elem_rings at 1. rewrite (multipolygon_oriented_unfold a o0 o1 o2 E).
  rewrite buffer_offsets_fresh by exact HL.
  unfold elem_rings, buffer_offsets. rewrite E. fold (o0s a o0).
  cbn [buffer_values la_vals].
  apply Forall2_slice, orient_segs; assumption.
Qed.
