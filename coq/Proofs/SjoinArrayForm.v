(* C05 uses one fact about the C02 model: PointArray.intersects(shape, inds)
   (array form restricted to the candidate positions) is, position by position,
   Point.intersects(shape) of the element (scalar form), a missing element
   intersecting nothing.  Proved here from Model/PointShape.v. *)
From Coq Require Import ZArith List Bool Arith Lia ZifyBool.
From SP Require Import Model.Num Model.Arrow Model.Bounds Model.PointKernels Model.PointShape
                       Model.Sjoin Spec.BoundsSpec Proofs.BoundsProofs Spec.SjoinSpec
                       Proofs.SjoinBBox.
Import ListNotations.
Local Open Scope nat_scope.

(* ------------------------------------------------------------------ *)
(* the coordinates the array form reads are the element's coordinates *)

Lemma flat_slot : forall a flat j,
  wf_fixarr a = true -> finite_vals (fa_flat_values a) = Some flat -> j < fa_len a ->
  nth (2 * (fa_off a + j)) (fa_vals a) None = Some (zn flat (2 * j)) /\
  nth (2 * (fa_off a + j) + 1) (fa_vals a) None = Some (zn flat (2 * j + 1)).
Proof.
  intros a flat j Hwf Hfin Hj.
  pose proof (fa_flat_slot a j Hwf Hj) as Hs.
  pose proof (fa_flat_length a Hwf) as Hlen.
  apply finite_vals_map in Hfin. rewrite Hfin in Hs, Hlen. rewrite map_length in Hlen.
  rewrite slice_map in Hs.
  rewrite (slice_pair Z (2 * j) flat 0%Z) in Hs by lia.
  cbn [map] in Hs.
  pose proof (f_equal (fun l => nth 0 l None) Hs) as H1.
  pose proof (f_equal (fun l => nth 1 l None) Hs) as H2.
  cbn [nth] in H1, H2. unfold zn.
  split; [symmetry; exact H1|]. replace (2 * j + 1) with (S (2 * j)) by lia.
  symmetry. exact H2.
Qed.

(* the scalar form as a boolean *)
Definition hit_xy (x y : Z) (sh : shape) : bool :=
  match point_intersects x y sh with Some (Value true) => true | _ => false end.

Lemma hitb_flat : forall a flat sh j,
  wf_fixarr a = true -> finite_vals (fa_flat_values a) = Some flat -> j < fa_len a ->
  hitb a sh j = negb (isna_at (fa_valid a) (fa_off a) j) &&
                hit_xy (zn flat (2 * j)) (zn flat (2 * j + 1)) sh.
Proof.
  intros a flat sh j Hwf Hfin Hj. unfold hitb, element_intersects, hit_xy.
  destruct (flat_slot a flat j Hwf Hfin Hj) as [E1 E2]. rewrite E1, E2.
  destruct (isna_at (fa_valid a) (fa_off a) j); [reflexivity|]. cbn [negb andb].
  destruct (point_intersects (zn flat (2 * j)) (zn flat (2 * j + 1)) sh) as [[[|]|]|]; reflexivity.
Qed.

(* ------------------------------------------------------------------ *)
(* the missing-element mask *)

Lemma isna_nth : forall a j, j < fa_len a ->
  nth j (fa_isna a) false = isna_at (fa_valid a) (fa_off a) j.
Proof. intros a j Hj. unfold fa_isna. apply nth_map_seq. exact Hj. Qed.

Lemma no_isna : forall a, existsb (fun b => b) (fa_isna a) = false ->
  forall j, j < fa_len a -> isna_at (fa_valid a) (fa_off a) j = false.
Proof.
  intros a H j Hj. rewrite <- (isna_nth a j Hj).
  destruct (nth j (fa_isna a) false) eqn:E; [|reflexivity].
  assert (Hex : existsb (fun b => b) (fa_isna a) = true).
  { apply existsb_exists. exists true. split; [|reflexivity]. rewrite <- E. apply nth_In.
    unfold fa_isna. now rewrite map_length, seq_length. }
  rewrite Hex in H. discriminate.
Qed.

Lemma mask_missing_map : forall a (g : nat -> bool) inds,
  inds_ok (fa_len a) inds = true ->
  mask_missing (fa_isna a) (Some inds) (map g inds) =
  map (fun j => g j && negb (isna_at (fa_valid a) (fa_off a) j)) inds.
Proof.
  intros a g inds Hok. unfold mask_missing.
  assert (Hlt : forall j, In j inds -> j < fa_len a).
  { intros j Hj. unfold inds_ok in Hok. apply Nat.ltb_lt.
    exact (proj1 (forallb_forall _ _) Hok j Hj). }
  destruct (existsb (fun b => b) (fa_isna a)) eqn:Ex.
  - rewrite combine_map_both, map_map. apply map_ext_in. intros j Hj.
    rewrite (isna_nth a j (Hlt j Hj)). reflexivity.
  - apply map_ext_in. intros j Hj. rewrite (no_isna a Ex j (Hlt j Hj)).
    cbn [negb]. now rewrite andb_true_r.
Qed.

(* ------------------------------------------------------------------ *)
(* lines: the array kernel (every sub-line visited) agrees with the scalar loop
   (first hit returns) whenever it does not raise *)

Lemma lmin_le : forall t h, (lmin h t <= h)%Z.
Proof.
  unfold lmin. induction t as [|x t IH]; intros h; cbn; [lia|].
  specialize (IH (Z.min h x)). lia.
Qed.

Lemma lmax_ge : forall t h, (h <= lmax h t)%Z.
Proof.
  unfold lmax. induction t as [|x t IH]; intros h; cbn; [lia|].
  specialize (IH (Z.max h x)). lia.
Qed.

Lemma in_bounds_eq : forall x y b0 b1 b2 b3,
  (b0 <= b2)%Z -> (b1 <= b3)%Z ->
  negb (sc_in_bounds x y (b0, b1, b2, b3)) =
  ((x <? b0)%Z || (y <? b1)%Z || (b2 <? x)%Z || (b3 <? y)%Z).
Proof.
  intros x y b0 b1 b2 b3 H0 H1. unfold sc_in_bounds.
  destruct (b2 <? b0)%Z eqn:E0; [lia|]. destruct (b3 <? b1)%Z eqn:E1; [lia|].
  rewrite negb_involutive.
  destruct (x <? b0)%Z, (y <? b1)%Z, (b2 <? x)%Z, (b3 <? y)%Z; reflexivity.
Qed.

Lemma ar_sc_lines : forall x y lines acc v,
  ar_lines x y lines acc = Value v ->
  exists v', sc_lines x y lines = Value v' /\ v = acc || v'.
Proof.
  intros x y. induction lines as [|flat rest IH]; intros acc v H.
  - cbn in H. inversion H; subst. exists false. split; [reflexivity|]. now rewrite orb_false_r.
  - cbn [ar_lines sc_lines] in *.
    destruct (evens flat) as [|hx tx]; [exact (IH acc v H)|].
    destruct (odds flat) as [|hy ty]; [discriminate|].
    rewrite in_bounds_eq
      by (eapply Z.le_trans; [apply lmin_le|apply lmax_ge]).
    destruct ((x <? lmin hx tx)%Z || (y <? lmin hy ty)%Z || (lmax hx tx <? x)%Z ||
              (lmax hy ty <? y)%Z); [exact (IH acc v H)|].
    destruct (any_vertex x y flat).
    + destruct (IH true v H) as [v' [_ Hv]]. exists true. split; [reflexivity|].
      cbn in Hv. subst v. now rewrite orb_true_r.
    + destruct (any_segment x y (hx :: tx) (hy :: ty)).
      * destruct (IH (acc || true) v H) as [v' [_ Hv]]. exists true. split; [reflexivity|].
        rewrite orb_true_r in Hv. cbn in Hv. subst v. now rewrite orb_true_r.
      * destruct (IH (acc || false) v H) as [v' [Hs Hv]]. exists v'. split; [exact Hs|].
        now rewrite orb_false_r in Hv.
Qed.

Lemma out_map_value : forall (f : nat -> outcome bool) l r,
  out_map f l = Value r ->
  r = map (fun j => match f j with Value v => v | RaisesEmptyLine => false end) l /\
  forall j, In j l -> exists v, f j = Value v.
Proof.
  intros f. induction l as [|a t IH]; intros r H; cbn in H.
  - inversion H. split; [reflexivity|intros j []].
  - destruct (f a) as [v|] eqn:Ea; [|discriminate].
    destruct (out_map f t) as [r'|] eqn:Et; [|discriminate].
    inversion H; subst r. destruct (IH r' eq_refl) as [Hr Hall]. split.
    + cbn [map]. rewrite Ea. f_equal. exact Hr.
    + intros j [E|Hj]; [subst; eauto|exact (Hall j Hj)].
Qed.

(* ------------------------------------------------------------------ *)
(* the array form before the mask *)

Lemma raw_form : forall a flat sh inds r,
  finite_vals (fa_flat_values a) = Some flat ->
  array_intersects_raw a sh (Some inds) = Some (Value r) ->
  r = map (fun j => hit_xy (zn flat (2 * j)) (zn flat (2 * j + 1)) sh) inds.
Proof.
  intros a flat sh inds r Hfin H. unfold array_intersects_raw in H. rewrite Hfin in H.
  cbn [obind] in H. unfold hit_xy.
  destruct sh as [px py|b|b|b|b|b].
  - destruct px as [px|]; [|discriminate]. destruct py as [py|]; [|discriminate].
    inversion H; subst r. unfold arr_point. apply map_ext. intros j.
    cbn [point_intersects]. unfold sc_point. rewrite (Nat.mul_comm j 2).
    destruct ((zn flat (2 * j) =? px)%Z && (zn flat (2 * j + 1) =? py)%Z); reflexivity.
  - unfold obind in H. cbn [point_intersects]. unfold obind.
    destruct (finite_vals (sb_flat_values b)) as [sf|]; [|discriminate].
    inversion H; subst r. unfold arr_multipoint, the_inds, pt_at. apply map_ext. intros j.
    destruct (sc_multipoint (zn flat (2 * j)) (zn flat (2 * j + 1)) sf); reflexivity.
  - unfold obind in H. cbn [point_intersects]. unfold obind.
    destruct (finite_vals (sb_buffer_values b)) as [sv|]; [|discriminate].
    inversion H as [Ho]. unfold arr_line, the_inds in Ho.
    destruct (out_map_value _ _ _ Ho) as [Hr Hall]. rewrite Hr. apply map_ext_in. intros j Hj.
    unfold pt_at. destruct (Hall j Hj) as [v Hv]. unfold pt_at in Hv. rewrite Hv.
    destruct (ar_sc_lines _ _ _ _ _ Hv) as [v' [Hs Hvv]]. rewrite Hs. cbn in Hvv. subst v'.
    destruct v; reflexivity.
  - unfold obind in H. cbn [point_intersects]. unfold obind.
    destruct (finite_vals (sb_buffer_values b)) as [sv|]; [|discriminate].
    inversion H as [Ho]. unfold arr_line, the_inds in Ho.
    destruct (out_map_value _ _ _ Ho) as [Hr Hall]. rewrite Hr. apply map_ext_in. intros j Hj.
    unfold pt_at. destruct (Hall j Hj) as [v Hv]. unfold pt_at in Hv. rewrite Hv.
    destruct (ar_sc_lines _ _ _ _ _ Hv) as [v' [Hs Hvv]]. rewrite Hs. cbn in Hvv. subst v'.
    destruct v; reflexivity.
  - unfold obind in H. cbn [point_intersects]. unfold obind.
    destruct (finite_vals (sb_buffer_values b)) as [sv|]; [|discriminate].
    inversion H; subst r. unfold arr_polygon, the_inds, pt_at. apply map_ext. intros j.
    destruct (point_intersects_polygon (zn flat (2 * j)) (zn flat (2 * j + 1)) sv
                                       (sb_inner_offsets b)); reflexivity.
  - unfold obind in H. cbn [point_intersects]. unfold obind.
    destruct (finite_vals (sb_buffer_values b)) as [sv|]; [|discriminate].
    inversion H; subst r. unfold arr_polygon, the_inds, pt_at. apply map_ext. intros j.
    destruct (point_intersects_polygon (zn flat (2 * j)) (zn flat (2 * j + 1)) sv
                                       (sb_inner_offsets b)); reflexivity.
Qed.

(* ------------------------------------------------------------------ *)
(* the contract *)

Theorem array_form : forall a, wf_fixarr a = true -> array_form_contract a.
Proof.
  intros a Hwf sh inds m Hok H. unfold array_intersects in H.
  destruct (array_intersects_raw a sh (Some inds)) as [[r|]|] eqn:Er; try discriminate.
  inversion H; subst m. clear H.
  assert (Hfin : exists flat, finite_vals (fa_flat_values a) = Some flat).
  { unfold array_intersects_raw in Er. destruct (finite_vals (fa_flat_values a)) as [flat|];
      [eauto|discriminate]. }
  destruct Hfin as [flat Hfin].
  rewrite (raw_form a flat sh inds r Hfin Er).
  rewrite (mask_missing_map a _ inds Hok). apply map_ext_in. intros j Hj.
  assert (Hlt : j < fa_len a).
  { unfold inds_ok in Hok. apply Nat.ltb_lt. exact (proj1 (forallb_forall _ _) Hok j Hj). }
  rewrite (hitb_flat a flat sh j Hwf Hfin Hlt). apply andb_comm.
Qed.

(* ------------------------------------------------------------------ *)
(* sjoin with only the two external contracts (pandas merge, the spatial index) *)
From Coq Require Import Permutation.
From SP Require Import Model.SjoinWf Proofs.SjoinRows Proofs.SjoinPairs Proofs.SjoinCand
                       Proofs.SjoinCols.

Theorem sjoin_exact_two : forall mrg cand h ls rs lm rm a rgeoms res,
  merge_contract mrg ->
  cand_contract (fa_len a) (fa_bounds a) (cand a) ->
  right_wf rgeoms = true ->
  sjoin mrg cand h ls rs lm rm a rgeoms = Some (inr res) ->
  exists ps, pair_enum a rgeoms ps /\
             Permutation (j_rows res) (expected_rows h (fa_len a) (List.length rgeoms) ps).
Proof.
  intros mrg cand h ls rs lm rm a rgeoms res Hm Hc Hw H.
  destruct (sjoin_inr_in_model _ _ _ _ _ _ _ _ _ _ H) as [_ Hwf].
  apply (sjoin_exact mrg cand h ls rs lm rm a rgeoms res); try assumption.
  apply array_form. exact Hwf.
Qed.

(* the executable model, no premise left but the guards *)
Theorem model_exact_closed : forall h ls rs lm rm a rgeoms res,
  right_wf rgeoms = true ->
  sjoin merge_rel_op scan_cand h ls rs lm rm a rgeoms = Some (inr res) ->
  exists ps, pair_enum a rgeoms ps /\
             Permutation (j_rows res) (expected_rows h (fa_len a) (List.length rgeoms) ps).
Proof.
  intros h ls rs lm rm a rgeoms res Hw H.
  destruct (sjoin_inr_in_model _ _ _ _ _ _ _ _ _ _ H) as [_ Hwf].
  apply (model_exact h ls rs lm rm a rgeoms res); try assumption.
  apply array_form. exact Hwf.
Qed.

Theorem pairs_exact_closed : forall (cand : bbox -> list nat) a rgeoms ps,
  wf_fixarr a = true ->
  cand_contract (fa_len a) (fa_bounds a) cand ->
  right_wf rgeoms = true ->
  pair_table cand a rgeoms = Some (Value ps) ->
  pair_enum a rgeoms ps.
Proof.
  intros cand a rgeoms ps Hwf Hc Hw H.
  apply (pairs_exact cand a Hc (array_form a Hwf) rgeoms ps); [|exact H].
  apply good_right_of_wf; assumption.
Qed.
