(* C06: lemma library, part 2 — which partitions the partition-level index selects,
   and cx / cx_partitions of a Dask frame against the pandas frame. *)
From Coq Require Import ZArith List Bool Arith Lia ZifyBool Permutation.
From SP Require Import Model.Num Model.Bounds Model.Rtree Model.DaskModel
                       Spec.DaskSpec Proofs.DaskProofs.
Import ListNotations.

(* ================================================================== *)
(** * 1. sorted lists of naturals                                       *)
(* ================================================================== *)

Fixpoint asc (l : list nat) : Prop :=
  match l with
  | a :: ((b :: _) as t) => a <= b /\ asc t
  | _ => True
  end.
Fixpoint sasc (l : list nat) : Prop :=
  match l with
  | a :: ((b :: _) as t) => a < b /\ sasc t
  | _ => True
  end.

Lemma asc_tail : forall a l, asc (a :: l) -> asc l.
Proof. intros a [|b t] H; [exact I | exact (proj2 H)]. Qed.
Lemma sasc_tail : forall a l, sasc (a :: l) -> sasc l.
Proof. intros a [|b t] H; [exact I | exact (proj2 H)]. Qed.

Lemma asc_head_le : forall l a x, asc (a :: l) -> In x l -> a <= x.
Proof.
  induction l as [|b t IH]; intros a x H Hin; [destruct Hin|].
  destruct H as [Hab Ht]. destruct Hin as [<-|Hin]; [exact Hab|].
  specialize (IH b x Ht Hin). lia.
Qed.
Lemma sasc_head_lt : forall l a x, sasc (a :: l) -> In x l -> a < x.
Proof.
  induction l as [|b t IH]; intros a x H Hin; [destruct Hin|].
  destruct H as [Hab Ht]. destruct Hin as [<-|Hin]; [exact Hab|].
  specialize (IH b x Ht Hin). lia.
Qed.

Lemma insert_sorted_in : forall l a x, In x (insert_sorted a l) <-> x = a \/ In x l.
Proof.
  induction l as [|b t IH]; intros a x; cbn [insert_sorted].
  - cbn. intuition.
  - destruct (a <=? b); cbn [In]; [intuition|]. rewrite IH. intuition.
Qed.

Lemma insert_sorted_asc : forall l a, asc l -> asc (insert_sorted a l).
Proof.
  induction l as [|b t IH]; intros a H; cbn [insert_sorted]; [exact I|].
  destruct (a <=? b) eqn:E.
  - split; [apply Nat.leb_le, E | exact H].
  - apply Nat.leb_gt in E. pose proof (IH a (asc_tail _ _ H)) as IH'.
    destruct t as [|c t']; cbn [insert_sorted] in *.
    + split; [lia | exact I].
    + assert (Hbc : b <= c) by (apply (asc_head_le (c :: t') b c H); left; reflexivity).
      destruct (a <=? c) eqn:E2.
      * split; [lia | exact IH'].
      * split; [exact Hbc | exact IH'].
Qed.

Lemma sort_nat_in : forall l x, In x (sort_nat l) <-> In x l.
Proof.
  induction l as [|a t IH]; intros x; [reflexivity|].
  unfold sort_nat in *. cbn [fold_right]. rewrite insert_sorted_in, IH. cbn. intuition.
Qed.
Lemma sort_nat_asc : forall l, asc (sort_nat l).
Proof.
  induction l as [|a t IH]; [exact I|]. unfold sort_nat in *. cbn [fold_right].
  apply insert_sorted_asc, IH.
Qed.

Lemma dedup_sorted_in : forall l x, In x (dedup_sorted l) <-> In x l.
Proof.
  induction l as [|a t IH]; intros x; [reflexivity|].
  destruct t as [|b t']; [reflexivity|].
  cbn [dedup_sorted]. destruct (Nat.eqb a b) eqn:E.
  - apply Nat.eqb_eq in E. subst b. rewrite IH. cbn. intuition.
  - cbn [In]. rewrite IH. cbn. intuition.
Qed.

Lemma dedup_sorted_head : forall l a x, In x (dedup_sorted (a :: l)) -> asc (a :: l) -> a <= x.
Proof.
  intros l a x Hin H. rewrite dedup_sorted_in in Hin. cbn [In] in Hin. destruct Hin as [<-|Hin]; [lia|].
  eapply asc_head_le; eassumption.
Qed.

Lemma dedup_sorted_sasc : forall l, asc l -> sasc (dedup_sorted l).
Proof.
  induction l as [|a t IH]; intros H; [exact I|].
  destruct t as [|b t']; [exact I|].
  change (dedup_sorted (a :: b :: t')) with
    (if Nat.eqb a b then dedup_sorted (b :: t') else a :: dedup_sorted (b :: t')).
  destruct (Nat.eqb a b) eqn:E.
  - apply IH, (asc_tail _ _ H).
  - apply Nat.eqb_neq in E. destruct H as [Hab Ht].
    specialize (IH Ht).
    destruct (dedup_sorted (b :: t')) as [|c u] eqn:D; [exact I|].
    split; [|exact IH].
    assert (Hc : In c (dedup_sorted (b :: t'))) by (rewrite D; left; reflexivity).
    pose proof (dedup_sorted_head _ _ _ Hc Ht) as Hbc.
    (* c is b itself or larger; a < b *)
    lia.
Qed.

Lemma sasc_unique : forall l1 l2,
  sasc l1 -> sasc l2 -> (forall x, In x l1 <-> In x l2) -> l1 = l2.
Proof.
  induction l1 as [|a t1 IH]; intros l2 H1 H2 Hm.
  - destruct l2 as [|b t2]; [reflexivity|]. exfalso. apply (Hm b). left; reflexivity.
  - destruct l2 as [|b t2]; [exfalso; apply (Hm a); left; reflexivity|].
    assert (Hab : a = b).
    { destruct (proj1 (Hm a) (or_introl eq_refl)) as [Hb|Ha]; [symmetry; exact Hb|].
      destruct (proj2 (Hm b) (or_introl eq_refl)) as [Hb'|Hb']; [exact Hb'|].
      pose proof (sasc_head_lt _ _ _ H2 Ha). pose proof (sasc_head_lt _ _ _ H1 Hb'). lia. }
    subst b. f_equal. apply IH; [exact (sasc_tail _ _ H1) | exact (sasc_tail _ _ H2)|].
    intros x. split; intros Hx.
    + destruct (proj1 (Hm x) (or_intror Hx)) as [<-|Hx2]; [|exact Hx2].
      pose proof (sasc_head_lt _ _ _ H1 Hx). lia.
    + destruct (proj2 (Hm x) (or_intror Hx)) as [<-|Hx1]; [|exact Hx1].
      pose proof (sasc_head_lt _ _ _ H2 Hx). lia.
Qed.

Lemma filter_seq_sasc : forall (P : nat -> bool) n a, sasc (filter P (seq a n)).
Proof.
  intros P. induction n as [|n IH]; intros a; [exact I|].
  cbn [seq filter]. destruct (P a); [|apply IH].
  specialize (IH (S a)).
  destruct (filter P (seq (S a) n)) as [|c u] eqn:F; [exact I|].
  split; [|exact IH].
  assert (Hc : In c (filter P (seq (S a) n))) by (rewrite F; left; reflexivity).
  apply filter_In in Hc. destruct Hc as [Hc _]. apply in_seq in Hc. lia.
Qed.

(* ================================================================== *)
(** * 2. rows, boxes                                                    *)
(* ================================================================== *)

Lemma row_outside_box_row : forall q0 q1 q2 q3 b,
  row_outside 2 [q0; q1; q2; q3] (box_row b) =
  negb (box_hit (Some q0, Some q1, Some q2, Some q3) b).
Proof.
  intros q0 q1 q2 q3 [[[x0 y0] x1] y1].
  unfold row_outside, box_hit, box_row, qv, col. cbn.
  rewrite negb_involutive, orb_false_r, !orb_assoc. reflexivity.
Qed.

Lemma norm_row_box_row : forall b, wf_bbox b -> norm_row (box_row b) = box_row b.
Proof.
  intros b [->|(x0 & y0 & x1 & y1 & -> & _)]; reflexivity.
Qed.

Lemma wf_row4_box_row : forall b, wf_bbox b -> wf_row4 (box_row b).
Proof.
  intros b [->|(x0 & y0 & x1 & y1 & -> & Hx & Hy)]; split; try reflexivity.
  - cbn. discriminate.
  - intros _. cbn. split; lia.
Qed.

Lemma col_nanmin_map : forall c rs, col_nanmin c rs = nanmin_l (map (col c) rs).
Proof.
  induction rs as [|r t IH]; [reflexivity|].
  cbn [col_nanmin map]. rewrite nanmin_l_cons, IH.
  destruct (col c r), (nanmin_l (map (col c) t)); reflexivity.
Qed.
Lemma col_nanmax_map : forall c rs, col_nanmax c rs = nanmax_l (map (col c) rs).
Proof.
  induction rs as [|r t IH]; [reflexivity|].
  cbn [col_nanmax map]. rewrite nanmax_l_cons, IH.
  destruct (col c r), (nanmax_l (map (col c) t)); reflexivity.
Qed.

Lemma page_box_box_rows : forall bs, page_box 2 (map box_row bs) = box_row (box_total bs).
Proof.
  intros bs. unfold page_box. cbn [seq map app Nat.add].
  rewrite !col_nanmin_map, !col_nanmax_map, !map_map. reflexivity.
Qed.

(* ================================================================== *)
(** * 3. cx                                                             *)
(* ================================================================== *)

Lemma concat_map_filter_nil : forall {A} (f : nat -> list A) (P : nat -> bool) l,
  (forall i, In i l -> P i = false -> f i = []) ->
  concat (map f (filter P l)) = concat (map f l).
Proof.
  intros A f P. induction l as [|i t IH]; intros H; [reflexivity|].
  cbn [filter map concat]. destruct (P i) eqn:E; cbn [map concat].
  - rewrite IH; [reflexivity|]. intros j Hj. apply H. right; exact Hj.
  - rewrite (H i (or_introl eq_refl) E), IH; [reflexivity|].
    intros j Hj. apply H. right; exact Hj.
Qed.

Lemma map_nth_seq : forall {A B} (g : list A -> B) (ls : list (list A)),
  map (fun i => g (nth i ls [])) (seq 0 (length ls)) = map g ls.
Proof.
  intros A B g. induction ls as [|l t IH]; [reflexivity|].
  cbn [length]. rewrite <- cons_seq, <- seq_shift. cbn [map nth].
  rewrite map_map. cbn [nth]. f_equal. exact IH.
Qed.

Lemma filter_concat : forall {A} (P : A -> bool) ls,
  filter P (concat ls) = concat (map (filter P) ls).
Proof.
  intros A P. induction ls as [|l t IH]; [reflexivity|].
  cbn [concat map]. rewrite filter_app, IH. reflexivity.
Qed.

Section CX.
  Variable R : Type.
  Variable rbox : R -> bbox.
  Variable hits : R -> list Z -> bool.
  Hypothesis Hsel : rtree_select_contract.
  Hypothesis Htot : rtree_total_contract.
  Hypothesis Hhits : hits_contract rbox hits.

  Variable parts : list (list R).
  Variable keys : list nat.
  Hypothesis Hwf : forall r, In r (concat parts) -> wf_bbox (rbox r).
  Hypothesis Hkeys : Permutation keys (seq 0 (length parts)).

  Let pbs := partition_bounds R rbox parts.
  Let T := partition_sindex pbs keys.

  Lemma pbs_wf : Forall wf_bbox pbs.
  Proof.
    apply Forall_forall. intros b Hb. unfold pbs, partition_bounds in Hb.
    apply in_map_iff in Hb. destruct Hb as (p & <- & Hp).
    apply box_total_wf. apply Forall_forall. intros b Hb. apply in_map_iff in Hb.
    destruct Hb as (r & <- & Hr). apply Hwf. apply in_concat. exists p. split; assumption.
  Qed.

  Lemma rows_wf : Forall wf_row4 (map box_row pbs).
  Proof.
    apply Forall_forall. intros r Hr. apply in_map_iff in Hr.
    destruct Hr as (b & <- & Hb). apply wf_row4_box_row.
    pose proof pbs_wf as H. rewrite Forall_forall in H. apply H, Hb.
  Qed.

  Lemma keys_ok : Permutation keys (seq 0 (length (map box_row pbs))).
  Proof. unfold pbs, partition_bounds. rewrite !map_length. exact Hkeys. Qed.

  Lemma norm_rows : map norm_row (map box_row pbs) = map box_row pbs.
  Proof.
    rewrite map_map. apply map_ext_in. intros b Hb. apply norm_row_box_row.
    pose proof pbs_wf as H. rewrite Forall_forall in H. apply H, Hb.
  Qed.

  (* the index' total_bounds is the total bounds of the concatenated frame *)
  Lemma sindex_total :
    total_bounds T = box_row (pandas_total_bounds R rbox (concat parts)).
  Proof.
    unfold T, partition_sindex. rewrite (Htot _ _ _ rows_wf keys_ok).
    rewrite norm_rows, page_box_box_rows. f_equal.
    rewrite <- total_bounds_concat_rows. reflexivity.
  Qed.

  Definition sel_pred (q : list Z) (i : nat) : bool :=
    negb (row_outside 2 q (box_row (nth i pbs nanbox))).

  (* the partitions read: exactly those whose bounds row is not outside the box,
     in ascending order, each once *)
  Lemma all_partition_inds_spec : forall q, length q = 4 ->
    all_partition_inds T q = filter (sel_pred q) (seq 0 (length parts)).
  Proof.
    intros q Hq. unfold all_partition_inds.
    destruct (covers_overlaps T q) as [cv ov] eqn:E.
    apply sasc_unique.
    - apply dedup_sorted_sasc, sort_nat_asc.
    - apply filter_seq_sasc.
    - intros i. rewrite dedup_sorted_in, sort_nat_in, in_app_iff.
      pose proof (Hsel _ _ 512 q i rows_wf keys_ok Hq) as H.
      fold (partition_sindex pbs keys) in H. fold T in H. rewrite E in H. cbn [fst snd] in H.
      rewrite H, filter_In, in_seq.
      rewrite map_length. unfold pbs at 1, partition_bounds. rewrite map_length.
      assert (Hn : forall j, nth j (map box_row pbs) [] = box_row (nth j pbs nanbox) \/
                             length pbs <= j).
      { intros j. destruct (Nat.lt_ge_cases j (length pbs)) as [Hl|Hl]; [left|right; exact Hl].
        rewrite (nth_indep _ [] (box_row nanbox)) by (rewrite map_length; exact Hl).
        apply map_nth. }
      unfold sel_pred. split.
      + intros [Hi Ho]. split; [lia|].
        destruct (Hn i) as [Hn'|Hn'];
          [|unfold pbs, partition_bounds in Hn'; rewrite map_length in Hn'; lia].
        rewrite Hn' in Ho. rewrite norm_row_box_row in Ho; [rewrite Ho; reflexivity|].
        pose proof pbs_wf as W. rewrite Forall_forall in W. apply W, nth_In.
        unfold pbs, partition_bounds. rewrite map_length. exact Hi.
      + intros [Hi Ho]. split; [lia|].
        destruct (Hn i) as [Hn'|Hn'];
          [|unfold pbs, partition_bounds in Hn'; rewrite map_length in Hn'; lia].
        rewrite Hn'. rewrite norm_row_box_row; [apply negb_true_iff, Ho|].
        pose proof pbs_wf as W. rewrite Forall_forall in W. apply W, nth_In.
        unfold pbs, partition_bounds. rewrite map_length. lia.
  Qed.

  (* a row that intersects the box lies in a selected partition *)
  Lemma hit_row_partition_selected : forall q i r, length q = 4 ->
    i < length parts -> In r (nth i parts []) -> hits r q = true -> sel_pred q i = true.
  Proof.
    intros q i r Hq Hi Hr Hh.
    destruct q as [|q0 [|q1 [|q2 [|q3 [|? ?]]]]]; try discriminate Hq.
    pose proof (Hhits r _ Hq Hh) as Ho.
    unfold sel_pred. rewrite row_outside_box_row in *.
    rewrite negb_involutive. apply negb_false_iff in Ho.
    assert (Hin : In r (concat parts)).
    { apply in_concat. exists (nth i parts []). split; [apply nth_In, Hi | exact Hr]. }
    assert (Hpb : nth i pbs nanbox = part_bounds R rbox (nth i parts [])).
    { unfold pbs, partition_bounds.
      rewrite (nth_indep _ nanbox (part_bounds R rbox [])) by (rewrite map_length; exact Hi).
      apply map_nth. }
    rewrite Hpb.
    destruct (Hwf r Hin) as [Hb|(x0 & y0 & x1 & y1 & Hb & Hx & Hy)].
    - rewrite Hb in Ho. discriminate Ho.
    - destruct (row_in_part_bounds R rbox _ r _ _ _ _ Hr Hb)
        as (X0 & Y0 & X1 & Y1 & -> & H0 & H1 & H2 & H3).
      rewrite Hb in Ho. unfold box_hit in *. cbn in *.
      unfold nlt, ngt, nlt in *. lia.
  Qed.

  Lemma unselected_partition_no_hit : forall q i, length q = 4 ->
    In i (seq 0 (length parts)) -> sel_pred q i = false ->
    pandas_cx R hits (nth i parts []) q = [].
  Proof.
    intros q i Hq Hi Hs. apply in_seq in Hi.
    unfold pandas_cx.
    destruct (filter (fun r => hits r q) (nth i parts [])) as [|r t] eqn:F; [reflexivity|].
    assert (Hr : In r (filter (fun r => hits r q) (nth i parts []))) by (rewrite F; left; reflexivity).
    apply filter_In in Hr. destruct Hr as [Hr Hh].
    rewrite (hit_row_partition_selected q i r Hq ltac:(lia) Hr Hh) in Hs. discriminate Hs.
  Qed.

  Lemma perform_cx_concat : forall q, length q = 4 ->
    concat (perform_cx R hits parts T q) = pandas_cx R hits (concat parts) q.
  Proof.
    intros q Hq. unfold perform_cx. rewrite (all_partition_inds_spec q Hq).
    assert (E : concat (map (fun i => pandas_cx R hits (nth i parts []) q)
                            (filter (sel_pred q) (seq 0 (length parts))))
                = pandas_cx R hits (concat parts) q).
    { rewrite concat_map_filter_nil
        by (intros i Hi Hs; apply unselected_partition_no_hit; assumption).
      rewrite (map_nth_seq (fun p => pandas_cx R hits p q)).
      unfold pandas_cx. symmetry. apply filter_concat. }
    destruct (filter (sel_pred q) (seq 0 (length parts))) as [|i0 inds] eqn:F.
    - cbn in E. cbn. exact E.
    - exact E.
  Qed.

  (* ---- C06_cx *)
  Theorem cx_concat : forall k,
    concat (dask_cx R rbox hits parts keys k) = pandas_frame_cx R rbox hits (concat parts) k.
  Proof.
    intros k. unfold dask_cx, pandas_frame_cx. fold pbs. fold T.
    rewrite sindex_total.
    destruct (finite_query (get_bounds (box_row (pandas_total_bounds R rbox (concat parts))) k))
      as [q|] eqn:E; [|reflexivity].
    apply perform_cx_concat.
    unfold finite_query in E.
    destruct (get_bounds _ k) as [[[[a|] [b|]] [c|]] [d|]]; try discriminate E.
    injection E as <-. reflexivity.
  Qed.

  (* ---- C06_cx_partitions_superset: whole partitions, in ascending order, that
     jointly contain every row intersecting the box *)
  Theorem cx_partitions_whole : forall k,
    dask_cx_partitions R rbox parts keys k = [[]] \/
    exists inds, sasc inds /\ (forall i, In i inds -> i < length parts) /\
                 dask_cx_partitions R rbox parts keys k = map (fun i => nth i parts []) inds.
  Proof.
    intros k. unfold dask_cx_partitions. fold pbs. fold T.
    destruct (finite_query (get_bounds (total_bounds T) k)) as [q|] eqn:E; [|left; reflexivity].
    assert (Hq : length q = 4).
    { unfold finite_query in E.
      destruct (get_bounds _ k) as [[[[a|] [b|]] [c|]] [d|]]; try discriminate E.
      injection E as <-. reflexivity. }
    unfold perform_cx_partitions. rewrite (all_partition_inds_spec q Hq).
    destruct (filter (sel_pred q) (seq 0 (length parts))) as [|i0 inds] eqn:F; [left; reflexivity|].
    right. exists (i0 :: inds). rewrite <- F. split; [apply filter_seq_sasc|]. split; [|reflexivity].
    intros i Hi. apply filter_In in Hi. destruct Hi as [Hi _]. apply in_seq in Hi. lia.
  Qed.

  Theorem cx_partitions_superset : forall k q r,
    finite_query (get_bounds (box_row (pandas_total_bounds R rbox (concat parts))) k) = Some q ->
    In r (concat parts) -> hits r q = true ->
    In r (concat (dask_cx_partitions R rbox parts keys k)).
  Proof.
    intros k q r E Hr Hh. unfold dask_cx_partitions. fold pbs. fold T.
    rewrite sindex_total, E.
    assert (Hq : length q = 4).
    { unfold finite_query in E.
      destruct (get_bounds _ k) as [[[[a|] [b|]] [c|]] [d|]]; try discriminate E.
      injection E as <-. reflexivity. }
    apply in_concat in Hr. destruct Hr as (p & Hp & Hr).
    destruct (In_nth _ _ [] Hp) as (i & Hi & Hnth).
    assert (Hs : sel_pred q i = true).
    { apply (hit_row_partition_selected q i r Hq Hi); [rewrite Hnth; exact Hr | exact Hh]. }
    unfold perform_cx_partitions. rewrite (all_partition_inds_spec q Hq).
    assert (Hin : In i (filter (sel_pred q) (seq 0 (length parts)))).
    { apply filter_In. split; [apply in_seq; lia | exact Hs]. }
    destruct (filter (sel_pred q) (seq 0 (length parts))) as [|i0 inds] eqn:F; [destruct Hin|].
    apply in_concat. exists p. split; [|exact Hr].
    apply in_map_iff. exists i. split; [exact Hnth | exact Hin].
  Qed.
End CX.
