(* C19, recovery clause -- part 3: every run of the procedure over the faulty filesystem --
   any retry budget, any fault schedule (all six fault kinds, lying existence checks
   included), returning or raising -- preserves [Inv]: whatever tree it leaves, an aborted
   run included, satisfies the invariant of Proofs/RetryRecoverInv.v. *)
From Coq Require Import ZArith List Bool Arith Lia Permutation.
From SP Require Import Harness Model.FS Model.PackFS Model.Retry Spec.PackSpec
  Proofs.FSProofs Proofs.PackProofs Proofs.RetryProofs Proofs.RetryRecoverInv.
Import ListNotations.

(* ------------------------------------------------------------------ computations that never touch the tree *)
Definition keeps {A} (m : M fstate A) : Prop :=
  forall s, match m s with OK _ s' => st_fs s' = st_fs s | Err s' => st_fs s' = st_fs s end.

Lemma keeps_ret : forall A (a : A), keeps (ret a).
Proof. intros A a s. reflexivity. Qed.
Lemma keeps_fail : forall A, keeps (@fail fstate A).
Proof. intros A s. reflexivity. Qed.
Lemma keeps_bind : forall A B (m : M fstate A) (k : A -> M fstate B),
  keeps m -> (forall a, keeps (k a)) -> keeps (bind m k).
Proof.
  intros A B m k Hm Hk s. unfold bind. specialize (Hm s). destruct (m s) as [a s1|s1]; [|exact Hm].
  specialize (Hk a s1). destruct (k a s1); congruence.
Qed.
Lemma keeps_try : forall A (m : M fstate A), keeps m -> keeps (try m).
Proof. intros A m Hm s. unfold try. specialize (Hm s). destruct (m s); exact Hm. Qed.
Lemma keeps_mmap : forall A B (g : A -> M fstate B) l, (forall x, keeps (g x)) -> keeps (mmap g l).
Proof.
  intros A B g l H. induction l as [|x l IH]; simpl; [apply keeps_ret|].
  apply keeps_bind; [apply H|]. intro y. apply keeps_bind; [exact IH|]. intro ys. apply keeps_ret.
Qed.

Lemma keeps_tick : forall k p p2, keeps (tick k p p2).
Proof. intros k p p2 s. unfold tick. destruct (st_sched s); reflexivity. Qed.
Lemma keeps_get_fs : keeps get_fs.
Proof. intro s. reflexivity. Qed.
Lemma keeps_of_option : forall A (o : option A), keeps (of_option o).
Proof. intros A [a|] s; reflexivity. Qed.

Ltac kp := repeat first
  [ apply keeps_ret | apply keeps_fail | apply keeps_tick | apply keeps_get_fs | apply keeps_of_option
  | apply keeps_try
  | apply keeps_bind; [|intro]
  | apply keeps_mmap; intro
  | match goal with |- keeps (if ?b then _ else _) => destruct b end
  | match goal with |- keeps (match ?x with _ => _ end) => destruct x end ].

Lemma keeps_stat : forall lies k q p, keeps (f_stat lies k q p).
Proof. intros. unfold f_stat. kp. Qed.
Lemma keeps_info : forall p, keeps (f_info p).
Proof. intros. unfold f_info. kp. Qed.
Lemma keeps_ls : forall p, keeps (f_ls p).
Proof. intros. unfold f_ls. kp. Qed.
Lemma keeps_find : forall p, keeps (f_find p).
Proof. intros. unfold f_find. kp. Qed.
Lemma keeps_read : forall p, keeps (f_read p).
Proof. intros. unfold f_read. kp. Qed.
Lemma keeps_read_opt : forall p, keeps (f_read_opt p).
Proof. intros. unfold f_read_opt. kp. Qed.

Ltac kq := repeat first
  [ apply keeps_ret | apply keeps_fail | apply keeps_stat | apply keeps_info | apply keeps_ls
  | apply keeps_find | apply keeps_read | apply keeps_read_opt
  | apply keeps_try
  | apply keeps_bind; [|intro]
  | apply keeps_mmap; intro
  | match goal with |- keeps (if ?b then _ else _) => destruct b end
  | match goal with |- keeps (match ?x with _ => _ end) => destruct x end ].

Ltac unf := cbn [faulty_prims p_exists p_isfile p_isdir p_info p_ls p_find p_read p_read_opt
                 p_makedirs p_rm p_write p_move].

Lemma keeps_pq_read_file : forall lies p, keeps (pq_read_file (faulty_prims lies) p).
Proof. intros. unfold pq_read_file. unf. kq. Qed.

Lemma keeps_pq_read_list : forall lies l, keeps (pq_read_list (faulty_prims lies) l).
Proof.
  intros lies l. unfold pq_read_list. destruct l as [|p0 l]; [apply keeps_fail|].
  apply keeps_bind; [apply keeps_pq_read_file|]. intros _.
  apply keeps_bind; [apply keeps_mmap; intro; apply keeps_try; apply keeps_pq_read_file|].
  intro rs. kq.
Qed.

Lemma keeps_body_read_parquet : forall lies tmp subs out,
  keeps (body_read_parquet (faulty_prims lies) tmp subs out).
Proof.
  intros. unfold body_read_parquet. unf.
  apply keeps_bind; [apply keeps_stat|]. intro b1.
  apply keeps_bind; [kq|]. intro sc.
  destruct sc; [apply keeps_pq_read_list|].
  apply keeps_bind; [apply keeps_ls|]. intro l.
  match goal with |- keeps (if ?b then _ else _) => destruct b end;
    [apply keeps_pq_read_list|apply keeps_fail].
Qed.

Lemma keeps_body_final_read : forall lies d, keeps (body_final_read (faulty_prims lies) d).
Proof.
  intros. unfold body_final_read. unf.
  repeat first
    [ apply keeps_pq_read_file | apply keeps_ret | apply keeps_fail | apply keeps_stat | apply keeps_info
    | apply keeps_find | apply keeps_read_opt
    | apply keeps_bind; [|intro]
    | match goal with |- keeps (if ?b then _ else _) => destruct b end
    | match goal with |- keeps (match ?x with _ => _ end) => destruct x end ].
Qed.

(* ------------------------------------------------------------------ preservation of the invariant *)
Section Run.
Variable cfg : config.
Variable asg : assignment.
Variable f0 : fs.

Notation P := (c_path cfg).
Notation K := (c_k cfg).
Notation outp := (out_path cfg).
Notation tmpp := (tmp_path cfg).
Notation I := (Inv cfg asg f0).

Hypothesis Hprior : prior_ok f0 cfg.
Hypothesis Hsep : tmp_separate cfg.
Hypothesis Hasg : wf_asg K asg.
Hypothesis Hco : forall N, In N (c_corder cfg) -> N < K.

Definition pres {A} (m : M fstate A) : Prop :=
  forall s, I (st_fs s) -> match m s with OK _ s' => I (st_fs s') | Err s' => I (st_fs s') end.

Lemma keeps_pres : forall A (m : M fstate A), keeps m -> pres m.
Proof. intros A m H s HI. specialize (H s). destruct (m s); rewrite H; exact HI. Qed.

Lemma pres_ret : forall A (a : A), pres (ret a).
Proof. intros A a s HI. exact HI. Qed.
Lemma pres_fail : forall A, pres (@fail fstate A).
Proof. intros A s HI. exact HI. Qed.
Lemma pres_bind : forall A B (m : M fstate A) (k : A -> M fstate B),
  pres m -> (forall a, pres (k a)) -> pres (bind m k).
Proof.
  intros A B m k Hm Hk s HI. unfold bind. specialize (Hm s HI). destruct (m s) as [a s1|s1]; [|exact Hm].
  apply (Hk a s1 Hm).
Qed.
Lemma pres_retry : forall A (m : M fstate A) n, pres m -> pres (retry n m).
Proof.
  intros A m n Hm. induction n as [|n IH]; intros s HI; simpl; [exact HI|].
  specialize (Hm s HI). destruct (m s) as [a s1|s1]; [exact Hm|]. apply (IH s1 Hm).
Qed.
Lemma pres_miter : forall A (g : A -> M fstate unit) l, (forall x, In x l -> pres (g x)) -> pres (miter g l).
Proof.
  intros A g l H. induction l as [|x l IH]; simpl; [apply pres_ret|].
  apply pres_bind; [apply H; left; reflexivity|]. intros _. apply IH. intros y Hy. apply H. right. exact Hy.
Qed.
Lemma pres_mmap : forall A B (g : A -> M fstate B) l, (forall x, In x l -> pres (g x)) -> pres (mmap g l).
Proof.
  intros A B g l H. induction l as [|x l IH]; simpl; [apply pres_ret|].
  apply pres_bind; [apply H; left; reflexivity|]. intro y.
  apply pres_bind; [apply IH; intros z Hz; apply H; right; exact Hz|]. intro ys. apply pres_ret.
Qed.

(* one faulty mutation *)
Lemma pres_f_mut : forall k p p2 eff part,
  (forall f f', I f -> eff f = Some f' -> I f') ->
  (forall f n, I f -> I (part n f)) ->
  pres (f_mut k p p2 eff part).
Proof.
  intros k p p2 eff part He Hp s HI.
  destruct (f_mut_spec k p p2 eff part s) as [[s' [E Hs]]|[s' [E Hs]]]; rewrite E.
  - destruct Hs as [Hs|[Hs|[n Hs]]].
    + rewrite Hs. exact HI.
    + eapply He; eauto.
    + rewrite Hs. apply Hp. exact HI.
  - eapply He; eauto.
Qed.

Lemma pres_f_rm : forall p, owned cfg p = true -> pres (f_rm p).
Proof.
  intros p Ho s HI.
  destruct (f_rm_spec p s) as [[s' [E Hs]]|[s' [E Hs]]]; rewrite E.
  - destruct Hs as [Hs|[[_ Hs]|[n Hs]]].
    + rewrite Hs. exact HI.
    + eapply (Inv_rm cfg asg f0); eauto.
    + rewrite Hs. apply (Inv_rm_partial cfg asg f0); assumption.
  - destruct Hs as [Hs|[_ Hs]].
    + rewrite Hs. exact HI.
    + eapply (Inv_rm cfg asg f0); eauto.
Qed.

(* ------------------------------------------------------------------ the retried functions, with the paths the procedure passes *)
Lemma pres_body_rm : forall lies p, owned cfg p = true -> pres (body_rm (faulty_prims lies) p).
Proof.
  intros lies p Ho. unfold body_rm. unf.
  apply pres_bind; [apply pres_f_rm; exact Ho|]. intros _.
  apply keeps_pres. apply keeps_bind; [apply keeps_stat|]. intro b. destruct b; [apply keeps_fail|apply keeps_ret].
Qed.

Lemma owned_P : owned cfg P = true.
Proof. apply owned_under_P. apply is_prefix_refl. Qed.
Lemma owned_outp : forall N, owned cfg (outp N) = true.
Proof. intro N. apply owned_under_P. apply under_outp. Qed.

Lemma pres_mkdirs_outp : forall lies N, pres (body_mkdirs (faulty_prims lies) (outp N)).
Proof.
  intros lies N. unfold body_mkdirs. unf. apply pres_f_mut.
  - intros f f' HI E. eapply (Inv_makedirs_outp cfg asg f0); eauto.
  - intros f n HI. apply (Inv_makedirs_partial_outp cfg asg f0); assumption.
Qed.

Lemma pres_mkdirs_tmpp : forall lies N, N < K -> pres (body_mkdirs (faulty_prims lies) (tmpp N)).
Proof.
  intros lies N HN. unfold body_mkdirs. unf. apply pres_f_mut.
  - intros f f' HI E. eapply (Inv_makedirs_tmpp cfg asg f0); eauto.
  - intros f n HI. apply (Inv_makedirs_partial_tmpp cfg asg f0); assumption.
Qed.

Lemma pres_write_under : forall lies a c, pres (p_write (faulty_prims lies) (P ++ [a]) c).
Proof.
  intros lies a c. unf. apply pres_f_mut.
  - intros f f' HI E. eapply (Inv_write_under cfg asg f0); eauto.
  - intros f n HI. destruct (write f (P ++ [a]) CPartial) as [g|] eqn:E; [|exact HI].
    eapply (Inv_write_under cfg asg f0); eauto.
Qed.

Lemma pres_write_subp : forall lies i N c, N < K -> In N (nth i asg []) ->
  pres (p_write (faulty_prims lies) (tmpp N ++ [NSub i]) c).
Proof.
  intros lies i N c HN Hin. unf. apply pres_f_mut.
  - intros f f' HI E. eapply (Inv_write_subp cfg asg f0); eauto.
  - intros f n HI. destruct (write f (tmpp N ++ [NSub i]) CPartial) as [g|] eqn:E; [|exact HI].
    eapply (Inv_write_subp cfg asg f0); eauto.
Qed.

Lemma pres_body_move : forall lies N j, pres (body_move (faulty_prims lies) (outp N) (outp j)).
Proof.
  intros lies N j. unfold body_move. unf.
  apply pres_bind; [apply keeps_pres; apply keeps_stat|]. intro b. destruct b.
  - apply pres_f_mut.
    + intros f f' HI E. eapply (Inv_move cfg asg f0); eauto.
    + intros f n HI. exact HI.
  - apply keeps_pres. apply keeps_bind; [apply keeps_stat|]. intro b2.
    destruct b2; [apply keeps_ret|apply keeps_fail].
Qed.

Lemma pres_body_write_common : forall lies ps, pres (body_write_common (faulty_prims lies) P ps).
Proof.
  intros lies ps. unfold body_write_common.
  apply pres_bind; [apply keeps_pres; unf; apply keeps_read|]. intro c.
  destruct c; try apply pres_fail. apply pres_write_under.
Qed.

(* ------------------------------------------------------------------ the whole call *)
Lemma asg_valid : forall i N, In N (nth i asg []) -> N < K.
Proof.
  intros i N H. destruct (nth_in_or_default i asg []) as [Hin|Hd].
  - apply (Hasg _ _ Hin H).
  - rewrite Hd in H. contradiction.
Qed.

Lemma pres_compact : forall lies n ne j, pres (compact (faulty_wrappers lies n) cfg ne j).
Proof.
  intros lies n ne. induction ne as [|[N c] ne IH]; intro j; simpl; [apply pres_ret|].
  apply pres_bind.
  - destruct (Nat.eqb N j); [apply pres_ret|]. apply pres_retry. apply pres_body_move.
  - intros _. apply IH.
Qed.

Lemma pres_concat_parts : forall lies n N, N < K ->
  pres (concat_parts (faulty_wrappers lies n) (tmpp N) (subparts cfg asg N) (outp N)).
Proof.
  intros lies n N HN. unfold concat_parts.
  assert (R1 : pres (w_rm (faulty_wrappers lies n) (tmpp N))).
  { apply pres_retry. apply pres_body_rm. apply (owned_tmpp cfg). exact HN. }
  assert (R2 : pres (w_rm (faulty_wrappers lies n) (outp N))).
  { apply pres_retry. apply pres_body_rm. apply owned_outp. }
  destruct (subparts cfg asg N) as [|s0 subs].
  - apply pres_bind; [exact R1|]. intros _. apply pres_bind; [exact R2|]. intros _. apply pres_ret.
  - apply pres_bind.
    { apply pres_retry. apply keeps_pres. apply keeps_body_read_parquet. }
    intro cells. apply pres_bind; [exact R1|]. intros _. apply pres_bind; [exact R2|]. intros _.
    apply pres_bind; [|intros _; apply pres_ret].
    apply pres_retry. unfold body_write_concatted. apply pres_write_under.
Qed.

Theorem pres_pack_proc : forall lies n, pres (pack_proc (faulty_wrappers lies n) cfg asg).
Proof.
  intros lies n. unfold pack_proc.
  apply pres_bind.
  { destruct (c_overwrite cfg); [|apply pres_ret]. apply pres_retry. apply pres_body_rm. apply owned_P. }
  intros _. apply pres_bind.
  { apply pres_miter. intros N HN. apply seqin in HN.
    apply pres_bind; [apply pres_retry; apply pres_mkdirs_outp|]. intros _.
    apply pres_retry. apply pres_mkdirs_tmpp. exact HN. }
  intros _. apply pres_bind.
  { apply pres_miter. intros i _. unfold process_partition. apply pres_miter. intros N HN.
    apply pres_retry. unfold body_write_partition. apply pres_write_subp; [|exact HN].
    apply (asg_valid i N HN). }
  intros _. apply pres_bind.
  { apply pres_mmap. intros N HN. apply pres_bind; [|intro r; apply pres_ret].
    apply pres_concat_parts. apply Hco. exact HN. }
  intro rs.
  destruct (nonempty_parts rs (seq 0 K)) as [|x ne] eqn:E; [apply pres_fail|].
  apply pres_bind; [apply pres_compact|]. intros _.
  apply pres_bind.
  { apply pres_retry. unfold body_write_metadata. apply pres_write_under. }
  intros _. apply pres_bind.
  { apply pres_retry. apply pres_body_write_common. }
  intros _. apply pres_bind; [|intros _; apply pres_ret].
  apply keeps_pres. apply keeps_body_final_read.
Qed.

(* whatever a run over the faulty filesystem leaves -- returning or raising -- satisfies the
   invariant *)
Theorem packF_Inv : forall lies n sched,
  match packF_gen lies n sched f0 cfg asg with
  | OK _ s => I (st_fs s)
  | Err s => I (st_fs s)
  end.
Proof.
  intros lies n sched. unfold packF_gen.
  apply (pres_pack_proc lies n {| st_fs := f0; st_sched := sched; st_trace := [] |}).
  simpl. apply Inv_prior. exact Hprior.
Qed.
End Run.
