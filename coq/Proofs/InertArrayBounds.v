(* Lemma library for C17, part 6: the intersects_bounds wrappers of the array
   classes (C01 model, whole-array form) on elements that span no coordinates. *)
From Coq Require Import ZArith List Bool Arith Lia.
From SP Require Import Model.Num Model.Arrow Model.Bounds Model.PointKernels
                       Model.Intersect Model.Inert
                       Proofs.BoundsProofs Proofs.MeasuresArrayProofs
                       Proofs.InertProofs Proofs.InertPredicates.
Import ListNotations.
Local Open Scope nat_scope.

Lemma removelast_length : forall A (l : list A), length (removelast l) = length l - 1.
Proof.
  induction l as [|x [|y t] IH]; try reflexivity.
  change (removelast (x :: y :: t)) with (x :: removelast (y :: t)).
  cbn [length] in *. rewrite IH. lia.
Qed.

Lemma nth_removelast : forall A (l : list A) i d, S i < length l ->
  nth i (removelast l) d = nth i l d.
Proof.
  induction l as [|x [|y t] IH]; intros i d H; try (cbn in H; lia).
  change (removelast (x :: y :: t)) with (x :: removelast (y :: t)).
  destruct i as [|i]; [reflexivity|]. cbn [nth]. apply IH. cbn [length] in *. lia.
Qed.

Lemma nth_tl : forall A (l : list A) i d, nth i (tl l) d = nth (S i) l d.
Proof. intros A [|x t] i d; [destruct i; reflexivity | reflexivity]. Qed.

Lemma starts_stops_length : forall (l : list nat),
  length (combine (removelast l) (tl l)) = length l - 1.
Proof.
  intros l. rewrite combine_length, removelast_length.
  destruct l; cbn [tl length]; lia.
Qed.

Lemma starts_stops_nth : forall (l : list nat) i, S i < length l ->
  nth i (combine (removelast l) (tl l)) (0, 0) = (nth i l 0, nth (S i) l 0).
Proof.
  intros l i H. rewrite combine_nth.
  - rewrite nth_removelast by exact H. rewrite nth_tl. reflexivity.
  - rewrite removelast_length. destruct l; cbn [tl length]; lia.
Qed.

(* row i of a kernel that maps over (starts, stops) = (offs[:-1], offs[1:]) *)
Lemma kernel_row : forall (f : nat * nat -> bool) (offs : list nat) i,
  S i < length offs ->
  nth i (map f (combine (removelast offs) (tl offs))) true =
  f (nth i offs 0, nth (S i) offs 0).
Proof.
  intros f offs i H.
  rewrite (nth_map_lt _ _ f _ i true (0, 0)) by (rewrite starts_stops_length; lia).
  rewrite starts_stops_nth by exact H. reflexivity.
Qed.

(* ---- one level: multipoint, line, ring ---- *)

Lemma multipoint_array_empty_false : forall a b r i,
  multipoint_array a b None = Some r -> i < la_len a ->
  getn (buffer_outer_offsets a) i = getn (buffer_outer_offsets a) (S i) ->
  nth i r true = false.
Proof.
  intros a b r i H Hi E. unfold multipoint_array in H.
  destruct (wf_listarr a) eqn:Hwf; cbn [negb] in H; [|discriminate H].
  destruct (wf_outer a Hwf) as (L & _).
  destruct (finite_vals (buffer_values a)) as [vals|]; [|discriminate H].
  unfold starts_stops, select in H. injection H as <-.
  unfold multipoints_intersect_bounds. destruct (orient_box b) as [[[x0 y0] x1] y1].
  rewrite (kernel_row (fun '(s, e) => perform_multipoint x0 y0 x1 y1 vals s e)) by lia.
  apply perform_multipoint_empty. unfold getn in E. rewrite E. apply slice_same.
Qed.

Lemma line_array_empty_false : forall a b r i,
  line_array a b None = Some r -> i < la_len a ->
  getn (buffer_outer_offsets a) i = getn (buffer_outer_offsets a) (S i) ->
  nth i r true = false.
Proof.
  intros a b r i H Hi E. unfold line_array in H.
  destruct (wf_listarr a) eqn:Hwf; cbn [negb] in H; [|discriminate H].
  destruct (wf_outer a Hwf) as (L & _).
  destruct (finite_vals (buffer_values a)) as [vals|]; [|discriminate H].
  unfold starts_stops, select in H. injection H as <-.
  unfold lines_intersect_bounds. destruct (orient_box b) as [[[x0 y0] x1] y1].
  destruct ((x0 =? x1)%Z || (y0 =? y1)%Z).
  - rewrite (nth_map_lt _ _ (fun _ : nat => false) _ i true 0)
      by (rewrite removelast_length; lia). reflexivity.
  - rewrite (kernel_row (fun '(s, e) => perform_line x0 y0 x1 y1 vals s e)) by lia.
    apply perform_line_empty. unfold getn in E. rewrite E. apply slice_same.
Qed.

(* ---- two levels: multiline, polygon ---- *)

(* what well-formedness gives for the two offsets levels the wrappers read *)
Lemma two_levels : forall a offsets0 offsets1,
  wf_listarr a = true -> buffer_offsets a = [offsets0; offsets1] ->
  length offsets0 = la_len a + 1 /\
  mono offsets1 = true /\
  (forall i, i < la_len a -> getn offsets0 i <= getn offsets0 (S i)) /\
  (forall i, i <= la_len a -> getn offsets0 i < length offsets1) /\
  buffer_outer_offsets a = map (getn offsets1) offsets0.
Proof.
  intros a offsets0 offsets1 Hwf Hb. unfold buffer_offsets in Hb.
  destruct (la_offs a) as [|o0 [|o1 [|? ?]]] eqn:E; try discriminate Hb.
  injection Hb as <- <-.
  destruct (wf2 a o0 o1 E Hwf) as (H1 & H2 & H3 & H4 & H5).
  destruct (o0s_facts a o0 H1 H2) as (F1 & F2 & F3 & F4 & F5).
  fold (o0s a o0). repeat split; auto.
  - intros i Hi. replace (S i) with (i + 1) by lia. apply F3, Hi.
  - intros i Hi. specialize (F4 i Hi). lia.
  - unfold buffer_outer_offsets, buffer_offsets. rewrite E. reflexivity.
Qed.

Lemma outer2_eq : forall a offsets0 offsets1 i,
  wf_listarr a = true -> buffer_offsets a = [offsets0; offsets1] -> i < la_len a ->
  getn (buffer_outer_offsets a) i = getn (buffer_outer_offsets a) (S i) ->
  getn offsets1 (getn offsets0 i) = getn offsets1 (getn offsets0 (S i)).
Proof.
  intros a offsets0 offsets1 i Hwf Hb Hi E.
  destruct (two_levels a offsets0 offsets1 Hwf Hb) as (L & _ & _ & _ & O).
  rewrite O in E. rewrite !getn_map_getn in E by lia. exact E.
Qed.

Lemma polygon_array_empty_false : forall a b r i,
  polygon_array a b None = Some r -> i < la_len a ->
  getn (buffer_outer_offsets a) i = getn (buffer_outer_offsets a) (S i) ->
  nth i r true = false.
Proof.
  intros a b r i H Hi E. unfold polygon_array in H.
  destruct (wf_listarr a) eqn:Hwf; cbn [negb] in H; [|discriminate H].
  destruct (buffer_offsets a) as [|offsets0 [|offsets1 [|? ?]]] eqn:Hb; try discriminate H.
  destruct (two_levels a offsets0 offsets1 Hwf Hb) as (L & _).
  pose proof (outer2_eq a offsets0 offsets1 i Hwf Hb Hi E) as E2.
  destruct (finite_vals (buffer_values a)) as [vals|]; [|discriminate H].
  unfold starts_stops, select in H. injection H as <-.
  unfold polygons_intersect_bounds. destruct (orient_box b) as [[[x0 y0] x1] y1].
  rewrite (kernel_row (fun '(s, e) => perform_polygon x0 y0 x1 y1 vals offsets1 s e)) by lia.
  apply perform_polygon_empty. unfold getn in *. rewrite E2. apply slice_same.
Qed.

Lemma multiline_array_empty_false : forall a b r i,
  multiline_array a b None = Some r -> i < la_len a ->
  getn (buffer_outer_offsets a) i = getn (buffer_outer_offsets a) (S i) ->
  nth i r true = false.
Proof.
  intros a b r i H Hi E. unfold multiline_array in H.
  destruct (wf_listarr a) eqn:Hwf; cbn [negb] in H; [|discriminate H].
  destruct (buffer_offsets a) as [|offsets0 [|offsets1 [|? ?]]] eqn:Hb; try discriminate H.
  destruct (two_levels a offsets0 offsets1 Hwf Hb) as (L & M1 & Hle & Hlt & _).
  pose proof (outer2_eq a offsets0 offsets1 i Hwf Hb Hi E) as E2.
  destruct (finite_vals (buffer_values a)) as [vals|]; [|discriminate H].
  unfold starts_stops, select in H. injection H as <-.
  unfold multilines_intersect_bounds. destruct (orient_box b) as [[[x0 y0] x1] y1].
  destruct ((x0 =? x1)%Z || (y0 =? y1)%Z).
  - rewrite (nth_map_lt _ _ (fun _ : nat => false) _ i true 0)
      by (rewrite removelast_length; lia). reflexivity.
  - rewrite (kernel_row (fun '(s, e) => perform_multiline x0 y0 x1 y1 vals offsets1 s e)) by lia.
    apply perform_multiline_empty. intros s e Hin.
    destruct (opairs_slice_flat offsets1 (nth i offsets0 0) (nth (S i) offsets0 0) s e M1
                (Hle i Hi) (Hlt (S i) ltac:(lia)) E2 Hin) as [-> ->].
    apply slice_same.
Qed.

(* ---- three levels: multipolygon ---- *)

Lemma three_levels : forall a offsets0 offsets1 offsets2,
  wf_listarr a = true -> buffer_offsets a = [offsets0; offsets1; offsets2] ->
  length offsets0 = la_len a + 1 /\
  mono offsets1 = true /\ mono offsets2 = true /\
  (forall i, i < la_len a -> getn offsets0 i <= getn offsets0 (S i)) /\
  (forall i, i <= la_len a -> getn offsets0 i < length offsets1) /\
  last offsets1 0 < length offsets2 /\
  buffer_outer_offsets a = map (getn offsets2) (map (getn offsets1) offsets0).
Proof.
  intros a offsets0 offsets1 offsets2 Hwf Hb. unfold buffer_offsets in Hb.
  destruct (la_offs a) as [|o0 [|o1 [|o2 [|? ?]]]] eqn:E; try discriminate Hb.
  injection Hb as <- <- <-.
  destruct (wf3 a o0 o1 o2 E Hwf) as (H1 & H2 & H3 & H4 & H5 & H6 & H7).
  destruct (o0s_facts a o0 H1 H2) as (F1 & F2 & F3 & F4 & F5).
  fold (o0s a o0). repeat split; auto.
  - intros i Hi. replace (S i) with (i + 1) by lia. apply F3, Hi.
  - intros i Hi. specialize (F4 i Hi). lia.
  - unfold buffer_outer_offsets, buffer_offsets. rewrite E. reflexivity.
Qed.

Lemma multipolygon_array_empty_false : forall a b r i,
  multipolygon_array a b None = Some r -> i < la_len a ->
  getn (buffer_outer_offsets a) i = getn (buffer_outer_offsets a) (S i) ->
  nth i r true = false.
Proof.
  intros a b r i H Hi E. unfold multipolygon_array in H.
  destruct (wf_listarr a) eqn:Hwf; cbn [negb] in H; [|discriminate H].
  destruct (buffer_offsets a) as [|offsets0 [|offsets1 [|offsets2 [|? ?]]]] eqn:Hb;
    try discriminate H.
  destruct (three_levels a offsets0 offsets1 offsets2 Hwf Hb)
    as (L & M1 & M2 & Hle & Hlt & Hl1 & O).
  rewrite O in E. rewrite !getn_map_getn in E by (rewrite ?map_length; lia).
  destruct (finite_vals (buffer_values a)) as [vals|]; [|discriminate H].
  unfold starts_stops, select in H. injection H as <-.
  unfold multipolygons_intersect_bounds. destruct (orient_box b) as [[[x0 y0] x1] y1].
  rewrite (kernel_row
             (fun '(s, e) => perform_multipolygon x0 y0 x1 y1 vals offsets1 offsets2 s e)) by lia.
  apply perform_multipolygon_empty. intros s e Hin.
  set (s0 := nth i offsets0 0) in *. set (e0 := nth (S i) offsets0 0) in *.
  assert (Hs0e0 : s0 <= e0) by (apply (Hle i Hi)).
  assert (He0 : e0 < length offsets1) by (apply (Hlt (S i)); lia).
  destruct (in_opairs _ _ _ Hin) as (j & Hj & -> & ->).
  rewrite slice_length in Hj by lia.
  rewrite !nth_slice by lia.
  (* both ends lie between offsets1[s0] and offsets1[e0], whose offsets2 values are equal *)
  assert (A1 : nth s0 offsets1 0 <= nth (s0 + j) offsets1 0)
    by (apply mono_nth; [exact M1 | lia | lia]).
  assert (A2 : nth (s0 + j) offsets1 0 <= nth (s0 + S j) offsets1 0)
    by (apply mono_nth; [exact M1 | lia | lia]).
  assert (A3 : nth (s0 + S j) offsets1 0 <= nth e0 offsets1 0)
    by (apply mono_nth; [exact M1 | lia | lia]).
  assert (A4 : nth e0 offsets1 0 < length offsets2).
  { pose proof (mono_le_last offsets1 (nth e0 offsets1 0) M1) as Hx.
    specialize (Hx ltac:(apply nth_In; lia)). lia. }
  unfold getn in *.
  rewrite (mono_squeeze offsets2 (nth s0 offsets1 0) (nth e0 offsets1 0)
             (nth (s0 + j) offsets1 0) M2 A1 ltac:(lia) A4 E).
  rewrite (mono_squeeze offsets2 (nth s0 offsets1 0) (nth e0 offsets1 0)
             (nth (s0 + S j) offsets1 0) M2 ltac:(lia) A3 A4 E).
  apply slice_same.
Qed.

Lemma list_array_empty_false : forall a b r i,
  (multipoint_array a b None = Some r \/ line_array a b None = Some r \/
   multiline_array a b None = Some r \/ polygon_array a b None = Some r \/
   multipolygon_array a b None = Some r) ->
  i < la_len a ->
  getn (buffer_outer_offsets a) i = getn (buffer_outer_offsets a) (S i) ->
  nth i r true = false.
Proof.
  intros a b r i [H|[H|[H|[H|H]]]] Hi E.
  - exact (multipoint_array_empty_false a b r i H Hi E).
  - exact (line_array_empty_false a b r i H Hi E).
  - exact (multiline_array_empty_false a b r i H Hi E).
  - exact (polygon_array_empty_false a b r i H Hi E).
  - exact (multipolygon_array_empty_false a b r i H Hi E).
Qed.

(* ---- points ---- *)
Lemma all_some_nth : forall A (l : list (option A)) r i d,
  Intersect.all_some l = Some r -> i < length l -> nth i l None = Some (nth i r d).
Proof.
  induction l as [|[x|] t IH]; intros r i d H Hi; cbn [length] in Hi; try lia;
    cbn [Intersect.all_some] in H; [|discriminate H].
  destruct (Intersect.all_some t) as [rt|] eqn:Et; [|discriminate H].
  injection H as <-. destruct i as [|i]; [reflexivity|].
  cbn [nth]. apply IH; [reflexivity | lia].
Qed.

Lemma all_some_length : forall A (l : list (option A)) r,
  Intersect.all_some l = Some r -> length r = length l.
Proof.
  induction l as [|[x|] t IH]; intros r H; cbn [Intersect.all_some] in H.
  - injection H as <-. reflexivity.
  - destruct (Intersect.all_some t) as [rt|]; [|discriminate H].
    injection H as <-. cbn [length]. rewrite (IH rt eq_refl). reflexivity.
  - discriminate H.
Qed.

Lemma point_array_missing_false : forall a b r i,
  point_array a b None = Some r -> i < fa_len a ->
  isna_at (fa_valid a) (fa_off a) i = true ->
  nth i r true = false.
Proof.
  intros a b r i H Hi Hna. unfold point_array in H.
  destruct (wf_fixarr a); cbn [negb] in H; [|discriminate H].
  destruct (Intersect.all_some (map (point_slot a) (seq 0 (fa_len a)))) as [slots|] eqn:Es;
    [|discriminate H].
  unfold select in H. injection H as <-.
  assert (Hlen : length slots = fa_len a)
    by (rewrite (all_some_length _ _ _ Es), map_length, seq_length; reflexivity).
  rewrite (nth_map_lt _ _ (point_test b) slots i true None) by lia.
  pose proof (all_some_nth _ _ slots i None Es) as Hn.
  rewrite map_length, seq_length in Hn. specialize (Hn Hi).
  rewrite (nth_map_seq _ (point_slot a) (fa_len a) i None Hi) in Hn.
  unfold point_slot in Hn. rewrite Hna in Hn. injection Hn as <-.
  apply point_test_missing.
Qed.
