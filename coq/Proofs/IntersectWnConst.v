(* The winding number (half-open crossing rule) of closed rings is the same at
   all points of an axis-parallel box that no ring boundary enters.
   Horizontal moves leave every edge's contribution unchanged; along a vertical
   move the change of an edge's contribution is phi(B) - phi(A) for a vertex
   potential phi, which telescopes to 0 around a closed ring. *)
From Coq Require Import ZArith Reals Lra Lia Psatz Bool List.
From SP Require Import Model.Num Model.Arrow Model.PointKernels Model.Intersect Spec.Plane
                       Proofs.IntersectPlane Proofs.IntersectLine Proofs.IntersectPolygon
                       Proofs.IntersectPolygonC.
Import ListNotations.
Open Scope R_scope.

(* the point of a non-horizontal edge at a height within its range *)
Lemma edge_point_on_seg : forall A B h, snd A <> snd B ->
  (snd A <= h <= snd B \/ snd B <= h <= snd A) -> on_seg A B (edge_x_at A B h, h).
Proof.
  intros [ax ay_] [bx by_] h N H. unfold edge_x_at, on_seg. simpl in *.
  exists ((h - ay_) / (by_ - ay_)).
  assert (Et : (h - ay_) / (by_ - ay_) * (by_ - ay_) = h - ay_) by (field; lra).
  split; [|split].
  - remember ((h - ay_) / (by_ - ay_)) as t eqn:Ht. clear Ht. destruct H as [H|H]; split; nra.
  - field. lra.
  - lra.
Qed.

Lemma above_01 : forall P V, (above P V = 0 \/ above P V = 1)%Z.
Proof. intros. unfold above. destruct (Rle_dec (snd P) (snd V)); auto. Qed.

Lemma if_mul : forall (c : bool) (z : Z), (if c then z else 0%Z) = (z * (if c then 1 else 0))%Z.
Proof. intros [] z; lia. Qed.

(* ---------------------------------------------------------------- horizontal move *)
Lemma wn_edge_hmove : forall A B y x x',
  (forall s, (x <= s <= x' \/ x' <= s <= x) -> ~ on_seg A B (s, y)) ->
  wn_edge (x, y) A B = wn_edge (x', y) A B.
Proof.
  intros A B y x x' Free. unfold wn_edge. simpl fst. simpl snd.
  destruct (Req_EM_T (snd A) (snd B)) as [E|N]; [reflexivity|].
  change (above (x', y) B) with (above (x, y) B). change (above (x', y) A) with (above (x, y) A).
  destruct (Z.eq_dec (above (x, y) A) (above (x, y) B)) as [Ea|Da].
  { destruct (Rle_dec x (edge_x_at A B y)), (Rle_dec x' (edge_x_at A B y)); lia. }
  apply above_diff_range in Da. simpl in Da.
  pose proof (edge_point_on_seg A B y N Da) as HE.
  destruct (Rle_dec x (edge_x_at A B y)) as [H1|H1], (Rle_dec x' (edge_x_at A B y)) as [H2|H2];
    try reflexivity; exfalso; apply (Free (edge_x_at A B y)); try assumption; lra.
Qed.

(* ---------------------------------------------------------------- vertical move *)
Section VMove.
Variables (A B : P2) (x y y' : R).
Hypothesis Hy : y < y'.
Hypothesis Free : forall h, y <= h <= y' -> ~ on_seg A B (x, h).

(* on which side of the vertical line a point is *)
Definition sd (S : P2) : Z := if Rlt_dec x (fst S) then 1%Z else 0%Z.

(* a point of the edge whose height is in [y, y'] *)
Definition rel (S : P2) : Prop := on_seg A B S /\ y <= snd S <= y'.

Lemma rel_not_x : forall S, rel S -> fst S <> x.
Proof. intros [sx sy] [HS Hh] E. simpl in *. subst sx. exact (Free sy Hh HS). Qed.

Lemma sd_eq : forall S T, rel S -> rel T -> sd S = sd T.
Proof.
  intros S T [HS hS] [HT hT]. unfold sd.
  destruct (Rlt_dec x (fst S)) as [s|s], (Rlt_dec x (fst T)) as [t|t]; try reflexivity; exfalso.
  - destruct (cross_at_x S T x) as (Q & HQ & EQ); [right; lra|].
    apply (rel_not_x Q); [|exact EQ]. split; [exact (on_seg_sub A B S T Q HS HT HQ)|].
    apply (on_seg_bounds_y S T Q y y' HQ); assumption.
  - destruct (cross_at_x S T x) as (Q & HQ & EQ); [left; lra|].
    apply (rel_not_x Q); [|exact EQ]. split; [exact (on_seg_sub A B S T Q HS HT HQ)|].
    apply (on_seg_bounds_y S T Q y y' HQ); assumption.
Qed.

(* the crossing indicator at a height h in [y, y'] is the side of the edge's point there *)
Lemma ind_sd : forall h, snd A <> snd B -> y <= h <= y' ->
  above (x, h) A <> above (x, h) B ->
  rel (edge_x_at A B h, h) /\
  (if Rle_dec x (edge_x_at A B h) then 1%Z else 0%Z) = sd (edge_x_at A B h, h).
Proof.
  intros h N Hh D. apply above_diff_range in D. simpl in D.
  pose proof (edge_point_on_seg A B h N D) as HE.
  assert (R : rel (edge_x_at A B h, h)) by (split; [assumption | simpl; lra]).
  split; [exact R|]. pose proof (rel_not_x _ R) as NX. simpl in NX. unfold sd. simpl.
  destruct (Rle_dec x (edge_x_at A B h)), (Rlt_dec x (edge_x_at A B h)); try reflexivity; lra.
Qed.

Lemma rel_A : (above (x, y) A - above (x, y') A = 1)%Z -> rel A.
Proof.
  unfold above. simpl. intro H. split; [apply on_seg_start|].
  destruct (Rle_dec y (snd A)), (Rle_dec y' (snd A)); try lia; lra.
Qed.

Lemma rel_B : (above (x, y) B - above (x, y') B = 1)%Z -> rel B.
Proof.
  unfold above. simpl. intro H. split; [apply on_seg_end|].
  destruct (Rle_dec y (snd B)), (Rle_dec y' (snd B)); try lia; lra.
Qed.

Lemma above_mono : forall V, (above (x, y') V <= above (x, y) V)%Z.
Proof.
  intro V. unfold above. simpl.
  destruct (Rle_dec y (snd V)), (Rle_dec y' (snd V)); try lia; lra.
Qed.

(* the vertex potential *)
Definition phi (V : P2) : Z := ((above (x, y) V - above (x, y') V) * sd V)%Z.

Lemma wn_edge_vmove :
  (wn_edge (x, y) A B - wn_edge (x, y') A B = phi B - phi A)%Z.
Proof.
  unfold wn_edge, phi. simpl fst. simpl snd.
  destruct (Req_EM_T (snd A) (snd B)) as [Eh|Nh].
  { (* horizontal edge: both endpoints at the same height *)
    rewrite <- (above_eq_same_height (x, y) A B Eh), <- (above_eq_same_height (x, y') A B Eh).
    destruct (Z.eq_dec (above (x, y) A - above (x, y') A) 1) as [E1|D1].
    - assert (RA : rel A) by (now apply rel_A).
      assert (RB : rel B).
      { destruct RA as [_ RA]. split; [apply on_seg_end | rewrite <- Eh; exact RA]. }
      rewrite (sd_eq A B RA RB). lia.
    - pose proof (above_mono A). destruct (above_01 (x, y) A), (above_01 (x, y') A); lia. }
  set (I := Rle_dec x (edge_x_at A B y)). set (I' := Rle_dec x (edge_x_at A B y')).
  pose proof (ind_sd y Nh ltac:(lra)) as FE. pose proof (ind_sd y' Nh ltac:(lra)) as FE'.
  fold I in FE. fold I' in FE'.
  pose proof rel_A as FA. pose proof rel_B as FB.
  pose proof (above_mono A) as MA. pose proof (above_mono B) as MB.
  replace (if I then (above (x, y) B - above (x, y) A)%Z else 0%Z)
    with ((above (x, y) B - above (x, y) A) * (if I then 1 else 0))%Z by (destruct I; lia).
  replace (if I' then (above (x, y') B - above (x, y') A)%Z else 0%Z)
    with ((above (x, y') B - above (x, y') A) * (if I' then 1 else 0))%Z by (destruct I'; lia).
  set (iy := (if I then 1 else 0)%Z) in *. set (iy' := (if I' then 1 else 0)%Z) in *.
  clearbody iy iy'. clear I I'.
  destruct (above_01 (x, y) A) as [uA|uA], (above_01 (x, y) B) as [uB|uB],
           (above_01 (x, y') A) as [vA|vA], (above_01 (x, y') B) as [vB|vB];
    rewrite uA, uB, vA, vB in *; try lia;
    try (specialize (FE ltac:(lia)); destruct FE as [RE EE]);
    try (specialize (FE' ltac:(lia)); destruct FE' as [RE' EE']);
    try (specialize (FA ltac:(lia)));
    try (specialize (FB ltac:(lia)));
    repeat match goal with
           | H1 : rel ?S, H2 : rel ?T |- _ =>
               lazymatch goal with
               | _ : sd S = sd T |- _ => fail
               | _ => lazymatch S with T => fail | _ => pose proof (sd_eq S T H1 H2) end
               end
           end;
    lia.
Qed.
End VMove.

(* ---------------------------------------------------------------- rings *)
Lemma zsum_sub {A} (f g : A -> Z) : forall l,
  (zsum (map f l) - zsum (map g l) = zsum (map (fun e => f e - g e) l))%Z.
Proof. induction l as [|a l IH]; simpl; [reflexivity|]. unfold zsum in *. simpl. lia. Qed.

Lemma wn_ring_hmove : forall vs y x x',
  (forall s, (x <= s <= x' \/ x' <= s <= x) -> ~ line_set vs (s, y)) ->
  wn_ring (x, y) vs = wn_ring (x', y) vs.
Proof.
  intros vs y x x' Free. unfold wn_ring. apply zsum_map_ext. intros [A B] He. simpl.
  apply wn_edge_hmove. intros s Hs HE. apply (Free s Hs). eapply line_set_edge; eassumption.
Qed.

Lemma wn_ring_vmove : forall vs x y y', y < y' -> ring_closed vs ->
  (forall h, y <= h <= y' -> ~ line_set vs (x, h)) ->
  wn_ring (x, y) vs = wn_ring (x, y') vs.
Proof.
  intros vs x y y' Hy Hc Free.
  assert (E : (wn_ring (x, y) vs - wn_ring (x, y') vs = 0)%Z); [|lia].
  unfold wn_ring. rewrite zsum_sub.
  rewrite (zsum_map_ext _ (fun e => (phi x y y' (zp (snd e)) - phi x y y' (zp (fst e)))%Z)).
  - rewrite (zsum_tele (fun v => phi x y y' (zp v))). destruct vs as [|v t]; [reflexivity|].
    unfold ring_closed in Hc. rewrite Hc. lia.
  - intros [A B] He. simpl. apply wn_edge_vmove; [assumption|].
    intros h Hh HE. apply (Free h Hh). eapply line_set_edge; eassumption.
Qed.

(* ---------------------------------------------------------------- the theorem *)
Theorem wn_const_on_boundary_free_box : forall rings X0 Y0 X1 Y1,
  (forall r, In r rings -> ring_closed r) ->
  (forall Q, in_box X0 Y0 X1 Y1 Q -> ~ boundary rings Q) ->
  forall P Q, in_box X0 Y0 X1 Y1 P -> in_box X0 Y0 X1 Y1 Q -> wn rings P = wn rings Q.
Proof.
  intros rings X0 Y0 X1 Y1 Hc Free [px py] [qx qy] [[P1 P2] [P3 P4]] [[Q1 Q2] [Q3 Q4]].
  simpl in *. unfold wn. apply zsum_map_ext. intros r Hr.
  assert (FreeR : forall Q, in_box X0 Y0 X1 Y1 Q -> ~ line_set r Q).
  { intros Q HQ HL. apply (Free Q HQ). exists r. tauto. }
  transitivity (wn_ring (qx, py) r).
  - apply wn_ring_hmove. intros s Hs. apply FreeR. unfold in_box. simpl. lra.
  - destruct (Rtotal_order py qy) as [L|[E|G]].
    + apply wn_ring_vmove; [assumption | now apply Hc |].
      intros h Hh. apply FreeR. unfold in_box. simpl. lra.
    + now subst.
    + symmetry. apply wn_ring_vmove; [assumption | now apply Hc |].
      intros h Hh. apply FreeR. unfold in_box. simpl. lra.
Qed.

Corollary wn_const_on_box_holds : forall rings x0 y0 x1 y1,
  (forall r, In r rings -> ring_closed r) -> wn_const_on_box rings x0 y0 x1 y1.
Proof.
  intros rings x0 y0 x1 y1 Hc Free P Q HP HQ.
  exact (wn_const_on_boundary_free_box rings (IZR x0) (IZR y0) (IZR x1) (IZR y1) Hc Free P Q HP HQ).
Qed.

(* ---------------------------------------------------------------- C01 for polygons, both directions *)
Open Scope Z_scope.

Theorem perform_polygon_correct : forall x0 y0 x1 y1 vals offsets1 start0 stop0,
  x0 < x1 -> y0 < y1 -> wf_ring_offsets vals offsets1 start0 stop0 ->
  holes_in_shell_bbox (rings_at vals offsets1 start0 stop0) ->
  (forall r, In r (rings_at vals offsets1 start0 stop0) -> ring_closed r) ->
  (perform_polygon x0 y0 x1 y1 vals offsets1 start0 stop0 = true <->
   exists P, in_zbox x0 y0 x1 y1 P /\ poly_region (rings_at vals offsets1 start0 stop0) P).
Proof.
  intros * Lx Ly W HB HC. apply perform_polygon_iff_partial; try assumption.
  now apply wn_const_on_box_holds.
Qed.

Theorem perform_multipolygon_correct : forall x0 y0 x1 y1 vals offsets1 offsets2 start0 stop0,
  x0 < x1 -> y0 < y1 ->
  (forall s e, In (s, e) (opairs (slice start0 (stop0 + 1) offsets1)) ->
     wf_ring_offsets vals offsets2 s e /\ holes_in_shell_bbox (rings_at vals offsets2 s e) /\
     forall r, In r (rings_at vals offsets2 s e) -> ring_closed r) ->
  (perform_multipolygon x0 y0 x1 y1 vals offsets1 offsets2 start0 stop0 = true <->
   exists P, in_zbox x0 y0 x1 y1 P /\
             multipoly_region (parts_at vals offsets1 offsets2 start0 stop0) P).
Proof.
  intros * Lx Ly Hwf. unfold perform_multipolygon, multipoly_region, parts_at.
  rewrite existsb_exists. split.
  - intros ([s e] & Hin & H). destruct (Hwf s e Hin) as (W & HB & HC).
    apply perform_polygon_correct in H; try assumption.
    destruct H as (P & HP & HR). exists P. split; [assumption|].
    exists (rings_at vals offsets2 s e). split; [|assumption].
    apply in_map_iff. exists (s, e). tauto.
  - intros (P & HP & rings & Hin & HR). apply in_map_iff in Hin.
    destruct Hin as ([s e] & E & Hin). subst rings. destruct (Hwf s e Hin) as (W & HB & HC).
    exists (s, e). split; [assumption|]. apply perform_polygon_correct; try assumption. eauto.
Qed.
