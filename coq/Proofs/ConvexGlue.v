(* Rings cut into convex pieces along diagonals (Spec/ConvexSpec.v,
   [decomposes]): the winding number of the ring is the sum over the pieces
   (wn_additive: the two directed copies of every diagonal cancel exactly, for
   every point), and for counter-clockwise convex pieces it is 1 at a point
   strictly inside one piece, and ALSO at a point on an open diagonal shared by
   two pieces: there the half-open rule gives the point to exactly one of the
   two pieces (wn_convex_on_edge, owns_sum). *)
From Coq Require Import ZArith List Bool Arith Reals Lra Lia Psatz.
From SP Require Import Model.Num Model.PointKernels Spec.PointShapeSpec Spec.Winding Spec.ConvexSpec
                       Proofs.WindingRefine Proofs.WindingLaws Proofs.ConvexArith
                       Proofs.ConvexWinding Proofs.ConvexPolygon Proofs.ConvexSubdivide.
Import ListNotations.

(* ---- wn_additive ---- *)

Lemma wn_ring_pair : forall P a b, wn_ring P [a; b] = wn_edge P a b.
Proof. intros. unfold wn_ring. cbn [consec map zsum fold_right fst snd]. lia. Qed.

Lemma wn_split : forall P a l1 b l2,
  wn_ring P (a :: l1 ++ b :: l2 ++ [a]) =
  (wn_ring P (a :: l1 ++ [b; a]) + wn_ring P (b :: l2 ++ [a; b]))%Z.
Proof.
  intros P a l1 b l2.
  change (a :: l1 ++ b :: l2 ++ [a]) with ((a :: l1) ++ b :: (l2 ++ [a])).
  change (a :: l1 ++ [b; a]) with ((a :: l1) ++ b :: [a]).
  rewrite (wn_ring_app P (a :: l1) b (l2 ++ [a])), (wn_ring_app P (a :: l1) b [a]).
  replace (b :: l2 ++ [a; b]) with ((b :: l2) ++ a :: [b]) by reflexivity.
  rewrite (wn_ring_app P (b :: l2) a [b]).
  change ((b :: l2) ++ [a]) with (b :: l2 ++ [a]).
  rewrite !wn_ring_pair. pose proof (wn_edge_antisym P a b). lia.
Qed.

Theorem wn_additive : forall P R pieces, decomposes R pieces -> wn_ring P R = wn P pieces.
Proof.
  intros P R pieces H. induction H as [R|a l1 b l2 ps1 ps2 _ IH1 _ IH2].
  - unfold wn. cbn. lia.
  - rewrite wn_split, wn_app, IH1, IH2. reflexivity.
Qed.

(* ---- a point on an open edge of a counter-clockwise convex ring ---- *)

(* which of the two pieces sharing the edge A -> B the half-open rule gives a
   point of the open edge to: the piece on the left of A -> B iff the edge goes
   up, or is horizontal and goes leftwards *)
Definition owns (A B : rpt) : Z :=
  if Rlt_dec (snd A) (snd B) then 1%Z
  else if Rlt_dec (snd B) (snd A) then 0%Z
  else if Rlt_dec (fst B) (fst A) then 1%Z else 0%Z.

Lemma owns_sum : forall A B, (fst A <> fst B \/ snd A <> snd B) -> (owns A B + owns B A = 1)%Z.
Proof.
  intros [a0 b0] [a1 b1] H. unfold owns. cbn [fst snd] in *.
  destruct (Rlt_dec b0 b1), (Rlt_dec b1 b0), (Rlt_dec a1 a0), (Rlt_dec a0 a1);
    try reflexivity; exfalso; lra.
Qed.

Lemma zsum_left_up : forall P es,
  Forall (fun e => turn true (fst e) (snd e) P) es ->
  zsum (map (fun e => wn_edge P (fst e) (snd e)) es) =
  zsum (map (fun e => up (snd P) (fst e) (snd e)) es).
Proof.
  intros P es H. rewrite Forall_forall in H. f_equal. apply map_ext_in.
  intros [A B] Hin. cbn [fst snd]. apply wn_edge_left. exact (H _ Hin).
Qed.

Lemma forallb_false_of_diff : forall y v0 l V1 V2,
  In V1 (v0 :: l) -> In V2 (v0 :: l) -> bit y V1 <> bit y V2 ->
  forallb (same_bit y v0) l = false.
Proof.
  intros y v0 l V1 V2 H1 H2 Hd. destruct (forallb (same_bit y v0) l) eqn:E; [exfalso|reflexivity].
  pose proof (all_same_bit y v0 l (bit y v0) eq_refl E) as Hall. rewrite Forall_forall in Hall.
  apply Hd. rewrite (Hall V1 H1), (Hall V2 H2). reflexivity.
Qed.

Lemma forallb_true_of_all : forall y v0 l,
  (forall V, In V l -> bit y V = bit y v0) -> forallb (same_bit y v0) l = true.
Proof.
  intros y v0 l H. apply forallb_forall. intros V HV. unfold same_bit. apply Z.eqb_eq. now apply H.
Qed.

Lemma turn_not_flat : forall ccw A B C, orient A B C = 0%R -> ~ turn ccw A B C.
Proof. intros ccw A B C E H. destruct ccw; cbn [turn] in H; lra. Qed.

(* some vertex is strictly on the inner side of the line of any given edge *)
Lemma convex_third_vertex : forall ccw vs A B,
  convex_ring ccw vs -> In (A, B) (consec (close_ring vs)) ->
  exists V, In V vs /\ turn ccw A B V.
Proof.
  intros ccw vs A B Hc He. pose proof Hc as [Hlen HT].
  destruct vs as [|v0 [|v1 [|v2 rest]]]; try (cbn in Hlen; lia).
  assert (T012 : turn ccw v0 v1 v2).
  { destruct HT as [[F _] _]. exact (Forall_inv F). }
  destruct (convex_vertex_inner_side ccw _ A B v0 Hc He ltac:(now left)) as [E0|[E0|H0]];
    [| |exists v0; split; [now left | exact H0]];
  (destruct (convex_vertex_inner_side ccw _ A B v1 Hc He ltac:(right; now left)) as [E1|[E1|H1]];
    [| |exists v1; split; [right; now left | exact H1]]);
  (destruct (convex_vertex_inner_side ccw _ A B v2 Hc He ltac:(right; right; now left))
     as [E2|[E2|H2]];
    [| |exists v2; split; [right; right; now left | exact H2]]);
  exfalso; subst v0 v1 v2; revert T012; apply turn_not_flat;
    first [apply orient_same | apply orient_end1 | apply orient_end2].
Qed.

Theorem wn_convex_on_edge : forall vs P A B,
  convex_ring true vs -> on_edge_of_convex vs A B P ->
  wn_ring P (close_ring vs) = owns A B.
Proof.
  intros vs P A B Hc (e1 & e2 & E & (t & Ht & Ex & Ey) & Hin).
  pose proof Hc as [Hlen HT].
  assert (He : In (A, B) (consec (close_ring vs))) by (rewrite E; apply in_or_app; right; now left).
  pose proof (fun V => convex_vertex_inner_side true vs A B V Hc He) as Hside.
  destruct (convex_third_vertex true vs A B Hc He) as (W & HW & TW).
  destruct (consec_In _ _ _ He) as [HA HB]. apply in_close_ring in HA, HB.
  destruct vs as [|v0 l]; [cbn in Hlen; lia|].
  change (close_ring (v0 :: l)) with (v0 :: l ++ [v0]) in *.
  apply Forall_app in Hin as [Hin1 Hin2].
  assert (Hwn : wn_ring P (v0 :: l ++ [v0]) =
                (U (snd P) (v0 :: l ++ [v0]) - up (snd P) A B + wn_edge P A B)%Z).
  { unfold wn_ring, U. rewrite E, !map_app, !zsum_app. cbn [map zsum fold_right fst snd].
    fold (zsum (map (fun e => wn_edge P (fst e) (snd e)) e2)).
    fold (zsum (map (fun e => up (snd P) (fst e) (snd e)) e2)).
    rewrite (zsum_left_up P e1 Hin1), (zsum_left_up P e2 Hin2). lia. }
  pose proof (U_convex (snd P) (turn true) (fun a b c d => four_point true a b c d (snd P)) l v0 HT)
    as HU.
  rewrite Hwn, HU. clear Hwn HU E He Hin1 Hin2 e1 e2 HT Hlen Hc.
  destruct P as [x y], A as [a0 b0], B as [a1 b1]. cbn [fst snd] in *.
  unfold owns, up, bit. cbn [fst snd].
  assert (HO : orient (a0, b0) (a1, b1) (x, y) = 0%R).
  { unfold orient; cbn [fst snd]. rewrite Ex, Ey. ring. }
  destruct (Rlt_dec b0 b1) as [Hup|Hnup].
  - (* upward edge *)
    assert (b0 < y < b1)%R by (rewrite Ey; split; nra).
    rewrite (forallb_false_of_diff y v0 l (a0, b0) (a1, b1) HA HB)
      by (unfold bit; cbn [snd]; rewrite (above_0 y b0), (above_1 y b1) by lra; discriminate).
    rewrite wn_edge_up by (cbn [fst snd]; lra).
    rewrite HO, (above_0 y b0), (above_1 y b1) by lra.
    destruct (Rle_dec 0 0); [reflexivity | exfalso; lra].
  - destruct (Rlt_dec b1 b0) as [Hdown|Hndown].
    + (* downward edge *)
      assert (b1 < y < b0)%R by (rewrite Ey; split; nra).
      rewrite (forallb_false_of_diff y v0 l (a0, b0) (a1, b1) HA HB)
        by (unfold bit; cbn [snd]; rewrite (above_1 y b0), (above_0 y b1) by lra; discriminate).
      rewrite wn_edge_down by (cbn [fst snd]; lra).
      rewrite HO, (above_1 y b0), (above_0 y b1) by lra.
      destruct (Rle_dec 0 0); [reflexivity | exfalso; lra].
    + (* horizontal edge, P on it *)
      assert (Eb : b1 = b0) by lra. subst b1.
      assert (Ey' : y = b0) by (rewrite Ey; ring). clear Ey. subst y.
      rewrite wn_edge_both_above by (cbn [fst snd]; lra). rewrite !above_1 by lra.
      cbn [turn] in TW, Hside.
      assert (Hor : forall V : rpt, orient (a0, b0) (a1, b0) V = ((a1 - a0) * (snd V - b0))%R).
      { intros [v w]. unfold orient; cbn [fst snd]. ring. }
      destruct (Rlt_dec a1 a0) as [Hleft|Hnleft].
      * (* leftwards: the ring is below, some vertex is strictly below *)
        rewrite (forallb_false_of_diff b0 v0 l (a0, b0) W HA HW); [reflexivity|].
        unfold bit; cbn [snd]. rewrite above_1 by lra. rewrite Hor in TW.
        rewrite above_0 by nra. discriminate.
      * (* rightwards: the ring is above, every vertex is at or above *)
        assert (Hlt : (a0 < a1)%R).
        { rewrite Hor in TW. destruct (Rtotal_order a0 a1) as [?|[Eq|?]]; [assumption| |lra].
          subst a1. exfalso. nra. }
        assert (Hbits : forall V, In V (v0 :: l) -> bit b0 V = 1%Z).
        { intros V HV. unfold bit. apply above_1.
          destruct (Hside V HV) as [->|[->|H]]; cbn [snd]; try lra. rewrite Hor in H. nra. }
        rewrite forallb_true_of_all; [reflexivity|].
        intros V HV. rewrite (Hbits V (or_intror HV)), (Hbits v0 (or_introl eq_refl)). reflexivity.
Qed.

Lemma convex_edge_nondegenerate : forall ccw vs A B,
  convex_ring ccw vs -> In (A, B) (consec (close_ring vs)) ->
  fst A <> fst B \/ snd A <> snd B.
Proof.
  intros ccw vs A B Hc He. destruct (convex_third_vertex ccw vs A B Hc He) as (V & _ & TV).
  destruct (Req_dec (fst A) (fst B)) as [E0|N0]; [right|now left]. intros E1.
  revert TV. apply turn_not_flat. unfold orient. rewrite E0, E1. ring.
Qed.

(* ---- rings cut into counter-clockwise convex pieces ---- *)

Lemma wn_pieces_away : forall P qs, away P qs -> wn P (map close_ring qs) = 0%Z.
Proof.
  intros P qs H. apply wn_separated_rings.
  - apply Forall_forall. intros r Hr. apply in_map_iff in Hr. destruct Hr as (q & <- & _).
    apply closed_close_ring.
  - apply Forall_forall. intros r Hr. apply in_map_iff in Hr. destruct Hr as (q & <- & Hq).
    unfold away in H. rewrite Forall_forall in H. exact (H q Hq).
Qed.

Theorem wn_decomposed : forall P R pieces,
  decomposes R (map close_ring pieces) -> Forall (convex_ring true) pieces ->
  (* P strictly inside one piece, separated by a line from each of the others *)
  (forall q1 vs q2, pieces = q1 ++ vs :: q2 ->
     strictly_inside_convex true vs P -> away P (q1 ++ q2) -> wn_ring P R = 1%Z) /\
  (* P on an open diagonal shared by two pieces, strictly inside both otherwise *)
  (forall q1 vs q2 ws q3 A B, pieces = q1 ++ vs :: q2 ++ ws :: q3 ->
     on_edge_of_convex vs A B P -> on_edge_of_convex ws B A P ->
     away P (q1 ++ q2 ++ q3) -> wn_ring P R = 1%Z) /\
  (* P separated by a line from every piece *)
  (away P pieces -> wn_ring P R = 0%Z).
Proof.
  intros P R pieces Hd Hc. rewrite (wn_additive P R _ Hd). split; [|split].
  - intros q1 vs q2 -> Hin Haw. unfold away in Haw. apply Forall_app in Haw as [A1 A2].
    apply Forall_app in Hc as [_ Hc]. pose proof (Forall_inv Hc) as Hvs.
    rewrite map_app, wn_app. cbn [map]. rewrite wn_cons.
    rewrite (wn_pieces_away P q1 A1), (wn_pieces_away P q2 A2).
    rewrite (wn_convex_inside true vs P Hvs Hin). reflexivity.
  - intros q1 vs q2 ws q3 A B -> Hvs Hws Haw. unfold away in Haw.
    apply Forall_app in Haw as [A1 Haw]. apply Forall_app in Haw as [A2 A3].
    apply Forall_app in Hc as [_ Hc]. pose proof (Forall_inv Hc) as Cvs.
    apply Forall_inv_tail in Hc. apply Forall_app in Hc as [_ Hc]. pose proof (Forall_inv Hc) as Cws.
    rewrite map_app, wn_app. cbn [map]. rewrite wn_cons, map_app, wn_app. cbn [map].
    rewrite wn_cons.
    rewrite (wn_pieces_away P q1 A1), (wn_pieces_away P q2 A2), (wn_pieces_away P q3 A3).
    rewrite (wn_convex_on_edge vs P A B Cvs Hvs), (wn_convex_on_edge ws P B A Cws Hws).
    assert (He : In (A, B) (consec (close_ring vs))).
    { destruct Hvs as (e1 & e2 & E & _). rewrite E. apply in_or_app. right. now left. }
    pose proof (owns_sum A B (convex_edge_nondegenerate true vs A B Cvs He)). lia.
  - intros Haw. exact (wn_pieces_away P pieces Haw).
Qed.

(* ---- what this says about the code ----
   The first ring R of the polygon (either way round) is cut into
   counter-clockwise convex pieces; the other rings (holes) are closed and each
   separated from P by a line. *)
Theorem polygon_decomposed : forall x y values offs R others pieces,
  map ring_of (rings_of values offs) = R :: others ->
  decomposes R (map close_ring pieces) \/ decomposes (rev R) (map close_ring pieces) ->
  Forall (convex_ring true) pieces ->
  let P := (IZR x, IZR y) in
  Forall closed others -> Forall (fun r => separated r P) others ->
  (forall q1 vs q2, pieces = q1 ++ vs :: q2 ->
     strictly_inside_convex true vs P -> away P (q1 ++ q2) ->
     point_intersects_polygon x y values offs = true) /\
  (forall q1 vs q2 ws q3 A B, pieces = q1 ++ vs :: q2 ++ ws :: q3 ->
     on_edge_of_convex vs A B P -> on_edge_of_convex ws B A P ->
     away P (q1 ++ q2 ++ q3) ->
     point_intersects_polygon x y values offs = true) /\
  (away P pieces -> point_intersects_polygon x y values offs = false).
Proof.
  intros x y values offs R others pieces Hr Hd Hc P Hcl Hsep.
  rewrite pip_refines_wn, Hr. fold P. rewrite wn_cons, (wn_separated_rings P others Hcl Hsep).
  destruct Hd as [Hd|Hd].
  - destruct (wn_decomposed P R pieces Hd Hc) as [H1 [H2 H3]]. split; [|split].
    + intros q1 vs q2 E Hin Haw. now rewrite (H1 q1 vs q2 E Hin Haw).
    + intros q1 vs q2 ws q3 A B E Hv Hw Haw. now rewrite (H2 q1 vs q2 ws q3 A B E Hv Hw Haw).
    + intros Haw. now rewrite (H3 Haw).
  - destruct (wn_decomposed P (rev R) pieces Hd Hc) as [H1 [H2 H3]].
    rewrite wn_ring_rev in H1, H2, H3. split; [|split].
    + intros q1 vs q2 E Hin Haw. pose proof (H1 q1 vs q2 E Hin Haw) as H.
      replace (wn_ring P R) with (-1)%Z by lia. reflexivity.
    + intros q1 vs q2 ws q3 A B E Hv Hw Haw. pose proof (H2 q1 vs q2 ws q3 A B E Hv Hw Haw) as H.
      replace (wn_ring P R) with (-1)%Z by lia. reflexivity.
    + intros Haw. pose proof (H3 Haw) as H. replace (wn_ring P R) with 0%Z by lia. reflexivity.
Qed.
