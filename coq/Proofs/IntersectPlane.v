(* Segments and boxes in the plane: convexity, crossing an axis-parallel line,
   and "a segment that leaves a box crosses one of its four edges". *)
From Coq Require Import Reals Lra Psatz ZArith List.
From SP Require Import Model.Num Model.PointKernels Spec.Plane.
Import ListNotations.
Open Scope R_scope.

Lemma on_seg_start : forall A B, on_seg A B A.
Proof. intros. exists 0. repeat split; lra. Qed.

Lemma on_seg_end : forall A B, on_seg A B B.
Proof. intros. exists 1. repeat split; lra. Qed.

Lemma on_seg_between : forall A B P, on_seg A B P ->
  (Rmin (fst A) (fst B) <= fst P <= Rmax (fst A) (fst B)) /\
  (Rmin (snd A) (snd B) <= snd P <= Rmax (snd A) (snd B)).
Proof.
  intros A B P (t & Ht & Ex & Ey). rewrite Ex, Ey. unfold Rmin, Rmax.
  destruct (Rle_dec (fst A) (fst B)), (Rle_dec (snd A) (snd B)); repeat split; nra.
Qed.

(* coordinates of a point of a segment lie between any common bounds of the endpoints *)
Lemma on_seg_bounds : forall A B P lx ux ly uy, on_seg A B P ->
  lx <= fst A <= ux -> lx <= fst B <= ux -> ly <= snd A <= uy -> ly <= snd B <= uy ->
  lx <= fst P <= ux /\ ly <= snd P <= uy.
Proof.
  intros A B P lx ux ly uy (t & Ht & Ex & Ey) HA HB HA' HB'. rewrite Ex, Ey. repeat split; nra.
Qed.

(* convexity: a sub-segment of a segment *)
Lemma on_seg_sub : forall A B S T Q,
  on_seg A B S -> on_seg A B T -> on_seg S T Q -> on_seg A B Q.
Proof.
  intros A B S T Q (s1 & H1 & E1x & E1y) (s2 & H2 & E2x & E2y) (t & Ht & Ex & Ey).
  exists (s1 + t * (s2 - s1)). split; [split; nra|].
  rewrite Ex, Ey, E1x, E1y, E2x, E2y. split; ring.
Qed.

(* a segment whose endpoints are on both sides of a vertical (horizontal) line meets it *)
Lemma cross_at_x : forall S T c,
  (fst S <= c <= fst T \/ fst T <= c <= fst S) -> exists Q, on_seg S T Q /\ fst Q = c.
Proof.
  intros [sx sy] [tx ty] c H. simpl in H.
  destruct (Req_dec sx tx) as [E|N].
  - exists (sx, sy). split; [apply on_seg_start|]. simpl. lra.
  - set (t := (c - sx) / (tx - sx)).
    assert (Et : t * (tx - sx) = c - sx) by (unfold t; field; lra).
    exists (c, sy + t * (ty - sy)). split; [|reflexivity].
    exists t. simpl. split; [|split; lra].
    clearbody t. destruct H as [H|H]; split; nra.
Qed.

Lemma cross_at_y : forall S T c,
  (snd S <= c <= snd T \/ snd T <= c <= snd S) -> exists Q, on_seg S T Q /\ snd Q = c.
Proof.
  intros [sx sy] [tx ty] c H. simpl in H.
  destruct (Req_dec sy ty) as [E|N].
  - exists (sx, sy). split; [apply on_seg_start|]. simpl. lra.
  - set (t := (c - sy) / (ty - sy)).
    assert (Et : t * (ty - sy) = c - sy) by (unfold t; field; lra).
    exists (sx + t * (tx - sx), c). split; [|reflexivity].
    exists t. simpl. split; [|split; lra].
    clearbody t. destruct H as [H|H]; split; nra.
Qed.

(* points of the four closed edges of a box *)
Lemma on_h_edge : forall x0 x1 c (Q : P2), x0 < x1 -> snd Q = c -> x0 <= fst Q <= x1 ->
  on_seg (x0, c) (x1, c) Q.
Proof.
  intros x0 x1 c [qx qy] L E H. simpl in *. subst qy.
  exists ((qx - x0) / (x1 - x0)). simpl.
  assert (Et : (qx - x0) / (x1 - x0) * (x1 - x0) = qx - x0) by (field; lra).
  remember ((qx - x0) / (x1 - x0)) as t eqn:Ht. clear Ht.
  split; [split; nra|]. split; lra.
Qed.

Lemma on_v_edge : forall y0 y1 c (Q : P2), y0 < y1 -> fst Q = c -> y0 <= snd Q <= y1 ->
  on_seg (c, y0) (c, y1) Q.
Proof.
  intros y0 y1 c [qx qy] L E H. simpl in *. subst qx.
  exists ((qy - y0) / (y1 - y0)). simpl.
  assert (Et : (qy - y0) / (y1 - y0) * (y1 - y0) = qy - y0) by (field; lra).
  remember ((qy - y0) / (y1 - y0)) as t eqn:Ht. clear Ht.
  split; [split; nra|]. split; lra.
Qed.

Lemma edge_in_box_h : forall x0 y0 x1 y1 c Q, y0 <= c <= y1 ->
  on_seg (x0, c) (x1, c) Q -> x0 <= x1 -> in_box x0 y0 x1 y1 Q.
Proof.
  intros * Hc H L. unfold in_box.
  apply (on_seg_bounds _ _ _ x0 x1 c c) in H; simpl in *; lra.
Qed.

Lemma edge_in_box_v : forall x0 y0 x1 y1 c Q, x0 <= c <= x1 ->
  on_seg (c, y0) (c, y1) Q -> y0 <= y1 -> in_box x0 y0 x1 y1 Q.
Proof.
  intros * Hc H L. unfold in_box.
  apply (on_seg_bounds _ _ _ c c y0 y1) in H; simpl in *; lra.
Qed.

(* the four closed edges: top, bottom, left, right (the order the code tests them) *)
Definition on_box_edges (x0 y0 x1 y1 : R) (Q : P2) : Prop :=
  on_seg (x0, y1) (x1, y1) Q \/ on_seg (x0, y0) (x1, y0) Q \/
  on_seg (x0, y0) (x0, y1) Q \/ on_seg (x1, y0) (x1, y1) Q.

Lemma on_box_edges_in_box : forall x0 y0 x1 y1 Q, x0 <= x1 -> y0 <= y1 ->
  on_box_edges x0 y0 x1 y1 Q -> in_box x0 y0 x1 y1 Q.
Proof.
  intros * Lx Ly [H|[H|[H|H]]].
  - apply (edge_in_box_h x0 y0 x1 y1 y1); [lra | assumption | assumption].
  - apply (edge_in_box_h x0 y0 x1 y1 y0); [lra | assumption | assumption].
  - apply (edge_in_box_v x0 y0 x1 y1 x0); [lra | assumption | assumption].
  - apply (edge_in_box_v x0 y0 x1 y1 x1); [lra | assumption | assumption].
Qed.

(* a segment from a point outside a positive box to a point inside it meets one
   of the four closed edges *)
Lemma box_boundary_crossing : forall x0 y0 x1 y1 A P, x0 < x1 -> y0 < y1 ->
  ~ in_box x0 y0 x1 y1 A -> in_box x0 y0 x1 y1 P ->
  exists Q, on_seg A P Q /\ on_box_edges x0 y0 x1 y1 Q.
Proof.
  intros x0 y0 x1 y1 A P Lx Ly HA [[Px0 Px1] [Py0 Py1]].
  assert (Hend : on_seg A P P) by apply on_seg_end.
  assert (Cases : fst A < x0 \/ x1 < fst A \/ snd A < y0 \/ y1 < snd A).
  { unfold in_box in HA.
    destruct (Rlt_le_dec (fst A) x0); [tauto|]. destruct (Rlt_le_dec x1 (fst A)); [tauto|].
    destruct (Rlt_le_dec (snd A) y0); [tauto|]. destruct (Rlt_le_dec y1 (snd A)); [tauto|].
    exfalso. apply HA. lra. }
  destruct Cases as [C|[C|[C|C]]].
  - (* A left of the box: first the line x = x0 *)
    destruct (cross_at_x A P x0 ltac:(lra)) as (Q1 & S1 & E1).
    destruct (Rlt_le_dec (snd Q1) y0) as [B|B]; [|destruct (Rlt_le_dec y1 (snd Q1)) as [T|T]].
    + destruct (cross_at_y Q1 P y0 ltac:(lra)) as (Q2 & S2 & E2).
      exists Q2. split; [apply (on_seg_sub A P Q1 P); assumption|].
      right; left. apply on_h_edge; try assumption.
      apply (on_seg_bounds _ _ _ x0 x1 (snd Q1) y1) in S2; lra.
    + destruct (cross_at_y Q1 P y1 ltac:(lra)) as (Q2 & S2 & E2).
      exists Q2. split; [apply (on_seg_sub A P Q1 P); assumption|].
      left. apply on_h_edge; try assumption.
      apply (on_seg_bounds _ _ _ x0 x1 y0 (snd Q1)) in S2; lra.
    + exists Q1. split; [assumption|]. right; right; left. apply on_v_edge; try assumption. lra.
  - (* A right of the box: the line x = x1 *)
    destruct (cross_at_x A P x1 ltac:(lra)) as (Q1 & S1 & E1).
    destruct (Rlt_le_dec (snd Q1) y0) as [B|B]; [|destruct (Rlt_le_dec y1 (snd Q1)) as [T|T]].
    + destruct (cross_at_y Q1 P y0 ltac:(lra)) as (Q2 & S2 & E2).
      exists Q2. split; [apply (on_seg_sub A P Q1 P); assumption|].
      right; left. apply on_h_edge; try assumption.
      apply (on_seg_bounds _ _ _ x0 x1 (snd Q1) y1) in S2; lra.
    + destruct (cross_at_y Q1 P y1 ltac:(lra)) as (Q2 & S2 & E2).
      exists Q2. split; [apply (on_seg_sub A P Q1 P); assumption|].
      left. apply on_h_edge; try assumption.
      apply (on_seg_bounds _ _ _ x0 x1 y0 (snd Q1)) in S2; lra.
    + exists Q1. split; [assumption|]. right; right; right. apply on_v_edge; try assumption. lra.
  - (* A below the box: the line y = y0 *)
    destruct (cross_at_y A P y0 ltac:(lra)) as (Q1 & S1 & E1).
    destruct (Rlt_le_dec (fst Q1) x0) as [B|B]; [|destruct (Rlt_le_dec x1 (fst Q1)) as [T|T]].
    + destruct (cross_at_x Q1 P x0 ltac:(lra)) as (Q2 & S2 & E2).
      exists Q2. split; [apply (on_seg_sub A P Q1 P); assumption|].
      right; right; left. apply on_v_edge; try assumption.
      apply (on_seg_bounds _ _ _ (fst Q1) x1 y0 y1) in S2; lra.
    + destruct (cross_at_x Q1 P x1 ltac:(lra)) as (Q2 & S2 & E2).
      exists Q2. split; [apply (on_seg_sub A P Q1 P); assumption|].
      right; right; right. apply on_v_edge; try assumption.
      apply (on_seg_bounds _ _ _ x0 (fst Q1) y0 y1) in S2; lra.
    + exists Q1. split; [assumption|]. right; left. apply on_h_edge; try assumption. lra.
  - (* A above the box: the line y = y1 *)
    destruct (cross_at_y A P y1 ltac:(lra)) as (Q1 & S1 & E1).
    destruct (Rlt_le_dec (fst Q1) x0) as [B|B]; [|destruct (Rlt_le_dec x1 (fst Q1)) as [T|T]].
    + destruct (cross_at_x Q1 P x0 ltac:(lra)) as (Q2 & S2 & E2).
      exists Q2. split; [apply (on_seg_sub A P Q1 P); assumption|].
      right; right; left. apply on_v_edge; try assumption.
      apply (on_seg_bounds _ _ _ (fst Q1) x1 y0 y1) in S2; lra.
    + destruct (cross_at_x Q1 P x1 ltac:(lra)) as (Q2 & S2 & E2).
      exists Q2. split; [apply (on_seg_sub A P Q1 P); assumption|].
      right; right; right. apply on_v_edge; try assumption.
      apply (on_seg_bounds _ _ _ x0 (fst Q1) y0 y1) in S2; lra.
    + exists Q1. split; [assumption|]. left. apply on_h_edge; try assumption. lra.
Qed.
