(* Lemma library for C17, part 5: frames — cx, Dask total_bounds / cx, sjoin —
   as corollaries of the exactness theorems of C04 / C05 / C06. *)
From Coq Require Import ZArith List Bool Arith Lia Permutation.
From SP Require Import Model.Num Model.Arrow Model.Bounds Model.Rtree Model.DaskModel
                       Model.PointKernels Model.PointShape Model.Sjoin Model.Inert
                       Spec.DaskSpec Spec.SjoinSpec Spec.InertSpec
                       Proofs.InertProofs Proofs.DaskProofs Proofs.DaskCxProofs.
Import ListNotations.
Local Open Scope nat_scope.

Section Frames.
  Variable R : Type.
  Variable rbox : R -> bbox.
  Variable hits : R -> list Z -> bool.
  Variable inert : R -> bool.
  (* an inert row has a NaN bounds row (C17_bounds_nan, _empty, _point) and intersects no box
     (C17_intersects_bounds_false_ theorems) *)
  Hypothesis inert_box : forall r, inert r = true -> rbox r = nanbox.
  Hypothesis inert_hits : forall r q, inert r = true -> hits r q = false.

  Let N := fun r => negb (inert r).

  (* ---- total_bounds: NaN rows are ignored by the nan-combination ---- *)
  Lemma box_total_ignores_inert : forall rows,
    box_total (map rbox rows) = box_total (map rbox (filter N rows)).
  Proof.
    induction rows as [|r t IH]; [reflexivity|].
    assert (HN : N r = negb (inert r)) by reflexivity.
    cbn [filter map]. rewrite HN. destruct (inert r) eqn:E; cbn [negb].
    - rewrite <- IH. unfold box_total. cbn [map]. rewrite (inert_box r E). reflexivity.
    - cbn [map]. unfold box_total in *. cbn [map nanmin_l nanmax_l fold_right].
      injection IH as I0 I1 I2 I3.
      unfold nanmin_l, nanmax_l in *. rewrite I0, I1, I2, I3. reflexivity.
  Qed.

  Lemma pandas_total_ignores_inert : forall rows,
    pandas_total_bounds R rbox rows = pandas_total_bounds R rbox (filter N rows).
  Proof. intros rows. unfold pandas_total_bounds. apply box_total_ignores_inert. Qed.

  (* Dask: entire partitions of inert rows (and inert rows anywhere) change nothing;
     from C06's total_bounds_concat, which is proved outright *)
  Lemma dask_total_ignores_inert : forall parts,
    dask_total_bounds R rbox parts = pandas_total_bounds R rbox (filter N (concat parts)).
  Proof.
    intros parts. rewrite total_bounds_concat_rows. apply pandas_total_ignores_inert.
  Qed.

  Lemma dask_total_same : forall parts parts',
    filter N (concat parts') = filter N (concat parts) ->
    dask_total_bounds R rbox parts' = dask_total_bounds R rbox parts.
  Proof.
    intros parts parts' H. rewrite !dask_total_ignores_inert, H. reflexivity.
  Qed.

  (* ---- cx on a pandas frame (C04: the rows whose geometry intersects the box, in
     frame order): inert rows are never selected, the others are unaffected ---- *)
  Lemma pandas_cx_ignores_inert : forall rows q,
    pandas_cx R hits rows q = pandas_cx R hits (filter N rows) q.
  Proof.
    intros rows q. unfold pandas_cx.
    apply (filter_inert_invariant R inert (fun r => hits r q)).
    intros r Hr. apply inert_hits, Hr.
  Qed.

  Lemma pandas_cx_never_inert : forall rows q r,
    In r (pandas_cx R hits rows q) -> inert r = false.
  Proof.
    intros rows q r H. unfold pandas_cx in H. apply filter_In in H. destruct H as [_ H].
    destruct (inert r) eqn:E; [|reflexivity]. rewrite (inert_hits r q E) in H. discriminate H.
  Qed.

  (* with omitted ends (filled from total_bounds) *)
  Lemma pandas_frame_cx_ignores_inert : forall rows k,
    pandas_frame_cx R rbox hits rows k = pandas_frame_cx R rbox hits (filter N rows) k.
  Proof.
    intros rows k. unfold pandas_frame_cx. rewrite <- pandas_total_ignores_inert.
    destruct (finite_query _); [apply pandas_cx_ignores_inert | reflexivity].
  Qed.

  (* ---- cx on a Dask frame, under the contracts of C06_cx ---- *)
  Section DaskCx.
    Hypothesis Hsel : rtree_select_contract.
    Hypothesis Htot : rtree_total_contract.
    Hypothesis Hhits : hits_contract rbox hits.
    Variable parts : list (list R).
    Variable keys : list nat.
    Hypothesis Hwf : forall r, In r (concat parts) -> wf_bbox (rbox r).
    Hypothesis Hperm : Permutation keys (seq 0 (length parts)).

    Lemma dask_cx_ignores_inert : forall k,
      concat (dask_cx R rbox hits parts keys k) =
      pandas_frame_cx R rbox hits (filter N (concat parts)) k.
    Proof.
      intros k.
      rewrite (cx_concat R rbox hits Hsel Htot Hhits parts keys Hwf Hperm k).
      apply pandas_frame_cx_ignores_inert.
    Qed.
  End DaskCx.
End Frames.

(* ---- sjoin: from the enumeration C05_pairs_exact establishes ---- *)

(* a pair of the table never involves a missing left point or a missing right shape *)
Lemma sjoin_pairs_never_missing : forall a rgeoms ps l r,
  pair_enum a rgeoms ps -> In (l, r) ps ->
  isna_at (fa_valid a) (fa_off a) l = false /\ nth_error rgeoms r <> Some None /\
  nth_error rgeoms r <> None.
Proof.
  intros a rgeoms ps l r [_ H] Hin. apply H in Hin.
  destruct Hin as (Hl & sh & Hr & Hh). repeat split.
  - unfold hitb, element_intersects in Hh.
    destruct (isna_at (fa_valid a) (fa_off a) l); [discriminate Hh | reflexivity].
  - rewrite Hr. discriminate.
  - rewrite Hr. discriminate.
Qed.

(* hence a missing row on either side is unmatched: it appears in the outer joins
   exactly as a row without partner *)
Lemma sjoin_missing_left_unmatched : forall a rgeoms ps l,
  pair_enum a rgeoms ps -> l < fa_len a ->
  isna_at (fa_valid a) (fa_off a) l = true ->
  In l (unmatched_left (fa_len a) ps).
Proof.
  intros a rgeoms ps l Hen Hl Hna. unfold unmatched_left.
  apply filter_In. split; [apply in_seq; lia|].
  destruct (existsb (fun p => fst p =? l) ps) eqn:E; [|reflexivity].
  apply existsb_exists in E. destruct E as ([l' r] & Hin & Heq).
  cbn [fst] in Heq. apply Nat.eqb_eq in Heq. subst l'.
  destruct (sjoin_pairs_never_missing a rgeoms ps l r Hen Hin) as (H & _).
  rewrite Hna in H. discriminate H.
Qed.

Lemma sjoin_missing_right_unmatched : forall a rgeoms ps r,
  pair_enum a rgeoms ps -> nth_error rgeoms r = Some None ->
  In r (unmatched_right (length rgeoms) ps).
Proof.
  intros a rgeoms ps r Hen Hr. unfold unmatched_right.
  apply filter_In. split.
  - apply in_seq. split; [lia|]. cbn. apply nth_error_Some. rewrite Hr. discriminate.
  - destruct (existsb (fun p => snd p =? r) ps) eqn:E; [|reflexivity].
    apply existsb_exists in E. destruct E as ([l r'] & Hin & Heq).
    cbn [snd] in Heq. apply Nat.eqb_eq in Heq. subst r'.
    destruct (sjoin_pairs_never_missing a rgeoms ps l r Hen Hin) as (_ & H & _).
    contradiction.
Qed.
