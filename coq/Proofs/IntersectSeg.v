(* segments_intersect decides whether two closed segments share a point. *)
From Coq Require Import ZArith Reals Lra Lia Psatz Bool ZifyBool List.
From SP Require Import Model.Num Model.PointKernels Model.Intersect Spec.Plane
                       Proofs.IntersectSegR.
Import ListNotations.

(* ---------------------------------------------------------------- Z <-> R *)
Lemma IZR_min : forall a b, IZR (Z.min a b) = Rmin (IZR a) (IZR b).
Proof.
  intros a b. destruct (Z.le_ge_cases a b) as [H|H].
  - rewrite Z.min_l by assumption. rewrite Rmin_left; [reflexivity | now apply IZR_le].
  - rewrite Z.min_r by lia. rewrite Rmin_right; [reflexivity | apply IZR_le; lia].
Qed.

Lemma IZR_max : forall a b, IZR (Z.max a b) = Rmax (IZR a) (IZR b).
Proof.
  intros a b. destruct (Z.le_ge_cases a b) as [H|H].
  - rewrite Z.max_r by assumption. rewrite Rmax_right; [reflexivity | now apply IZR_le].
  - rewrite Z.max_l by lia. rewrite Rmax_left; [reflexivity | apply IZR_le; lia].
Qed.

Definition crossZ (ax ay bx by_ cx cy : Z) : Z :=
  ((bx - ax) * (cy - ay) - (by_ - ay) * (cx - ax))%Z.

Lemma crossZ_R : forall ax ay bx by_ cx cy,
  IZR (crossZ ax ay bx by_ cx cy) =
  crossR (IZR ax) (IZR ay) (IZR bx) (IZR by_) (IZR cx) (IZR cy).
Proof.
  intros. unfold crossZ, crossR. now rewrite minus_IZR, !mult_IZR, !minus_IZR.
Qed.

Lemma tri_sgn : forall ax ay bx by_ cx cy,
  triangle_orientation ax ay bx by_ cx cy = Z.sgn (crossZ ax ay bx by_ cx cy).
Proof.
  intros. unfold triangle_orientation, crossZ.
  set (c := ((bx - ax) * (cy - ay) - (by_ - ay) * (cx - ax))%Z).
  destruct (0 <? c)%Z eqn:E1; [|destruct (c <? 0)%Z eqn:E2]; lia.
Qed.

(* ---------------------------------------------------------------- 1-d overlap *)
Definition ov1d (a0 a1 b0 b1 : Z) : Prop :=
  (Z.max (Z.min a0 a1) (Z.min b0 b1) <= Z.min (Z.max a0 a1) (Z.max b0 b1))%Z.

Lemma si1d_spec : forall a0 a1 b0 b1,
  segments_intersect_1d a0 a1 b0 b1 = true <-> ov1d a0 a1 b0 b1.
Proof.
  intros. unfold segments_intersect_1d, ov1d.
  destruct (a1 <? a0)%Z eqn:E1, (b1 <? b0)%Z eqn:E2; lia.
Qed.

Lemma ov1d_R : forall a0 a1 b0 b1, ov1d a0 a1 b0 b1 <->
  (Rmax (Rmin (IZR a0) (IZR a1)) (Rmin (IZR b0) (IZR b1)) <=
   Rmin (Rmax (IZR a0) (IZR a1)) (Rmax (IZR b0) (IZR b1)))%R.
Proof.
  intros. unfold ov1d. rewrite <- !IZR_min, <- !IZR_max, <- !IZR_min.
  split; [apply IZR_le | apply le_IZR].
Qed.

(* ---------------------------------------------------------------- segs_meet in coordinates *)
Lemma segs_meet_coords : forall a0 a1 b0 b1 : pt,
  segs_meet (zp a0) (zp a1) (zp b0) (zp b1) <->
  meetR (IZR (fst a0)) (IZR (snd a0)) (IZR (fst a1)) (IZR (snd a1))
        (IZR (fst b0)) (IZR (snd b0)) (IZR (fst b1)) (IZR (snd b1)).
Proof.
  intros [ax0 ay0] [ax1 ay1] [bx0 by0] [bx1 by1]. unfold segs_meet, on_seg, meetR, zp. simpl.
  split.
  - intros ([px py] & (s & Hs & E1 & E2) & (t & Ht & E3 & E4)). simpl in *.
    exists s, t. repeat split; try tauto; lra.
  - intros (s & t & Hs & Ht & E1 & E2).
    exists ((IZR ax0 + s * (IZR ax1 - IZR ax0))%R, (IZR ay0 + s * (IZR ay1 - IZR ay0))%R).
    split; [exists s | exists t]; simpl; repeat split; try tauto; lra.
Qed.

(* ---------------------------------------------------------------- the decision, unfolded *)
Definition orient_decision (c1 c2 c3 c4 : Z) : bool :=
  if (Z.sgn c1 =? 0)%Z && (Z.sgn c2 =? 0)%Z then true
  else if (Z.sgn c1 =? Z.sgn c2)%Z then false
  else if (Z.sgn c3 =? 0)%Z && (Z.sgn c4 =? 0)%Z then true
  else if (Z.sgn c3 =? Z.sgn c4)%Z then false
  else true.

Lemma segments_intersect_nondeg : forall ax0 ay0 ax1 ay1 bx0 by0 bx1 by1,
  (ax0 <> ax1 \/ ay0 <> ay1) -> (bx0 <> bx1 \/ by0 <> by1) ->
  segments_intersect ax0 ay0 ax1 ay1 bx0 by0 bx1 by1 =
  segments_intersect_1d ax0 ax1 bx0 bx1 && segments_intersect_1d ay0 ay1 by0 by1 &&
  orient_decision (crossZ ax0 ay0 ax1 ay1 bx0 by0) (crossZ ax0 ay0 ax1 ay1 bx1 by1)
                  (crossZ bx0 by0 bx1 by1 ax0 ay0) (crossZ bx0 by0 bx1 by1 ax1 ay1).
Proof.
  intros * NA NB. unfold segments_intersect, orient_decision.
  rewrite !tri_sgn.
  assert (Ha : ((ax0 =? ax1) && (ay0 =? ay1))%Z = false) by lia.
  assert (Hb : ((bx0 =? bx1) && (by0 =? by1))%Z = false) by lia.
  rewrite Ha, Hb. cbn [andb orb negb].
  destruct (segments_intersect_1d ax0 ax1 bx0 bx1); cbn [andb negb]; [|reflexivity].
  destruct (segments_intersect_1d ay0 ay1 by0 by1); cbn [andb negb]; reflexivity.
Qed.

(* sign facts *)
Lemma sgn_both_zero : forall c d, ((Z.sgn c =? 0) && (Z.sgn d =? 0))%Z = true <-> (c = 0 /\ d = 0)%Z.
Proof. intros. rewrite andb_true_iff, !Z.eqb_eq, !Z.sgn_null_iff. tauto. Qed.

Lemma sgn_differ : forall c d, (Z.sgn c =? Z.sgn d)%Z = false -> (c * d <= 0 /\ c <> d)%Z.
Proof.
  intros c d H. apply Z.eqb_neq in H.
  destruct (Z.sgn_spec c) as [[Hc Ec]|[[Hc Ec]|[Hc Ec]]],
           (Z.sgn_spec d) as [[Hd Ed]|[[Hd Ed]|[Hd Ed]]];
    rewrite Ec, Ed in H; try congruence; split; nia.
Qed.

Lemma sgn_same_nonzero : forall c d, (Z.sgn c =? Z.sgn d)%Z = true ->
  ((Z.sgn c =? 0) && (Z.sgn d =? 0))%Z = false ->
  ((0 < c /\ 0 < d) \/ (c < 0 /\ d < 0))%Z.
Proof.
  intros c d H N. apply Z.eqb_eq in H.
  destruct (Z.sgn_spec c) as [[Hc Ec]|[[Hc Ec]|[Hc Ec]]],
           (Z.sgn_spec d) as [[Hd Ed]|[[Hd Ed]|[Hd Ed]]];
    rewrite Ec, Ed in H, N; try discriminate; try lia.
Qed.

(* ---------------------------------------------------------------- main theorem *)
Section Main.
Variables ax0 ay0 ax1 ay1 bx0 by0 bx1 by1 : Z.
Hypothesis NA : ax0 <> ax1 \/ ay0 <> ay1.
Hypothesis NB : bx0 <> bx1 \/ by0 <> by1.

Let c1 := crossZ ax0 ay0 ax1 ay1 bx0 by0.
Let c2 := crossZ ax0 ay0 ax1 ay1 bx1 by1.
Let c3 := crossZ bx0 by0 bx1 by1 ax0 ay0.
Let c4 := crossZ bx0 by0 bx1 by1 ax1 ay1.

Let M := meetR (IZR ax0) (IZR ay0) (IZR ax1) (IZR ay1) (IZR bx0) (IZR by0) (IZR bx1) (IZR by1).

Lemma NA_R : (IZR ax0 <> IZR ax1 \/ IZR ay0 <> IZR ay1)%R.
Proof. destruct NA as [H|H]; [left|right]; intro E; apply eq_IZR in E; contradiction. Qed.
Lemma NB_R : (IZR bx0 <> IZR bx1 \/ IZR by0 <> IZR by1)%R.
Proof. destruct NB as [H|H]; [left|right]; intro E; apply eq_IZR in E; contradiction. Qed.

Lemma decision_true_meet :
  ov1d ax0 ax1 bx0 bx1 -> ov1d ay0 ay1 by0 by1 -> orient_decision c1 c2 c3 c4 = true -> M.
Proof.
  intros Ox Oy D. unfold orient_decision in D.
  apply ov1d_R in Ox. apply ov1d_R in Oy.
  destruct ((Z.sgn c1 =? 0) && (Z.sgn c2 =? 0))%Z eqn:Z12.
  - apply sgn_both_zero in Z12. destruct Z12 as [E1 E2].
    apply collinear_meet; try assumption; try apply NA_R; try apply NB_R.
    + rewrite <- crossZ_R. fold c1. now rewrite E1.
    + rewrite <- crossZ_R. fold c2. now rewrite E2.
  - destruct (Z.sgn c1 =? Z.sgn c2)%Z eqn:S12; [discriminate|].
    apply sgn_differ in S12. destruct S12 as [P12 N12].
    destruct ((Z.sgn c3 =? 0) && (Z.sgn c4 =? 0))%Z eqn:Z34.
    + apply sgn_both_zero in Z34. destruct Z34 as [E3 E4].
      apply meetR_sym. apply collinear_meet; try assumption; try apply NA_R; try apply NB_R.
      * rewrite <- crossZ_R. fold c3. now rewrite E3.
      * rewrite <- crossZ_R. fold c4. now rewrite E4.
      * rewrite (Rmax_comm (Rmin (IZR bx0) (IZR bx1))), (Rmin_comm (Rmax (IZR bx0) (IZR bx1))).
        exact Ox.
      * rewrite (Rmax_comm (Rmin (IZR by0) (IZR by1))), (Rmin_comm (Rmax (IZR by0) (IZR by1))).
        exact Oy.
    + destruct (Z.sgn c3 =? Z.sgn c4)%Z eqn:S34; [discriminate|].
      apply sgn_differ in S34. destruct S34 as [P34 N34].
      apply crossing_meet; rewrite <- !crossZ_R; fold c1 c2 c3 c4.
      * rewrite <- mult_IZR. now apply IZR_le.
      * intro E. apply eq_IZR in E. contradiction.
      * rewrite <- mult_IZR. now apply IZR_le.
      * intro E. apply eq_IZR in E. contradiction.
Qed.

Lemma meet_decision_true : M -> orient_decision c1 c2 c3 c4 = true.
Proof.
  intro HM. unfold orient_decision.
  destruct ((Z.sgn c1 =? 0) && (Z.sgn c2 =? 0))%Z eqn:Z12; [reflexivity|].
  destruct (Z.sgn c1 =? Z.sgn c2)%Z eqn:S12.
  { exfalso. destruct (sgn_same_nonzero _ _ S12 Z12) as [[H1 H2]|[H1 H2]].
    - apply (same_side_pos_no_meet _ _ _ _ _ _ _ _) in HM; [assumption| |];
        rewrite <- crossZ_R; apply (IZR_lt 0); assumption.
    - apply (same_side_neg_no_meet _ _ _ _ _ _ _ _) in HM; [assumption| |];
        rewrite <- crossZ_R; apply (IZR_lt _ 0); assumption. }
  destruct ((Z.sgn c3 =? 0) && (Z.sgn c4 =? 0))%Z eqn:Z34; [reflexivity|].
  destruct (Z.sgn c3 =? Z.sgn c4)%Z eqn:S34; [|reflexivity].
  exfalso. apply meetR_sym in HM.
  destruct (sgn_same_nonzero _ _ S34 Z34) as [[H1 H2]|[H1 H2]].
  - apply (same_side_pos_no_meet _ _ _ _ _ _ _ _) in HM; [assumption| |];
      rewrite <- crossZ_R; apply (IZR_lt 0); assumption.
  - apply (same_side_neg_no_meet _ _ _ _ _ _ _ _) in HM; [assumption| |];
      rewrite <- crossZ_R; apply (IZR_lt _ 0); assumption.
Qed.

Lemma segments_intersect_meetR :
  segments_intersect ax0 ay0 ax1 ay1 bx0 by0 bx1 by1 = true <-> M.
Proof.
  rewrite segments_intersect_nondeg by assumption. fold c1 c2 c3 c4.
  rewrite !andb_true_iff, !si1d_spec. split.
  - intros [[Ox Oy] D]. now apply decision_true_meet.
  - intro HM. repeat split.
    + apply ov1d_R. now apply meetR_proj_x in HM.
    + apply ov1d_R. now apply meetR_proj_y in HM.
    + now apply meet_decision_true.
Qed.
End Main.

Theorem segments_intersect_correct : forall a0 a1 b0 b1 : pt, a0 <> a1 -> b0 <> b1 ->
  (segments_intersect (fst a0) (snd a0) (fst a1) (snd a1)
                      (fst b0) (snd b0) (fst b1) (snd b1) = true
   <-> segs_meet (zp a0) (zp a1) (zp b0) (zp b1)).
Proof.
  intros [ax0 ay0] [ax1 ay1] [bx0 by0] [bx1 by1] NA NB. rewrite segs_meet_coords. simpl.
  apply segments_intersect_meetR.
  - destruct (Z.eq_dec ax0 ax1), (Z.eq_dec ay0 ay1); try tauto. subst. contradiction.
  - destruct (Z.eq_dec bx0 bx1), (Z.eq_dec by0 by1); try tauto. subst. contradiction.
Qed.

(* ---------------------------------------------------------------- zero-length arguments *)
Lemma si_zero_first : forall ax ay_ bx0 by0 bx1 by1, (bx0 <> bx1 \/ by0 <> by1) ->
  segments_intersect ax ay_ ax ay_ bx0 by0 bx1 by1 =
  ((ax =? bx0) && (ay_ =? by0) || (ax =? bx1) && (ay_ =? by1))%Z.
Proof.
  intros * NB. unfold segments_intersect. rewrite !Z.eqb_refl.
  assert (Hb : ((bx0 =? bx1) && (by0 =? by1))%Z = false) by lia.
  rewrite Hb. cbn [andb orb negb].
  destruct (segments_intersect_1d ax ax bx0 bx1) eqn:Ex; cbn [negb].
  2: { symmetry. apply not_true_iff_false in Ex. rewrite si1d_spec in Ex. unfold ov1d in Ex. lia. }
  destruct (segments_intersect_1d ay_ ay_ by0 by1) eqn:Ey; cbn [negb].
  2: { symmetry. apply not_true_iff_false in Ey. rewrite si1d_spec in Ey. unfold ov1d in Ey. lia. }
  destruct ((ax =? bx0) && (ay_ =? by0) || (ax =? bx1) && (ay_ =? by1))%Z; reflexivity.
Qed.

Lemma si_zero_second : forall ax ay_ bx0 by0 bx1 by1, (bx0 <> bx1 \/ by0 <> by1) ->
  segments_intersect bx0 by0 bx1 by1 ax ay_ ax ay_ =
  ((ax =? bx0) && (ay_ =? by0) || (ax =? bx1) && (ay_ =? by1))%Z.
Proof.
  intros * NB. unfold segments_intersect. rewrite !Z.eqb_refl.
  assert (Hb : ((bx0 =? bx1) && (by0 =? by1))%Z = false) by lia.
  rewrite Hb. cbn [andb orb negb].
  destruct (segments_intersect_1d bx0 bx1 ax ax) eqn:Ex; cbn [negb].
  2: { symmetry. apply not_true_iff_false in Ex. rewrite si1d_spec in Ex. unfold ov1d in Ex. lia. }
  destruct (segments_intersect_1d by0 by1 ay_ ay_) eqn:Ey; cbn [negb].
  2: { symmetry. apply not_true_iff_false in Ey. rewrite si1d_spec in Ey. unfold ov1d in Ey. lia. }
  destruct ((ax =? bx0) && (ay_ =? by0) || (ax =? bx1) && (ay_ =? by1))%Z; reflexivity.
Qed.

Lemma si_zero_both : forall ax ay_ bx by_,
  segments_intersect ax ay_ ax ay_ bx by_ bx by_ = false.
Proof.
  intros. unfold segments_intersect. rewrite !Z.eqb_refl. cbn [andb negb orb].
  destruct (negb (segments_intersect_1d ax ax bx bx)); [reflexivity|].
  destruct (negb (segments_intersect_1d ay_ ay_ by_ by_)); reflexivity.
Qed.

Lemma pt_eq_bool : forall ax ay_ bx0 by0 bx1 by1 : Z,
  ((ax =? bx0) && (ay_ =? by0) || (ax =? bx1) && (ay_ =? by1))%Z = true <->
  ((ax, ay_) = (bx0, by0) \/ (ax, ay_) = (bx1, by1)).
Proof.
  intros. rewrite orb_true_iff, !andb_true_iff, !Z.eqb_eq.
  split; intros [H|H]; [left|right|left|right];
    solve [destruct H; subst; reflexivity | inversion H; subst; tauto].
Qed.

(* a zero-length first argument is reported exactly when it equals an endpoint
   of the (non-degenerate) second one -- not when it lies in its interior;
   symmetrically for the second; two zero-length segments are never reported *)
Theorem segments_intersect_zero : forall a b0 b1 : pt,
  (b0 <> b1 ->
   (segments_intersect (fst a) (snd a) (fst a) (snd a) (fst b0) (snd b0) (fst b1) (snd b1) = true
    <-> (a = b0 \/ a = b1)) /\
   (segments_intersect (fst b0) (snd b0) (fst b1) (snd b1) (fst a) (snd a) (fst a) (snd a) = true
    <-> (a = b0 \/ a = b1))) /\
  segments_intersect (fst a) (snd a) (fst a) (snd a) (fst b0) (snd b0) (fst b0) (snd b0) = false.
Proof.
  intros [ax ay_] [bx0 by0] [bx1 by1]. simpl. split.
  - intro NB.
    assert (NB' : bx0 <> bx1 \/ by0 <> by1).
    { destruct (Z.eq_dec bx0 bx1), (Z.eq_dec by0 by1); try tauto. subst. contradiction. }
    rewrite si_zero_first, si_zero_second by assumption. split; apply pt_eq_bool.
  - apply si_zero_both.
Qed.
