(* Lemma library for C14, part 3: the array forms are maps of the ring-level
   measures over the elements (all three nesting depths, any well-formed buffer
   offsets); scalar forms; boundary. *)
From Coq Require Import ZArith List Bool Arith Lia ZifyBool.
From SP Require Import Model.Num Model.Arrow Model.Measures Proofs.BoundsProofs
  Spec.MeasuresSpec Proofs.MeasuresProofs Proofs.MeasuresMapProofs.
Import ListNotations.
Local Open Scope nat_scope.

(* ---- what each kind measures on the rings of one element ---- *)
Definition depth (k : kind) : nat :=
  match k with
  | KMultiPoint | KLine | KRing => 1
  | KMultiLine | KPolygon => 2
  | KMultiPolygon => 3
  end.

Definition spec_area (k : kind) (rings : list (list num)) : num :=
  match k with
  | KPolygon | KMultiPolygon => rings_area rings
  | _ => Some 0%Z
  end.

Definition spec_length (k : kind) (rings : list (list num)) : lenres :=
  match k with
  | KMultiPoint => ([], Some 0%Z)
  | _ => rings_length rings
  end.

(* ================================================================== *)
(** * 1. facts from well-formedness                                      *)
(* ================================================================== *)

(* the first offsets level, sliced to the array's window *)
Definition o0s (a : listarr) (o0 : list nat) : list nat :=
  slice (la_off a) (la_off a + la_len a + 1) o0.

Lemma o0s_facts : forall a o0,
  la_off a + la_len a < length o0 -> mono o0 = true ->
  length (o0s a o0) = la_len a + 1 /\
  mono (o0s a o0) = true /\
  (forall i, i < la_len a -> getn (o0s a o0) i <= getn (o0s a o0) (i + 1)) /\
  (forall i, i <= la_len a -> getn (o0s a o0) i <= last o0 0) /\
  (forall i, i <= la_len a -> In (getn (o0s a o0) i) o0).
Proof.
  intros a o0 Hlen Hm. unfold o0s.
  assert (HL : length (slice (la_off a) (la_off a + la_len a + 1) o0) = la_len a + 1).
  { rewrite slice_length by lia. lia. }
  assert (Hms : mono (slice (la_off a) (la_off a + la_len a + 1) o0) = true)
    by (apply mono_slice, Hm).
  assert (Hin : forall i, i <= la_len a ->
                 In (getn (slice (la_off a) (la_off a + la_len a + 1) o0) i) o0).
  { intros i Hi. eapply in_slice. unfold getn. apply nth_In. rewrite HL. lia. }
  repeat split; auto.
  - intros i Hi. unfold getn. apply mono_nth; [exact Hms | lia | rewrite HL; lia].
  - intros i Hi. apply mono_le_last; [exact Hm | apply Hin, Hi].
Qed.

Lemma wf1 : forall a o0, la_offs a = [o0] -> wf_listarr a = true ->
  la_off a + la_len a < length o0 /\ mono o0 = true /\ last o0 0 <= length (la_vals a).
Proof.
  intros a o0 E H. unfold wf_listarr in H. rewrite E in H. cbn [wf_levels] in H.
  apply andb_true_iff in H. destruct H as [H _].
  apply andb_true_iff in H. destruct H as [H H3].
  apply andb_true_iff in H. destruct H as [H1 H2].
  apply Nat.ltb_lt in H1. apply Nat.leb_le in H3. auto.
Qed.

Lemma wf2 : forall a o0 o1, la_offs a = [o0; o1] -> wf_listarr a = true ->
  la_off a + la_len a < length o0 /\ mono o0 = true /\
  last o0 0 < length o1 /\ mono o1 = true /\ last o1 0 <= length (la_vals a).
Proof.
  intros a o0 o1 E H. unfold wf_listarr in H. rewrite E in H. cbn [wf_levels] in H.
  apply andb_true_iff in H. destruct H as [H _].
  apply andb_true_iff in H. destruct H as [H H3].
  apply andb_true_iff in H. destruct H as [H1 H2].
  apply andb_true_iff in H3. destruct H3 as [H3 H5].
  apply andb_true_iff in H3. destruct H3 as [H3 H4].
  apply Nat.ltb_lt in H1. apply Nat.ltb_lt in H3. apply Nat.leb_le in H5. auto 6.
Qed.

Lemma wf3 : forall a o0 o1 o2, la_offs a = [o0; o1; o2] -> wf_listarr a = true ->
  la_off a + la_len a < length o0 /\ mono o0 = true /\
  last o0 0 < length o1 /\ mono o1 = true /\
  last o1 0 < length o2 /\ mono o2 = true /\ last o2 0 <= length (la_vals a).
Proof.
  intros a o0 o1 o2 E H. unfold wf_listarr in H. rewrite E in H. cbn [wf_levels] in H.
  apply andb_true_iff in H. destruct H as [H _].
  apply andb_true_iff in H. destruct H as [H H3].
  apply andb_true_iff in H. destruct H as [H1 H2].
  apply andb_true_iff in H3. destruct H3 as [H3 H5].
  apply andb_true_iff in H3. destruct H3 as [H3 H4].
  apply andb_true_iff in H5. destruct H5 as [H5 H7].
  apply andb_true_iff in H5. destruct H5 as [H5 H6].
  apply Nat.ltb_lt in H1. apply Nat.ltb_lt in H3. apply Nat.ltb_lt in H5.
  apply Nat.leb_le in H7. auto 8.
Qed.

Lemma isna_nth : forall a i, i < la_len a ->
  nth i (la_isna a) false = isna_at (la_valid a) (la_off a) i.
Proof. intros a i H. unfold la_isna. apply nth_map_seq. exact H. Qed.

Lemma zeros_nan_map : forall R (z : R) a,
  zeros_nan z (la_isna a) =
  map (fun i => if isna_at (la_valid a) (la_off a) i then None else Some z) (seq 0 (la_len a)).
Proof. intros. unfold zeros_nan, la_isna. rewrite map_map. reflexivity. Qed.

(* ================================================================== *)
(** * 2. rows of the three map kernels                                   *)
(* ================================================================== *)

Section Rows.
  Variable R : Type.
  Variable fn : list num -> list nat -> R.
  Variable spec : list (list num) -> R.
  (* the kernel applied to any admissible slice of the innermost offsets is the
     ring-level measure of those rings *)
  Hypothesis fn_spec : forall vals o s e,
    mono o = true -> all_even o = true -> last o 0 <= length vals ->
    s <= e -> e < length o ->
    fn vals (slice s (e + 1) o) = spec (slice s e (segs vals o)).

  Lemma rows1 : forall a o0,
    la_offs a = [o0] -> wf_listarr a = true -> even_inner a = true ->
    (forall vals s e, s <= e -> e <= length vals -> Nat.even s = true -> Nat.even e = true ->
       fn vals [s; e] = spec [slice s e vals]) ->
    map_nested1 fn (buffer_values a) (buffer_offsets a) (la_isna a) =
    map (fun i => if isna_at (la_valid a) (la_off a) i then None
                  else Some (spec (elem_rings a i))) (seq 0 (la_len a)).
  Proof.
    intros a o0 E Hwf Hev fn1.
    destruct (wf1 a o0 E Hwf) as (Hlen & Hm0 & Hl0).
    destruct (o0s_facts a o0 Hlen Hm0) as (HL & Hms & Hstep & Hle & Hin).
    unfold elem_rings, buffer_offsets. rewrite E. fold (o0s a o0).
    unfold map_nested1. rewrite HL. replace (la_len a + 1 - 1) with (la_len a) by lia.
    apply map_ext_in. intros i Hi. apply in_seq in Hi.
    rewrite isna_nth by lia.
    destruct (isna_at (la_valid a) (la_off a) i); [reflexivity|].
    f_equal.
    rewrite (slice_pair _ i (o0s a o0) 0) by lia.
    replace (S i) with (i + 1) by lia.
    fold (getn (o0s a o0) i). fold (getn (o0s a o0) (i + 1)).
    unfold even_inner in Hev. rewrite E in Hev. cbn [last] in Hev.
    rewrite forallb_forall in Hev.
    apply fn1.
    - apply Hstep. lia.
    - unfold buffer_values. specialize (Hle (i + 1) ltac:(lia)). lia.
    - apply Hev, Hin. lia.
    - apply Hev, Hin. lia.
  Qed.

  Lemma rows2 : forall a o0 o1,
    la_offs a = [o0; o1] -> wf_listarr a = true -> even_inner a = true ->
    map_nested2 fn (buffer_values a) (buffer_offsets a) (la_isna a) =
    map (fun i => if isna_at (la_valid a) (la_off a) i then None
                  else Some (spec (elem_rings a i))) (seq 0 (la_len a)).
  Proof.
    intros a o0 o1 E Hwf Hev.
    destruct (wf2 a o0 o1 E Hwf) as (Hlen & Hm0 & Hl0 & Hm1 & Hl1).
    destruct (o0s_facts a o0 Hlen Hm0) as (HL & Hms & Hstep & Hle & Hin).
    unfold elem_rings, buffer_offsets. rewrite E. fold (o0s a o0).
    unfold map_nested2. rewrite HL. replace (la_len a + 1 - 1) with (la_len a) by lia.
    apply map_ext_in. intros i Hi. apply in_seq in Hi.
    rewrite isna_nth by lia.
    destruct (isna_at (la_valid a) (la_off a) i); [reflexivity|].
    f_equal.
    unfold even_inner in Hev. rewrite E in Hev. cbn [last] in Hev.
    apply fn_spec; auto.
    - apply Hstep. lia.
    - specialize (Hle (i + 1) ltac:(lia)). lia.
  Qed.

  Lemma rows3 : forall a o0 o1 o2,
    la_offs a = [o0; o1; o2] -> wf_listarr a = true -> even_inner a = true ->
    map_nested3 fn (buffer_values a) (buffer_offsets a) (la_isna a) =
    map (fun i => if isna_at (la_valid a) (la_off a) i then None
                  else Some (spec (elem_rings a i))) (seq 0 (la_len a)).
  Proof.
    intros a o0 o1 o2 E Hwf Hev.
    destruct (wf3 a o0 o1 o2 E Hwf) as (Hlen & Hm0 & Hl0 & Hm1 & Hl1 & Hm2 & Hl2).
    destruct (o0s_facts a o0 Hlen Hm0) as (HL & Hms & Hstep & Hle & Hin).
    unfold elem_rings, buffer_offsets. rewrite E. fold (o0s a o0).
    unfold map_nested3. rewrite HL. replace (la_len a + 1 - 1) with (la_len a) by lia.
    apply map_ext_in. intros i Hi. apply in_seq in Hi.
    rewrite isna_nth by lia.
    destruct (isna_at (la_valid a) (la_off a) i); [reflexivity|].
    f_equal.
    unfold even_inner in Hev. rewrite E in Hev. cbn [last] in Hev.
    pose proof (Hstep i ltac:(lia)) as S1.
    pose proof (Hle (i + 1) ltac:(lia)) as S2.
    apply fn_spec; auto.
    - unfold getn at 1 3. apply mono_nth; [exact Hm1 | exact S1 | lia].
    - assert (getn o1 (getn (o0s a o0) (i + 1)) <= last o1 0); [|lia].
      apply mono_le_last; [exact Hm1|]. unfold getn at 1. apply nth_In. lia.
  Qed.
End Rows.

(* the kernels on two offsets = the measure of the single ring between them *)
Lemma area_pair : forall vals s e,
  s <= e -> e <= length vals -> Nat.even s = true -> Nat.even e = true ->
  compute_area vals [s; e] = rings_area [slice s e vals].
Proof.
  intros vals s e Hse He Es Ee.
  rewrite compute_area_rings; [reflexivity| | |].
  - cbn. apply andb_true_iff. split; [apply Nat.leb_le; exact Hse | reflexivity].
  - unfold all_even. cbn. rewrite Es, Ee. reflexivity.
  - cbn. exact He.
Qed.

Lemma length_pair : forall vals s e,
  s <= e -> e <= length vals -> Nat.even s = true -> Nat.even e = true ->
  compute_line_length vals [s; e] = rings_length [slice s e vals].
Proof.
  intros vals s e Hse He Es Ee.
  rewrite compute_length_rings; [reflexivity| | |].
  - cbn. apply andb_true_iff. split; [apply Nat.leb_le; exact Hse | reflexivity].
  - unfold all_even. cbn. rewrite Es, Ee. reflexivity.
  - cbn. exact He.
Qed.

Lemma map_joinn : forall A (f : A -> bool) (g : A -> num) l,
  map joinn (map (fun i => if f i then None else Some (g i)) l) =
  map (fun i => if f i then None else g i) l.
Proof.
  intros. rewrite map_map. apply map_ext. intros i. destruct (f i); reflexivity.
Qed.

(* ================================================================== *)
(** * 3. C14_array_is_map                                                *)
(* ================================================================== *)

Theorem array_is_map : forall k a,
  length (la_offs a) = depth k -> wf_listarr a = true -> even_inner a = true ->
  arr_area k a =
    map (fun i => if isna_at (la_valid a) (la_off a) i then None
                  else spec_area k (elem_rings a i)) (seq 0 (la_len a))
  /\
  arr_length k a =
    map (fun i => if isna_at (la_valid a) (la_off a) i then None
                  else Some (spec_length k (elem_rings a i))) (seq 0 (la_len a)).
Proof.
  intros k a Hd Hwf Hev.
  destruct k; cbn [depth] in Hd; unfold arr_area, arr_length, spec_area, spec_length.
  - (* multipoint *) split; apply zeros_nan_map.
  - (* line *)
    destruct (la_offs a) as [|o0 [|? ?]] eqn:E; cbn [length] in Hd; try lia.
    split; [apply zeros_nan_map|].
    apply (rows1 _ compute_line_length rings_length a o0 E Hwf Hev). apply length_pair.
  - (* ring *)
    destruct (la_offs a) as [|o0 [|? ?]] eqn:E; cbn [length] in Hd; try lia.
    split; [apply zeros_nan_map|].
    apply (rows1 _ compute_line_length rings_length a o0 E Hwf Hev). apply length_pair.
  - (* multiline *)
    destruct (la_offs a) as [|o0 [|o1 [|? ?]]] eqn:E; cbn [length] in Hd; try lia.
    split; [apply zeros_nan_map|].
    apply (rows2 _ compute_line_length rings_length length_on_slice a o0 o1 E Hwf Hev).
  - (* polygon *)
    destruct (la_offs a) as [|o0 [|o1 [|? ?]]] eqn:E; cbn [length] in Hd; try lia.
    split.
    + rewrite (rows2 _ compute_area rings_area area_on_slice a o0 o1 E Hwf Hev).
      apply map_joinn.
    + apply (rows2 _ compute_line_length rings_length length_on_slice a o0 o1 E Hwf Hev).
  - (* multipolygon *)
    destruct (la_offs a) as [|o0 [|o1 [|o2 [|? ?]]]] eqn:E; cbn [length] in Hd; try lia.
    split.
    + rewrite (rows3 _ compute_area rings_area area_on_slice a o0 o1 o2 E Hwf Hev).
      apply map_joinn.
    + apply (rows3 _ compute_line_length rings_length length_on_slice a o0 o1 o2 E Hwf Hev).
Qed.

(* ================================================================== *)
(** * 4. boundary                                                        *)
(* ================================================================== *)

Lemma isna_at_fresh : forall a i, i < la_len a ->
  isna_at (Some (map negb (la_isna a))) 0 i = isna_at (la_valid a) (la_off a) i.
Proof.
  intros a i Hi. unfold isna_at at 1. cbn [Nat.add].
  rewrite (nth_indep _ true (negb false)) by (rewrite map_length; unfold la_isna;
    rewrite map_length, seq_length; exact Hi).
  rewrite map_nth, isna_nth by exact Hi. apply negb_involutive.
Qed.

Lemma la_isna_fresh : forall a (b : listarr),
  la_valid b = Some (map negb (la_isna a)) -> la_off b = 0 -> la_len b = la_len a ->
  la_isna b = la_isna a.
Proof.
  intros a b Hv Ho Hl. unfold la_isna at 1. rewrite Hv, Ho, Hl.
  unfold la_isna at 2.
  apply map_ext_in. intros i Hi. apply in_seq in Hi. apply isna_at_fresh. lia.
Qed.

Lemma slice_all : forall A (l : list A) n, length l <= n -> slice 0 n l = l.
Proof. intros A l n H. unfold slice. cbn [skipn]. rewrite Nat.sub_0_r. apply firstn_all2, H. Qed.

(* MultiPolygonArray.boundary: same values buffer, same inner (ring) offsets,
   missing stays missing, and every element has exactly the rings it had *)
Theorem multipolygon_boundary_spec : forall a o0 o1 o2,
  la_offs a = [o0; o1; o2] -> wf_listarr a = true ->
  let b := multipolygon_boundary a in
  la_len b = la_len a /\
  buffer_values b = buffer_values a /\
  last (la_offs b) [] = o2 /\
  la_isna b = la_isna a /\
  (forall i, i < la_len a -> elem_rings b i = elem_rings a i).
Proof.
  intros a o0 o1 o2 E Hwf.
  destruct (wf3 a o0 o1 o2 E Hwf) as (Hlen & Hm0 & Hl0 & Hm1 & Hl1 & Hm2 & Hl2).
  destruct (o0s_facts a o0 Hlen Hm0) as (HL & Hms & Hstep & Hle & Hin).
  unfold multipolygon_boundary, buffer_offsets. rewrite E. fold (o0s a o0).
  cbv zeta. cbn [la_len la_offs last buffer_values la_vals].
  repeat split.
  - apply la_isna_fresh; reflexivity.
  - intros i Hi. unfold elem_rings, buffer_offsets.
    cbn [la_offs la_off la_len buffer_values la_vals]. rewrite E. fold (o0s a o0).
    rewrite slice_all by (rewrite map_length, HL; lia).
    rewrite !getn_map_getn by (rewrite HL; lia). reflexivity.
Qed.

Lemma mpb_unfold : forall a o0 o1 o2, la_offs a = [o0; o1; o2] ->
  multipolygon_boundary a =
  {| la_off := 0; la_len := la_len a; la_valid := Some (map negb (la_isna a));
     la_offs := [map (getn o1) (o0s a o0); o2]; la_vals := buffer_values a |}.
Proof.
  intros a o0 o1 o2 E. unfold multipolygon_boundary, buffer_offsets. rewrite E. reflexivity.
Qed.

(* hence the same lengths, element by element (model level: the very same rows) *)
Theorem multipolygon_boundary_length : forall a o0 o1 o2,
  la_offs a = [o0; o1; o2] -> wf_listarr a = true ->
  arr_length KMultiLine (multipolygon_boundary a) = arr_length KMultiPolygon a.
Proof.
  intros a o0 o1 o2 E Hwf.
  destruct (wf3 a o0 o1 o2 E Hwf) as (Hlen & Hm0 & Hl0 & Hm1 & Hl1 & Hm2 & Hl2).
  destruct (o0s_facts a o0 Hlen Hm0) as (HL & Hms & Hstep & Hle & Hin).
  unfold arr_length.
  rewrite (la_isna_fresh a (multipolygon_boundary a));
    try (rewrite (mpb_unfold a o0 o1 o2 E); reflexivity).
  rewrite (mpb_unfold a o0 o1 o2 E).
  change (buffer_offsets
            {| la_off := 0; la_len := la_len a; la_valid := Some (map negb (la_isna a));
               la_offs := [map (getn o1) (o0s a o0); o2]; la_vals := buffer_values a |})
    with [slice 0 (0 + la_len a + 1) (map (getn o1) (o0s a o0)); o2].
  change (buffer_values
            {| la_off := 0; la_len := la_len a; la_valid := Some (map negb (la_isna a));
               la_offs := [map (getn o1) (o0s a o0); o2]; la_vals := buffer_values a |})
    with (buffer_values a).
  rewrite slice_all by (rewrite map_length, HL; lia).
  unfold buffer_offsets. rewrite E. fold (o0s a o0).
  unfold map_nested2, map_nested3. rewrite map_length.
  apply map_ext_in. intros i Hi. apply in_seq in Hi. rewrite HL in Hi.
  destruct (nth i (la_isna a) false); [reflexivity|].
  rewrite !getn_map_getn by (rewrite HL; lia). reflexivity.
Qed.

(* PolygonArray.boundary is the same pyarrow array read as multilines *)
Theorem polygon_boundary_spec : forall a,
  polygon_boundary a = a /\
  arr_length KMultiLine (polygon_boundary a) = arr_length KPolygon a.
Proof. intros a. split; reflexivity. Qed.
