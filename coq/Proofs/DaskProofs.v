(* C06: lemma library, part 1 — nan-combination of bounds, total_bounds of a
   partitioned frame, the kernel over concatenated coordinate lists, and the bridge
   from C13's arrays to the row-level model. *)
From Coq Require Import ZArith List Bool Arith Lia ZifyBool Permutation.
From SP Require Import Model.Num Model.Arrow Model.Bounds Model.Rtree Model.DaskModel
                       Spec.BoundsSpec Spec.DaskSpec Proofs.BoundsProofs.
Import ListNotations.

(* ================================================================== *)
(** * 1. nanmin / nanmax                                               *)
(* ================================================================== *)

Lemma nanmin2_none_r : forall a, nanmin2 a None = a.
Proof. intros [x|]; reflexivity. Qed.
Lemma nanmax2_none_r : forall a, nanmax2 a None = a.
Proof. intros [x|]; reflexivity. Qed.

Lemma nanmin2_assoc : forall a b c, nanmin2 a (nanmin2 b c) = nanmin2 (nanmin2 a b) c.
Proof.
  intros [x|] [y|] [z|]; cbn; try reflexivity. f_equal. lia.
Qed.
Lemma nanmax2_assoc : forall a b c, nanmax2 a (nanmax2 b c) = nanmax2 (nanmax2 a b) c.
Proof.
  intros [x|] [y|] [z|]; cbn; try reflexivity. f_equal. lia.
Qed.

Lemma nanmin_l_app : forall l1 l2,
  nanmin_l (l1 ++ l2) = nanmin2 (nanmin_l l1) (nanmin_l l2).
Proof.
  induction l1 as [|a t IH]; intros l2; [reflexivity|].
  cbn [app nanmin_l fold_right]. fold (nanmin_l (t ++ l2)). fold (nanmin_l t).
  rewrite IH. apply nanmin2_assoc.
Qed.
Lemma nanmax_l_app : forall l1 l2,
  nanmax_l (l1 ++ l2) = nanmax2 (nanmax_l l1) (nanmax_l l2).
Proof.
  induction l1 as [|a t IH]; intros l2; [reflexivity|].
  cbn [app nanmax_l fold_right]. fold (nanmax_l (t ++ l2)). fold (nanmax_l t).
  rewrite IH. apply nanmax2_assoc.
Qed.

Lemma nanmin_l_cons : forall a l, nanmin_l (a :: l) = nanmin2 a (nanmin_l l).
Proof. reflexivity. Qed.
Lemma nanmax_l_cons : forall a l, nanmax_l (a :: l) = nanmax2 a (nanmax_l l).
Proof. reflexivity. Qed.

Lemma nanmin_l_concat : forall ls, nanmin_l (map nanmin_l ls) = nanmin_l (concat ls).
Proof.
  induction ls as [|l ls IH]; [reflexivity|].
  cbn [map concat]. rewrite nanmin_l_cons, nanmin_l_app, IH. reflexivity.
Qed.
Lemma nanmax_l_concat : forall ls, nanmax_l (map nanmax_l ls) = nanmax_l (concat ls).
Proof.
  induction ls as [|l ls IH]; [reflexivity|].
  cbn [map concat]. rewrite nanmax_l_cons, nanmax_l_app, IH. reflexivity.
Qed.

(* a lower bound *)
Lemma nanmin_l_le : forall l v, In (Some v) l -> exists m, nanmin_l l = Some m /\ (m <= v)%Z.
Proof.
  induction l as [|a t IH]; intros v Hin; [destruct Hin|].
  rewrite nanmin_l_cons. destruct Hin as [->|Hin].
  - destruct (nanmin_l t) as [m|]; cbn; eexists; split; try reflexivity; lia.
  - destruct (IH v Hin) as (m & -> & Hm).
    destruct a as [x|]; cbn; eexists; split; try reflexivity; lia.
Qed.
Lemma nanmax_l_ge : forall l v, In (Some v) l -> exists m, nanmax_l l = Some m /\ (v <= m)%Z.
Proof.
  induction l as [|a t IH]; intros v Hin; [destruct Hin|].
  rewrite nanmax_l_cons. destruct Hin as [->|Hin].
  - destruct (nanmax_l t) as [m|]; cbn; eexists; split; try reflexivity; lia.
  - destruct (IH v Hin) as (m & -> & Hm).
    destruct a as [x|]; cbn; eexists; split; try reflexivity; lia.
Qed.

(* the value is attained, or everything is NaN *)
Lemma nanmin_l_none : forall l, nanmin_l l = None <-> (forall x, In x l -> x = None).
Proof.
  induction l as [|a t IH]; [split; [intros _ x []|reflexivity]|].
  rewrite nanmin_l_cons. split.
  - intros H x [<-|Hx].
    + destruct a; [destruct (nanmin_l t); discriminate|reflexivity].
    + destruct a; [destruct (nanmin_l t); discriminate|]. cbn in H. apply IH; assumption.
  - intros H. rewrite (H a (or_introl eq_refl)). cbn. apply IH.
    intros x Hx. apply H. right; exact Hx.
Qed.
Lemma nanmax_l_none : forall l, nanmax_l l = None <-> (forall x, In x l -> x = None).
Proof.
  induction l as [|a t IH]; [split; [intros _ x []|reflexivity]|].
  rewrite nanmax_l_cons. split.
  - intros H x [<-|Hx].
    + destruct a; [destruct (nanmax_l t); discriminate|reflexivity].
    + destruct a; [destruct (nanmax_l t); discriminate|]. cbn in H. apply IH; assumption.
  - intros H. rewrite (H a (or_introl eq_refl)). cbn. apply IH.
    intros x Hx. apply H. right; exact Hx.
Qed.
Lemma nanmin_l_in : forall l m, nanmin_l l = Some m -> In (Some m) l.
Proof.
  induction l as [|a t IH]; intros m H; [discriminate|].
  rewrite nanmin_l_cons in H.
  destruct a as [x|]; cbn in H.
  - destruct (nanmin_l t) as [y|] eqn:E.
    + injection H as <-. destruct (Z.min_spec x y) as [[_ ->]|[_ ->]];
        [left; reflexivity | right; apply IH; reflexivity].
    + injection H as <-. left; reflexivity.
  - right. apply IH, H.
Qed.
Lemma nanmax_l_in : forall l m, nanmax_l l = Some m -> In (Some m) l.
Proof.
  induction l as [|a t IH]; intros m H; [discriminate|].
  rewrite nanmax_l_cons in H.
  destruct a as [x|]; cbn in H.
  - destruct (nanmax_l t) as [y|] eqn:E.
    + injection H as <-. destruct (Z.max_spec x y) as [[_ ->]|[_ ->]];
        [right; apply IH; reflexivity | left; reflexivity].
    + injection H as <-. left; reflexivity.
  - right. apply IH, H.
Qed.

(* ================================================================== *)
(** * 2. box_total                                                      *)
(* ================================================================== *)

Lemma box_total_app : forall l1 l2,
  box_total (l1 ++ l2) = box_total [box_total l1; box_total l2].
Proof.
  intros l1 l2. unfold box_total.
  rewrite !map_app, !nanmin_l_app, !nanmax_l_app. cbn.
  rewrite !nanmin2_none_r, !nanmax2_none_r. reflexivity.
Qed.

Lemma box_total_cons_total : forall b bs,
  box_total (b :: bs) = box_total [b; box_total bs].
Proof.
  intros b bs. unfold box_total. cbn [map].
  rewrite !nanmin_l_cons, !nanmax_l_cons. cbn.
  rewrite !nanmin2_none_r, !nanmax2_none_r. reflexivity.
Qed.

Lemma box_total_concat : forall bss,
  box_total (map box_total bss) = box_total (concat bss).
Proof.
  intros bss. unfold box_total.
  rewrite !map_map. cbn [bx0 by0 bx1 by1].
  rewrite !concat_map, <- !nanmin_l_concat, <- !nanmax_l_concat, !map_map.
  reflexivity.
Qed.

(* [total_bounds_concat]: the nan-combination of the partitions' total bounds is the
   total bounds of the concatenated frame, for every list of partitions (empty
   partitions and partitions without coordinates give NaN rows, which are ignored;
   if every row is NaN the result is NaN on both sides) *)
Lemma total_bounds_concat_rows : forall (R : Type) (rbox : R -> bbox) (parts : list (list R)),
  dask_total_bounds R rbox parts = pandas_total_bounds R rbox (concat parts).
Proof.
  intros R rbox parts. unfold dask_total_bounds, pandas_total_bounds, partition_bounds, part_bounds.
  rewrite concat_map, <- box_total_concat, map_map. reflexivity.
Qed.

(* ================================================================== *)
(** * 3. the kernel over concatenated coordinate lists                  *)
(* ================================================================== *)

Lemma omin_nanmin2 : forall a v, omin a v = nanmin2 a (Some v).
Proof. intros [m|] v; reflexivity. Qed.
Lemma omax_nanmax2 : forall a v, omax a v = nanmax2 a (Some v).
Proof. intros [m|] v; reflexivity. Qed.

Lemma fold_step_nan : forall l lo hi,
  fold_left step l (lo, hi) =
  (nanmin2 lo (nanmin_l (map Some l)), nanmax2 hi (nanmax_l (map Some l))).
Proof.
  induction l as [|v t IH]; intros lo hi.
  - cbn. rewrite nanmin2_none_r, nanmax2_none_r. reflexivity.
  - cbn [fold_left map]. unfold step at 2. cbn [fst snd]. rewrite IH.
    rewrite nanmin_l_cons, nanmax_l_cons, omin_nanmin2, omax_nanmax2,
      nanmin2_assoc, nanmax2_assoc. reflexivity.
Qed.

Lemma norm_fold_step : forall l,
  norm (fold_left step l (None, None)) = (nanmin_l (map Some l), nanmax_l (map Some l)).
Proof.
  intros l. rewrite fold_step_nan. cbn [nanmin2 nanmax2]. unfold norm. cbn [fst].
  destruct l as [|v t]; [reflexivity|].
  cbn [map]. rewrite nanmin_l_cons.
  destruct (nanmin_l (map Some t)); reflexivity.
Qed.

(* the kernel's answer as four nan-combinations *)
Lemma tbi_nan : forall vs,
  total_bounds_interleaved vs =
  (nanmin_l (map Some (xs_of vs)), nanmin_l (map Some (ys_of vs)),
   nanmax_l (map Some (xs_of vs)), nanmax_l (map Some (ys_of vs))).
Proof.
  intros vs. rewrite tbi_norm, !norm_fold_step. reflexivity.
Qed.

Lemma finite_of_app : forall l1 l2, finite_of (l1 ++ l2) = finite_of l1 ++ finite_of l2.
Proof. intros. unfold finite_of. apply flat_map_app. Qed.

Lemma xs_of_app : forall l1 l2, Nat.even (length l1) = true ->
  xs_of (l1 ++ l2) = xs_of l1 ++ xs_of l2.
Proof. intros. unfold xs_of. rewrite pairs_app, map_app, finite_of_app by assumption. reflexivity. Qed.
Lemma ys_of_app : forall l1 l2, Nat.even (length l1) = true ->
  ys_of (l1 ++ l2) = ys_of l1 ++ ys_of l2.
Proof. intros. unfold ys_of. rewrite pairs_app, map_app, finite_of_app by assumption. reflexivity. Qed.

Lemma tbi_app : forall l1 l2, Nat.even (length l1) = true ->
  total_bounds_interleaved (l1 ++ l2) =
  box_total [total_bounds_interleaved l1; total_bounds_interleaved l2].
Proof.
  intros l1 l2 He. rewrite !tbi_nan, xs_of_app, ys_of_app by exact He.
  rewrite !map_app, !nanmin_l_app, !nanmax_l_app. unfold box_total. cbn.
  rewrite !nanmin2_none_r, !nanmax2_none_r. reflexivity.
Qed.

(* [tbi_concat] (total_bounds_concat on the kernel): total_bounds_interleaved of a
   concatenation of coordinate lists of even length is the nan-combination of the
   kernel's answers on the pieces.  Used twice: pieces = the elements of one
   partition (s.total_bounds = nan-combination of s.bounds), pieces = the partitions
   of a frame (DaskGeoSeries.total_bounds = total_bounds of the concatenation). *)
Lemma tbi_concat : forall ls,
  Forall (fun l => Nat.even (length l) = true) ls ->
  total_bounds_interleaved (concat ls) = box_total (map total_bounds_interleaved ls).
Proof.
  induction ls as [|l ls IH]; intros HF; [reflexivity|].
  inversion HF as [|? ? He HF']; subst.
  cbn [concat map]. rewrite tbi_app by exact He. rewrite IH by exact HF'.
  symmetry. apply box_total_cons_total.
Qed.

(* ================================================================== *)
(** * 4. bridge from C13's arrays: total_bounds = nan-combination of bounds *)
(* ================================================================== *)

Lemma la_total_is_box_total : forall a,
  wf_listarr a = true -> even_outer a = true ->
  la_total_bounds a = box_total (la_bounds a).
Proof.
  intros a Hwf He. unfold la_total_bounds.
  rewrite flat_values_elems, la_bounds_rows by exact Hwf.
  rewrite tbi_concat, map_map; [reflexivity|].
  apply Forall_forall. intros l Hl. apply in_map_iff in Hl.
  destruct Hl as (i & <- & Hi). apply in_seq in Hi.
  apply elem_flat_even; [exact Hwf | exact He | lia].
Qed.

Lemma fa_total_is_box_total : forall a,
  wf_fixarr a = true -> fa_total_bounds a = box_total (fa_bounds a).
Proof.
  intros a Hwf. unfold fa_total_bounds.
  rewrite fa_valid_flat_coords, fa_bounds_rows by exact Hwf.
  unfold fa_valid_coords. rewrite tbi_concat, map_map; [reflexivity|].
  apply Forall_forall. intros l Hl. apply in_map_iff in Hl.
  destruct Hl as ([[x y]|] & <- & _); reflexivity.
Qed.

(* every row of a partition lies inside the partition's bounds *)
Lemma row_in_part_bounds : forall (R : Type) (rbox : R -> bbox) (p : list R) r x0 y0 x1 y1,
  In r p -> rbox r = (Some x0, Some y0, Some x1, Some y1) ->
  exists X0 Y0 X1 Y1,
    part_bounds R rbox p = (Some X0, Some Y0, Some X1, Some Y1) /\
    (X0 <= x0 /\ Y0 <= y0 /\ x1 <= X1 /\ y1 <= Y1)%Z.
Proof.
  intros R rbox p r x0 y0 x1 y1 Hin Hb. unfold part_bounds, box_total.
  assert (H0 : In (Some x0) (map bx0 (map rbox p))).
  { apply in_map_iff. exists (rbox r). split; [rewrite Hb; reflexivity | apply in_map, Hin]. }
  assert (H1 : In (Some y0) (map by0 (map rbox p))).
  { apply in_map_iff. exists (rbox r). split; [rewrite Hb; reflexivity | apply in_map, Hin]. }
  assert (H2 : In (Some x1) (map bx1 (map rbox p))).
  { apply in_map_iff. exists (rbox r). split; [rewrite Hb; reflexivity | apply in_map, Hin]. }
  assert (H3 : In (Some y1) (map by1 (map rbox p))).
  { apply in_map_iff. exists (rbox r). split; [rewrite Hb; reflexivity | apply in_map, Hin]. }
  destruct (nanmin_l_le _ _ H0) as (X0 & -> & ?).
  destruct (nanmin_l_le _ _ H1) as (Y0 & -> & ?).
  destruct (nanmax_l_ge _ _ H2) as (X1 & -> & ?).
  destruct (nanmax_l_ge _ _ H3) as (Y1 & -> & ?).
  exists X0, Y0, X1, Y1. repeat split; assumption.
Qed.

(* the bounds of a partition of well-formed rows are well-formed *)
Lemma box_total_wf : forall bs, Forall wf_bbox bs -> wf_bbox (box_total bs).
Proof.
  intros bs HF. rewrite Forall_forall in HF.
  destruct (nanmin_l (map bx0 bs)) as [X0|] eqn:E0.
  - right. pose proof (nanmin_l_in _ _ E0) as Hin. apply in_map_iff in Hin.
    destruct Hin as (b & Hb0 & Hb).
    destruct (HF b Hb) as [->|(x0 & y0 & x1 & y1 & -> & Hx & Hy)]; [discriminate|].
    cbn in Hb0. injection Hb0 as ->.
    assert (I1 : In (Some y0) (map by0 bs))
      by (apply in_map_iff; eexists; split; [|exact Hb]; reflexivity).
    assert (I2 : In (Some x1) (map bx1 bs))
      by (apply in_map_iff; eexists; split; [|exact Hb]; reflexivity).
    assert (I3 : In (Some y1) (map by1 bs))
      by (apply in_map_iff; eexists; split; [|exact Hb]; reflexivity).
    destruct (nanmin_l_le _ _ I1) as (Y0 & EY0 & HY0).
    destruct (nanmax_l_ge _ _ I2) as (X1 & EX1 & HX1).
    destruct (nanmax_l_ge _ _ I3) as (Y1 & EY1 & HY1).
    exists X0, Y0, X1, Y1. unfold box_total. rewrite E0, EY0, EX1, EY1.
    split; [reflexivity | lia].
  - left. rewrite nanmin_l_none in E0.
    assert (Hall : forall b, In b bs -> b = nanbox).
    { intros b Hb. destruct (HF b Hb) as [->|(x0 & y0 & x1 & y1 & -> & _)]; [reflexivity|].
      specialize (E0 (Some x0)). discriminate E0.
      apply in_map_iff. eexists; split; [|exact Hb]. reflexivity. }
    unfold box_total, nanbox.
    assert (N1 : nanmin_l (map bx0 bs) = None).
    { apply nanmin_l_none. intros x Hx. apply in_map_iff in Hx.
      destruct Hx as (b & <- & Hb). rewrite (Hall b Hb). reflexivity. }
    assert (N2 : nanmin_l (map by0 bs) = None).
    { apply nanmin_l_none. intros x Hx. apply in_map_iff in Hx.
      destruct Hx as (b & <- & Hb). rewrite (Hall b Hb). reflexivity. }
    assert (N3 : nanmax_l (map bx1 bs) = None).
    { apply nanmax_l_none. intros x Hx. apply in_map_iff in Hx.
      destruct Hx as (b & <- & Hb). rewrite (Hall b Hb). reflexivity. }
    assert (N4 : nanmax_l (map by1 bs) = None).
    { apply nanmax_l_none. intros x Hx. apply in_map_iff in Hx.
      destruct Hx as (b & <- & Hb). rewrite (Hall b Hb). reflexivity. }
    rewrite N1, N2, N3, N4. reflexivity.
Qed.
