(* C07: the general (every p, every n) round-trip, range and bijection theorems. *)
From Coq Require Import NArith List Bool Arith Lia.
From SP Require Import Model.Hilbert Spec.Curve Proofs.HilbertLists Proofs.HilbertExcess
     Proofs.HilbertGray Proofs.HilbertTranspose.
Import ListNotations.
Local Open Scope N_scope.

Lemma cfd_unfold : forall p n h,
    coordinate_from_distance p n h
    = undo_excess p n (gray_decode n (hilbert_integer_to_transpose p h n)).
Proof. reflexivity. Qed.

Lemma dfc_state_unfold : forall p c,
    distance_from_coordinate_state p c
    = gray_encode p (length c) (Mof p) (inverse_undo p (length c) c).
Proof. reflexivity. Qed.

Lemma Forall_fits_lt : forall p c, Forall (fits (N.of_nat p)) c <-> Forall (fun x => x < 2 ^ N.of_nat p) c.
Proof.
  intros. split; apply Forall_impl; intros x Hx; now apply fits_lt.
Qed.

Lemma cfd_length : forall p n h, (1 <= p)%nat -> (1 <= n)%nat ->
    length (coordinate_from_distance p n h) = n.
Proof.
  intros p n h Hp Hn. rewrite cfd_unfold, undo_excess_length by assumption.
  apply gray_decode_length; [assumption|apply h2t_length].
Qed.

Lemma cfd_fits : forall p n h, (1 <= p)%nat -> (1 <= n)%nat ->
    Forall (fits (N.of_nat p)) (coordinate_from_distance p n h).
Proof.
  intros p n h Hp Hn. rewrite cfd_unfold. apply undo_excess_fits; [assumption|].
  apply gray_decode_fits; [assumption|apply h2t_length|now apply h2t_fits].
Qed.

Lemma dfc_state_length : forall p c, (1 <= p)%nat -> (1 <= length c)%nat ->
    length (distance_from_coordinate_state p c) = length c.
Proof.
  intros p c Hp Hn. rewrite dfc_state_unfold.
  apply gray_encode_length; [assumption|now apply inverse_undo_length].
Qed.

Theorem cfd_range : forall p n h, hilbert_guard p n ->
    cell p n (coordinate_from_distance p n h).
Proof.
  intros p n h (Hp & Hn & _). split; [now apply cfd_length|].
  apply Forall_fits_lt. now apply cfd_fits.
Qed.

Theorem dfc_range : forall p n c, hilbert_guard p n -> length c = n ->
    distance p n (distance_from_coordinate p c).
Proof.
  intros p n c (Hp & Hn & _) Hlen. unfold distance, distance_from_coordinate.
  rewrite <- Hlen, <- (dfc_state_length p c) by lia. apply t2h_lt.
Qed.

Theorem roundtrip_d : forall p n h, hilbert_guard p n -> distance p n h ->
    distance_from_coordinate p (coordinate_from_distance p n h) = h.
Proof.
  intros p n h (Hp & Hn & _) Hh. unfold distance in Hh.
  unfold distance_from_coordinate. rewrite dfc_state_unfold.
  rewrite cfd_length by assumption. rewrite cfd_unfold.
  set (x := hilbert_integer_to_transpose p h n).
  assert (Hxl : length x = n) by apply h2t_length.
  assert (Hxf : Forall (fits (N.of_nat p)) x) by (now apply h2t_fits).
  rewrite inverse_undo_undo by (try assumption; now apply gray_decode_length).
  rewrite gray_encode_decode by assumption.
  now apply transpose_roundtrip_d.
Qed.

Theorem roundtrip_c : forall p n c, hilbert_guard p n -> cell p n c ->
    coordinate_from_distance p n (distance_from_coordinate p c) = c.
Proof.
  intros p n c (Hp & Hn & _) [Hlen Hc]. apply Forall_fits_lt in Hc.
  unfold distance_from_coordinate. rewrite dfc_state_unfold, Hlen, cfd_unfold.
  set (v := inverse_undo p n c).
  assert (Hvl : length v = n) by (unfold v; now rewrite inverse_undo_length).
  assert (Hvf : Forall (fits (N.of_nat p)) v) by (now apply inverse_undo_fits).
  rewrite transpose_roundtrip_c;
    [|assumption|assumption|now apply gray_encode_length|now apply gray_encode_fits].
  rewrite gray_decode_encode by assumption.
  now apply undo_inverse_undo.
Qed.

Theorem bijection : forall p n c, hilbert_guard p n -> cell p n c ->
    exists! h, distance p n h /\ coordinate_from_distance p n h = c.
Proof.
  intros p n c Hg Hc. exists (distance_from_coordinate p c). split.
  - split; [apply dfc_range; [assumption|apply Hc]|now apply roundtrip_c].
  - intros h [Hh Heq]. subst c. now apply roundtrip_d.
Qed.

(* injectivity in both directions, as corollaries *)
Corollary cfd_injective : forall p n h1 h2, hilbert_guard p n -> distance p n h1 -> distance p n h2 ->
    coordinate_from_distance p n h1 = coordinate_from_distance p n h2 -> h1 = h2.
Proof.
  intros p n h1 h2 Hg H1 H2 E.
  rewrite <- (roundtrip_d p n h1), <- (roundtrip_d p n h2) by assumption. now rewrite E.
Qed.

Corollary dfc_injective : forall p n c1 c2, hilbert_guard p n -> cell p n c1 -> cell p n c2 ->
    distance_from_coordinate p c1 = distance_from_coordinate p c2 -> c1 = c2.
Proof.
  intros p n c1 c2 Hg H1 H2 E.
  rewrite <- (roundtrip_c p n c1), <- (roundtrip_c p n c2) by assumption. now rewrite E.
Qed.
