(* C03, query side: node ranges, the worklist of _maybe_intersects_ranges, the
   leaf scans, and the three result sets. *)
From Coq Require Import ZArith List Bool Arith Lia Permutation.
From SP Require Import Model.Num Model.Rtree Spec.Boxes Proofs.RtreeLists Proofs.RtreeBuild.
Import ListNotations.
Local Open Scope nat_scope.

(* ------------------------------------------------------- boolean helpers *)
Lemma existsb_negb_forallb : forall A (f : A -> bool) l,
  existsb f l = negb (forallb (fun x => negb (f x)) l).
Proof.
  induction l as [|x t IH]; simpl; [reflexivity|].
  rewrite IH. now destruct (f x).
Qed.

Lemma forallb_ext_in' : forall A (f g : A -> bool) l,
  (forall x, In x l -> f x = g x) -> forallb f l = forallb g l.
Proof.
  induction l as [|x t IH]; intros H; simpl; [reflexivity|].
  rewrite (H x) by (now left). f_equal. apply IH. intros y Hy. apply H. now right.
Qed.

Lemma existsb_false_forall : forall A (f : A -> bool) l,
  existsb f l = false -> forall x, In x l -> f x = false.
Proof.
  induction l as [|y t IH]; intros H x Hx; [destruct Hx|].
  simpl in H. apply orb_false_iff in H. destruct H as [H1 H2].
  destruct Hx as [->|Hx]; [exact H1|now apply IH].
Qed.

Lemma forallb_head_false : forall (f : nat -> bool) n,
  1 <= n -> f 0 = false -> forallb f (seq 0 n) = false.
Proof. intros f n Hn H0. destruct n; [lia|]. simpl. now rewrite H0. Qed.

(* ----------------------------------------------- min / max are bounds *)
Lemma col_nanmin_le : forall c R r x, In r R -> col c r = Some x ->
  exists m, col_nanmin c R = Some m /\ (m <= x)%Z.
Proof.
  induction R as [|r0 t IH]; intros r x Hin Hx; [destruct Hin|].
  rewrite col_nanmin_cons. destruct Hin as [->|Hin].
  - rewrite Hx. destruct (col_nanmin c t); simpl; eexists; split; eauto; lia.
  - destruct (IH r x Hin Hx) as [m [Hm Hle]]. rewrite Hm.
    destruct (col c r0); simpl; eexists; split; eauto; lia.
Qed.

Lemma col_nanmax_ge : forall c R r x, In r R -> col c r = Some x ->
  exists m, col_nanmax c R = Some m /\ (x <= m)%Z.
Proof.
  induction R as [|r0 t IH]; intros r x Hin Hx; [destruct Hin|].
  rewrite col_nanmax_cons. destruct Hin as [->|Hin].
  - rewrite Hx. destruct (col_nanmax c t); simpl; eexists; split; eauto; lia.
  - destruct (IH r x Hin Hx) as [m [Hm Hle]]. rewrite Hm.
    destruct (col c r0); simpl; eexists; split; eauto; lia.
Qed.

(* ------------------------------------------------- rows against a query *)
Section RowFacts.
  Variables (d : nat) (q : list Z).
  Hypothesis Hd : 1 <= d.

  Lemma nan_col0 : isnan (col 0 (nanrow d)) = true.
  Proof. unfold nanrow. now rewrite col_repeat_None. Qed.

  Lemma finite_col0 : forall r, length r = 2 * d -> row_finite r = true ->
    isnan (col 0 r) = false.
  Proof.
    intros r Hl Hf. destruct (row_finite_col r 0 Hf ltac:(lia)) as [x Hx]. now rewrite Hx.
  Qed.

  (* (a) the outside mask of a leaf scan is the negation of "overlaps" *)
  Lemma row_outside_overlaps : forall r, normal d r ->
    negb (row_outside d q r) = overlapsb d r q.
  Proof.
    intros r [Hl [Hf|Hn]].
    - unfold row_outside, overlapsb. rewrite Hf, finite_col0 by assumption. simpl.
      rewrite existsb_negb_forallb, negb_involutive.
      apply forallb_ext_in'. intros k Hk. apply in_seq in Hk.
      destruct (row_finite_col r k Hf ltac:(lia)) as [a Ha].
      destruct (row_finite_col r (d + k) Hf ltac:(lia)) as [b Hb].
      rewrite (Nat.add_comm k d). rewrite Ha, Hb. unfold qv, ngt, nlt, nle.
      rewrite negb_orb, !Z.leb_antisym. apply andb_comm.
    - subst r. unfold row_outside, overlapsb. rewrite nan_col0.
      unfold nanrow. now rewrite row_finite_repeat_None by lia.
  Qed.

  (* (a) the covers mask of a leaf scan is "covered" *)
  Lemma row_covers_covered : forall r, normal d r -> row_covers d q r = coveredb d r q.
  Proof.
    intros r [Hl [Hf|Hn]].
    - unfold row_covers, coveredb. rewrite Hf. simpl.
      apply forallb_ext_in'. intros k Hk. rewrite (Nat.add_comm k d). reflexivity.
    - subst r. unfold row_covers, coveredb, nanrow.
      rewrite row_finite_repeat_None by lia. simpl.
      apply forallb_head_false; [exact Hd|].
      unfold nge, nle. now rewrite col_repeat_None.
  Qed.

  (* a box inside the query box meets it *)
  Lemma covered_overlaps : forall r, wf_box d r -> coveredb d r q = true -> overlapsb d r q = true.
  Proof.
    intros r [Hl Hwf] Hc. unfold coveredb, overlapsb in *.
    apply andb_true_iff in Hc. destruct Hc as [Hf Hc]. rewrite Hf. simpl.
    rewrite forallb_forall in *. intros k Hk. specialize (Hc k Hk).
    apply in_seq in Hk. specialize (Hwf Hf k ltac:(lia)).
    destruct (row_finite_col r k Hf ltac:(lia)) as [a Ha].
    destruct (row_finite_col r (d + k) Hf ltac:(lia)) as [b Hb].
    rewrite Ha, Hb in *. unfold qv, nle in *.
    apply andb_true_iff in Hc. destruct Hc as [H1 H2].
    apply Z.leb_le in H1, H2, Hwf. apply andb_true_iff. split; apply Z.leb_le; lia.
  Qed.

  Hypothesis Hq : length q = 2 * d.

  (* a node whose box is outside the query holds no overlapping row *)
  Lemma node_outside_sound : forall R r, Forall (normal d) R ->
    node_outside d q (page_box d R) = true -> In r R -> overlapsb d r q = false.
  Proof.
    intros R r HR Hout Hin. unfold node_outside in Hout.
    pose proof (proj1 (Forall_forall _ _) HR r Hin) as [Hl [Hf|Hn]].
    2:{ subst r. unfold overlapsb, nanrow. now rewrite row_finite_repeat_None by lia. }
    assert (HF : has_fin R = true).
    { unfold has_fin. apply existsb_exists. exists r. now split. }
    apply orb_true_iff in Hout. destruct Hout as [Hn|Hex].
    - rewrite <- (page_box_valid d R Hd HR) in HF. rewrite Hn in HF. discriminate.
    - apply existsb_exists in Hex. destruct Hex as [k [Hk Hc]]. apply in_seq in Hk.
      unfold overlapsb. rewrite Hf. simpl.
      apply not_true_is_false. intros Hall. rewrite forallb_forall in Hall.
      specialize (Hall k ltac:(apply in_seq; lia)).
      destruct (row_finite_col r k Hf ltac:(lia)) as [a Ha].
      destruct (row_finite_col r (d + k) Hf ltac:(lia)) as [b Hb].
      rewrite Ha, Hb in Hall. unfold qv, nle in Hall.
      apply andb_true_iff in Hall. destruct Hall as [H1 H2]. apply Z.leb_le in H1, H2.
      rewrite page_box_col_lo in Hc by lia.
      rewrite (Nat.add_comm d k) in Hc. rewrite page_box_col_hi in Hc by lia.
      destruct (col_nanmin_le k R r a Hin Ha) as [m [Hm Hma]].
      rewrite (Nat.add_comm d k) in Hb.
      destruct (col_nanmax_ge (k + d) R r b Hin Hb) as [M [HM HMb]].
      rewrite Hm, HM in Hc. unfold qv, ngt, nlt in Hc.
      rewrite (Nat.add_comm k d) in Hc.
      apply orb_true_iff in Hc. destruct Hc as [Hc|Hc]; apply Z.ltb_lt in Hc; lia.
  Qed.

  (* a node whose box is inside the query holds only covered rows (and NaN rows) *)
  Lemma node_inside_sound : forall R r, Forall (normal d) R ->
    node_inside d q (page_box d R) = true -> In r R -> row_finite r = true ->
    coveredb d r q = true.
  Proof.
    intros R r HR Hins Hin Hf. unfold node_inside in Hins.
    apply negb_true_iff in Hins.
    pose proof (proj1 (Forall_forall _ _) HR r Hin) as [Hl _].
    unfold coveredb. rewrite Hf. simpl. apply forallb_forall. intros k Hk.
    pose proof (existsb_false_forall _ _ _ Hins k Hk) as Hc. cbv beta in Hc. apply in_seq in Hk.
    destruct (row_finite_col r k Hf ltac:(lia)) as [a Ha].
    destruct (row_finite_col r (d + k) Hf ltac:(lia)) as [b Hb].
    rewrite Ha, Hb. unfold qv, nle.
    rewrite page_box_col_lo in Hc by lia.
    rewrite (Nat.add_comm d k) in Hc. rewrite page_box_col_hi in Hc by lia.
    destruct (col_nanmin_le k R r a Hin Ha) as [m [Hm Hma]].
    rewrite (Nat.add_comm d k) in Hb.
    destruct (col_nanmax_ge (k + d) R r b Hin Hb) as [M [HM HMb]].
    rewrite Hm, HM in Hc. unfold qv, ngt, nlt in Hc. rewrite (Nat.add_comm k d) in Hc.
    apply orb_false_iff in Hc. destruct Hc as [H1 H2]. apply Z.ltb_ge in H1, H2.
    apply andb_true_iff. split; apply Z.leb_le; lia.
  Qed.
End RowFacts.

Lemma perm_interleave : forall A (a1 a2 b1 b2 : list A),
  Permutation ((a1 ++ a2) ++ (b1 ++ b2)) ((a1 ++ b1) ++ (a2 ++ b2)).
Proof.
  intros. rewrite <- !app_assoc. apply Permutation_app_head.
  rewrite !app_assoc. apply Permutation_app_tail. apply Permutation_app_comm.
Qed.

Lemma ranges_loop_step : forall T f q nd rest cov may,
  ranges_loop T (S f) q (nd :: rest) cov may =
  if node_outside (length q / 2) q (getrow nd (t_tree T)) then ranges_loop T f q rest cov may
  else if node_inside (length q / 2) q (getrow nd (t_tree T)) then
    ranges_loop T f q rest (cov ++ [(start_index T nd, stop_index T nd)]) may
  else if stop_index T nd - start_index T nd <=? t_page_size T then
    ranges_loop T f q rest cov (may ++ [(start_index T nd, stop_index T nd)])
  else ranges_loop T f q (left_child nd :: right_child nd :: rest) cov may.
Proof. reflexivity. Qed.

(* ------------------------------------------------- a tree and a query *)
Section TreeQuery.
  Variables (d ps td np : nat) (keys : list nat) (sb : nat -> row) (T : rtree).
  Hypothesis Hd : 1 <= d.
  Hypothesis Hps : 1 <= ps.
  Hypothesis Hnp : np <= 2 ^ td.
  Hypothesis Hcover : length keys <= np * ps.
  Hypothesis Hnorm : forall k, In k keys -> normal d (sb k).
  Hypothesis HT_tree : t_tree T = bt2 d ps td np (map sb keys).
  Hypothesis HT_keys : t_keys T = keys.
  Hypothesis HT_bounds : t_bounds T = map sb keys.
  Hypothesis HT_ps : t_page_size T = ps.

  Definition node (l j : nat) : nat := 2 ^ l - 1 + j.
  Definition lo (h j : nat) : nat := j * 2 ^ h * ps.
  Definition hi (h j : nat) : nat := (j + 1) * 2 ^ h * ps.
  (* the row numbers stored under the j-th node of height h *)
  Definition range_keys (h j : nat) : list nat := slice (lo h j) (hi h j) keys.

  Lemma sorted_normal : Forall (normal d) (map sb keys).
  Proof.
    apply Forall_forall. intros r Hr. apply in_map_iff in Hr.
    destruct Hr as [k [<- Hk]]. now apply Hnorm.
  Qed.

  Lemma sorted_cover : length (map sb keys) <= np * ps.
  Proof. now rewrite map_length. Qed.

  Lemma tree_len_eq : tree_len T = tlen td.
  Proof.
    unfold tree_len. rewrite HT_tree.
    apply (bt2_length d ps td np (map sb keys) Hd Hps Hnp sorted_cover sorted_normal).
  Qed.

  Lemma leaf_start_eq : leaf_start_of T = 2 ^ td - 1.
  Proof.
    unfold leaf_start_of. rewrite tree_len_eq. unfold tlen.
    pose proof (pow2_pos td).
    replace (2 ^ td * 2 - 1 + 1) with (2 ^ td * 2) by lia.
    rewrite Nat.div_mul by lia. reflexivity.
  Qed.

  Lemma node_box : forall h l j, h + l = td -> j < 2 ^ l ->
    getrow (node l j) (t_tree T) = page_box d (map sb (range_keys h j)).
  Proof.
    intros h l j Hhl Hj. rewrite HT_tree. unfold node.
    rewrite (bt2_node d ps td np (map sb keys) Hd Hps Hnp sorted_cover sorted_normal h l j Hhl Hj).
    unfold range_box, range_rows, range_keys, lo, hi. now rewrite slice_map.
  Qed.

  Lemma left_child_node : forall l j, left_child (node l j) = node (S l) (2 * j).
  Proof. intros. unfold left_child, node. rewrite pow2_S. pose proof (pow2_pos l). lia. Qed.
  Lemma right_child_node : forall l j, right_child (node l j) = node (S l) (2 * j + 1).
  Proof. intros. unfold right_child, node. rewrite pow2_S. pose proof (pow2_pos l). lia. Qed.

  (* (b) node -> [start, stop): the descents reach the leftmost / rightmost leaf *)
  Lemma start_index_f_node : forall h l j fuel, h + l = td -> j < 2 ^ l -> h < fuel ->
    start_index_f T fuel (node l j) = lo h j.
  Proof.
    induction h as [|h IH]; intros l j fuel Hhl Hj Hf; (destruct fuel as [|f]; [lia|]); simpl.
    - rewrite tree_len_eq, leaf_start_eq, HT_ps. assert (l = td) by lia. subst l.
      unfold tlen, left_child, node, lo. pose proof (pow2_pos td).
      destruct (Nat.leb_spec (2 ^ td * 2 - 1) (2 * (2 ^ td - 1 + j) + 1)); [|lia].
      simpl. f_equal. lia.
    - rewrite tree_len_eq. rewrite left_child_node.
      assert (2 ^ (S l) <= 2 ^ td) as Hle by (apply pow2_le; lia).
      assert (Hj' : 2 * j < 2 ^ S l) by (rewrite pow2_S; lia).
      unfold tlen. unfold node at 1. pose proof (pow2_pos (S l)).
      destruct (Nat.leb_spec (2 ^ td * 2 - 1) (2 ^ S l - 1 + 2 * j)); [lia|].
      rewrite (IH (S l) (2 * j) f) by lia.
      unfold lo. rewrite pow2_S. nia.
  Qed.

  Lemma stop_index_f_node : forall h l j fuel, h + l = td -> j < 2 ^ l -> h < fuel ->
    stop_index_f T fuel (node l j) = hi h j.
  Proof.
    induction h as [|h IH]; intros l j fuel Hhl Hj Hf; (destruct fuel as [|f]; [lia|]); simpl.
    - rewrite tree_len_eq, leaf_start_eq, HT_ps. assert (l = td) by lia. subst l.
      unfold tlen, right_child, node, hi. pose proof (pow2_pos td).
      destruct (Nat.leb_spec (2 ^ td * 2 - 1) (2 * (2 ^ td - 1 + j) + 2)); [|lia].
      simpl. f_equal. lia.
    - rewrite tree_len_eq. rewrite right_child_node.
      assert (2 ^ (S l) <= 2 ^ td) as Hle by (apply pow2_le; lia).
      assert (Hj' : 2 * j + 1 < 2 ^ S l) by (rewrite pow2_S; lia).
      unfold tlen. unfold node at 1. pose proof (pow2_pos (S l)).
      destruct (Nat.leb_spec (2 ^ td * 2 - 1) (2 ^ S l - 1 + (2 * j + 1))); [lia|].
      rewrite (IH (S l) (2 * j + 1) f) by lia.
      unfold hi. rewrite pow2_S. nia.
  Qed.

  Lemma fuel_enough : forall h, h <= td -> h < S (tree_len T).
  Proof.
    intros h Hh. rewrite tree_len_eq. unfold tlen. pose proof (pow2_gt td). lia.
  Qed.

  Lemma start_index_node : forall h l j, h + l = td -> j < 2 ^ l ->
    start_index T (node l j) = lo h j.
  Proof.
    intros. unfold start_index. apply start_index_f_node; try assumption.
    apply fuel_enough. lia.
  Qed.

  Lemma stop_index_node : forall h l j, h + l = td -> j < 2 ^ l ->
    stop_index T (node l j) = hi h j.
  Proof.
    intros. unfold stop_index. apply stop_index_f_node; try assumption.
    apply fuel_enough. lia.
  Qed.

  Lemma range_keys_split : forall h j,
    range_keys (S h) j = range_keys h (2 * j) ++ range_keys h (2 * j + 1).
  Proof.
    intros h j. unfold range_keys, lo, hi. rewrite pow2_S.
    replace ((2 * j + 1) * 2 ^ h * ps) with ((2 * j + 1 + 0) * 2 ^ h * ps) by (f_equal; f_equal; lia).
    replace ((2 * j + 1 + 1) * 2 ^ h * ps) with ((j + 1) * (2 * 2 ^ h) * ps) by nia.
    replace (2 * j * 2 ^ h * ps) with (j * (2 * 2 ^ h) * ps) by nia.
    apply slice_app; nia.
  Qed.

  Lemma range_keys_root : range_keys td 0 = keys.
  Proof.
    unfold range_keys, lo, hi. simpl. apply slice_all. nia.
  Qed.

  Lemma range_keys_In : forall h j k, In k (range_keys h j) -> In k keys.
  Proof. intros h j k H. unfold range_keys in H. now apply slice_In in H. Qed.

  Lemma range_rows_normal' : forall h j, Forall (normal d) (map sb (range_keys h j)).
  Proof.
    intros. apply Forall_forall. intros r Hr. apply in_map_iff in Hr.
    destruct Hr as [k [<- Hk]]. apply Hnorm. eapply range_keys_In; eassumption.
  Qed.

  (* every index of the array is a node (l, j) *)
  Lemma node_decode : forall v, v < tlen td ->
    exists h l j, h + l = td /\ j < 2 ^ l /\ v = node l j.
  Proof.
    intros v Hv. unfold tlen in Hv.
    pose proof (Nat.log2_spec (v + 1) ltac:(lia)) as [L1 L2].
    set (l := Nat.log2 (v + 1)) in *.
    assert (Hl : l <= td).
    { destruct (Nat.le_gt_cases l td) as [H|H]; [exact H|].
      assert (2 ^ (S td) <= 2 ^ l) by (apply pow2_le; lia).
      rewrite pow2_S in *. lia. }
    exists (td - l), l, (v + 1 - 2 ^ l). rewrite pow2_S in L2.
    unfold node. repeat split; lia.
  Qed.

  Lemma node_range_closed : forall v, v < tree_len T ->
    exists h l j, h + l = td /\ j < 2 ^ l /\ v = node l j /\
                  start_index T v = lo h j /\ stop_index T v = hi h j.
  Proof.
    intros v Hv. rewrite tree_len_eq in Hv.
    destruct (node_decode v Hv) as (h & l & j & Hhl & Hj & ->).
    exists h, l, j. repeat split; try assumption.
    - now apply start_index_node.
    - now apply stop_index_node.
  Qed.

  (* the [while True] descents terminate within [tree_len] iterations: any
     larger fuel gives the same index *)
  Lemma index_fuel : forall v fuel, v < tree_len T -> tree_len T <= fuel ->
    start_index_f T fuel v = start_index T v /\ stop_index_f T fuel v = stop_index T v.
  Proof.
    intros v fuel Hv Hfuel. rewrite tree_len_eq in Hv, Hfuel.
    destruct (node_decode v Hv) as (h & l & j & Hhl & Hj & ->).
    assert (h < fuel) by (unfold tlen in Hfuel; pose proof (pow2_gt td); lia).
    rewrite (start_index_node h l j Hhl Hj), (stop_index_node h l j Hhl Hj).
    split; [now apply start_index_f_node|now apply stop_index_f_node].
  Qed.

  (* (b) children split the range of their parent in two non-empty halves *)
  Lemma children_partition : forall v, right_child v < tree_len T ->
    start_index T (left_child v) = start_index T v /\
    stop_index T (right_child v) = stop_index T v /\
    stop_index T (left_child v) = start_index T (right_child v) /\
    start_index T v < stop_index T (left_child v) < stop_index T v.
  Proof.
    intros v Hr.
    assert (Hv : v < tree_len T) by (unfold right_child in Hr; lia).
    destruct (node_range_closed v Hv) as (h & l & j & Hhl & Hj & -> & Hs & He).
    rewrite Hs, He. rewrite tree_len_eq in Hr. rewrite right_child_node in Hr.
    destruct h as [|h].
    { assert (l = td) by lia. subst l. unfold node, tlen in Hr. rewrite pow2_S in Hr.
      pose proof (pow2_pos td). lia. }
    rewrite left_child_node, right_child_node.
    assert (Hj2 : 2 * j < 2 ^ S l) by (rewrite pow2_S; lia).
    assert (Hj3 : 2 * j + 1 < 2 ^ S l) by (rewrite pow2_S; lia).
    rewrite (start_index_node h (S l) (2 * j)), (stop_index_node h (S l) (2 * j)),
            (start_index_node h (S l) (2 * j + 1)), (stop_index_node h (S l) (2 * j + 1)) by lia.
    unfold lo, hi. rewrite pow2_S. pose proof (pow2_pos h). repeat split; nia.
  Qed.

  (* (b) a leaf is a page *)
  Lemma leaf_is_page : forall v, v < tree_len T -> tree_len T <= left_child v ->
    leaf_start_of T <= v /\
    start_index T v = (v - leaf_start_of T) * t_page_size T /\
    stop_index T v = start_index T v + t_page_size T.
  Proof.
    intros v Hv Hleaf.
    destruct (node_range_closed v Hv) as (h & l & j & Hhl & Hj & -> & Hs & He).
    rewrite Hs, He, leaf_start_eq, HT_ps.
    rewrite tree_len_eq in Hleaf. rewrite left_child_node in Hleaf.
    destruct h as [|h].
    - assert (l = td) by lia. subst l. unfold node, lo, hi. simpl (2 ^ 0).
      pose proof (pow2_pos td). repeat split; lia.
    - exfalso. assert (2 ^ (S l) <= 2 ^ td) as Hle by (apply pow2_le; lia).
      unfold node, tlen in Hleaf. rewrite pow2_S in *. lia.
  Qed.

  (* (b) the root spans every row *)
  Lemma root_range : start_index T 0 = 0 /\ length keys <= stop_index T 0.
  Proof.
    change 0 with (node 0 0) at 1 3.
    rewrite (start_index_node td 0 0), (stop_index_node td 0 0) by (simpl; lia).
    unfold lo, hi. split; nia.
  Qed.

  (* (c) the box stored at a node is the page box of the rows of its range *)
  Lemma node_box_range : forall v, v < tree_len T ->
    getrow v (t_tree T) =
    page_box d (slice (start_index T v) (stop_index T v) (t_bounds T)).
  Proof.
    intros v Hv.
    destruct (node_range_closed v Hv) as (h & l & j & Hhl & Hj & -> & Hs & He).
    rewrite Hs, He, HT_bounds, slice_map. now apply node_box.
  Qed.

  (* a mask applied to a slice of keys *)
  Lemma scan_slice_filter : forall keep s e,
    scan_slice T keep (s, e) = filter (fun k => keep (sb k)) (slice s e keys).
  Proof.
    intros. unfold scan_slice. rewrite HT_keys, HT_bounds, slice_map, combine_map_self.
    apply mask_filter.
  Qed.

  (* ------------------------------------------------ the worklist loop *)
  Variable q : list Z.
  Hypothesis Hq : length q = 2 * d.

  Lemma qdim : length q / 2 = d.
  Proof. rewrite Hq, Nat.mul_comm. apply Nat.div_mul. lia. Qed.

  (* a result set: [fc] masks the covered ranges, [fm] the scanned ranges; it is
     meant to compute the keys whose row satisfies [target] *)
  Variables fc fm target : row -> bool.
  Hypothesis H_outside : forall K, (forall k, In k K -> In k keys) ->
    node_outside d q (page_box d (map sb K)) = true ->
    forall k, In k K -> target (sb k) = false.
  Hypothesis H_inside : forall K, (forall k, In k K -> In k keys) ->
    node_inside d q (page_box d (map sb K)) = true ->
    forall k, In k K -> fc (sb k) = target (sb k).
  Hypothesis H_scan : forall k, In k keys -> fm (sb k) = target (sb k).

  Definition eval (cm : list (nat * nat) * list (nat * nat)) : list nat :=
    flat_map (scan_slice T fc) (fst cm) ++ flat_map (scan_slice T fm) (snd cm).

  (* processing the node on top of the stack = processing its whole subtree:
     it appends [cov'], [may'] (which do not depend on the fuel) and consumes at
     most 2^(h+1) - 1 iterations *)
  Lemma loop_node : forall h l j, h + l = td -> j < 2 ^ l ->
    exists cov' may',
      Permutation (eval (cov', may')) (filter (fun k => target (sb k)) (range_keys h j)) /\
      forall rest cov may fuel m, 2 ^ (S h) - 1 + m <= fuel ->
        exists fuel', m <= fuel' /\
          ranges_loop T fuel q (node l j :: rest) cov may =
          ranges_loop T fuel' q rest (cov ++ cov') (may ++ may').
  Proof.
    induction h as [|h IH]; intros l j Hhl Hj.
    - (* a leaf *)
      destruct (node_outside d q (page_box d (map sb (range_keys 0 j)))) eqn:Hout;
        [|destruct (node_inside d q (page_box d (map sb (range_keys 0 j)))) eqn:Hins].
      + exists [], []. split.
        * unfold eval. cbn [fst snd flat_map app]. rewrite filter_false; [constructor|].
          apply (H_outside (range_keys 0 j)); [apply range_keys_In|exact Hout].
        * intros rest cov may fuel m Hfuel. destruct fuel as [|f]; [simpl in Hfuel; lia|].
          exists f. split; [simpl in Hfuel; lia|].
          rewrite ranges_loop_step, qdim, (node_box 0 l j Hhl Hj), Hout. now rewrite !app_nil_r.
      + exists [(lo 0 j, hi 0 j)], []. split.
        * unfold eval. cbn [fst snd flat_map app]. rewrite !app_nil_r.
          rewrite scan_slice_filter. fold (range_keys 0 j).
          rewrite (filter_ext_in' _ (fun k => fc (sb k)) (fun k => target (sb k))); [apply Permutation_refl|].
          apply (H_inside (range_keys 0 j)); [apply range_keys_In|exact Hins].
        * intros rest cov may fuel m Hfuel. destruct fuel as [|f]; [simpl in Hfuel; lia|].
          exists f. split; [simpl in Hfuel; lia|].
          rewrite ranges_loop_step, qdim, (node_box 0 l j Hhl Hj), Hout, Hins.
          rewrite (start_index_node 0 l j Hhl Hj), (stop_index_node 0 l j Hhl Hj).
          now rewrite app_nil_r.
      + exists [], [(lo 0 j, hi 0 j)]. split.
        * unfold eval. cbn [fst snd flat_map app]. rewrite !app_nil_r.
          rewrite scan_slice_filter. fold (range_keys 0 j).
          rewrite (filter_ext_in' _ (fun k => fm (sb k)) (fun k => target (sb k))); [apply Permutation_refl|].
          intros k Hk. apply H_scan. eapply range_keys_In; eassumption.
        * intros rest cov may fuel m Hfuel. destruct fuel as [|f]; [simpl in Hfuel; lia|].
          exists f. split; [simpl in Hfuel; lia|].
          rewrite ranges_loop_step, qdim, (node_box 0 l j Hhl Hj), Hout, Hins.
          rewrite (start_index_node 0 l j Hhl Hj), (stop_index_node 0 l j Hhl Hj), HT_ps.
          unfold lo, hi. simpl (2 ^ 0).
          destruct (Nat.leb_spec ((j + 1) * 1 * ps - j * 1 * ps) ps) as [_|Hbad]; [|nia].
          now rewrite app_nil_r.
    - (* an internal node *)
      assert (Hsz : 2 ^ (S (S h)) = 2 * 2 ^ (S h)) by apply pow2_S.
      pose proof (pow2_pos (S h)) as Hp.
      destruct (node_outside d q (page_box d (map sb (range_keys (S h) j)))) eqn:Hout;
        [|destruct (node_inside d q (page_box d (map sb (range_keys (S h) j)))) eqn:Hins].
      + exists [], []. split.
        * unfold eval. cbn [fst snd flat_map app]. rewrite filter_false; [constructor|].
          apply (H_outside (range_keys (S h) j)); [apply range_keys_In|exact Hout].
        * intros rest cov may fuel m Hfuel. destruct fuel as [|f]; [lia|].
          exists f. split; [lia|].
          rewrite ranges_loop_step, qdim, (node_box (S h) l j Hhl Hj), Hout. now rewrite !app_nil_r.
      + exists [(lo (S h) j, hi (S h) j)], []. split.
        * unfold eval. cbn [fst snd flat_map app]. rewrite !app_nil_r.
          rewrite scan_slice_filter. fold (range_keys (S h) j).
          rewrite (filter_ext_in' _ (fun k => fc (sb k)) (fun k => target (sb k))); [apply Permutation_refl|].
          apply (H_inside (range_keys (S h) j)); [apply range_keys_In|exact Hins].
        * intros rest cov may fuel m Hfuel. destruct fuel as [|f]; [lia|].
          exists f. split; [lia|].
          rewrite ranges_loop_step, qdim, (node_box (S h) l j Hhl Hj), Hout, Hins.
          rewrite (start_index_node (S h) l j Hhl Hj), (stop_index_node (S h) l j Hhl Hj).
          now rewrite app_nil_r.
      + assert (Hj2 : 2 * j < 2 ^ S l) by (rewrite pow2_S; lia).
        assert (Hj3 : 2 * j + 1 < 2 ^ S l) by (rewrite pow2_S; lia).
        destruct (IH (S l) (2 * j) ltac:(lia) Hj2) as (c1 & m1 & P1 & L1).
        destruct (IH (S l) (2 * j + 1) ltac:(lia) Hj3) as (c2 & m2 & P2 & L2).
        exists (c1 ++ c2), (m1 ++ m2). split.
        * rewrite range_keys_split, filter_app.
          unfold eval in *. cbn [fst snd] in *. rewrite !flat_map_app'.
          eapply Permutation_trans; [apply perm_interleave|].
          now apply Permutation_app.
        * intros rest cov may fuel m Hfuel. destruct fuel as [|f]; [lia|].
          rewrite ranges_loop_step, qdim, (node_box (S h) l j Hhl Hj), Hout, Hins.
          rewrite (start_index_node (S h) l j Hhl Hj), (stop_index_node (S h) l j Hhl Hj), HT_ps.
          unfold lo, hi. rewrite (pow2_S h). pose proof (pow2_pos h) as Hp'.
          destruct (Nat.leb_spec ((j + 1) * (2 * 2 ^ h) * ps - j * (2 * 2 ^ h) * ps) ps) as [Hbad|_]; [nia|].
          rewrite left_child_node, right_child_node.
          destruct (L1 (node (S l) (2 * j + 1) :: rest) cov may f (2 ^ (S h) - 1 + m) ltac:(lia))
            as (f1 & Hf1 & E1).
          destruct (L2 rest (cov ++ c1) (may ++ m1) f1 m Hf1) as (f2 & Hf2 & E2).
          exists f2. split; [exact Hf2|]. rewrite E1, E2. now rewrite !app_assoc.
  Qed.

  Lemma ranges_loop_nil : forall fuel cov may, ranges_loop T fuel q [] cov may = (cov, may).
  Proof. intros [|f] cov may; reflexivity. Qed.

  (* the worklist visits each node at most once: [tree_len] iterations suffice (any larger
     fuel gives the same ranges), and what it returns selects exactly the [target] rows *)
  Lemma ranges_loop_fuel : forall fuel, tree_len T <= fuel ->
    ranges_loop T fuel q [0] [] [] = maybe_intersects_ranges T q.
  Proof.
    intros fuel Hfuel. unfold maybe_intersects_ranges.
    destruct (loop_node td 0 0 ltac:(lia) ltac:(simpl; lia)) as (c & m & _ & L).
    change [0] with [node 0 0].
    assert (Hsz : 2 ^ S td - 1 + 0 <= tree_len T)
      by (rewrite tree_len_eq; unfold tlen; rewrite pow2_S; lia).
    destruct (L [] [] [] fuel 0 ltac:(lia)) as (f1 & _ & E1).
    destruct (L [] [] [] (S (tree_len T)) 0 ltac:(lia)) as (f2 & _ & E2).
    now rewrite E1, E2, !ranges_loop_nil.
  Qed.

  Lemma ranges_correct :
    Permutation (eval (maybe_intersects_ranges T q)) (filter (fun k => target (sb k)) keys).
  Proof.
    unfold maybe_intersects_ranges.
    destruct (loop_node td 0 0 ltac:(lia) ltac:(simpl; lia)) as (c & m & P & L).
    destruct (L [] [] [] (S (tree_len T)) 0) as (f & _ & E).
    { rewrite tree_len_eq. unfold tlen. rewrite pow2_S. lia. }
    change (node 0 0) with 0 in E. rewrite E, ranges_loop_nil. simpl app.
    now rewrite range_keys_root in P.
  Qed.
End TreeQuery.
