(* C09, binary64 part: the key column of Model/PackFloat.v is elementwise.

   Whatever the input partitioning, a row's key is [f_hd1] of its own bounds row against
   the (widened) total bounds that _with_hilbert_distance_column captured once: the
   per-partition calls of hilbert_distance see the same tuple and do nothing that
   depends on the other rows of the partition (the scalar n / x_width and the choice of
   the zero-width branch are functions of the total bounds only).  Holds for EVERY binary64 input (NaN, infinities, signed
   zeros): no float arithmetic is reasoned about, only the shape of the computation.

   Not proved here: that the tuple itself (nanmin / nanmax over the partitions of the
   per-partition nanmin / nanmax) does not depend on the partitioning; it is evaluated
   by the kernel on the real partitions of every packing of every run. *)
From Coq Require Import PrimFloat ZArith NArith List Bool.
From SP Require Import Harness Model.Hilbert Model.FloatData2Coord Model.Pack Model.PackFloat.
Import ListNotations.

(* the total bounds after GeometryArray.hilbert_distance's own widening of zero widths *)
Definition f_key_tb (tb : frow) : frow :=
  let '(t0, t1, t2, t3) := tb in
  (t0, t1, (if (t0 =? t2)%float then (t2 + 1)%float else t2),
           (if (t1 =? t3)%float then (t3 + 1)%float else t3)).

Lemma map_combine_rows :
  forall (A B C D : Type) (g : B * C -> D) (f1 : A -> B) (f2 : A -> C) (rows : list A),
    map g (combine (map f1 rows) (map f2 rows)) = map (fun r => g (f1 r, f2 r)) rows.
Proof.
  intros A B C D g f1 f2 rows. induction rows as [|r t IH]; simpl; [reflexivity|].
  now rewrite IH.
Qed.

Lemma f_partition_keys_elementwise :
  forall tb p rows ds,
    f_partition_keys tb p rows = FReturned ds ->
    ds = map (f_hd1 (f_key_tb tb) p) rows.
Proof.
  intros [[[t0 t1] t2] t3] p rows ds.
  unfold f_partition_keys, f_geoseries_hilbert_distance, f_hilbert_distance, f_key_tb.
  cbn [map f_to_float].
  set (u2 := if (t0 =? t2)%float then (t2 + 1)%float else t2).
  set (u3 := if (t1 =? t3)%float then (t3 + 1)%float else t3).
  unfold f_distances_from_bounds, f_hd1.
  destruct (f_widen (t0, u2)) as [xlo xhi] eqn:Hx.
  destruct (f_widen (t1, u3)) as [ylo yhi] eqn:Hy.
  unfold f_data2coord_arr.
  intro H. injection H as <-.
  rewrite !map_map.
  rewrite (map_combine_rows frow Z Z N
             (fun c : Z * Z => distance_from_coordinate p [Z.to_N (fst c); Z.to_N (snd c)])).
  apply map_ext. intros [[[x0 y0] x1] y1]. reflexivity.
Qed.

Lemma f_with_hd_column_concat :
  forall tb p parts keys,
    f_with_hilbert_distance_column tb p parts = Some keys ->
    concat keys = map (f_hd1 (f_key_tb tb) p) (concat parts) /\
    map (@length N) keys = map (@length frow) parts.
Proof.
  intros tb p parts. unfold f_with_hilbert_distance_column.
  induction parts as [|q t IH]; intros keys H; simpl in H.
  - injection H as <-. split; reflexivity.
  - destruct (f_partition_keys tb p q) as [ds|e] eqn:Hq; [|discriminate].
    destruct (all_returned (map (f_partition_keys tb p) t)) as [r|] eqn:Ht; [|discriminate].
    injection H as <-. destruct (IH r eq_refl) as [IH1 IH2].
    apply f_partition_keys_elementwise in Hq. subst ds.
    simpl. rewrite IH1, map_app, IH2, map_length. split; reflexivity.
Qed.

(* two partitionings of the same rows, keyed against the same captured total bounds:
   the same key for every row, in row order *)
Theorem f_keys_partition_independent :
  forall tb p parts parts' keys keys',
    concat parts = concat parts' ->
    f_with_hilbert_distance_column tb p parts = Some keys ->
    f_with_hilbert_distance_column tb p parts' = Some keys' ->
    concat keys = concat keys'.
Proof.
  intros tb p parts parts' keys keys' Hc H H'.
  apply f_with_hd_column_concat in H. apply f_with_hd_column_concat in H'.
  destruct H as [H _], H' as [H' _]. now rewrite H, H', Hc.
Qed.

(* pack_partitions' key column: every row's key is f_hd1 of its bounds row against the
   widened total bounds of the whole Dask frame *)
Theorem f_pack_keys_own_key :
  forall parts p keys,
    f_pack_keys parts p = Some keys ->
    concat keys = map (f_hd1 (f_key_tb (f_dask_total_bounds parts)) p) (concat parts) /\
    map (@length N) keys = map (@length frow) parts.
Proof. intros parts p keys H. exact (f_with_hd_column_concat _ _ _ _ H). Qed.

(* ---- witnesses for the Examples of Properties/C09.v ---- *)
Definition ex_f_pack_keys_stmt : Prop :=
  let r (x y : float) : frow := (x, y, x, y) in
  let a := r 0x1.999999999999ap-4%float 0x1p-1%float in       (* (0.1, 0.5) *)
  let b := r 0x1.6666666666666p-1%float 0x1.8p+0%float in      (* (0.7, 1.5) *)
  let c := r 0x1.9ap+6%float 0x1.18p+5%float in                (* (102.5, 35.0) *)
  let m : frow := (nan, nan, nan, nan) in
  f_pack_keys [[a; b; m; c]] 10 = Some [[0%N; 999%N; 0%N; 699050%N]] /\
  f_pack_keys [[a]; []; [b; m]; [c]] 10 = Some [[0%N]; []; [999%N; 0%N]; [699050%N]].
Lemma ex_f_pack_keys_holds : ex_f_pack_keys_stmt.
Proof. vm_compute. split; reflexivity. Qed.

Definition ex_f_operation_order_stmt : Prop :=
  let v := 0x1.6666666666666p-1%float in
  let lo := 0x1.999999999999ap-4%float in
  let hi := 0x1.9ap+6%float in
  float_to_int64 (f_scaled v lo hi 1024) = 6%Z /\
  float_to_int64 (f_scaled_divfirst v lo hi 1024) = 5%Z.
Lemma ex_f_operation_order_holds : ex_f_operation_order_stmt.
Proof. vm_compute. split; reflexivity. Qed.
