(* C04: what _get_bounds computes (scalar keys, step rejection, omitted ends
   filled from the data extent, reversed ends swapped), and the selection
   theorems restated on the box a key denotes. *)
From Coq Require Import ZArith List Bool Arith Lia ZifyBool Permutation.
From SP Require Import Model.Num Model.Arrow Model.Bounds Model.PointKernels
     Model.Intersect Model.Rtree Model.Cx.
From SP Require Import Spec.Boxes Spec.IntersectSpec Spec.CxSpec.
From SP Require Import Proofs.RtreeLists Proofs.CxLists Proofs.CxProofs Proofs.CxKinds.
Import ListNotations.
Local Open Scope nat_scope.

(* where the default ends come from: the index's root box when an index exists,
   else total_bounds *)
Definition extent_of (o : gobj) : num * num * num * num :=
  match go_sindex o with
  | Some T => unpack4 (total_bounds T)
  | None => g_total_bounds (go_data o)
  end.

Lemma swap_spec : forall a b : Z,
  (if nlt (Some b) (Some a) then (Some b, Some a) else (Some a, Some b))
  = (Some (Z.min a b), Some (Z.max a b)).
Proof.
  intros a b. cbn. destruct (Z.ltb_spec b a).
  - rewrite Z.min_r, Z.max_l by lia. reflexivity.
  - rewrite Z.min_l, Z.max_r by lia. reflexivity.
Qed.

(* a step on either component: ValueError *)
Theorem get_bounds_step : forall o xs ys,
  get_bounds o xs ys = None <-> key_has_step xs || key_has_step ys = true.
Proof.
  intros o xs ys. unfold get_bounds.
  destruct xs as [vx|ax bx [sx|]], ys as [vy|ay by_ [sy|]]; cbn [as_slice key_has_step orb];
    try (split; [reflexivity | reflexivity]);
    (split; [|discriminate]);
    destruct (match go_sindex o with Some T => unpack4 (total_bounds T)
                                | None => g_total_bounds (go_data o) end) as [[[xmin ymin] xmax] ymax];
    cbn zeta;
    repeat match goal with |- context [if ?c then _ else _] => destruct c end; discriminate.
Qed.

(* no step, finite extent: the box the key denotes *)
Theorem get_bounds_spec : forall o xs ys ex0 ey0 ex1 ey1,
  key_has_step xs = false -> key_has_step ys = false ->
  extent_of o = (Some ex0, Some ey0, Some ex1, Some ey1) ->
  get_bounds o xs ys =
  let '(x0, y0, x1, y1) := spec_box xs ys (ex0, ey0, ex1, ey1) in
  Some (Some x0, Some x1, Some y0, Some y1).
Proof.
  intros o xs ys ex0 ey0 ex1 ey1 Sx Sy E. unfold get_bounds, extent_of in *.
  destruct xs as [vx|ax bx [sx|]]; try discriminate Sx;
  destruct ys as [vy|ay by_ [sy|]]; try discriminate Sy;
  cbn [as_slice]; rewrite E; unfold spec_box, spec_axis; cbn [key_ends or_default];
  repeat match goal with
         | |- context [or_default ?v _] => destruct v; cbn [or_default]
         end;
  rewrite !swap_spec; reflexivity.
Qed.

(* all four ends given: the extent (finite or not, index or not) plays no role *)
Theorem get_bounds_explicit : forall o xs ys a b c d,
  key_has_step xs = false -> key_has_step ys = false ->
  key_ends xs = (Some a, Some c) -> key_ends ys = (Some b, Some d) ->
  get_bounds o xs ys =
  Some (Some (Z.min a c), Some (Z.max a c), Some (Z.min b d), Some (Z.max b d)).
Proof.
  intros o xs ys a b c d Sx Sy Ex Ey. unfold get_bounds.
  destruct xs as [vx|ax bx [sx|]]; try discriminate Sx;
  destruct ys as [vy|ay by_ [sy|]]; try discriminate Sy;
  cbn [key_ends] in Ex, Ey; inversion Ex; inversion Ey; subst; cbn [as_slice];
  destruct (match go_sindex o with Some T => unpack4 (total_bounds T)
                              | None => g_total_bounds (go_data o) end) as [[[xmin ymin] xmax] ymax];
  cbn [or_default]; rewrite !swap_spec; reflexivity.
Qed.

(* reversed ends are swapped: the key with its ends exchanged denotes the same box *)
Definition reverse_key (k : axis_key) : axis_key :=
  match k with
  | KScalar v => KScalar v
  | KSlice (Some a) (Some b) s => KSlice (Some b) (Some a) s
  | KSlice a b s => KSlice a b s
  end.

Theorem get_bounds_reversed : forall o xs ys,
  get_bounds o (reverse_key xs) ys = get_bounds o xs ys /\
  get_bounds o xs (reverse_key ys) = get_bounds o xs ys.
Proof.
  intros o xs ys. unfold get_bounds.
  destruct (match go_sindex o with Some T => unpack4 (total_bounds T)
                              | None => g_total_bounds (go_data o) end) as [[[xmin ymin] xmax] ymax] eqn:E.
  split.
  - destruct xs as [vx|[ax|] [bx|] sx]; try reflexivity.
    cbn [reverse_key as_slice].
    destruct sx; [reflexivity|]. destruct ys as [vy|ay by_ [sy|]]; cbn [as_slice]; try reflexivity;
      rewrite ?E; cbn [or_default]; rewrite !swap_spec, Z.min_comm, Z.max_comm; reflexivity.
  - destruct ys as [vy|[ay|] [by_|] sy]; try reflexivity.
    cbn [reverse_key as_slice].
    destruct sy; [destruct xs as [vx|ax bx [sx|]]; reflexivity|].
    destruct xs as [vx|ax bx [sx|]]; cbn [as_slice]; try reflexivity;
      rewrite ?E; cbn [or_default]; rewrite !swap_spec, (Z.min_comm by_), (Z.max_comm by_); reflexivity.
Qed.

(* ---------------------------------------------- a NaN root box answers nothing *)
(* the model's side of the NaN-end branch of cx_positions: when the root box of
   the index is NaN (zero rows, or no row with a box), covers_overlaps returns
   ([], []) for every query *)
Theorem covers_overlaps_nan_root : forall T q,
  isnan (col 0 (total_bounds T)) = true -> t_tree T <> [] -> covers_overlaps T q = ([], []).
Proof.
  intros T q Hn Hne. unfold covers_overlaps.
  destruct (t_bounds T); [reflexivity|].
  unfold maybe_intersects_ranges. cbn [ranges_loop].
  unfold total_bounds in Hn. destruct (t_tree T) as [|root rest] eqn:ET; [contradiction|].
  unfold getrow. cbn [nth]. unfold node_outside. rewrite Hn. cbn [orb].
  destruct (tree_len T); reflexivity.
Qed.

Theorem covers_overlaps_empty_tree : forall T q,
  t_bounds T = [] -> covers_overlaps T q = ([], []).
Proof. intros T q H. unfold covers_overlaps. rewrite H. reflexivity. Qed.

(* ---------------------------------- the selection theorems on the denoted box *)
Theorem selects_exact_noindex_key : forall g xs ys ex0 ey0 ex1 ey1,
  g_modelled g ->
  key_has_step xs = false -> key_has_step ys = false ->
  g_total_bounds g = (Some ex0, Some ey0, Some ex1, Some ey1) ->
  cx_positions (new_obj g) xs ys = inr (cx_spec g (spec_box xs ys (ex0, ey0, ex1, ey1))).
Proof.
  intros g xs ys ex0 ey0 ex1 ey1 M Sx Sy E.
  pose proof (get_bounds_spec (new_obj g) xs ys ex0 ey0 ex1 ey1 Sx Sy E) as HB.
  destruct (spec_box xs ys (ex0, ey0, ex1, ey1)) as [[[x0 y0] x1] y1].
  apply selects_exact_noindex; [apply kinds_ok, M | exact HB].
Qed.

Theorem selects_exact_index_key : forall g keys ps xs ys ex0 ey0 ex1 ey1,
  g_modelled g ->
  Permutation keys (seq 0 (g_len g)) ->
  key_has_step xs = false -> key_has_step ys = false ->
  extent_of (build_sindex (new_obj g) keys ps) = (Some ex0, Some ey0, Some ex1, Some ey1) ->
  positive_box (spec_box xs ys (ex0, ey0, ex1, ey1)) ->
  cx_positions (build_sindex (new_obj g) keys ps) xs ys
  = inr (cx_spec g (spec_box xs ys (ex0, ey0, ex1, ey1))).
Proof.
  intros g keys ps xs ys ex0 ey0 ex1 ey1 M P Sx Sy E Pos.
  pose proof (get_bounds_spec _ xs ys ex0 ey0 ex1 ey1 Sx Sy E) as HB.
  destruct (spec_box xs ys (ex0, ey0, ex1, ey1)) as [[[x0 y0] x1] y1].
  destruct Pos as [Px Py].
  apply selects_exact_index; try assumption. apply kinds_ok, M.
Qed.

(* explicit ends: with index = without index, whatever the extents *)
Theorem index_irrelevant_explicit : forall g keys ps xs ys a b c d,
  g_modelled g ->
  Permutation keys (seq 0 (g_len g)) ->
  key_has_step xs = false -> key_has_step ys = false ->
  key_ends xs = (Some a, Some c) -> key_ends ys = (Some b, Some d) ->
  a <> c -> b <> d ->
  cx_positions (build_sindex (new_obj g) keys ps) xs ys = cx_positions (new_obj g) xs ys.
Proof.
  intros g keys ps xs ys a b c d M P Sx Sy Ex Ey Nx Ny.
  eapply index_irrelevant_box; try (apply kinds_ok, M); try exact P.
  - apply (get_bounds_explicit _ xs ys a b c d Sx Sy Ex Ey).
  - apply (get_bounds_explicit _ xs ys a b c d Sx Sy Ex Ey).
  - lia.
  - lia.
Qed.

(* omitted ends: with index = without index as soon as both take the same extent
   (root_is_extent below: they do) *)
Theorem index_irrelevant_key : forall g keys ps xs ys ex0 ey0 ex1 ey1,
  g_modelled g ->
  Permutation keys (seq 0 (g_len g)) ->
  key_has_step xs = false -> key_has_step ys = false ->
  g_total_bounds g = (Some ex0, Some ey0, Some ex1, Some ey1) ->
  extent_of (build_sindex (new_obj g) keys ps) = g_total_bounds g ->
  positive_box (spec_box xs ys (ex0, ey0, ex1, ey1)) ->
  cx_positions (build_sindex (new_obj g) keys ps) xs ys = cx_positions (new_obj g) xs ys.
Proof.
  intros g keys ps xs ys ex0 ey0 ex1 ey1 M P Sx Sy E ER Pos.
  rewrite (selects_exact_noindex_key g xs ys ex0 ey0 ex1 ey1 M Sx Sy E).
  apply selects_exact_index_key; try assumption. rewrite ER. exact E.
Qed.

(* ------------------------------------------------- data without an extent *)
(* the model's NaN-end branch without index answers "nothing" when every bounds
   row is NaN; indeed such data intersects no box at all *)
Theorem no_extent_selects_nothing : forall g x0 y0 x1 y1,
  kind_ok g -> forallb bbox_isnan (g_bounds g) = true ->
  (x0 <= x1)%Z -> (y0 <= y1)%Z ->
  cx_spec g (x0, y0, x1, y1) = [].
Proof.
  intros g x0 y0 x1 y1 K Hn Hx Hy. unfold cx_spec.
  apply filter_false. intros i Hi. apply in_seq in Hi.
  destruct (row_hits g (x0, y0, x1, y1) i) eqn:Hh; [|reflexivity].
  pose proof (k_reject g K x0 y0 x1 y1 i Hx Hy ltac:(lia) Hh) as Ho.
  rewrite forallb_forall in Hn.
  assert (Hb : bbox_isnan (bb g i) = true).
  { apply Hn. unfold bb. apply nth_In. rewrite (k_bounds_len g K). lia. }
  destruct (bb g i) as [[[b0 b1] b2] b3]. cbn in Hb.
  destruct b0; [discriminate Hb|]. cbn in Ho. discriminate Ho.
Qed.
