(* C01 for polygons and multipolygons. *)
From Coq Require Import ZArith Reals Lra Lia Psatz Bool ZifyBool List Arith.
From SP Require Import Model.Num Model.Arrow Model.Bounds Model.PointKernels Model.Intersect
                       Spec.Plane Spec.IntersectSpec
                       Proofs.IntersectBase Proofs.IntersectPoints Proofs.IntersectSegR
                       Proofs.IntersectSeg Proofs.IntersectBounds Proofs.IntersectPlane
                       Proofs.IntersectLine Proofs.IntersectWinding.
Import ListNotations.
Open Scope Z_scope.

(* every vertex of every ring lies in the bounding box of the first ring (the
   shell): what a valid polygon guarantees, and what makes the projection
   shortcut sound *)
Definition holes_in_shell_bbox (rings : list (list pt)) : Prop :=
  match rings with
  | [] => True
  | shell :: _ =>
      forall v, In v (concat rings) ->
        exists l r b t, In l shell /\ In r shell /\ In b shell /\ In t shell /\
                        fst l <= fst v <= fst r /\ snd b <= snd v <= snd t
  end.

Lemma in_concat_ring : forall (rings : list (list pt)) v,
  In v (concat rings) -> exists r, In r rings /\ In v r.
Proof. intros rings v H. apply in_concat in H. destruct H as (r & H1 & H2). eauto. Qed.

Lemma boundary_region : forall rings r P, In r rings -> line_set r P -> poly_region rings P.
Proof. intros. left. eauto. Qed.

Section Sound.
Variables x0 y0 x1 y1 : Z.
Variable vals : list Z.
Variable offsets1 : list nat.
Variables start0 stop0 : nat.
Hypothesis Lx : x0 < x1.
Hypothesis Ly : y0 < y1.

Let poffs := slice start0 (stop0 + 1) offsets1.
Let rings := map zpairs (rings_of vals poffs).

(* the vertices the kernel scans from offsets1[start0] to offsets1[stop0] are
   those of the rings, in order (true of every well-formed array: see
   polygon_vertices_concat below) *)
Hypothesis Hcat :
  zpairs (slice (getn offsets1 start0) (getn offsets1 stop0) vals) = concat rings.
Hypothesis Hbbox : holes_in_shell_bbox rings.

Theorem perform_polygon_sound :
  perform_polygon x0 y0 x1 y1 vals offsets1 start0 stop0 = true ->
  exists P, in_zbox x0 y0 x1 y1 P /\ poly_region rings P.
Proof.
  unfold perform_polygon. fold poffs.
  set (seg := slice (getn offsets1 start0) (getn offsets1 stop0) vals) in *.
  destruct (zpairs seg) as [|p ps] eqn:Evs.
  { rewrite (zbounds_nil seg Evs). simpl. discriminate. }
  destruct (zbounds_cons seg p ps Evs) as (a & b & c & d & Eb & Hall & Ha & Hb & Hc & Hd).
  rewrite Eb. rewrite Hcat in Hall, Ha, Hb, Hc, Hd.
  unfold bounds_nan, bounds_reject, bounds_shortcut, n_gt, n_lt, n_ge, n_le.
  destruct ((x1 <? a) || (y1 <? b) || (c <? x0) || (d <? y0)) eqn:Rej; [discriminate|].
  rewrite !orb_false_iff in Rej. destruct Rej as [[[R1 R2] R3] R4].
  apply Z.ltb_ge in R1, R2, R3, R4.
  destruct ((x0 <=? a) && (c <=? x1) || (y0 <=? b) && (d <=? y1)) eqn:Sh.
  { (* projection shortcut: a point of the shell *)
    intros _. destruct rings as [|shell holes] eqn:ER; [discriminate Hcat|].
    simpl in Hbbox.
    assert (Hshell : forall v, In v shell -> In v (concat (shell :: holes))).
    { intros v Hv. simpl. apply in_or_app. now left. }
    rewrite orb_true_iff, !andb_true_iff, !Z.leb_le in Sh.
    assert (HP : exists P, in_zbox x0 y0 x1 y1 P /\ line_set shell P).
    { destruct Sh as [[S1 S2]|[S1 S2]].
      - apply polyline_straddle_x; [lia| | |].
        + intros v Hv. specialize (Hall v (Hshell v Hv)). lia.
        + destruct Hb as (q & Hq & E). destruct (Hbbox q Hq) as (l & r & bb & t & _ & _ & Hbb & _ & _ & Hy).
          exists bb. split; [assumption | lia].
        + destruct Hd as (q & Hq & E). destruct (Hbbox q Hq) as (l & r & bb & t & _ & _ & _ & Ht & _ & Hy).
          exists t. split; [assumption | lia].
      - apply polyline_straddle_y; [lia| | |].
        + intros v Hv. specialize (Hall v (Hshell v Hv)). lia.
        + destruct Ha as (q & Hq & E). destruct (Hbbox q Hq) as (l & r & bb & t & Hl & _ & _ & _ & Hx & _).
          exists l. split; [assumption | lia].
        + destruct Hc as (q & Hq & E). destruct (Hbbox q Hq) as (l & r & bb & t & _ & Hr & _ & _ & Hx & _).
          exists r. split; [assumption | lia]. }
    destruct HP as (P & HB & HL). exists P. split; [assumption|].
    apply (boundary_region _ shell); [now left | assumption]. }
  rewrite Hcat.
  destruct (existsb (in_rect x0 y0 x1 y1) (concat rings)) eqn:Vin.
  { intros _. apply existsb_exists in Vin. destruct Vin as (v & Hv & Hr).
    destruct (in_concat_ring _ _ Hv) as (r & Hr1 & Hr2).
    exists (zp v). split; [now apply in_rect_zbox|].
    apply (boundary_region _ r); [assumption | now apply line_set_vertex]. }
  destruct (existsb _ (rings_of vals poffs)) eqn:Ehit.
  { intros _. apply existsb_exists in Ehit. destruct Ehit as (ring & Hring & He).
    apply existsb_exists in He. destruct He as ([A B] & He & Hh).
    destruct (edge_hits_rect_sound x0 y0 x1 y1 A B Lx Ly Hh) as (P & HP & HB).
    exists P. split; [assumption|].
    apply (boundary_region _ (zpairs ring)).
    - unfold rings. now apply in_map.
    - eapply line_set_edge; eassumption. }
  (* a corner of the box has non-zero winding number *)
  assert (Bx : (IZR x0 <= IZR x1)%R) by (apply IZR_le; lia).
  assert (By : (IZR y0 <= IZR y1)%R) by (apply IZR_le; lia).
  rewrite !orb_true_iff. intros [[[H|H]|H]|H]; apply pip_refines_wn in H; fold rings in H.
  - exists (IZR x0, IZR y0). split; [unfold in_zbox, in_box; simpl; lra | now right].
  - exists (IZR x1, IZR y0). split; [unfold in_zbox, in_box; simpl; lra | now right].
  - exists (IZR x1, IZR y1). split; [unfold in_zbox, in_box; simpl; lra | now right].
  - exists (IZR x0, IZR y1). split; [unfold in_zbox, in_box; simpl; lra | now right].
Qed.
End Sound.

(* ---------------------------------------------------------------- the scanned vertices are those of the rings *)
Lemma firstn_add {A} : forall n m (l : list A),
  firstn (n + m) l = firstn n l ++ firstn m (skipn n l).
Proof.
  induction n as [|n IH]; intros m l; [reflexivity|].
  destruct l as [|a l]; simpl; [now rewrite firstn_nil|]. now rewrite IH.
Qed.

Lemma skipn_add {A} : forall n m (l : list A), skipn (n + m) l = skipn m (skipn n l).
Proof.
  induction n as [|n IH]; intros m l; [reflexivity|].
  destruct l as [|a l]; simpl; [now rewrite skipn_nil|]. apply IH.
Qed.

Lemma slice_app {A} : forall (l : list A) a b c, (a <= b)%nat -> (b <= c)%nat ->
  slice a b l ++ slice b c l = slice a c l.
Proof.
  intros l a b c H1 H2. unfold slice.
  replace (c - a)%nat with ((b - a) + (c - b))%nat by lia.
  rewrite firstn_add. f_equal. f_equal.
  rewrite <- skipn_add. f_equal. lia.
Qed.

Lemma mono_cons : forall a b t, mono (a :: b :: t) = true -> (a <= b)%nat /\ mono (b :: t) = true.
Proof.
  intros a b t H. simpl in H. apply andb_prop in H. destruct H as [H1 H2].
  apply Nat.leb_le in H1. tauto.
Qed.

Lemma mono_hd_last : forall l, mono l = true -> (hd 0%nat l <= last l 0%nat)%nat.
Proof.
  induction l as [|a [|b t] IH]; intro H; simpl; try lia.
  apply mono_cons in H. destruct H as [H1 H2]. specialize (IH H2). simpl in IH. lia.
Qed.

Lemma rings_concat : forall (vals : list Z) l, mono l = true ->
  concat (rings_of vals l) = slice (hd 0%nat l) (last l 0%nat) vals.
Proof.
  intros vals. induction l as [|a [|b t] IH]; intro H.
  - reflexivity.
  - simpl. unfold slice. now rewrite Nat.sub_diag.
  - apply mono_cons in H. destruct H as [H1 H2].
    change (concat (rings_of vals (a :: b :: t)))
      with (slice a b vals ++ concat (rings_of vals (b :: t))).
    rewrite (IH H2).
    change (hd 0%nat (b :: t)) with b. change (hd 0%nat (a :: b :: t)) with a.
    change (last (a :: b :: t) 0%nat) with (last (b :: t) 0%nat).
    apply slice_app; [assumption|]. apply (mono_hd_last (b :: t) H2).
Qed.

Lemma zpairs_app : forall l1 l2, Nat.even (length l1) = true ->
  zpairs (l1 ++ l2) = zpairs l1 ++ zpairs l2.
Proof.
  intro l1. induction l1 as [|x|x y t IH] using pair_ind; intros l2 H.
  - reflexivity.
  - discriminate.
  - simpl. f_equal. apply IH. exact H.
Qed.

Lemma zpairs_concat : forall rs, Forall (fun r => Nat.even (length r) = true) rs ->
  zpairs (concat rs) = concat (map zpairs rs).
Proof.
  induction rs as [|r rs IH]; intro H; [reflexivity|].
  inversion H; subst. simpl. rewrite zpairs_app by assumption. now rewrite IH.
Qed.

Lemma rings_even : forall (vals : list Z) l, mono l = true -> forallb Nat.even l = true ->
  (last l 0%nat <= length vals)%nat ->
  Forall (fun r => Nat.even (length r) = true) (rings_of vals l).
Proof.
  intros vals. induction l as [|a [|b t] IH]; intros M E L; try constructor.
  - apply mono_cons in M. destruct M as [M1 M2].
    simpl in E. apply andb_prop in E. destruct E as [Ea E]. pose proof E as E'.
    simpl in E'. apply andb_prop in E'. destruct E' as [Eb _].
    pose proof (mono_hd_last (b :: t) M2) as HL. simpl hd in HL.
    change (last (a :: b :: t) 0%nat) with (last (b :: t) 0%nat) in L.
    rewrite length_slice.
    replace (Nat.min (b - a) (length vals - a)) with (b - a)%nat by lia.
    apply Nat.even_spec in Ea. apply Nat.even_spec in Eb. apply Nat.even_spec.
    destruct Ea as [ka Ka], Eb as [kb Kb]. exists (kb - ka)%nat. lia.
  - apply mono_cons in M. destruct M as [M1 M2].
    simpl in E. apply andb_prop in E. destruct E as [_ E].
    apply IH; assumption.
Qed.

Lemma last_nth {A} : forall (l : list A) d, last l d = nth (length l - 1) l d.
Proof.
  induction l as [|a [|b t] IH]; intro d; try reflexivity.
  change (last (a :: b :: t) d) with (last (b :: t) d). rewrite IH. simpl. now rewrite Nat.sub_0_r.
Qed.

(* well-formedness of the ring offsets of one polygon, as the constructor of
   the array classes guarantees (monotone, even, inside the values buffer) *)
Definition wf_ring_offsets (vals : list Z) (offsets1 : list nat) (start0 stop0 : nat) : Prop :=
  (start0 <= stop0)%nat /\ (stop0 < length offsets1)%nat /\
  let poffs := slice start0 (stop0 + 1) offsets1 in
  mono poffs = true /\ forallb Nat.even poffs = true /\ (last poffs 0%nat <= length vals)%nat.

Theorem polygon_vertices_concat : forall vals offsets1 start0 stop0,
  wf_ring_offsets vals offsets1 start0 stop0 ->
  zpairs (slice (getn offsets1 start0) (getn offsets1 stop0) vals) =
  concat (map zpairs (rings_of vals (slice start0 (stop0 + 1) offsets1))).
Proof.
  intros vals offsets1 start0 stop0 (H1 & H2 & M & E & L). cbv zeta in *.
  set (poffs := slice start0 (stop0 + 1) offsets1) in *.
  rewrite <- zpairs_concat by (now apply rings_even).
  rewrite rings_concat by assumption. f_equal.
  assert (Len : length poffs = (stop0 + 1 - start0)%nat) by (unfold poffs; rewrite length_slice; lia).
  f_equal.
  - destruct poffs as [|h t] eqn:EP; [simpl in Len; lia|]. simpl.
    change h with (nth 0 (h :: t) 0%nat). rewrite <- EP. unfold poffs.
    rewrite nth_slice by lia. unfold getn. f_equal. lia.
  - rewrite last_nth, Len. unfold poffs. rewrite nth_slice by lia. unfold getn. f_equal. lia.
Qed.

(* ---------------------------------------------------------------- the bbox hypothesis is needed *)
(* a "hole" outside its shell: the projection shortcut answers True although the
   box shares no point with any ring and has winding number 0 everywhere *)
Definition bad_vals : list Z := [0; 0; 2; 0; 2; 2; 0; 0;   0; 8; 2; 8; 2; 10; 0; 8].
Definition bad_offs : list nat := [0; 8; 16]%nat.

Lemma shortcut_needs_bbox_true :
  perform_polygon (-1) 4 3 6 bad_vals bad_offs 0 2 = true.
Proof. vm_compute. reflexivity. Qed.

Lemma wn_edge_same_height_side : forall P A B, above P A = above P B -> wn_edge P A B = 0.
Proof.
  intros P A B H. unfold wn_edge.
  destruct (Req_EM_T (snd A) (snd B)); [reflexivity|].
  destruct (Rle_dec (fst P) (edge_x_at A B (snd P))); [|reflexivity]. lia.
Qed.

Lemma wn_ring_one_side : forall P vs,
  (forall v, In v vs -> above P (zp v) = 0) \/ (forall v, In v vs -> above P (zp v) = 1) ->
  wn_ring P vs = 0.
Proof.
  intros P vs H. unfold wn_ring.
  assert (E : forall e, In e (edges vs) -> wn_edge P (zp (fst e)) (zp (snd e)) = 0).
  { intros [A B] He. apply edges_in in He. destruct He as [HA HB]. simpl.
    apply wn_edge_same_height_side. destruct H as [H|H]; now rewrite (H A HA), (H B HB). }
  induction (edges vs) as [|e l IH]; [reflexivity|].
  simpl. rewrite (E e (or_introl eq_refl)). rewrite IH; [reflexivity|].
  intros e' He'. apply E. now right.
Qed.

Theorem shortcut_needs_bbox_refuted :
  exists vals offsets1 start0 stop0 x0 y0 x1 y1,
    x0 < x1 /\ y0 < y1 /\ wf_ring_offsets vals offsets1 start0 stop0 /\
    perform_polygon x0 y0 x1 y1 vals offsets1 start0 stop0 = true /\
    ~ exists P, in_zbox x0 y0 x1 y1 P /\
                poly_region (map zpairs (rings_of vals (slice start0 (stop0 + 1) offsets1))) P.
Proof.
  exists bad_vals, bad_offs, 0%nat, 2%nat, (-1), 4, 3, 6.
  split; [lia|]. split; [lia|]. split; [vm_compute; repeat split; lia|].
  split; [apply shortcut_needs_bbox_true|].
  intros (P & [[Bx0 Bx1] [By0 By1]] & HR). simpl in By0, By1.
  change (map zpairs (rings_of bad_vals (slice 0 (2 + 1) bad_offs)))
    with [[(0, 0); (2, 0); (2, 2); (0, 0)]; [(0, 8); (2, 8); (2, 10); (0, 8)]] in HR.
  destruct HR as [(r & [<-|[<-|[]]] & HL)|HW].
  - apply (line_set_in_bounds _ 0 0 2 2) in HL; [lra|].
    intros q Hq. simpl in Hq. destruct Hq as [<-|[<-|[<-|[<-|[]]]]]; simpl; lia.
  - apply (line_set_in_bounds _ 0 8 2 10) in HL; [lra|].
    intros q Hq. simpl in Hq. destruct Hq as [<-|[<-|[<-|[<-|[]]]]]; simpl; lia.
  - apply HW. unfold wn. simpl.
    rewrite (wn_ring_one_side P [(0, 0); (2, 0); (2, 2); (0, 0)]).
    + rewrite (wn_ring_one_side P [(0, 8); (2, 8); (2, 10); (0, 8)]); [reflexivity|].
      right. intros v Hv. unfold above.
      destruct (Rle_dec (snd P) (snd (zp v))) as [H|H]; [reflexivity|]. exfalso. apply H.
      simpl in Hv. destruct Hv as [<-|[<-|[<-|[<-|[]]]]]; simpl; lra.
    + left. intros v Hv. unfold above.
      destruct (Rle_dec (snd P) (snd (zp v))) as [H|H]; [|reflexivity]. exfalso.
      simpl in Hv. destruct Hv as [<-|[<-|[<-|[<-|[]]]]]; simpl in H; lra.
Qed.

(* ---------------------------------------------------------------- arrays and multipolygons *)
Definition rings_at (vals : list Z) (offsets1 : list nat) (start0 stop0 : nat) : list (list pt) :=
  map zpairs (rings_of vals (slice start0 (stop0 + 1) offsets1)).

Theorem perform_polygon_sound_wf : forall x0 y0 x1 y1 vals offsets1 start0 stop0,
  x0 < x1 -> y0 < y1 -> wf_ring_offsets vals offsets1 start0 stop0 ->
  holes_in_shell_bbox (rings_at vals offsets1 start0 stop0) ->
  perform_polygon x0 y0 x1 y1 vals offsets1 start0 stop0 = true ->
  exists P, in_zbox x0 y0 x1 y1 P /\ poly_region (rings_at vals offsets1 start0 stop0) P.
Proof.
  intros * Lx Ly W HB H. unfold rings_at in *.
  apply (perform_polygon_sound x0 y0 x1 y1 vals offsets1 start0 stop0); try assumption.
  now apply polygon_vertices_concat.
Qed.

Definition parts_at (vals : list Z) (offsets1 offsets2 : list nat) (start0 stop0 : nat)
  : list (list (list pt)) :=
  map (fun '(s, e) => rings_at vals offsets2 s e) (opairs (slice start0 (stop0 + 1) offsets1)).

Theorem perform_multipolygon_sound : forall x0 y0 x1 y1 vals offsets1 offsets2 start0 stop0,
  x0 < x1 -> y0 < y1 ->
  (forall s e, In (s, e) (opairs (slice start0 (stop0 + 1) offsets1)) ->
     wf_ring_offsets vals offsets2 s e /\ holes_in_shell_bbox (rings_at vals offsets2 s e)) ->
  perform_multipolygon x0 y0 x1 y1 vals offsets1 offsets2 start0 stop0 = true ->
  exists P, in_zbox x0 y0 x1 y1 P /\
            multipoly_region (parts_at vals offsets1 offsets2 start0 stop0) P.
Proof.
  intros * Lx Ly Hwf H. unfold perform_multipolygon in H.
  apply existsb_exists in H. destruct H as ([s e] & Hin & H).
  destruct (Hwf s e Hin) as [W HB].
  destruct (perform_polygon_sound_wf x0 y0 x1 y1 vals offsets2 s e Lx Ly W HB H) as (P & HP & HR).
  exists P. split; [assumption|]. exists (rings_at vals offsets2 s e). split; [|assumption].
  unfold parts_at. apply in_map_iff. exists (s, e). tauto.
Qed.

(* a missing / empty polygon (no vertex between its offsets) intersects nothing, for any box *)
Lemma perform_polygon_empty : forall x0 y0 x1 y1 vals offsets1 start0 stop0,
  zpairs (slice (getn offsets1 start0) (getn offsets1 stop0) vals) = [] ->
  perform_polygon x0 y0 x1 y1 vals offsets1 start0 stop0 = false.
Proof. intros * E. unfold perform_polygon. now rewrite (zbounds_nil _ E). Qed.
