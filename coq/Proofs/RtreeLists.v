(* List lemmas used by the C03 proofs: in-place update, numpy slicing,
   mask-filtering of zipped slices, permutations and filters. *)
From Coq Require Import ZArith List Bool Arith Lia Permutation.
From SP Require Import Model.Num Model.Rtree.
Import ListNotations.
Local Open Scope nat_scope.

(* ------------------------------------------------------------------ upd *)
Lemma upd_length : forall A (l : list A) i v, length (upd i v l) = length l.
Proof.
  induction l as [|x t IH]; intros i v; [destruct i; reflexivity|].
  destruct i; simpl; [reflexivity|]. now rewrite IH.
Qed.

Lemma nth_upd_same : forall A (l : list A) i v dflt,
  i < length l -> nth i (upd i v l) dflt = v.
Proof.
  induction l as [|x t IH]; intros i v dflt Hi; simpl in *; [lia|].
  destruct i; simpl; [reflexivity|]. apply IH. lia.
Qed.

Lemma nth_upd_other : forall A (l : list A) i j v dflt,
  i <> j -> nth j (upd i v l) dflt = nth j l dflt.
Proof.
  induction l as [|x t IH]; intros i j v dflt Hij; [destruct i; reflexivity|].
  destruct i; destruct j; simpl; try reflexivity; try lia.
  apply IH. lia.
Qed.

Lemma upd_same : forall A (l : list A) i dflt,
  upd i (nth i l dflt) l = l.
Proof.
  induction l as [|x t IH]; intros i dflt; [destruct i; reflexivity|].
  destruct i; simpl; [reflexivity|]. now rewrite IH.
Qed.

(* ---------------------------------------------------------------- slice *)
Lemma slice_nil : forall A a b, @slice A a b [] = [].
Proof. intros. unfold slice. rewrite skipn_nil. apply firstn_nil. Qed.

Lemma slice_beyond : forall A (l : list A) a b, length l <= a -> slice a b l = [].
Proof.
  intros A l a b H. unfold slice. rewrite skipn_all2 by exact H. apply firstn_nil.
Qed.

Lemma slice_all : forall A (l : list A) b, length l <= b -> slice 0 b l = l.
Proof.
  intros A l b H. unfold slice. simpl. rewrite Nat.sub_0_r. apply firstn_all2. exact H.
Qed.

Lemma slice_map : forall A B (f : A -> B) l a b, slice a b (map f l) = map f (slice a b l).
Proof.
  intros. unfold slice. rewrite skipn_map, firstn_map. reflexivity.
Qed.

Lemma firstn_add : forall A (l : list A) a b,
  firstn (a + b) l = firstn a l ++ firstn b (skipn a l).
Proof.
  intros A l a. revert l. induction a as [|a IH]; intros l b; simpl; [reflexivity|].
  destruct l as [|x t]; simpl.
  - now rewrite firstn_nil.
  - now rewrite IH.
Qed.

Lemma skipn_skipn' : forall A (l : list A) a b, skipn a (skipn b l) = skipn (b + a) l.
Proof.
  intros A l a b. revert l. induction b as [|b IH]; intros l; simpl; [reflexivity|].
  destruct l as [|x t]; simpl; [now rewrite skipn_nil|]. apply IH.
Qed.

Lemma slice_app : forall A (l : list A) a b c,
  a <= b -> b <= c -> slice a c l = slice a b l ++ slice b c l.
Proof.
  intros A l a b c Hab Hbc. unfold slice.
  replace (c - a) with ((b - a) + (c - b)) by lia.
  rewrite firstn_add. f_equal. f_equal.
  rewrite skipn_skipn'. f_equal. lia.
Qed.

Lemma In_firstn : forall A (l : list A) n x, In x (firstn n l) -> In x l.
Proof.
  induction l as [|y t IH]; intros n x H; destruct n; simpl in H; try contradiction.
  destruct H as [H|H]; [now left|right; eapply IH; eassumption].
Qed.

Lemma In_skipn : forall A (l : list A) n x, In x (skipn n l) -> In x l.
Proof.
  induction l as [|y t IH]; intros n x H; destruct n; simpl in H; try contradiction; try assumption.
  right. eapply IH; eassumption.
Qed.

Lemma slice_In : forall A (l : list A) a b x, In x (slice a b l) -> In x l.
Proof.
  intros A l a b x H. unfold slice in H. apply In_firstn in H. now apply In_skipn in H.
Qed.

(* ------------------------------------------- masks over zipped slices *)
Lemma combine_map_self : forall A B (f : A -> B) l,
  combine l (map f l) = map (fun k => (k, f k)) l.
Proof. induction l as [|x t IH]; simpl; [reflexivity|]. now rewrite IH. Qed.

Lemma mask_filter : forall A B (f : A -> B) (keep : B -> bool) l,
  map fst (filter (fun kb => keep (snd kb)) (map (fun k => (k, f k)) l)) =
  filter (fun k => keep (f k)) l.
Proof.
  induction l as [|x t IH]; simpl; [reflexivity|].
  destruct (keep (f x)); simpl; now rewrite IH.
Qed.

(* ------------------------------------------------- permutations, filters *)
Lemma Permutation_filter' : forall A (f : A -> bool) l l',
  Permutation l l' -> Permutation (filter f l) (filter f l').
Proof.
  intros A f l l' H. induction H; simpl.
  - constructor.
  - destruct (f x); [now constructor|assumption].
  - destruct (f x); destruct (f y); try apply perm_swap; try apply Permutation_refl.
  - eapply Permutation_trans; eassumption.
Qed.

Lemma filter_ext_in' : forall A (f g : A -> bool) l,
  (forall x, In x l -> f x = g x) -> filter f l = filter g l.
Proof.
  induction l as [|x t IH]; intros H; simpl; [reflexivity|].
  rewrite (H x) by (now left). rewrite IH; [reflexivity|].
  intros y Hy. apply H. now right.
Qed.

Lemma filter_false : forall A (f : A -> bool) l,
  (forall x, In x l -> f x = false) -> filter f l = [].
Proof.
  induction l as [|x t IH]; intros H; simpl; [reflexivity|].
  rewrite (H x) by (now left). apply IH. intros y Hy. apply H. now right.
Qed.

Lemma flat_map_app' : forall A B (f : A -> list B) l1 l2,
  flat_map f (l1 ++ l2) = flat_map f l1 ++ flat_map f l2.
Proof.
  induction l1 as [|x t IH]; intros l2; simpl; [reflexivity|].
  now rewrite IH, app_assoc.
Qed.

Lemma map_nth_seq : forall A (l : list A) dflt,
  map (fun i => nth i l dflt) (seq 0 (length l)) = l.
Proof.
  intros A l dflt. induction l as [|x t IH]; simpl; [reflexivity|].
  f_equal. rewrite <- seq_shift, map_map. exact IH.
Qed.

Lemma filter_map_comm : forall A B (g : A -> B) (p : B -> bool) l,
  filter p (map g l) = map g (filter (fun x => p (g x)) l).
Proof.
  induction l as [|x t IH]; simpl; [reflexivity|].
  destruct (p (g x)); simpl; now rewrite IH.
Qed.

Lemma filter_filter : forall A (p f : A -> bool) l,
  (forall x, p x = true -> f x = true) -> filter p (filter f l) = filter p l.
Proof.
  induction l as [|x t IH]; intros H; simpl; [reflexivity|].
  destruct (f x) eqn:Hf; simpl.
  - destruct (p x); now rewrite IH.
  - destruct (p x) eqn:Hp; [rewrite (H x Hp) in Hf; discriminate|]. now apply IH.
Qed.
