(* C16: representation independence + naturality + decode, put together: the
   buffer-level quantities of ANY well-formed representation of the result of
   a history are the same history applied to the source's quantities. *)
From Coq Require Import ZArith List Bool Arith Lia.
From SP Require Import Model.Num Model.Arrow Model.Bounds Spec.BoundsSpec
  Model.Derive Spec.DeriveSpec Proofs.BoundsProofs Proofs.DeriveProofs Proofs.ArrowDecode.
Import ListNotations.
Open Scope nat_scope.

Lemma la_bounds_nested : forall a,
  wf_listarr a = true -> nulls_empty a = true -> length (la_offs a) <= 3 ->
  la_bounds a = map elem_bbox (decode_nested a).
Proof.
  intros a Hwf Hn Hl. rewrite la_bounds_of_decode by assumption.
  rewrite <- decode_flat_of_nested by assumption.
  unfold bounds_of_flat. rewrite map_map. apply map_ext. intros o.
  symmetry. apply elem_bbox_flat.
Qed.

Lemma la_isna_nested : forall a,
  wf_listarr a = true -> length (la_offs a) <= 3 ->
  la_isna a = isna (decode_nested a).
Proof.
  intros a Hwf Hl. rewrite la_isna_of_decode.
  rewrite <- decode_flat_of_nested by assumption.
  unfold isna. rewrite map_map. apply map_ext. intros [e|]; reflexivity.
Qed.

Lemma fa_bounds_nested : forall a, wf_fixarr a = true ->
  fa_bounds a = map elem_bbox (decode_point a).
Proof.
  intros a Hwf. rewrite fa_bounds_of_decode by assumption.
  unfold bounds_of_points, decode_point. rewrite map_map. apply map_ext.
  intros [[x y]|]; reflexivity.
Qed.

Lemma fa_isna_nested : forall a, fa_isna a = isna (decode_point a).
Proof.
  intros a. rewrite fa_isna_of_decode. unfold isna, decode_point. rewrite map_map.
  apply map_ext. intros [[x y]|]; reflexivity.
Qed.

(* list arrays: a is the source, a' any representation of the derived array *)
Theorem derived_quantities_list : forall a a' steps,
  wf_listarr a = true -> nulls_empty a = true -> length (la_offs a) <= 3 ->
  wf_listarr a' = true -> nulls_empty a' = true -> length (la_offs a') <= 3 ->
  run_steps None steps (decode_nested a) = Ok (decode_nested a') ->
  run_steps nanbox steps (la_bounds a) = Ok (la_bounds a') /\
  run_steps true steps (la_isna a) = Ok (la_isna a') /\
  la_total_bounds a' =
    total_bounds_of_flat (map (option_map flat_elem) (decode_nested a')).
Proof.
  intros a a' steps W N L W' N' L' H. repeat split.
  - rewrite (la_bounds_nested a), (la_bounds_nested a') by assumption.
    rewrite histories_bounds, H. reflexivity.
  - rewrite (la_isna_nested a), (la_isna_nested a') by assumption.
    rewrite histories_isna, H. reflexivity.
  - rewrite la_total_of_decode by assumption.
    rewrite <- decode_flat_of_nested by assumption. reflexivity.
Qed.

Theorem derived_quantities_points : forall a a' steps,
  wf_fixarr a = true -> wf_fixarr a' = true ->
  run_steps None steps (decode_point a) = Ok (decode_point a') ->
  run_steps nanbox steps (fa_bounds a) = Ok (fa_bounds a') /\
  run_steps true steps (fa_isna a) = Ok (fa_isna a').
Proof.
  intros a a' steps W W' H. split.
  - rewrite (fa_bounds_nested a), (fa_bounds_nested a') by assumption.
    rewrite histories_bounds, H. reflexivity.
  - rewrite (fa_isna_nested a), (fa_isna_nested a').
    rewrite histories_isna, H. reflexivity.
Qed.

(* a history that fails on the elements fails the same way on the quantities *)
Theorem derived_errors_list : forall a steps,
  wf_listarr a = true -> nulls_empty a = true -> length (la_offs a) <= 3 ->
  pyres_code (run_steps nanbox steps (la_bounds a))
  = pyres_code (run_steps None steps (decode_nested a)).
Proof.
  intros a steps W N L. rewrite (la_bounds_nested a) by assumption.
  rewrite histories_bounds. destruct (run_steps None steps (decode_nested a)); reflexivity.
Qed.
