(* C01: list / offset lemmas, corner order, the three calling forms. *)
From Coq Require Import ZArith List Bool Arith Lia ZifyBool.
From SP Require Import Model.Num Model.Arrow Model.Bounds Model.PointKernels
                       Model.Intersect Spec.IntersectSpec.
Import ListNotations.

(* ---------------------------------------------------------------- lists *)
Lemma length_removelast {A} (l : list A) : length (removelast l) = (length l - 1)%nat.
Proof.
  induction l as [|a [|b t] IH]; simpl in *; auto. rewrite IH. lia.
Qed.

Lemma length_tl {A} (l : list A) : length (tl l) = (length l - 1)%nat.
Proof. destruct l; simpl; lia. Qed.

Lemma combine_removelast_tl : forall l, combine (removelast l) (tl l) = opairs l.
Proof.
  induction l as [|a [|b t] IH]; simpl in *; auto. rewrite IH. reflexivity.
Qed.

Lemma length_opairs : forall l, length (opairs l) = (length l - 1)%nat.
Proof.
  intro l. rewrite <- combine_removelast_tl, combine_length, length_removelast, length_tl. lia.
Qed.

Lemma nth_opairs : forall l i d, (S i < length l)%nat ->
  nth i (opairs l) d = (nth i l 0%nat, nth (S i) l 0%nat).
Proof.
  induction l as [|a [|b t] IH]; intros i d Hi; simpl in Hi; try lia.
  destruct i as [|i]; [reflexivity|].
  change (opairs (a :: b :: t)) with ((a, b) :: opairs (b :: t)).
  simpl nth at 1. rewrite IH by (simpl; lia). reflexivity.
Qed.

Lemma map_const_combine {A B C} (c : C) (s : list A) (e : list B) :
  length s = length e -> map (fun _ => c) s = map (fun _ => c) (combine s e).
Proof.
  revert e; induction s as [|a s IH]; intros [|b e] H; simpl in *; try discriminate; auto.
  f_equal. apply IH. lia.
Qed.

Lemma combine_map_same {A B C} (f : A -> B) (g : A -> C) (l : list A) :
  combine (map f l) (map g l) = map (fun j => (f j, g j)) l.
Proof. induction l; simpl; congruence. Qed.

(* ---------------------------------------------------------------- select *)
Lemma starts_stops_none : forall oo, starts_stops oo None = Some (removelast oo, tl oo).
Proof. reflexivity. Qed.

Lemma starts_stops_some : forall oo inds,
  starts_stops oo (Some inds) =
  if forallb (fun j => Nat.ltb j (length oo - 1)) inds
  then Some (map (fun j => nth j (removelast oo) 0%nat) inds,
             map (fun j => nth j (tl oo) 0%nat) inds)
  else None.
Proof.
  intros oo inds. unfold starts_stops, select.
  rewrite length_removelast, length_tl.
  destruct (forallb _ inds); reflexivity.
Qed.

Lemma starts_stops_lengths : forall oo inds s e,
  starts_stops oo inds = Some (s, e) -> length s = length e.
Proof.
  intros oo [inds|] s e H.
  - rewrite starts_stops_some in H. destruct (forallb _ inds); inversion H; subst.
    now rewrite !map_length.
  - inversion H; subst. now rewrite length_removelast, length_tl.
Qed.

(* the kernel applied to the selected offsets is the whole-array result read at
   the selected positions *)
Lemma kernel_at_inds (K : nat * nat -> bool) : forall oo inds,
  forallb (fun j => Nat.ltb j (length oo - 1)) inds = true ->
  map K (combine (map (fun j => nth j (removelast oo) 0%nat) inds)
                 (map (fun j => nth j (tl oo) 0%nat) inds)) =
  map (fun j => nth j (map K (combine (removelast oo) (tl oo))) false) inds.
Proof.
  intros oo inds H. rewrite combine_map_same, map_map.
  apply map_ext_in. intros j Hj.
  rewrite forallb_forall in H. specialize (H j Hj). apply Nat.ltb_lt in H.
  assert (Hl : (j < length (combine (removelast oo) (tl oo)))%nat).
  { rewrite combine_length, length_removelast, length_tl. lia. }
  rewrite (nth_indep _ false (K (0%nat, 0%nat))) by (now rewrite map_length).
  rewrite map_nth. f_equal.
  rewrite combine_nth by (now rewrite length_removelast, length_tl). reflexivity.
Qed.

(* a result that is [map K] over the selected (start, stop) pairs satisfies
   the forms-agree equation *)
Lemma forms_of_kernel (K : nat * nat -> bool) : forall oo inds,
  match starts_stops oo (Some inds) with
  | Some (s, e) => Some (map K (combine s e))
  | None => None
  end =
  let r := map K (combine (removelast oo) (tl oo)) in
  if forallb (fun j => Nat.ltb j (length r)) inds
  then Some (map (fun j => nth j r false) inds) else None.
Proof.
  intros oo inds. cbv zeta. rewrite starts_stops_some.
  rewrite map_length, combine_length, length_removelast, length_tl, Nat.min_id.
  destruct (forallb _ inds) eqn:E; [|reflexivity].
  now rewrite kernel_at_inds.
Qed.

(* ---------------------------------------------------------------- corners *)
Lemma orient_box_swap_x : forall b, orient_box (swap_x b) = orient_box b.
Proof.
  intros [[[x0 y0] x1] y1]. unfold swap_x, orient_box.
  destruct (x1 <? x0)%Z eqn:E1, (x0 <? x1)%Z eqn:E2; try reflexivity; try lia.
  assert (x0 = x1) by lia. subst. reflexivity.
Qed.

Lemma orient_box_swap_y : forall b, orient_box (swap_y b) = orient_box b.
Proof.
  intros [[[x0 y0] x1] y1]. unfold swap_y, orient_box.
  destruct (y1 <? y0)%Z eqn:E1, (y0 <? y1)%Z eqn:E2; try reflexivity; try lia.
  assert (y0 = y1) by lia. subst. reflexivity.
Qed.

Lemma orient_box_spec : forall x0 y0 x1 y1,
  orient_box (x0, y0, x1, y1) = (Z.min x0 x1, Z.min y0 y1, Z.max x0 x1, Z.max y0 y1).
Proof.
  intros. unfold orient_box.
  destruct (x1 <? x0)%Z eqn:E1, (y1 <? y0)%Z eqn:E2; f_equal; f_equal; try f_equal; lia.
Qed.

(* every kernel sees the box only through orient_box *)
Lemma multipoints_orient : forall b b' vals s e, orient_box b = orient_box b' ->
  multipoints_intersect_bounds b vals s e = multipoints_intersect_bounds b' vals s e.
Proof. intros. unfold multipoints_intersect_bounds. now rewrite H. Qed.
Lemma lines_orient : forall b b' vals s e, orient_box b = orient_box b' ->
  lines_intersect_bounds b vals s e = lines_intersect_bounds b' vals s e.
Proof. intros. unfold lines_intersect_bounds. now rewrite H. Qed.
Lemma multilines_orient : forall b b' vals s e o1, orient_box b = orient_box b' ->
  multilines_intersect_bounds b vals s e o1 = multilines_intersect_bounds b' vals s e o1.
Proof. intros. unfold multilines_intersect_bounds. now rewrite H. Qed.
Lemma polygons_orient : forall b b' vals s e o1, orient_box b = orient_box b' ->
  polygons_intersect_bounds b vals s e o1 = polygons_intersect_bounds b' vals s e o1.
Proof. intros. unfold polygons_intersect_bounds. now rewrite H. Qed.
Lemma multipolygons_orient : forall b b' vals s e o1 o2, orient_box b = orient_box b' ->
  multipolygons_intersect_bounds b vals s e o1 o2 = multipolygons_intersect_bounds b' vals s e o1 o2.
Proof. intros. unfold multipolygons_intersect_bounds. now rewrite H. Qed.
Lemma point_test_orient : forall b b' p, orient_box b = orient_box b' ->
  point_test b p = point_test b' p.
Proof. intros. unfold point_test. now rewrite H. Qed.

(* ---------------------------------------------------------------- kernels as maps *)
Definition line_kernel (b : box) (vals : list Z) : nat * nat -> bool :=
  let '(x0, y0, x1, y1) := orient_box b in
  if ((x0 =? x1) || (y0 =? y1))%Z then fun _ => false
  else fun '(s, e) => perform_line x0 y0 x1 y1 vals s e.

Lemma lines_as_map : forall b vals s e, length s = length e ->
  lines_intersect_bounds b vals s e = map (line_kernel b vals) (combine s e).
Proof.
  intros b vals s e H. unfold lines_intersect_bounds, line_kernel.
  destruct (orient_box b) as [[[x0 y0] x1] y1].
  destruct ((x0 =? x1) || (y0 =? y1))%Z; [now apply map_const_combine | reflexivity].
Qed.

Definition multiline_kernel (b : box) (vals : list Z) (o1 : list nat) : nat * nat -> bool :=
  let '(x0, y0, x1, y1) := orient_box b in
  if ((x0 =? x1) || (y0 =? y1))%Z then fun _ => false
  else fun '(s, e) => perform_multiline x0 y0 x1 y1 vals o1 s e.

Lemma multilines_as_map : forall b vals s e o1, length s = length e ->
  multilines_intersect_bounds b vals s e o1 = map (multiline_kernel b vals o1) (combine s e).
Proof.
  intros b vals s e o1 H. unfold multilines_intersect_bounds, multiline_kernel.
  destruct (orient_box b) as [[[x0 y0] x1] y1].
  destruct ((x0 =? x1) || (y0 =? y1))%Z; [now apply map_const_combine | reflexivity].
Qed.

Definition multipoint_kernel (b : box) (vals : list Z) : nat * nat -> bool :=
  let '(x0, y0, x1, y1) := orient_box b in
  fun '(s, e) => perform_multipoint x0 y0 x1 y1 vals s e.
Lemma multipoints_as_map : forall b vals s e,
  multipoints_intersect_bounds b vals s e = map (multipoint_kernel b vals) (combine s e).
Proof.
  intros. unfold multipoints_intersect_bounds, multipoint_kernel.
  destruct (orient_box b) as [[[x0 y0] x1] y1]. reflexivity.
Qed.

Definition polygon_kernel (b : box) (vals : list Z) (o1 : list nat) : nat * nat -> bool :=
  let '(x0, y0, x1, y1) := orient_box b in
  fun '(s, e) => perform_polygon x0 y0 x1 y1 vals o1 s e.
Lemma polygons_as_map : forall b vals s e o1,
  polygons_intersect_bounds b vals s e o1 = map (polygon_kernel b vals o1) (combine s e).
Proof.
  intros. unfold polygons_intersect_bounds, polygon_kernel.
  destruct (orient_box b) as [[[x0 y0] x1] y1]. reflexivity.
Qed.

Definition multipolygon_kernel (b : box) (vals : list Z) (o1 o2 : list nat) : nat * nat -> bool :=
  let '(x0, y0, x1, y1) := orient_box b in
  fun '(s, e) => perform_multipolygon x0 y0 x1 y1 vals o1 o2 s e.
Lemma multipolygons_as_map : forall b vals s e o1 o2,
  multipolygons_intersect_bounds b vals s e o1 o2 =
  map (multipolygon_kernel b vals o1 o2) (combine s e).
Proof.
  intros. unfold multipolygons_intersect_bounds, multipolygon_kernel.
  destruct (orient_box b) as [[[x0 y0] x1] y1]. reflexivity.
Qed.

(* ---------------------------------------------------------------- forms agree *)
Ltac forms_tac lem :=
  match goal with
  | |- context [starts_stops ?oo (Some ?inds)] =>
      pose proof (forms_of_kernel lem oo inds) as HF; cbv zeta in HF;
      rewrite starts_stops_none;
      destruct (starts_stops oo (Some inds)) as [[s e]|] eqn:ES
  end.

Lemma forms_multipoint : forms_agree multipoint_array.
Proof.
  intros a b inds. unfold multipoint_array.
  destruct (wf_listarr a); cbn [negb]; [|reflexivity].
  destruct (finite_vals (buffer_values a)) as [vals|]; [|reflexivity].
  pose proof (forms_of_kernel (multipoint_kernel b vals) (buffer_outer_offsets a) inds) as HF.
  cbv zeta in HF. rewrite starts_stops_none.
  destruct (starts_stops (buffer_outer_offsets a) (Some inds)) as [[s e]|] eqn:ES;
    rewrite !multipoints_as_map; exact HF.
Qed.

Lemma forms_line : forms_agree line_array.
Proof.
  intros a b inds. unfold line_array.
  destruct (wf_listarr a); cbn [negb]; [|reflexivity].
  destruct (finite_vals (buffer_values a)) as [vals|]; [|reflexivity].
  pose proof (forms_of_kernel (line_kernel b vals) (buffer_outer_offsets a) inds) as HF.
  cbv zeta in HF. rewrite starts_stops_none.
  destruct (starts_stops (buffer_outer_offsets a) (Some inds)) as [[s e]|] eqn:ES.
  - rewrite (lines_as_map b vals s e) by (eapply starts_stops_lengths; eassumption).
    rewrite lines_as_map by (now rewrite length_removelast, length_tl). exact HF.
  - rewrite lines_as_map by (now rewrite length_removelast, length_tl). exact HF.
Qed.

Lemma forms_multiline : forms_agree multiline_array.
Proof.
  intros a b inds. unfold multiline_array.
  destruct (wf_listarr a); cbn [negb]; [|reflexivity].
  destruct (buffer_offsets a) as [|o0 [|o1 [|o2 rest]]]; try reflexivity.
  destruct (finite_vals (buffer_values a)) as [vals|]; [|reflexivity].
  pose proof (forms_of_kernel (multiline_kernel b vals o1) o0 inds) as HF.
  cbv zeta in HF. rewrite starts_stops_none.
  destruct (starts_stops o0 (Some inds)) as [[s e]|] eqn:ES.
  - rewrite (multilines_as_map b vals s e) by (eapply starts_stops_lengths; eassumption).
    rewrite multilines_as_map by (now rewrite length_removelast, length_tl). exact HF.
  - rewrite multilines_as_map by (now rewrite length_removelast, length_tl). exact HF.
Qed.

Lemma forms_polygon : forms_agree polygon_array.
Proof.
  intros a b inds. unfold polygon_array.
  destruct (wf_listarr a); cbn [negb]; [|reflexivity].
  destruct (buffer_offsets a) as [|o0 [|o1 [|o2 rest]]]; try reflexivity.
  destruct (finite_vals (buffer_values a)) as [vals|]; [|reflexivity].
  pose proof (forms_of_kernel (polygon_kernel b vals o1) o0 inds) as HF.
  cbv zeta in HF. rewrite starts_stops_none.
  destruct (starts_stops o0 (Some inds)) as [[s e]|] eqn:ES;
    rewrite !polygons_as_map; exact HF.
Qed.

Lemma forms_multipolygon : forms_agree multipolygon_array.
Proof.
  intros a b inds. unfold multipolygon_array.
  destruct (wf_listarr a); cbn [negb]; [|reflexivity].
  destruct (buffer_offsets a) as [|o0 [|o1 [|o2 [|o3 rest]]]]; try reflexivity.
  destruct (finite_vals (buffer_values a)) as [vals|]; [|reflexivity].
  pose proof (forms_of_kernel (multipolygon_kernel b vals o1 o2) o0 inds) as HF.
  cbv zeta in HF. rewrite starts_stops_none.
  destruct (starts_stops o0 (Some inds)) as [[s e]|] eqn:ES;
    rewrite !multipolygons_as_map; exact HF.
Qed.

Lemma point_test_none : forall b, point_test b None = false.
Proof. intro b. unfold point_test. now destruct (orient_box b) as [[[x0 y0] x1] y1]. Qed.

Lemma forms_point : forms_agree point_array.
Proof.
  intros a b inds. unfold point_array.
  destruct (wf_fixarr a); cbn [negb]; [|reflexivity].
  destruct (all_some _) as [slots|]; [|reflexivity].
  unfold select. rewrite map_length.
  destruct (forallb _ inds); [|reflexivity].
  f_equal. rewrite map_map. apply map_ext. intro j.
  rewrite <- (point_test_none b) at 1. now rewrite map_nth.
Qed.

Theorem forms_agree_all :
  forms_agree point_array /\ forms_agree multipoint_array /\ forms_agree line_array /\
  forms_agree multiline_array /\ forms_agree polygon_array /\ forms_agree multipolygon_array.
Proof.
  repeat split; [apply forms_point | apply forms_multipoint | apply forms_line
                 | apply forms_multiline | apply forms_polygon | apply forms_multipolygon].
Qed.

(* ---------------------------------------------------------------- corner order *)
Ltac corner_tac f lem :=
  intros a b inds; split; unfold f;
  [ destruct (wf_listarr a); cbn [negb]; [|reflexivity];
    repeat match goal with |- context [match ?x with _ => _ end] => destruct x; try reflexivity end;
    f_equal; apply lem; apply orient_box_swap_x
  | destruct (wf_listarr a); cbn [negb]; [|reflexivity];
    repeat match goal with |- context [match ?x with _ => _ end] => destruct x; try reflexivity end;
    f_equal; apply lem; apply orient_box_swap_y ].

Lemma corners_multipoint : corner_order_irrelevant multipoint_array.
Proof. corner_tac multipoint_array multipoints_orient. Qed.
Lemma corners_line : corner_order_irrelevant line_array.
Proof. corner_tac line_array lines_orient. Qed.
Lemma corners_multiline : corner_order_irrelevant multiline_array.
Proof. corner_tac multiline_array multilines_orient. Qed.
Lemma corners_polygon : corner_order_irrelevant polygon_array.
Proof. corner_tac polygon_array polygons_orient. Qed.
Lemma corners_multipolygon : corner_order_irrelevant multipolygon_array.
Proof. corner_tac multipolygon_array multipolygons_orient. Qed.

Lemma corners_point : corner_order_irrelevant point_array.
Proof.
  intros a b inds; split; unfold point_array;
    (destruct (wf_fixarr a); cbn [negb]; [|reflexivity]);
    (destruct (all_some _) as [slots|]; [|reflexivity]);
    (destruct (select None slots inds) as [sel|]; [|reflexivity]);
    f_equal; apply map_ext; intro p; apply point_test_orient;
    [apply orient_box_swap_x | apply orient_box_swap_y].
Qed.

Theorem corner_order_all :
  corner_order_irrelevant point_array /\ corner_order_irrelevant multipoint_array /\
  corner_order_irrelevant line_array /\ corner_order_irrelevant multiline_array /\
  corner_order_irrelevant polygon_array /\ corner_order_irrelevant multipolygon_array.
Proof.
  repeat split; try apply corners_point; try apply corners_multipoint; try apply corners_line;
    try apply corners_multiline; try apply corners_polygon; try apply corners_multipolygon.
Qed.
