(* C16: representation independence of the buffer-level quantities and
   naturality of every derivation step (hence of every finite history). *)
From Coq Require Import ZArith List Bool Arith Lia ZifyBool.
From SP Require Import Model.Num Model.Arrow Model.Bounds Spec.BoundsSpec
  Model.Derive Spec.DeriveSpec Proofs.BoundsProofs.
Import ListNotations.

(* ================================================================== *)
(** * 1. representation independence                                    *)
(* ================================================================== *)
(* every buffer-level quantity is a function of the decoded element list *)

Lemma la_bounds_of_decode : forall a,
  wf_listarr a = true -> nulls_empty a = true ->
  la_bounds a = bounds_of_flat (decode_flat a).
Proof.
  intros a Hwf Hn. rewrite la_bounds_rows by exact Hwf.
  unfold bounds_of_flat, decode_flat. rewrite map_map.
  apply map_ext_in. intros i Hi. apply in_seq in Hi. unfold flat_bbox.
  destruct (isna_at (la_valid a) (la_off a) i) eqn:E; [|reflexivity].
  rewrite (nulls_empty_elem a i Hn) by (lia || exact E). reflexivity.
Qed.

Lemma la_total_of_decode : forall a,
  wf_listarr a = true -> nulls_empty a = true ->
  la_total_bounds a = total_bounds_of_flat (decode_flat a).
Proof.
  intros a Hwf Hn. unfold la_total_bounds.
  rewrite flat_values_valid_coords by assumption. reflexivity.
Qed.

Lemma la_total_xy_of_decode : forall a,
  wf_listarr a = true -> nulls_empty a = true ->
  la_total_bounds_x a =
    total_bounds_interleaved_1d
      (concat (map (fun o => match o with Some vs => vs | None => [] end) (decode_flat a))) 0
  /\ la_total_bounds_y a =
    total_bounds_interleaved_1d
      (concat (map (fun o => match o with Some vs => vs | None => [] end) (decode_flat a))) 1.
Proof.
  intros a Hwf Hn. unfold la_total_bounds_x, la_total_bounds_y.
  rewrite flat_values_valid_coords by assumption. split; reflexivity.
Qed.

Lemma la_isna_of_decode : forall a, la_isna a = isna (decode_flat a).
Proof.
  intros a. unfold la_isna, isna, decode_flat. rewrite map_map.
  apply map_ext. intros i. destruct (isna_at (la_valid a) (la_off a) i); reflexivity.
Qed.

Lemma la_len_of_decode : forall a, la_len a = length (decode_flat a).
Proof. intros a. unfold decode_flat. rewrite map_length, seq_length. reflexivity. Qed.

Lemma fa_bounds_of_decode : forall a, wf_fixarr a = true ->
  fa_bounds a = bounds_of_points (fa_decode a).
Proof.
  intros a Hwf. rewrite fa_bounds_rows by exact Hwf. unfold bounds_of_points.
  apply map_ext. intros [[x y]|]; reflexivity.
Qed.

Lemma fa_total_of_decode : forall a, wf_fixarr a = true ->
  fa_total_bounds a = total_bounds_of_points (fa_decode a).
Proof.
  intros a Hwf. unfold fa_total_bounds.
  rewrite fa_valid_flat_coords by exact Hwf. reflexivity.
Qed.

Lemma fa_isna_of_decode : forall a, fa_isna a = isna (fa_decode a).
Proof.
  intros a. unfold fa_isna, isna, fa_decode. rewrite map_map.
  apply map_ext. intros i. destruct (isna_at (fa_valid a) (fa_off a) i); reflexivity.
Qed.

Lemma fa_len_of_decode : forall a, fa_len a = length (fa_decode a).
Proof. intros a. unfold fa_decode. rewrite map_length, seq_length. reflexivity. Qed.

(* the central statement, for list arrays *)
Theorem representation_independence_list : forall a,
  wf_listarr a = true -> nulls_empty a = true ->
  la_bounds a = bounds_of_flat (decode_flat a) /\
  la_total_bounds a = total_bounds_of_flat (decode_flat a) /\
  la_isna a = isna (decode_flat a) /\
  la_len a = length (decode_flat a).
Proof.
  intros a Hwf Hn. repeat split.
  - apply la_bounds_of_decode; assumption.
  - apply la_total_of_decode; assumption.
  - apply la_isna_of_decode.
  - apply la_len_of_decode.
Qed.

(* ... and for point arrays *)
Theorem representation_independence_fixed : forall a,
  wf_fixarr a = true ->
  fa_bounds a = bounds_of_points (fa_decode a) /\
  fa_total_bounds a = total_bounds_of_points (fa_decode a) /\
  fa_isna a = isna (fa_decode a) /\
  fa_len a = length (fa_decode a).
Proof.
  intros a Hwf. repeat split.
  - apply fa_bounds_of_decode; assumption.
  - apply fa_total_of_decode; assumption.
  - apply fa_isna_of_decode.
  - apply fa_len_of_decode.
Qed.

(* two representations of the same elements give the same answers, whatever
   their offsets, buffers and validity bitmaps look like *)
Corollary same_decode_same_Q_list : forall a1 a2,
  wf_listarr a1 = true -> nulls_empty a1 = true ->
  wf_listarr a2 = true -> nulls_empty a2 = true ->
  decode_flat a1 = decode_flat a2 ->
  la_bounds a1 = la_bounds a2 /\ la_total_bounds a1 = la_total_bounds a2 /\
  la_total_bounds_x a1 = la_total_bounds_x a2 /\
  la_total_bounds_y a1 = la_total_bounds_y a2 /\
  la_isna a1 = la_isna a2 /\ la_len a1 = la_len a2.
Proof.
  intros a1 a2 W1 N1 W2 N2 E.
  destruct (la_total_xy_of_decode a1 W1 N1) as [X1 Y1].
  destruct (la_total_xy_of_decode a2 W2 N2) as [X2 Y2].
  rewrite !la_bounds_of_decode, !la_total_of_decode, !la_isna_of_decode,
    !la_len_of_decode, X1, X2, Y1, Y2, E by assumption.
  repeat split; reflexivity.
Qed.

Corollary same_decode_same_Q_fixed : forall a1 a2,
  wf_fixarr a1 = true -> wf_fixarr a2 = true ->
  fa_decode a1 = fa_decode a2 ->
  fa_bounds a1 = fa_bounds a2 /\ fa_total_bounds a1 = fa_total_bounds a2 /\
  fa_isna a1 = fa_isna a2 /\ fa_len a1 = fa_len a2.
Proof.
  intros a1 a2 W1 W2 E.
  rewrite !fa_bounds_of_decode, !fa_total_of_decode, !fa_isna_of_decode,
    !fa_len_of_decode, E by assumption.
  repeat split; reflexivity.
Qed.

(* ================================================================== *)
(** * 2. naturality of the steps: they never look inside a slot         *)
(* ================================================================== *)
Definition getres_map {X Y} (g : X -> Y) (r : getres X) : getres Y :=
  match r with
  | GElem x => GElem (g x)
  | GArr l => GArr (map g l)
  end.

Section Naturality.
Context {X Y : Type}.
Variable g : X -> Y.
Variable naX : X.
Variable naY : Y.
Hypothesis Hg : g naX = naY.

Lemma arrow_take_map : forall ix l,
  arrow_take naY ix (map g l) = map g (arrow_take naX ix l).
Proof.
  intros ix l. unfold arrow_take. rewrite map_map. apply map_ext.
  intros [i|]; [|symmetry; exact Hg]. rewrite <- Hg. apply map_nth.
Qed.

Lemma arrow_slice_map : forall o n l,
  arrow_slice o n (map g l) = map g (arrow_slice o n l).
Proof.
  intros o n l. unfold arrow_slice. rewrite skipn_map, firstn_map. reflexivity.
Qed.

Lemma take_map : forall ix af fv l,
  take naY ix af fv (map g l) = pymap (map g) (take naX ix af fv l).
Proof.
  intros ix af fv l. unfold take. rewrite map_length.
  destruct ((Z.of_nat (length l) =? 0)%Z && (0 <? Z.of_nat (length ix))%Z
            && (negb af || existsb (fun i => (0 <=? i)%Z) ix)); [reflexivity|].
  destruct af, fv; cbn [pybind pymap negb andb]; try reflexivity;
    repeat match goal with
    | |- context [if ?c then _ else _] => destruct c; cbn [pybind pymap]
    end; try reflexivity; rewrite arrow_take_map; reflexivity.
Qed.

Lemma getitem_slice_map : forall start stop step l,
  getitem_slice naY start stop step (map g l)
  = pymap (map g) (getitem_slice naX start stop step l).
Proof.
  intros start stop step l. unfold getitem_slice. rewrite map_length.
  assert (A : pybind (slice_indices start stop step (Z.of_nat (length l)))
                (fun '(s, e, _) =>
                   Ok (arrow_slice (Z.to_nat s) (Z.to_nat (Z.max (e - s) 0)) (map g l)))
              = pymap (map g)
                  (pybind (slice_indices start stop step (Z.of_nat (length l)))
                     (fun '(s, e, _) =>
                        Ok (arrow_slice (Z.to_nat s) (Z.to_nat (Z.max (e - s) 0)) l)))).
  { destruct (slice_indices start stop step (Z.of_nat (length l))) as [[[s e] k]| | |];
      cbn [pybind pymap]; try reflexivity. rewrite arrow_slice_map. reflexivity. }
  assert (B : pybind (np_basic_slice (np_arange (length l)) start stop step)
                (fun sel => take naY sel false FillNone (map g l))
              = pymap (map g)
                  (pybind (np_basic_slice (np_arange (length l)) start stop step)
                     (fun sel => take naX sel false FillNone l))).
  { destruct (np_basic_slice (np_arange (length l)) start stop step);
      cbn [pybind pymap]; try reflexivity. apply take_map. }
  destruct step as [[|[p|p|]|p]|]; assumption.
Qed.

Lemma getitem_index_map : forall it l,
  getitem_index naY it (map g l) = pymap (getres_map g) (getitem_index naX it l).
Proof.
  intros it l. destruct it as [i|start stop step|m|ix|k|]; unfold getitem_index.
  - rewrite map_length.
    destruct ((i <? - Z.of_nat (length l))%Z || (Z.of_nat (length l) <=? i)%Z);
      [reflexivity|].
    cbn [pymap pybind getres_map]. rewrite <- Hg, map_nth. reflexivity.
  - rewrite getitem_slice_map.
    destruct (getitem_slice naX start stop step l); reflexivity.
  - rewrite map_length.
    destruct (Nat.eqb (length m) 0).
    { rewrite take_map. destruct (take naX [] false FillNone l); reflexivity. }
    destruct (negb (Nat.eqb (length m) (length l))); [reflexivity|].
    destruct (existsb is_na m); [reflexivity|].
    destruct (np_nonzero _).
    + rewrite getitem_slice_map.
      destruct (getitem_slice naX None (Some 0%Z) None l); reflexivity.
    + rewrite take_map. destruct (take naX _ false FillNone l); reflexivity.
  - destruct (Nat.eqb (length ix) 0).
    { rewrite take_map. destruct (take naX [] false FillNone l); reflexivity. }
    destruct (existsb is_na ix); [reflexivity|].
    rewrite take_map. destruct (take naX _ false FillNone l); reflexivity.
  - destruct (Nat.eqb k 0); [|reflexivity].
    rewrite take_map. destruct (take naX [] false FillNone l); reflexivity.
  - reflexivity.
Qed.

Lemma collect_slices_map : forall (pieces : list (option Z * option Z)) l,
  collect (map (fun '(a, b) => getitem_slice naY a b None (map g l)) pieces)
  = pymap (map (map g))
      (collect (map (fun '(a, b) => getitem_slice naX a b None l) pieces)).
Proof.
  intros pieces l. induction pieces as [|[a b] t IH]; [reflexivity|].
  cbn [map collect]. rewrite getitem_slice_map, IH.
  destruct (getitem_slice naX a b None l); cbn [pybind pymap]; try reflexivity.
  destruct (collect (map (fun '(a, b) => getitem_slice naX a b None l) t));
    reflexivity.
Qed.

Lemma concat_same_type_map : forall (ls : list (list X)),
  concat_same_type (map (map g) ls) = pymap (map g) (concat_same_type ls).
Proof.
  intros [|x t]; [reflexivity|].
  unfold concat_same_type. cbn [pymap pybind]. rewrite (concat_map g (x :: t)). reflexivity.
Qed.

(* one step *)
Lemma run_step_map : forall s l,
  run_step naY s (map g l) = pymap (map g) (run_step naX s l).
Proof.
  intros s l. destruct s as [it|ix af fv|pieces|]; unfold run_step.
  - assert (E : getitem naY it (map g l) = pymap (getres_map g) (getitem naX it l)).
    { destruct it; apply getitem_index_map. }
    rewrite E. destruct (getitem naX it l) as [[x|l']| | |]; reflexivity.
  - apply take_map.
  - rewrite collect_slices_map.
    destruct (collect _) as [ls| | |]; cbn [pybind pymap]; try reflexivity.
    apply concat_same_type_map.
  - reflexivity.
Qed.

(* every finite history *)
Lemma run_steps_map_gen : forall steps r,
  fold_left (fun r s => pybind r (run_step naY s)) steps (pymap (map g) r)
  = pymap (map g) (fold_left (fun r s => pybind r (run_step naX s)) steps r).
Proof.
  induction steps as [|s t IH]; intros r; [reflexivity|].
  cbn [fold_left]. rewrite <- IH. f_equal.
  destruct r; cbn [pybind pymap]; try reflexivity. apply run_step_map.
Qed.

Theorem run_steps_map : forall steps l,
  run_steps naY steps (map g l) = pymap (map g) (run_steps naX steps l).
Proof. intros steps l. unfold run_steps. apply (run_steps_map_gen steps (Ok l)). Qed.

End Naturality.

(* ================================================================== *)
(** * 3. histories                                                      *)
(* ================================================================== *)
Lemma elem_bbox_flat : forall o, elem_bbox o = flat_bbox (option_map flat_elem o).
Proof. intros [[x y|c|p|p]|]; reflexivity. Qed.

(* the bounds rows / isna flags of the result of any history are the same
   history applied to the source's rows / flags (a filled slot gives the NaN
   row / the flag true); an error is the same error *)
Theorem histories_bounds : forall steps (l : list (option elem)),
  run_steps nanbox steps (map elem_bbox l)
  = pymap (map elem_bbox) (run_steps None steps l).
Proof. intros. apply run_steps_map. reflexivity. Qed.

Theorem histories_isna : forall steps (l : list (option elem)),
  run_steps true steps (isna l) = pymap isna (run_steps None steps l).
Proof. intros. unfold isna. apply run_steps_map. reflexivity. Qed.

Theorem histories_flat : forall steps (l : list (option elem)),
  run_steps None steps (map (option_map flat_elem) l)
  = pymap (map (option_map flat_elem)) (run_steps None steps l).
Proof. intros. apply run_steps_map. reflexivity. Qed.

(* total_bounds is not elementwise: it is recomputed from the selected elements *)
Lemma total_bounds_of_history : forall steps (l l' : list (option elem)),
  run_steps None steps l = Ok l' ->
  run_steps None steps (map (option_map flat_elem) l)
  = Ok (map (option_map flat_elem) l').
Proof. intros steps l l' H. rewrite histories_flat, H. reflexivity. Qed.
