(* C06: the partition-bounds cache of DaskGeoDataFrame. *)
From Coq Require Import List Bool ZArith Ascii.
From Coq Require String.
From SP Require Import Model.Num Model.Bounds Model.DaskModel.
Import ListNotations.
Local Notation gname := (String.String "g"%char String.EmptyString).

(* every cached entry is what the partitions of the frame really have for that column *)
Definition cache_coherent (c : pcache) (bounds_of : String.string -> list bbox) : Prop :=
  forall n b, cache_get c n = Some b -> b = bounds_of n.

(* with a coherent cache, partition_sindex is built from the real bounds, and the cache
   stays coherent *)
Lemma frame_partition_bounds_coherent : forall c f name,
  cache_coherent c f ->
  fst (frame_partition_bounds c name (f name)) = f name /\
  cache_coherent (snd (frame_partition_bounds c name (f name))) f.
Proof.
  intros c f name H. unfold frame_partition_bounds.
  destruct (cache_get c name) as [b|] eqn:E; cbn [fst snd].
  - split; [apply H, E | exact H].
  - split; [reflexivity|]. intros n b. cbn [cache_get].
    destruct (String.eqb name n) eqn:En.
    + apply String.eqb_eq in En. subst n. intros Hb. injection Hb as <-. reflexivity.
    + apply H.
Qed.

(* __getitem__: a column-list key keeps the rows, so the inherited cache is coherent
   for the result; any other frame-valued key (row filtering) inherits nothing, which is
   coherent whatever the new rows are; a series inherits the entry of its own name *)
Lemma getitem_frame_cache_coherent : forall c f f' k,
  cache_coherent c f -> (k = KList -> forall n, f' n = f n) ->
  cache_coherent (getitem_frame_cache c k) f'.
Proof.
  intros c f f' k H Hk. destruct k; cbn [getitem_frame_cache].
  - intros n b Hb. discriminate Hb.
  - intros n b Hb. rewrite (Hk eq_refl). apply H, Hb.
  - intros n b Hb. discriminate Hb.
Qed.

Lemma getitem_series_cache_coherent : forall c f name b,
  cache_coherent c f -> getitem_series_cache c (KName name) = Some b -> b = f name.
Proof. intros c f name b H Hb. apply H, Hb. Qed.

(* why row filtering must not inherit: an inherited entry is in general not the bounds
   of the filtered partitions *)
Lemma filter_inheriting_not_coherent :
  exists (c : pcache) (f f' : String.string -> list bbox),
    cache_coherent c f /\ ~ cache_coherent c f'.
Proof.
  exists [(gname, [(Some 0%Z, Some 0%Z, Some 1%Z, Some 1%Z)])],
         (fun _ => [(Some 0%Z, Some 0%Z, Some 1%Z, Some 1%Z)]),
         (fun _ => [nanbox]).
  split.
  - intros n b. cbn [cache_get]. destruct (String.eqb gname n); [|discriminate].
    intros Hb. injection Hb as <-. reflexivity.
  - intros H. specialize (H gname _ eq_refl). discriminate H.
Qed.
