(* C08, float part: monotonicity of the cell as a function of the centre, with NO regime
   hypothesis, about the bit-exact binary64 model Model/FloatData2Coord.v.

   [f_data2coord_monotone]: for finite lo < hi, n = 2^p (1 <= p <= 31) and every v <= v'
   (neither NaN; infinities allowed; intermediate overflow, an overflowing width hi - lo = +inf,
   an overflowing factor n / (hi - lo) = +inf and the NaN of  0 * inf  included)
       f_data2coord v lo hi n <= f_data2coord v' lo hi n.
   [f_data2coord_below]: v <= lo -> cell 0.
   [f_data2coord_above]: hi <= v -> cell n - 1, when the width hi - lo does not overflow;
   [f_data2coord_above_overflow_refuted]: with an overflowing width the clause is false
   (n / inf = 0, every scaled value is 0 or NaN, every cell is 0).

   Route: a float that is not NaN is read as an extended real [ev] (+-inf as +-2^1024); the result
   of an operation with a finite constant is [sat (round (phi x))] (Flocq's _correct theorems:
   an overflow gives the infinity whose sign is the sign of the exact result); round, sat, the
   clips and the truncation are monotone. *)
From Coq Require Import ZArith List Bool Lia ZifyBool Reals Lra Floats.
From Flocq Require Import Core.Core Plus_error Relative IEEE754.BinarySingleNaN IEEE754.PrimFloat.
From SP Require Import Model.FloatData2Coord Proofs.FloatData2CoordProofs.
Local Open Scope Z_scope.

Local Notation fexp64 := (SpecFloat.fexp prec emax).
Local Notation float := Coq.Floats.PrimFloat.float.
Local Notation B := (binary_float prec emax).
Local Notation rnd := (round radix2 fexp64 (round_mode mode_NE)).
Local Notation M := (bpow radix2 emax).
#[local] Existing Instance Hprec.
#[local] Existing Instance Hmax.

Definition ev (x : B) : R :=
  match x with
  | B754_infinity false => M
  | B754_infinity true => (- M)%R
  | _ => B2R x
  end.

Definition sat (r : R) : R :=
  if Rle_bool r (- M) then (- M)%R else if Rle_bool M r then M else r.

Lemma M_pos : (0 < M)%R.
Proof. apply bpow_gt_0. Qed.

Lemma ev_range : forall x : B, (- M <= ev x <= M)%R.
Proof.
  intros x. pose proof M_pos.
  pose proof (abs_B2R_lt_emax prec emax x) as H1. apply Rabs_lt_inv in H1.
  destruct x as [s|[]| |s m e Hb]; cbv [ev B2R] in *; lra.
Qed.

Lemma ev_fin : forall x : B, is_finite x = true -> ev x = B2R x /\ (- M < B2R x < M)%R.
Proof.
  intros x Fx. pose proof (abs_B2R_lt_emax prec emax x) as H1. apply Rabs_lt_inv in H1.
  destruct x as [s|[]| |s m e Hb]; try discriminate; split; auto.
Qed.

Lemma ev_ge_M : forall x : B, is_nan x = false -> (M <= ev x)%R -> x = B754_infinity false.
Proof.
  intros x Nx H. pose proof M_pos.
  pose proof (abs_B2R_lt_emax prec emax x) as H1. apply Rabs_lt_inv in H1.
  destruct x as [s|[]| |s m e Hb]; try discriminate; cbv [ev B2R] in *; try lra.
  reflexivity.
Qed.

Lemma ev_le_mM : forall x : B, is_nan x = false -> (ev x <= - M)%R -> x = B754_infinity true.
Proof.
  intros x Nx H. pose proof M_pos.
  pose proof (abs_B2R_lt_emax prec emax x) as H1. apply Rabs_lt_inv in H1.
  destruct x as [s|[]| |s m e Hb]; try discriminate; cbv [ev B2R] in *; try lra.
  reflexivity.
Qed.

Lemma not_fin_cases : forall x : B, is_finite x = false -> is_nan x = false ->
  x = B754_infinity true \/ x = B754_infinity false.
Proof. intros [s|[]| |s m e Hb]; try discriminate; auto. Qed.

Lemma sat_mono : forall a b, (a <= b)%R -> (sat a <= sat b)%R.
Proof.
  intros a b H. pose proof M_pos. unfold sat.
  destruct (Rle_bool_spec a (- M)); destruct (Rle_bool_spec b (- M));
    destruct (Rle_bool_spec M a); destruct (Rle_bool_spec M b); lra.
Qed.

Lemma sat_id : forall a, (- M < a < M)%R -> sat a = a.
Proof.
  intros a H. unfold sat.
  destruct (Rle_bool_spec a (- M)); [lra|]. destruct (Rle_bool_spec M a); lra.
Qed.

Lemma rnd_le : forall a b, (a <= b)%R -> (rnd a <= rnd b)%R.
Proof. intros. apply round_le; [apply FLT_exp_valid; reflexivity | apply valid_rnd_N | assumption]. Qed.

Lemma rnd_0 : rnd 0 = 0%R.
Proof. apply round_0. apply valid_rnd_N. Qed.

(* the sign bit and the sign of the value *)
Lemma Bsign_R : forall x : B,
  (Bsign x = true -> (B2R x <= 0)%R) /\ (Bsign x = false -> (0 <= B2R x)%R).
Proof.
  intros [s|s| |s m e Hb]; simpl; split; intros; try lra; subst s; simpl.
  - apply F2R_le_0. simpl. lia.
  - apply F2R_ge_0. simpl. lia.
Qed.

Lemma Bsign_pos : forall x : B, (0 < B2R x)%R -> Bsign x = false.
Proof.
  intros x H. destruct (Bsign x) eqn:E; [|reflexivity].
  apply (proj1 (Bsign_R x)) in E. lra.
Qed.

(* the two outcomes of Flocq's _correct theorems, read through ev *)
Lemma ev_round_ok : forall (z : B) r, (Rabs (rnd r) < M)%R ->
  B2R z = rnd r -> is_finite z = true -> is_nan z = false /\ ev z = sat (rnd r).
Proof.
  intros z r H R F. apply Rabs_lt_inv in H. split.
  - destruct z; try discriminate; reflexivity.
  - rewrite sat_id by exact H. rewrite <- R. apply (ev_fin z F).
Qed.

Lemma ev_round_ovf : forall (z : B) r s, (M <= Rabs (rnd r))%R ->
  B2SF z = binary_overflow prec emax mode_NE s ->
  (if s then (r <= 0)%R else (0 <= r)%R) -> is_nan z = false /\ ev z = sat (rnd r).
Proof.
  intros z r s H O S. pose proof M_pos.
  assert (z = B754_infinity s).
  { destruct z; simpl in O; unfold binary_overflow in O; simpl in O; try discriminate.
    now inversion O. }
  subst z. split; [reflexivity|]. unfold sat. destruct s.
  - apply rnd_le in S. rewrite rnd_0 in S. rewrite Rabs_left1 in H by exact S.
    cbv [ev]. rewrite Rle_bool_true by lra. reflexivity.
  - apply rnd_le in S. rewrite rnd_0 in S. rewrite Rabs_pos_eq in H by exact S.
    cbv [ev]. rewrite Rle_bool_false by lra. rewrite Rle_bool_true by lra. reflexivity.
Qed.

(* an operation with a fixed finite operand, monotone on the extended reals *)
Lemma ext_mono : forall (op : B -> B) (phi : R -> R),
  (forall a b, (a <= b)%R -> (phi a <= phi b)%R) ->
  (forall x, is_finite x = true -> is_nan (op x) = false /\ ev (op x) = sat (rnd (phi (B2R x)))) ->
  (forall s, op (B754_infinity s) = B754_infinity s) ->
  forall x y, is_nan x = false -> is_nan y = false -> (ev x <= ev y)%R ->
  is_nan (op x) = false /\ is_nan (op y) = false /\ (ev (op x) <= ev (op y))%R.
Proof.
  intros op phi Hphi Hfin Hinf x y Nx Ny Hle.
  destruct (is_finite x) eqn:Fx; destruct (is_finite y) eqn:Fy.
  - destruct (Hfin x Fx) as [N1 E1]. destruct (Hfin y Fy) as [N2 E2].
    repeat split; try assumption. rewrite E1, E2. apply sat_mono, rnd_le, Hphi.
    rewrite <- (proj1 (ev_fin x Fx)), <- (proj1 (ev_fin y Fy)). exact Hle.
  - destruct (Hfin x Fx) as [N1 E1].
    destruct (not_fin_cases y Fy Ny) as [-> | ->].
    + exfalso. destruct (ev_fin x Fx) as [E Bd]. rewrite <- E in Bd. cbv [ev] in Hle, Bd. lra.
    + rewrite Hinf. repeat split; try assumption. apply ev_range.
  - destruct (Hfin y Fy) as [N2 E2].
    destruct (not_fin_cases x Fx Nx) as [-> | ->].
    + rewrite Hinf. repeat split; try assumption. apply ev_range.
    + exfalso. destruct (ev_fin y Fy) as [E Bd]. rewrite <- E in Bd. cbv [ev] in Hle, Bd. lra.
  - destruct (not_fin_cases x Fx Nx) as [-> | ->]; destruct (not_fin_cases y Fy Ny) as [-> | ->];
      rewrite !Hinf; repeat split; try reflexivity; cbv [ev] in *; pose proof M_pos; lra.
Qed.

(* ---- subtraction of a finite constant ---- *)
Lemma sub_fin : forall x lo : B, is_finite x = true -> is_finite lo = true ->
  is_nan (Bminus mode_NE x lo) = false /\
  ev (Bminus mode_NE x lo) = sat (rnd (B2R x - B2R lo)).
Proof.
  intros x lo Fx Flo.
  generalize (Bminus_correct prec emax Hprec Hmax mode_NE x lo Fx Flo).
  destruct (Rlt_bool_spec (Rabs (rnd (B2R x - B2R lo))) M) as [H|H].
  - intros (R & F & _). now apply ev_round_ok.
  - intros (O & S). apply (ev_round_ovf _ _ (Bsign x)); try assumption.
    destruct (Bsign x) eqn:E.
    + pose proof (proj1 (Bsign_R x) E). symmetry in S. apply negb_true_iff in S.
      pose proof (proj2 (Bsign_R lo) S). lra.
    + pose proof (proj2 (Bsign_R x) E). symmetry in S. apply negb_false_iff in S.
      pose proof (proj1 (Bsign_R lo) S). lra.
Qed.

Lemma sub_inf : forall (lo : B) s, is_finite lo = true ->
  Bminus mode_NE (B754_infinity s) lo = B754_infinity s.
Proof. intros [s'|s'| |s' m e Hb] s F; try discriminate; reflexivity. Qed.

Lemma sub_mono : forall lo x y : B, is_finite lo = true ->
  is_nan x = false -> is_nan y = false -> (ev x <= ev y)%R ->
  is_nan (Bminus mode_NE x lo) = false /\ is_nan (Bminus mode_NE y lo) = false /\
  (ev (Bminus mode_NE x lo) <= ev (Bminus mode_NE y lo))%R.
Proof.
  intros lo x y Flo. apply (ext_mono (fun x => Bminus mode_NE x lo) (fun a => a - B2R lo)%R).
  - intros; lra.
  - intros z Fz. now apply sub_fin.
  - intros s. now apply sub_inf.
Qed.

(* ---- multiplication by a finite positive constant ---- *)
Lemma mul_fin : forall x c : B, is_finite x = true -> is_finite c = true -> (0 <= B2R c)%R ->
  Bsign c = false ->
  is_nan (Bmult mode_NE x c) = false /\
  ev (Bmult mode_NE x c) = sat (rnd (B2R x * B2R c)).
Proof.
  intros x c Fx Fc Hc Sc.
  generalize (Bmult_correct prec emax Hprec Hmax mode_NE x c).
  destruct (Rlt_bool_spec (Rabs (rnd (B2R x * B2R c))) M) as [H|H].
  - intros (R & F & _). rewrite Fx, Fc in F. now apply ev_round_ok.
  - intros O. rewrite Sc, xorb_false_r in O. apply (ev_round_ovf _ _ (Bsign x)); try assumption.
    destruct (Bsign x) eqn:E.
    + pose proof (proj1 (Bsign_R x) E). nra.
    + pose proof (proj2 (Bsign_R x) E). nra.
Qed.

Lemma mul_inf : forall (c : B) s, is_finite c = true -> (0 < B2R c)%R ->
  Bmult mode_NE (B754_infinity s) c = B754_infinity s.
Proof.
  intros c s F H. pose proof (Bsign_pos c H) as S.
  destruct c as [s'|s'| |s' m e Hb]; try discriminate; simpl in *; try lra.
  subst s'. now rewrite xorb_false_r.
Qed.

Lemma mul_mono : forall c x y : B, is_finite c = true -> (0 < B2R c)%R ->
  is_nan x = false -> is_nan y = false -> (ev x <= ev y)%R ->
  is_nan (Bmult mode_NE x c) = false /\ is_nan (Bmult mode_NE y c) = false /\
  (ev (Bmult mode_NE x c) <= ev (Bmult mode_NE y c))%R.
Proof.
  intros c x y Fc Hc. apply (ext_mono (fun x => Bmult mode_NE x c) (fun a => a * B2R c)%R).
  - intros; nra.
  - intros z Fz. apply mul_fin; try assumption; [lra | now apply Bsign_pos].
  - intros s. now apply mul_inf.
Qed.

(* ====================================================================
   the clips, the cast and the integer clips, as a function of the scaled float
   ==================================================================== *)
Definition gcell (s : float) (n : Z) : Z := i_clip (float_to_int64 (f_clip s n)) n.
Definition G (n : Z) (r : R) : Z := i_clip (Ztrunc (clipR n r)) n.

Lemma P0 : Prim2B 0%float = B754_zero false.
Proof. change 0%float with zero. rewrite zero_equiv. apply Prim2B_B2Prim. Qed.

Lemma n_facts : forall p, 1 <= p <= 31 -> 2 <= 2 ^ p <= 2147483648.
Proof.
  intros p Hp. split.
  - change 2 with (2 ^ 1) at 1. apply Z.pow_le_mono_r; lia.
  - change 2147483648 with (2 ^ 31). apply Z.pow_le_mono_r; lia.
Qed.

Lemma n1_lt_M : forall n, n <= 2147483648 -> (IZR (n - 1) < M)%R.
Proof.
  intros n Hn. apply Rlt_le_trans with (IZR (2 ^ 31)).
  - apply IZR_lt. change (2 ^ 31) with 2147483648. lia.
  - rewrite IZR_pow2 by lia. apply bpow_le. change emax with 1024. lia.
Qed.

Lemma i_clip_0 : forall n, 1 <= n -> i_clip 0 n = 0.
Proof. intros n Hn. unfold i_clip. cbn. destruct (n - 1 <? 0) eqn:E; lia. Qed.

Lemma i_clip_n1 : forall n, 1 <= n -> i_clip (n - 1) n = n - 1.
Proof.
  intros n Hn. unfold i_clip. cbv zeta.
  destruct (n - 1 <? 0) eqn:E1; [lia|]. destruct (n - 1 <? n - 1) eqn:E2; lia.
Qed.

Lemma i_clip_min : forall n, 1 <= n -> i_clip INT64_MIN n = 0.
Proof. intros n Hn. unfold i_clip, INT64_MIN. cbn. destruct (n - 1 <? 0) eqn:E; lia. Qed.

Lemma G_mono : forall n r r', 1 <= n -> (r <= r')%R -> G n r <= G n r'.
Proof. intros. unfold G. apply i_clip_mono, Ztrunc_le. now apply clipR_mono. Qed.

Lemma G_range : forall n r, 1 <= n -> 0 <= G n r <= n - 1.
Proof. intros. unfold G. now apply i_clip_range. Qed.

Lemma G_le0 : forall n r, 1 <= n -> (r <= 0)%R -> G n r = 0.
Proof.
  intros n r Hn H. unfold G, clipR.
  destruct (Rlt_bool_spec r 0).
  - rewrite (Ztrunc_IZR 0). now apply i_clip_0.
  - replace r with 0%R by lra. rewrite Rlt_bool_false by (apply IZR_le; lia).
    rewrite (Ztrunc_IZR 0). now apply i_clip_0.
Qed.

Lemma G_ge : forall n r, 1 <= n -> (IZR (n - 1) <= r)%R -> G n r = n - 1.
Proof.
  intros n r Hn H. unfold G, clipR.
  assert (0 <= IZR (n - 1))%R by (apply IZR_le; lia).
  rewrite Rlt_bool_false by lra.
  assert (E : (if Rlt_bool (IZR (n - 1)) r then IZR (n - 1) else r) = IZR (n - 1)).
  { destruct (Rlt_bool_spec (IZR (n - 1)) r); lra. }
  rewrite E, Ztrunc_IZR. now apply i_clip_n1.
Qed.

Lemma gcell_nan : forall s p, 1 <= p <= 31 -> Prim2B s = B754_nan -> gcell s (2 ^ p) = 0.
Proof.
  intros s p Hp Hs. pose proof (n_facts p Hp) as Hn. set (n := 2 ^ p) in *.
  unfold gcell, f_clip.
  rewrite (ltb_equiv s 0%float), Hs. unfold Bltb at 1. simpl.
  rewrite (ltb_equiv _ s), Hs.
  assert (E : Bltb (Prim2B (Z2float (n - 1))) B754_nan = false)
    by (destruct (Prim2B (Z2float (n - 1))); reflexivity).
  rewrite E. unfold float_to_int64. rewrite <- B2SF_Prim2B, Hs. simpl B2SF. cbv iota.
  apply i_clip_min. lia.
Qed.

Lemma gcell_ninf : forall s p, 1 <= p <= 31 -> Prim2B s = B754_infinity true -> gcell s (2 ^ p) = 0.
Proof.
  intros s p Hp Hs. pose proof (n_facts p Hp) as Hn. set (n := 2 ^ p) in *.
  assert (Hn1 : Fdy 0 (Z2float (n - 1)) (n - 1)).
  { apply Fdy_of_nonneg. change (2 ^ 53) with 9007199254740992. lia. }
  unfold gcell, f_clip.
  rewrite (ltb_equiv s 0%float), Hs, P0. unfold Bltb at 1. simpl.
  rewrite (Fdy_ltb _ _ _ _ _ Hn1 (Fdy_zero 0)). replace (n - 1 <? 0) with false by lia.
  change (float_to_int64 0%float) with 0. apply i_clip_0. lia.
Qed.

Lemma cast_n1 : forall n, 2 <= n <= 2147483648 -> float_to_int64 (Z2float (n - 1)) = n - 1.
Proof.
  intros n Hn.
  assert (Hn1 : Fdy 0 (Z2float (n - 1)) (n - 1)).
  { apply Fdy_of_nonneg. change (2 ^ 53) with 9007199254740992. lia. }
  destruct Hn1 as [F1 R1]. rewrite float_to_int64_trunc; [|exact F1|].
  - rewrite R1. simpl (bpow radix2 0). rewrite Rmult_1_r. apply Ztrunc_IZR.
  - rewrite R1. simpl (bpow radix2 0). rewrite Rmult_1_r, <- abs_IZR. apply IZR_lt.
    change (2 ^ 63) with 9223372036854775808. lia.
Qed.

Lemma gcell_pinf : forall s p, 1 <= p <= 31 -> Prim2B s = B754_infinity false ->
  gcell s (2 ^ p) = 2 ^ p - 1.
Proof.
  intros s p Hp Hs. pose proof (n_facts p Hp) as Hn. set (n := 2 ^ p) in *.
  assert (Hn1 : Fdy 0 (Z2float (n - 1)) (n - 1)).
  { apply Fdy_of_nonneg. change (2 ^ 53) with 9007199254740992. lia. }
  unfold gcell, f_clip.
  rewrite (ltb_equiv s 0%float), Hs, P0. unfold Bltb at 1. simpl.
  rewrite (ltb_equiv _ s), Hs.
  assert (E : Bltb (Prim2B (Z2float (n - 1))) (B754_infinity false) = true).
  { destruct Hn1 as [F1 _]. destruct (Prim2B (Z2float (n - 1))); try discriminate; reflexivity. }
  rewrite E, cast_n1 by lia. apply i_clip_n1. lia.
Qed.

Lemma gcell_fin : forall s p, 1 <= p <= 31 -> is_finite (Prim2B s) = true ->
  gcell s (2 ^ p) = G (2 ^ p) (B2R (Prim2B s)).
Proof.
  intros s p Hp Fs. pose proof (n_facts p Hp) as Hn.
  destruct (f_clip_finite s p Hp Fs) as [F1 R1].
  unfold gcell, G. f_equal. rewrite float_to_int64_trunc; [now rewrite R1 | exact F1 |].
  rewrite R1. pose proof (clipR_bounds (2 ^ p) (B2R (Prim2B s)) ltac:(lia)) as [B1 B2].
  rewrite Rabs_pos_eq by exact B1. apply Rle_lt_trans with (1 := B2). apply IZR_lt.
  change (2 ^ 63) with 9223372036854775808. lia.
Qed.

Lemma gcell_ev : forall s p, 1 <= p <= 31 -> is_nan (Prim2B s) = false ->
  gcell s (2 ^ p) = G (2 ^ p) (ev (Prim2B s)).
Proof.
  intros s p Hp Ns. pose proof (n_facts p Hp) as Hn. pose proof M_pos.
  destruct (is_finite (Prim2B s)) eqn:Fs.
  - rewrite (proj1 (ev_fin _ Fs)). now apply gcell_fin.
  - destruct (not_fin_cases _ Fs Ns) as [E|E]; rewrite E; cbv [ev].
    + rewrite G_le0 by lra || lia. now apply gcell_ninf.
    + rewrite G_ge; [now apply gcell_pinf | lia |]. apply Rlt_le, n1_lt_M. lia.
Qed.

Lemma gcell_range : forall s p, 1 <= p <= 31 -> 0 <= gcell s (2 ^ p) <= 2 ^ p - 1.
Proof. intros s p Hp. pose proof (n_facts p Hp). unfold gcell. apply i_clip_range. lia. Qed.

(* ====================================================================
   the order of the inputs, the width and the factor
   ==================================================================== *)
Lemma leb_ev : forall x y : B, Bleb x y = true ->
  is_nan x = false /\ is_nan y = false /\ (ev x <= ev y)%R.
Proof.
  intros x y H.
  destruct (is_finite x) eqn:Fx; [destruct (is_finite y) eqn:Fy|].
  - rewrite Bleb_correct in H by assumption.
    rewrite (proj1 (ev_fin x Fx)), (proj1 (ev_fin y Fy)).
    repeat split; [destruct x; try discriminate; reflexivity
                  |destruct y; try discriminate; reflexivity|].
    destruct (Rle_bool_spec (B2R x) (B2R y)); [assumption | discriminate].
  - destruct y as [s|[]| |s m e Hb]; try discriminate;
      destruct x as [s'|[]| |s' m' e' Hb']; try discriminate;
      repeat split; try reflexivity; try apply ev_range;
      try (destruct s'; discriminate).
  - destruct x as [s'|[]| |s' m' e' Hb']; try discriminate;
      destruct y as [s|[]| |s m e Hb]; try discriminate;
      repeat split; try reflexivity; try apply ev_range; try (cbv [ev]; lra).
Qed.

Definition pos_width (w : B) : Prop :=
  w = B754_infinity false \/ (is_finite w = true /\ (0 < B2R w)%R).

Lemma width_cases : forall lo hi : B, is_finite lo = true -> is_finite hi = true ->
  (B2R lo < B2R hi)%R -> pos_width (Bminus mode_NE hi lo).
Proof.
  intros lo hi Flo Fhi Hlt. unfold pos_width.
  generalize (Bminus_correct prec emax Hprec Hmax mode_NE hi lo Fhi Flo).
  destruct (Rlt_bool _ _).
  - intros (R & F & _). right. split; [exact F|]. rewrite R.
    assert (H0 : (0 <= rnd (B2R hi - B2R lo))%R) by (rewrite <- rnd_0; apply rnd_le; lra).
    destruct (Req_dec (rnd (B2R hi - B2R lo)) 0) as [E|E]; [exfalso | lra].
    assert (B2R hi + - B2R lo = 0)%R.
    { assert (Fx : generic_format radix2 fexp64 (B2R hi)) by apply generic_format_B2R.
      assert (Fy : generic_format radix2 fexp64 (- B2R lo))
        by (apply generic_format_opp, generic_format_B2R).
      assert (Hv : Valid_exp fexp64) by (apply FLT_exp_valid; reflexivity).
      apply (round_plus_eq_0 radix2 fexp64 (round_mode mode_NE)); try assumption. }
    lra.
  - intros (O & S). left.
    destruct (Bsign hi) eqn:E.
    + exfalso. pose proof (proj1 (Bsign_R hi) E). symmetry in S. apply negb_true_iff in S.
      pose proof (proj2 (Bsign_R lo) S). lra.
    + destruct (Bminus mode_NE hi lo); simpl in O; unfold binary_overflow in O; simpl in O;
        try discriminate. now inversion O.
Qed.

Lemma width_not_zero : forall w : B, pos_width w -> Beqb w (B754_zero false) = false.
Proof.
  intros w [-> | [F H]]; [reflexivity|].
  rewrite Beqb_correct by (assumption || reflexivity). simpl (B2R (B754_zero false)).
  apply Req_bool_false. lra.
Qed.

Inductive factor_cases (c : B) : Prop :=
  | FC_inf : c = B754_infinity false -> factor_cases c
  | FC_zero : (exists sc, c = B754_zero sc) -> factor_cases c
  | FC_pos : is_finite c = true -> (0 < B2R c)%R -> factor_cases c.

Lemma fin_zero : forall c : B, is_finite c = true -> B2R c = 0%R -> exists sc, c = B754_zero sc.
Proof.
  intros [s|s| |s m e Hb] F H; try discriminate; [now exists s|]. exfalso.
  simpl in H. apply eq_0_F2R in H. simpl in H. destruct s; discriminate.
Qed.

Lemma factor_fin : forall nb w : B, is_finite nb = true -> (0 < B2R nb)%R ->
  is_finite w = true -> (0 < B2R w)%R ->
  Bdiv mode_NE nb w = B754_infinity false \/
  (is_finite (Bdiv mode_NE nb w) = true /\ B2R (Bdiv mode_NE nb w) = rnd (B2R nb / B2R w) /\
   (0 <= B2R (Bdiv mode_NE nb w))%R).
Proof.
  intros nb w Fn Hn F H.
  assert (Hnz : B2R w <> 0%R) by lra.
  generalize (Bdiv_correct prec emax Hprec Hmax mode_NE nb w Hnz).
  assert (H0 : (0 <= rnd (B2R nb / B2R w))%R).
  { rewrite <- rnd_0. apply rnd_le. apply Rlt_le, Rdiv_lt_0_compat; assumption. }
  destruct (Rlt_bool _ _).
  - intros (R & Fc & _). rewrite Fn in Fc. right. rewrite R. auto.
  - intros O. left. rewrite (Bsign_pos nb Hn), (Bsign_pos w H) in O.
    destruct (Bdiv mode_NE nb w); simpl in O; unfold binary_overflow in O; simpl in O;
      try discriminate. now inversion O.
Qed.

Lemma factor_trichotomy : forall nb w : B, is_finite nb = true -> (0 < B2R nb)%R ->
  pos_width w -> factor_cases (Bdiv mode_NE nb w).
Proof.
  intros nb w Fn Hn [-> | [F H]].
  - apply FC_zero. destruct nb as [s|s| |s m e Hb]; try discriminate; simpl; eauto.
  - destruct (factor_fin nb w Fn Hn F H) as [E | (Fc & R & H0)].
    + now apply FC_inf.
    + destruct (Req_dec (B2R (Bdiv mode_NE nb w)) 0) as [E|E].
      * apply FC_zero. now apply fin_zero.
      * apply FC_pos; [exact Fc | lra].
Qed.

(* ====================================================================
   the cell as a function of the difference d = v - lo, by the case of the factor
   ==================================================================== *)
Lemma mul_zero_cell : forall (d : B) sc s p, 1 <= p <= 31 ->
  Prim2B s = Bmult mode_NE d (B754_zero sc) -> gcell s (2 ^ p) = 0.
Proof.
  intros d sc s p Hp Hs. pose proof (n_facts p Hp) as Hn.
  destruct d as [sd|sd| |sd m e Hb]; simpl in Hs;
    try (now apply gcell_nan);
    (rewrite gcell_fin by (assumption || now rewrite Hs)); rewrite Hs; simpl B2R;
    apply G_le0; lra || lia.
Qed.

Lemma mul_inf_cell : forall (d : B) s p, 1 <= p <= 31 -> is_nan d = false ->
  Prim2B s = Bmult mode_NE d (B754_infinity false) ->
  gcell s (2 ^ p) = if Rlt_bool 0 (ev d) then 2 ^ p - 1 else 0.
Proof.
  intros d s p Hp Nd Hs. pose proof (n_facts p Hp) as Hn. pose proof M_pos.
  destruct d as [sd|sd| |sd m e Hb]; try discriminate; simpl in Hs.
  - cbv [ev B2R]. rewrite Rlt_bool_false by lra. now apply gcell_nan.
  - destruct sd; cbv [ev]; simpl in Hs.
    + rewrite Rlt_bool_false by lra. now apply gcell_ninf.
    + rewrite Rlt_bool_true by lra. now apply gcell_pinf.
  - destruct sd; simpl in Hs.
    + rewrite Rlt_bool_false; [now apply gcell_ninf|].
      cbv [ev B2R]. apply F2R_le_0. simpl. lia.
    + rewrite Rlt_bool_true; [now apply gcell_pinf|].
      cbv [ev B2R]. apply F2R_gt_0. simpl. lia.
Qed.

Lemma scaled_cell_mono : forall p (c lo x y : B) s s', 1 <= p <= 31 ->
  factor_cases c -> is_finite lo = true ->
  is_nan x = false -> is_nan y = false -> (ev x <= ev y)%R ->
  Prim2B s = Bmult mode_NE (Bminus mode_NE x lo) c ->
  Prim2B s' = Bmult mode_NE (Bminus mode_NE y lo) c ->
  gcell s (2 ^ p) <= gcell s' (2 ^ p).
Proof.
  intros p c lo x y s s' Hp Hc Flo Nx Ny Hle Hs Hs'. pose proof (n_facts p Hp) as Hn.
  destruct (sub_mono lo x y Flo Nx Ny Hle) as (Nd & Nd' & Hd).
  destruct Hc as [-> | [sc ->] | Fc Hc].
  - rewrite (mul_inf_cell _ _ _ Hp Nd Hs), (mul_inf_cell _ _ _ Hp Nd' Hs').
    destruct (Rlt_bool_spec 0 (ev (Bminus mode_NE x lo)));
      destruct (Rlt_bool_spec 0 (ev (Bminus mode_NE y lo))); try lia. lra.
  - rewrite (mul_zero_cell _ _ _ _ Hp Hs), (mul_zero_cell _ _ _ _ Hp Hs'). lia.
  - destruct (mul_mono c _ _ Fc Hc Nd Nd' Hd) as (Ns & Ns' & Hss).
    rewrite <- Hs in Ns, Hss. rewrite <- Hs' in Ns', Hss.
    rewrite !gcell_ev by assumption. apply G_mono; [lia | exact Hss].
Qed.

(* ====================================================================
   the theorems about f_data2coord
   ==================================================================== *)
Lemma scaled_equiv : forall v lo hi n,
  Prim2B (f_scaled v lo hi n) =
  Bmult mode_NE (Bminus mode_NE (Prim2B v) (Prim2B lo))
        (Bdiv mode_NE (Prim2B (Z2float n)) (Bminus mode_NE (Prim2B hi) (Prim2B lo))).
Proof.
  intros. unfold f_scaled. now rewrite mul_equiv, div_equiv, !sub_equiv.
Qed.

Lemma nb_facts : forall p, 1 <= p <= 31 ->
  is_finite (Prim2B (Z2float (2 ^ p))) = true /\ B2R (Prim2B (Z2float (2 ^ p))) = IZR (2 ^ p).
Proof.
  intros p Hp. pose proof (n_facts p Hp) as Hn.
  destruct (Fdy_of_nonneg (2 ^ p)) as [F R].
  - change (2 ^ 53) with 9007199254740992. lia.
  - split; [exact F|]. rewrite R. simpl (bpow radix2 0). ring.
Qed.

Lemma setup : forall lo hi p, 1 <= p <= 31 ->
  PrimFloat.is_finite lo = true -> PrimFloat.is_finite hi = true -> (lo <? hi)%float = true ->
  is_finite (Prim2B lo) = true /\ is_finite (Prim2B hi) = true /\
  (B2R (Prim2B lo) < B2R (Prim2B hi))%R /\
  pos_width (Bminus mode_NE (Prim2B hi) (Prim2B lo)) /\
  factor_cases (Bdiv mode_NE (Prim2B (Z2float (2 ^ p))) (Bminus mode_NE (Prim2B hi) (Prim2B lo))) /\
  (forall v, f_data2coord v lo hi (2 ^ p) = gcell (f_scaled v lo hi (2 ^ p)) (2 ^ p)).
Proof.
  intros lo hi p Hp Flo Fhi Hlt. rewrite is_finite_equiv in Flo, Fhi.
  rewrite ltb_equiv, Bltb_correct in Hlt by assumption.
  assert (Hlt' : (B2R (Prim2B lo) < B2R (Prim2B hi))%R)
    by (destruct (Rlt_bool_spec (B2R (Prim2B lo)) (B2R (Prim2B hi))); [assumption | discriminate]).
  pose proof (width_cases _ _ Flo Fhi Hlt') as W.
  destruct (nb_facts p Hp) as [Fn Rn]. pose proof (n_facts p Hp) as Hn.
  repeat split; try assumption.
  - apply factor_trichotomy; try assumption. rewrite Rn. apply IZR_lt. lia.
  - intros v. unfold f_data2coord.
    rewrite eqb_equiv, sub_equiv, P0, (width_not_zero _ W). reflexivity.
Qed.

(* MONOTONE, no regime hypothesis: finite lo < hi, v <= v' (neither NaN, infinities allowed) *)
Theorem f_data2coord_monotone : forall v v' lo hi p, 1 <= p <= 31 ->
  PrimFloat.is_finite lo = true -> PrimFloat.is_finite hi = true -> (lo <? hi)%float = true ->
  (v <=? v')%float = true ->
  f_data2coord v lo hi (2 ^ p) <= f_data2coord v' lo hi (2 ^ p).
Proof.
  intros v v' lo hi p Hp Flo Fhi Hlt Hvv.
  destruct (setup lo hi p Hp Flo Fhi Hlt) as (Fl & Fh & Hlh & W & C & E).
  rewrite leb_equiv in Hvv. destruct (leb_ev _ _ Hvv) as (Nv & Nv' & Hle).
  rewrite !E.
  apply (scaled_cell_mono p _ (Prim2B lo) (Prim2B v) (Prim2B v') _ _ Hp C Fl Nv Nv' Hle);
    apply scaled_equiv.
Qed.

(* below the range: cell 0 *)
Lemma scaled_cell_below : forall p (c lo x : B) s, 1 <= p <= 31 ->
  factor_cases c -> is_finite lo = true -> is_nan x = false -> (ev x <= B2R lo)%R ->
  Prim2B s = Bmult mode_NE (Bminus mode_NE x lo) c -> gcell s (2 ^ p) = 0.
Proof.
  intros p c lo x s Hp Hc Flo Nx Hle Hs. pose proof (n_facts p Hp) as Hn. pose proof M_pos.
  assert (Nlo : is_nan lo = false) by (destruct lo; try discriminate; reflexivity).
  rewrite <- (proj1 (ev_fin lo Flo)) in Hle.
  destruct (sub_mono lo x lo Flo Nx Nlo Hle) as (Nd & _ & Hd).
  destruct (sub_fin lo lo Flo Flo) as [_ E0]. rewrite E0 in Hd.
  replace (B2R lo - B2R lo)%R with 0%R in Hd by ring. rewrite rnd_0, sat_id in Hd by lra.
  destruct Hc as [-> | [sc ->] | Fc Hc].
  - rewrite (mul_inf_cell _ _ _ Hp Nd Hs). now rewrite Rlt_bool_false.
  - now rewrite (mul_zero_cell _ _ _ _ Hp Hs).
  - assert (Hd0 : (ev (Bminus mode_NE x lo) <= ev (B754_zero false : B))%R) by (cbv [ev B2R]; exact Hd).
    destruct (mul_mono c _ _ Fc Hc Nd (eq_refl : is_nan (B754_zero false : B) = false) Hd0)
      as (Ns & _ & Hss).
    destruct (mul_fin (B754_zero false) c eq_refl Fc ltac:(lra) (Bsign_pos c Hc)) as [_ E1].
    rewrite E1 in Hss. simpl (B2R (B754_zero false)) in Hss.
    rewrite Rmult_0_l, rnd_0, sat_id in Hss by lra.
    rewrite <- Hs in Ns, Hss. rewrite gcell_ev by assumption. apply G_le0; [lia | exact Hss].
Qed.

Theorem f_data2coord_below : forall v lo hi p, 1 <= p <= 31 ->
  PrimFloat.is_finite lo = true -> PrimFloat.is_finite hi = true -> (lo <? hi)%float = true ->
  (v <=? lo)%float = true ->
  f_data2coord v lo hi (2 ^ p) = 0.
Proof.
  intros v lo hi p Hp Flo Fhi Hlt Hvl.
  destruct (setup lo hi p Hp Flo Fhi Hlt) as (Fl & Fh & Hlh & W & C & E).
  rewrite leb_equiv in Hvl. destruct (leb_ev _ _ Hvl) as (Nv & _ & Hle).
  rewrite (proj1 (ev_fin _ Fl)) in Hle. rewrite E.
  apply (scaled_cell_below p _ (Prim2B lo) (Prim2B v) _ Hp C Fl Nv Hle). apply scaled_equiv.
Qed.

(* above the range: the last cell, when the width does not overflow *)
Lemma key_bound : forall n w, 2 <= n <= 2147483648 -> (0 < w < M)%R ->
  (IZR (n - 1) <= w * rnd (IZR n / w))%R.
Proof.
  intros n w Hn Hw.
  set (x := (IZR n / w)%R).
  assert (Hn0 : (2 <= IZR n <= 2147483648)%R) by (split; apply IZR_le; lia).
  assert (Hx : (0 < x)%R) by (apply Rdiv_lt_0_compat; lra).
  assert (Hwx : (w * x = IZR n)%R) by (unfold x; field; lra).
  rewrite minus_IZR.
  change fexp64 with (FLT_exp (-1074) 53).
  change (round_mode mode_NE) with (Znearest (fun x => negb (Z.even x))).
  set (r := round radix2 (FLT_exp (-1074) 53) (Znearest (fun x => negb (Z.even x))) x).
  destruct (Rle_or_lt (bpow radix2 (-1022)) x) as [Hb|Hb].
  - pose proof (relative_error_N_FLT radix2 (-1074) 53 ltac:(reflexivity)
                  (fun x => negb (Z.even x)) x) as H.
    rewrite (Rabs_pos_eq x) in H by lra. specialize (H Hb). fold r in H. apply Rabs_le_inv in H.
    assert (He : (/ 2 * bpow radix2 (- (53) + 1) = / 9007199254740992)%R).
    { simpl. change (Z.pow_pos 2 52) with 4503599627370496. lra. }
    rewrite He in H. destruct H as [H _].
    assert (H1 : (0 <= w * (r - x + / 9007199254740992 * x))%R)
      by (apply Rmult_le_pos; lra).
    assert (H2 : (w * r = w * (r - x + / 9007199254740992 * x) + w * x - / 9007199254740992 * (w * x))%R)
      by ring.
    rewrite H2, Hwx. lra.
  - assert (Hv : Valid_exp (FLT_exp (-1074) 53)) by (apply FLT_exp_valid; reflexivity).
    pose proof (error_le_half_ulp radix2 (FLT_exp (-1074) 53) (fun x => negb (Z.even x)) x) as H.
    fold r in H. rewrite ulp_FLT_small in H.
    2: reflexivity.
    2:{ rewrite Rabs_pos_eq by lra. apply Rlt_trans with (1 := Hb). apply bpow_lt. lia. }
    apply Rabs_le_inv in H. destruct H as [H _].
    set (u := bpow radix2 (-1074)) in *.
    assert (Hu : (0 < u)%R) by apply bpow_gt_0.
    assert (Hwu : (w * u <= bpow radix2 (-50))%R).
    { replace (-50) with (emax + -1074) by reflexivity. rewrite bpow_plus. fold u.
      apply Rmult_le_compat_r; lra. }
    assert (H50 : (bpow radix2 (-50) <= 1)%R).
    { change 1%R with (bpow radix2 0). apply bpow_le. lia. }
    assert (H1 : (0 <= w * (r - x + / 2 * u))%R) by (apply Rmult_le_pos; lra).
    assert (H2 : (w * r = w * (r - x + / 2 * u) + w * x - / 2 * (w * u))%R) by ring.
    rewrite H2, Hwx. lra.
Qed.

Lemma rnd_int : forall z, Z.abs z < 2 ^ 53 -> rnd (IZR z) = IZR z.
Proof.
  intros z Hz. pose proof (dy_round z 0 Hz ltac:(lia)) as H.
  simpl (bpow radix2 0) in H. now rewrite Rmult_1_r in H.
Qed.

Theorem f_data2coord_above : forall v lo hi p, 1 <= p <= 31 ->
  PrimFloat.is_finite lo = true -> PrimFloat.is_finite hi = true -> (lo <? hi)%float = true ->
  PrimFloat.is_finite (hi - lo)%float = true ->
  (hi <=? v)%float = true ->
  f_data2coord v lo hi (2 ^ p) = 2 ^ p - 1.
Proof.
  intros v lo hi p Hp Flo Fhi Hlt Fw Hhv.
  destruct (setup lo hi p Hp Flo Fhi Hlt) as (Fl & Fh & Hlh & W & _ & E).
  pose proof (n_facts p Hp) as Hn. pose proof M_pos as HM.
  assert (Hn1 : 1 <= 2 ^ p) by lia.
  assert (Hn3 : Z.abs (2 ^ p - 1) < 2 ^ 53) by (change (2 ^ 53) with 9007199254740992; lia).
  assert (H1 : (1 <= IZR (2 ^ p - 1))%R) by (apply IZR_le; lia).
  pose proof (n1_lt_M (2 ^ p) ltac:(lia)) as HnM.
  assert (Hnpos : (0 < IZR (2 ^ p))%R) by (apply IZR_lt; lia).
  destruct (nb_facts p Hp) as [Fn Rn].
  rewrite is_finite_equiv, sub_equiv in Fw.
  rewrite leb_equiv in Hhv. destruct (leb_ev _ _ Hhv) as (Nh & Nv & Hle).
  rewrite E. clear E.
  pose proof (scaled_equiv v lo hi (2 ^ p)) as Hs.
  set (s := f_scaled v lo hi (2 ^ p)) in *.
  destruct (sub_mono (Prim2B lo) _ _ Fl Nh Nv Hle) as (Nw & Nd & Hwd).
  set (w := Bminus mode_NE (Prim2B hi) (Prim2B lo)) in *.
  set (d := Bminus mode_NE (Prim2B v) (Prim2B lo)) in *.
  assert (Hw0 : (0 < B2R w)%R) by (destruct W as [Ew | [_ H]]; [rewrite Ew in Fw; discriminate | exact H]).
  destruct (ev_fin w Fw) as [Ew Bw]. rewrite Ew in Hwd.
  assert (Hnb : (0 < B2R (Prim2B (Z2float (2 ^ p))))%R) by (rewrite Rn; exact Hnpos).
  destruct (factor_fin _ w Fn Hnb Fw Hw0) as [Ec | (Fc & Rc & _)].
  - rewrite Ec in Hs. rewrite (mul_inf_cell _ _ _ Hp Nd Hs). now rewrite Rlt_bool_true by lra.
  - set (c := Bdiv mode_NE (Prim2B (Z2float (2 ^ p))) w) in *.
    pose proof (key_bound (2 ^ p) (B2R w) Hn ltac:(lra)) as K. rewrite <- Rn, <- Rc in K.
    assert (Hc : (0 < B2R c)%R).
    { destruct (Rlt_or_le 0 (B2R c)) as [Hc|Hc]; [exact Hc|exfalso].
      assert (B2R w * B2R c <= 0)%R
        by (rewrite <- (Rmult_0_r (B2R w)); apply Rmult_le_compat_l; lra).
      lra. }
    assert (Hwd' : (ev w <= ev d)%R) by (rewrite Ew; exact Hwd).
    destruct (mul_mono c w d Fc Hc Nw Nd Hwd') as (_ & Ns & Hss).
    destruct (mul_fin w c Fw Fc ltac:(lra) (Bsign_pos c Hc)) as [_ E1].
    rewrite E1 in Hss. rewrite <- Hs in Ns, Hss.
    rewrite gcell_ev by assumption. apply G_ge; [exact Hn1|].
    apply Rle_trans with (2 := Hss).
    rewrite <- (sat_id (IZR (2 ^ p - 1))) at 1 by lra.
    apply sat_mono. rewrite <- (rnd_int (2 ^ p - 1)) at 1.
    + apply rnd_le. exact K.
    + exact Hn3.
Qed.

(* ... and the hypothesis on the width is needed: when hi - lo overflows to +inf the factor
   n / inf is 0, every scaled value is 0 (or NaN), and hi itself lands in cell 0, not n - 1 *)
Theorem f_data2coord_above_overflow_refuted :
  exists v lo hi p, 1 <= p <= 31 /\
    PrimFloat.is_finite lo = true /\ PrimFloat.is_finite hi = true /\ (lo <? hi)%float = true /\
    (hi <=? v)%float = true /\
    PrimFloat.is_finite (hi - lo)%float = false /\
    f_data2coord v lo hi (2 ^ p) = 0 /\ 0 <> 2 ^ p - 1.
Proof.
  exists 0x1.e42d130773b76p+1023%float, (-0x1.e42d130773b76p+1023)%float,
         0x1.e42d130773b76p+1023%float, 3.
  repeat split; try lia; try (vm_compute; reflexivity); try (vm_compute; discriminate).
Qed.
