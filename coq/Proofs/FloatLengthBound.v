(* Lemma library for C14, float part: a forward error bound for the bit-exact binary64
   model of compute_line_length (Model/FloatMeasures.v) against the Euclidean length,
   over the reals, of the polyline through the STORED doubles.

   u = 2^-53 (unit roundoff of binary64, round to nearest even).
   A segment is "in range" when each of the exact differences DX = X1 - X0, DY = Y1 - Y0
   of its stored coordinates is 0 or has 2^-500 <= |D| <= 2^500: then no product, sum or
   partial sum overflows, and no product falls in the subnormal range (sums and
   differences of doubles have a relative error <= u even when subnormal; the sqrt of a
   double is never subnormal).

     f_segment_length_bound : |fl(seglen) - l| <= ((1+u)^3 - 1) * l
     f_length_bound         : |fl(length) - L| <= ((1+u)^(n+2) - 1) * L     (n segments)

   where l = sqrt(DX^2 + DY^2) and L = the sum of the l over the segments the loop adds
   ([fseg_terms]: those with both ends finite).  Per segment: the two subtractions
   contribute (1+u)^2 to each square, the products and their sum one (1+u) each, so the
   argument of sqrt is within (1+u)^4, the root within (1+u)^2 and its rounding within
   (1+u)^3.  All terms are non-negative, so each accumulation adds one factor (1+u); the
   first addition 0 + r is exact.

     f_length_bound_coords  : the same under a hypothesis on the coordinates alone (every
                              finite one is 0 or of magnitude in [2^-400, 2^400])
     f_length_bound_int     : for floats holding integers |z| <= 2^499, L is
                              [length_R] of the exact model's terms (Spec/MeasuresSpec.v):
                              the sum over R of sqrt (IZR t), perfect squares or not. *)
From Coq Require Import ZArith Reals Floats List Bool Arith Lia Lra Psatz.
From Flocq Require Import Core.Core Relative Plus_error
  IEEE754.BinarySingleNaN IEEE754.PrimFloat.
From SP Require Import Model.Num Model.Arrow Model.Measures Model.FloatMeasures
  Spec.MeasuresSpec Proofs.FloatMeasuresProofs.
Import ListNotations.

Notation pfloat := Coq.Floats.PrimFloat.float.
Notation fexp64 := (FLT_exp (3 - emax - prec) prec).
Notation fmt := (generic_format radix2 fexp64).
Notation rnd := (round radix2 fexp64 ZnearestE).
Notation b2 := (bpow radix2).
Notation rsqrt := R_sqrt.sqrt.

Local Open Scope R_scope.

(* ================================================================== *)
(** * 1. reals: the interval [(1-u)^k * b, (1+u)^k * b]                  *)
(* ================================================================== *)

(* the unit roundoff of binary64 *)
Definition u64 : R := b2 (-53).

Lemma u64_pos : 0 < u64.
Proof. apply bpow_gt_0. Qed.

Lemma u64_small : u64 <= / 2.
Proof.
  unfold u64. replace (/ 2) with (b2 (-1)) by (simpl; lra).
  apply bpow_le. lia.
Qed.

Lemma u64_u_ro : u_ro radix2 prec = u64.
Proof.
  unfold u_ro, u64. replace (/ 2) with (b2 (-1)) by (simpl; lra).
  rewrite <- bpow_plus. reflexivity.
Qed.

(* [a] is within k roundings of [b] *)
Definition W (k : nat) (a b : R) : Prop :=
  (1 - u64) ^ k * b <= a <= (1 + u64) ^ k * b.

Lemma pow_lo_pos : forall k, 0 < (1 - u64) ^ k.
Proof. intros k. apply pow_lt. pose proof u64_small. lra. Qed.

Lemma pow_hi_pos : forall k, 0 < (1 + u64) ^ k.
Proof. intros k. apply pow_lt. pose proof u64_pos. lra. Qed.

Lemma pow_hi_ge1 : forall k, 1 <= (1 + u64) ^ k.
Proof. intros k. apply pow_R1_Rle. pose proof u64_pos. lra. Qed.

Lemma pow_lo_le1 : forall k, (1 - u64) ^ k <= 1.
Proof.
  intros k. pose proof u64_small. pose proof u64_pos.
  apply Rle_trans with (1 ^ k); [apply pow_incr; lra | rewrite pow1; lra].
Qed.

Lemma W_nonneg : forall k a b, 0 <= b -> W k a b -> 0 <= a.
Proof.
  intros k a b Hb [H _]. pose proof (pow_lo_pos k).
  apply Rle_trans with (2 := H). apply Rmult_le_pos; lra.
Qed.

Lemma W_refl : forall a, W 0 a a.
Proof. intros a. unfold W. simpl. lra. Qed.

Lemma W_zero : forall k, W k 0 0.
Proof. intros k. unfold W. lra. Qed.

Lemma W_mono : forall k k' a b, (k <= k')%nat -> 0 <= b -> W k a b -> W k' a b.
Proof.
  intros k k' a b Hk Hb [H1 H2]. split.
  - apply Rle_trans with (2 := H1). apply Rmult_le_compat_r; [exact Hb|].
    replace k' with (k + (k' - k))%nat by lia. rewrite pow_add.
    pose proof (pow_lo_pos k). pose proof (pow_lo_le1 (k' - k)). pose proof (pow_lo_pos (k' - k)). nra.
  - apply Rle_trans with (1 := H2). apply Rmult_le_compat_r; [exact Hb|].
    apply Rle_pow; [|exact Hk]. pose proof u64_pos. lra.
Qed.

Lemma W_plus : forall k a b a' b', W k a b -> W k a' b' -> W k (a + a') (b + b').
Proof. intros k a b a' b' [H1 H2] [H3 H4]. unfold W. lra. Qed.

(* one more rounding with relative error at most u *)
Lemma W_step : forall k a b e, 0 <= b -> W k a b -> Rabs e <= u64 -> W (S k) (a * (1 + e)) b.
Proof.
  intros k a b e Hb Hw He. pose proof (W_nonneg _ _ _ Hb Hw) as Ha.
  destruct Hw as [H1 H2]. apply Rabs_le_inv in He.
  pose proof (pow_lo_pos k). pose proof (pow_hi_pos k). pose proof u64_small. pose proof u64_pos.
  unfold W. simpl. split.
  - apply Rle_trans with ((1 - u64) * a).
    + rewrite Rmult_assoc. apply Rmult_le_compat_l; lra.
    + rewrite (Rmult_comm a). apply Rmult_le_compat_r; lra.
  - apply Rle_trans with ((1 + u64) * a).
    + rewrite (Rmult_comm a). apply Rmult_le_compat_r; lra.
    + rewrite Rmult_assoc. apply Rmult_le_compat_l; lra.
Qed.

(* the square of a once-rounded number *)
Lemma W_square : forall D e, Rabs e <= u64 -> W 2 ((D * (1 + e)) * (D * (1 + e))) (D * D).
Proof.
  intros D e He. apply Rabs_le_inv in He. pose proof u64_small. pose proof u64_pos.
  assert (Q : 0 <= D * D) by nra.
  unfold W. simpl. rewrite !Rmult_1_r.
  replace (D * (1 + e) * (D * (1 + e))) with ((1 + e) * (1 + e) * (D * D)) by ring.
  split; apply Rmult_le_compat_r; try exact Q; nra.
Qed.

Lemma W_sqrt : forall k a b, 0 <= b -> W (2 * k) a b -> W k (rsqrt a) (rsqrt b).
Proof.
  intros k a b Hb [H1 H2].
  pose proof (pow_lo_pos k) as P1. pose proof (pow_hi_pos k) as P2.
  replace (2 * k)%nat with (k + k)%nat in * by lia. rewrite pow_add in H1, H2.
  split.
  - rewrite <- (sqrt_square ((1 - u64) ^ k)) by lra. rewrite <- sqrt_mult_alt by nra.
    apply sqrt_le_1_alt. exact H1.
  - rewrite <- (sqrt_square ((1 + u64) ^ k)) by lra. rewrite <- sqrt_mult_alt by nra.
    apply sqrt_le_1_alt. exact H2.
Qed.

(* (1-u)^k >= 2 - (1+u)^k: the two-sided interval as a symmetric bound *)
Lemma pow_sym : forall k, 2 <= (1 + u64) ^ k + (1 - u64) ^ k.
Proof.
  induction k as [|k IH]; [simpl; lra|].
  simpl. assert (M : (1 - u64) ^ k <= (1 + u64) ^ k).
  { apply pow_incr. pose proof u64_small. pose proof u64_pos. lra. }
  pose proof u64_pos. nra.
Qed.

Lemma W_abs : forall k a b, 0 <= b -> W k a b -> Rabs (a - b) <= ((1 + u64) ^ k - 1) * b.
Proof.
  intros k a b Hb [H1 H2]. pose proof (pow_sym k). apply Rabs_le. split.
  - apply Rle_trans with ((1 - u64) ^ k * b - b); [|lra].
    replace (- (((1 + u64) ^ k - 1) * b)) with ((1 - (1 + u64) ^ k) * b) by ring.
    replace ((1 - u64) ^ k * b - b) with (((1 - u64) ^ k - 1) * b) by ring.
    apply Rmult_le_compat_r; lra.
  - lra.
Qed.

(* (1+u)^m <= 1 + 2mu while mu <= 1/2 *)
Lemma pow_hi_lin : forall m, INR m * u64 <= / 2 -> (1 + u64) ^ m <= 1 + 2 * INR m * u64.
Proof.
  induction m as [|m IH]; intros H.
  - simpl. lra.
  - rewrite S_INR in *. pose proof u64_pos. pose proof (pos_INR m).
    assert (H' : INR m * u64 <= / 2) by nra. specialize (IH H').
    simpl. nra.
Qed.

Lemma pow_hi_le2 : forall m, (Z.of_nat m <= 2 ^ 52)%Z -> (1 + u64) ^ m <= 2.
Proof.
  intros m Hm.
  assert (H : INR m * u64 <= / 2).
  { rewrite INR_IZR_INZ. unfold u64.
    apply Rle_trans with (IZR (2 ^ 52) * b2 (-53)).
    - apply Rmult_le_compat_r; [apply bpow_ge_0 | apply IZR_le, Hm].
    - change (IZR (2 ^ 52)) with (IZR (Zpower radix2 52)). rewrite IZR_Zpower by lia.
      rewrite <- bpow_plus. simpl. lra. }
  pose proof (pow_hi_lin m H). lra.
Qed.

(* ================================================================== *)
(** * 2. round to nearest even in binary64: relative error, ranges       *)
(* ================================================================== *)
Local Existing Instance Hprec.

Lemma fmt_bpow : forall e, (-1074 <= e <= 1023)%Z -> fmt (b2 e).
Proof. intros e He. apply generic_format_bpow. unfold FLT_exp, emax, prec. lia. Qed.

(* sums (and differences) of doubles: relative error <= u, subnormal or not *)
Lemma rnd_plus_rel : forall x y, fmt x -> fmt y ->
  exists e, Rabs e <= u64 /\ rnd (x + y) = (x + y) * (1 + e).
Proof.
  intros x y Fx Fy.
  destruct (FLT_plus_error_N_ex radix2 (3 - emax - prec) prec
              (fun z => negb (Z.even z)) x y Fx Fy) as (e & He & E).
  exists e. split; [|exact E].
  apply Rle_trans with (1 := He). rewrite <- u64_u_ro. apply u_rod1pu_ro_le_u_ro.
Qed.

(* any real that is 0 or at least the smallest normal number *)
Lemma rnd_rel : forall x, x = 0 \/ b2 (-1022) <= Rabs x ->
  exists e, Rabs e <= u64 /\ rnd x = x * (1 + e).
Proof.
  intros x [Hx|Hx].
  - exists 0. subst x. rewrite round_0 by auto with typeclass_instances.
    rewrite Rabs_R0. pose proof u64_pos. split; lra.
  - destruct (relative_error_N_FLT_ex radix2 (3 - emax - prec) prec Hprec
                (fun z => negb (Z.even z)) x Hx) as (e & He & E).
    exists e. split; [|exact E].
    rewrite <- u64_u_ro. exact He.
Qed.

(* 0, or of magnitude between 2^-500 and 2^500 *)
Definition in_range (d : R) : Prop := d = 0 \/ b2 (-500) <= Rabs d <= b2 500.

Lemma in_range_le : forall d, in_range d -> Rabs d <= b2 500.
Proof.
  intros d [H|[_ H]]; [|exact H]. subst d. rewrite Rabs_R0. apply bpow_ge_0.
Qed.

Lemma rnd_in_range : forall d, in_range d -> in_range (rnd d).
Proof.
  intros d [H|[H1 H2]].
  - left. subst d. apply round_0. auto with typeclass_instances.
  - right. split.
    + apply abs_round_ge_generic; auto with typeclass_instances. apply fmt_bpow. lia.
    + apply abs_round_le_generic; auto with typeclass_instances. apply fmt_bpow. lia.
Qed.

Lemma sq_range : forall d, in_range d -> d * d = 0 \/ b2 (-1000) <= d * d <= b2 1000.
Proof.
  intros d [H|[H1 H2]]; [left; subst d; ring | right].
  replace (d * d) with (Rabs d * Rabs d)
    by (rewrite <- Rabs_mult; apply Rabs_pos_eq; nra).
  change (-1000)%Z with (-500 + -500)%Z. change 1000%Z with (500 + 500)%Z.
  rewrite !bpow_plus.
  pose proof (bpow_ge_0 radix2 (-500)). pose proof (Rabs_pos d).
  split; apply Rmult_le_compat; assumption.
Qed.

(* p = fl(d*d) for d = fl(D) = D(1+e) in range *)
Lemma sq_step : forall D e, Rabs e <= u64 -> in_range (D * (1 + e)) ->
  let p := rnd ((D * (1 + e)) * (D * (1 + e))) in
  W 3 p (D * D) /\ (p = 0 \/ b2 (-1000) <= p) /\ 0 <= p <= b2 1000.
Proof.
  intros D e He Hr p. pose proof (sq_range _ Hr) as Hq.
  assert (Hrel : (D * (1 + e)) * (D * (1 + e)) = 0 \/
                 b2 (-1022) <= Rabs ((D * (1 + e)) * (D * (1 + e)))).
  { destruct Hq as [Hq|[Hq _]]; [left; exact Hq | right].
    rewrite Rabs_pos_eq by (apply (Rle_0_sqr (D * (1 + e)))).
    apply Rle_trans with (2 := Hq). apply bpow_le. lia. }
  destruct (rnd_rel _ Hrel) as (e3 & He3 & E3).
  split; [|split].
  - unfold p. rewrite E3. apply W_step; [apply (Rle_0_sqr D) | apply W_square; exact He | exact He3].
  - destruct Hq as [Hq|[Hq _]].
    + left. unfold p. rewrite Hq. apply round_0. auto with typeclass_instances.
    + right. apply round_ge_generic; auto with typeclass_instances. apply fmt_bpow. lia.
  - split.
    + rewrite <- (round_0 radix2 fexp64 ZnearestE). apply round_le; auto with typeclass_instances.
      apply (Rle_0_sqr (D * (1 + e))).
    + apply round_le_generic; auto with typeclass_instances; [apply fmt_bpow; lia|].
      destruct Hq as [Hq|[_ Hq]]; [rewrite Hq; apply bpow_ge_0 | exact Hq].
Qed.

Lemma sqrt_bpow2 : forall e, rsqrt (b2 (e + e)) = b2 e.
Proof. intros e. rewrite bpow_plus. apply sqrt_square. apply bpow_ge_0. Qed.

(* s = fl(px + py), r = fl(sqrt s) *)
Lemma sqrt_step : forall px py Q, fmt px -> fmt py -> 0 <= Q ->
  (px = 0 \/ b2 (-1000) <= px) -> 0 <= px <= b2 1000 ->
  (py = 0 \/ b2 (-1000) <= py) -> 0 <= py <= b2 1000 ->
  W 3 (px + py) Q ->
  0 <= rnd (px + py) <= b2 1001 /\
  W 3 (rnd (rsqrt (rnd (px + py)))) (rsqrt Q) /\
  0 <= rnd (rsqrt (rnd (px + py))) <= b2 501.
Proof.
  intros px py Q Fx Fy HQ Zx Bx Zy By HW.
  destruct (rnd_plus_rel px py Fx Fy) as (e5 & He5 & E5).
  assert (W4 : W 4 (rnd (px + py)) Q).
  { rewrite E5. apply W_step; assumption. }
  set (s := rnd (px + py)) in *.
  assert (S0 : 0 <= s).
  { unfold s. rewrite <- (round_0 radix2 fexp64 ZnearestE).
    apply round_le; auto with typeclass_instances. lra. }
  assert (S1 : s <= b2 1001).
  { unfold s. apply round_le_generic; auto with typeclass_instances; [apply fmt_bpow; lia|].
    change 1001%Z with (1000 + 1)%Z. rewrite bpow_plus. simpl (b2 1). lra. }
  assert (SZ : s = 0 \/ b2 (-1000) <= s).
  { destruct Zx as [Zx|Zx]; [destruct Zy as [Zy|Zy]|].
    - left. unfold s. rewrite Zx, Zy, Rplus_0_r. apply round_0. auto with typeclass_instances.
    - right. apply round_ge_generic; auto with typeclass_instances; [apply fmt_bpow; lia | lra].
    - right. apply round_ge_generic; auto with typeclass_instances; [apply fmt_bpow; lia | lra]. }
  assert (Hrel : rsqrt s = 0 \/ b2 (-1022) <= Rabs (rsqrt s)).
  { destruct SZ as [SZ|SZ]; [left; rewrite SZ; apply sqrt_0 | right].
    rewrite Rabs_pos_eq by apply sqrt_pos.
    apply Rle_trans with (b2 (-500)); [apply bpow_le; lia|].
    rewrite <- sqrt_bpow2. apply sqrt_le_1_alt. exact SZ. }
  destruct (rnd_rel _ Hrel) as (e6 & He6 & E6).
  split; [split; assumption|]. split.
  - rewrite E6. apply W_step; [apply sqrt_pos | | exact He6].
    apply W_sqrt; [exact HQ | exact W4].
  - split.
    + rewrite <- (round_0 radix2 fexp64 ZnearestE).
      apply round_le; auto with typeclass_instances. apply sqrt_pos.
    + apply round_le_generic; auto with typeclass_instances; [apply fmt_bpow; lia|].
      rewrite <- sqrt_bpow2. apply sqrt_le_1_alt.
      apply Rle_trans with (1 := S1). apply bpow_le. lia.
Qed.

(* ================================================================== *)
(** * 3. the primitive-float operations (through Flocq's Prim2B)         *)
(* ================================================================== *)

(* the float [f] is finite and its real value is [x] *)
Definition fin (f : pfloat) (x : R) : Prop := ffinite f = true /\ fvalue f = x.

Lemma fin_fmt : forall f x, fin f x -> fmt x.
Proof. intros f x [_ H]. rewrite <- H. apply (generic_format_B2R prec emax). Qed.

Lemma fin_of_finite : forall f, f_isfinite f = true -> fin f (fvalue f).
Proof. intros f H. rewrite f_isfinite_ffinite in H. split; [exact H | reflexivity]. Qed.

Lemma rnd_lt_emax : forall x, Rabs x <= b2 1023 -> Rabs (rnd x) < b2 emax.
Proof.
  intros x H. apply Rle_lt_trans with (b2 1023).
  - apply abs_round_le_generic; auto with typeclass_instances. apply fmt_bpow. lia.
  - apply bpow_lt. unfold emax. lia.
Qed.

Lemma fin_add : forall a b x y, fin a x -> fin b y -> Rabs (x + y) <= b2 1023 ->
  fin (a + b)%float (rnd (x + y)).
Proof.
  intros a b x y [Fa Ra] [Fb Rb] Hb. unfold fin, ffinite, fvalue in *. rewrite add_equiv.
  generalize (Bplus_correct prec emax Hprec Hmax mode_NE (Prim2B a) (Prim2B b) Fa Fb).
  rewrite Ra, Rb. rewrite Rlt_bool_true by (apply rnd_lt_emax, Hb).
  intros (H1 & H2 & _). split; assumption.
Qed.

Lemma fin_sub : forall a b x y, fin a x -> fin b y -> Rabs (x - y) <= b2 1023 ->
  fin (a - b)%float (rnd (x - y)).
Proof.
  intros a b x y [Fa Ra] [Fb Rb] Hb. unfold fin, ffinite, fvalue in *. rewrite sub_equiv.
  generalize (Bminus_correct prec emax Hprec Hmax mode_NE (Prim2B a) (Prim2B b) Fa Fb).
  rewrite Ra, Rb. rewrite Rlt_bool_true by (apply rnd_lt_emax, Hb).
  intros (H1 & H2 & _). split; assumption.
Qed.

Lemma fin_mul : forall a b x y, fin a x -> fin b y -> Rabs (x * y) <= b2 1023 ->
  fin (a * b)%float (rnd (x * y)).
Proof.
  intros a b x y [Fa Ra] [Fb Rb] Hb. unfold fin, ffinite, fvalue in *. rewrite mul_equiv.
  generalize (Bmult_correct prec emax Hprec Hmax mode_NE (Prim2B a) (Prim2B b)).
  rewrite Ra, Rb. rewrite Rlt_bool_true by (apply rnd_lt_emax, Hb).
  rewrite Fa, Fb. intros (H1 & H2 & _). split; assumption.
Qed.

Lemma fin_sqrt : forall a x, fin a x -> 0 <= x -> fin (PrimFloat.sqrt a) (rnd (rsqrt x)).
Proof.
  intros a x [Fa Ra] Hx. unfold fin, ffinite, fvalue in *. rewrite sqrt_equiv.
  destruct (Bsqrt_correct prec emax Hprec Hmax mode_NE (Prim2B a)) as (H1 & H2 & _).
  rewrite Ra in H1. split; [|exact H1]. rewrite H2.
  destruct (Prim2B a) as [s|s| |s m e Hb] eqn:E; try discriminate; [reflexivity|].
  destruct s; [|reflexivity]. exfalso.
  simpl in Ra. unfold F2R in Ra. simpl in Ra.
  assert (0 < b2 e) by apply bpow_gt_0.
  assert (IZR (Z.neg m) < 0) by (apply IZR_lt; lia).
  nra.
Qed.

Lemma fin_zero : fin zero 0.
Proof. unfold fin, ffinite, fvalue. rewrite zero_equiv, Prim2B_B2Prim. simpl. auto. Qed.

(* ================================================================== *)
(** * 4. one segment                                                     *)
(* ================================================================== *)

(* the exact differences of the stored coordinates, and the Euclidean length *)
Definition seg_dx (s : fseg) : R := let '(x0, y0, x1, y1) := s in fvalue x1 - fvalue x0.
Definition seg_dy (s : fseg) : R := let '(x0, y0, x1, y1) := s in fvalue y1 - fvalue y0.
Definition seg_R (s : fseg) : R := rsqrt (seg_dx s * seg_dx s + seg_dy s * seg_dy s).
Definition seg_in_range (s : fseg) : Prop := in_range (seg_dx s) /\ in_range (seg_dy s).

Lemma bpow_500_1023 : b2 500 <= b2 1023.
Proof. apply bpow_le. lia. Qed.

(* d = fl(x1 - x0) *)
Lemma diff_step : forall a b x y, fin a x -> fin b y -> in_range (x - y) ->
  exists e, Rabs e <= u64 /\ in_range ((x - y) * (1 + e)) /\
            fin (a - b)%float ((x - y) * (1 + e)).
Proof.
  intros a b x y Ha Hb Hr.
  destruct (rnd_plus_rel x (- y)) as (e & He & E).
  { eapply fin_fmt; eassumption. }
  { apply generic_format_opp. eapply fin_fmt; eassumption. }
  change (x + - y) with (x - y) in E.
  exists e. split; [exact He|]. rewrite <- E. split; [apply rnd_in_range, Hr|].
  apply fin_sub; [assumption..|].
  apply Rle_trans with (1 := in_range_le _ Hr). apply bpow_500_1023.
Qed.

Lemma seg_core : forall s, fseg_finite s = true -> seg_in_range s ->
  exists r, fin (fseg_len s) r /\ W 3 r (seg_R s) /\ 0 <= r <= b2 501.
Proof.
  intros [[[x0 y0] x1] y1] Hf [Hx Hy].
  unfold fseg_finite, f_finite4 in Hf.
  apply andb_prop in Hf. destruct Hf as [Hf F3]. apply andb_prop in Hf. destruct Hf as [Hf F2].
  apply andb_prop in Hf. destruct Hf as [F0 F1].
  apply fin_of_finite in F0, F1, F2, F3.
  unfold seg_R, seg_in_range, seg_dx, seg_dy, fseg_len, f_seglen, f_sqdist in *.
  set (X0 := fvalue x0) in *. set (Y0 := fvalue y0) in *.
  set (X1 := fvalue x1) in *. set (Y1 := fvalue y1) in *.
  destruct (diff_step _ _ _ _ F2 F0 Hx) as (e1 & He1 & Rx & Fdx).
  destruct (diff_step _ _ _ _ F3 F1 Hy) as (e2 & He2 & Ry & Fdy).
  destruct (sq_step _ _ He1 Rx) as (Wx & Zx & Bx).
  destruct (sq_step _ _ He2 Ry) as (Wy & Zy & By).
  assert (M : forall p, 0 <= p <= b2 1000 -> p <= b2 1023).
  { intros p [_ Hp]. apply Rle_trans with (1 := Hp). apply bpow_le. lia. }
  assert (Fpx := fin_mul _ _ _ _ Fdx Fdx).
  assert (Fpy := fin_mul _ _ _ _ Fdy Fdy).
  set (dx := (X1 - X0) * (1 + e1)) in *. set (dy := (Y1 - Y0) * (1 + e2)) in *.
  assert (Qx : Rabs (dx * dx) <= b2 1023).
  { rewrite Rabs_pos_eq by apply (Rle_0_sqr dx).
    destruct (sq_range _ Rx) as [Q|[_ Q]]; [rewrite Q; apply bpow_ge_0|].
    apply Rle_trans with (1 := Q). apply bpow_le. lia. }
  assert (Qy : Rabs (dy * dy) <= b2 1023).
  { rewrite Rabs_pos_eq by apply (Rle_0_sqr dy).
    destruct (sq_range _ Ry) as [Q|[_ Q]]; [rewrite Q; apply bpow_ge_0|].
    apply Rle_trans with (1 := Q). apply bpow_le. lia. }
  specialize (Fpx Qx). specialize (Fpy Qy).
  set (px := rnd (dx * dx)) in *. set (py := rnd (dy * dy)) in *.
  assert (HQ : 0 <= (X1 - X0) * (X1 - X0) + (Y1 - Y0) * (Y1 - Y0)).
  { pose proof (Rle_0_sqr (X1 - X0)). pose proof (Rle_0_sqr (Y1 - Y0)). unfold Rsqr in *. lra. }
  destruct (sqrt_step px py _ (fin_fmt _ _ Fpx) (fin_fmt _ _ Fpy) HQ Zx Bx Zy By
              (W_plus _ _ _ _ _ Wx Wy)) as (Bs & Wr & Br).
  assert (Fs : fin (PrimFloat.add (PrimFloat.mul (PrimFloat.sub x1 x0) (PrimFloat.sub x1 x0))
                                  (PrimFloat.mul (PrimFloat.sub y1 y0) (PrimFloat.sub y1 y0)))
                   (rnd (px + py))).
  { apply fin_add; [exact Fpx | exact Fpy |].
    rewrite Rabs_pos_eq by lra.
    apply Rle_trans with (b2 1000 + b2 1000); [lra|].
    apply Rle_trans with (b2 1001); [|apply bpow_le; lia].
    change 1001%Z with (1000 + 1)%Z. rewrite bpow_plus. simpl (b2 1). lra. }
  exists (rnd (rsqrt (rnd (px + py)))). split; [|split; assumption].
  apply fin_sqrt; [exact Fs | apply Bs].
Qed.

(* Per-segment bound.  For a segment whose four stored coordinates are finite and whose
   exact differences are in range, the float the loop adds is finite and within
   (1+u)^3 - 1 (relative) of the Euclidean length of the segment between the stored
   points. *)
Theorem f_segment_length_bound : forall x0 y0 x1 y1,
  f_finite4 x0 y0 x1 y1 = true -> seg_in_range (x0, y0, x1, y1) ->
  ffinite (f_seglen x0 y0 x1 y1) = true /\
  Rabs (fvalue (f_seglen x0 y0 x1 y1) - seg_R (x0, y0, x1, y1))
    <= ((1 + u64) ^ 3 - 1) * seg_R (x0, y0, x1, y1).
Proof.
  intros x0 y0 x1 y1 Hf Hr.
  destruct (seg_core (x0, y0, x1, y1) Hf Hr) as (r & [F V] & Wr & _).
  cbn [fseg_len] in F, V. split; [exact F|]. rewrite V.
  apply W_abs; [apply sqrt_pos | exact Wr].
Qed.

(* ================================================================== *)
(** * 5. the accumulation                                                *)
(* ================================================================== *)

(* the Euclidean length of a list of segments of stored doubles *)
Definition segs_R (l : list fseg) : R := fold_right Rplus 0 (map seg_R l).

Lemma seg_R_pos : forall s, 0 <= seg_R s.
Proof. intros s. apply sqrt_pos. Qed.

Lemma segs_R_pos : forall l, 0 <= segs_R l.
Proof.
  induction l as [|s l IH]; [cbn; lra|].
  unfold segs_R in *. cbn [map fold_right]. pose proof (seg_R_pos s). lra.
Qed.

Lemma seg_R_le : forall s, seg_in_range s -> seg_R s <= b2 501.
Proof.
  intros s [Hx Hy]. unfold seg_R. rewrite <- sqrt_bpow2. apply sqrt_le_1_alt.
  assert (Q : forall d, in_range d -> d * d <= b2 1000).
  { intros d Hd. destruct (sq_range d Hd) as [E|[_ E]]; [rewrite E; apply bpow_ge_0 | exact E]. }
  pose proof (Q _ Hx). pose proof (Q _ Hy).
  apply Rle_trans with (b2 1001); [|apply bpow_le; lia].
  change 1001%Z with (1000 + 1)%Z. rewrite bpow_plus. simpl (b2 1). lra.
Qed.

Lemma fsum_core : forall l t acc a A,
  Forall (fun s => fseg_finite s = true) l -> Forall seg_in_range l ->
  (1 <= t)%nat -> (Z.of_nat (t + length l) <= 2 ^ 50)%Z ->
  fin acc a -> 0 <= A -> W (t + 2) a A -> A <= IZR (Z.of_nat t) * b2 501 ->
  exists a', fin (fsum_from acc l) a' /\ W (t + length l + 2) a' (A + segs_R l).
Proof.
  induction l as [|s l IH]; intros t acc a A HF HR Ht HT Ha HA HW HB.
  - exists a. cbn [fsum_from fold_left length segs_R map fold_right].
    rewrite Nat.add_0_r, Rplus_0_r. split; assumption.
  - inversion HF as [|? ? F1 F2]; inversion HR as [|? ? R1 R2]; subst.
    destruct (seg_core s F1 R1) as (r & Fr & Wr & Br).
    pose proof (seg_R_pos s) as L0. pose proof (seg_R_le s R1) as L1.
    cbn [length] in HT.
    assert (W3 : W (t + 2) r (seg_R s)) by (apply (W_mono 3); [lia | exact L0 | exact Wr]).
    pose proof (W_plus _ _ _ _ _ HW W3) as Wsum.
    destruct (rnd_plus_rel a r (fin_fmt _ _ Ha) (fin_fmt _ _ Fr)) as (e & He & E).
    assert (A0 : 0 <= a) by (apply (W_nonneg _ _ _ HA HW)).
    assert (A1 : a <= 2 * A).
    { destruct HW as [_ HW]. apply Rle_trans with (1 := HW).
      apply Rmult_le_compat_r; [exact HA|]. apply pow_hi_le2. lia. }
    assert (T1 : IZR (Z.of_nat t) * b2 501 <= b2 551).
    { change 551%Z with (50 + 501)%Z. rewrite bpow_plus.
      apply Rmult_le_compat_r; [apply bpow_ge_0|].
      change (b2 50) with (IZR (Zpower radix2 50)). apply IZR_le.
      change (Zpower radix2 50) with (2 ^ 50)%Z. lia. }
    assert (Fa' : fin (PrimFloat.add acc (fseg_len s)) (rnd (a + r))).
    { apply fin_add; [exact Ha | exact Fr |].
      rewrite Rabs_pos_eq by lra.
      assert (b2 501 <= b2 551) by (apply bpow_le; lia).
      assert (b2 553 <= b2 1023) by (apply bpow_le; lia).
      assert (b2 553 = b2 551 * 4) by (change 553%Z with (551 + 2)%Z; rewrite bpow_plus; simpl (b2 2); lra).
      lra. }
    destruct (IH (t + 1)%nat (PrimFloat.add acc (fseg_len s)) (rnd (a + r)) (A + seg_R s))
      as (a' & Fa & Wa); try assumption; try lia.
    + lra.
    + rewrite E. replace (t + 1 + 2)%nat with (S (t + 2)) by lia.
      apply W_step; [lra | exact Wsum | exact He].
    + rewrite Nat2Z.inj_add, plus_IZR. change (IZR (Z.of_nat 1)) with 1. lra.
    + exists a'. cbn [fsum_from fold_left] in *. split; [exact Fa|].
      replace (t + length (s :: l) + 2)%nat with (t + 1 + length l + 2)%nat by (cbn [length]; lia).
      unfold segs_R in *. cbn [map fold_right]. rewrite <- Rplus_assoc. exact Wa.
Qed.

Lemma fsum_zero : forall l,
  Forall (fun s => fseg_finite s = true) l -> Forall seg_in_range l ->
  (Z.of_nat (length l) <= 2 ^ 50)%Z ->
  exists a, fin (fsum_from zero l) a /\ W (length l + 2) a (segs_R l).
Proof.
  intros [|s l] HF HR HT.
  - exists 0. split; [apply fin_zero | apply W_zero].
  - inversion HF as [|? ? F1 F2]; inversion HR as [|? ? R1 R2]; subst.
    destruct (seg_core s F1 R1) as (r & Fr & Wr & Br).
    pose proof (seg_R_pos s) as L0. pose proof (seg_R_le s R1) as L1.
    (* the first addition 0 + r is exact *)
    assert (F0 : fin (PrimFloat.add zero (fseg_len s)) r).
    { pose proof (fin_add _ _ _ _ fin_zero Fr) as H. rewrite Rplus_0_l in H.
      rewrite round_generic in H; [| auto with typeclass_instances | eapply fin_fmt; exact Fr].
      apply H. rewrite Rabs_pos_eq by lra. apply Rle_trans with (b2 501); [lra | apply bpow_le; lia]. }
    cbn [length] in HT.
    destruct (fsum_core l 1%nat (PrimFloat.add zero (fseg_len s)) r (seg_R s) F2 R2) as (a' & Fa & Wa); try assumption; try lia.
    + change (IZR (Z.of_nat 1)) with 1. lra.
    + exists a'. cbn [fsum_from fold_left] in *. split; [exact Fa|].
      replace (length (s :: l) + 2)%nat with (1 + length l + 2)%nat by (cbn [length]; lia).
      exact Wa.
Qed.

(* The bound for the model.  [fseg_terms vals offs] is the list of segments the loops of
   compute_line_length add (f_length_structure: consecutive vertices of each ring with
   both ends finite, in order).  If every one of them is in range and there are at most
   2^50 of them, the float length is finite and
       |length - L| <= ((1+u)^(n+2) - 1) * L
   with L the Euclidean length over R of those segments of the stored doubles. *)
Theorem f_length_bound : forall vals offs,
  Forall seg_in_range (fseg_terms vals offs) ->
  (Z.of_nat (length (fseg_terms vals offs)) <= 2 ^ 50)%Z ->
  ffinite (f_compute_line_length vals offs) = true /\
  Rabs (fvalue (f_compute_line_length vals offs) - segs_R (fseg_terms vals offs))
    <= ((1 + u64) ^ (length (fseg_terms vals offs) + 2) - 1) * segs_R (fseg_terms vals offs).
Proof.
  intros vals offs HR HT.
  unfold f_compute_line_length. rewrite fll_loop_sum.
  destruct (fsum_zero _ (fseg_terms_finite vals offs) HR HT) as (a & [F V] & Wa).
  split; [exact F|]. rewrite V. apply W_abs; [apply segs_R_pos | exact Wa].
Qed.

(* the two-sided form, which is slightly stronger than the symmetric one *)
Theorem f_length_bound_interval : forall vals offs,
  Forall seg_in_range (fseg_terms vals offs) ->
  (Z.of_nat (length (fseg_terms vals offs)) <= 2 ^ 50)%Z ->
  let n := length (fseg_terms vals offs) in
  let L := segs_R (fseg_terms vals offs) in
  (1 - u64) ^ (n + 2) * L <= fvalue (f_compute_line_length vals offs) <= (1 + u64) ^ (n + 2) * L.
Proof.
  intros vals offs HR HT n L.
  unfold f_compute_line_length. rewrite fll_loop_sum.
  destruct (fsum_zero _ (fseg_terms_finite vals offs) HR HT) as (a & [F V] & Wa).
  rewrite V. exact Wa.
Qed.

(* ================================================================== *)
(** * 6. against the specification: integer-valued coordinates           *)
(* ================================================================== *)

Lemma int_in_range : forall z, (Z.abs z <= 2 ^ 500)%Z -> in_range (IZR z).
Proof.
  intros z Hz. destruct (Z.eq_dec z 0) as [E|NE]; [left; subst z; reflexivity | right].
  rewrite <- abs_IZR. split.
  - apply Rle_trans with 1; [change 1 with (b2 0); apply bpow_le; lia | apply IZR_le; lia].
  - rewrite <- (IZR_Zpower radix2 500) by lia. apply IZR_le. exact Hz.
Qed.

(* a segment of floats holding integers of magnitude <= 2^499: in range, and its
   Euclidean length is the sqrt of the integer the exact model computes *)
Lemma seg_int : forall s, seg_readable (2 ^ 499) s -> fseg_finite s = true ->
  seg_in_range s /\ seg_R s = rsqrt (IZR (zsq abv s)).
Proof.
  intros [[[x0 y0] x1] y1] (R0 & R1 & R2 & R3) Hf.
  unfold fseg_finite, f_finite4 in Hf.
  apply andb_prop in Hf. destruct Hf as [Hf F3]. apply andb_prop in Hf. destruct Hf as [Hf F2].
  apply andb_prop in Hf. destruct Hf as [F0 F1].
  destruct (R0 F0) as (a & Ra & Ba), (R1 F1) as (b & Rb & Bb),
           (R2 F2) as (c & Rc & Bc), (R3 F3) as (d & Rd & Bd).
  unfold zsq. rewrite (abv_frep _ _ Ra), (abv_frep _ _ Rb), (abv_frep _ _ Rc), (abv_frep _ _ Rd).
  destruct Ra as [_ Va], Rb as [_ Vb], Rc as [_ Vc], Rd as [_ Vd].
  unfold seg_in_range, seg_R, seg_dx, seg_dy. rewrite Va, Vb, Vc, Vd, <- !minus_IZR.
  assert (P : (2 ^ 500 = 2 * 2 ^ 499)%Z) by reflexivity.
  split; [split; apply int_in_range; lia|].
  unfold sqdist. rewrite plus_IZR, !mult_IZR. reflexivity.
Qed.

Lemma segs_int : forall l, Forall (seg_readable (2 ^ 499)) l ->
  Forall (fun s => fseg_finite s = true) l ->
  Forall seg_in_range l /\ segs_R l = length_R (map (zsq abv) l).
Proof.
  induction l as [|s l IH]; intros HR HF; [split; [constructor | reflexivity]|].
  inversion HR as [|? ? R1 R2]; inversion HF as [|? ? F1 F2]; subst.
  destruct (seg_int s R1 F1) as [I1 E1]. destruct (IH R2 F2) as [I2 E2].
  split; [constructor; assumption|].
  unfold segs_R, length_R in *. cbn [map fold_right]. rewrite E1, E2. reflexivity.
Qed.

(* The gap closed for the exact specification: coordinates are floats holding the
   integers zs (|z| <= 2^499); [ts] is the list of squared segment lengths of the exact
   model (C14_length_terms / C14_length_is_euclidean: its length is [length_R ts], the sum
   over R of sqrt (IZR t)).  Then the float length is finite and within
   (1+u)^(n+2) - 1, relative, of that real number -- perfect squares or not. *)
Theorem f_length_bound_int : forall fv zs offs,
  Forall2 frep fv zs -> Forall (fun z => (Z.abs z <= 2 ^ 499)%Z) zs ->
  (Z.of_nat (length (fst (compute_line_length (map Some zs) offs))) <= 2 ^ 50)%Z ->
  ffinite (f_compute_line_length fv offs) = true /\
  Rabs (fvalue (f_compute_line_length fv offs)
        - length_R (fst (compute_line_length (map Some zs) offs)))
    <= ((1 + u64) ^ (length (fst (compute_line_length (map Some zs) offs)) + 2) - 1)
       * length_R (fst (compute_line_length (map Some zs) offs)).
Proof.
  intros fv zs offs Hrep Hb HT.
  destruct (f_length_structure abv abv_finite fv offs) as (_ & HF & H3).
  rewrite (map_abv fv zs Hrep) in H3.
  destruct (segs_int _ (fseg_terms_readable fv zs _ Hrep Hb offs) HF) as [HR E].
  rewrite <- H3 in *. rewrite map_length in *. rewrite <- E.
  apply f_length_bound; assumption.
Qed.

(* ================================================================== *)
(** * 7. a sufficient condition on the stored coordinates                *)
(* ================================================================== *)

(* every finite coordinate is 0 or has magnitude in [2^-400, 2^400] *)
Definition coord_ok (f : pfloat) : Prop :=
  f_isfinite f = true -> fvalue f = 0 \/ b2 (-400) <= Rabs (fvalue f) <= b2 400.

(* such doubles are integer multiples of 2^-452 *)
Lemma coord_grid : forall x, fmt x -> x = 0 \/ b2 (-400) <= Rabs x ->
  exists m, x = IZR m * b2 (-452).
Proof.
  intros x Fx [E|H].
  - exists 0%Z. rewrite E. ring.
  - apply (ex_shift radix2 fexp64); [exact Fx|].
    pose proof (mag_ge_bpow radix2 x (-399) H) as M.
    unfold cexp, FLT_exp, emax, prec. lia.
Qed.

Lemma grid_in_range : forall x0 x1,
  (exists m, x0 = IZR m * b2 (-452)) -> (exists m, x1 = IZR m * b2 (-452)) ->
  Rabs x0 <= b2 400 -> Rabs x1 <= b2 400 -> in_range (x1 - x0).
Proof.
  intros x0 x1 [m0 E0] [m1 E1] B0 B1.
  destruct (Z.eq_dec m1 m0) as [E|NE]; [left; subst; ring | right].
  split.
  - replace (x1 - x0) with (IZR (m1 - m0) * b2 (-452)) by (rewrite minus_IZR; subst; ring).
    rewrite Rabs_mult, (Rabs_pos_eq (b2 (-452))) by apply bpow_ge_0.
    apply Rle_trans with (1 * b2 (-452)); [rewrite Rmult_1_l; apply bpow_le; lia|].
    apply Rmult_le_compat_r; [apply bpow_ge_0|]. rewrite <- abs_IZR. apply IZR_le. lia.
  - apply Rle_trans with (Rabs x1 + Rabs x0).
    + unfold Rminus. apply Rle_trans with (1 := Rabs_triang _ _). rewrite Rabs_Ropp. lra.
    + apply Rle_trans with (b2 401); [|apply bpow_le; lia].
      change 401%Z with (400 + 1)%Z. rewrite bpow_plus. simpl (b2 1). lra.
Qed.

Definition seg_coords (P : pfloat -> Prop) (s : fseg) : Prop :=
  let '(x0, y0, x1, y1) := s in P x0 /\ P y0 /\ P x1 /\ P y1.

Lemma fseg_inner_coords : forall (P : pfloat -> Prop) vals,
  (forall i, P (fget vals i)) -> forall n i x0 y0, P x0 -> P y0 ->
  Forall (seg_coords P) (fseg_inner vals n i x0 y0).
Proof.
  intros P vals HP. induction n as [|n IH]; intros i x0 y0 Hx Hy; cbn [fseg_inner]; [constructor|].
  destruct (f_finite4 x0 y0 (fget vals i) (fget vals (i + 1))); [constructor|]; auto.
  cbn. auto.
Qed.

Lemma fseg_terms_coords : forall (P : pfloat -> Prop) vals offs,
  (forall i, P (fget vals i)) -> Forall (seg_coords P) (fseg_terms vals offs).
Proof.
  intros P vals offs HP. induction offs as [|start t IH]; [constructor|].
  destruct t as [|stop t']; [constructor|].
  rewrite fseg_terms_cons. apply Forall_app. split; [|exact IH].
  destruct (Nat.ltb (stop - start) 4); [constructor|].
  apply fseg_inner_coords; auto.
Qed.

Lemma coord_ok_fget : forall vals, Forall coord_ok vals -> forall i, coord_ok (fget vals i).
Proof.
  intros vals H i. unfold fget. destruct (nth_in_or_default i vals nan) as [I|E].
  - rewrite Forall_forall in H. apply H, I.
  - rewrite E. intros F. vm_compute in F. discriminate.
Qed.

Lemma seg_coords_in_range : forall s, seg_coords coord_ok s -> fseg_finite s = true ->
  seg_in_range s.
Proof.
  intros [[[x0 y0] x1] y1] (C0 & C1 & C2 & C3) Hf.
  unfold fseg_finite, f_finite4 in Hf.
  apply andb_prop in Hf. destruct Hf as [Hf F3]. apply andb_prop in Hf. destruct Hf as [Hf F2].
  apply andb_prop in Hf. destruct Hf as [F0 F1].
  assert (G : forall f, f_isfinite f = true -> coord_ok f ->
              (exists m, fvalue f = IZR m * b2 (-452)) /\ Rabs (fvalue f) <= b2 400).
  { intros f F C. specialize (C F). split.
    - apply coord_grid; [apply (fin_fmt f), fin_of_finite, F|]. tauto.
    - destruct C as [C|[_ C]]; [rewrite C, Rabs_R0; apply bpow_ge_0 | exact C]. }
  destruct (G _ F0 C0), (G _ F1 C1), (G _ F2 C2), (G _ F3 C3).
  split; cbn [seg_dx seg_dy]; apply grid_in_range; assumption.
Qed.

(* the bound under a hypothesis on the coordinates alone *)
Theorem f_length_bound_coords : forall vals offs,
  Forall coord_ok vals ->
  (Z.of_nat (length (fseg_terms vals offs)) <= 2 ^ 50)%Z ->
  ffinite (f_compute_line_length vals offs) = true /\
  Rabs (fvalue (f_compute_line_length vals offs) - segs_R (fseg_terms vals offs))
    <= ((1 + u64) ^ (length (fseg_terms vals offs) + 2) - 1) * segs_R (fseg_terms vals offs).
Proof.
  intros vals offs HC HT. apply f_length_bound; [|exact HT].
  pose proof (fseg_terms_coords coord_ok vals offs (coord_ok_fget vals HC)) as H1.
  pose proof (fseg_terms_finite vals offs) as H2.
  rewrite Forall_forall in *. intros s Hs. apply seg_coords_in_range; auto.
Qed.

(* ================================================================== *)
(** * 8. the constants spelled out; non-vacuity                          *)
(* ================================================================== *)

Lemma b2_pow : forall n, b2 (Z.of_nat n) = 2 ^ n.
Proof.
  intros n. rewrite <- (IZR_Zpower radix2) by lia. rewrite pow_IZR. reflexivity.
Qed.

Lemma b2_pow_neg : forall n, b2 (- Z.of_nat n) = / 2 ^ n.
Proof. intros n. rewrite bpow_opp, b2_pow. reflexivity. Qed.

Theorem u64_value : u64 = / 2 ^ 53.
Proof. unfold u64. change (-53)%Z with (- Z.of_nat 53)%Z. apply b2_pow_neg. Qed.

Theorem in_range_spec : forall d,
  in_range d <-> (d = 0 \/ / 2 ^ 500 <= Rabs d <= 2 ^ 500).
Proof.
  intros d. unfold in_range.
  change (-500)%Z with (- Z.of_nat 500)%Z. change 500%Z with (Z.of_nat 500).
  rewrite b2_pow_neg, b2_pow. tauto.
Qed.

Theorem seg_in_range_spec : forall x0 y0 x1 y1,
  seg_in_range (x0, y0, x1, y1) <->
  (let dx := fvalue x1 - fvalue x0 in dx = 0 \/ / 2 ^ 500 <= Rabs dx <= 2 ^ 500) /\
  (let dy := fvalue y1 - fvalue y0 in dy = 0 \/ / 2 ^ 500 <= Rabs dy <= 2 ^ 500).
Proof.
  intros. unfold seg_in_range. cbn [seg_dx seg_dy]. rewrite !in_range_spec. tauto.
Qed.

Theorem coord_ok_spec : forall f,
  coord_ok f <->
  (f_isfinite f = true ->
   fvalue f = 0 \/ / 2 ^ 400 <= Rabs (fvalue f) <= 2 ^ 400).
Proof.
  intros f. unfold coord_ok.
  change (-400)%Z with (- Z.of_nat 400)%Z. change 400%Z with (Z.of_nat 400).
  rewrite b2_pow_neg, b2_pow. tauto.
Qed.

Theorem seg_R_spec : forall x0 y0 x1 y1,
  seg_R (x0, y0, x1, y1) =
  rsqrt ((fvalue x1 - fvalue x0) * (fvalue x1 - fvalue x0) +
         (fvalue y1 - fvalue y0) * (fvalue y1 - fvalue y0)).
Proof. reflexivity. Qed.

(* the polyline (0,0), (1,1), (3,2): segments of length sqrt 2 and sqrt 5, neither an
   integer; the float model returns a double strictly between 3 and 4, which the theorem
   places within (1+u)^4 - 1 of sqrt 2 + sqrt 5 *)
Example ex_f_length_bound_sqrt2_sqrt5 :
  (PrimFloat.ltb (Z2F 3) (f_compute_line_length (map Z2F [0; 0; 1; 1; 3; 2]%Z) [0; 6]%nat) &&
   PrimFloat.ltb (f_compute_line_length (map Z2F [0; 0; 1; 1; 3; 2]%Z) [0; 6]%nat) (Z2F 4)) = true /\
  compute_line_length (map Some [0; 0; 1; 1; 3; 2]%Z) [0; 6]%nat = ([2; 5]%Z, None) /\
  ffinite (f_compute_line_length (map Z2F [0; 0; 1; 1; 3; 2]%Z) [0; 6]%nat) = true /\
  Rabs (fvalue (f_compute_line_length (map Z2F [0; 0; 1; 1; 3; 2]%Z) [0; 6]%nat)
        - (rsqrt 2 + rsqrt 5))
    <= ((1 + u64) ^ 4 - 1) * (rsqrt 2 + rsqrt 5).
Proof.
  split; [vm_compute; reflexivity|]. split; [vm_compute; reflexivity|].
  assert (Hb : Forall (fun z => (Z.abs z <= 2 ^ 499)%Z) [0; 0; 1; 1; 3; 2]%Z).
  { repeat constructor; apply Z.leb_le; vm_compute; reflexivity. }
  assert (Hr : Forall2 frep (map Z2F [0; 0; 1; 1; 3; 2]%Z) [0; 0; 1; 1; 3; 2]%Z).
  { apply frep_map_Z2F. repeat constructor; apply Z.leb_le; vm_compute; reflexivity. }
  assert (E : fst (compute_line_length (map Some [0; 0; 1; 1; 3; 2]%Z) [0; 6]%nat) = [2; 5]%Z)
    by (vm_compute; reflexivity).
  pose proof (f_length_bound_int _ _ [0; 6]%nat Hr Hb) as H. rewrite E in H.
  specialize (H ltac:(cbn; lia)).
  unfold length_R in H. cbn [map fold_right length Nat.add] in H. rewrite Rplus_0_r in H.
  exact H.
Qed.
