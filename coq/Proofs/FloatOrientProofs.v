(* Lemma library for the binary64 / any-value-type model of oriented() (Model/FloatOrient.v).
   The structural clause of C15 is transported from the integer model (Proofs/OrientProofs.v,
   flip_all_spec) by naturality: the reversal loop never looks at a value, so running it on a
   buffer [map g P] is running it on P and mapping g. *)
From Coq Require Import PrimFloat ZArith List Bool Arith Lia.
From SP Require Import Model.Num Model.Arrow Model.Measures Model.Orient Model.FloatMeasures
  Model.FloatOrient Proofs.BoundsProofs Spec.MeasuresSpec Spec.OrientSpec Proofs.OrientProofs
  Spec.FloatOrientSpec.
Import ListNotations.
Local Open Scope nat_scope.

(* ================================================================== *)
(** * 1. naturality of the list surgery                                   *)
(* ================================================================== *)
Section Naturality.
Context {A B : Type} (g : A -> B).

Lemma evens_map : forall l, evens (map g l) = map g (evens l).
Proof.
  intros l. pattern l. apply OrientProofs.list_ind2; clear l; try reflexivity.
  intros x y t IH. cbn [map evens]. f_equal. exact IH.
Qed.

Lemma odds_map : forall l, odds (map g l) = map g (odds l).
Proof.
  intros l. pattern l. apply OrientProofs.list_ind2; clear l; try reflexivity.
  intros x y t IH. cbn [map odds]. f_equal. exact IH.
Qed.

Lemma interleave_map : forall xs ys,
  interleave (map g xs) (map g ys) = map g (interleave xs ys).
Proof.
  induction xs as [|x xt IH]; intros ys; [reflexivity|].
  destruct ys as [|y yt]; [reflexivity|].
  cbn [map interleave]. do 2 f_equal. apply IH.
Qed.

Lemma slice_map : forall s e l, slice s e (map g l) = map g (slice s e l).
Proof. intros s e l. unfold slice. rewrite skipn_map, firstn_map. reflexivity. Qed.

Lemma rev_ring_g_map : forall r, rev_ring_g (map g r) = map g (rev_ring_g r).
Proof.
  intros r. unfold rev_ring_g.
  rewrite evens_map, odds_map, <- !map_rev. apply interleave_map.
Qed.

Lemma flip_ring_g_map : forall l a b,
  flip_ring_g (map g l) a b = map g (flip_ring_g l a b).
Proof.
  intros l a b. unfold flip_ring_g.
  rewrite slice_map, map_length, evens_map, odds_map, <- !map_rev, interleave_map,
    firstn_map, skipn_map, !map_app. reflexivity.
Qed.

Lemma orient_by_map : forall flips ro l,
  orient_by (map g l) flips ro = map g (orient_by l flips ro).
Proof.
  intros flips ro. induction flips as [|i t IH]; intros l; [reflexivity|].
  unfold orient_by in *. cbn [fold_left]. rewrite flip_ring_g_map. apply IH.
Qed.

Lemma ring_at_g_map : forall l ro j, ring_at_g (map g l) ro j = map g (ring_at_g l ro j).
Proof. intros. unfold ring_at_g. apply slice_map. Qed.
End Naturality.

(* ================================================================== *)
(** * 2. every buffer is the image of its positions                       *)
(* ================================================================== *)
Definition lookup {A} (d : A) (vals : list A) (t : num) : A :=
  match t with Some z => nth (Z.to_nat z) vals d | None => d end.

Lemma positions_length : forall n, length (positions n) = n.
Proof. intros n. unfold positions. rewrite map_length, seq_length. reflexivity. Qed.

Lemma map_nth_seq : forall {A} (d : A) (l : list A),
  map (fun i => nth i l d) (seq 0 (length l)) = l.
Proof.
  intros A d l. induction l as [|x t IH]; [reflexivity|].
  cbn [length seq map nth]. f_equal.
  rewrite <- seq_shift, map_map. exact IH.
Qed.

Lemma lookup_positions : forall {A} (d : A) (vals : list A),
  map (lookup d vals) (positions (length vals)) = vals.
Proof.
  intros A d vals. unfold positions. rewrite map_map.
  transitivity (map (fun i => nth i vals d) (seq 0 (length vals))); [|apply map_nth_seq].
  apply map_ext. intros i. unfold lookup. rewrite Nat2Z.id. reflexivity.
Qed.

(* ================================================================== *)
(** * 3. the reversal loop at any value type                              *)
(* ================================================================== *)

(* at the type of the integer model the generic loop IS flip_all *)
Lemma orient_by_num : forall (v : list num) flips ro, orient_by v flips ro = flip_all ro flips v.
Proof. reflexivity. Qed.

Lemma orient_by_spec : forall {A} (d : A) ro inds (vals : list A),
  mono ro = true -> last ro 0 <= length vals ->
  NoDup inds -> (forall i, In i inds -> i + 1 < length ro) ->
  length (orient_by vals inds ro) = length vals /\
  (forall j, j + 1 < length ro ->
     ring_at_g (orient_by vals inds ro) ro j =
     if existsb (Nat.eqb j) inds then rev_ring_g (ring_at_g vals ro j) else ring_at_g vals ro j) /\
  firstn (getn ro 0) (orient_by vals inds ro) = firstn (getn ro 0) vals /\
  skipn (last ro 0) (orient_by vals inds ro) = skipn (last ro 0) vals.
Proof.
  intros A d ro inds vals Hm Hl Hnd Hin.
  pose proof (lookup_positions d vals) as E.
  set (g := lookup d vals) in *. set (P := positions (length vals)) in *.
  assert (LP : length P = length vals) by apply positions_length.
  destruct (flip_all_spec ro inds P Hm ltac:(lia) Hnd Hin) as (L & R & F & S).
  rewrite <- E. rewrite orient_by_map, orient_by_num.
  split; [|split; [|split]].
  - rewrite !map_length. exact L.
  - intros j Hj. rewrite !ring_at_g_map.
    change (ring_at_g (flip_all ro inds P) ro j) with (ring_at (flip_all ro inds P) ro j).
    rewrite (R j Hj).
    destruct (existsb (Nat.eqb j) inds).
    + rewrite rev_ring_g_map. reflexivity.
    + reflexivity.
  - rewrite !firstn_map. f_equal. exact F.
  - rewrite !skipn_map. f_equal. exact S.
Qed.

(* ================================================================== *)
(** * 4. orient_polygons with the binary64 decision                       *)
(* ================================================================== *)
Lemma f_orient_unfold : forall {A} (to_f : A -> float) (vals : list A) po ro,
  f_orient_polygons to_f vals po ro =
  orient_by vals (filter (f_flips to_f vals po ro) (seq 0 (length ro - 1))) ro.
Proof. reflexivity. Qed.

(* every ring is kept or exactly reversed, according to the decision taken on the binary64
   areas of the ORIGINAL values; no value is created or altered; nothing else moves.
   Any value type, any values (NaN, infinities, integers that binary64 cannot hold). *)
Theorem f_orient_rings : forall {A} (d : A) (to_f : A -> float) (vals : list A) po ro,
  mono ro = true -> last ro 0 <= length vals ->
  let v' := f_orient_polygons to_f vals po ro in
  length v' = length vals /\
  (forall j, j < length ro - 1 ->
     ring_at_g v' ro j = if f_flips to_f vals po ro j then rev_ring_g (ring_at_g vals ro j)
                         else ring_at_g vals ro j) /\
  firstn (getn ro 0) v' = firstn (getn ro 0) vals /\
  skipn (last ro 0) v' = skipn (last ro 0) vals.
Proof.
  intros A d to_f vals po ro Hm Hl. cbv zeta. rewrite f_orient_unfold.
  destruct (orient_by_spec d ro (filter (f_flips to_f vals po ro) (seq 0 (length ro - 1))) vals Hm Hl)
    as (L & R & F & S).
  - apply NoDup_filter, seq_NoDup.
  - intros i Hi. apply filter_In in Hi. destruct Hi as [Hi _]. apply in_seq in Hi. lia.
  - split; [exact L|]. split; [|split; assumption].
    intros j Hj. rewrite R by lia. rewrite existsb_filter_seq by lia. reflexivity.
Qed.

(* [rev_ring_g] is the reversal of the vertex list *)
Lemma evens_odds_pairs_g : forall {A} (r : list A), Nat.even (length r) = true ->
  pairs_g r = combine (evens r) (odds r).
Proof.
  intros A r. pattern r. apply OrientProofs.list_ind2; clear r.
  - reflexivity.
  - intros x H. discriminate.
  - intros x y t IH H. cbn [pairs_g evens odds combine]. f_equal. apply IH. exact H.
Qed.

Lemma pairs_g_interleave : forall {A} (xs ys : list A), length xs = length ys ->
  pairs_g (interleave xs ys) = combine xs ys.
Proof.
  intros A xs. induction xs as [|x xt IH]; intros ys H; [reflexivity|].
  destruct ys as [|y yt]; [discriminate|].
  cbn [interleave pairs_g combine]. f_equal. apply IH. cbn in H. lia.
Qed.

Lemma combine_app_eq : forall {A} (l1 l1' l2 l2' : list A), length l1 = length l1' ->
  combine (l1 ++ l2) (l1' ++ l2') = combine l1 l1' ++ combine l2 l2'.
Proof.
  intros A l1. induction l1 as [|x t IH]; intros l1' l2 l2' H.
  - destruct l1'; [reflexivity|discriminate].
  - destruct l1' as [|y t']; [discriminate|].
    cbn [app combine]. f_equal. apply IH. cbn in H. lia.
Qed.

Lemma combine_rev : forall {A} (xs ys : list A), length xs = length ys ->
  combine (rev xs) (rev ys) = rev (combine xs ys).
Proof.
  intros A xs. induction xs as [|x xt IH]; intros ys H; [reflexivity|].
  destruct ys as [|y yt]; [discriminate|].
  cbn [rev combine]. cbn in H.
  rewrite <- IH by lia.
  rewrite combine_app_eq by (rewrite !rev_length; lia). reflexivity.
Qed.

Lemma evens_odds_length_even : forall {A} (r : list A), Nat.even (length r) = true ->
  length (evens r) = length (odds r).
Proof.
  intros A r. pattern r. apply OrientProofs.list_ind2; clear r.
  - reflexivity.
  - intros x H. discriminate.
  - intros x y t IH H. cbn [evens odds length]. f_equal. apply IH. exact H.
Qed.

Theorem pairs_rev_ring_g : forall {A} (r : list A), Nat.even (length r) = true ->
  pairs_g (rev_ring_g r) = rev (pairs_g r).
Proof.
  intros A r H. unfold rev_ring_g.
  pose proof (evens_odds_length_even r H) as L.
  rewrite pairs_g_interleave by (rewrite !rev_length; exact L).
  rewrite combine_rev by exact L. rewrite <- evens_odds_pairs_g by exact H. reflexivity.
Qed.

(* the same without an inhabitant of the value type *)
Lemma orient_by_nil : forall {A} inds ro, orient_by (@nil A) inds ro = [].
Proof.
  intros A inds ro. induction inds as [|i t IH]; [reflexivity|].
  unfold orient_by in *. cbn [fold_left].
  replace (flip_ring_g (@nil A) (getn ro i) (getn ro (i + 1))) with (@nil A); [exact IH|].
  unfold flip_ring_g, slice. rewrite skipn_nil, firstn_nil. cbn [evens odds rev interleave length].
  rewrite firstn_nil, skipn_nil. reflexivity.
Qed.

Theorem f_orient_rings_any : forall {A} (to_f : A -> float) (vals : list A) po ro,
  mono ro = true -> last ro 0 <= length vals ->
  let v' := f_orient_polygons to_f vals po ro in
  length v' = length vals /\
  (forall j, j < length ro - 1 ->
     ring_at_g v' ro j = if f_flips to_f vals po ro j then rev_ring_g (ring_at_g vals ro j)
                         else ring_at_g vals ro j) /\
  firstn (getn ro 0) v' = firstn (getn ro 0) vals /\
  skipn (last ro 0) v' = skipn (last ro 0) vals.
Proof.
  intros A to_f vals po ro Hm Hl. destruct vals as [|d t].
  - cbv zeta. rewrite f_orient_unfold, orient_by_nil.
    split; [reflexivity|]. split; [|split; reflexivity].
    intros j Hj. unfold ring_at_g, slice. rewrite skipn_nil, firstn_nil.
    destruct (f_flips to_f [] po ro j); reflexivity.
  - apply (f_orient_rings d); assumption.
Qed.

(* the decision is the one the integer model takes whenever the binary64 area of a ring has
   the sign (and zero-ness) of its exact doubled area [z] *)
Lemma f_flip_test_exact : forall (a : float) (z : Z) (c : bool),
  PrimFloat.ltb zero a = (0 <? z)%Z -> PrimFloat.eqb a zero = (z =? 0)%Z ->
  f_flip_test a c = flip_test (Some z) c.
Proof. intros a z c H1 H2. unfold f_flip_test, flip_test. rewrite H1, H2. reflexivity. Qed.
