(* C01 for PolygonArray / MultiPolygonArray: the array wrappers on any
   well-formed buffer representation. *)
From Coq Require Import ZArith Reals Lia Bool ZifyBool List Arith.
From SP Require Import Model.Num Model.Arrow Model.Bounds Model.PointKernels Model.Intersect
                       Spec.Plane Spec.IntersectSpec
                       Proofs.IntersectBase Proofs.IntersectPoints Proofs.IntersectLine
                       Proofs.IntersectPolygon Proofs.IntersectPolygonC Proofs.IntersectWnConst.
Import ListNotations.
Open Scope Z_scope.

(* element i of the whole-array result is the polygon kernel on the element's ring offsets *)
Theorem polygon_array_kernel : forall a bx0 by0 bx1 by1 r,
  polygon_array a (bx0, by0, bx1, by1) None = Some r ->
  exists vals o0 o1, finite_vals (buffer_values a) = Some vals /\
  buffer_offsets a = [o0; o1] /\ length r = la_len a /\
  forall i, (i < la_len a)%nat ->
    nth i r false =
    perform_polygon (Z.min bx0 bx1) (Z.min by0 by1) (Z.max bx0 bx1) (Z.max by0 by1)
                    vals o1 (getn o0 i) (getn o0 (S i)).
Proof.
  intros a bx0 by0 bx1 by1 r H. unfold polygon_array in H.
  destruct (wf_listarr a) eqn:W; cbn [negb] in H; [|discriminate].
  destruct (buffer_offsets a) as [|o0 [|o1 [|o2 rest]]] eqn:EO; try discriminate.
  destruct (finite_vals (buffer_values a)) as [vals|]; [|discriminate].
  rewrite starts_stops_none in H. inversion H; subst; clear H.
  exists vals, o0, o1. split; [reflexivity|]. split; [reflexivity|].
  pose proof (length_first_offsets a o0 [o1] W EO) as L.
  rewrite polygons_as_map.
  split; [rewrite map_length, combine_length, length_removelast, length_tl; lia|].
  intros i Hi. rewrite nth_map_opairs by lia.
  unfold polygon_kernel. now rewrite orient_box_spec.
Qed.

Theorem polygon_array_correct : forall a bx0 by0 bx1 by1 r,
  polygon_array a (bx0, by0, bx1, by1) None = Some r ->
  exists vals o0 o1, finite_vals (buffer_values a) = Some vals /\
  buffer_offsets a = [o0; o1] /\ length r = la_len a /\
  forall i, (i < la_len a)%nat -> bx0 <> bx1 -> by0 <> by1 ->
    let rings := rings_at vals o1 (getn o0 i) (getn o0 (S i)) in
    wf_ring_offsets vals o1 (getn o0 i) (getn o0 (S i)) ->
    holes_in_shell_bbox rings -> (forall ring, In ring rings -> ring_closed ring) ->
    (nth i r false = true <->
     exists P, in_zbox (Z.min bx0 bx1) (Z.min by0 by1) (Z.max bx0 bx1) (Z.max by0 by1) P /\
               poly_region rings P).
Proof.
  intros a bx0 by0 bx1 by1 r H.
  destruct (polygon_array_kernel a bx0 by0 bx1 by1 r H) as (vals & o0 & o1 & F & EO & L & K).
  exists vals, o0, o1. repeat (split; [assumption|]).
  intros i Hi Nx Ny rings W HB HC. rewrite (K i Hi).
  apply perform_polygon_correct; try assumption; lia.
Qed.

Theorem multipolygon_array_kernel : forall a bx0 by0 bx1 by1 r,
  multipolygon_array a (bx0, by0, bx1, by1) None = Some r ->
  exists vals o0 o1 o2, finite_vals (buffer_values a) = Some vals /\
  buffer_offsets a = [o0; o1; o2] /\ length r = la_len a /\
  forall i, (i < la_len a)%nat ->
    nth i r false =
    perform_multipolygon (Z.min bx0 bx1) (Z.min by0 by1) (Z.max bx0 bx1) (Z.max by0 by1)
                         vals o1 o2 (getn o0 i) (getn o0 (S i)).
Proof.
  intros a bx0 by0 bx1 by1 r H. unfold multipolygon_array in H.
  destruct (wf_listarr a) eqn:W; cbn [negb] in H; [|discriminate].
  destruct (buffer_offsets a) as [|o0 [|o1 [|o2 [|o3 rest]]]] eqn:EO; try discriminate.
  destruct (finite_vals (buffer_values a)) as [vals|]; [|discriminate].
  rewrite starts_stops_none in H. inversion H; subst; clear H.
  exists vals, o0, o1, o2. split; [reflexivity|]. split; [reflexivity|].
  pose proof (length_first_offsets a o0 [o1; o2] W EO) as L.
  rewrite multipolygons_as_map.
  split; [rewrite map_length, combine_length, length_removelast, length_tl; lia|].
  intros i Hi. rewrite nth_map_opairs by lia.
  unfold multipolygon_kernel. now rewrite orient_box_spec.
Qed.

Theorem multipolygon_array_correct : forall a bx0 by0 bx1 by1 r,
  multipolygon_array a (bx0, by0, bx1, by1) None = Some r ->
  exists vals o0 o1 o2, finite_vals (buffer_values a) = Some vals /\
  buffer_offsets a = [o0; o1; o2] /\ length r = la_len a /\
  forall i, (i < la_len a)%nat -> bx0 <> bx1 -> by0 <> by1 ->
    (forall s e, In (s, e) (opairs (slice (getn o0 i) (getn o0 (S i) + 1) o1)) ->
       wf_ring_offsets vals o2 s e /\ holes_in_shell_bbox (rings_at vals o2 s e) /\
       forall ring, In ring (rings_at vals o2 s e) -> ring_closed ring) ->
    (nth i r false = true <->
     exists P, in_zbox (Z.min bx0 bx1) (Z.min by0 by1) (Z.max bx0 bx1) (Z.max by0 by1) P /\
               multipoly_region (parts_at vals o1 o2 (getn o0 i) (getn o0 (S i))) P).
Proof.
  intros a bx0 by0 bx1 by1 r H.
  destruct (multipolygon_array_kernel a bx0 by0 bx1 by1 r H)
    as (vals & o0 & o1 & o2 & F & EO & L & K).
  exists vals, o0, o1, o2. repeat (split; [assumption|]).
  intros i Hi Nx Ny Hwf. rewrite (K i Hi).
  apply perform_multipolygon_correct; try assumption; lia.
Qed.

(* empty / missing polygons (no vertex between the element's offsets): False for any box *)
Theorem polygon_array_empty : forall a bx0 by0 bx1 by1 r vals o0 o1 i,
  polygon_array a (bx0, by0, bx1, by1) None = Some r ->
  finite_vals (buffer_values a) = Some vals -> buffer_offsets a = [o0; o1] ->
  (i < la_len a)%nat ->
  zpairs (slice (getn o1 (getn o0 i)) (getn o1 (getn o0 (S i))) vals) = [] ->
  nth i r false = false.
Proof.
  intros * H F EO Hi E.
  destruct (polygon_array_kernel a bx0 by0 bx1 by1 r H) as (vals' & o0' & o1' & F' & EO' & L & K).
  rewrite F in F'. inversion F'; subst vals'. rewrite EO in EO'. inversion EO'; subst o0' o1'.
  rewrite (K i Hi). now apply perform_polygon_empty.
Qed.
