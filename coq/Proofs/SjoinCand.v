(* C05: the linear scan used by the executable model satisfies the contract of
   the spatial index (so the contract is satisfiable, and the model evaluated by
   the correspondence check is an instance of the theorems). *)
From Coq Require Import ZArith List Bool Arith Lia.
From SP Require Import Model.Num Model.Arrow Model.Bounds Model.PointKernels Model.PointShape
                       Model.Sjoin Spec.BoundsSpec Proofs.BoundsProofs Spec.SjoinSpec.
Import ListNotations.
Local Open Scope nat_scope.

Lemma sel_in : forall A (f : nat * A -> bool) s (l : list A) x,
  In x (map fst (filter f (combine s l))) -> In x s.
Proof.
  induction s as [|y t IH]; intros l x H; [exact H|].
  destruct l as [|b l']; [contradiction|]. cbn in H.
  destruct (f (y, b)); cbn in H.
  - destruct H as [H|H]; [left; exact H|right; exact (IH l' x H)].
  - right. exact (IH l' x H).
Qed.

Lemma sel_nodup : forall A (f : nat * A -> bool) s (l : list A),
  NoDup s -> NoDup (map fst (filter f (combine s l))).
Proof.
  induction s as [|y t IH]; intros l H; [constructor|].
  destruct l as [|b l']; [constructor|]. inversion H; subst. cbn.
  destruct (f (y, b)); cbn.
  - constructor; [|apply IH; assumption]. intros Hin. apply sel_in in Hin. contradiction.
  - apply IH. assumption.
Qed.

Lemma combine_seq_nth : forall A (l : list A) d s i,
  i < List.length l -> In (s + i, nth i l d) (combine (seq s (List.length l)) l).
Proof.
  induction l as [|b t IH]; intros d s i Hi; [cbn in Hi; lia|].
  cbn [List.length seq combine]. destruct i as [|i].
  - left. f_equal. lia.
  - right. replace (s + S i) with (S s + i) by lia. cbn [nth]. apply IH. cbn in Hi. lia.
Qed.

Lemma cand_scan_contract : forall lb, cand_contract (List.length lb) lb (cand_scan lb).
Proof.
  intros lb. unfold cand_contract, cand_scan. repeat split.
  - intros q. apply sel_nodup. apply seq_NoDup.
  - intros q l H. apply sel_in in H. apply in_seq in H. lia.
  - intros q l _ Hl Ho. apply in_map_iff. exists (l, nth l lb nanbox). split; [reflexivity|].
    apply filter_In. split.
    + apply (combine_seq_nth _ lb nanbox 0 l Hl).
    + cbn [snd]. rewrite Ho. reflexivity.
Qed.

Lemma fa_bounds_length : forall a, wf_fixarr a = true -> List.length (fa_bounds a) = fa_len a.
Proof.
  intros a Hwf. rewrite (fa_bounds_rows a Hwf), map_length. unfold fa_decode.
  now rewrite map_length, seq_length.
Qed.

Lemma scan_cand_contract : forall a, wf_fixarr a = true ->
  cand_contract (fa_len a) (fa_bounds a) (scan_cand a).
Proof.
  intros a Hwf. unfold scan_cand. rewrite <- (fa_bounds_length a Hwf). apply cand_scan_contract.
Qed.
