(* C04: the selection theorems of .cx, proved for every geometry array that
   satisfies the per-class facts collected in [kind_ok]; Proofs/CxKinds.v
   establishes [kind_ok] for the array classes from the code path of
   Model/Intersect.v and the C13 / C01 lemma libraries; the spatial-index side
   is Proofs/RtreeProofs.v (C03). *)
From Coq Require Import ZArith List Bool Arith Lia Permutation Sorted.
From SP Require Import Model.Num Model.Arrow Model.Bounds Model.PointKernels
     Model.Intersect Model.Rtree Model.Cx.
From SP Require Import Spec.Boxes Spec.IntersectSpec Spec.CxSpec.
From SP Require Import Proofs.RtreeLists Proofs.RtreeProofs Proofs.CxLists.
Import ListNotations.
Local Open Scope nat_scope.

(* row i of self.bounds *)
Definition bb (g : garr) (i : nat) : bbox := nth i (g_bounds g) nanbox.

(* the query tuple (x0, y0, x1, y1) handed to covers_overlaps *)
Definition qbox (b : box) : list Z := let '(x0, y0, x1, y1) := b in [x0; y0; x1; y1].

(* what the selection theorems need to know about one array *)
Record kind_ok (g : garr) : Prop := {
  (* inside the domain of the C01 model (well-formed buffers, finite coordinates) *)
  k_total : forall b, exists r, g_intersects_bounds g b None = Some r /\ length r = g_len g;
  (* the at-[inds] form reads the whole-array form (C01_forms_agree) *)
  k_forms : forall b inds,
      g_intersects_bounds g b (Some inds) =
      match g_intersects_bounds g b None with
      | Some r => if forallb (fun j => Nat.ltb j (length r)) inds
                  then Some (map (fun j => nth j r false) inds) else None
      | None => None
      end;
  (* self.bounds has one well-formed row per element (C13) *)
  k_bounds_len : length (g_bounds g) = g_len g;
  k_wf_box : Forall (wf_box 2) (map row_of_bbox (g_bounds g));
  (* covered_implies_intersects: a row whose bounding box lies inside a box of
     positive width and height intersects it *)
  k_covered : forall x0 y0 x1 y1 (i : nat), (x0 < x1)%Z -> (y0 < y1)%Z -> i < g_len g ->
      coveredb 2 (row_of_bbox (bb g i)) [x0; y0; x1; y1] = true ->
      row_hits g (x0, y0, x1, y1) i = true;
  (* bbox reject: a row that intersects the box has a bounding box overlapping it *)
  k_reject : forall x0 y0 x1 y1 (i : nat), (x0 <= x1)%Z -> (y0 <= y1)%Z -> i < g_len g ->
      row_hits g (x0, y0, x1, y1) i = true ->
      overlapsb 2 (row_of_bbox (bb g i)) [x0; y0; x1; y1] = true
}.

Lemma nth_rows : forall g i, i < length (g_bounds g) ->
  nth i (map row_of_bbox (g_bounds g)) [] = row_of_bbox (bb g i).
Proof.
  intros g i Hi. unfold bb.
  rewrite (nth_indep _ [] (row_of_bbox nanbox)) by (rewrite map_length; exact Hi).
  apply map_nth.
Qed.

Lemma NoDup_app_filter : forall A (f : A -> bool) l1 l2,
  NoDup (l1 ++ l2) -> NoDup (l1 ++ filter f l2).
Proof.
  intros A f l1 l2. induction l1 as [|x t IH]; cbn; intros H.
  - apply NoDup_filter, H.
  - inversion H as [|? ? Hx Ht]; subst. constructor; [|apply IH, Ht].
    intros Hin. apply Hx. apply in_app_iff in Hin. apply in_app_iff.
    destruct Hin as [Hin|Hin]; [now left | right]. apply filter_In in Hin. tauto.
Qed.

(* ------------------------------------------------------------- no index *)
Theorem selects_exact_noindex : forall g xs ys x0 x1 y0 y1,
  kind_ok g ->
  get_bounds (new_obj g) xs ys = Some (Some x0, Some x1, Some y0, Some y1) ->
  cx_positions (new_obj g) xs ys = inr (cx_spec g (x0, y0, x1, y1)).
Proof.
  intros g xs ys x0 x1 y0 y1 K HB. unfold cx_positions. rewrite HB. cbn [go_sindex new_obj go_data].
  destruct (k_total g K (x0, y0, x1, y1)) as [r [Hr Hl]]. rewrite Hr.
  f_equal. rewrite mask_positions_filter, Hl. unfold cx_spec.
  apply filter_ext. intros i. unfold row_hits. now rewrite Hr.
Qed.

(* ----------------------------------------------------------- with index *)
Theorem selects_exact_index : forall g keys ps xs ys x0 x1 y0 y1,
  kind_ok g ->
  Permutation keys (seq 0 (g_len g)) ->
  get_bounds (build_sindex (new_obj g) keys ps) xs ys
    = Some (Some x0, Some x1, Some y0, Some y1) ->
  (x0 < x1)%Z -> (y0 < y1)%Z ->
  cx_positions (build_sindex (new_obj g) keys ps) xs ys = inr (cx_spec g (x0, y0, x1, y1)).
Proof.
  intros g keys ps xs ys x0 x1 y0 y1 K HP HB Hx Hy.
  unfold cx_positions. rewrite HB.
  cbn [build_sindex new_obj go_sindex go_data]. unfold sindex_build.
  set (rows := map row_of_bbox (g_bounds g)).
  set (q := [x0; y0; x1; y1]).
  assert (Hn : length rows = g_len g) by (unfold rows; rewrite map_length; apply (k_bounds_len g K)).
  assert (HP' : Permutation keys (seq 0 (length rows))) by (rewrite Hn; exact HP).
  assert (Hd : 1 <= 2) by lia.
  assert (Hq : length q = 2 * 2) by reflexivity.
  pose proof (k_wf_box g K) as Hwf. fold rows in Hwf.
  pose proof (fun i => C03_covers_In 2 rows keys ps q i Hd Hwf HP' Hq) as HC.
  pose proof (fun i => C03_overlaps_In 2 rows keys ps q i Hd Hwf HP' Hq) as HO.
  pose proof (C03_covers_overlaps_NoDup 2 rows keys ps q Hd Hwf HP' Hq) as HND.
  destruct (covers_overlaps (build 2 rows keys ps) q) as [cv ov] eqn:ECO.
  cbn [fst snd] in HC, HO, HND.
  destruct (k_total g K (x0, y0, x1, y1)) as [r [Hr Hl]].
  rewrite (k_forms g K), Hr.
  assert (Hall : forallb (fun j => Nat.ltb j (length r)) ov = true).
  { apply forallb_forall. intros j Hj. apply Nat.ltb_lt. rewrite Hl, <- Hn. apply HO, Hj. }
  rewrite Hall. f_equal. rewrite masked_map_filter.
  unfold cx_spec.
  assert (Hrow : forall i, i < g_len g -> nth i rows [] = row_of_bbox (bb g i)).
  { intros i Hi. unfold rows. apply nth_rows. rewrite (k_bounds_len g K). exact Hi. }
  assert (Hhit : forall i, nth i r false = row_hits g (x0, y0, x1, y1) i).
  { intros i. unfold row_hits. now rewrite Hr. }
  apply sort_to_filter.
  - apply NoDup_app_filter, HND.
  - intros i. rewrite in_app_iff, filter_In, HC, HO, Hn, Hhit. split.
    + intros [[Hi Hc]|[[Hi _] Hh]]; [|tauto].
      split; [exact Hi|]. apply (k_covered g K); try assumption. rewrite <- Hrow by exact Hi. exact Hc.
    + intros [Hi Hh].
      pose proof (k_reject g K x0 y0 x1 y1 i ltac:(lia) ltac:(lia) Hi Hh) as Hov.
      rewrite <- Hrow in Hov by exact Hi. fold q in Hov.
      destruct (coveredb 2 (nth i rows []) q) eqn:Ec; [left; tauto | right; tauto].
Qed.

(* ------------------------------------------------ with index = without index *)
(* the same box on both sides (all four ends given, or equal default extents:
   see root_is_extent in CxBounds.v) *)
Theorem index_irrelevant_box : forall g keys ps xs ys x0 x1 y0 y1,
  kind_ok g ->
  Permutation keys (seq 0 (g_len g)) ->
  get_bounds (new_obj g) xs ys = Some (Some x0, Some x1, Some y0, Some y1) ->
  get_bounds (build_sindex (new_obj g) keys ps) xs ys
    = Some (Some x0, Some x1, Some y0, Some y1) ->
  (x0 < x1)%Z -> (y0 < y1)%Z ->
  cx_positions (build_sindex (new_obj g) keys ps) xs ys = cx_positions (new_obj g) xs ys.
Proof.
  intros g keys ps xs ys x0 x1 y0 y1 K HP HB0 HB1 Hx Hy.
  rewrite (selects_exact_index g keys ps xs ys x0 x1 y0 y1 K HP HB1 Hx Hy).
  rewrite (selects_exact_noindex g xs ys x0 x1 y0 y1 K HB0). reflexivity.
Qed.

(* ------------------------------------------------ containers (oracle contract) *)
(* labels, payload and order: the rows handed back are the intersecting rows of
   the container, in their original order, whatever the index state *)
Theorem rows_travel : forall A g (o : gobj) (rows : list A) xs ys b,
  length rows = g_len g ->
  cx_positions o xs ys = inr (cx_spec g b) ->
  cx_rows o rows xs ys = Some (rows_spec g b rows).
Proof.
  intros A g o rows xs ys b Hl Hp. unfold cx_rows. rewrite Hp.
  unfold cx_spec, rows_spec. rewrite <- Hl.
  destruct rows as [|r t]; [reflexivity|].
  f_equal. apply take_rows_filter.
Qed.

(* the no-index path hands pandas the boolean mask itself: same rows *)
Theorem mask_rows_travel : forall A g (rows : list A) b r,
  length rows = g_len g ->
  g_intersects_bounds g b None = Some r -> length r = g_len g ->
  mask_rows rows r = rows_spec g b rows.
Proof.
  intros A g rows b r Hl Hr Hlr. unfold rows_spec.
  assert (E : r = map (fun i => nth i r false) (seq 0 (length rows)))
    by (rewrite Hl, <- Hlr; symmetry; apply map_nth_seq).
  rewrite E at 1. rewrite mask_rows_filter. f_equal. apply filter_ext. intros [i x]. cbn.
  unfold row_hits. rewrite Hr. reflexivity.
Qed.

(* ------------------------------------------------------- index state *)
Theorem second_build_keeps_first : forall o keys ps keys' ps',
  build_sindex (build_sindex o keys ps) keys' ps' = build_sindex o keys ps.
Proof.
  intros o keys ps keys' ps'. unfold build_sindex.
  destruct (go_sindex o) eqn:E; cbn; [rewrite E|]; reflexivity.
Qed.

Theorem derived_has_no_index : forall o g', go_sindex (derived_obj o g') = None.
Proof. reflexivity. Qed.

(* ------------------------------------------ the index configuration is irrelevant *)
(* for EVERY key (also boxes of zero extent, also NaN ends): two indexes built on
   the same array with any two (keys, page_size) give the same .cx answer.  This is
   what lets the correspondence check run the model with the identity permutation
   instead of the private [_keys] array of the real index. *)
Lemma sort_nat_perm_eq : forall l l', Permutation l l' -> sort_nat l = sort_nat l'.
Proof.
  intros l l' P. apply sorted_perm_eq; try apply sort_nat_sorted.
  eapply perm_trans; [apply sort_nat_perm|]. eapply perm_trans; [exact P|].
  apply Permutation_sym, sort_nat_perm.
Qed.

Theorem index_config_irrelevant : forall g keys ps keys' ps' xs ys,
  kind_ok g ->
  Permutation keys (seq 0 (g_len g)) -> Permutation keys' (seq 0 (g_len g)) ->
  cx_positions (build_sindex (new_obj g) keys ps) xs ys
  = cx_positions (build_sindex (new_obj g) keys' ps') xs ys.
Proof.
  intros g keys ps keys' ps' xs ys K HP HP'.
  set (rows := map row_of_bbox (g_bounds g)).
  assert (Hn : length rows = g_len g) by (unfold rows; rewrite map_length; apply (k_bounds_len g K)).
  pose proof (k_wf_box g K) as Hwf. fold rows in Hwf.
  assert (Hd : 1 <= 2) by lia.
  assert (P1 : Permutation keys (seq 0 (length rows))) by (rewrite Hn; exact HP).
  assert (P2 : Permutation keys' (seq 0 (length rows))) by (rewrite Hn; exact HP').
  assert (TB : total_bounds (build 2 rows keys ps) = total_bounds (build 2 rows keys' ps')).
  { rewrite !C03_total_bounds_box; try assumption; try reflexivity; apply (wf_len 2 rows Hwf). }
  assert (GB : get_bounds (build_sindex (new_obj g) keys ps) xs ys
               = get_bounds (build_sindex (new_obj g) keys' ps') xs ys).
  { unfold get_bounds. cbn [build_sindex new_obj go_sindex go_data]. unfold sindex_build.
    fold rows. rewrite TB. reflexivity. }
  unfold cx_positions. rewrite GB.
  destruct (get_bounds (build_sindex (new_obj g) keys' ps') xs ys) as [[[[x0 x1] y0] y1]|];
    [|reflexivity].
  cbn [build_sindex new_obj go_sindex go_data]. unfold sindex_build. fold rows.
  destruct x0 as [a|], y0 as [b|], x1 as [c|], y1 as [d|]; try (rewrite TB; reflexivity).
  set (q := [a; b; c; d]).
  assert (Hq : length q = 2 * 2) by reflexivity.
  destruct (C03_covers_overlaps 2 rows keys ps q Hd Hwf P1 Hq) as [C1 O1].
  destruct (C03_covers_overlaps 2 rows keys' ps' q Hd Hwf P2 Hq) as [C2 O2].
  pose proof (fun i => C03_overlaps_In 2 rows keys ps q i Hd Hwf P1 Hq) as HO1.
  pose proof (fun i => C03_overlaps_In 2 rows keys' ps' q i Hd Hwf P2 Hq) as HO2.
  destruct (covers_overlaps (build 2 rows keys ps) q) as [cv ov].
  destruct (covers_overlaps (build 2 rows keys' ps') q) as [cv' ov'].
  cbn [fst snd] in *.
  destruct (k_total g K (a, b, c, d)) as [r [Hr Hl]].
  rewrite !(k_forms g K), Hr.
  assert (A1 : forallb (fun j => Nat.ltb j (length r)) ov = true).
  { apply forallb_forall. intros j Hj. apply Nat.ltb_lt. rewrite Hl, <- Hn. apply HO1, Hj. }
  assert (A2 : forallb (fun j => Nat.ltb j (length r)) ov' = true).
  { apply forallb_forall. intros j Hj. apply Nat.ltb_lt. rewrite Hl, <- Hn. apply HO2, Hj. }
  rewrite A1, A2. f_equal. rewrite !masked_map_filter.
  apply sort_nat_perm_eq. apply Permutation_app.
  - eapply perm_trans; [exact C1 | apply Permutation_sym, C2].
  - apply Permutation_filter'. eapply perm_trans; [exact O1 | apply Permutation_sym, O2].
Qed.
